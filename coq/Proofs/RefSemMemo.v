(* Proofs/RefSemMemo.v — the memo table of one environment during evaluation:
   (1) entries never change once written ("frozen"),
   (2) in a diagnostic-free run every call of eval_expr returns the value finally memoised for its identity, the
       reference walk returns what the pure function [resolve] reads off the memo table, and
   (3) the memoised value of an object / array literal stores, for each key / index, the memoised value of the
       child identity; that of a reference stores the resolved value ([Q]). *)
From Verif Require Import Base.Bytes Model.Chain Model.GoText Model.Envelope Model.Eval
  Proofs.EvalTotalBase Proofs.EvalTotalInv Proofs.EvalTotalOrder Proofs.EvalTotalSyntax Proofs.EvalTotalFail
  Proofs.EvalTotalRecover Proofs.EvalTotalBound.
From Coq Require Import Lia.

(* ------------------------------------------------------------------------------------------------ *)
(* 0. generic: a state predicate kept by the bodies, callbacks only at CONSISTENT arguments            *)
(* ------------------------------------------------------------------------------------------------ *)
Definition xbstep (stp : idstep) (xb : chain) : chain :=
  match stp with IKey k => property k xb | IIdx _ => [] end.
(* the base handed down to the expression at identity path q *)
Definition xb (b : chain) (q : list idstep) : chain := fold_left (fun acc stp => xbstep stp acc) q b.
Lemma xb_app b q stp : xb b (q ++ [stp]) = xbstep stp (xb b q).
Proof. unfold xb. rewrite fold_left_app. reflexivity. Qed.

(* only the text under fn::secret is evaluated with the secret flag *)
Definition secok (b : bool) (y : expr) : Prop := b = false \/ exists s, y = EStr s.

Section KEEP.
Variable W : world.
Variable I : st -> Prop.
Hypothesis I_add_err : forall n s, I s -> I (snd (add_err n s)).
Hypothesis I_emit : forall e s, I s -> I (snd (emit e s)).
Hypothesis I_call : forall s, I s -> I (snd (call W s)).
Hypothesis I_oof : forall s, I s -> I (snd (out_of_fuel s)).

Definition keeps {A} (m : M A) : Prop := forall s, I s -> I (snd (m s)).

Lemma keeps_ret {A} (a : A) : keeps (ret a). Proof. intros s H. exact H. Qed.
Lemma keeps_bind {A B} (m : M A) (k : A -> M B) : keeps m -> (forall a, keeps (k a)) -> keeps (bind m k).
Proof. intros Hm Hk s H. rewrite bind_eq. apply Hk, Hm, H. Qed.
Lemma keeps_add_err n : keeps (add_err n). Proof. intros s. apply I_add_err. Qed.
Lemma keeps_err : keeps err. Proof. apply keeps_add_err. Qed.
Lemma keeps_emit e : keeps (emit e). Proof. intros s. apply I_emit. Qed.
Lemma keeps_call : keeps (call W). Proof. intros s. apply I_call. Qed.
Lemma keeps_oof : keeps out_of_fuel. Proof. intros s. apply I_oof. Qed.

Ltac k_step :=
  first
  [ assumption
  | apply keeps_ret | apply keeps_err | apply keeps_add_err | apply keeps_emit | apply keeps_call | apply keeps_oof
  | apply keeps_bind; [ | intro ]
  | match goal with |- keeps (match ?x with _ => _ end) => destruct x eqn:? end
  | progress cbv beta zeta ].
Ltac k_tac := repeat k_step.

Lemma interp_go_keeps (ea : path -> M chain) ps :
  (forall p, keeps (ea p)) -> forall acc unk sec, keeps (interp_go ea ps acc unk sec).
Proof.
  intro H. induction ps as [|[text [p|]] r IH]; intros acc unk sec.
  - rewrite interp_go_nil. apply keeps_ret.
  - rewrite interp_go_ref. apply keeps_bind; [apply H|]. intro pv.
    destruct (to_string (ts_need pv) pv) as [[s0 u0] sc]. apply IH.
  - rewrite interp_go_text. apply IH.
Qed.

Lemma arr_go_keeps (ee : expr -> bool -> chain -> eid -> M chain) id es :
  forall i,
  (forall j e, nth_error es j = Some e -> keeps (ee e false [] (fst id, snd id ++ [IIdx (i + j)]))) ->
  forall acc, keeps (arr_go ee id es i acc).
Proof.
  induction es as [|e r IH]; intros i H acc.
  - rewrite arr_go_nil. apply keeps_ret.
  - rewrite arr_go_cons. apply keeps_bind.
    + specialize (H 0%nat e eq_refl). rewrite Nat.add_0_r in H. exact H.
    + intro v. apply IH. intros j e' Hj. specialize (H (S j) e' Hj).
      replace (S i + j)%nat with (i + S j)%nat by lia. exact H.
Qed.

Lemma obj_go_keeps (ee : expr -> bool -> chain -> eid -> M chain) xbase id ds :
  (forall j k e, In (j, k, e) ds -> keeps (ee e false (property k xbase) (fst id, snd id ++ [IKey k]))) ->
  forall acc, keeps (obj_go ee xbase id ds acc).
Proof.
  induction ds as [|[[j k] e] r IH]; intros H acc.
  - rewrite obj_go_nil. apply keeps_ret.
  - rewrite obj_go_cons. apply keeps_bind; [apply (H j k e); left; reflexivity|].
    intro v. apply IH. intros j' k' e' Hin. apply (H j' k' e'). right. exact Hin.
Qed.

Lemma typed_body_keeps ee x a id : keeps (ee x false [] id) -> keeps (typed_body ee x a id).
Proof. intro H. unfold typed_body. k_tac. Qed.

Lemma access_body_keeps wk E p :
  keeps (wk (root_of E) false (ec_base E) (ec_name E, []) p) -> keeps (access_body wk E p).
Proof.
  intro H. unfold access_body. destruct p as [|a0 rest]; [apply keeps_ret|].
  cbv zeta. rewrite root_dispatch. k_tac.
Qed.

Lemma walk_body_keeps ee wk rx rsec rbase rid accs :
  keeps (ee rx rsec rbase rid) ->
  (forall stp y b c accs', child rx stp = Some y -> c = xbstep stp rbase -> secok b y ->
     keeps (wk y b c (fst rid, snd rid ++ [stp]) accs')) ->
  keeps (walk_body ee wk rx rsec rbase rid accs).
Proof.
  intros Hee Hwk. unfold walk_body. destruct accs as [|a rest]; [exact Hee|].
  destruct rx; try solve [k_tac].
  - destruct (array_index a (Z.of_nat (length l))) as [i|] eqn:Ei; [|k_tac].
    apply array_index_lt in Ei. apply Hwk; [|reflexivity|left; reflexivity].
    cbn [child]. rewrite (nth_error_nth' l EMissing Ei). reflexivity.
  - destruct (object_key a) as [k|]; [|k_tac].
    destruct (find_entry k l 0%nat) as [[j px]|] eqn:Ef; [|k_tac].
    apply Hwk; [|reflexivity|left; reflexivity].
    cbn [child]. rewrite <- (find_entry_alookup k l 0%nat), Ef. reflexivity.
  - apply Hwk; [reflexivity|reflexivity|right; eauto].
Qed.

Lemma repr_body_keeps E ee et ea x xbase id :
  (forall stp e b c, child x stp = Some e -> c = xbstep stp xbase -> secok b e ->
     keeps (ee e b c (fst id, snd id ++ [stp]))) ->
  (forall stp e a, child x stp = Some e -> xbstep stp xbase = [] -> keeps (et e a (fst id, snd id ++ [stp]))) ->
  (forall p, keeps (ea p)) ->
  keeps (repr_body W ee et ea E x xbase id).
Proof.
  intros Hee Het Hea. destruct x; unfold repr_body.
  - apply keeps_ret. - apply keeps_ret. - apply keeps_ret. - apply keeps_ret.
  - apply interp_go_keeps, Hea.
  - apply Hea.
  - apply arr_go_keeps. intros j e Hj. apply Hee; [exact Hj|reflexivity|left; reflexivity].
  - destruct (declared l 0%nat []) as [decl dups] eqn:Ed. apply keeps_bind; [apply keeps_add_err|]. intros _.
    apply obj_go_keeps. intros j k e Hin. apply Hee; [|reflexivity|left; reflexivity]. cbn [child].
    apply In_sort_entries in Hin. replace decl with (fst (declared l 0%nat [])) in Hin by (rewrite Ed; reflexivity).
    destruct (declared_first l _ _ _ _ _ Hin) as [Hf _].
    rewrite <- (find_entry_alookup k l 0%nat), Hf. reflexivity.
  - apply keeps_bind; [apply (Het (IIdx 0)); reflexivity|]. intro dr.
    apply keeps_bind; [apply (Het (IIdx 1)); reflexivity|]. intro vr. k_tac.
  - apply keeps_bind; [apply (Hee (IIdx 0)); [reflexivity|reflexivity|left; reflexivity]|]. intro v. k_tac.
  - apply keeps_bind; [apply (Het (IIdx 0)); reflexivity|]. intro r. k_tac.
  - apply keeps_bind; [apply (Hee (IIdx 0)); [reflexivity|reflexivity|left; reflexivity]|]. intro v. k_tac.
  - apply keeps_bind; [apply (Het (IIdx 0)); reflexivity|]. intro r. k_tac.
  - apply keeps_bind; [apply (Het (IIdx 0)); reflexivity|]. intro r. k_tac.
  - apply (Hee (IIdx 0)); [reflexivity|reflexivity|right; eauto].
  - k_tac.
  - apply keeps_bind; [apply keeps_call|]. intro failed. apply keeps_bind; [apply keeps_emit|]. intros _.
    cbv zeta. apply keeps_bind; [k_tac|]. intros _.
    apply keeps_bind; [apply (Het (IIdx 0)); reflexivity|]. intros [iv ok]. k_tac.
  - apply keeps_ret.
Qed.

End KEEP.

(* ------------------------------------------------------------------------------------------------ *)
(* 1. frozen: a memo entry, once written (evaluating or done), is never changed by any sub-evaluation  *)
(* ------------------------------------------------------------------------------------------------ *)
Definition frozen (s s' : st) : Prop :=
  forall id, memo_get id (memo s) <> None -> memo_get id (memo s') = memo_get id (memo s).

Lemma frozen_refl s : frozen s s. Proof. intros id _. reflexivity. Qed.
Lemma frozen_trans a b c : frozen a b -> frozen b c -> frozen a c.
Proof. intros H1 H2 id H. rewrite (H2 id); [apply H1, H|]. rewrite (H1 id H). exact H. Qed.
Lemma frozen_same s s' : memo s' = memo s -> frozen s s'.
Proof. intros E id _. rewrite E. reflexivity. Qed.

Section FROZEN.
Variable W : world.
Notation fr := (pres frozen).

Lemma expr_body_frozen er x xsec xbase id :
  (forall x b i, fr (er x b i)) -> fr (expr_body er x xsec xbase id).
Proof.
  intros Her s. unfold expr_body. rewrite bind_eq. change (get_memo id s) with (memo_get id (memo s), s).
  cbn [fst snd]. destruct (memo_get id (memo s)) as [[v|]|] eqn:Em.
  - apply frozen_refl.
  - apply frozen_same. reflexivity.
  - rewrite bind_eq. cbv beta. rewrite bind_eq. cbv beta zeta. rewrite bind_eq.
    set (s1 := snd (memo_set id None s)).
    pose proof (Her x xbase id s1) as H12. set (s2 := snd (er x xbase id s1)) in *.
    intros id' Hid'.
    assert (Hne : eid_eqb id' id = false).
    { destruct (eid_eqb id' id) eqn:E; [|reflexivity]. apply eid_eqb_eq in E. subst. contradiction. }
    cbn [ret snd memo_set memo]. rewrite memo_get_cons, Hne.
    rewrite (H12 id'); unfold s1; cbn [memo_set snd memo]; rewrite memo_get_cons, Hne; [reflexivity|exact Hid'].
Qed.

Definition F5 (f : nat) : Prop :=
  (forall E x xsec xbase id, fr (eval_expr W f E x xsec xbase id)) /\
  (forall E x xbase id, fr (eval_repr W f E x xbase id)) /\
  (forall E x a id, fr (eval_typed W f E x a id)) /\
  (forall E p, fr (eval_access W f E p)) /\
  (forall E rx rsec rbase rid accs, fr (walk W f E rx rsec rbase rid accs)).

Lemma F5_all : forall f, F5 f.
Proof.
  assert (Hp : forall A (m : M A), (forall s, memo (snd (m s)) = memo s) -> fr m).
  { intros A m H s. apply frozen_same, H. }
  induction f as [|f IH].
  - unfold F5; split5; intros; apply Hp; reflexivity.
  - destruct IH as (He & Hr & Ht & Ha & Hw). unfold F5; split5; intros.
    + rewrite eval_expr_S. apply expr_body_frozen. intros; apply Hr.
    + rewrite eval_repr_S.
      apply (repr_body_pres W frozen (fun _ => True) frozen_refl frozen_trans); auto;
        try (intros; apply frozen_same; reflexivity).
    + rewrite eval_typed_S. apply (typed_body_pres frozen (fun _ => True) frozen_trans); auto.
      intros. apply frozen_same. reflexivity.
    + rewrite eval_access_S. apply (access_body_pres frozen (fun _ => True) frozen_refl); auto.
      intros. apply frozen_same. reflexivity.
    + rewrite walk_S. apply (walk_body_pres frozen (fun _ => True) frozen_trans); auto.
      intros. apply frozen_same. reflexivity.
Qed.

End FROZEN.

(* ------------------------------------------------------------------------------------------------ *)
(* 2. reading the memo table                                                                         *)
(* ------------------------------------------------------------------------------------------------ *)
Notation memo_t := (list (eid * option chain)).

Definition done (m : memo_t) (id : eid) : option chain :=
  match memo_get id m with Some (Some v) => Some v | _ => None end.
Definition donele (m m' : memo_t) : Prop := forall id v, done m id = Some v -> done m' id = Some v.

Lemma donele_refl m : donele m m. Proof. intros id v H. exact H. Qed.
Lemma donele_trans a b c : donele a b -> donele b c -> donele a c.
Proof. intros H1 H2 id v H. apply H2, H1, H. Qed.
Lemma frozen_donele s s' : frozen s s' -> donele (memo s) (memo s').
Proof.
  intros H id v Hd. unfold done in *. destruct (memo_get id (memo s)) as [[w|]|] eqn:E; try discriminate.
  rewrite (H id); [rewrite E; exact Hd|]. rewrite E. discriminate.
Qed.

(* a diagnostic-free, fuel-sufficient state *)
Definition clean (s : st) : Prop := nerr s = 0 /\ oof s = false.

Lemma clean_le s s' : st_le s s' -> clean s' -> clean s.
Proof.
  intros H [Hn Ho]. split.
  - pose proof (le_nerr _ _ H). lia.
  - destruct (oof s) eqn:E; [|reflexivity]. rewrite (le_oof _ _ H E) in Ho. discriminate.
Qed.

Lemma clean_same s s' : nerr s' = nerr s -> oof s' = oof s -> clean s' -> clean s.
Proof. intros H1 H2 [A B]. split; congruence. Qed.

Lemma not_clean_bump s : ~ clean (bump s).
Proof. intros [H _]. rewrite bump_nerr in H. lia. Qed.

(* the value an access into a chain yields when it raises no diagnostic *)
Definition va0 (c : chain) (accs : path) : option chain :=
  let '(w, n) := value_access (va_need c accs) c accs in if N.eqb n 0 then Some w else None.

Lemma va0_spec c accs w : va0 c accs = Some w <-> value_access (va_need c accs) c accs = (w, 0).
Proof.
  unfold va0. destruct (value_access (va_need c accs) c accs) as [w' n]. destruct (N.eqb_spec n 0) as [->|Hn].
  - split; [intros [= ->]; reflexivity|intros [= ->]; reflexivity].
  - split; [discriminate|intros [= -> ->]; contradiction].
Qed.

(* what the reference walk (eval.go evaluateExprAccess) returns, read off a memo table instead of evaluating *)
Fixpoint resolve (m : memo_t) (rx : expr) (rbase : chain) (rid : eid) (accs : path) : option chain :=
  match accs with
  | [] => done m rid
  | a :: rest =>
      match rx with
      | EArr elems =>
          match array_index a (Z.of_nat (length elems)) with
          | Some i => resolve m (nth i elems EMissing) [] (fst rid, snd rid ++ [IIdx i]) rest
          | None => None
          end
      | EObj entries =>
          match object_key a with
          | None => None
          | Some k =>
              match find_entry k entries O with
              | Some (_, px) => resolve m px (property k rbase) (fst rid, snd rid ++ [IKey k]) rest
              | None => if is_object rbase then va0 rbase accs else None
              end
          end
      | ESecretPlain s =>
          match done m (fst rid, snd rid ++ [IIdx 0]) with Some v => va0 v accs | None => None end
      | ESecretCipher _ => None
      | _ => match done m rid with Some v => va0 v accs | None => None end
      end
  end.

Lemma resolve_mono m m' : donele m m' -> forall accs rx rbase rid w,
  resolve m rx rbase rid accs = Some w -> resolve m' rx rbase rid accs = Some w.
Proof.
  intro Hle. induction accs as [|a rest IH]; intros rx rbase rid w H; [apply Hle, H|].
  cbn [resolve] in *.
  assert (Hd : forall id, match done m id with Some v => va0 v (a :: rest) | None => None end = Some w ->
                          match done m' id with Some v => va0 v (a :: rest) | None => None end = Some w).
  { intros id Hx. destruct (done m id) as [v|] eqn:Ed; [|discriminate]. rewrite (Hle _ _ Ed). exact Hx. }
  destruct rx; try (apply Hd, H); try exact H.
  - destruct (array_index a _); [apply IH, H|exact H].
  - destruct (object_key a); [|exact H]. destruct (find_entry _ _ _) as [[j px]|]; [apply IH, H|exact H].
Qed.

Section MEMO.
Variable W : world.
Variable E : ectx.

Notation r0 := (ec_name E, @nil idstep).

Definition aresolve (m : memo_t) (p : path) : option chain :=
  match p with
  | [] => Some invalid_access
  | a0 :: rest =>
      match object_key a0 with
      | Some k => if String.eqb k "imports" then va0 (ec_imports E) rest
                  else if String.eqb k "context" then va0 (ec_context E) rest
                  else resolve m (root_of E) (ec_base E) r0 p
      | None => resolve m (root_of E) (ec_base E) r0 p
      end
  end.

Lemma aresolve_mono m m' p w : donele m m' -> aresolve m p = Some w -> aresolve m' p = Some w.
Proof.
  intros Hle. unfold aresolve. destruct p as [|a0 rest]; [auto|].
  destruct (object_key a0) as [k|]; [|apply resolve_mono, Hle].
  destruct (String.eqb k "imports"); [auto|]. destruct (String.eqb k "context"); [auto|].
  apply resolve_mono, Hle.
Qed.

(* ---- every eval_expr call of a clean run returns the value memoised for its identity ---- *)
Lemma eval_expr_done f x xsec xbase id s :
  clean (snd (eval_expr W f E x xsec xbase id s)) ->
  done (memo (snd (eval_expr W f E x xsec xbase id s))) id = Some (fst (eval_expr W f E x xsec xbase id s)).
Proof.
  destruct f as [|f]; [intros [_ H]; discriminate H|].
  rewrite eval_expr_S. unfold expr_body. rewrite bind_eq.
  change (get_memo id s) with (memo_get id (memo s), s). cbn [fst snd].
  destruct (memo_get id (memo s)) as [[v|]|] eqn:Em.
  - intros _. cbn [ret fst snd]. unfold done. rewrite Em. reflexivity.
  - intro H. exfalso. exact (not_clean_bump s H).
  - intros _. rewrite bind_eq. cbv beta. rewrite bind_eq. cbv beta zeta. rewrite bind_eq.
    cbn [ret fst snd memo_set memo]. unfold done. rewrite memo_get_cons, eid_eqb_refl. reflexivity.
Qed.

Lemma value_access_step (c : chain) (accs : path) s :
  let r := (let '(c', n) := value_access (va_need c accs) c accs in add_err n ;;; ret c') s in
  clean (snd r) -> va0 c accs = Some (fst r) /\ memo (snd r) = memo s /\ clean s.
Proof.
  cbv zeta. unfold va0. destruct (value_access (va_need c accs) c accs) as [c' n]. rewrite bind_eq.
  cbn [ret fst snd add_err]. intros [Hn Ho]. cbn [nerr oof] in Hn, Ho.
  assert (n = 0) by lia. subst n. repeat split; [lia|exact Ho].
Qed.

(* ---- the walk ---- *)
Lemma walk_resolves : forall f rx rsec rbase rid accs s,
  clean (snd (walk W f E rx rsec rbase rid accs s)) ->
  resolve (memo (snd (walk W f E rx rsec rbase rid accs s))) rx rbase rid accs
  = Some (fst (walk W f E rx rsec rbase rid accs s)).
Proof.
  induction f as [|f IH]; intros rx rsec rbase rid accs s; [intros [_ H]; discriminate H|].
  rewrite walk_S. unfold walk_body. destruct accs as [|a rest].
  - cbn [resolve]. apply eval_expr_done.
  - assert (Hdef : forall s0,
      clean (snd ((v <- eval_expr W f E rx rsec rbase rid ;;
                   let '(c, n) := value_access (va_need v (a :: rest)) v (a :: rest) in add_err n ;;; ret c) s0)) ->
      match done (memo (snd ((v <- eval_expr W f E rx rsec rbase rid ;;
                   let '(c, n) := value_access (va_need v (a :: rest)) v (a :: rest) in add_err n ;;; ret c) s0))) rid with
      | Some v => va0 v (a :: rest) | None => None end
      = Some (fst ((v <- eval_expr W f E rx rsec rbase rid ;;
                   let '(c, n) := value_access (va_need v (a :: rest)) v (a :: rest) in add_err n ;;; ret c) s0))).
    { intros s0. rewrite bind_eq. cbv beta. intro Hc.
      destruct (value_access_step (fst (eval_expr W f E rx rsec rbase rid s0)) (a :: rest)
                  (snd (eval_expr W f E rx rsec rbase rid s0)) Hc) as (Hv & Hm & Hcl).
      rewrite Hm, (eval_expr_done _ _ _ _ _ _ Hcl). exact Hv. }
    destruct rx; cbn [resolve]; try (apply Hdef).
    + (* EArr *)
      destruct (array_index a (Z.of_nat (length l))) as [i|]; [apply IH|].
      intro H. exfalso. exact (not_clean_bump s H).
    + (* EObj *)
      destruct (object_key a) as [k|]; [|intro H; exfalso; exact (not_clean_bump s H)].
      destruct (find_entry k l 0%nat) as [[j px]|]; [apply IH|].
      destruct (is_object rbase); [|intro H; exfalso; exact (not_clean_bump s H)].
      intro Hc. destruct (value_access_step rbase (a :: rest) s Hc) as (Hv & _ & _). exact Hv.
    + (* ESecretPlain: one more step of the walk, on the text *)
      intro Hc. specialize (IH (EStr s0) true [] (fst rid, snd rid ++ [IIdx 0]) (a :: rest) s Hc).
      cbn [resolve] in IH. exact IH.
    + (* ESecretCipher *)
      intro H. exfalso. exact (not_clean_bump s H).
Qed.

Lemma eval_access_resolves f p s :
  clean (snd (eval_access W f E p s)) ->
  aresolve (memo (snd (eval_access W f E p s))) p = Some (fst (eval_access W f E p s)).
Proof.
  destruct f as [|f]; [intros [_ H]; discriminate H|].
  rewrite eval_access_S. unfold access_body, aresolve. destruct p as [|a0 rest]; [reflexivity|].
  cbv zeta. rewrite root_dispatch. destruct (object_key a0) as [k|]; [|apply walk_resolves].
  destruct (String.eqb k "imports").
  { intro Hc. apply (value_access_step (ec_imports E) rest s Hc). }
  destruct (String.eqb k "context").
  { intro Hc. apply (value_access_step (ec_context E) rest s Hc). }
  apply walk_resolves.
Qed.


(* ---- object and array literals store the memoised values of their members ---- *)
Definition arr_layer (cs : list chain) : layer := LArr false false (ScArray (map top_sch cs) (Some ScNever)) cs.

Lemma obj_go_mono f xbase id ds acc : mono (obj_go (eval_expr W f E) xbase id ds acc).
Proof. apply (obj_go_R (eval_expr W f E) (eval_expr W f E)). intros. apply R_refl, eval_expr_mono. Qed.
Lemma arr_go_mono f id es i acc : mono (arr_go (eval_expr W f E) id es i acc).
Proof. apply (arr_go_R (eval_expr W f E) (eval_expr W f E)). intros. apply R_refl, eval_expr_mono. Qed.

Lemma eval_expr_frozen f x xsec xbase id s : frozen s (snd (eval_expr W f E x xsec xbase id s)).
Proof. apply (F5_all W f). Qed.

Lemma obj_go_done f xbase id : forall ds acc s,
  (forall k vk, In (k, vk) acc -> done (memo s) (fst id, snd id ++ [IKey k]) = Some vk) ->
  clean (snd (obj_go (eval_expr W f E) xbase id ds acc s)) ->
  exists props,
    fst (obj_go (eval_expr W f E) xbase id ds acc s) = [obj_layer props] /\
    map fst props = rev (map fst acc) ++ map ekey ds /\
    forall k vk, In (k, vk) props ->
      done (memo (snd (obj_go (eval_expr W f E) xbase id ds acc s))) (fst id, snd id ++ [IKey k]) = Some vk.
Proof.
  induction ds as [|[[j k] e] r IH]; intros acc s Hacc Hc.
  - rewrite obj_go_nil in *. exists (rev acc). split; [reflexivity|]. split.
    + rewrite map_rev, app_nil_r. reflexivity.
    + intros k vk Hin. apply Hacc. apply in_rev. exact Hin.
  - rewrite obj_go_cons, bind_eq in *.
    set (c1 := eval_expr W f E e false (property k xbase) (fst id, snd id ++ [IKey k]) s) in *.
    assert (Hc1 : clean (snd c1)) by (eapply clean_le; [apply obj_go_mono|exact Hc]).
    destruct (IH ((k, fst c1) :: acc) (snd c1)) as (props & H1 & H2 & H3); [|exact Hc|].
    + intros k' vk [[= <- <-]|Hin]; [apply eval_expr_done, Hc1|].
      apply (frozen_donele _ _ (eval_expr_frozen f e false (property k xbase) (fst id, snd id ++ [IKey k]) s)).
      apply Hacc, Hin.
    + exists props. split; [exact H1|]. split; [|exact H3].
      rewrite H2. cbn [map fst rev]. rewrite <- app_assoc. reflexivity.
Qed.

Lemma arr_go_done f id : forall es i acc s,
  length acc = i ->
  (forall j vj, nth_error (rev acc) j = Some vj -> done (memo s) (fst id, snd id ++ [IIdx j]) = Some vj) ->
  clean (snd (arr_go (eval_expr W f E) id es i acc s)) ->
  exists cs,
    fst (arr_go (eval_expr W f E) id es i acc s) = [arr_layer cs] /\
    length cs = (i + length es)%nat /\
    forall j vj, nth_error cs j = Some vj ->
      done (memo (snd (arr_go (eval_expr W f E) id es i acc s))) (fst id, snd id ++ [IIdx j]) = Some vj.
Proof.
  induction es as [|e r IH]; intros i acc s Hlen Hacc Hc.
  - rewrite arr_go_nil in *. exists (rev acc). split; [reflexivity|]. split; [rewrite rev_length; cbn; lia|exact Hacc].
  - rewrite arr_go_cons, bind_eq in *.
    set (c1 := eval_expr W f E e false [] (fst id, snd id ++ [IIdx i]) s) in *.
    assert (Hc1 : clean (snd c1)) by (eapply clean_le; [apply arr_go_mono|exact Hc]).
    destruct (IH (S i) (fst c1 :: acc) (snd c1)) as (cs & H1 & H2 & H3); [cbn [length]; lia| |exact Hc|].
    + intros j vj Hj. cbn [rev] in Hj.
      destruct (Nat.lt_ge_cases j (length (rev acc))) as [Hlt|Hge].
      * rewrite nth_error_app1 in Hj by exact Hlt.
        apply (frozen_donele _ _ (eval_expr_frozen f e false [] (fst id, snd id ++ [IIdx i]) s)). apply Hacc, Hj.
      * rewrite nth_error_app2 in Hj by exact Hge. rewrite rev_length, Hlen in *.
        destruct (j - i)%nat as [|d] eqn:Ed; [|destruct d; discriminate Hj].
        injection Hj as <-. assert (j = i) by lia. subst j. apply eval_expr_done, Hc1.
    + exists cs. split; [exact H1|]. split; [cbn [length]; lia|exact H3].
Qed.

(* what eval_repr returns for the constructors the reference semantics looks into *)
Definition ReprPost (m : memo_t) (id : eid) (x : expr) (v : chain) : Prop :=
  match x with
  | EObj entries =>
      exists props, v = [obj_layer props] /\ map fst props = declared_keys_of entries /\
        forall k vk, alookup k props = Some vk -> done m (fst id, snd id ++ [IKey k]) = Some vk
  | EArr l =>
      exists cs, v = [arr_layer cs] /\ length cs = length l /\
        forall i vi, nth_error cs i = Some vi -> done m (fst id, snd id ++ [IIdx i]) = Some vi
  | ESym p => aresolve m p = Some v
  | EStr t => v = [str_layer false false t]
  | ESecretPlain _ => done m (fst id, snd id ++ [IIdx 0]) = Some v
  | _ => True
  end.

Lemma eval_repr_post f x xbase id s :
  clean (snd (eval_repr W f E x xbase id s)) ->
  ReprPost (memo (snd (eval_repr W f E x xbase id s))) id x (fst (eval_repr W f E x xbase id s)).
Proof.
  destruct f as [|f]; [intros [_ H]; discriminate H|]. rewrite eval_repr_S.
  destruct x; unfold repr_body, ReprPost; try exact (fun _ => I).
  - intros _. reflexivity.
  - apply eval_access_resolves.
  - intro Hc. destruct (arr_go_done f id l 0%nat [] s eq_refl) as (cs & H1 & H2 & H3); [|exact Hc|].
    { intros j vj Hj. destruct j; discriminate Hj. }
    exists cs. split; [exact H1|]. split; [exact H2|exact H3].
  - unfold declared_keys_of. destruct (declared l 0%nat []) as [decl dups]. cbn [fst]. rewrite bind_eq.
    intro Hc. destruct (obj_go_done f xbase id (sort_entries decl) [] (snd (add_err dups s))) as (props & H1 & H2 & H3);
      [intros k vk []|exact Hc|].
    exists props. split; [exact H1|]. split; [exact H2|]. intros k vk Ha. apply H3. apply alookup_in, Ha.
  - apply eval_expr_done.
Qed.

(* ---- the invariant of the memo table ---- *)
Definition xbof (id : eid) : chain := xb (ec_base E) (snd id).

Definition Struct (m : memo_t) (id : eid) (x : expr) (v : chain) : Prop :=
  (exists X, v = X ++ xbof id) /\
  match x with
  | EObj entries =>
      exists props, v = obj_layer props :: xbof id /\ map fst props = declared_keys_of entries /\
        forall k vk, alookup k props = Some vk -> done m (fst id, snd id ++ [IKey k]) = Some vk
  | EArr l =>
      exists cs, v = arr_layer cs :: xbof id /\ length cs = length l /\
        forall i vi, nth_error cs i = Some vi -> done m (fst id, snd id ++ [IIdx i]) = Some vi
  | ESym p => exists w, aresolve m p = Some w /\ v = w ++ xbof id
  | EStr _ => exists sec sc t, v = LScalar sec false sc t :: xbof id
  | ESecretPlain _ => exists vc, done m (fst id, snd id ++ [IIdx 0]) = Some vc /\ v = vc ++ xbof id
  | _ => True
  end.

Lemma Struct_mono m m' id x v : donele m m' -> Struct m id x v -> Struct m' id x v.
Proof.
  intros Hle [HX H]. split; [exact HX|]. destruct x; try exact H.
  - destruct H as (w & H1 & H2). exists w. split; [eapply aresolve_mono; eassumption|exact H2].
  - destruct H as (cs & H1 & H2 & H3). exists cs. repeat split; auto.
  - destruct H as (props & H1 & H2 & H3). exists props. repeat split; auto.
  - destruct H as (vc & H1 & H2). exists vc. split; auto.
Qed.

Definition Q (m : memo_t) : Prop := forall id x v, at_id E id x -> done m id = Some v -> Struct m id x v.
Definition J (s : st) : Prop := clean s -> Q (memo s).

Lemma J_same s s' : memo s' = memo s -> (clean s' -> clean s) -> J s -> J s'.
Proof. intros Hm Hc HJ Hc'. rewrite Hm. apply HJ, Hc, Hc'. Qed.

Lemma J_add_err n s : J s -> J (snd (add_err n s)).
Proof.
  apply J_same; [reflexivity|]. intros [Hn Ho]. cbn [add_err snd nerr oof] in *. split; [lia|exact Ho].
Qed.
Lemma J_emit e s : J s -> J (snd (emit e s)).
Proof. apply J_same; [reflexivity|]. intro H. exact H. Qed.
Lemma J_call s : J s -> J (snd (call W s)).
Proof. apply J_same; [reflexivity|]. intro H. exact H. Qed.
Lemma J_oof s : J s -> J (snd (out_of_fuel s)).
Proof. intros _ [_ H]. discriminate H. Qed.

Notation kj := (keeps J).

Lemma at_id_fun id x y : at_id E id x -> at_id E id y -> x = y.
Proof. intros [_ H1] [_ H2]. congruence. Qed.

Lemma eid_ext_neq (id : eid) stp : eid_eqb (fst id, snd id ++ [stp]) id = false.
Proof.
  destruct (eid_eqb (fst id, snd id ++ [stp]) id) eqn:Eq; [|reflexivity]. apply eid_eqb_eq in Eq.
  destruct id as [n q]. cbn [fst snd] in Eq. injection Eq as Eq. exfalso.
  assert (L : length (q ++ [stp]) = length q) by (rewrite Eq; reflexivity). rewrite app_length in L. cbn in L. lia.
Qed.

Lemma done_cons_other m id v id' : eid_eqb id' id = false -> done ((id, v) :: m) id' = done m id'.
Proof. intro H. unfold done. rewrite memo_get_cons, H. reflexivity. Qed.
Lemma done_cons_self m id v : done ((id, v) :: m) id = v.
Proof. unfold done. rewrite memo_get_cons, eid_eqb_refl. destruct v; reflexivity. Qed.

Lemma donele_cons m id v : done m id = None -> donele m ((id, v) :: m).
Proof.
  intros Hn id' v' H. destruct (eid_eqb id' id) eqn:Eq; [|rewrite done_cons_other; assumption].
  apply eid_eqb_eq in Eq. subst. congruence.
Qed.

Lemma expr_body_J er x xsec xbase id :
  at_id E id x -> xbase = xbof id -> secok xsec x ->
  kj (er x xbase id) -> mono (er x xbase id) -> pres frozen (er x xbase id) ->
  (forall s1, clean (snd (er x xbase id s1)) ->
     ReprPost (memo (snd (er x xbase id s1))) id x (fst (er x xbase id s1))) ->
  kj (expr_body er x xsec xbase id).
Proof.
  intros Hid Hxb Hsec Hk Hmono Hfro Hpost s HJ. unfold expr_body. rewrite bind_eq.
  change (get_memo id s) with (memo_get id (memo s), s). cbn [fst snd].
  destruct (memo_get id (memo s)) as [[v|]|] eqn:Em.
  - exact HJ.
  - intro H. exfalso. exact (not_clean_bump s H).
  - rewrite bind_eq. cbv beta. rewrite bind_eq. cbv beta zeta. rewrite bind_eq.
    set (s1 := snd (memo_set id None s)).
    assert (Hd0 : done (memo s) id = None) by (unfold done; rewrite Em; reflexivity).
    assert (HJ1 : J s1).
    { intro Hc1. assert (Hc : clean s) by exact Hc1. specialize (HJ Hc).
      intros id' x' v' Hat Hd. cbn [s1 memo_set snd memo] in Hd |- *.
      destruct (eid_eqb id' id) eqn:Eq.
      - apply eid_eqb_eq in Eq. subst id'. rewrite done_cons_self in Hd. discriminate Hd.
      - rewrite done_cons_other in Hd by exact Eq.
        eapply Struct_mono; [apply donele_cons, Hd0|apply HJ; assumption]. }
    pose proof (Hk s1 HJ1) as HJ2. pose proof (Hfro s1) as Hf12. pose proof (Hmono s1) as Hm12.
    pose proof (Hpost s1) as Hp. set (r := er x xbase id s1) in *. set (s2 := snd r) in *. set (v := fst r) in *.
    intro Hc3. assert (Hc2 : clean s2) by exact Hc3. specialize (HJ2 Hc2). specialize (Hp Hc2).
    assert (Hd2 : done (memo s2) id = None).
    { unfold done. rewrite (Hf12 id); cbn [s1 memo_set snd memo]; rewrite memo_get_cons, eid_eqb_refl;
        [reflexivity|discriminate]. }
    set (v2 := (if xsec then opt_top_sec v else v) ++ xbase).
    cbn [ret snd memo_set memo].
    assert (Hle : donele (memo s2) ((id, Some v2) :: memo s2)) by (apply donele_cons, Hd2).
    intros id' x' v' Hat Hd. destruct (eid_eqb id' id) eqn:Eq.
    + apply eid_eqb_eq in Eq. subst id'. rewrite done_cons_self in Hd. injection Hd as <-.
      rewrite (at_id_fun _ _ _ Hat Hid). clear Hat x'.
      assert (Hns : (forall t, x <> EStr t) -> xsec = false).
      { intro Hx. destruct Hsec as [->|[t ->]]; [reflexivity|]. exfalso. exact (Hx t eq_refl). }
      split; [exists (if xsec then opt_top_sec v else v); unfold v2; rewrite Hxb; reflexivity|].
      destruct x; try exact I; unfold ReprPost in Hp.
      * (* EStr *)
        unfold v2. rewrite Hp, Hxb. unfold str_layer. destruct xsec; cbn [opt_top_sec set_sec app]; eauto.
      * (* ESym *)
        assert (Hxs : xsec = false) by (apply Hns; intros; discriminate); subst xsec. exists v. split; [|unfold v2; rewrite Hxb; reflexivity].
        eapply aresolve_mono; [exact Hle|exact Hp].
      * (* EArr *)
        assert (Hxs : xsec = false) by (apply Hns; intros; discriminate); subst xsec. destruct Hp as (cs & H1 & H2 & H3).
        exists cs. split; [unfold v2; rewrite H1, Hxb; reflexivity|]. split; [exact H2|].
        intros i vi Hi. apply Hle, H3, Hi.
      * (* EObj *)
        assert (Hxs : xsec = false) by (apply Hns; intros; discriminate); subst xsec. destruct Hp as (props & H1 & H2 & H3).
        exists props. split; [unfold v2; rewrite H1, Hxb; reflexivity|]. split; [exact H2|].
        intros k vk Hk'. apply Hle, H3, Hk'.
      * (* ESecretPlain *)
        assert (Hxs : xsec = false) by (apply Hns; intros; discriminate); subst xsec. exists v. split; [apply Hle, Hp|unfold v2; rewrite Hxb; reflexivity].
    + rewrite done_cons_other in Hd by exact Eq. eapply Struct_mono; [exact Hle|apply HJ2; assumption].
Qed.


Lemma xbof_child id stp : xbof (fst id, snd id ++ [stp]) = xbstep stp (xbof id).
Proof. unfold xbof. cbn [snd]. apply xb_app. Qed.

Definition J5 (f : nat) : Prop :=
  (forall x xsec xbase id, at_id E id x -> xbase = xbof id -> secok xsec x -> kj (eval_expr W f E x xsec xbase id)) /\
  (forall x xbase id, at_id E id x -> xbase = xbof id -> kj (eval_repr W f E x xbase id)) /\
  (forall x a id, at_id E id x -> xbof id = [] -> kj (eval_typed W f E x a id)) /\
  (forall p, kj (eval_access W f E p)) /\
  (forall rx rsec rbase rid accs, at_id E rid rx -> rbase = xbof rid -> secok rsec rx ->
     kj (walk W f E rx rsec rbase rid accs)).

Lemma J5_all : forall f, J5 f.
Proof.
  induction f as [|f IH].
  - unfold J5; split5; intros; intros s0 _ [_ Hoof]; discriminate Hoof.
  - destruct IH as (He & Hr & Ht & Ha & Hw). unfold J5; split5.
    + intros x xsec xbase id Hid Hxb Hsec. rewrite eval_expr_S. apply expr_body_J; auto.
      * intros s. apply eval_repr_mono.
      * intros s. apply (F5_all W f).
      * intros s1. apply eval_repr_post.
    + intros x xbase id Hid Hxb. rewrite eval_repr_S.
      apply (repr_body_keeps W J J_add_err J_emit J_call J_oof).
      * intros stp e b c Hc Hcb Hsec. apply He; [eapply at_id_child; eassumption| |exact Hsec].
        rewrite xbof_child, <- Hxb. exact Hcb.
      * intros stp e a Hc Hcb. apply Ht; [eapply at_id_child; eassumption|].
        rewrite xbof_child, <- Hxb. exact Hcb.
      * exact Ha.
    + intros x a id Hid Hxb. rewrite eval_typed_S. apply (typed_body_keeps J J_add_err).
      apply He; [exact Hid|symmetry; exact Hxb|left; reflexivity].
    + intros p. rewrite eval_access_S. apply (access_body_keeps J J_add_err).
      apply Hw; [split; reflexivity|reflexivity|left; reflexivity].
    + intros rx rsec rbase rid accs Hid Hxb Hsec. rewrite walk_S. apply (walk_body_keeps J J_add_err).
      * apply He; assumption.
      * intros stp y b c accs' Hc Hcb Hsy. apply Hw; [eapply at_id_child; eassumption| |exact Hsy].
        rewrite xbof_child, <- Hxb. exact Hcb.
Qed.

End MEMO.
