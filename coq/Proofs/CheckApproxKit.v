(* Proofs/CheckApproxKit.v — C06: the relational toolkit for a check run (left) against an open run (right).
   The state relation only keeps what later evaluation reads: memo tables and import tables, related entry by
   entry by the approximation; logs, call counters and diagnostics are NOT related (they differ between the
   modes).  Both runs must end with [oof = false]. *)
From Verif Require Import Base.Bytes Base.Wire Model.Chain Model.GoText Model.Envelope Model.Eval.
From Verif Require Import Proofs.NonInterferenceRel Proofs.NonInterferenceOps Proofs.NonInterferenceTwins
     Proofs.NonInterferenceBuiltins Proofs.CheckApproxMono Proofs.CheckApproxRel.
From Coq Require Import Lia ZifyN ZifyNat ZifyBool.

Notation ap_c := (chain_ap ap_l).

Definition memo_entry_ap (a b : eid * option chain) : Prop := fst a = fst b /\ opt_rel ap_c (snd a) (snd b).

Definition imp_ap (a b : imp_state) : Prop :=
  is_evaluating a = is_evaluating b /\ opt_rel ap_c (is_value a) (is_value b).

Record srel_a (s1 s2 : st) : Prop := {
  sa_memo : Forall2 memo_entry_ap (memo s1) (memo s2);
  sa_imps : Forall2 (kv_rel imp_ap) (imps s1) (imps s2)
}.

Definition mrel_a {A B} (R : A -> B -> Prop) (m1 : M A) (m2 : M B) : Prop :=
  forall s1 s2, srel_a s1 s2 -> nof (snd (m1 s1)) -> nof (snd (m2 s2)) ->
                R (fst (m1 s1)) (fst (m2 s2)) /\ srel_a (snd (m1 s1)) (snd (m2 s2)).

Lemma arel_ret {A B} (R : A -> B -> Prop) a b : R a b -> mrel_a R (ret a) (ret b).
Proof. intros H s1 s2 Hs _ _. split; auto. Qed.

Lemma arel_bind {A B A' B'} (R : A -> B -> Prop) (R' : A' -> B' -> Prop) m1 m2 k1 k2 :
  mrel_a R m1 m2 -> (forall a, omono (k1 a)) -> (forall b, omono (k2 b)) ->
  (forall a b, R a b -> mrel_a R' (k1 a) (k2 b)) -> mrel_a R' (bind m1 k1) (bind m2 k2).
Proof.
  intros Hm M1 M2 Hk s1 s2 Hs G1 G2. unfold bind in *.
  specialize (Hm s1 s2 Hs). destruct (m1 s1) as [a s1'], (m2 s2) as [b s2']. simpl in Hm.
  destruct Hm as [Hab Hs']; [eapply M1, G1|eapply M2, G2|]. now apply Hk.
Qed.

Lemma arel_conseq {A B} (R R' : A -> B -> Prop) m1 m2 : (forall a b, R a b -> R' a b) -> mrel_a R m1 m2 -> mrel_a R' m1 m2.
Proof. intros H Hm s1 s2 Hs G1 G2. destruct (Hm s1 s2 Hs G1 G2). split; auto. Qed.

(* a run that certainly runs out of fuel is outside the statement *)
Definition never_nof {A} (m : M A) : Prop := forall s, ~ nof (snd (m s)).

Lemma nn_bind_oof {A} (k : unit -> M A) : (forall a, omono (k a)) -> never_nof (bind out_of_fuel k).
Proof. intros Hk s G. unfold bind in G. simpl in G. apply Hk in G. unfold nof in G. simpl in G. discriminate. Qed.

Lemma arel_nn_l {A B} (R : A -> B -> Prop) m1 m2 : never_nof m1 -> mrel_a R m1 m2.
Proof. intros H s1 s2 _ G. now apply H in G. Qed.

Lemma arel_nn_r {A B} (R : A -> B -> Prop) m1 m2 : never_nof m2 -> mrel_a R m1 m2.
Proof. intros H s1 s2 _ _ G. now apply H in G. Qed.

Lemma srel_a_upd s1 s2 l1 n1 c1 o1 l2 n2 c2 o2 :
  srel_a s1 s2 ->
  srel_a {| memo := memo s1; imps := imps s1; log := l1; nerr := n1; calls := c1; oof := o1 |}
         {| memo := memo s2; imps := imps s2; log := l2; nerr := n2; calls := c2; oof := o2 |}.
Proof. intros [A B]; constructor; simpl; auto. Qed.

(* diagnostics, log entries and collaborator calls may happen on either side independently *)
Lemma arel_add_err {A B} (R : A -> B -> Prop) n1 n2 k1 k2 :
  mrel_a R (k1 tt) (k2 tt) -> mrel_a R (bind (add_err n1) k1) (bind (add_err n2) k2).
Proof. intros Hk s1 s2 Hs G1 G2. unfold bind in *. simpl in *. apply Hk; auto. now apply srel_a_upd. Qed.

Lemma arel_add_err_l {A B} (R : A -> B -> Prop) n k1 (m2 : M B) :
  mrel_a R (k1 tt) m2 -> mrel_a R (bind (add_err n) k1) m2.
Proof.
  intros Hk s1 s2 Hs G1 G2. unfold bind in *. simpl in *. apply Hk; auto.
  destruct Hs as [A' B']; constructor; simpl; auto.
Qed.

Lemma arel_add_err_r {A B} (R : A -> B -> Prop) n (m1 : M A) k2 :
  mrel_a R m1 (k2 tt) -> mrel_a R m1 (bind (add_err n) k2).
Proof.
  intros Hk s1 s2 Hs G1 G2. unfold bind in *. simpl in *. apply Hk; auto.
  destruct Hs as [A' B']; constructor; simpl; auto.
Qed.

Lemma arel_emit_l {A B} (R : A -> B -> Prop) e k1 (m2 : M B) :
  mrel_a R (k1 tt) m2 -> mrel_a R (bind (emit e) k1) m2.
Proof.
  intros Hk s1 s2 Hs G1 G2. unfold bind in *. simpl in *. apply Hk; auto.
  destruct Hs as [A' B']; constructor; simpl; auto.
Qed.

Lemma arel_emit_r {A B} (R : A -> B -> Prop) e (m1 : M A) k2 :
  mrel_a R m1 (k2 tt) -> mrel_a R m1 (bind (emit e) k2).
Proof.
  intros Hk s1 s2 Hs G1 G2. unfold bind in *. simpl in *. apply Hk; auto.
  destruct Hs as [A' B']; constructor; simpl; auto.
Qed.

(* without a fault plan a collaborator call never fails *)
Lemma arel_call_l {A B} (R : A -> B -> Prop) W k1 (m2 : M B) :
  w_fault W = None -> mrel_a R (k1 false) m2 -> mrel_a R (bind (call W) k1) m2.
Proof.
  intros HW Hk s1 s2 Hs G1 G2. unfold bind, call in *. rewrite HW in *. simpl in *. apply Hk; auto.
  destruct Hs as [A' B']; constructor; simpl; auto.
Qed.

Lemma arel_call_r {A B} (R : A -> B -> Prop) W (m1 : M A) k2 :
  w_fault W = None -> mrel_a R m1 (k2 false) -> mrel_a R m1 (bind (call W) k2).
Proof.
  intros HW Hk s1 s2 Hs G1 G2. unfold bind, call in *. rewrite HW in *. simpl in *. apply Hk; auto.
  destruct Hs as [A' B']; constructor; simpl; auto.
Qed.

Lemma arel_ret_bind_l {A B C} (R : A -> B -> Prop) (c : C) k1 (m2 : M B) :
  mrel_a R (k1 c) m2 -> mrel_a R (bind (ret c) k1) m2.
Proof. intros H. exact H. Qed.

Lemma arel_ret_bind_r {A B C} (R : A -> B -> Prop) (c : C) (m1 : M A) k2 :
  mrel_a R m1 (k2 c) -> mrel_a R m1 (bind (ret c) k2).
Proof. intros H. exact H. Qed.

Lemma memo_get_ap id m1 m2 : Forall2 memo_entry_ap m1 m2 -> opt_rel (opt_rel ap_c) (memo_get id m1) (memo_get id m2).
Proof.
  induction 1 as [|[k1 v1] [k2 v2] m1 m2 [E HR] _ IH]; simpl; [exact I|].
  simpl in E; subst k2. destruct (eid_eqb id k1); [exact HR|exact IH].
Qed.

Lemma arel_get_memo {A B} (R : A -> B -> Prop) id k1 k2 :
  (forall a b, opt_rel (opt_rel ap_c) a b -> mrel_a R (k1 a) (k2 b)) -> mrel_a R (bind (get_memo id) k1) (bind (get_memo id) k2).
Proof. intros Hk s1 s2 Hs G1 G2. unfold bind in *. simpl in *. apply Hk; auto. apply memo_get_ap, Hs. Qed.

Lemma arel_memo_set {A B} (R : A -> B -> Prop) id v1 v2 k1 k2 :
  opt_rel ap_c v1 v2 -> mrel_a R (k1 tt) (k2 tt) -> mrel_a R (bind (memo_set id v1) k1) (bind (memo_set id v2) k2).
Proof.
  intros Hv Hk s1 s2 Hs G1 G2. unfold bind in *. simpl in *. apply Hk; auto.
  destruct Hs; constructor; simpl; auto. constructor; [split; auto|auto].
Qed.

Lemma arel_imps_get {A B} (R : A -> B -> Prop) n k1 k2 :
  (forall a b, opt_rel imp_ap a b -> mrel_a R (k1 a) (k2 b)) -> mrel_a R (bind (imps_get n) k1) (bind (imps_get n) k2).
Proof. intros Hk s1 s2 Hs G1 G2. unfold bind in *. simpl in *. apply Hk; auto. apply alookup_rel, Hs. Qed.

Lemma arel_imps_set {A B} (R : A -> B -> Prop) n v1 v2 k1 k2 :
  imp_ap v1 v2 -> mrel_a R (k1 tt) (k2 tt) -> mrel_a R (bind (imps_set n v1) k1) (bind (imps_set n v2) k2).
Proof.
  intros Hv Hk s1 s2 Hs G1 G2. unfold bind in *. simpl in *. apply Hk; auto.
  destruct Hs; constructor; simpl; auto. constructor; [split; auto|auto].
Qed.

(* ---- computations that touch neither the memo table nor the import table ---- *)
Definition neutral {A} (m : M A) : Prop := forall s, memo (snd (m s)) = memo s /\ imps (snd (m s)) = imps s.

Lemma neutral_ret {A} (a : A) : neutral (ret a).
Proof. intros s; split; reflexivity. Qed.
Lemma neutral_bind {A B} (m : M A) (k : A -> M B) : neutral m -> (forall a, neutral (k a)) -> neutral (bind m k).
Proof.
  intros Hm Hk s. unfold bind. destruct (Hm s) as [A1 A2]. destruct (m s) as [a s']. simpl in *.
  destruct (Hk a s') as [B1 B2]. split; congruence.
Qed.
Lemma neutral_add_err n : neutral (add_err n).
Proof. intros s; split; reflexivity. Qed.
Lemma neutral_err : neutral err.
Proof. apply neutral_add_err. Qed.
Lemma neutral_emit e : neutral (emit e).
Proof. intros s; split; reflexivity. Qed.
Lemma neutral_oof : neutral out_of_fuel.
Proof. intros s; split; reflexivity. Qed.
Lemma neutral_call W : neutral (call W).
Proof. intros s; split; reflexivity. Qed.

Ltac neutral_step :=
  lazymatch goal with
  | |- neutral (ret _) => apply neutral_ret
  | |- neutral (bind _ _) => apply neutral_bind; [|intro]
  | |- neutral (add_err _) => apply neutral_add_err
  | |- neutral err => apply neutral_err
  | |- neutral (emit _) => apply neutral_emit
  | |- neutral out_of_fuel => apply neutral_oof
  | |- neutral (call _) => apply neutral_call
  | |- neutral (match ?x with _ => _ end) => destruct x
  | |- neutral (let _ := _ in _) => cbv zeta
  end.
Ltac neutral_tac := repeat neutral_step.

(* an unknown on the check side approximates whatever a neutral computation on the open side returns *)
Lemma arel_wild (w : chain) (m2 : M chain) : wildc w -> neutral m2 -> mrel_a ap_c (ret w) m2.
Proof.
  intros Hw Hn s1 s2 Hs _ _. split; [now apply wildc_ap|].
  destruct (Hn s2) as [E1 E2]. destruct Hs as [A' B']. constructor; simpl; congruence.
Qed.

Lemma neutral_tails W :
  (forall dr vr, neutral (join_tail dr vr)) /\ (forall r, neutral (fromb64_tail r)) /\ (forall r, neutral (tob64_tail r)) /\
  (forall r, neutral (fromjson_tail r)) /\ (forall v, neutral (tojson_tail v)) /\ (forall v, neutral (tostring_tail v)) /\
  (forall E repr, neutral (cipher_body W E repr)) /\ (forall E id pn prov r, neutral (open_tail W E id pn prov r)).
Proof.
  repeat apply conj; intros.
  - unfold join_tail. neutral_tac.
  - unfold fromb64_tail. neutral_tac.
  - unfold tob64_tail. neutral_tac.
  - unfold fromjson_tail. neutral_tac.
  - unfold tojson_tail. neutral_tac.
  - unfold tostring_tail. neutral_tac.
  - unfold cipher_body. neutral_tac.
  - unfold open_tail. neutral_tac.
Qed.

(* mono facts for the loops and tails, as hints *)
Lemma omono_interp_go' W f E ps acc unk sec : omono (interp_go W f E ps acc unk sec).
Proof. apply omono_interp_go. intros; apply omono_eval_access. Qed.
Lemma omono_arr_go' W f E id es i acc : omono (arr_go W f E id es i acc).
Proof. apply omono_arr_go. intros; apply omono_eval_expr. Qed.
Lemma omono_obj_go' W f E xbase id ds acc : omono (obj_go W f E xbase id ds acc).
Proof. apply omono_obj_go. intros; apply omono_eval_expr. Qed.
Lemma omono_imports_go' W f root' is base my : omono (imports_go W f root' is base my).
Proof. apply omono_imports_go. intros; apply omono_eval_env. Qed.
Lemma omono_join_tail dr vr : omono (join_tail dr vr).
Proof. unfold join_tail. omono_tac. Qed.
Lemma omono_fromb64_tail r : omono (fromb64_tail r).
Proof. unfold fromb64_tail. omono_tac. Qed.
Lemma omono_tob64_tail r : omono (tob64_tail r).
Proof. unfold tob64_tail. omono_tac. Qed.
Lemma omono_fromjson_tail r : omono (fromjson_tail r).
Proof. unfold fromjson_tail. omono_tac. Qed.
Lemma omono_tojson_tail v : omono (tojson_tail v).
Proof. unfold tojson_tail. omono_tac. Qed.
Lemma omono_tostring_tail v : omono (tostring_tail v).
Proof. unfold tostring_tail. omono_tac. Qed.
Lemma omono_cipher_body W E repr : omono (cipher_body W E repr).
Proof. unfold cipher_body. omono_tac. Qed.
Lemma omono_open_tail W E id pn prov r : omono (open_tail W E id pn prov r).
Proof. unfold open_tail. omono_tac. Qed.
#[export] Hint Resolve omono_interp_go' omono_arr_go' omono_obj_go' omono_imports_go' omono_join_tail omono_fromb64_tail
  omono_tob64_tail omono_fromjson_tail omono_tojson_tail omono_tostring_tail omono_cipher_body omono_open_tail : omono.

Ltac arel_bind_with R := apply (arel_bind R); [ | intro; omono_tac | intro; omono_tac | ].
