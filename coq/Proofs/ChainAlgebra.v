(* Proofs/ChainAlgebra.v — the algebra of value.go's base chains against JSON merge patch (Corr/C01.v's [mp']):
   exactly when does appending two layer lists agree with merge-patching their values, why merge patch is not
   associative, and the resulting partial/refuted forms of property C01. *)
From Verif Require Import Base.Bytes Model.Chain Model.Eval Corr.C01
  Proofs.ChainAlgebraSorted Proofs.ChainAlgebraExport.
From Coq Require Import Lia Sorted.
Local Open Scope nat_scope.

(* ================= merge patch, characterised extensionally ================= *)
Lemma jdepth_obj_in (m : list (string * json)) (kv : string * json) : In kv m -> jdepth (snd kv) < jdepth (JObj m).
Proof. intros H. cbn [jdepth]. pose proof (proj2 (fold_max_le (fun kv => jdepth (snd kv)) m 0) kv H). lia. Qed.

Lemma jdepth_pos (j : json) : 1 <= jdepth j.
Proof. destruct j; cbn [jdepth]; lia. Qed.

Definition mstep (g : json -> json -> json) (acc : list (string * json)) (kv : string * json) : list (string * json) :=
  ainsert (fst kv) (match alookup (fst kv) acc with Some old => g old (snd kv) | None => snd kv end) acc.

Lemma mp_S (f : nat) (base patch : json) :
  mp (S f) base patch =
    match base, patch with
    | JObj b, JObj p => JObj (fold_left (mstep (mp f)) p (ains_all b []))
    | _, _ => patch
    end.
Proof.
  cbn [mp]. destruct base; try reflexivity. destruct patch; try reflexivity. f_equal.
  unfold ains_all. generalize (fold_left (fun acc kv => ainsert (fst kv) (snd kv) acc) m []) as acc.
  induction m0 as [|kv p IH]; intros acc; [reflexivity|]. cbn [fold_left]. rewrite <- IH. f_equal.
  unfold mstep. destruct (alookup (fst kv) acc); reflexivity.
Qed.

Lemma fold_left_ext_in {A B} (f g : A -> B -> A) (l : list B) (a : A) :
  (forall acc x, In x l -> f acc x = g acc x) -> fold_left f l a = fold_left g l a.
Proof.
  revert a. induction l as [|x r IH]; intros a H; [reflexivity|]. cbn [fold_left].
  rewrite (H a x (or_introl eq_refl)). apply IH. intros acc y Hy. apply H. now right.
Qed.

Lemma mp_fuel (f f' : nat) (base patch : json) : jdepth patch <= f -> jdepth patch <= f' -> mp f base patch = mp f' base patch.
Proof.
  revert f' base patch. induction f as [|f IH]; intros f' base patch H H'.
  - pose proof (jdepth_pos patch). lia.
  - destruct f' as [|f']; [pose proof (jdepth_pos patch); lia|]. rewrite !mp_S.
    destruct base; try reflexivity. destruct patch; try reflexivity. f_equal.
    apply fold_left_ext_in. intros acc kv Hkv. unfold mstep. f_equal.
    destruct (alookup (fst kv) acc); [|reflexivity]. pose proof (jdepth_obj_in _ _ Hkv). apply IH; lia.
Qed.

Lemma mp'_fuel (f : nat) (base patch : json) : jdepth patch <= f -> mp' base patch = mp f base patch.
Proof. intros H. unfold mp'. apply mp_fuel; lia. Qed.

Lemma mp'_nonobj_patch (base patch : json) : is_jobj patch = false -> mp' base patch = patch.
Proof. intros H. unfold mp'. rewrite mp_S. destruct base; try reflexivity. destruct patch; try reflexivity. discriminate. Qed.

Lemma mp'_nonobj_base (base patch : json) : is_jobj base = false -> mp' base patch = patch.
Proof. intros H. unfold mp'. rewrite mp_S. destruct base; try reflexivity. discriminate. Qed.

Lemma fold_mstep_sorted g p acc : asorted acc -> asorted (fold_left (mstep g) p acc).
Proof. revert acc. induction p as [|kv p IH]; intros acc H; [exact H|]. cbn [fold_left]. apply IH. unfold mstep. now apply ainsert_sorted. Qed.

Lemma fold_mstep_lookup g p acc x :
  NoDup (map fst p) ->
  alookup x (fold_left (mstep g) p acc) =
    match alookup x p with
    | Some pv => Some (match alookup x acc with Some old => g old pv | None => pv end)
    | None => alookup x acc
    end.
Proof.
  revert acc. induction p as [|[k v] p IH]; intros acc Hnd; [reflexivity|].
  inversion Hnd as [|? ? Hni Hnd']; subst. cbn [fold_left]. rewrite (IH _ Hnd'). unfold mstep. cbn [fst snd alookup].
  rewrite !alookup_ainsert. destruct (String.eqb x k) eqn:E; [|reflexivity].
  apply String.eqb_eq in E. subst. apply alookup_None in Hni. now rewrite Hni.
Qed.

(* both objects, keys duplicate-free: the result is the key-sorted union, shared keys merged recursively *)
Lemma mp'_obj_spec (b p : list (string * json)) :
  NoDup (map fst b) -> NoDup (map fst p) ->
  exists m, mp' (JObj b) (JObj p) = JObj m /\ asorted m /\
            forall x, alookup x m = match alookup x p with
                                    | Some pv => Some (match alookup x b with Some old => mp' old pv | None => pv end)
                                    | None => alookup x b
                                    end.
Proof.
  intros Hb Hp. unfold mp' at 1. rewrite mp_S. eexists. split; [reflexivity|]. split.
  - apply fold_mstep_sorted, ains_all_sorted. constructor.
  - intros x. rewrite (fold_mstep_lookup _ _ _ _ Hp), (alookup_ains_all _ _ _ Hb). cbn [alookup].
    destruct (alookup x p) as [pv|] eqn:Ep; [|destruct (alookup x b); reflexivity]. f_equal.
    assert (D : forall old, mp (Nat.max (jdepth (JObj b)) (jdepth (JObj p))) old pv = mp' old pv).
    { intros old. symmetry. apply mp'_fuel. apply alookup_In in Ep. pose proof (jdepth_obj_in _ _ Ep). cbn [snd] in *. lia. }
    destruct (alookup x b); [apply D|reflexivity].
Qed.

(* merging two tabulated objects: equality with a sorted target, key by key *)
Lemma mp'_tab (f1 f2 : string -> json) (K1 K2 : list string) (target : list (string * json)) :
  ssorted K1 -> ssorted K2 -> asorted target ->
  (mp' (JObj (tab f2 K2)) (JObj (tab f1 K1)) = JObj target <->
   forall x, alookup x target =
             match smem x K1, smem x K2 with
             | true, true => Some (mp' (f2 x) (f1 x))
             | true, false => Some (f1 x)
             | false, true => Some (f2 x)
             | false, false => None
             end).
Proof.
  intros H1 H2 Ht.
  destruct (mp'_obj_spec (tab f2 K2) (tab f1 K1)) as (m & Em & Hm & Lm).
  { rewrite tab_keys. now apply ssorted_nodup. } { rewrite tab_keys. now apply ssorted_nodup. }
  rewrite Em. assert (L : forall x, alookup x m = match smem x K1, smem x K2 with
             | true, true => Some (mp' (f2 x) (f1 x)) | true, false => Some (f1 x)
             | false, true => Some (f2 x) | false, false => None end).
  { intros x. rewrite Lm, !alookup_tab. destruct (smem x K1), (smem x K2); reflexivity. }
  split.
  - intros [= <-]. exact L.
  - intros H. f_equal. apply asorted_ext; [exact Hm|exact Ht|]. intros k. now rewrite L, H.
Qed.

(* ================= well-formed layers: object keys strictly sorted (the LObj invariant) ================= *)
Fixpoint jwf (j : json) : bool :=
  match j with
  | JObj m => sorted_b (map fst m) && forallb (fun kv => jwf (snd kv)) m
  | _ => true
  end.

Notation jswf js := (Forall (fun j => jwf j = true) js).
Notation mswf ms := (Forall (fun m => jwf (JObj m) = true) ms).

Lemma jwf_obj m : jwf (JObj m) = true -> asorted m /\ forall k v, alookup k m = Some v -> jwf v = true.
Proof.
  cbn [jwf]. rewrite andb_true_iff, sorted_b_ok, forallb_forall. intros [Hs Hc]. split; [exact Hs|].
  intros k v E. apply alookup_In in E. exact (Hc _ E).
Qed.

Lemma oprefix_wf js : jswf js -> mswf (oprefix js).
Proof.
  induction 1 as [|j r Hj Hr IH]; [constructor|]. destruct j; try constructor; assumption.
Qed.

Lemma jprop_wf k ms : mswf ms -> jswf (jprop k ms).
Proof.
  induction 1 as [|m r Hm Hr IH]; [constructor|]. cbn [jprop].
  destruct (alookup k m) as [v|] eqn:E; [|exact IH]. constructor; [|exact IH]. exact (proj2 (jwf_obj _ Hm) _ _ E).
Qed.

(* ---------------- keys of an object prefix ---------------- *)
Lemma In_jkeys k ms : In k (jkeys ms) <-> jprop k ms <> [].
Proof.
  induction ms as [|m r IH]; cbn [jkeys jprop]; [split; [intros []|congruence]|].
  rewrite In_sunion, IH. destruct (alookup k m) as [v|] eqn:E.
  - split; [discriminate|]. intros _. right. apply alookup_Some_In. eauto.
  - apply alookup_None in E. tauto.
Qed.

Lemma smem_jkeys k ms : smem k (jkeys ms) = match jprop k ms with [] => false | _ => true end.
Proof.
  destruct (smem k (jkeys ms)) eqn:E.
  - apply smem_In, In_jkeys in E. destruct (jprop k ms); congruence.
  - apply smem_false in E. rewrite In_jkeys in E. destruct (jprop k ms); [reflexivity|]. exfalso. apply E. discriminate.
Qed.

Lemma jkeys_sorted m r : asorted m -> ssorted (jkeys (m :: r)).
Proof. intros H. cbn [jkeys]. now apply sunion_sorted. Qed.

Lemma jprop_app k a b : jprop k (a ++ b) = jprop k a ++ jprop k b.
Proof.
  induction a as [|m a IH]; [reflexivity|]. rewrite <- app_comm_cons. cbn [jprop].
  destruct (alookup k m); rewrite IH; reflexivity.
Qed.

Definition all_obj (js : list json) : bool := forallb is_jobj js.

Lemma oprefix_app_all g1 g2 : all_obj g1 = true -> oprefix (g1 ++ g2) = oprefix g1 ++ oprefix g2.
Proof.
  induction g1 as [|j r IH]; [reflexivity|]. cbn [all_obj forallb]. rewrite andb_true_iff. intros [Hj Hr].
  destruct j; try discriminate. rewrite <- app_comm_cons. cbn [oprefix]. now rewrite (IH Hr).
Qed.

Lemma oprefix_app_cut g1 g2 : all_obj g1 = false -> oprefix (g1 ++ g2) = oprefix g1.
Proof.
  induction g1 as [|j r IH]; [discriminate|]. cbn [all_obj forallb]. intros H.
  destruct j; try reflexivity. rewrite <- app_comm_cons. cbn [oprefix]. cbn [is_jobj andb] in H. now rewrite (IH H).
Qed.

Lemma flat_merge_top_nonobj j r : is_jobj j = false -> is_jobj (flat_merge (j :: r)) = false.
Proof. destruct j; intros H; try discriminate; reflexivity. Qed.

Lemma flat_merge_app_nonobj j r g2 : is_jobj j = false -> flat_merge ((j :: r) ++ g2) = flat_merge (j :: r).
Proof. destruct j; intros H; try discriminate; try reflexivity. rewrite <- app_comm_cons, !flat_merge_arr. reflexivity. Qed.

(* the value of wf layers is wf *)
Lemma flat_merge_wf js : jswf js -> jwf (flat_merge js) = true.
Proof.
  assert (H : forall n js, jlsize js < n -> jswf js -> jwf (flat_merge js) = true).
  { induction n as [|n IH]; intros l Hl Hwf; [lia|]. destruct l as [|j r]; [reflexivity|].
    destruct j; try (inversion Hwf; assumption).
    rewrite flat_merge_obj. unfold fm_obj. cbn [jwf]. rewrite tab_keys. apply andb_true_iff. split.
    - apply sorted_b_ok. cbn [oprefix]. apply jkeys_sorted. inversion Hwf as [|? ? Hj _]; subst. exact (proj1 (jwf_obj _ Hj)).
    - apply forallb_forall. intros kv Hkv. unfold tab in Hkv. apply in_map_iff in Hkv. destruct Hkv as (k & <- & _). cbn [snd].
        pose proof (jlsize_jprop_lt k m r). apply IH; [lia|]. apply jprop_wf, oprefix_wf, Hwf. }
  intros Hwf. apply (H (S (jlsize js))); [lia|exact Hwf].
Qed.

(* {} is a left unit of merge patch on wf values *)
Lemma mp'_empty_l (x : json) : jwf x = true -> mp' (JObj []) x = x.
Proof.
  intros H. destruct x; try reflexivity.
  destruct (jwf_obj _ H) as [Hs _].
  destruct (mp'_obj_spec [] m) as (m' & E & Hm' & L); [constructor|now apply ssorted_nodup|].
  rewrite E. f_equal. apply asorted_ext; [exact Hm'|exact Hs|]. intros k. rewrite L. cbn [alookup].
  destruct (alookup k m); reflexivity.
Qed.

(* ================= 3. when does appending agree with merge patch ================= *)
(* [absorbs h1 h2]: merge-patching the value of h1 over the value of h2 gives back the value of h1 *)
Fixpoint absorbs (fuel : nat) (h1 h2 : list json) : bool :=
  match fuel with
  | O => false
  | S f =>
    match h1, h2 with
    | JObj _ :: _, JObj _ :: _ =>
        let P1 := oprefix h1 in let P2 := oprefix h2 in
        forallb (fun k => smem k (jkeys P1) && absorbs f (jprop k P1) (jprop k P2)) (jkeys P2)
    | _, _ => true
    end
  end.

(* [compat g1 g2] (layers top first; g1 above g2) *)
Fixpoint compat_f (fuel : nat) (g1 g2 : list json) : bool :=
  match fuel with
  | O => false
  | S f =>
    match g1, g2 with
    | [], [] => true
    | [], _ :: _ => false
    | JObj _ :: _, JObj _ :: _ =>
        let P1 := oprefix g1 in let P2 := oprefix g2 in
        if all_obj g1
        then (* g1 is all objects: g2 shows through; recursively compatible at every shared key *)
             forallb (fun k => negb (smem k (jkeys P2)) || compat_f f (jprop k P1) (jprop k P2)) (jkeys P1)
        else (* g1 has an object above a non-object: g2 is cut off, so its value must add nothing to g1's *)
             absorbs fuel g1 g2
    | _, _ => true      (* g1's top is a non-object, or g2's top is not an object (or g2 is empty) *)
    end
  end.

Definition compat (g1 g2 : list json) : bool := compat_f (S (jlsize g1 + jlsize g2)) g1 g2.

Lemma absorbs_S f h1 h2 :
  absorbs (S f) h1 h2 =
    match h1, h2 with
    | JObj _ :: _, JObj _ :: _ =>
        forallb (fun k => smem k (jkeys (oprefix h1)) && absorbs f (jprop k (oprefix h1)) (jprop k (oprefix h2))) (jkeys (oprefix h2))
    | _, _ => true
    end.
Proof. reflexivity. Qed.

Lemma compat_f_S f g1 g2 :
  compat_f (S f) g1 g2 =
    match g1, g2 with
    | [], [] => true
    | [], _ :: _ => false
    | JObj _ :: _, JObj _ :: _ =>
        if all_obj g1
        then forallb (fun k => negb (smem k (jkeys (oprefix g2))) || compat_f f (jprop k (oprefix g1)) (jprop k (oprefix g2)))
                     (jkeys (oprefix g1))
        else absorbs (S f) g1 g2
    | _, _ => true
    end.
Proof. reflexivity. Qed.

Lemma jprop_size_lt x m1 r1 m2 r2 n :
  jlsize (JObj m1 :: r1) + jlsize (JObj m2 :: r2) < S n ->
  jlsize (jprop x (oprefix (JObj m1 :: r1))) + jlsize (jprop x (oprefix (JObj m2 :: r2))) < n.
Proof. intros H. pose proof (jlsize_jprop_lt x m1 r1). pose proof (jlsize_jprop_lt x m2 r2). lia. Qed.

Lemma absorbs_spec (n : nat) (h1 h2 : list json) :
  jlsize h1 + jlsize h2 < n -> jswf h1 -> jswf h2 ->
  (absorbs n h1 h2 = true <-> mp' (flat_merge h2) (flat_merge h1) = flat_merge h1).
Proof.
  revert h1 h2. induction n as [|n IH]; intros h1 h2 Hn W1 W2; [lia|]. rewrite absorbs_S.
  destruct h1 as [|j1 r1].
  { split; [intros _|reflexivity]. now apply mp'_nonobj_patch. }
  destruct (is_jobj j1) eqn:O1.
  2:{ assert (X : mp' (flat_merge h2) (flat_merge (j1 :: r1)) = flat_merge (j1 :: r1))
        by (apply mp'_nonobj_patch; now apply flat_merge_top_nonobj).
      destruct j1; try discriminate; (split; [intros _; exact X|reflexivity]). }
  destruct j1 as [| | | | |m1]; try discriminate.
  destruct h2 as [|j2 r2].
  { split; [intros _|reflexivity]. now apply mp'_nonobj_base. }
  destruct (is_jobj j2) eqn:O2.
  2:{ assert (X : mp' (flat_merge (j2 :: r2)) (flat_merge (JObj m1 :: r1)) = flat_merge (JObj m1 :: r1))
        by (apply mp'_nonobj_base; now apply flat_merge_top_nonobj).
      destruct j2; try discriminate; (split; [intros _; exact X|reflexivity]). }
  destruct j2 as [| | | | |m2]; try discriminate.
  rewrite !flat_merge_obj. unfold fm_obj at 1 2.
  set (P1 := oprefix (JObj m1 :: r1)). set (P2 := oprefix (JObj m2 :: r2)).
  assert (S1 : ssorted (jkeys P1)).
  { apply jkeys_sorted. inversion W1 as [|? ? Hj _]; subst. exact (proj1 (jwf_obj _ Hj)). }
  assert (S2 : ssorted (jkeys P2)).
  { apply jkeys_sorted. inversion W2 as [|? ? Hj _]; subst. exact (proj1 (jwf_obj _ Hj)). }
  unfold fm_obj. rewrite mp'_tab; [|exact S1|exact S2|now rewrite tab_keys].
  rewrite forallb_forall. split.
  - intros H x. rewrite alookup_tab. destruct (smem x (jkeys P1)) eqn:E1, (smem x (jkeys P2)) eqn:E2; try reflexivity.
    + f_equal. symmetry. apply smem_In in E2. specialize (H x E2). rewrite andb_true_iff in H. destruct H as [_ H].
      apply IH in H; [exact H| | |].
      * apply jprop_size_lt, Hn.
      * apply jprop_wf, oprefix_wf, W1.
      * apply jprop_wf, oprefix_wf, W2.
    + apply smem_In in E2. specialize (H x E2). rewrite E1 in H. discriminate.
  - intros H x Hx. specialize (H x). rewrite alookup_tab in H. apply smem_In in Hx. rewrite Hx in H.
    destruct (smem x (jkeys P1)); [|discriminate]. cbn [andb]. injection H as H.
    apply IH; [| | |now symmetry].
    + apply jprop_size_lt, Hn.
    + apply jprop_wf, oprefix_wf, W1.
    + apply jprop_wf, oprefix_wf, W2.
Qed.

(* the append law, with its exact side condition *)
Lemma compat_spec (n : nat) (g1 g2 : list json) :
  jlsize g1 + jlsize g2 < n -> jswf g1 -> jswf g2 -> g1 <> [] ->
  (compat_f n g1 g2 = true <-> flat_merge (g1 ++ g2) = mp' (flat_merge g2) (flat_merge g1)).
Proof.
  revert g1 g2. induction n as [|n IH]; intros g1 g2 Hn W1 W2 Hne; [lia|]. rewrite compat_f_S.
  destruct g1 as [|j1 r1]; [congruence|].
  destruct (is_jobj j1) eqn:O1.
  2:{ assert (X : flat_merge ((j1 :: r1) ++ g2) = mp' (flat_merge g2) (flat_merge (j1 :: r1))).
      { rewrite flat_merge_app_nonobj by exact O1. symmetry. apply mp'_nonobj_patch. now apply flat_merge_top_nonobj. }
      destruct j1; try discriminate; (split; [intros _; exact X|reflexivity]). }
  destruct j1 as [| | | | |m1]; try discriminate.
  destruct g2 as [|j2 r2].
  { split; [intros _|reflexivity]. rewrite app_nil_r. symmetry. now apply mp'_nonobj_base. }
  destruct (is_jobj j2) eqn:O2.
  2:{ assert (X : flat_merge ((JObj m1 :: r1) ++ j2 :: r2) = mp' (flat_merge (j2 :: r2)) (flat_merge (JObj m1 :: r1))).
      { rewrite mp'_nonobj_base by now apply flat_merge_top_nonobj.
        rewrite <- app_comm_cons, !flat_merge_obj. f_equal.
        destruct (all_obj (JObj m1 :: r1)) eqn:A.
        - rewrite app_comm_cons, (oprefix_app_all _ _ A). destruct j2; try discriminate; cbn [oprefix]; now rewrite app_nil_r.
        - now rewrite app_comm_cons, (oprefix_app_cut _ _ A). }
      destruct j2; try discriminate; (split; [intros _; exact X|reflexivity]). }
  destruct j2 as [| | | | |m2]; try discriminate.
  set (P1 := oprefix (JObj m1 :: r1)). set (P2 := oprefix (JObj m2 :: r2)).
  assert (A1 : asorted m1) by (inversion W1 as [|? ? Hj _]; subst; exact (proj1 (jwf_obj _ Hj))).
  assert (S1 : ssorted (jkeys P1)) by now apply jkeys_sorted.
  assert (S2 : ssorted (jkeys P2)).
  { apply jkeys_sorted. inversion W2 as [|? ? Hj _]; subst. exact (proj1 (jwf_obj _ Hj)). }
  destruct (all_obj (JObj m1 :: r1)) eqn:A.
  - (* all objects *)
    rewrite <- app_comm_cons, flat_merge_obj, app_comm_cons, (oprefix_app_all _ _ A). fold P1 P2.
    rewrite !flat_merge_obj. fold P1 P2. unfold fm_obj.
    assert (St : asorted (tab (fun k => flat_merge (jprop k (P1 ++ P2))) (jkeys (P1 ++ P2)))).
    { rewrite tab_keys. unfold P1. cbn [oprefix]. rewrite <- app_comm_cons. now apply jkeys_sorted. }
    split.
    + intros H. symmetry. apply (proj2 (mp'_tab _ _ _ _ _ S1 S2 St)).
      intros x. rewrite alookup_tab, !smem_jkeys, jprop_app.
      rewrite forallb_forall in H.
      destruct (jprop x P1) as [|a1 t1] eqn:E1; [destruct (jprop x P2); reflexivity|].
      destruct (jprop x P2) as [|a2 t2] eqn:E2; [now rewrite app_nil_r|].
      rewrite <- app_comm_cons. f_equal.
      assert (Hx : In x (jkeys P1)) by (apply In_jkeys; congruence).
      specialize (H x Hx). rewrite smem_jkeys, E1, E2 in H. cbn [negb orb] in H.
      apply IH in H; [exact H| | | |discriminate].
      * rewrite <- E1, <- E2. apply jprop_size_lt, Hn.
      * rewrite <- E1. apply jprop_wf, oprefix_wf, W1.
      * rewrite <- E2. apply jprop_wf, oprefix_wf, W2.
    + intros H0. symmetry in H0. pose proof (proj1 (mp'_tab _ _ _ _ _ S1 S2 St) H0) as H. clear H0.
      apply forallb_forall. intros x Hx. specialize (H x).
      rewrite alookup_tab, !smem_jkeys, jprop_app in H. rewrite smem_jkeys.
      apply In_jkeys in Hx.
      destruct (jprop x P1) as [|a1 t1] eqn:E1; [congruence|].
      destruct (jprop x P2) as [|a2 t2] eqn:E2; [reflexivity|]. cbn [negb orb].
      rewrite <- app_comm_cons in H. injection H as H.
      apply IH; [| | |discriminate|exact H].
      * rewrite <- E1, <- E2. apply jprop_size_lt, Hn.
      * rewrite <- E1. apply jprop_wf, oprefix_wf, W1.
      * rewrite <- E2. apply jprop_wf, oprefix_wf, W2.
  - (* an object above a non-object *)
    assert (X : flat_merge ((JObj m1 :: r1) ++ JObj m2 :: r2) = flat_merge (JObj m1 :: r1)).
    { rewrite <- app_comm_cons, !flat_merge_obj. f_equal. now rewrite app_comm_cons, (oprefix_app_cut _ _ A). }
    rewrite X. rewrite (absorbs_spec (S n) (JObj m1 :: r1) (JObj m2 :: r2)); [|lia|exact W1|exact W2].
    split; intros H; now symmetry.
Qed.

Theorem flat_merge_app (g1 g2 : list json) :
  jswf g1 -> jswf g2 -> g1 <> [] ->
  (compat g1 g2 = true <-> flat_merge (g1 ++ g2) = mp' (flat_merge g2) (flat_merge g1)).
Proof. intros W1 W2 Hne. apply compat_spec; [lia|exact W1|exact W2|exact Hne]. Qed.

(* a single layer is compatible with anything below it: [flat_merge] is the layer-by-layer merge-patch fold *)
Lemma compat_single (n : nat) (j : json) (g2 : list json) : jsize j + jlsize g2 < n -> compat_f n [j] g2 = true.
Proof.
  revert j g2. induction n as [|n IH]; intros j g2 Hn; [lia|]. rewrite compat_f_S.
  destruct j as [| | | | |m]; try reflexivity. destruct g2 as [|j2 r2]; [reflexivity|].
  destruct j2 as [| | | | |m2]; try reflexivity. cbn [all_obj forallb is_jobj andb oprefix].
  apply forallb_forall. intros k Hk. apply orb_true_iff. right.
  apply In_jkeys in Hk.
  assert (Ek : jprop k [m] = match alookup k m with Some v => [v] | None => [] end) by reflexivity.
  rewrite Ek in *. destruct (alookup k m) as [v|] eqn:E; [|congruence].
  apply IH. pose proof (jlsize_jprop_lt k m2 r2) as H. apply jmsize_alookup in E.
  rewrite jsize_obj in Hn. cbn [oprefix] in H. lia.
Qed.

Theorem flat_merge_cons (j : json) (r : list json) :
  jwf j = true -> jswf r -> flat_merge (j :: r) = mp' (flat_merge r) (flat_merge [j]).
Proof.
  intros Wj Wr. apply (compat_spec (S (jlsize [j] + jlsize r)) [j] r); [lia|now constructor|exact Wr|discriminate|].
  apply compat_single. cbn [jlsize]. lia.
Qed.

(* the design document's form of export_flat_layers: the lazy chain IS the layer-by-layer fold, unconditionally *)
Theorem flat_merge_fold (js : list json) :
  jswf js -> flat_merge js = fold_right (fun j acc => mp' acc (flat_merge [j])) junknown js.
Proof.
  induction 1 as [|j r Hj Hr IH]; [reflexivity|]. cbn [fold_right]. rewrite <- IH. now apply flat_merge_cons.
Qed.

(* ---------------- associativity of merge patch, and its failure ---------------- *)
Theorem mp_assoc_compat (g1 g2 g3 : list json) :
  jswf g1 -> jswf g2 -> jswf g3 -> g1 <> [] -> g2 <> [] ->
  compat g2 g3 = true -> compat g1 (g2 ++ g3) = true -> compat g1 g2 = true -> compat (g1 ++ g2) g3 = true ->
  mp' (mp' (flat_merge g3) (flat_merge g2)) (flat_merge g1) = mp' (flat_merge g3) (mp' (flat_merge g2) (flat_merge g1)).
Proof.
  intros W1 W2 W3 N1 N2 C23 C1 C12 C3.
  apply flat_merge_app in C23; [|assumption..]. apply flat_merge_app in C12; [|assumption..].
  apply flat_merge_app in C1; [|try assumption..]. 2:{ apply Forall_app. now split. }
  apply flat_merge_app in C3; [|try assumption..]. 2:{ apply Forall_app. now split. } 2:{ destruct g1; [congruence|discriminate]. }
  rewrite <- C23, <- C12, <- C1, <- C3. now rewrite app_assoc.
Qed.

(* on values: (c . b) . a = c . (b . a) iff [a; b] is compatible with [c] — for single layers the other three conditions hold *)
Theorem mp_assoc_values (a b c : json) :
  jwf a = true -> jwf b = true -> jwf c = true ->
  flat_merge [a] = a -> flat_merge [b] = b -> flat_merge [c] = c ->
  (compat [a; b] [c] = true <-> mp' (mp' c b) a = mp' c (mp' b a)).
Proof.
  intros Wa Wb Wc Na Nb Nc.
  assert (E1 : flat_merge [a; b; c] = mp' (mp' c b) a).
  { rewrite flat_merge_cons; [|exact Wa|now repeat constructor].
    rewrite (flat_merge_cons b [c]); [|exact Wb|now repeat constructor]. now rewrite Na, Nb, Nc. }
  assert (E2 : flat_merge [a; b] = mp' b a).
  { rewrite flat_merge_cons; [|exact Wa|now repeat constructor]. now rewrite Na, Nb. }
  rewrite (flat_merge_app [a; b] [c]); [|now repeat constructor|now repeat constructor|discriminate].
  cbn [app]. rewrite E1, E2, Nc. reflexivity.
Qed.

Theorem mp_assoc_refuted :
  let a := JObj [("c", JNum "3")] in let b := JNum "5" in let c := JObj [("b", JNum "2")] in
  mp' (mp' c b) a = JObj [("c", JNum "3")] /\
  mp' c (mp' b a) = JObj [("b", JNum "2"); ("c", JNum "3")] /\
  mp' (mp' c b) a <> mp' c (mp' b a) /\ compat [a; b] [c] = false.
Proof. cbv zeta. repeat split; try reflexivity. intros H. vm_compute in H. discriminate. Qed.

(* ================= 4. the fold over the imports' values ================= *)
(* groups top first; the value of the concatenation is the fold of the groups' values, bottom group first *)
Fixpoint chain_compat (tg : list (list json)) : bool :=
  match tg with
  | [] => true
  | g :: lower => compat g (concat lower) && chain_compat lower
  end.

Lemma concat_wf (tg : list (list json)) : Forall (fun g => jswf g) tg -> jswf (concat tg).
Proof. induction 1 as [|g r Hg Hr IH]; [constructor|]. cbn [concat]. apply Forall_app. now split. Qed.

Lemma flat_merge_groups (tg : list (list json)) :
  Forall (fun g => jswf g) tg -> Forall (fun g => g <> []) tg -> chain_compat tg = true ->
  flat_merge (concat tg) = fold_right (fun g acc => mp' acc (flat_merge g)) junknown tg.
Proof.
  induction tg as [|g lower IH]; intros W N C; [reflexivity|].
  inversion W as [|? ? Wg Wl]; inversion N as [|? ? Ng Nl]; subst.
  cbn [chain_compat] in C. apply andb_true_iff in C. destruct C as [Cg Cl].
  cbn [concat fold_right]. rewrite <- (IH Wl Nl Cl).
  apply flat_merge_app; [exact Wg|now apply concat_wf|exact Ng|exact Cg].
Qed.

Lemma fold_from_unknown (vs : list json) :
  Forall (fun v => jwf v = true) vs -> vs <> [] ->
  fold_left mp' vs junknown = fold_left mp' vs (JObj []).
Proof.
  destruct vs as [|v r]; [congruence|]. intros W _. cbn [fold_left]. inversion W; subst.
  rewrite mp'_empty_l by assumption. now rewrite mp'_nonobj_base by reflexivity.
Qed.

Lemma fold_left_map' {A B C} (f : A -> C -> A) (g : B -> C) (l : list B) (a : A) :
  fold_left f (map g l) a = fold_left (fun acc x => f acc (g x)) l a.
Proof. revert a. induction l as [|x r IH]; intros a; [reflexivity|]. cbn [map fold_left]. apply IH. Qed.

(* [gs]: the layer lists of the merged imports in LISTING order (each top first, non-empty); [o]: the environment's own
   layer.  Go's chain is o :: concat (rev gs); the property's fold is over the imports' values, then o. *)
Theorem C01_fold_compat (gs : list (list json)) (o : json) :
  Forall (fun g => jswf g) gs -> Forall (fun g => g <> []) gs -> jwf o = true -> flat_merge [o] = o ->
  chain_compat (rev gs) = true ->
  flat_merge (o :: concat (rev gs)) = fold_left mp' (map flat_merge gs ++ [o]) (JObj []).
Proof.
  intros W N Wo No C.
  assert (Wr : Forall (fun g => jswf g) (rev gs)) by (apply Forall_rev; exact W).
  assert (Nr : Forall (fun g => g <> []) (rev gs)) by (apply Forall_rev; exact N).
  rewrite flat_merge_cons; [|exact Wo|now apply concat_wf]. rewrite No.
  rewrite fold_left_app. cbn [fold_left].
  destruct gs as [|g gs'].
  - cbn [rev concat map fold_left]. rewrite mp'_empty_l by exact Wo. now apply mp'_nonobj_base.
  - f_equal. rewrite (flat_merge_groups _ Wr Nr C), fold_left_rev_right.
    rewrite <- (fold_left_map' mp' flat_merge). apply fold_from_unknown; [|discriminate].
    apply Forall_forall. intros v Hv. apply in_map_iff in Hv. destruct Hv as (g0 & <- & Hg0).
    apply flat_merge_wf. rewrite Forall_forall in W. now apply W.
Qed.

(* ---------------- the known class (Corr/C01.v's kf_oso), over groups ---------------- *)
Definition has_obj_at (p : list string) (l : json) : bool :=
  match jget p l with Some v => is_jobj v | None => false end.

(* groups top first: some group has, at path p, an object above a non-object while a lower group still has an object there *)
Definition oso_scan (p : list string) : list (list json) -> bool :=
  fix scan (tg : list (list json)) : bool :=
    match tg with
    | [] => false
    | g :: lower => (obj_then_nonobj p g false && existsb (has_obj_at p) (concat lower)) || scan lower
    end.

Lemma oso_scan_cons p g lower :
  oso_scan p (g :: lower) = (obj_then_nonobj p g false && existsb (has_obj_at p) (concat lower)) || oso_scan p lower.
Proof. reflexivity. Qed.

Definition kf_groups (tg : list (list json)) : bool :=
  existsb (fun p => oso_scan p tg) (concat (map (jpaths EvalWire.wire_fuel) (concat tg))).

(* Corr/C01.v's predicate is [kf_groups] of the case's groups *)
Lemma kf_oso_is_kf_groups (c : case) :
  kf_oso c =
  kf_groups (rev (map (fun im : string * bool =>
                         if snd im then match alookup (fst im) (w_envs (c_world c)) with
                                        | Some (LoadOk d') => flat EvalWire.model_fuel (c_world c) d'
                                        | _ => []
                                        end
                         else []) (ed_imports (c_def c)))).
Proof. reflexivity. Qed.

Lemma otn_cons (k : string) (p : list string) (g : list json) (s : bool) :
  all_obj g = true -> obj_then_nonobj (k :: p) g s = obj_then_nonobj p (jprop k (oprefix g)) s.
Proof.
  revert s. induction g as [|j r IH]; intros s A; [reflexivity|].
  cbn [all_obj forallb] in A. apply andb_true_iff in A. destruct A as [Aj Ar]. destruct j; try discriminate.
  cbn [oprefix jprop obj_then_nonobj jget]. destruct (alookup k m) as [v|]; [|now apply IH].
  cbn [obj_then_nonobj]. destruct (jget p v) as [w|]; [|now apply IH]. destruct (is_jobj w); [now apply IH|reflexivity].
Qed.

Lemma has_obj_cons (k : string) (p : list string) (g : list json) :
  existsb (has_obj_at p) (jprop k (oprefix g)) = true -> existsb (has_obj_at (k :: p)) g = true.
Proof.
  induction g as [|j r IH]; [discriminate|]. destruct j; try discriminate.
  cbn [oprefix jprop existsb]. unfold has_obj_at at 2. cbn [jget].
  destruct (alookup k m) as [v|].
  - cbn [existsb]. unfold has_obj_at at 1. intros H. apply orb_true_iff in H. apply orb_true_iff.
    destruct H as [H|H]; [now left|right; now apply IH].
  - intros H. apply orb_true_iff. right. now apply IH.
Qed.

Lemma otn_nil_cut (g : list json) : all_obj g = false -> obj_then_nonobj [] g true = true.
Proof.
  induction g as [|j r IH]; [discriminate|]. cbn [all_obj forallb obj_then_nonobj jget]. intros A.
  destruct (is_jobj j); [now apply IH|reflexivity].
Qed.

(* an incompatibility is always an instance of the known class *)
Lemma compat_false_oso (n : nat) (g1 g2 : list json) :
  jlsize g1 + jlsize g2 < n -> g1 <> [] -> compat_f n g1 g2 = false ->
  exists p, obj_then_nonobj p g1 false = true /\ existsb (has_obj_at p) g2 = true.
Proof.
  revert g1 g2. induction n as [|n IH]; intros g1 g2 Hn Hne C; [lia|]. rewrite compat_f_S in C.
  destruct g1 as [|j1 r1]; [congruence|].
  destruct j1 as [| | | | |m1]; try discriminate. destruct g2 as [|j2 r2]; [discriminate|].
  destruct j2 as [| | | | |m2]; try discriminate.
  destruct (all_obj (JObj m1 :: r1)) eqn:A.
  - assert (X : exists k, In k (jkeys (oprefix (JObj m1 :: r1))) /\
                          compat_f n (jprop k (oprefix (JObj m1 :: r1))) (jprop k (oprefix (JObj m2 :: r2))) = false).
    { revert C. generalize (jkeys (oprefix (JObj m1 :: r1))) as ks. induction ks as [|k ks IHk]; [discriminate|].
      cbn [forallb]. intros C. apply andb_false_iff in C. destruct C as [C|C].
      - apply orb_false_iff in C. exists k. split; [now left|apply C].
      - destruct (IHk C) as (k' & Hk' & Ck'). exists k'. split; [now right|exact Ck']. }
    destruct X as (k & Hk & Ck). apply In_jkeys in Hk.
    apply IH in Ck; [|apply jprop_size_lt, Hn|exact Hk].
    destruct Ck as (p & Hp1 & Hp2). exists (k :: p). split.
    + now rewrite otn_cons.
    + now apply has_obj_cons.
  - exists []. split; [|reflexivity]. cbn [all_obj forallb is_jobj andb] in A. cbn [obj_then_nonobj jget is_jobj].
    now apply otn_nil_cut.
Qed.

Lemma oso_free_compat (tg : list (list json)) :
  Forall (fun g => g <> []) tg -> (forall p, oso_scan p tg = false) -> chain_compat tg = true.
Proof.
  induction tg as [|g lower IH]; intros N H; [reflexivity|]. inversion N as [|? ? Ng Nl]; subst.
  cbn [chain_compat]. apply andb_true_iff. split.
  - destruct (compat g (concat lower)) eqn:C; [reflexivity|]. exfalso.
    apply compat_false_oso in C; [|lia|exact Ng]. destruct C as (p & H1 & H2).
    specialize (H p). rewrite oso_scan_cons, H1, H2 in H. discriminate.
  - apply IH; [exact Nl|]. intros p. specialize (H p). rewrite oso_scan_cons in H. apply orb_false_iff in H. apply H.
Qed.

Theorem C01_fold_partial (gs : list (list json)) (o : json) :
  Forall (fun g => jswf g) gs -> Forall (fun g => g <> []) gs -> jwf o = true -> flat_merge [o] = o ->
  (forall p, oso_scan p (rev gs) = false) ->
  flat_merge (o :: concat (rev gs)) = fold_left mp' (map flat_merge gs ++ [o]) (JObj []).
Proof.
  intros W N Wo No H. apply C01_fold_compat; try assumption. apply oso_free_compat; [|exact H]. now apply Forall_rev.
Qed.

(* the boolean known-class predicate of Corr/C01.v enumerates paths with fuel [wire_fuel]; it is sound for layers that
   are not deeper than that (every decoded case) *)
Lemma jget_depth (p : list string) (l v : json) : jget p l = Some v -> length p + jdepth v <= jdepth l.
Proof.
  revert l. induction p as [|k r IH]; intros l H; [injection H as ->; cbn [length]; lia|].
  cbn [jget] in H. destruct l; try discriminate. destruct (alookup k m) as [w|] eqn:E; [|discriminate].
  apply IH in H. apply alookup_In in E. pose proof (jdepth_obj_in _ _ E). cbn [snd length] in *. lia.
Qed.

Lemma jget_jpaths (p : list string) (l v : json) (f : nat) : jget p l = Some v -> length p < f -> In p (jpaths f l).
Proof.
  revert l f. induction p as [|k r IH]; intros l f H Hf; (destruct f as [|f]; [cbn [length] in Hf; lia|]).
  - cbn [jpaths]. destruct l; now left.
  - cbn [jget] in H. destruct l; try discriminate. destruct (alookup k m) as [w|] eqn:E; [|discriminate].
    cbn [jpaths]. right. apply in_concat. exists (map (cons k) (jpaths f w)). split.
    + apply in_map_iff. exists (k, w). split; [reflexivity|now apply alookup_In].
    + apply in_map. apply IH; [exact H|cbn [length] in Hf; lia].
Qed.

Lemma oso_scan_witness (p : list string) (tg : list (list json)) :
  oso_scan p tg = true -> exists l, In l (concat tg) /\ has_obj_at p l = true.
Proof.
  induction tg as [|g lower IH]; [discriminate|]. rewrite oso_scan_cons. cbn [concat]. intros H. apply orb_true_iff in H. destruct H as [H|H].
  - apply andb_true_iff in H. destruct H as [_ H]. apply existsb_exists in H. destruct H as (l & Hl & Hp).
    exists l. split; [apply in_or_app; now right|exact Hp].
  - destruct (IH H) as (l & Hl & Hp). exists l. split; [apply in_or_app; now right|exact Hp].
Qed.

Lemma kf_groups_sound (tg : list (list json)) :
  Forall (fun l => jdepth l <= EvalWire.wire_fuel) (concat tg) -> kf_groups tg = false -> forall p, oso_scan p tg = false.
Proof.
  intros D K p. destruct (oso_scan p tg) eqn:E; [|reflexivity]. exfalso.
  destruct (oso_scan_witness _ _ E) as (l & Hl & Hp). unfold has_obj_at in Hp.
  destruct (jget p l) as [v|] eqn:G; [|discriminate].
  assert (X : existsb (fun p => oso_scan p tg) (concat (map (jpaths EvalWire.wire_fuel) (concat tg))) = true).
  { apply existsb_exists. exists p. split; [|exact E]. apply in_concat. exists (jpaths EvalWire.wire_fuel l). split.
    - now apply in_map.
    - apply (jget_jpaths _ _ _ _ G). rewrite Forall_forall in D. specialize (D _ Hl).
      pose proof (jget_depth _ _ _ G). pose proof (jdepth_pos v). lia. }
  unfold kf_groups in K. congruence.
Qed.

Theorem C01_fold_partial_kf (gs : list (list json)) (o : json) :
  Forall (fun g => jswf g) gs -> Forall (fun g => g <> []) gs -> jwf o = true -> flat_merge [o] = o ->
  Forall (fun l => jdepth l <= EvalWire.wire_fuel) (concat (rev gs)) -> kf_groups (rev gs) = false ->
  flat_merge (o :: concat (rev gs)) = fold_left mp' (map flat_merge gs ++ [o]) (JObj []).
Proof. intros W N Wo No D K. apply C01_fold_partial; try assumption. now apply kf_groups_sound. Qed.

(* ---------------- the design document's (stronger) condition implies [compat] ---------------- *)
Fixpoint compat_design_f (fuel : nat) (g1 g2 : list json) : bool :=
  match fuel with
  | O => false
  | S f =>
    match g1, g2 with
    | [], [] => true
    | [], _ :: _ => false
    | JObj _ :: _, JObj _ :: _ =>
        if all_obj g1
        then forallb (fun k => negb (smem k (jkeys (oprefix g2))) || compat_design_f f (jprop k (oprefix g1)) (jprop k (oprefix g2)))
                     (jkeys (oprefix g1))
        else false       (* an object above a non-object in g1: the top of g2 must not be an object *)
    | _, _ => true
    end
  end.

Lemma compat_design_implies (n : nat) (g1 g2 : list json) : compat_design_f n g1 g2 = true -> compat_f n g1 g2 = true.
Proof.
  revert g1 g2. induction n as [|n IH]; intros g1 g2 H; [discriminate|]. rewrite compat_f_S. cbn [compat_design_f] in H.
  destruct g1 as [|j1 r1]; [exact H|]. destruct j1; try reflexivity. destruct g2 as [|j2 r2]; [reflexivity|].
  destruct j2; try reflexivity. destruct (all_obj (JObj m :: r1)); [|discriminate].
  rewrite forallb_forall in *. intros k Hk. specialize (H k Hk). apply orb_true_iff in H. apply orb_true_iff.
  destruct H as [H|H]; [now left|right; now apply IH].
Qed.

(* strictly weaker: {a:1} over 5, above the empty object *)
Example compat_weaker_than_design :
  let g1 := [JObj [("a", JNum "1")]; JNum "5"] in let g2 := [JObj []] in
  compat g1 g2 = true /\ compat_design_f 16 g1 g2 = false.
Proof. vm_compute. split; reflexivity. Qed.
