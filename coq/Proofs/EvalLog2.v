(* Proofs/EvalLog2.v — every [EvOpen] / [EvDecrypt] in the log is caused by an [EOpen] / [ESecretCipher]
   sub-expression of a definition, and the provider receives EXACTLY the memoised value of its inputs
   expression.  Instance [trace] of the induction of Proofs/EvalLog2Ind.v. *)
From Coq Require Import Lia ZifyN ZifyNat ZifyBool.
From Verif Require Import Base.Bytes Model.Chain Model.GoText Model.Envelope Model.Eval.
From Verif Require Import Proofs.EvalLogKit Proofs.EvalLogInd Proofs.EvalLog Proofs.EvalLog2Ind.
From Verif Require Import Proofs.EvalTotalOrder Proofs.EvalTotalSyntax Proofs.EvalTotalBound.

(* ------------------------------------------------------------------------------------------- *)
(** * 1. The frame: memo entries, once present, are frozen (until their own [eval_expr] completes them) *)

Definition frozen (g s : st) : Prop :=
  forall id, memo_get id (memo g) <> None -> memo_get id (memo s) = memo_get id (memo g).

Definition done_stable (s s' : st) : Prop :=
  forall id v, memo_get id (memo s) = Some (Some v) -> memo_get id (memo s') = Some (Some v).

Lemma frozen_refl s : frozen s s.
Proof. intros id _. reflexivity. Qed.

Lemma frozen_trans g s s' : frozen g s -> frozen s s' -> frozen g s'.
Proof.
  intros H1 H2 id Hid. rewrite <- (H1 id Hid). apply H2. rewrite (H1 id Hid). exact Hid.
Qed.

Lemma frozen_done g s : frozen g s -> done_stable g s.
Proof. intros H id v Hv. rewrite (H id); [exact Hv|]. rewrite Hv. discriminate. Qed.

Lemma frozen_same g s s' : memo s' = memo s -> frozen g s -> frozen g s'.
Proof. intros Hm H id Hid. rewrite Hm. exact (H id Hid). Qed.

Lemma done_stable_same s s' : memo s' = memo s -> done_stable s s'.
Proof. intros Hm id v H. rewrite Hm. exact H. Qed.

Section Trace.
Variable OK : st -> ev -> Prop.
Hypothesis OK_mono : forall s s' e, done_stable s s' -> OK s e -> OK s' e.

(* the log grew by events that are all OK with respect to the CURRENT memo table *)
Definition trace (g s : st) : Prop :=
  frozen g s /\ exists new, log s = new ++ log g /\ Forall (OK s) new.

Lemma trace_refl s : trace s s.
Proof. split; [apply frozen_refl|]. exists []. split; [reflexivity|constructor]. Qed.

Lemma trace_same g s s' : memo s' = memo s -> log s' = log s -> trace g s -> trace g s'.
Proof.
  intros Hm Hl (Hf & n & L & F). split; [eapply frozen_same; eassumption|].
  exists n. rewrite Hl. split; [exact L|]. eapply Forall_impl; [|exact F].
  intros e. apply OK_mono, done_stable_same, Hm.
Qed.

Lemma trace_event W g e s : OK s e -> trace g s -> trace g (snd (emit e (snd (call W s)))).
Proof.
  intros He (Hf & n & L & F). split; [exact Hf|]. exists (e :: n). split; [cbn; rewrite L; reflexivity|].
  assert (forall e', OK s e' -> OK (snd (emit e (snd (call W s)))) e') as Hm
    by (intros e'; apply OK_mono, done_stable_same; reflexivity).
  constructor; [apply Hm, He|]. eapply Forall_impl; [exact Hm|exact F].
Qed.

(* the memo step of [eval_expr]: entering [id] (absent so far), running its [eval_repr], completing it *)
Lemma trace_memo id g s0 :
  trace g s0 -> memo_get id (memo s0) = None ->
  forall s2 v, trace (snd (memo_set id None s0)) s2 -> trace g (snd (memo_set id v s2)).
Proof.
  intros (Hf0 & n1 & L1 & F1) Hnone s2 v (Hf2 & n2 & L2 & F2). cbn [memo_set snd] in *.
  cbn [memo log] in Hf2, L2.
  assert (forall id', memo_get id' (memo s0) <> None -> id' <> id) as Hne by (intros id' H' ->; exact (H' Hnone)).
  assert (forall id', id' <> id -> forall m w, memo_get id' ((id, w) :: m) = memo_get id' m) as Hskip.
  { intros id' Hn m w. rewrite memo_get_cons. destruct (eid_eqb id' id) eqn:E; [|reflexivity].
    apply eid_eqb_eq in E. contradiction. }
  assert (memo_get id (memo s2) = Some None) as Hid2.
  { unfold frozen in Hf2. cbn [memo] in Hf2. rewrite (Hf2 id); rewrite memo_get_cons, eid_eqb_refl; [reflexivity|discriminate]. }
  (* entries of s0 are the same in the final state *)
  assert (forall id', memo_get id' (memo s0) <> None ->
            memo_get id' ((id, v) :: memo s2) = memo_get id' (memo s0)) as H03.
  { intros id' H'. pose proof (Hne id' H') as Hn. rewrite (Hskip id' Hn).
    unfold frozen in Hf2. cbn [memo] in Hf2. rewrite (Hf2 id'); rewrite (Hskip id' Hn); [reflexivity|exact H']. }
  split.
  - intros id' H'. cbn [memo]. rewrite <- (Hf0 id' H'). apply H03. rewrite (Hf0 id' H'). exact H'.
  - exists (n2 ++ n1). cbn [log]. rewrite L2, L1, app_assoc. split; [reflexivity|]. apply Forall_app. split.
    + eapply Forall_impl; [|exact F2]. intros e. apply OK_mono. intros id' w Hw. cbn [memo].
      assert (id' <> id) as Hn by (intros ->; rewrite Hid2 in Hw; discriminate).
      rewrite (Hskip id' Hn). exact Hw.
    + eapply Forall_impl; [|exact F1]. intros e. apply OK_mono. intros id' w Hw. cbn [memo].
      rewrite H03; [exact Hw|]. rewrite Hw. discriminate.
Qed.
End Trace.

Lemma trace_trans (OK1 OK2 OK : st -> ev -> Prop) g s s' :
  (forall s s' e, done_stable s s' -> OK s e -> OK s' e) ->
  (forall s e, OK1 s e -> OK s e) -> (forall s e, OK2 s e -> OK s e) ->
  trace OK1 g s -> trace OK2 s s' -> trace OK g s'.
Proof.
  intros Hmono H1 H2 (Hf1 & n1 & L1 & F1) (Hf2 & n2 & L2 & F2). split; [eapply frozen_trans; eassumption|].
  exists (n2 ++ n1). rewrite L2, L1, app_assoc. split; [reflexivity|]. apply Forall_app. split.
  - eapply Forall_impl; [|exact F2]. intros e. apply H2.
  - eapply Forall_impl; [|exact F1]. intros e He. apply (Hmono s s'); [apply frozen_done, Hf2|apply H1, He].
Qed.

(* ------------------------------------------------------------------------------------------- *)
(** * 2. The instance *)

Lemma site_ok_mono W E s s' e : done_stable s s' -> site_ok W E s e -> site_ok W E s' e.
Proof.
  intros Hd. destruct e; cbn; try tauto.
  intros (Hr & Hc & Hchk & inp & pv & iv & Hat & Hp & Hm & Rest).
  split; [exact Hr|]. split; [exact Hc|]. split; [exact Hchk|]. exists inp, pv, iv.
  split; [exact Hat|]. split; [exact Hp|]. split; [exact (Hd _ _ Hm)|exact Rest].
Qed.

(* which definition an environment name denotes during [eval_env ... name d]: the one being evaluated,
   or what the loader returns *)
Definition env_def (W : world) (name : string) (d : envdef) (n : string) (dn : envdef) : Prop :=
  (n = name /\ dn = d) \/ alookup n (w_envs W) = Some (LoadOk dn).

Definition env_site (W : world) (name : string) (d : envdef) (s : st) (e : ev) : Prop :=
  match e with
  | EvLoad _ => True
  | _ => exists E dn, site_ok W E s e /\ ec_values E = vals_of2 dn /\ env_def W name d (ec_name E) dn
  end.

Lemma env_site_mono W name d s s' e : done_stable s s' -> env_site W name d s e -> env_site W name d s' e.
Proof.
  intros Hd. destruct e; unfold env_site; try tauto; intros (E & dn & Hs & Rest); exists E, dn;
    (split; [exact (site_ok_mono W E s s' _ Hd Hs)|exact Rest]).
Qed.

Section Instance.
Variable W : world.

Let R (E : ectx) := trace (site_ok W E).

Lemma expr_hyps :
  (forall E s, R E s s) /\
  (forall E g n, preserves (R E g) (add_err n)) /\
  (forall E g, preserves (R E g) out_of_fuel) /\
  (forall E g e s, site_ok W E s e -> is_open e = false -> R E g s -> R E g (snd (emit e (snd (call W s))))) /\
  (forall E (id : eid) s s', True -> R E s s' -> R E s s') /\
  (forall E (id : eid) s n, preserves (R E s) (add_err n)) /\
  (forall E id s s1 p xin, True -> R E s s1 -> site_ok W E s1 (EvOpen id p xin (ec_root E) (ec_name E)) ->
     R E s (snd (emit (EvOpen id p xin (ec_root E) (ec_name E)) (snd (call W s1))))) /\
  (forall E id g s0, R E g s0 -> memo_get id (memo s0) = None ->
     True /\ forall s2 v, R E (snd (memo_set id None s0)) s2 -> R E g (snd (memo_set id v s2))).
Proof.
  split; [|split; [|split; [|split; [|split; [|split; [|split]]]]]].
  - intros E s. apply trace_refl.
  - intros E g n s Hs. eapply trace_same; [apply site_ok_mono| | |exact Hs]; reflexivity.
  - intros E g s Hs. eapply trace_same; [apply site_ok_mono| | |exact Hs]; reflexivity.
  - intros E g e s He _ Hs. apply trace_event; [apply site_ok_mono|exact He|exact Hs].
  - intros E id s s' _ H. exact H.
  - intros E id g n s Hs. eapply trace_same; [apply site_ok_mono| | |exact Hs]; reflexivity.
  - intros E id s s1 p xin _ Hr He. apply trace_event; [apply site_ok_mono|exact He|exact Hr].
  - intros E id g s0 Hr Hn. split; [exact I|]. intros s2 v H2.
    eapply trace_memo; [apply site_ok_mono|exact Hr|exact Hn|exact H2].
Qed.

Theorem eval_trace : forall fuel,
  (forall E x xsec xbase id g, at_id E id x -> preserves (trace (site_ok W E) g) (eval_expr W fuel E x xsec xbase id)) /\
  (forall E x xbase id s, at_id E id x -> trace (site_ok W E) s (snd (eval_repr W fuel E x xbase id s))) /\
  (forall E x a id g, at_id E id x -> preserves (trace (site_ok W E) g) (eval_typed W fuel E x a id)) /\
  (forall E p g, preserves (trace (site_ok W E) g) (eval_access W fuel E p)) /\
  (forall E rx rsec rbase rid accs g, at_id E rid rx ->
     preserves (trace (site_ok W E) g) (walk W fuel E rx rsec rbase rid accs)).
Proof.
  intros fuel. destruct expr_hyps as (H1 & H2 & H3 & H4 & H5 & H6 & H7 & H8).
  destruct (eval_ind_pres2 W R H1 H2 H3 H4 (fun _ _ => True) (fun E _ => R E) H5 H6 H7 H8 fuel)
    as (He & Hr & Ht & Ha & Hw).
  split; [exact He|]. split; [|split; [|split; [exact Ha|exact Hw]]].
  - intros E x xbase id s Hid. apply Hr; [exact Hid|exact I].
  - intros E x a id g Hid s Hs. exact (proj1 (Ht E g x a id Hid s Hs)).
Qed.

Theorem eval_env_trace : forall fuel root name d g,
  preserves (trace (env_site W name d) g) (eval_env W fuel root name d).
Proof.
  destruct expr_hyps as (H1 & H2 & H3 & H4 & H5 & H6 & H7 & H8).
  apply (eval_env_pres2 W R H1 H2 H3 H4 (fun _ _ => True) (fun E _ => R E) H5 H6 H7 H8
           (fun _ name d => trace (env_site W name d))).
  - intros _ name d s. apply trace_refl.
  - intros _ name d g n s Hs. eapply trace_same; [apply env_site_mono| | |exact Hs]; reflexivity.
  - intros _ name d g s Hs. eapply trace_same; [apply env_site_mono| | |exact Hs]; reflexivity.
  - intros _ name d g n v s Hs. eapply trace_same; [apply env_site_mono| | |exact Hs]; reflexivity.
  - intros _ name d g n s Hs. apply trace_event; [apply env_site_mono|exact I|exact Hs].
  - intros _ name d E g s s' Hn _ Hv Ha Hb.
    eapply trace_trans; [apply env_site_mono| | |exact Ha|exact Hb]; [auto|].
    intros s0 e He. destruct e; try exact I; exists E, d; (split; [exact He|split; [exact Hv|left; split; [exact Hn|reflexivity]]]).
  - intros _ name d n d' g s s' Hlk Ha Hb.
    eapply trace_trans; [apply env_site_mono| | |apply (trace_event _ (env_site_mono W name d) W g (EvLoad n) s I Ha)|exact Hb];
      [auto|].
    intros s0 e He. destruct e; try exact I; destruct He as (E & dn & Hs & Hv & Hd); exists E, dn;
      (split; [exact Hs|split; [exact Hv|]]); right;
      (destruct Hd as [[-> ->]|Hd]; [exact Hlk|exact Hd]).
Qed.
End Instance.

(* ------------------------------------------------------------------------------------------- *)
(** * 3. The theorems *)

Lemma env_log_sites W fuel root name d :
  Forall (env_site W name d (snd (eval_env W fuel root name d st0))) (log (snd (eval_env W fuel root name d st0))).
Proof.
  destruct (eval_env_trace W fuel root name d st0 st0 (trace_refl _ st0)) as (_ & n & L & F).
  rewrite L. cbn. rewrite app_nil_r. exact F.
Qed.

(** ** (1) the provider receives exactly the evaluated inputs *)
Theorem open_inputs_exact W fuel root name d id p xin r c :
  let s' := snd (eval_env W fuel root name d st0) in
  In (EvOpen id p xin r c) (log s') ->
  exists dn inputs pv iv,
    env_def W name d (fst id) dn
    /\ sub_at (EObj (vals_of2 dn)) (snd id) = Some (EOpen p inputs)
    /\ sub_at (EObj (vals_of2 dn)) (snd (inputs_id id)) = Some inputs
    /\ memo_get (inputs_id id) (memo s') = Some (Some iv)
    /\ export_t iv = Some xin
    /\ alookup p (w_provs W) = Some pv
    /\ contains_unknowns iv = false
    /\ x_has_unknown xin = false
    /\ fst (validate (AccIn (pv_in pv)) iv) = true
    /\ x_is_obj xin = true
    /\ w_check W = false.
Proof.
  cbv zeta. intros Hin. pose proof (env_log_sites W fuel root name d) as F.
  rewrite Forall_forall in F. specialize (F _ Hin).
  destruct F as (E & dn & (_ & _ & Hchk & inp & pv & iv & [Hn Hsub] & Hp & Hm & Hx & Hu & Hxu & Hv & Ho) & Hvals & Hdef).
  exists dn, inp, pv, iv. unfold root_of in Hsub. rewrite Hvals in Hsub. rewrite Hn.
  split; [exact Hdef|]. split; [exact Hsub|]. split.
  { unfold inputs_id. cbn [snd]. rewrite sub_at_app, Hsub. reflexivity. }
  repeat (split; [assumption|]). assumption.
Qed.

(** ** (3) decode before decrypt, tied to the syntax *)
Theorem decode_before_decrypt W fuel root name d env ct :
  In (EvDecrypt env ct) (log (snd (eval_env W fuel root name d st0))) ->
  exists dn path repr,
    env_def W name d env dn
    /\ sub_at (EObj (vals_of2 dn)) path = Some (ESecretCipher repr)
    /\ decode_ct std_params repr = DOk ct
    /\ (w_check W && negb (w_show W)) = false.
Proof.
  intros Hin. pose proof (env_log_sites W fuel root name d) as F.
  rewrite Forall_forall in F. specialize (F _ Hin).
  destruct F as (E & dn & (Henv & Hg & id & repr & [Hn Hsub] & Hd) & Hvals & Hdef).
  exists dn, (snd id), repr. unfold root_of in Hsub. rewrite Hvals in Hsub. rewrite Henv.
  split; [exact Hdef|]. split; [exact Hsub|]. split; assumption.
Qed.

(* if every ciphertext expression of every definition involved is rejected by [decode_ct], nothing is decrypted *)
Theorem all_rejected_no_decrypt W fuel root name d :
  (forall n dn path repr, env_def W name d n dn -> sub_at (EObj (vals_of2 dn)) path = Some (ESecretCipher repr) ->
     forall ct, decode_ct std_params repr <> DOk ct) ->
  forall e, In e (log (snd (eval_env W fuel root name d st0))) -> is_decrypt e = false.
Proof.
  intros Hrej e Hin. destruct e; try reflexivity. exfalso.
  destruct (decode_before_decrypt W fuel root name d _ _ Hin) as (dn & path & repr & Hdef & Hsub & Hd & _).
  exact (Hrej _ dn path repr Hdef Hsub _ Hd).
Qed.

(* "no decrypt event, no collaborator call, exactly one diagnostic" *)
Definition rejected_effect (W : world) (f : nat) (E : ectx) (repr : string) (xbase : chain) (id : eid) (s : st) : Prop :=
  let r := eval_repr W (S f) E (ESecretCipher repr) xbase id s in
  log (snd r) = log s /\ calls (snd r) = calls s /\ nerr (snd r) = nerr s + 1.

(* the local contrapositive: evaluating a ciphertext expression whose [repr] does not decode logs nothing,
   calls no collaborator, and reports exactly one diagnostic *)
Theorem rejected_cipher_repr W f E repr xbase id s :
  (forall ct, decode_ct std_params repr <> DOk ct) ->
  let r := eval_repr W (S f) E (ESecretCipher repr) xbase id s in
  log (snd r) = log s /\ calls (snd r) = calls s /\ nerr (snd r) = nerr s + 1 /\ memo (snd r) = memo s
  /\ fst r = [LScalar true true (ScType "string") SNull].
Proof.
  intros Hrej. cbv zeta. rewrite eval_repr_S. unfold cipher_body.
  destruct (decode_ct std_params repr) as [ct| | | | | |] eqn:Hd;
    [exfalso; exact (Hrej ct eq_refl)|..]; rewrite bind_run; cbn; repeat split; reflexivity.
Qed.

Corollary rejected_cipher_effect W f E repr xbase id s :
  (forall ct, decode_ct std_params repr <> DOk ct) -> rejected_effect W f E repr xbase id s.
Proof.
  intros H. destruct (rejected_cipher_repr W f E repr xbase id s H) as (A & B & C & _). unfold rejected_effect. auto.
Qed.

(* the same for the whole expression, first evaluation *)
Theorem rejected_cipher_expr W f E repr xsec xbase id s :
  (forall ct, decode_ct std_params repr <> DOk ct) -> memo_get id (memo s) = None ->
  let r := eval_expr W (S (S f)) E (ESecretCipher repr) xsec xbase id s in
  log (snd r) = log s /\ calls (snd r) = calls s /\ nerr (snd r) = nerr s + 1.
Proof.
  intros Hrej Hm. cbv zeta. rewrite eval_expr_S, bind_run.
  change (fst (get_memo id s)) with (memo_get id (memo s)). rewrite Hm.
  rewrite bind_run, bind_run. cbv zeta. rewrite bind_run.
  set (s1 := snd (memo_set id None (snd (get_memo id s)))).
  destruct (rejected_cipher_repr W f E repr xbase id s1 Hrej) as (Hl & Hc & Hn & _ & _).
  cbn [ret memo_set snd log calls nerr]. rewrite Hl, Hc, Hn. repeat split; reflexivity.
Qed.

Corollary undecodable_cipher_effect W f E repr xbase id s :
  (match decode_ct std_params repr with DOk _ => false | _ => true end) = true -> rejected_effect W f E repr xbase id s.
Proof. intros H. apply rejected_cipher_effect. intros ct Hd. rewrite Hd in H. discriminate. Qed.

Theorem run_decode_before_decrypt fuel W name d env ct :
  In (EvDecrypt env ct) (ob_log (run fuel W name d)) ->
  exists dn path repr,
    env_def W name d env dn
    /\ sub_at (EObj (vals_of2 dn)) path = Some (ESecretCipher repr)
    /\ decode_ct std_params repr = DOk ct
    /\ (w_check W && negb (w_show W)) = false.
Proof. intros H. rewrite EvalLog.run_log, <- in_rev in H. exact (decode_before_decrypt W fuel "" name d env ct H). Qed.

Theorem run_open_inputs_exact fuel W name d id p xin r c :
  let s' := snd (eval_env W fuel "" name d st0) in
  In (EvOpen id p xin r c) (ob_log (run fuel W name d)) ->
  exists dn inputs pv iv,
    env_def W name d (fst id) dn
    /\ sub_at (EObj (vals_of2 dn)) (snd id) = Some (EOpen p inputs)
    /\ sub_at (EObj (vals_of2 dn)) (snd (inputs_id id)) = Some inputs
    /\ memo_get (inputs_id id) (memo s') = Some (Some iv)
    /\ export_t iv = Some xin
    /\ alookup p (w_provs W) = Some pv
    /\ contains_unknowns iv = false
    /\ x_has_unknown xin = false
    /\ fst (validate (AccIn (pv_in pv)) iv) = true
    /\ x_is_obj xin = true
    /\ w_check W = false.
Proof. cbv zeta. intros H. rewrite EvalLog.run_log, <- in_rev in H. exact (open_inputs_exact W fuel "" name d id p xin r c H). Qed.
