(* Proofs/CryptToy.v — the toy cipher used by the correspondence checks of C04/C12 is a pair (enc, dec) with
   dec (enc p) = Some p, i.e. it satisfies the hypothesis of the decrypt-after-encrypt theorems. *)
From Verif Require Import Base.Bytes Model.Envelope Corr.CryptWire Proofs.EnvelopeBase64 Proofs.EnvelopeProofs.
From Coq Require Import Lia.

Definition all256 : list N := map N.of_nat (seq 0 256).

Lemma in_all256 (n : N) : n < 256 -> In n all256.
Proof.
  intros H. unfold all256. apply in_map_iff. exists (N.to_nat n). split; [lia|]. apply in_seq. lia.
Qed.

Definition xor_inv_check (k c : N) : bool :=
  N_of_ascii (ascii_of_N (N.lxor (N_of_ascii (ascii_of_N (N.lxor c k))) k)) =? c.

Lemma xor_inv_table : forallb (fun k => forallb (xor_inv_check k) all256) all256 = true.
Proof. vm_compute. reflexivity. Qed.

Lemma xor_char_inv (key : N) (c : ascii) : key < 256 ->
  ascii_of_N (N.lxor (N_of_ascii (ascii_of_N (N.lxor (N_of_ascii c) key))) key) = c.
Proof.
  intros Hk. pose proof xor_inv_table as T. rewrite forallb_forall in T.
  specialize (T key (in_all256 key Hk)). rewrite forallb_forall in T.
  specialize (T (N_of_ascii c) (in_all256 _ (N_of_ascii_lt c))). unfold xor_inv_check in T.
  apply N.eqb_eq in T. apply (f_equal ascii_of_N) in T. rewrite !ascii_N_embedding in T. exact T.
Qed.

Lemma sxor_key_inv key p : key < 256 -> sxor_key key (sxor_key key p) = p.
Proof.
  intros Hk. induction p as [|c r IH]; cbn [sxor_key]; [reflexivity|]. now rewrite xor_char_inv, IH.
Qed.

Lemma length_srepeat n c : String.length (srepeat n c) = n.
Proof. induction n; cbn; congruence. Qed.

Theorem toy_cipher_inverse key pad p ct : key < 256 -> toy_enc key pad p = Some ct -> toy_dec key pad ct = Some p.
Proof.
  intros Hk H. unfold toy_enc in H. injection H as <-. unfold toy_dec.
  set (a := srepeat pad (ascii_of_N key)).
  assert (Hl : String.length a = pad) by apply length_srepeat.
  rewrite length_app_s, Hl.
  replace (Nat.leb pad (pad + String.length (sxor_key key p))) with true by (symmetry; apply Nat.leb_le; lia).
  rewrite <- Hl at 1. rewrite stake_app_exact, String.eqb_refl. cbn [andb].
  rewrite <- Hl at 1. rewrite sdrop_app_exact. now rewrite sxor_key_inv.
Qed.
