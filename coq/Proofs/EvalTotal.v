(* Proofs/EvalTotal.v — C07 (evaluation is total) and C09 (evaluation is deterministic / key order is
   irrelevant) for the evaluator model Model/Eval.v.  This file gathers the headline theorems; the proofs live in
     EvalTotalBase    open-recursion bodies, state preorder, fuel monotonicity            (Theorems 1, 2)
     EvalTotalInv     generic invariant toolkit
     EvalTotalOrder   string order, declared / sort_entries / find_entry
     EvalTotalSyntax  induction principle for expr, expr_perm, positions
     EvalTotalRecover every declared key / element is produced                          (Theorem 3)
     EvalTotalFail    every failure path yields an unknown value and a diagnostic         (Theorem 4)
     EvalTotalBound   explicit fuel bound, references and cycles included                 (Theorem 5)
     EvalTotalPerm    key-order independence at every nesting level                       (Theorems 6, 7)

   What these theorems are about: the Gallina model.  It cannot crash by construction; the content is that
   its fuel is a purely technical device (results are independent of it above an explicit bound) and that
   errors are recovered from locally.  Go panics, stack exhaustion, yaml parsing of arbitrary bytes and the
   randomised iteration order of Go maps are runtime phenomena: they are covered by the correspondence
   harness (Corr/C07.v, Corr/C09.v), not by these theorems. *)
From Verif Require Export Base.Bytes Model.Chain Model.GoText Model.Envelope Model.Eval.
From Verif Require Export Proofs.EvalTotalBase Proofs.EvalTotalInv Proofs.EvalTotalOrder Proofs.EvalTotalSyntax
  Proofs.EvalTotalRecover Proofs.EvalTotalFail Proofs.EvalTotalBound Proofs.EvalTotalPerm.
From Coq Require Import Lia.

Section SUMMARY.
Variable W : world.

(* Theorem 1.  A run that did not exhaust its fuel is reproduced exactly (value and final state) by every
   run with more fuel. *)
Theorem fuel_monotone (f f' : nat) : (f <= f')%nat ->
  (forall E x xsec xbase id s, oof s = false -> oof (snd (eval_expr W f E x xsec xbase id s)) = false ->
     eval_expr W f' E x xsec xbase id s = eval_expr W f E x xsec xbase id s) /\
  (forall E x xbase id s, oof s = false -> oof (snd (eval_repr W f E x xbase id s)) = false ->
     eval_repr W f' E x xbase id s = eval_repr W f E x xbase id s) /\
  (forall E x a id s, oof s = false -> oof (snd (eval_typed W f E x a id s)) = false ->
     eval_typed W f' E x a id s = eval_typed W f E x a id s) /\
  (forall E p s, oof s = false -> oof (snd (eval_access W f E p s)) = false ->
     eval_access W f' E p s = eval_access W f E p s) /\
  (forall E rx rsec rbase rid accs s, oof s = false -> oof (snd (walk W f E rx rsec rbase rid accs s)) = false ->
     walk W f' E rx rsec rbase rid accs s = walk W f E rx rsec rbase rid accs s) /\
  (forall root name d s, oof s = false -> oof (snd (eval_env W f root name d s)) = false ->
     eval_env W f' root name d s = eval_env W f root name d s).
Proof.
  intro H. split; [|split; [|split; [|split; [|split]]]]; intros.
  - apply fuel_monotone_expr; assumption.
  - apply fuel_monotone_repr; assumption.
  - apply fuel_monotone_typed; assumption.
  - apply fuel_monotone_access; assumption.
  - apply fuel_monotone_walk; assumption.
  - apply fuel_monotone_env; assumption.
Qed.

(* Theorem 2.  The fuel flag is never reset and the diagnostic count never decreases (nor the call count; the
   memo and import tables only grow: see [st_le]). *)
Definition keeps {A} (m : M A) : Prop :=
  forall s, (oof s = true -> oof (snd (m s)) = true) /\ nerr s <= nerr (snd (m s)).

Lemma mono_keeps {A} (m : M A) : mono m -> keeps m.
Proof. intros H s. split; [apply (le_oof _ _ (H s))|apply (le_nerr _ _ (H s))]. Qed.

Theorem oof_sticky (f : nat) :
  (forall E x xsec xbase id, keeps (eval_expr W f E x xsec xbase id)) /\
  (forall E x xbase id, keeps (eval_repr W f E x xbase id)) /\
  (forall E x a id, keeps (eval_typed W f E x a id)) /\
  (forall E p, keeps (eval_access W f E p)) /\
  (forall E rx rsec rbase rid accs, keeps (walk W f E rx rsec rbase rid accs)) /\
  (forall root name d, keeps (eval_env W f root name d)).
Proof.
  split; [|split; [|split; [|split; [|split]]]]; intros; apply mono_keeps.
  - apply eval_expr_mono. - apply eval_repr_mono. - apply eval_typed_mono.
  - apply eval_access_mono. - apply walk_mono. - apply eval_env_mono.
Qed.

End SUMMARY.

(* find_entry (first occurrence) under reordering of unique keys *)
Theorem find_entry_perm {A} k (l l' : list (string * A)) i j :
  NoDup (map fst l) -> Permutation.Permutation l l' ->
  option_map snd (find_entry k l i) = option_map snd (find_entry k l' j).
Proof. intros Hn Hp. rewrite !find_entry_alookup. apply alookup_perm; assumption. Qed.
