(* Proofs/ApiJsonSrc.v — the C18 statements instantiated on the tables srcfacts read from the Go sources of
   this run (Src/SrcApiJson.v): side conditions by computation, concrete witnesses of the known findings,
   non-vacuity examples. *)
From Verif Require Import Base.Bytes Model.ApiJson Src.SrcApiJson Proofs.ApiJsonBase Proofs.ApiJsonProofs
  Proofs.ApiJsonTidy.
Open Scope string_scope.

Notation st := src_tables.
Notation top := (DPlain false).      (* json.Unmarshal(data, &x): a plain decoder, no UseNumber *)

Lemma src_shape : src_shape_ok st value_raw_fields schema_marshal_cases = true.
Proof. vm_compute. reflexivity. Qed.

Lemma src_tables_ok : tables_ok st = true.
Proof. vm_compute. reflexivity. Qed.

(* ---- values built by field name on today's tables ---- *)
Definition mk (nm : string) (asg : list (string * gval)) : gval := unwrap (struct_with st 8 nm asg).
Definition pos (l c b : Z) : gval := mk "Pos" [("Line", GInt l); ("Column", GInt c); ("Byte", GInt b)].
Definition rng (e : string) : gval := mk "Range" [("Environment", GStr e); ("Begin", pos 1 2 3); ("End", pos 1 9 10)].
Definition trace0 : gval := mk "Trace" [("Def", rng "env")].
Definition value (payload : gval) (s u : bool) (tr : gval) : gval :=
  mk "Value" [("Value", payload); ("Secret", GBool s); ("Unknown", GBool u); ("Trace", tr)].
Definition tvalue := TNamed "Value".
Definition texpr := TNamed "Expr".
Definition tschema := TNamed "Schema".
Definition tenv := TNamed "Environment".

Definition vnum (t : string) := GIface TNum (GNum t).
Definition vstr (s : string) := GIface TStr (GStr s).
Definition varr (l : list gval) := GIface (TSlice tvalue) (GSlice l).
Definition vobj (l : list (string * gval)) := GIface (TMap tvalue) (GMap l).

(* the six payloads the property wants kept apart (nil = null = absent for a Value) *)
Definition payloads : list gval :=
  [GNil; GIface TBool (GBool false); vnum "0"; vstr ""; varr []; vobj []].

Definition distinct_payloads_ok (s u : bool) : bool :=
  let vs := map (fun p => value p s u trace0) payloads in
  forallb (clean st 12 top tvalue) vs && forallb (roundtrips st 12 tvalue) vs
  && nodup_json (map (fun v => match marshal st 12 tvalue v with Ok j => j | _ => JNull end) vs).

Lemma distinct_payloads : forall s u, distinct_payloads_ok s u = true.
Proof. intros [|] [|]; vm_compute; reflexivity. Qed.

(* a value with everything in it: nested arrays/objects, all flag combinations, a base, big and fractional numbers *)
Definition sample_value : gval :=
  value (vobj [("", value GNil true true trace0);
               ("a", value (varr [value (vnum "12345678901234567890") false false trace0;
                                  value (vnum "-1.50e+300") true false trace0;
                                  value (vstr "") false true trace0;
                                  value (GIface TBool (GBool false)) false false trace0;
                                  value (varr []) false false trace0;
                                  value (vobj []) false false trace0]) false false trace0);
               ("b", value (vstr (hx "e282ac")) false false trace0)])
        false false
        (mk "Trace" [("Def", rng ""); ("Base", GPtr (value (vnum "0") true false trace0))]).

Lemma sample_value_clean : clean st 20 top tvalue sample_value = true.
Proof. vm_compute. reflexivity. Qed.

(* a schema using boolean forms, numbers in `any` fields, nested maps *)
Definition sample_schema : gval :=
  mk "Schema" [("Type", GStr "object");
               ("Properties", GMap [("a", GPtr (mk "Schema" [("Always", GBool true)]));
                                    ("b", GPtr (mk "Schema" [("Never", GBool true)]));
                                    ("c", GPtr (mk "Schema" [("Type", GStr "number"); ("Const", GIface TNum (GNum "1e-07"));
                                                             ("Minimum", GNum "0"); ("Enum", GSlice [GIface TNum (GNum "0"); GIface TBool (GBool false); GIface TStr (GStr ""); GNil;
                                                                                                      GIface (TSlice TAny) (GSlice []); GIface (TMap TAny) (GMap [])])]))]);
               ("Required", GSlice [GStr "a"]);
               ("DependentRequired", GMap [("a", GSlice []); ("b", GNil)]);
               ("Items", GPtr (mk "Schema" [("Never", GBool true)]));
               ("Secret", GBool true)].

Lemma sample_schema_clean : clean st 20 top tschema sample_schema = true.
Proof. vm_compute. reflexivity. Qed.

Definition sample_expr : gval :=
  mk "Expr" [("Range", rng "env"); ("Schema", GPtr sample_schema);
             ("Object", GMap [("k", mk "Expr" [("Range", rng "env"); ("Literal", vstr "x")]);
                              ("l", mk "Expr" [("Range", rng "env");
                                               ("List", GSlice [mk "Expr" [("Literal", GIface TBool (GBool false))]])]);
                              ("s", mk "Expr" [("Symbol", GSlice [mk "PropertyAccessor" [("Key", GPtr (GStr "a")); ("Value", rng "env")];
                                                                  mk "PropertyAccessor" [("Index", GPtr (GInt 0))]])]);
                              ("x", mk "Expr" [("Access", GPtr (mk "AccessExpr" [("Receiver", rng "env"); ("Accessors", GSlice [])]))])]);
             ("KeyRanges", GMap [("k", rng "env")])].

Lemma sample_expr_clean : clean st 20 top texpr sample_expr = true.
Proof. vm_compute. reflexivity. Qed.

Definition sample_env : gval :=
  mk "Environment" [("Exprs", GMap [("e", sample_expr)]); ("Properties", GMap [("v", sample_value)]);
                    ("Schema", GPtr sample_schema);
                    ("ExecutionContext", GPtr (mk "EvaluatedExecutionContext" [("Properties", GMap [("v", sample_value)])]))].

Lemma sample_env_clean : clean st 24 top tenv sample_env = true.
Proof. vm_compute. reflexivity. Qed.

(* ---- witnesses of the known findings (each well-formed, each breaking the full statement) ---- *)
Definition w_nonfinite : gval := value (vnum "+Inf") false false trace0.
Lemma nonfinite_refuted :
  wellformed st 12 top tvalue w_nonfinite = true /\ kf_nonfinite st 12 top tvalue w_nonfinite = true
  /\ marshal st 12 tvalue w_nonfinite = Err.
Proof. vm_compute. repeat split; reflexivity. Qed.

Definition w_expr_number : gval := mk "Expr" [("Range", rng "env"); ("Literal", GIface TNum (GNum "12345678901234567890"))].

(* repaired in the source of this run: Expr has an UnmarshalJSON that calls UseNumber, so the witness of the old
   finding is clean and round-trips (this stops compiling if the repair is reverted) *)
Lemma expr_number_repaired :
  keeps_numbers st "Expr" = true /\ clean st 12 top texpr w_expr_number = true
  /\ roundtrips st 12 texpr w_expr_number = true.
Proof. vm_compute. repeat split; reflexivity. Qed.

(* the tables of this run with Expr's custom decoder taken away again: the code before the repair *)
Definition tables_without_usenumber : tables :=
  map (fun sd => if String.eqb (sd_name sd) "Expr"
                 then mkSdef (sd_name sd) (sd_fields sd) (sd_marshal sd) CustNone else sd) st.

Lemma expr_number_refuted_without_usenumber :
  keeps_numbers tables_without_usenumber "Expr" = false
  /\ wellformed tables_without_usenumber 12 top texpr w_expr_number = true
  /\ kf_any_number tables_without_usenumber 12 top texpr w_expr_number = true
  /\ exists j v', marshal tables_without_usenumber 12 texpr w_expr_number = Ok j
                  /\ unmarshal tables_without_usenumber 12 top texpr j = Ok v'
                  /\ gval_eqb true w_expr_number v' = false.
Proof.
  split; [vm_compute; reflexivity|]. split; [vm_compute; reflexivity|]. split; [vm_compute; reflexivity|].
  eexists. eexists. split; [vm_compute; reflexivity|]. split; [vm_compute; reflexivity|]. vm_compute. reflexivity.
Qed.

Definition w_empty_list : gval := mk "Expr" [("Range", rng "env"); ("List", GSlice [])].
Lemma empty_list_refuted :
  wellformed st 12 top texpr w_empty_list = true /\ kf_empty_omitted st 12 top texpr w_empty_list = true
  /\ kf_empty_lossy st 12 top texpr w_empty_list = true
  /\ exists j, marshal st 12 texpr w_empty_list = Ok j
               /\ unmarshal st 12 top texpr j = Ok (mk "Expr" [("Range", rng "env"); ("List", GNil)]).
Proof.
  split; [vm_compute; reflexivity|]. split; [vm_compute; reflexivity|]. split; [vm_compute; reflexivity|].
  eexists. split; [vm_compute; reflexivity | vm_compute; reflexivity].
Qed.

(* ---- the omitempty slice/map fields of the tables: 18, of which 5 lose information when read back as nil ---- *)
Definition is_collection (t : gty) : bool := match t with TSlice _ | TMap _ => true | _ => false end.

(* (struct, Go field) of every written field that is omitempty and a slice or a map *)
Definition omitempty_collections (tb : tables) : list (string * string) :=
  flat_map (fun sd => map (fun f => (sd_name sd, f_go f))
                          (filter (fun f => f_omit f && negb (f_skip f) && is_collection (f_ty f)) (sd_fields sd))) tb.

Definition pair_eqb (a b : string * string) : bool := String.eqb (fst a) (fst b) && String.eqb (snd a) (snd b).

Lemma empty_fields_count :
  length (omitempty_collections st) = 18%nat
  /\ length (filter (fun q => lossy_field (fst q) (snd q)) (omitempty_collections st)) = 5%nat
  /\ length lossy_fields = 5%nat
  /\ forallb (fun q => existsb (pair_eqb q) (omitempty_collections st)) lossy_fields = true.
Proof. vm_compute. repeat split; reflexivity. Qed.

(* ---- harmless empties: non-nil empty collections where nil means the same; they come back as nil ---- *)
Definition harmless_schema : gval := mk "Schema" [("Type", GStr "object"); ("Required", GSlice []); ("Properties", GMap [])].
Definition harmless_expr : gval := mk "Expr" [("Range", rng "env"); ("Literal", vstr "x"); ("KeyRanges", GMap [])].
Definition harmless_env : gval :=
  mk "Environment" [("Exprs", GMap [("e", harmless_expr)]); ("Properties", GMap []); ("Schema", GPtr harmless_schema)].
(* the same with every one of those four fields left nil *)
Definition harmless_env_nil : gval :=
  mk "Environment" [("Exprs", GMap [("e", mk "Expr" [("Range", rng "env"); ("Literal", vstr "x")])]);
                    ("Schema", GPtr (mk "Schema" [("Type", GStr "object")]))].

Lemma harmless_empties :
  tidy st 12 top tenv harmless_env = true /\ clean st 12 top tenv harmless_env = false
  /\ kf_empty_omitted st 12 top tenv harmless_env = true /\ kf_empty_lossy st 12 top tenv harmless_env = false
  /\ in_lossy_class st 12 top tenv harmless_env = false
  /\ (exists j, marshal st 12 tenv harmless_env = Ok j
                /\ unmarshal st 12 top tenv j = Ok (nilify st 12 tenv harmless_env))
  /\ nilify st 12 tenv harmless_env = harmless_env_nil
  /\ gval_eqb false harmless_env (nilify st 12 tenv harmless_env) = false.
Proof.
  split; [vm_compute; reflexivity|]. split; [vm_compute; reflexivity|]. split; [vm_compute; reflexivity|].
  split; [vm_compute; reflexivity|]. split; [vm_compute; reflexivity|].
  split; [eexists; split; [vm_compute; reflexivity | vm_compute; reflexivity]|].
  split; [vm_compute; reflexivity | vm_compute; reflexivity].
Qed.

Definition w_non_utf8 : gval := value (vstr (hx "ff")) false false trace0.
Lemma non_utf8_refuted :
  wellformed st 12 top tvalue w_non_utf8 = true /\ kf_non_utf8 st 12 top tvalue w_non_utf8 = true
  /\ exists j, marshal st 12 tvalue w_non_utf8 = Ok j
               /\ unmarshal st 12 top tvalue j = Ok (value (vstr (hx "efbfbd")) false false trace0).
Proof. split; [vm_compute; reflexivity|]. split; [vm_compute; reflexivity|]. eexists. split; [vm_compute; reflexivity | vm_compute; reflexivity]. Qed.

(* null and absence are the same Value on input; json.Marshal never writes "value": null *)
Lemma absent_is_null :
  exists tr, marshal st 12 (TNamed "Trace") trace0 = Ok tr
  /\ unmarshal st 12 top tvalue (JObj [("trace", tr)]) = Ok (value GNil false false trace0)
  /\ unmarshal st 12 top tvalue (JObj [("value", JNull); ("trace", tr)]) = Ok (value GNil false false trace0)
  /\ marshal st 12 tvalue (value GNil false false trace0) = Ok (JObj [("trace", tr)]).
Proof.
  eexists. split; [vm_compute; reflexivity|].
  split; [vm_compute; reflexivity|]. split; [vm_compute; reflexivity | vm_compute; reflexivity].
Qed.
