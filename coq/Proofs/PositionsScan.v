(* Proofs/PositionsScan.v — the two definitions of "the byte offset of (line, column)" agree:
   [true_byte] (line table + characters of the line) and [scan_pos] (one pass over the bytes counting lines and
   characters), on every text whose lines consist of whole code points. *)
From Coq Require Import Lia ZifyNat ZifyBool.
From Verif Require Import Base.Bytes Model.Positions Proofs.PositionsBase.
Local Open Scope Z_scope.

Lemma nchars_nonneg_aux : forall l, 0 <= nchars l.
Proof. intros l. unfold nchars. lia. Qed.

Fixpoint no_nl (s : string) : bool :=
  match s with EmptyString => true | String c r => negb (is_nl c) && no_nl r end.

Lemma lines_no_nl : forall s, Forall (fun l => no_nl l = true) (lines_of s).
Proof.
  unfold lines_of. induction s as [|c r IH]; [repeat constructor|].
  cbn [cut_lines]. destruct (cut_lines r) as [l ls]. inversion IH as [|? ? Hl Hls]; subst.
  destruct (is_nl c) eqn:E.
  - constructor; [reflexivity | now constructor].
  - constructor; [cbn [no_nl]; now rewrite E | exact Hls].
Qed.

(* the scan over a list of code points followed by the rest of the text *)
Fixpoint scan_cs (cs : list string) (r : string) (ln cl b line col : Z) : option Z :=
  match cs with
  | [] => scan_pos r 0 ln cl b line col
  | c :: cs' => if (ln =? line) && (cl =? col) then Some b
                else scan_cs cs' r ln (cl + 1) (b + slenZ c) line col
  end.

Lemma scan_lockstep : forall line col l k r ln cl b,
  no_nl l = true -> pending l k = 0%nat ->
  scan_pos (l +++ r) k ln cl b line col
  = scan_cs (snd (cps_aux l k)) r ln cl (b + slenZ (fst (cps_aux l k))) line col.
Proof.
  intros line col. induction l as [|c l IH]; intros k r ln cl b Hn Hp.
  - cbn [pending] in Hp. subst k. cbn [String.append cps_aux fst snd scan_cs].
    change (slenZ EmptyString) with 0. now rewrite Z.add_0_r.
  - cbn [no_nl] in Hn. apply andb_prop in Hn. destruct Hn as [Hc Hn].
    cbn [String.append scan_pos cps_aux pending] in *. destruct k as [|k'].
    + rewrite (IH _ r ln (cl + 1) (b + 1) Hn Hp).
      destruct (cps_aux l (rune_size c - 1)) as [p cs]. cbn [fst snd scan_cs].
      change (slenZ EmptyString) with 0. rewrite Z.add_0_r.
      destruct ((ln =? line) && (cl =? col)); [reflexivity|].
      destruct (is_nl c); [discriminate Hc|]. rewrite slenZ_cons. f_equal. lia.
    + rewrite (IH _ r ln cl (b + 1) Hn Hp). destruct (cps_aux l k') as [p cs]. cbn [fst snd].
      rewrite slenZ_cons. f_equal. lia.
Qed.

Lemma scan_cs_closed : forall line col cs r ln cl b,
  scan_cs cs r ln cl b line col =
  if (ln =? line) && (cl <=? col) && (col <? cl + Z.of_nat (length cs))
  then Some (b + slenZ (concat_str (firstn (Z.to_nat (col - cl)) cs)))
  else scan_pos r 0 ln (cl + Z.of_nat (length cs)) (b + slenZ (concat_str cs)) line col.
Proof.
  intros line col. induction cs as [|c cs IH]; intros r ln cl b.
  - cbn [scan_cs length concat_str]. change (slenZ EmptyString) with 0.
    replace ((ln =? line) && (cl <=? col) && (col <? cl + Z.of_nat 0)) with false by lia.
    now rewrite !Z.add_0_r.
  - cbn [scan_cs length concat_str]. destruct ((ln =? line) && (cl =? col)) eqn:E.
    + replace ((ln =? line) && (cl <=? col) && (col <? cl + Z.of_nat (S (length cs)))) with true by lia.
      replace (Z.to_nat (col - cl)) with 0%nat by lia. cbn [firstn concat_str].
      change (slenZ EmptyString) with 0. now rewrite Z.add_0_r.
    + rewrite IH.
      destruct ((ln =? line) && (cl + 1 <=? col) && (col <? cl + 1 + Z.of_nat (length cs))) eqn:E2.
      * replace ((ln =? line) && (cl <=? col) && (col <? cl + Z.of_nat (S (length cs)))) with true by lia.
        replace (Z.to_nat (col - cl)) with (S (Z.to_nat (col - (cl + 1)))) by lia.
        cbn [firstn concat_str]. rewrite slenZ_app. f_equal. lia.
      * replace ((ln =? line) && (cl <=? col) && (col <? cl + Z.of_nat (S (length cs)))) with false by lia.
        rewrite slenZ_app. f_equal; lia.
Qed.

(* the same question asked of the list of lines *)
Fixpoint tb_lines (ls : list string) (ln b line col : Z) : option Z :=
  match ls with
  | [] => None
  | l :: r =>
      if ln =? line then
        if (1 <=? col) && (col - 1 <=? nchars l)
        then Some (b + slenZ (concat_str (firstn (Z.to_nat (col - 1)) (chars_of l))))
        else None
      else tb_lines r (ln + 1) (b + slenZ l + 1) line col
  end.

Lemma tb_lines_past : forall line col ls ln b, line < ln -> tb_lines ls ln b line col = None.
Proof.
  intros line col. induction ls as [|l r IH]; intros ln b H; [reflexivity|].
  cbn [tb_lines]. replace (ln =? line) with false by lia. apply IH. lia.
Qed.

Lemma scan_pos_past : forall line col s k ln cl b, line < ln -> scan_pos s k ln cl b line col = None.
Proof.
  intros line col. induction s as [|c r IH]; intros k ln cl b H.
  - cbn [scan_pos]. now replace (ln =? line) with false by lia.
  - cbn [scan_pos]. destruct k; [|now apply IH].
    replace (ln =? line) with false by lia. cbn [andb].
    destruct (is_nl c); apply IH; lia.
Qed.

(* one line, followed by [r] *)
Lemma scan_line : forall line col l r ln b,
  no_nl l = true -> complete l = true ->
  scan_pos (l +++ r) 0 ln 1 b line col =
  if (ln =? line) && (1 <=? col) && (col - 1 <? nchars l)
  then Some (b + slenZ (concat_str (firstn (Z.to_nat (col - 1)) (chars_of l))))
  else scan_pos r 0 ln (1 + nchars l) (b + slenZ l) line col.
Proof.
  intros line col l r ln b Hn Hc. unfold complete in Hc. apply Nat.eqb_eq in Hc.
  rewrite (scan_lockstep line col l 0 r ln 1 b Hn Hc), cps_aux_fst0.
  change (slenZ EmptyString) with 0. rewrite Z.add_0_r, scan_cs_closed.
  fold (chars_of l). fold (nchars l). rewrite chars_concat.
  replace ((ln =? line) && (1 <=? col) && (col <? 1 + nchars l))
    with ((ln =? line) && (1 <=? col) && (col - 1 <? nchars l)) by lia.
  reflexivity.
Qed.

Lemma firstn_all_len : forall l, slenZ (concat_str (firstn (Z.to_nat (nchars l)) (chars_of l))) = slenZ l.
Proof.
  intros l. unfold nchars. rewrite Nat2Z.id, firstn_all. now rewrite chars_concat.
Qed.

Lemma scan_lines : forall line col ls ln b,
  ls <> [] ->
  Forall (fun l => no_nl l = true) ls -> Forall (fun l => complete l = true) ls ->
  scan_pos (join_nl ls) 0 ln 1 b line col = tb_lines ls ln b line col.
Proof.
  intros line col. induction ls as [|l r IH]; intros ln b Hne Hn Hc; [congruence|].
  inversion Hn as [|? ? Hnl Hnr]; subst. inversion Hc as [|? ? Hcl Hcr]; subst.
  cbn [join_nl tb_lines]. destruct r as [|l2 r].
  - (* last line *)
    rewrite <- (app_nil_r_s l) at 1. rewrite (scan_line line col l EmptyString ln b Hnl Hcl).
    cbn [scan_pos tb_lines]. destruct (ln =? line) eqn:El; cbn [andb]; [|reflexivity].
    destruct ((1 <=? col) && (col - 1 <? nchars l)) eqn:E1.
    + replace ((1 <=? col) && (col - 1 <=? nchars l)) with true by lia. reflexivity.
    + destruct (1 + nchars l =? col) eqn:E2.
      * replace ((1 <=? col) && (col - 1 <=? nchars l)) with true by (pose proof (nchars_nonneg_aux l); lia).
        replace (col - 1) with (nchars l) by lia. now rewrite firstn_all_len.
      * replace ((1 <=? col) && (col - 1 <=? nchars l)) with false by lia. reflexivity.
  - rewrite (scan_line line col l _ ln b Hnl Hcl).
    cbn [scan_pos]. change (is_nl (ascii_of_N 10)) with true. cbv iota.
    rewrite (IH (ln + 1) (b + slenZ l + 1) ltac:(discriminate) Hnr Hcr).
    destruct (ln =? line) eqn:El; cbn [andb].
    + rewrite (tb_lines_past line col (l2 :: r) (ln + 1) _ ltac:(lia)).
      destruct ((1 <=? col) && (col - 1 <? nchars l)) eqn:E1.
      * replace ((1 <=? col) && (col - 1 <=? nchars l)) with true by lia. reflexivity.
      * destruct (1 + nchars l =? col) eqn:E2.
        -- replace ((1 <=? col) && (col - 1 <=? nchars l)) with true by (pose proof (nchars_nonneg_aux l); lia).
           replace (col - 1) with (nchars l) by lia. now rewrite firstn_all_len.
        -- replace ((1 <=? col) && (col - 1 <=? nchars l)) with false by lia. reflexivity.
    + reflexivity.
Qed.

Lemma tb_lines_spec : forall line col ls ln b,
  tb_lines ls ln b line col =
  if (ln <=? line) && (line - ln <? Z.of_nat (length ls)) && (1 <=? col) then
    match nth_error ls (Z.to_nat (line - ln)) with
    | Some l => if col - 1 <=? nchars l
                then Some (b + lines_len (firstn (Z.to_nat (line - ln)) ls)
                           + slenZ (concat_str (firstn (Z.to_nat (col - 1)) (chars_of l))))
                else None
    | None => None
    end
  else None.
Proof.
  intros line col. induction ls as [|l r IH]; intros ln b.
  - cbn [tb_lines length]. now replace ((ln <=? line) && (line - ln <? Z.of_nat 0) && (1 <=? col)) with false by lia.
  - cbn [tb_lines length]. destruct (ln =? line) eqn:E.
    + replace (line - ln) with 0 by lia. cbn [Z.to_nat nth_error firstn lines_len].
      replace ((ln <=? line) && (0 <? Z.of_nat (S (length r))) && (1 <=? col)) with (1 <=? col) by lia.
      destruct (1 <=? col); cbn [andb]; [|reflexivity].
      destruct (col - 1 <=? nchars l); [f_equal; lia | reflexivity].
    + rewrite IH.
      destruct ((ln + 1 <=? line) && (line - (ln + 1) <? Z.of_nat (length r)) && (1 <=? col)) eqn:E2.
      * replace ((ln <=? line) && (line - ln <? Z.of_nat (S (length r))) && (1 <=? col)) with true by lia.
        replace (Z.to_nat (line - ln)) with (S (Z.to_nat (line - (ln + 1)))) by lia.
        cbn [nth_error firstn lines_len].
        destruct (nth_error r (Z.to_nat (line - (ln + 1)))); [|reflexivity].
        destruct (col - 1 <=? nchars s); [f_equal; lia | reflexivity].
      * replace ((ln <=? line) && (line - ln <? Z.of_nat (S (length r))) && (1 <=? col)) with false by lia.
        reflexivity.
Qed.

Theorem scan_pos_true_byte : forall text line col,
  Forall (fun l => complete l = true) (lines_of text) ->
  scan_pos text 0 1 1 0 line col = true_byte text line col.
Proof.
  intros text line col Hc.
  rewrite <- (lines_join text) at 1.
  rewrite (scan_lines line col (lines_of text) 1 0 (lines_nonempty text) (lines_no_nl text) Hc).
  rewrite tb_lines_spec. unfold true_byte.
  replace ((1 <=? line) && (line - 1 <? Z.of_nat (length (lines_of text))) && (1 <=? col))
    with ((1 <=? line) && (line <=? Z.of_nat (length (lines_of text))) && (1 <=? col)) by lia.
  destruct ((1 <=? line) && (line <=? Z.of_nat (length (lines_of text))) && (1 <=? col)); [|reflexivity].
  destruct (nth_error (lines_of text) (Z.to_nat (line - 1))) as [l|]; [|reflexivity].
  unfold nchars. destruct (col - 1 <=? Z.of_nat (length (chars_of l))); [f_equal; lia | reflexivity].
Qed.

(* ---------------- the table-based oracle is the specification ---------------- *)
Lemma nth_offs_from : forall ls off k,
  nth_error (offs_from off ls) k
  = match nth_error ls k with Some l => Some (off + lines_len (firstn k ls), l) | None => None end.
Proof.
  induction ls as [|x ls IH]; intros off k; [now destruct k|].
  destruct k as [|k]; cbn [offs_from nth_error firstn lines_len].
  - now rewrite Z.add_0_r.
  - rewrite IH. destruct (nth_error ls k); [|reflexivity]. do 2 f_equal. lia.
Qed.

Lemma offs_from_length : forall ls off, length (offs_from off ls) = length ls.
Proof. induction ls as [|x ls IH]; intros off; cbn [offs_from length]; [reflexivity | now rewrite IH]. Qed.

Lemma tab_line_text : forall text line,
  tab_line (text_table text) line
  = match line_at text line with
    | Some l => Some (lines_len (firstn (Z.to_nat (line - 1)) (lines_of text)), l)
    | None => None
    end.
Proof.
  intros text line. unfold tab_line, line_at, text_table. destruct (1 <=? line); [|reflexivity].
  rewrite nth_offs_from. destruct (nth_error (lines_of text) (Z.to_nat (line - 1))); reflexivity.
Qed.

Theorem true_byte_tab_ok : forall text line col, true_byte_tab (text_table text) line col = true_byte text line col.
Proof.
  intros text line col. unfold true_byte_tab, true_byte. rewrite tab_line_text. unfold line_at.
  destruct (1 <=? line) eqn:E1; cbn [andb].
  - destruct (nth_error (lines_of text) (Z.to_nat (line - 1))) as [l|] eqn:En.
    + assert (Hlt : (Z.to_nat (line - 1) < length (lines_of text))%nat) by (apply nth_error_Some; congruence).
      replace (line <=? Z.of_nat (length (lines_of text))) with true by lia. cbn [andb].
      destruct (1 <=? col); cbn [andb]; reflexivity.
    + apply nth_error_None in En.
      replace (line <=? Z.of_nat (length (lines_of text))) with false by lia. reflexivity.
  - reflexivity.
Qed.

Theorem irregular_before_tab_ok : forall p u text line col,
  irregular_before_tab p u (text_table text) line col = irregular_before p u text line col.
Proof.
  intros. unfold irregular_before_tab, irregular_before. rewrite tab_line_text.
  destruct (line_at text line); reflexivity.
Qed.

Theorem located_tab_ok : forall text line col value,
  located_tab text (text_table text) line col value = located text line col value.
Proof.
  intros. unfold located_tab, located. rewrite true_byte_tab_ok, tab_line_text.
  destruct (true_byte text line col); [|reflexivity]. destruct (line_at text line); reflexivity.
Qed.

Lemma fast_oracle_ok : forall text line col,
  true_byte_tab (text_table text) line col = true_byte text line col
  /\ (forall p u, irregular_before_tab p u (text_table text) line col = irregular_before p u text line col)
  /\ (forall value, located_tab text (text_table text) line col value = located text line col value).
Proof.
  intros. split; [apply true_byte_tab_ok|]. split; intros; [apply irregular_before_tab_ok | apply located_tab_ok].
Qed.

Lemma byte_classes_ok : forall c, rune_size c = rune_size_N c /\ is_nl c = is_nl_N c.
Proof. intros c. split; [apply rune_size_spec | apply is_nl_spec]. Qed.
