(* Proofs/RedactorBase.v — list and matching lemmas used by the proofs about the `esc run` output filter. *)
From Verif Require Import Base.Bytes Model.Redactor.
From Coq Require Import Arith Lia.
Local Open Scope nat_scope.

Lemma is_prefix_spec : forall p s, is_prefix p s = true <-> exists r, s = p ++ r.
Proof.
  induction p as [|a p IH]; intros s; simpl.
  - split; [intros _; exists s; reflexivity | reflexivity].
  - destruct s as [|b s].
    + split; [discriminate | intros [r Hr]; discriminate].
    + rewrite andb_true_iff, Ascii.eqb_eq, IH. split.
      * intros [-> [r ->]]. exists r. reflexivity.
      * intros [r Hr]. injection Hr as -> ->. split; [reflexivity | exists r; reflexivity].
Qed.

Lemma is_prefix_app : forall p r, is_prefix p (p ++ r) = true.
Proof. intros p r. apply is_prefix_spec. exists r. reflexivity. Qed.

Lemma contains_spec : forall p s, contains p s = true <-> occurs p s.
Proof.
  intros p s. induction s as [|c s IH].
  - simpl. rewrite orb_false_r, is_prefix_spec. split.
    + intros [r Hr]. exists [], r. exact Hr.
    + intros [a [b H]]. destruct a; [exists b; exact H | discriminate].
  - cbn [contains]. rewrite orb_true_iff, IH, is_prefix_spec. split.
    + intros [[r Hr] | [a [b H]]].
      * exists [], r. exact Hr.
      * exists (c :: a), b. rewrite H. reflexivity.
    + intros [a [b H]]. destruct a as [|x a].
      * left. exists b. exact H.
      * right. injection H as _ H. exists a, b. exact H.
Qed.

Lemma occurs_nil : forall s, occurs [] s.
Proof. intros s. exists [], s. reflexivity. Qed.

Lemma mem_byte_spec : forall c s, mem_byte c s = true <-> In c s.
Proof.
  intros c s. unfold mem_byte. rewrite existsb_exists. split.
  - intros [x [Hin Heq]]. apply Ascii.eqb_eq in Heq. subst. exact Hin.
  - intros H. exists c. split; [exact H | apply Ascii.eqb_refl].
Qed.

Lemma bytes_eqb_spec : forall a b, bytes_eqb a b = true <-> a = b.
Proof.
  induction a as [|x a IH]; destruct b as [|y b]; simpl; try (split; [discriminate | discriminate]).
  - split; reflexivity.
  - rewrite andb_true_iff, Ascii.eqb_eq, IH. split; [intros [-> ->]; reflexivity | intros H; injection H; auto].
Qed.

(* ---- firstn / skipn / repeat ---------------------------------------------------------------- *)
Lemma skipn_app_exact : forall {A} (a b : list A), skipn (length a) (a ++ b) = b.
Proof. intros A a b. induction a; simpl; auto. Qed.

Lemma skipn_app_ge : forall {A} (a b : list A) k, skipn (length a + k) (a ++ b) = skipn k b.
Proof. intros A a b k. induction a; simpl; auto. Qed.

Lemma firstn_app_exact : forall {A} (a b : list A), firstn (length a) (a ++ b) = a.
Proof. intros A a b. induction a; simpl; congruence. Qed.

(* a window that lies inside the first part of an append *)
Lemma window_app_l : forall {A} (x y : list A) k n, k + n <= length x ->
  firstn n (skipn k (x ++ y)) = firstn n (skipn k x).
Proof.
  intros A x y k n H. rewrite skipn_app, firstn_app.
  rewrite skipn_length.
  replace (n - (length x - k)) with 0 by lia. simpl. rewrite app_nil_r. reflexivity.
Qed.

Lemma window_app_r : forall {A} (x y : list A) k n,
  firstn n (skipn (length x + k) (x ++ y)) = firstn n (skipn k y).
Proof. intros. rewrite skipn_app_ge. reflexivity. Qed.

Lemma repeat_eq_false_true : forall n, 0 < n -> repeat true n <> repeat false n.
Proof. intros n H. destruct n; [lia | simpl; discriminate]. Qed.

Lemma last_in_suffix : forall (u l : bytes) d, l <> [] -> In (last (u ++ l) d) l.
Proof.
  intros u l d Hl. destruct (exists_last Hl) as [l' [x ->]].
  rewrite app_assoc, last_last. apply in_or_app. right. left. reflexivity.
Qed.

Lemma last_cons_default : forall (l : bytes) d d', l <> [] -> last l d = last l d'.
Proof.
  induction l as [|x l IH]; intros d d' H; [congruence|].
  destruct l as [|y l]; [reflexivity|]. cbn [last]. apply IH. discriminate.
Qed.

(* ---- overlap / ph_clash ---------------------------------------------------------------------- *)
Lemma overlap_spec : forall a b, overlap a b = true <-> exists x y z, y <> [] /\ a = x ++ y /\ b = y ++ z.
Proof.
  induction a as [|c a IH]; intros b.
  - simpl. split; [discriminate|]. intros [x [y [z [Hy [Ha _]]]]]. symmetry in Ha. apply app_eq_nil in Ha.
    destruct Ha as [_ Ha]. contradiction.
  - cbn [overlap]. rewrite orb_true_iff, is_prefix_spec, IH. split.
    + intros [[r Hr] | [x [y [z [Hy [Ha Hb]]]]]].
      * exists [], (c :: a), r. repeat split; [discriminate | exact Hr].
      * exists (c :: x), y, z. repeat split; [exact Hy | rewrite Ha; reflexivity | exact Hb].
    + intros [x [y [z [Hy [Ha Hb]]]]]. destruct x as [|x0 x].
      * left. exists z. simpl in Ha. rewrite Ha. exact Hb.
      * right. injection Ha as _ Ha. exists x, y, z. repeat split; assumption.
Qed.

Lemma no_clash_spec : forall ph p, ph_clash ph p = false ->
  ~ occurs p ph /\ ~ occurs ph p
  /\ (forall x y z, y <> [] -> p = x ++ y -> ph = y ++ z -> False)
  /\ (forall x y z, y <> [] -> ph = x ++ y -> p = y ++ z -> False).
Proof.
  intros ph p H. unfold ph_clash in H.
  apply orb_false_iff in H. destruct H as [H H4]. apply orb_false_iff in H. destruct H as [H H3].
  apply orb_false_iff in H. destruct H as [H1 H2].
  repeat split.
  - intros Ho. apply contains_spec in Ho. congruence.
  - intros Ho. apply contains_spec in Ho. congruence.
  - intros x y z Hy Hp Hph. assert (overlap p ph = true) by (apply overlap_spec; exists x, y, z; auto). congruence.
  - intros x y z Hy Hph Hp. assert (overlap ph p = true) by (apply overlap_spec; exists x, y, z; auto). congruence.
Qed.

Lemma no_clash_nonempty : forall ph p, ph_clash ph p = false -> p <> [] /\ ph <> [].
Proof.
  intros ph p H. destruct (no_clash_spec ph p H) as [H1 [H2 _]]. split; intros ->.
  - apply H1. apply occurs_nil.
  - apply H2. apply occurs_nil.
Qed.
