(* Proofs/SchemaSoundRefute.v — C06, schema clause: the clause as stated is false of the model (and of the Go
   implementation: the four first witnesses were reproduced with CheckEnvironment / EvalEnvironment).
   Every witness: providers conform, no diagnostics in either mode, no fuel exhaustion, and the schema check reports
   rejects the opened value WITH EVERY FUEL (except the last one, which is an artefact of the fuel in the statement). *)
From Verif Require Import Base.Bytes Base.Wire Model.Chain Model.GoText Model.Envelope Model.Eval Corr.EvalWire.
From Verif Require Corr.C06.
From Verif Require Import Proofs.CheckApproxMono Proofs.CheckApproxRel Proofs.CheckApproxKit Proofs.CheckApproxEval
     Proofs.CheckApproxMain Proofs.CheckApproxExamples
     Proofs.SchemaSoundAccept Proofs.SchemaSoundRel Proofs.SchemaSoundEval Proofs.SchemaSoundMain.

Definition mkW (envs : list (string * env_load)) (provs : list (string * provider)) : world :=
  {| w_envs := envs; w_provs := provs; w_ctx := []; w_check := false; w_show := false; w_fault := None;
     w_decrypt := fun _ c => Some c |}.

(* what a witness shows: both runs finish without diagnostics; check reports schema [s]; open yields [o]; [s] rejects [o] *)
Definition witness (W : world) (d : envdef) (s : sch) (o : xval) : Prop :=
  let oc := run 40 (C06.with_mode W true false) "main" d in
  let oo := run 40 W "main" d in
  ob_oof oc = false /\ ob_errors oc = false /\ ob_oof oo = false /\ ob_errors oo = false /\
  check_schema (C06.with_mode W true false) 40 "main" d = s /\ ob_value oo = Some o.

Definition rejects (s : sch) (o : xval) : Prop := forall n, sch_accepts n s o = false.

Ltac conform_tac := intros pn p H; repeat (destruct H as [H|H]; [injection H as <- <-; vm_compute; reflexivity|]); destruct H.

(* ---- C: a provider that declares {type: object} (an open record) and returns {k: 1}; `x: ${cfg.k}`.
   Schema.Property answers `false` for an undeclared key of a record without additionalProperties. ---- *)
Definition W_C := mkW [] [("p", {| pv_in := InAlways; pv_out := ScObject [] None;
                                   pv_beh := PConst (XObj false false [("k", XScalar false false (SNum "1"))]) |})].
Definition d_C := {| ed_imports := []; ed_values := [("cfg", EOpen "p" (EObj [])); ("x", ESym [AName "cfg"; AName "k"])] |}.
Definition S_C := ScObject [("cfg", ScObject [] None); ("x", ScNever)] None.
Definition o_C := XObj false false [("cfg", XObj false false [("k", XScalar false false (SNum "1"))]);
                                     ("x", XScalar false false (SNum "1"))].

Example witness_C : witness W_C d_C S_C o_C /\ providers_conform W_C.
Proof. split; [vm_compute; repeat split|conform_tac]. Qed.

Lemma rejects_C : rejects S_C o_C.
Proof. intros [|[|n]]; reflexivity. Qed.

Theorem schema_sound_refuted : ~ schema_sound_statement.
Proof.
  intros H. specialize (H W_C false 40%nat "main" d_C eq_refl eq_refl (proj2 witness_C)).
  assert (A1 : ob_oof (run 40 (C06.with_mode W_C true false) "main" d_C) = false) by (vm_compute; reflexivity).
  assert (A2 : ob_oof (run 40 W_C "main" d_C) = false) by (vm_compute; reflexivity).
  destruct (H A1 A2) as (o & Vo & HA).
  vm_compute in Vo. injection Vo as <-. vm_compute in HA. discriminate.
Qed.

(* the witness is inside the class of the partial theorem except for the provider schema: [sch_ok] is needed *)
Example witness_C_class :
  world_nm W_C /\ env_nm d_C = true /\ ctx_known W_C = true /\ sch_ok (ScObject [] None) = false.
Proof. repeat split; intros n d []. Qed.

(* ---- A: additionalProperties: string, merged over a known object with the same key.
   mergedSchema keeps the BASE's property schema for a key that only additionalProperties of the top covers. ---- *)
Definition W_A := mkW [("a", LoadOk {| ed_imports := []; ed_values := [("cfg", EObj [("k", EObj [("x", ENum "1")])])] |})]
                      [("p", {| pv_in := InAlways; pv_out := ScObject [] (Some (ScType "string"));
                                   pv_beh := PConst (XObj false false [("k", XScalar false false (SStr "s"))]) |})].
Definition d_A := {| ed_imports := [("a", true)]; ed_values := [("cfg", EOpen "p" (EObj []))] |}.
Definition S_A := ScObject [("cfg", ScObject [("k", ScObject [("x", ScType "number")] None)] (Some (ScType "string")))] None.
Definition o_A := XObj false false [("cfg", XObj false false [("k", XScalar false false (SStr "s"))])].

Example witness_A : witness W_A d_A S_A o_A /\ providers_conform W_A.
Proof. split; [vm_compute; repeat split|conform_tac]. Qed.
Lemma rejects_A : rejects S_A o_A.
Proof. intros [|[|[|[|n]]]]; reflexivity. Qed.

(* ---- E: a closed record merged over the output of a provider whose schema is `true` (Always).
   mergedSchema ignores a base that is not of type object, although the base VALUE may be an object. ---- *)
Definition W_E := mkW [("a", LoadOk {| ed_imports := []; ed_values := [("cfg", EOpen "e" (EObj [("z", ENum "1")]))] |})]
                      [("e", {| pv_in := InAlways; pv_out := ScAlways; pv_beh := PEcho |});
                       ("q", {| pv_in := InAlways; pv_out := ScObject [("y", ScType "string")] (Some ScNever);
                                   pv_beh := PConst (XObj false false [("y", XScalar false false (SStr "s"))]) |})].
Definition d_E := {| ed_imports := [("a", true)]; ed_values := [("cfg", EOpen "q" (EObj []))] |}.
Definition S_E := ScObject [("cfg", ScObject [("y", ScType "string")] (Some ScNever))] None.
Definition o_E := XObj false false [("cfg", XObj false false [("y", XScalar false false (SStr "s")); ("z", XScalar false false (SNum "1"))])].

Example witness_E : witness W_E d_E S_E o_E /\ providers_conform W_E.
Proof. split; [vm_compute; repeat split|conform_tac]. Qed.
Lemma rejects_E : rejects S_E o_E.
Proof. intros [|[|[|[|n]]]]; reflexivity. Qed.

(* the same without a provider of schema Always: the base is fn::fromJSON of a ciphertext (unknown while checking).
   The provider schema IS in the class of the partial theorem: the exclusion of merged imports is needed. *)
Definition ct_json : string := encode_ct {| ep_magic := "escx"; ep_version := 1; ep_min_len := 12 |} "{""z"":1}".
Definition W_E2 := mkW [("a", LoadOk {| ed_imports := []; ed_values := [("cfg", EFromJSON (ESecretCipher ct_json))] |})]
                       [("q", {| pv_in := InAlways; pv_out := ScObject [("y", ScType "string")] (Some ScNever);
                                   pv_beh := PConst (XObj false false [("y", XScalar false false (SStr "s"))]) |})].
Definition o_E2 := XObj false false [("cfg", XObj false false [("y", XScalar false false (SStr "s")); ("z", XScalar true false (SNum "1"))])].

Example witness_E2 : witness W_E2 d_E S_E o_E2 /\ providers_conform W_E2.
Proof. split; [vm_compute; repeat split|conform_tac]. Qed.
Lemma rejects_E2 : rejects S_E o_E2.
Proof. intros [|[|[|[|n]]]]; reflexivity. Qed.

Example witness_E2_class :
  world_nm W_E2 /\ ctx_known W_E2 = true /\ provs_good true W_E2 /\ env_nm d_E = false.
Proof.
  repeat split.
  - intros n d [E|[]]. injection E as _ <-. reflexivity.
  - intros pn p [E|[]]. injection E as _ <-. reflexivity.
Qed.

(* ---- B': a declared property the provider does not return (the model's schemas have no `required`; in Go:
   Object().Properties(...) without Required), under a merge: the declared property schema is merged over the base's
   although the provider contributes nothing there. ---- *)
Definition W_B := mkW [("a", LoadOk {| ed_imports := []; ed_values := [("cfg", EObj [("k", EObj [("z", EObj [("x", ENum "1")])])])] |});
                       ("b", LoadOk {| ed_imports := [("a", true)]; ed_values := [("cfg", EOpen "p" (EObj []))] |})]
                      [("p", {| pv_in := InAlways;
                                pv_out := ScObject [("k", ScObject [("z", ScType "string")] (Some ScNever))] (Some ScNever);
                                pv_beh := PConst (XObj false false []) |})].
Definition d_B := {| ed_imports := [("b", true)]; ed_values := [("cfg", EObj [("k", EObj [("w", ENum "1")])])] |}.
Definition S_B := ScObject [("cfg", ScObject [("k", ScObject [("w", ScType "number"); ("z", ScType "string")] (Some ScAlways))]
                                            (Some ScAlways))] None.
Definition o_B := XObj false false [("cfg", XObj false false [("k", XObj false false
                     [("w", XScalar false false (SNum "1")); ("z", XObj false false [("x", XScalar false false (SNum "1"))])])])].

Example witness_B : witness W_B d_B S_B o_B /\ providers_conform W_B.
Proof. split; [vm_compute; repeat split|conform_tac]. Qed.
Lemma rejects_B : rejects S_B o_B.
Proof. intros [|[|[|[|[|n]]]]]; reflexivity. Qed.

(* ---- G: merges break the clause even for a provider whose schema is `true`, and (G2) WITHOUT ANY PROVIDER.
   `other` = {a: 1} over an import's unknown (echo provider output / fn::fromJSON of a ciphertext, value {z: "str"});
   `cfg.k: ${other}` over the import's known cfg.k = {z: {q: 1}}.  The schema of cfg.k is re-merged with the base's
   schema straight through the unknown layer ({a, z: {q: number}}), the value is merged layer by layer
   ({a: 1, z: "str"}): the unknown layer cuts the schema of `other` but its VALUE is an object and does not cut. ---- *)
Definition W_G := mkW [("i", LoadOk {| ed_imports := [];
                          ed_values := [("other", EOpen "e" (EObj [("z", EStr "str")]));
                                        ("cfg", EObj [("k", EObj [("z", EObj [("q", ENum "1")])])])] |})]
                      [("e", {| pv_in := InAlways; pv_out := ScAlways; pv_beh := PEcho |})].
Definition d_G := {| ed_imports := [("i", true)];
                     ed_values := [("other", EObj [("a", ENum "1")]); ("cfg", EObj [("k", ESym [AName "other"])])] |}.
Definition S_G := ScObject [("cfg", ScObject [("k", ScObject [("a", ScType "number"); ("z", ScObject [("q", ScType "number")] None)] None)] None);
                            ("other", ScObject [("a", ScType "number")] None)] None.
Definition o_G (sec : bool) := XObj false false
  [("cfg", XObj false false [("k", XObj false false [("a", XScalar false false (SNum "1")); ("z", XScalar sec false (SStr "str"))])]);
   ("other", XObj false false [("a", XScalar false false (SNum "1")); ("z", XScalar sec false (SStr "str"))])].

Example witness_G : witness W_G d_G S_G (o_G false) /\ providers_conform W_G.
Proof. split; [vm_compute; repeat split|conform_tac]. Qed.
Lemma rejects_G sec : rejects S_G (o_G sec).
Proof. intros [|[|[|[|[|n]]]]]; reflexivity. Qed.

Definition ct_z : string := encode_ct {| ep_magic := "escx"; ep_version := 1; ep_min_len := 12 |} "{""z"":""str""}".
Definition W_G2 := mkW [("i", LoadOk {| ed_imports := [];
                          ed_values := [("other", EFromJSON (ESecretCipher ct_z));
                                        ("cfg", EObj [("k", EObj [("z", EObj [("q", ENum "1")])])])] |})] [].

Example witness_G2 : witness W_G2 d_G S_G (o_G true) /\ providers_conform W_G2 /\ w_provs W_G2 = [].
Proof. split; [vm_compute; repeat split|split; [conform_tac|reflexivity]]. Qed.

(* the clause is false even restricted to worlds without providers (merged import + ciphertext holding JSON) *)
Theorem schema_sound_refuted_no_providers :
  ~ (forall W show fuel name d,
       w_check W = false -> w_fault W = None -> w_provs W = [] ->
       ob_oof (run fuel (C06.with_mode W true show) name d) = false -> ob_oof (run fuel W name d) = false ->
       exists o, ob_value (run fuel W name d) = Some o /\
                 exists n, sch_accepts n (top_sch (fst (eval_env (C06.with_mode W true show) fuel "" name d st0))) o = true).
Proof.
  intros H. specialize (H W_G2 false 40%nat "main" d_G eq_refl eq_refl eq_refl).
  assert (A1 : ob_oof (run 40 (C06.with_mode W_G2 true false) "main" d_G) = false) by (vm_compute; reflexivity).
  assert (A2 : ob_oof (run 40 W_G2 "main" d_G) = false) by (vm_compute; reflexivity).
  destruct (H A1 A2) as (o & Vo & n & HA).
  destruct witness_G2 as [(_ & _ & _ & _ & ES & EV) _]. clear A1 A2 H.
  assert (Eo : o = o_G true) by congruence. subst o. clear Vo EV.
  unfold check_schema in ES. rewrite ES in HA. rewrite rejects_G in HA. clear -HA. discriminate HA.
Qed.

(* ---- F: an artefact of the STATEMENT, not of the evaluator: the fuel S (S (x_depth o)) does not pay for nested
   oneOf.  The provider value conforms with its own fuel (it is deep, under a duplicate key that unexport drops);
   the normalised value is shallow: rejected with the fuel of the statement, accepted with more. ---- *)
Definition W_F := mkW [] [("p", {| pv_in := InAlways; pv_out := ScObject [("a", ScOneOf [ScOneOf [ScOneOf [ScAlways]]])] (Some ScNever);
       pv_beh := PConst (XObj false false [("a", XArr false false [XArr false false [XArr false false [XArr false false []]]]);
                                           ("a", XScalar false false (SStr "s"))]) |})].
Definition d_F := {| ed_imports := []; ed_values := [("x", EOpen "p" (EObj []))] |}.
Definition S_F := ScObject [("x", ScObject [("a", ScOneOf [ScOneOf [ScOneOf [ScAlways]]])] (Some ScNever))] None.
Definition o_F := XObj false false [("x", XObj false false [("a", XScalar false false (SStr "s"))])].

Example witness_F : witness W_F d_F S_F o_F /\ providers_conform W_F /\
  sch_accepts (S (S (x_depth o_F))) S_F o_F = false /\ sch_accepts 6 S_F o_F = true.
Proof. split; [vm_compute; repeat split|split; [conform_tac|split; reflexivity]]. Qed.

(* ---- fn::toJSON: the witness that refutes the approximation clause does NOT refute the schema clause ---- *)
Example tojson_schema_holds :
  providers_conform W_tj /\
  exists o, ob_value (run 40 W_tj "main" d_tj) = Some o /\
            sch_accepts (S (S (x_depth o))) (check_schema (C06.with_mode W_tj true false) 40 "main" d_tj) o = true.
Proof. split; [conform_tac|]. eexists. split; vm_compute; reflexivity. Qed.
