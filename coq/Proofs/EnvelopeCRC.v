(* Proofs/EnvelopeCRC.v — error-detection theorems for the CRC-32 trailer of the ciphertext envelope.
   A. GF(2)-linearity of the CRC register.           B. acceptance of a corrupted envelope, characterised.
   C. injectivity of the register step.              D. bursts of at most 32 bits are detected.
   E. 1, 2 and 3 flipped bits are detected (<= 91639 bits).   F. corollaries on [decode_ct].
   G. a 32-bit burst across the body / big-endian-trailer boundary that is ACCEPTED.
   Key fact (accept_iff_codeword): a corrupted envelope passes the checksum test iff the error pattern,
   with its four trailer bytes REVERSED, is mapped to 0 by the raw register (crc_update 0). *)
From Verif Require Import Base.Bytes Model.Envelope Proofs.EnvelopeBase64 Proofs.EnvelopeProofs.
From Coq Require Import Lia ZifyN ZifyNat ZifyBool FMapPositive.

(* ------------------------------------------------------------------------------------------- *)
(** * xor plumbing *)

(* equalities between xor-combinations of few atoms *)
Ltac xor_ring :=
  apply N.bits_inj; intros ?i; rewrite ?N.lxor_spec, ?N.bits_0;
  repeat match goal with |- context [N.testbit ?x ?i] => destruct (N.testbit x i) end; reflexivity.

Definition xors (l : list N) : N := fold_right N.lxor 0 l.

Lemma xors_app (a b : list N) : xors (a ++ b) = N.lxor (xors a) (xors b).
Proof.
  induction a as [|x r IH]; cbn [app xors fold_right]; [reflexivity|].
  fold (xors (r ++ b)). fold (xors r). rewrite IH. xor_ring.
Qed.

Lemma xors_lt (l : list N) : Forall (fun x => x < two32) l -> xors l < two32.
Proof.
  induction 1 as [|x r Hx _ IH]; cbn [xors fold_right]; [reflexivity|].
  apply lxor_lt_two32; assumption.
Qed.

Lemma lxor_eq0 (a b : N) : N.lxor a b = 0 <-> a = b.
Proof. apply N.lxor_eq_0_iff. Qed.

Lemma bits_above (n a i : N) : a < 2 ^ n -> n <= i -> N.testbit a i = false.
Proof.
  intros Ha Hi. destruct (N.eq_dec a 0) as [->|Hz]; [apply N.bits_0|].
  apply N.bits_above_log2. apply N.log2_lt_pow2 in Ha; lia.
Qed.

(* distinct powers of two never cancel *)
Lemma xors_pow2_bits (qs : list N) : NoDup qs ->
  forall i, N.testbit (xors (map (N.pow 2) qs)) i = existsb (N.eqb i) qs.
Proof.
  induction 1 as [|q r Hq _ IH]; intros i; cbn [map xors fold_right existsb].
  - apply N.bits_0.
  - fold (xors (map (N.pow 2) r)). rewrite N.lxor_spec, IH, N.pow2_bits_eqb.
    destruct (N.eqb_spec i q) as [->|Hne].
    + rewrite N.eqb_refl. cbn [orb xorb].
      destruct (existsb (N.eqb q) r) eqn:E; [|reflexivity].
      apply existsb_exists in E. destruct E as (y & Hy & Hqy). apply N.eqb_eq in Hqy. subst y. contradiction.
    + destruct (N.eqb_spec q i) as [Heq|_]; [congruence|].
      destruct (N.eqb_spec i q) as [Heq|_]; [congruence|]. now destruct (existsb (N.eqb i) r).
Qed.

(* ------------------------------------------------------------------------------------------- *)
(** * A. linearity of the register step *)

Theorem fstep_lxor (a b : N) : fstep (N.lxor a b) = N.lxor (fstep a) (fstep b).
Proof.
  unfold fstep. rewrite N.lxor_spec, N.shiftr_lxor.
  generalize (N.shiftr a 1) (N.shiftr b 1). intros a' b'.
  destruct (N.testbit a 0), (N.testbit b 0); cbn [xorb]; xor_ring.
Qed.

Lemma fstep_0 : fstep 0 = 0.
Proof. reflexivity. Qed.

(* [Fk k] is the [k]-fold register step; [V k] is the image of the one-bit register *)
Definition Fk (k : N) (s : N) : N := N.iter k fstep s.
Definition V (k : N) : N := Fk k 1.

Lemma Fk_0 (s : N) : Fk 0 s = s.
Proof. reflexivity. Qed.

Lemma Fk_succ (k s : N) : Fk (N.succ k) s = fstep (Fk k s).
Proof. apply N.iter_succ. Qed.

Lemma Fk_succ_r (k s : N) : Fk (N.succ k) s = Fk k (fstep s).
Proof. apply N.iter_succ_r. Qed.

Lemma Fk_add (a b s : N) : Fk (a + b) s = Fk a (Fk b s).
Proof. apply N.iter_add. Qed.

Lemma Fk_lxor (k a b : N) : Fk k (N.lxor a b) = N.lxor (Fk k a) (Fk k b).
Proof.
  induction k as [|k IH] using N.peano_ind; [reflexivity|].
  rewrite !Fk_succ, IH. apply fstep_lxor.
Qed.

Lemma Fk_zero (k : N) : Fk k 0 = 0.
Proof.
  induction k as [|k IH] using N.peano_ind; [reflexivity|]. now rewrite Fk_succ, IH.
Qed.

Lemma Fk_lt (k s : N) : s < two32 -> Fk k s < two32.
Proof.
  intros Hs. induction k as [|k IH] using N.peano_ind; [exact Hs|].
  rewrite Fk_succ. now apply fstep_lt.
Qed.

Lemma V_lt (k : N) : V k < two32.
Proof. apply Fk_lt. reflexivity. Qed.

Lemma Fk_xors (k : N) (l : list N) : Fk k (xors l) = xors (map (Fk k) l).
Proof.
  induction l as [|x r IH]; cbn [map xors fold_right]; [apply Fk_zero|].
  fold (xors r). fold (xors (map (Fk k) r)). now rewrite Fk_lxor, IH.
Qed.

Lemma fstep8_Fk (s : N) : fstep8 s = Fk 8 s.
Proof. reflexivity. Qed.

Lemma crc_byte_Fk (s b : N) : crc_byte s b = Fk 8 (N.lxor s b).
Proof. reflexivity. Qed.

(* byte-wise xor of two byte lists (truncating to the shorter one) *)
Fixpoint zipxor (a b : list N) : list N :=
  match a, b with
  | x :: a', y :: b' => N.lxor x y :: zipxor a' b'
  | _, _ => []
  end.

Lemma crc_update_cons (s b : N) (r : list N) : crc_update s (b :: r) = crc_update (crc_byte s b) r.
Proof. reflexivity. Qed.

Lemma crc_update_app (s : N) (a b : list N) : crc_update s (a ++ b) = crc_update (crc_update s a) b.
Proof. unfold crc_update. apply fold_left_app. Qed.

Theorem crc_update_lxor (m m' : list N) : length m = length m' -> forall s s',
  crc_update (N.lxor s s') (zipxor m m') = N.lxor (crc_update s m) (crc_update s' m').
Proof.
  revert m'. induction m as [|x r IH]; intros [|y r'] Hl s s'; try discriminate Hl; [reflexivity|].
  cbn [zipxor]. rewrite !crc_update_cons.
  injection Hl as Hl. rewrite <- (IH r' Hl). f_equal.
  rewrite !crc_byte_Fk, <- Fk_lxor. f_equal. xor_ring.
Qed.

(* the register after [r] started from [s] = the one started from 0, plus [s] pushed through 8|r| steps *)
Lemma crc_update_shift (r : list N) : forall s,
  crc_update s r = N.lxor (crc_update 0 r) (Fk (8 * N.of_nat (length r)) s).
Proof.
  induction r as [|x r IH]; intros s.
  - cbn [crc_update fold_left length]. change (8 * N.of_nat 0) with 0. rewrite Fk_0. xor_ring.
  - rewrite !crc_update_cons. rewrite (IH (crc_byte s x)), (IH (crc_byte 0 x)).
    rewrite !crc_byte_Fk.
    replace (8 * N.of_nat (length (x :: r))) with (8 * N.of_nat (length r) + 8) by (cbn [length]; lia).
    rewrite Fk_add. rewrite (Fk_lxor 8 s x), N.lxor_0_l. rewrite !Fk_lxor. xor_ring.
Qed.

(* byte-wise xor on strings, as in Corr/C11.v *)
Fixpoint sxor (a b : string) : string :=
  match a, b with
  | String x a', String y b' => String (ascii_of_N (N.lxor (N_of_ascii x) (N_of_ascii y))) (sxor a' b')
  | _, _ => a
  end.

Lemma lxor_lt_256 (a b : N) : a < 256 -> b < 256 -> N.lxor a b < 256.
Proof.
  intros Ha Hb. change 256 with (2 ^ 8) in *.
  destruct (N.eq_dec (N.lxor a b) 0) as [->|Hz]; [reflexivity|].
  apply N.log2_lt_pow2; [lia|].
  destruct (N.lt_ge_cases (N.log2 (N.lxor a b)) 8) as [L|L]; [exact L|].
  pose proof (N.bit_log2 _ Hz) as Hbit. rewrite N.lxor_spec in Hbit.
  rewrite (bits_above 8 a), (bits_above 8 b) in Hbit by assumption. discriminate.
Qed.

Lemma length_sxor (a b : string) : String.length (sxor a b) = String.length a.
Proof.
  revert b. induction a as [|x r IH]; intros [|y r']; cbn [sxor String.length]; try reflexivity.
  now rewrite IH.
Qed.

Lemma bytes_of_sxor (a b : string) : String.length a = String.length b ->
  bytes_of (sxor a b) = zipxor (bytes_of a) (bytes_of b).
Proof.
  revert b. induction a as [|x r IH]; intros [|y r'] Hl; try discriminate Hl; [reflexivity|].
  cbn [sxor bytes_of zipxor]. injection Hl as Hl. rewrite (IH r' Hl).
  rewrite N_of_ascii_of_N by (apply lxor_lt_256; apply N_of_ascii_lt). reflexivity.
Qed.

Lemma sxor_app (a b a' b' : string) : String.length a = String.length a' ->
  sxor (a +++ b) (a' +++ b') = sxor a a' +++ sxor b b'.
Proof.
  revert a'. induction a as [|x r IH]; intros [|y r'] Hl; try discriminate Hl; [reflexivity|].
  cbn [sxor String.append]. injection Hl as Hl. now rewrite (IH r' Hl).
Qed.

(* the CRC of a corrupted message = CRC of the message, xor the raw register image of the error *)
Theorem crc32_sxor (m e : string) : String.length m = String.length e ->
  crc32 (sxor m e) = N.lxor (crc32 m) (crc_update 0 (bytes_of e)).
Proof.
  intros Hl. unfold crc32. rewrite bytes_of_sxor by exact Hl.
  rewrite <- (N.lxor_0_r crc_mask) at 1.
  rewrite crc_update_lxor by (rewrite !length_bytes_of; exact Hl).
  xor_ring.
Qed.

(* ------------------------------------------------------------------------------------------- *)
(** * B. when does a corrupted envelope pass the checksum test? *)

Lemma lxor_cancel_l (c x y : N) : N.lxor c x = N.lxor c y <-> x = y.
Proof.
  split; [|congruence]. intros H.
  assert (N.lxor c (N.lxor c x) = N.lxor c (N.lxor c y)) as H' by congruence.
  rewrite <- !N.lxor_assoc, N.lxor_nilpotent, !N.lxor_0_l in H'. exact H'.
Qed.

Lemma mul256_add_lxor (h l : N) : l < 256 -> h * 256 + l = N.lxor (h * 256) l.
Proof.
  intros Hl. apply N.add_nocarry_lxor. apply N.bits_inj. intros i. rewrite N.land_spec, N.bits_0.
  change 256 with (2 ^ 8). rewrite <- N.shiftl_mul_pow2.
  destruct (N.lt_ge_cases i 8) as [L|L].
  - rewrite N.shiftl_spec_low by exact L. reflexivity.
  - rewrite (bits_above 8 l i) by assumption. apply andb_false_r.
Qed.

Lemma cat8_lxor (h h' l l' : N) : l < 256 -> l' < 256 ->
  N.lxor h h' * 256 + N.lxor l l' = N.lxor (h * 256 + l) (h' * 256 + l').
Proof.
  intros Hl Hl'. rewrite !mul256_add_lxor by (try apply lxor_lt_256; assumption).
  change 256 with (2 ^ 8). rewrite <- !N.shiftl_mul_pow2, N.shiftl_lxor. xor_ring.
Qed.

Lemma be32_read_sxor (x y : string) : String.length x = 4%nat -> String.length y = 4%nat ->
  be32_read (sxor x y) = N.lxor (be32_read x) (be32_read y).
Proof.
  intros Hx Hy.
  destruct x as [|a0 [|a1 [|a2 [|a3 [|]]]]]; try discriminate Hx.
  destruct y as [|b0 [|b1 [|b2 [|b3 [|]]]]]; try discriminate Hy.
  unfold be32_read. cbn [sxor bytes_of].
  rewrite !N_of_ascii_of_N by (apply lxor_lt_256; apply N_of_ascii_lt).
  rewrite !cat8_lxor by apply N_of_ascii_lt. reflexivity.
Qed.

Theorem checksum_accept_iff (body eb et : string) :
  String.length eb = String.length body -> String.length et = 4%nat ->
  let bin' := sxor (body +++ be32 (crc32 body)) (eb +++ et) in
  (crc32 (stake (String.length bin' - 4) bin') =? be32_read (sdrop (String.length bin' - 4) bin')) = true
  <-> crc_update 0 (bytes_of eb) = be32_read et.
Proof.
  intros Hb Ht bin'.
  assert (bin' = sxor body eb +++ sxor (be32 (crc32 body)) et) as E
    by (unfold bin'; apply sxor_app; congruence).
  assert (String.length bin' - 4 = String.length (sxor body eb))%nat as El.
  { rewrite E, length_app_s, !length_sxor, length_be32. lia. }
  rewrite El, E, stake_app_exact, sdrop_app_exact.
  rewrite crc32_sxor by congruence.
  rewrite be32_read_sxor by (try apply length_be32; assumption).
  rewrite be32_read_be32' by apply crc32_lt.
  rewrite N.eqb_eq. apply lxor_cancel_l.
Qed.

(* ------------------------------------------------------------------------------------------- *)
(** * C. the register step is injective on 32-bit values *)

Theorem fstep_eq0 (s : N) : s < two32 -> fstep s = 0 -> s = 0.
Proof.
  intros Hs H. unfold fstep in H. destruct (N.testbit s 0) eqn:E.
  - apply N.lxor_eq in H. exfalso.
    assert (N.shiftr s 1 < 2147483648) as Hlt.
    { rewrite N.shiftr_div_pow2. change (2 ^ 1) with 2. unfold two32 in Hs. lia. }
    revert H Hlt. generalize (N.shiftr s 1). intros t H Hlt. rewrite H in Hlt. discriminate Hlt.
  - apply N.bits_inj. intros i. rewrite N.bits_0.
    destruct (N.eq_dec i 0) as [->|Hi]; [exact E|].
    replace i with (N.pred i + 1) by lia. rewrite <- N.shiftr_spec', H. apply N.bits_0.
Qed.

Theorem fstep_inj (a b : N) : a < two32 -> b < two32 -> fstep a = fstep b -> a = b.
Proof.
  intros Ha Hb H. apply lxor_eq0. apply fstep_eq0; [now apply lxor_lt_two32|].
  rewrite fstep_lxor. now apply lxor_eq0.
Qed.

Lemma Fk_eq0 (k s : N) : s < two32 -> Fk k s = 0 -> s = 0.
Proof.
  intros Hs. induction k as [|k IH] using N.peano_ind; intros H; [exact H|].
  rewrite Fk_succ in H. apply IH. apply fstep_eq0; [now apply Fk_lt|exact H].
Qed.

Lemma Fk_inj (k a b : N) : a < two32 -> b < two32 -> Fk k a = Fk k b -> a = b.
Proof.
  intros Ha Hb H. apply lxor_eq0. apply (Fk_eq0 k); [now apply lxor_lt_two32|].
  rewrite Fk_lxor. now apply lxor_eq0.
Qed.

Lemma V_nonzero (k : N) : V k <> 0.
Proof. intros H. apply Fk_eq0 in H; [discriminate H|reflexivity]. Qed.

Lemma crc_update_zeros (n : nat) : crc_update 0 (repeat 0 n) = 0.
Proof. induction n as [|n IH]; [reflexivity|]. cbn [repeat]. rewrite crc_update_cons. exact IH. Qed.

(* leading zero bytes are invisible to a zero register *)
Theorem crc_update_leading_zeros (n : nat) (x : list N) : crc_update 0 (repeat 0 n ++ x) = crc_update 0 x.
Proof. now rewrite crc_update_app, crc_update_zeros. Qed.

Lemma crc_update_trailing_zeros (s : N) (x : list N) (n : nat) :
  crc_update s (x ++ repeat 0 n) = Fk (8 * N.of_nat n) (crc_update s x).
Proof.
  rewrite crc_update_app, crc_update_shift, crc_update_zeros, repeat_length. apply N.lxor_0_l.
Qed.

(* trailing zero bytes keep a non-zero register non-zero *)
Theorem crc_update_trailing_zeros_nonzero (s : N) (x : list N) (n : nat) :
  s < two32 -> Forall (fun b => b < 256) x ->
  crc_update s x <> 0 -> crc_update s (x ++ repeat 0 n) <> 0.
Proof.
  intros Hs Hx Hnz H. rewrite crc_update_trailing_zeros in H.
  apply Fk_eq0 in H; [contradiction|]. now apply crc_update_lt.
Qed.

(* ------------------------------------------------------------------------------------------- *)
(** * bit positions of an error pattern (bit [j] of byte [i] is position [8*i+j], as in Corr/C11.v) *)

Fixpoint bit_positions (i : N) (l : list N) : list N :=
  match l with
  | [] => []
  | b :: r => map (fun j => 8 * i + j) (filter (fun j => N.testbit b j) [0;1;2;3;4;5;6;7])
              ++ bit_positions (i + 1) r
  end.

Definition mask_positions (m : string) : list N := bit_positions 0 (bytes_of m).

Definition span (ps : list N) : N :=
  match ps with [] => 0 | p :: _ => last ps p - p + 1 end.

Definition setbits (b : N) : list N := filter (fun j => N.testbit b j) [0;1;2;3;4;5;6;7].

Lemma bit_positions_cons (i b : N) (r : list N) :
  bit_positions i (b :: r) = map (fun j => 8 * i + j) (setbits b) ++ bit_positions (i + 1) r.
Proof. reflexivity. Qed.

Lemma setbits_lt (b j : N) : In j (setbits b) -> j < 8.
Proof. unfold setbits. intros H. apply filter_In in H. destruct H as [H _]. cbn [In] in H. lia. Qed.

Lemma setbits_spec (b j : N) : In j (setbits b) <-> j < 8 /\ N.testbit b j = true.
Proof.
  unfold setbits. rewrite filter_In. cbn [In]. split; intros [H1 H2]; (split; [|exact H2]); [lia|].
  assert (j = 0 \/ j = 1 \/ j = 2 \/ j = 3 \/ j = 4 \/ j = 5 \/ j = 6 \/ j = 7) as Hc by lia.
  intuition congruence.
Qed.

(* the meaning of the position list *)
Lemma bit_positions_spec (l : list N) : forall i p,
  In p (bit_positions i l) <->
  exists k j, (k < length l)%nat /\ j < 8 /\ N.testbit (nth k l 0) j = true /\ p = 8 * (i + N.of_nat k) + j.
Proof.
  induction l as [|b r IH]; intros i p.
  - cbn [bit_positions In length]. split; [contradiction|]. intros (k & j & Hk & _). lia.
  - rewrite bit_positions_cons, in_app_iff, in_map_iff, IH. split.
    + intros [(j & Hp & Hj)|(k & j & Hk & Hj & Hb & Hp)].
      * apply setbits_spec in Hj. destruct Hj as [Hj Hb].
        exists 0%nat, j. cbn [nth length]. repeat split; [lia|exact Hj|exact Hb|lia].
      * exists (S k), j. cbn [nth length]. repeat split; [lia|exact Hj|exact Hb|lia].
    + intros (k & j & Hk & Hj & Hb & Hp). destruct k as [|k].
      * left. exists j. split; [lia|]. apply setbits_spec. split; [exact Hj|exact Hb].
      * right. exists k, j. cbn [nth length] in *. repeat split; [lia|exact Hj|exact Hb|lia].
Qed.

(* strictly increasing lists with a lower bound *)
Fixpoint incr (lo : N) (l : list N) : Prop :=
  match l with [] => True | x :: r => lo <= x /\ incr (x + 1) r end.

Lemma incr_weaken (lo lo' : N) (l : list N) : lo' <= lo -> incr lo l -> incr lo' l.
Proof. destruct l as [|x r]; [trivial|]. cbn [incr]. intros H [H1 H2]. split; [lia|exact H2]. Qed.

Lemma incr_ge (l : list N) : forall lo x, incr lo l -> In x l -> lo <= x.
Proof.
  induction l as [|y r IH]; intros lo x Hi Hx; [contradiction|].
  destruct Hi as [H1 H2]. destruct Hx as [<-|Hx]; [exact H1|].
  specialize (IH _ _ H2 Hx). lia.
Qed.

Lemma incr_app (m : N) (a b : list N) : forall lo, incr lo a -> (forall x, In x a -> x < m) -> lo <= m ->
  incr m b -> incr lo (a ++ b).
Proof.
  induction a as [|x r IH]; intros lo Ha Hm Hlo Hb; cbn [app].
  - now apply (incr_weaken m).
  - destruct Ha as [H1 H2]. split; [exact H1|].
    assert (x < m) as Hx by (apply Hm; now left).
    apply IH; [exact H2| |lia|exact Hb]. intros y Hy. apply Hm. now right.
Qed.

Lemma incr_map_add (c : N) (l : list N) : forall lo, incr lo l -> incr (c + lo) (map (fun j => c + j) l).
Proof.
  induction l as [|x r IH]; intros lo Hi; [exact I|].
  destruct Hi as [H1 H2]. cbn [map incr]. split; [lia|].
  replace (c + x + 1) with (c + (x + 1)) by lia. now apply IH.
Qed.

Lemma incr_filter (f : N -> bool) (l : list N) : forall lo, incr lo l -> incr lo (filter f l).
Proof.
  induction l as [|x r IH]; intros lo Hi; [exact I|].
  destruct Hi as [H1 H2]. cbn [filter]. destruct (f x).
  - split; [exact H1|now apply IH].
  - apply (incr_weaken (x + 1)); [lia|now apply IH].
Qed.

Lemma incr_NoDup (l : list N) : forall lo, incr lo l -> NoDup l.
Proof.
  induction l as [|x r IH]; intros lo Hi; [constructor|].
  destruct Hi as [H1 H2]. constructor; [|now apply (IH (x + 1))].
  intros Hx. pose proof (incr_ge _ _ _ H2 Hx). lia.
Qed.

Lemma incr_le_last (l : list N) : forall lo d q, incr lo l -> In q l -> q <= last l d.
Proof.
  induction l as [|x r IH]; intros lo d q Hi Hq; [contradiction|].
  destruct r as [|y r'].
  - destruct Hq as [<-|[]]. cbn [last]. lia.
  - change (last (x :: y :: r') d) with (last (y :: r') d).
    destruct Hi as [H1 H2]. destruct Hq as [<-|Hq].
    + assert (y <= last (y :: r') d) as Hy by (apply (IH (x + 1)); [exact H2|now left]).
      destruct H2 as [H2 _]. lia.
    + now apply (IH (x + 1)).
Qed.

Lemma setbits_incr (b : N) : incr 0 (setbits b).
Proof. unfold setbits. apply incr_filter. cbn [incr]. lia. Qed.

Lemma bit_positions_lt (l : list N) : forall i p,
  In p (bit_positions i l) -> p < 8 * (i + N.of_nat (length l)).
Proof.
  intros i p H. apply bit_positions_spec in H. destruct H as (k & j & Hk & Hj & _ & ->). lia.
Qed.

Lemma bit_positions_incr (l : list N) : forall i, incr (8 * i) (bit_positions i l).
Proof.
  induction l as [|b r IH]; intros i; [exact I|].
  rewrite bit_positions_cons. apply (incr_app (8 * (i + 1))).
  - replace (8 * i) with (8 * i + 0) at 1 by lia. apply incr_map_add. apply setbits_incr.
  - intros x Hx. apply in_map_iff in Hx. destruct Hx as (j & <- & Hj). apply setbits_lt in Hj. lia.
  - lia.
  - apply IH.
Qed.

Lemma NoDup_map_in {A B} (f : A -> B) (l : list A) :
  (forall x y, In x l -> In y l -> f x = f y -> x = y) -> NoDup l -> NoDup (map f l).
Proof.
  intros Hf Hn. induction Hn as [|x r Hx _ IH]; [constructor|].
  cbn [map]. constructor.
  - intros Hi. apply in_map_iff in Hi. destruct Hi as (y & Hy & Hyr).
    assert (y = x) as -> by (apply Hf; [now right|now left|exact Hy]). contradiction.
  - apply IH. intros a b Ha Hb. apply Hf; now right.
Qed.

(* number of set bits *)
Fixpoint popc (l : list N) : nat :=
  match l with [] => 0%nat | b :: r => (length (setbits b) + popc r)%nat end.

Lemma length_bit_positions (l : list N) : forall i, length (bit_positions i l) = popc l.
Proof.
  induction l as [|b r IH]; intros i; [reflexivity|].
  rewrite bit_positions_cons, app_length, map_length, IH. reflexivity.
Qed.

Lemma popc_app (a b : list N) : popc (a ++ b) = (popc a + popc b)%nat.
Proof. induction a as [|x r IH]; cbn [app popc]; [reflexivity|]. rewrite IH. lia. Qed.

Lemma popc_rev (a : list N) : popc (rev a) = popc a.
Proof.
  induction a as [|x r IH]; [reflexivity|]. cbn [rev]. rewrite popc_app, IH. cbn [popc]. lia.
Qed.

(* ------------------------------------------------------------------------------------------- *)
(** * the register image of an error pattern as a sum over its set bits *)

Definition all256 : list N := map N.of_nat (seq 0 256).

Lemma in_all256 (n : N) : n < 256 -> In n all256.
Proof.
  intros H. unfold all256. apply in_map_iff. exists (N.to_nat n). split; [lia|]. apply in_seq. lia.
Qed.

Lemma byte_decomp (b : N) : b < 256 -> xors (map (N.pow 2) (setbits b)) = b.
Proof.
  intros H.
  assert (forallb (fun b => xors (map (N.pow 2) (setbits b)) =? b) all256 = true) as C
    by (vm_compute; reflexivity).
  rewrite forallb_forall in C. apply N.eqb_eq. apply C. now apply in_all256.
Qed.

Lemma fstep_double (x : N) : fstep (2 * x) = x.
Proof.
  unfold fstep. rewrite N.testbit_even_0, N.shiftr_div_pow2. change (2 ^ 1) with 2.
  rewrite N.mul_comm. apply N.div_mul. discriminate.
Qed.

Lemma Fk_mul_pow2 (j x : N) : Fk j (2 ^ j * x) = x.
Proof.
  induction j as [|j IH] using N.peano_ind; [rewrite Fk_0; change (2 ^ 0) with 1; lia|].
  rewrite Fk_succ_r, N.pow_succ_r', <- N.mul_assoc, fstep_double. exact IH.
Qed.

Lemma Fk_pow2 (K d : N) : d <= K -> Fk K (2 ^ d) = V (K - d).
Proof.
  intros H. replace K with ((K - d) + d) at 1 by lia.
  rewrite Fk_add. rewrite <- (N.mul_1_r (2 ^ d)), Fk_mul_pow2. reflexivity.
Qed.

Theorem crc_repr (l : list N) : Forall (fun b => b < 256) l -> forall i,
  crc_update 0 l = xors (map (fun p => V (8 * (i + N.of_nat (length l)) - p)) (bit_positions i l)).
Proof.
  induction 1 as [|b r Hb _ IH]; intros i; [reflexivity|].
  rewrite crc_update_cons, crc_update_shift, crc_byte_Fk, N.lxor_0_l, <- Fk_add.
  rewrite bit_positions_cons, map_app, xors_app, map_map.
  rewrite N.lxor_comm. f_equal.
  - replace (Fk (8 * N.of_nat (length r) + 8) b)
      with (Fk (8 * N.of_nat (length r) + 8) (xors (map (N.pow 2) (setbits b))))
      by (now rewrite byte_decomp).
    rewrite Fk_xors, map_map. f_equal. apply map_ext_in. intros j Hj. apply setbits_lt in Hj.
    rewrite Fk_pow2 by lia. f_equal. cbn [length]. lia.
  - rewrite (IH (i + 1)). f_equal. apply map_ext. intros p. f_equal. cbn [length]. lia.
Qed.

(* ------------------------------------------------------------------------------------------- *)
(** * D. bursts of at most 32 bits *)

Theorem burst_detected (l : list N) (w : N) : Forall (fun b => b < 256) l ->
  bit_positions 0 l <> [] -> (forall p, In p (bit_positions 0 l) -> w <= p < w + 32) ->
  crc_update 0 l <> 0.
Proof.
  intros Hl Hne Hw. rewrite (crc_repr l Hl 0).
  pose proof (bit_positions_lt l 0) as Hlt. pose proof (bit_positions_incr l 0) as Hinc.
  revert Hne Hw Hlt Hinc. generalize (8 * (0 + N.of_nat (length l))) as n8.
  generalize (bit_positions 0 l) as ps. intros ps n8 Hne Hw Hlt Hinc.
  assert (map (fun p => V (n8 - p)) ps
          = map (Fk (n8 - w)) (map (N.pow 2) (map (fun p => p - w) ps))) as E.
  { rewrite !map_map. apply map_ext_in. intros p Hp.
    specialize (Hw p Hp). specialize (Hlt p Hp). rewrite Fk_pow2 by lia. f_equal. lia. }
  rewrite E, <- Fk_xors. intros H. apply Fk_eq0 in H.
  - destruct ps as [|p0 r]; [contradiction|].
    assert (NoDup (map (fun p => p - w) (p0 :: r))) as Hnd.
    { apply NoDup_map_in; [|now apply (incr_NoDup _ (8 * 0))].
      intros x y Hx Hy Hxy. pose proof (Hw x Hx). pose proof (Hw y Hy). lia. }
    pose proof (xors_pow2_bits _ Hnd (p0 - w)) as Hb. rewrite H, N.bits_0 in Hb.
    cbn [map existsb] in Hb. rewrite N.eqb_refl in Hb. discriminate Hb.
  - apply xors_lt. apply Forall_forall. intros x Hx.
    apply in_map_iff in Hx. destruct Hx as (q & <- & Hq).
    apply in_map_iff in Hq. destruct Hq as (p & <- & Hp).
    specialize (Hw p Hp). unfold two32. change 4294967296 with (2 ^ 32).
    apply N.pow_lt_mono_r; lia.
Qed.

(* ------------------------------------------------------------------------------------------- *)
(** * E. one, two and three flipped bits: a reflective check over the first 91639 powers of the step *)

(* [vtable n s] = [s; fstep s; ...; fstep^(n-1) s] *)
Fixpoint vtable (n : nat) (s : N) : list N :=
  match n with O => [] | S n' => s :: vtable n' (fstep s) end.

Lemma vtable_in (n : nat) : forall s k, k < N.of_nat n -> In (Fk k s) (vtable n s).
Proof.
  induction n as [|n IH]; intros s k Hk; [lia|]. cbn [vtable].
  destruct (N.eq_dec k 0) as [->|Hz]; [left; reflexivity|]. right.
  replace k with (N.succ (N.pred k)) by lia. rewrite Fk_succ_r. apply IH. lia.
Qed.

Definition key (x : N) : positive := N.succ_pos x.
Definition tins (m : PositiveMap.t unit) (x : N) : PositiveMap.t unit := PositiveMap.add (key x) tt m.
Definition tmem (m : PositiveMap.t unit) (x : N) : bool := PositiveMap.mem (key x) m.

Lemma tmem_tins (m : PositiveMap.t unit) (x y : N) : tmem m x = true \/ x = y -> tmem (tins m y) x = true.
Proof.
  unfold tmem, tins. rewrite !PositiveMap.mem_find. intros H.
  destruct (Pos.eq_dec (key x) (key y)) as [E|E].
  - rewrite E, PositiveMap.gss. reflexivity.
  - rewrite PositiveMap.gso by exact E. destruct H as [H|H]; [exact H|]. subst y. contradiction.
Qed.

Lemma tmem_fold (l : list N) : forall m x, In x l \/ tmem m x = true -> tmem (fold_left tins l m) x = true.
Proof.
  induction l as [|y r IH]; intros m x H; cbn [fold_left].
  - destruct H as [[]|H]. exact H.
  - apply IH. destruct H as [[H|H]|H].
    + right. apply tmem_tins. right. now symmetry.
    + now left.
    + right. apply tmem_tins. now left.
Qed.

Definition hd_check (n : nat) : bool :=
  let t := vtable n 1 in
  let m := fold_left tins t (PositiveMap.empty unit) in
  forallb (fun y => negb (tmem m (N.lxor y 1))) t && forallb (fun y => negb (y =? 1)) (tl t).

Lemma hd_check_sound (n : nat) : hd_check n = true ->
  (forall a b, a < N.of_nat n -> b < N.of_nat n -> N.lxor (V a) 1 <> V b)
  /\ (forall d, 0 < d < N.of_nat n -> V d <> 1).
Proof.
  unfold hd_check. intros H. apply andb_prop in H. destruct H as [H3 H2].
  rewrite forallb_forall in H3, H2. split.
  - intros a b Ha Hb E.
    specialize (H3 (V a) (vtable_in n 1 a Ha)). rewrite E in H3.
    rewrite tmem_fold in H3; [discriminate H3|]. left. apply (vtable_in n 1 b Hb).
  - intros d Hd E. destruct n as [|n]; [lia|]. cbn [vtable tl] in H2.
    assert (In (V d) (vtable n (fstep 1))) as Hin.
    { unfold V. replace d with (N.succ (N.pred d)) by lia. rewrite Fk_succ_r. apply vtable_in. lia. }
    specialize (H2 _ Hin). rewrite E in H2. discriminate H2.
Qed.

Lemma hd_check_ok : hd_check (N.to_nat 91639) = true.
Proof. vm_compute. reflexivity. Qed.

Lemma V_w3 (a b : N) : a < 91639 -> b < 91639 -> N.lxor (V a) 1 <> V b.
Proof.
  intros Ha Hb. apply (proj1 (hd_check_sound _ hd_check_ok)); rewrite N2Nat.id; assumption.
Qed.

Lemma V_w2 (d : N) : 0 < d < 91639 -> V d <> 1.
Proof.
  intros Hd. apply (proj2 (hd_check_sound _ hd_check_ok)). rewrite N2Nat.id. exact Hd.
Qed.

(* span form: what matters is the distance between the first and the last flipped bit, not the length *)
Theorem weight_le3_span_detected (l : list N) : Forall (fun b => b < 256) l ->
  (1 <= popc l <= 3)%nat ->
  (forall p q, In p (bit_positions 0 l) -> In q (bit_positions 0 l) -> q < p + 91639) ->
  crc_update 0 l <> 0.
Proof.
  intros Hl Hp Hsp. rewrite (crc_repr l Hl 0).
  pose proof (bit_positions_lt l 0) as Hlt. pose proof (bit_positions_incr l 0) as Hinc.
  rewrite <- (length_bit_positions l 0) in Hp.
  revert Hsp Hp Hlt Hinc. generalize (8 * (0 + N.of_nat (length l))) as n8.
  generalize (bit_positions 0 l) as ps. intros ps n8 Hsp Hp Hlt Hinc.
  destruct ps as [|p1 [|p2 [|p3 [|p4 r]]]]; cbn [length] in Hp; try lia;
    cbn [map xors fold_right]; rewrite N.lxor_0_r.
  - apply V_nonzero.
  - pose proof (Hlt p1 (or_introl eq_refl)) as L1. pose proof (Hlt p2 (or_intror (or_introl eq_refl))) as L2.
    pose proof (Hsp p1 p2 (or_introl eq_refl) (or_intror (or_introl eq_refl))) as S12.
    destruct Hinc as (_ & I2 & _).
    assert (V (n8 - p1) = Fk (n8 - p2) (V (p2 - p1))) as E1
      by (unfold V; rewrite <- Fk_add; f_equal; lia).
    rewrite E1. unfold V at 2. rewrite <- Fk_lxor. intros H.
    apply Fk_eq0 in H; [|apply lxor_lt_two32; [apply V_lt|reflexivity]].
    apply N.lxor_eq in H. apply V_w2 in H; [exact H|lia].
  - pose proof (Hlt p1 (or_introl eq_refl)) as L1. pose proof (Hlt p2 (or_intror (or_introl eq_refl))) as L2.
    pose proof (Hlt p3 (or_intror (or_intror (or_introl eq_refl)))) as L3.
    pose proof (Hsp p1 p3 (or_introl eq_refl) (or_intror (or_intror (or_introl eq_refl)))) as S13.
    destruct Hinc as (_ & I2 & I3 & _).
    assert (V (n8 - p1) = Fk (n8 - p3) (V (p3 - p1))) as E1
      by (unfold V; rewrite <- Fk_add; f_equal; lia).
    assert (V (n8 - p2) = Fk (n8 - p3) (V (p3 - p2))) as E2
      by (unfold V; rewrite <- Fk_add; f_equal; lia).
    rewrite E1, E2. unfold V at 3. rewrite <- !Fk_lxor. intros H.
    apply Fk_eq0 in H; [|repeat apply lxor_lt_two32; try apply V_lt; reflexivity].
    apply N.lxor_eq in H. symmetry in H. apply V_w3 in H; [exact H|lia|lia].
Qed.

Theorem weight_le3_detected (l : list N) : Forall (fun b => b < 256) l ->
  8 * N.of_nat (length l) <= 91639 -> (1 <= popc l <= 3)%nat -> crc_update 0 l <> 0.
Proof.
  intros Hl Hsz Hp. apply weight_le3_span_detected; [exact Hl|exact Hp|].
  intros p q _ Hq. apply bit_positions_lt in Hq. lia.
Qed.

(* ------------------------------------------------------------------------------------------- *)
(** * the big-endian trailer: acceptance = the error with its trailer bytes reversed is a codeword *)

Fixpoint beval (acc : N) (ts : list N) : N :=
  match ts with [] => acc | t :: r => beval (acc * 256 + t) r end.

Lemma Fk8_cat (y t : N) : t < 256 -> Fk 8 (y * 256 + t) = N.lxor y (Fk 8 t).
Proof.
  intros Ht. rewrite mul256_add_lxor by exact Ht. rewrite Fk_lxor. f_equal.
  rewrite N.mul_comm. change 256 with (2 ^ 8). apply Fk_mul_pow2.
Qed.

Lemma beval_rev (ts : list N) : Forall (fun b => b < 256) ts -> forall acc,
  Fk (8 * N.of_nat (length ts)) (beval acc ts) = N.lxor acc (crc_update 0 (rev ts)).
Proof.
  induction 1 as [|t r Ht _ IH]; intros acc.
  - cbn [length beval rev crc_update fold_left]. change (8 * N.of_nat 0) with 0. rewrite Fk_0. xor_ring.
  - cbn [beval rev]. rewrite crc_update_app, crc_update_cons. cbn [crc_update fold_left].
    replace (8 * N.of_nat (length (t :: r))) with (8 + 8 * N.of_nat (length r)) by (cbn [length]; lia).
    rewrite Fk_add, IH, crc_byte_Fk, !Fk_lxor, Fk8_cat by exact Ht. xor_ring.
Qed.

Lemma be32_read_rev (et : string) : String.length et = 4%nat ->
  Fk 32 (be32_read et) = crc_update 0 (rev (bytes_of et)).
Proof.
  intros Ht. pose proof (bytes_of_bounded et) as Hb.
  destruct et as [|a0 [|a1 [|a2 [|a3 [|]]]]]; try discriminate Ht.
  pose proof (beval_rev _ Hb 0) as H. rewrite N.lxor_0_l in H. exact H.
Qed.

Lemma be32_read_lt (s : string) : be32_read s < two32.
Proof.
  unfold be32_read. pose proof (bytes_of_bounded s) as Hb.
  destruct (bytes_of s) as [|a [|b [|c [|d r]]]]; try reflexivity.
  inversion_clear Hb as [|? ? Ha Hb']. inversion_clear Hb' as [|? ? Hb Hb''].
  inversion_clear Hb'' as [|? ? Hc Hb']. inversion_clear Hb' as [|? ? Hd _].
  unfold two32. lia.
Qed.

Theorem accept_iff_codeword (body eb et : string) :
  String.length eb = String.length body -> String.length et = 4%nat ->
  let bin' := sxor (body +++ be32 (crc32 body)) (eb +++ et) in
  (crc32 (stake (String.length bin' - 4) bin') =? be32_read (sdrop (String.length bin' - 4) bin')) = true
  <-> crc_update 0 (bytes_of eb ++ rev (bytes_of et)) = 0.
Proof.
  intros Hb Ht bin'. unfold bin'. rewrite (checksum_accept_iff body eb et Hb Ht).
  rewrite crc_update_app, (crc_update_shift (rev (bytes_of et))), rev_length, length_bytes_of, Ht.
  change (8 * N.of_nat 4) with 32. rewrite <- be32_read_rev by exact Ht. rewrite <- Fk_lxor.
  assert (crc_update 0 (bytes_of eb) < two32) as HL
    by (apply crc_update_lt; [apply bytes_of_bounded|reflexivity]).
  pose proof (be32_read_lt et) as HR. split; intros H.
  - rewrite H, N.lxor_nilpotent. apply Fk_zero.
  - apply Fk_eq0 in H; [|now apply lxor_lt_two32]. apply N.lxor_eq in H. now symmetry.
Qed.

(* ------------------------------------------------------------------------------------------- *)
(** * F. corollaries on the model's API *)

Lemma stake_sdrop (k : nat) : forall s, stake k s +++ sdrop k s = s.
Proof.
  induction k as [|k IH]; intros s; [reflexivity|].
  destruct s as [|c r]; [reflexivity|]. cbn [stake sdrop String.append]. now rewrite IH.
Qed.

Lemma length_sdrop (k : nat) : forall s, String.length (sdrop k s) = (String.length s - k)%nat.
Proof.
  induction k as [|k IH]; intros s; [cbn [sdrop]; lia|].
  destruct s as [|c r]; [reflexivity|]. cbn [sdrop String.length]. rewrite IH. lia.
Qed.

Lemma length_stake (k : nat) : forall s, (k <= String.length s)%nat -> String.length (stake k s) = k.
Proof.
  induction k as [|k IH]; intros s Hk; [reflexivity|].
  destruct s as [|c r]; cbn [String.length] in Hk; [lia|]. cbn [stake String.length]. rewrite IH; lia.
Qed.

(* the error pattern with its last four bytes (the trailer part) reversed *)
Definition swapped (m : string) : list N :=
  let n := (String.length m - 4)%nat in bytes_of (stake n m) ++ rev (bytes_of (sdrop n m)).

Lemma bytes_of_split (m : string) (n : nat) : bytes_of m = bytes_of (stake n m) ++ bytes_of (sdrop n m).
Proof. rewrite <- bytes_of_app, stake_sdrop. reflexivity. Qed.

Lemma swapped_length (m : string) : length (swapped m) = String.length m.
Proof.
  unfold swapped. rewrite app_length, rev_length, <- app_length, <- bytes_of_split. apply length_bytes_of.
Qed.

Lemma swapped_bounded (m : string) : Forall (fun b => b < 256) (swapped m).
Proof.
  unfold swapped. apply Forall_app. split; [apply bytes_of_bounded|].
  apply Forall_rev. apply bytes_of_bounded.
Qed.

Lemma swapped_popc (m : string) : popc (swapped m) = popc (bytes_of m).
Proof.
  unfold swapped. rewrite (bytes_of_split m (String.length m - 4)), !popc_app, popc_rev. reflexivity.
Qed.

Lemma length_env_bin' (p : env_params) (ct : string) :
  String.length (env_bin p ct) = (String.length (ep_magic p +++ be32 (ep_version p) +++ ct) + 4)%nat.
Proof. unfold env_bin. rewrite length_app_s, length_be32. reflexivity. Qed.

(* a mask whose byte-swapped form is not a codeword of the raw register is rejected *)
Theorem noncodeword_mask_rejected (p : env_params) (ct m : string) :
  String.length m = String.length (env_bin p ct) -> crc_update 0 (swapped m) <> 0 ->
  forall ct', decode_ct p (b64_encode (sxor (env_bin p ct) m)) <> DOk ct'.
Proof.
  intros Hlen Hnz. apply reject_wrong_checksum. intros Hc. apply Hnz. clear Hnz.
  rewrite length_env_bin' in Hlen. unfold env_bin in Hc.
  set (body := ep_magic p +++ be32 (ep_version p) +++ ct) in *.
  unfold swapped. set (n := (String.length m - 4)%nat).
  assert (String.length (stake n m) = String.length body) as H1 by (rewrite length_stake; lia).
  assert (String.length (sdrop n m) = 4%nat) as H2 by (rewrite length_sdrop; lia).
  apply (accept_iff_codeword body _ _ H1 H2). rewrite stake_sdrop. apply N.eqb_eq. exact Hc.
Qed.

(* conversely a mask whose byte-swapped form IS a codeword passes the checksum test *)
Theorem codeword_mask_passes_checksum (p : env_params) (ct m : string) :
  String.length m = String.length (env_bin p ct) -> crc_update 0 (swapped m) = 0 ->
  let bin' := sxor (env_bin p ct) m in
  crc32 (stake (String.length bin' - 4) bin') = be32_read (sdrop (String.length bin' - 4) bin').
Proof.
  intros Hlen Hz. rewrite length_env_bin' in Hlen. unfold env_bin.
  set (body := ep_magic p +++ be32 (ep_version p) +++ ct) in *.
  unfold swapped in Hz. set (n := (String.length m - 4)%nat) in *.
  assert (String.length (stake n m) = String.length body) as H1 by (rewrite length_stake; lia).
  assert (String.length (sdrop n m) = 4%nat) as H2 by (rewrite length_sdrop; lia).
  apply (accept_iff_codeword body _ _ H1 H2) in Hz. rewrite stake_sdrop in Hz.
  cbv zeta. apply N.eqb_eq. exact Hz.
Qed.

(* ---- boolean corruption classes ---- *)
Definition burst32 (ps : list N) : bool := (0 <? N.of_nat (length ps)) && (span ps <=? 32).

(* 1 to 3 flipped bits anywhere in an envelope of at most 91639 bits *)
Definition mask_le3 (m : string) : bool :=
  let k := N.of_nat (length (mask_positions m)) in
  (0 <? k) && (k <=? 3) && (8 * slen m <=? 91639).

(* a non-empty burst of span <= 32 inside the checksummed bytes, trailer untouched *)
Definition mask_burst32_body (m : string) : bool :=
  let ps := mask_positions m in burst32 ps && forallb (fun q => q <? 8 * (slen m - 4)) ps.

(* a non-empty change confined to the four trailer bytes *)
Definition mask_in_trailer (m : string) : bool :=
  let ps := mask_positions m in
  (0 <? N.of_nat (length ps)) && forallb (fun q => 8 * (slen m - 4) <=? q) ps.

(* the general burst class: span <= 32 after reversing the order of the four trailer bytes *)
Definition mask_burst32_swapped (m : string) : bool := burst32 (bit_positions 0 (swapped m)).

Lemma burst32_window (ps : list N) (lo : N) : incr lo ps -> burst32 ps = true ->
  ps <> [] /\ exists w, forall q, In q ps -> w <= q < w + 32.
Proof.
  intros Hi Hb. unfold burst32 in Hb. apply andb_prop in Hb. destruct Hb as [Hne Hs].
  destruct ps as [|p r]; [discriminate Hne|]. split; [discriminate|].
  exists p. intros q Hq. unfold span in Hs.
  pose proof (incr_le_last _ _ p q Hi Hq) as H1.
  destruct Hi as [_ Hi]. destruct Hq as [<-|Hq]; [lia|].
  pose proof (incr_ge _ _ _ Hi Hq) as H2. lia.
Qed.

Lemma bit_positions_app (a b : list N) : forall i,
  bit_positions i (a ++ b) = bit_positions i a ++ bit_positions (i + N.of_nat (length a)) b.
Proof.
  induction a as [|x r IH]; intros i.
  - cbn [app bit_positions length]. f_equal. lia.
  - cbn [app]. rewrite !bit_positions_cons, IH, app_assoc. f_equal. f_equal. cbn [length]. lia.
Qed.

Lemma bit_positions_nil_popc (l : list N) (i : N) : bit_positions i l = [] <-> popc l = 0%nat.
Proof.
  rewrite <- (length_bit_positions l i). split; [now intros ->|]. now destruct (bit_positions i l).
Qed.

Lemma burst32_swapped_nonzero (m : string) : mask_burst32_swapped m = true -> crc_update 0 (swapped m) <> 0.
Proof.
  intros H. apply (burst32_window _ (8 * 0)) in H; [|apply bit_positions_incr].
  destruct H as (Hne & w & Hw). now apply (burst_detected _ w (swapped_bounded m)).
Qed.

Lemma le3_nonzero (m : string) : mask_le3 m = true -> crc_update 0 (swapped m) <> 0.
Proof.
  unfold mask_le3, mask_positions, slen. rewrite length_bit_positions. intros H.
  apply weight_le3_detected; [apply swapped_bounded|rewrite swapped_length; lia|rewrite swapped_popc; lia].
Qed.

Lemma mask_positions_split (m : string) : let n := (String.length m - 4)%nat in
  mask_positions m = bit_positions 0 (bytes_of (stake n m))
                     ++ bit_positions (N.of_nat (String.length (stake n m))) (bytes_of (sdrop n m)).
Proof.
  intros n. unfold mask_positions. rewrite (bytes_of_split m n) at 1.
  rewrite bit_positions_app, length_bytes_of. reflexivity.
Qed.

Lemma swapped_positions_split (m : string) : let n := (String.length m - 4)%nat in
  bit_positions 0 (swapped m) = bit_positions 0 (bytes_of (stake n m))
                     ++ bit_positions (N.of_nat (String.length (stake n m))) (rev (bytes_of (sdrop n m))).
Proof.
  intros n. unfold swapped. fold n. rewrite bit_positions_app, length_bytes_of. reflexivity.
Qed.

Lemma burst32_body_swapped (m : string) : mask_burst32_body m = true -> mask_burst32_swapped m = true.
Proof.
  unfold mask_burst32_body, mask_burst32_swapped. intros H. apply andb_prop in H. destruct H as [Hb Hlt].
  rewrite forallb_forall in Hlt.
  pose proof (mask_positions_split m) as E. pose proof (swapped_positions_split m) as E'.
  cbv zeta in E, E'. set (n := (String.length m - 4)%nat) in *.
  destruct (Nat.le_gt_cases 4 (String.length m)) as [L|L].
  - assert (String.length (stake n m) = n) as Hn by (apply length_stake; lia).
    rewrite Hn in E, E'.
    assert (bit_positions (N.of_nat n) (bytes_of (sdrop n m)) = []) as Hnil.
    { destruct (bit_positions (N.of_nat n) (bytes_of (sdrop n m))) as [|q r] eqn:Eq; [reflexivity|].
      assert (In q (mask_positions m)) as Hq by (rewrite E; apply in_or_app; right; now left).
      apply Hlt in Hq.
      pose proof (incr_ge _ _ q (bit_positions_incr (bytes_of (sdrop n m)) (N.of_nat n))) as Hge.
      rewrite Eq in Hge. specialize (Hge (or_introl eq_refl)). unfold slen in Hq. lia. }
    assert (bit_positions (N.of_nat n) (rev (bytes_of (sdrop n m))) = []) as Hnil'.
    { apply bit_positions_nil_popc. rewrite popc_rev. now apply (bit_positions_nil_popc _ (N.of_nat n)). }
    rewrite E', Hnil'. rewrite E, Hnil in Hb. exact Hb.
  - (* shorter than a trailer: nothing is below position 0 *)
    exfalso. unfold burst32 in Hb. apply andb_prop in Hb. destruct Hb as [Hne _].
    destruct (mask_positions m) as [|q r]; [discriminate Hne|].
    specialize (Hlt q (or_introl eq_refl)). unfold slen in Hlt. lia.
Qed.

Lemma in_trailer_nonzero (m : string) : mask_in_trailer m = true -> crc_update 0 (swapped m) <> 0.
Proof.
  unfold mask_in_trailer. intros H. apply andb_prop in H. destruct H as [Hne Hge].
  rewrite forallb_forall in Hge.
  pose proof (mask_positions_split m) as E. pose proof (swapped_positions_split m) as E'.
  cbv zeta in E, E'. set (n := (String.length m - 4)%nat) in *.
  assert (String.length (stake n m) = n) as Hn by (apply length_stake; lia).
  rewrite Hn in E, E'.
  assert (bit_positions 0 (bytes_of (stake n m)) = []) as Hnil.
  { destruct (bit_positions 0 (bytes_of (stake n m))) as [|q r] eqn:Eq; [reflexivity|].
    assert (In q (mask_positions m)) as Hq by (rewrite E; apply in_or_app; left; now left).
    apply Hge in Hq.
    pose proof (bit_positions_lt (bytes_of (stake n m)) 0 q) as Hlt.
    rewrite Eq, length_bytes_of, Hn in Hlt. specialize (Hlt (or_introl eq_refl)). unfold slen in Hq. lia. }
  rewrite Hnil in E, E'. cbn [app] in E, E'.
  apply (burst_detected _ (8 * N.of_nat n) (swapped_bounded m)).
  - rewrite E'. intros Hz. apply bit_positions_nil_popc in Hz. rewrite popc_rev in Hz.
    apply (bit_positions_nil_popc _ (N.of_nat n)) in Hz. rewrite <- E in Hz. rewrite Hz in Hne. discriminate Hne.
  - rewrite E'. intros q Hq. split.
    + apply (incr_ge _ _ _ (bit_positions_incr _ _) Hq).
    + apply bit_positions_lt in Hq. rewrite rev_length, length_bytes_of, length_sdrop in Hq. lia.
Qed.

Theorem mask_le3_rejected (p : env_params) (ct m : string) :
  String.length m = String.length (env_bin p ct) -> mask_le3 m = true ->
  forall ct', decode_ct p (b64_encode (sxor (env_bin p ct) m)) <> DOk ct'.
Proof. intros Hl Hc. apply noncodeword_mask_rejected; [exact Hl|now apply le3_nonzero]. Qed.

Theorem mask_burst32_swapped_rejected (p : env_params) (ct m : string) :
  String.length m = String.length (env_bin p ct) -> mask_burst32_swapped m = true ->
  forall ct', decode_ct p (b64_encode (sxor (env_bin p ct) m)) <> DOk ct'.
Proof. intros Hl Hc. apply noncodeword_mask_rejected; [exact Hl|now apply burst32_swapped_nonzero]. Qed.

Theorem mask_burst32_body_rejected (p : env_params) (ct m : string) :
  String.length m = String.length (env_bin p ct) -> mask_burst32_body m = true ->
  forall ct', decode_ct p (b64_encode (sxor (env_bin p ct) m)) <> DOk ct'.
Proof. intros Hl Hc. apply mask_burst32_swapped_rejected; [exact Hl|now apply burst32_body_swapped]. Qed.

Theorem mask_in_trailer_rejected (p : env_params) (ct m : string) :
  String.length m = String.length (env_bin p ct) -> mask_in_trailer m = true ->
  forall ct', decode_ct p (b64_encode (sxor (env_bin p ct) m)) <> DOk ct'.
Proof. intros Hl Hc. apply noncodeword_mask_rejected; [exact Hl|now apply in_trailer_nonzero]. Qed.

(* D, phrased on byte strings *)
Theorem burst_detected_str (eb : string) (w : N) : mask_positions eb <> [] ->
  (forall q, In q (mask_positions eb) -> w <= q < w + 32) -> crc_update 0 (bytes_of eb) <> 0.
Proof. intros Hne Hw. apply (burst_detected _ w); [apply bytes_of_bounded|exact Hne|exact Hw]. Qed.

(* ---- the mask property evaluated by Corr/C11.v, with its known exception ---- *)
Definition guaranteed_mask (m : string) : bool :=
  let ps := mask_positions m in
  let n := N.of_nat (length ps) in
  (0 <? n) && (((n <=? 3) && (8 * slen m <=? 91639)) || (span ps <=? 32)).

Definition boundary_burst (m : string) : bool :=
  let ps := mask_positions m in
  let cut := 8 * (slen m - 4) in
  (3 <? N.of_nat (length ps)) && (span ps <=? 32)
  && existsb (fun q => q <? cut) ps && existsb (fun q => cut <=? q) ps.

Lemma forallb_false_ex {A} (f : A -> bool) (l : list A) :
  forallb f l = false -> exists x, In x l /\ f x = false.
Proof.
  induction l as [|x r IH]; cbn [forallb]; [discriminate|].
  destruct (f x) eqn:E; cbn [andb]; intros H.
  - destruct (IH H) as (y & Hy & Hf). exists y. split; [now right|exact Hf].
  - exists x. split; [now left|exact E].
Qed.

(* at most three flipped bits in a span of 32 across the boundary: still within reach of the table *)
Lemma straddling_le3_nonzero (m : string) (q1 q2 : N) :
  burst32 (mask_positions m) = true -> (length (mask_positions m) <= 3)%nat ->
  In q1 (mask_positions m) -> q1 < 8 * (slen m - 4) ->
  In q2 (mask_positions m) -> 8 * (slen m - 4) <= q2 ->
  crc_update 0 (swapped m) <> 0.
Proof.
  intros Hb Hn3 Hq1 Hlt1 Hq2 Hge2.
  apply (burst32_window _ (8 * 0)) in Hb; [|apply bit_positions_incr].
  destruct Hb as (_ & w & Hw).
  pose proof (mask_positions_split m) as E. pose proof (swapped_positions_split m) as E'.
  cbv zeta in E, E'. unfold slen in Hlt1, Hge2. set (n := (String.length m - 4)%nat) in *.
  assert (String.length (stake n m) = n) as Hn by (apply length_stake; lia).
  rewrite Hn in E, E'.
  assert (forall x, In x (bit_positions 0 (swapped m)) ->
            8 * N.of_nat n < x + 32 /\ x < 8 * N.of_nat n + 32) as Hwin.
  { intros x Hx. rewrite E' in Hx. apply in_app_or in Hx. destruct Hx as [Hx|Hx].
    - assert (In x (mask_positions m)) as Hx' by (rewrite E; apply in_or_app; now left).
      pose proof (Hw x Hx'). pose proof (Hw q2 Hq2).
      apply bit_positions_lt in Hx. rewrite length_bytes_of, Hn in Hx. lia.
    - pose proof (incr_ge _ _ _ (bit_positions_incr _ _) Hx).
      apply bit_positions_lt in Hx. rewrite rev_length, length_bytes_of, length_sdrop in Hx. lia. }
  apply weight_le3_span_detected; [apply swapped_bounded| |].
  - rewrite swapped_popc, <- (length_bit_positions _ 0). fold (mask_positions m).
    destruct (mask_positions m); [contradiction|cbn [length] in *; lia].
  - intros x y Hx Hy. pose proof (Hwin x Hx). pose proof (Hwin y Hy). lia.
Qed.

(* every mask of the guaranteed class, the known boundary bursts excepted, is rejected *)
Theorem guaranteed_mask_rejected (p : env_params) (ct m : string) :
  String.length m = String.length (env_bin p ct) ->
  guaranteed_mask m = true -> boundary_burst m = false ->
  forall ct', decode_ct p (b64_encode (sxor (env_bin p ct) m)) <> DOk ct'.
Proof.
  intros Hl Hg Hk. apply noncodeword_mask_rejected; [exact Hl|]. clear Hl.
  unfold guaranteed_mask in Hg. cbv zeta in Hg. apply andb_prop in Hg. destruct Hg as [Hne Hg].
  apply orb_prop in Hg. destruct Hg as [Hg|Hs].
  - apply le3_nonzero. unfold mask_le3. cbv zeta. apply andb_prop in Hg. destruct Hg as [H3 Hsz].
    rewrite Hne, H3, Hsz. reflexivity.
  - assert (burst32 (mask_positions m) = true) as Hb by (unfold burst32; rewrite Hne, Hs; reflexivity).
    destruct (forallb (fun q => q <? 8 * (slen m - 4)) (mask_positions m)) eqn:EB.
    + apply burst32_swapped_nonzero, burst32_body_swapped. unfold mask_burst32_body. cbv zeta.
      rewrite Hb, EB. reflexivity.
    + destruct (forallb (fun q => 8 * (slen m - 4) <=? q) (mask_positions m)) eqn:ET.
      * apply in_trailer_nonzero. unfold mask_in_trailer. cbv zeta. rewrite Hne, ET. reflexivity.
      * apply forallb_false_ex in EB. destruct EB as (q2 & Hq2 & Hge2).
        apply forallb_false_ex in ET. destruct ET as (q1 & Hq1 & Hlt1).
        unfold boundary_burst in Hk. cbv zeta in Hk. rewrite Hs in Hk.
        assert (existsb (fun q => q <? 8 * (slen m - 4)) (mask_positions m) = true) as X1
          by (apply existsb_exists; exists q1; split; [exact Hq1|lia]).
        assert (existsb (fun q => 8 * (slen m - 4) <=? q) (mask_positions m) = true) as X2
          by (apply existsb_exists; exists q2; split; [exact Hq2|lia]).
        rewrite X1, X2, !andb_true_r in Hk.
        apply (straddling_le3_nonzero m q1 q2); [exact Hb|lia|exact Hq1|lia|exact Hq2|lia].
Qed.

(* ------------------------------------------------------------------------------------------- *)
(** * G. the guarantee does NOT extend to bursts across the body / trailer boundary *)

Definition std : env_params := {| ep_magic := "escx"; ep_version := 1; ep_min_len := 12 |}.

Example std_wf : wf_params std.
Proof. unfold wf_params, std, two32. cbn [ep_magic ep_version ep_min_len String.length]. lia. Qed.

(* 13-byte ciphertext, 25-byte envelope: bytes 19,20 are ciphertext, bytes 21..24 the big-endian CRC *)
Definition g_ct : string := "0123456789abc".
Definition g_mask : string := of_bytes (repeat 0 19 ++ [97; 216; 244; 238] ++ [0; 0]).
Definition g_ct' : string := "0123456789a" +++ of_bytes [3; 187].

Theorem burst_boundary_refuted :
  exists ct m ct',
    String.length m = String.length (env_bin std ct)
    /\ burst32 (mask_positions m) = true                                      (* 18 bits, span 32 *)
    /\ existsb (fun q => q <? 8 * (slen m - 4)) (mask_positions m) = true      (* touches the body *)
    /\ existsb (fun q => 8 * (slen m - 4) <=? q) (mask_positions m) = true     (* and the trailer *)
    /\ decode_ct std (b64_encode (sxor (env_bin std ct) m)) = DOk ct'
    /\ ct' <> ct.
Proof.
  exists g_ct, g_mask, g_ct'. repeat split; try (vm_compute; reflexivity).
  intros H. vm_compute in H. discriminate H.
Qed.

(* the same mask is (necessarily) outside the byte-swapped burst class *)
Example g_mask_not_swapped_burst : mask_burst32_swapped g_mask = false.
Proof. vm_compute. reflexivity. Qed.

(* it is exactly the exception carved out of the guaranteed class *)
Example g_mask_classes : guaranteed_mask g_mask = true /\ boundary_burst g_mask = true.
Proof. split; vm_compute; reflexivity. Qed.

Example g_mask_span : span (mask_positions g_mask) = 32 /\ length (mask_positions g_mask) = 18%nat.
Proof. split; vm_compute; reflexivity. Qed.

(* ------------------------------------------------------------------------------------------- *)
(** * examples: the hypotheses are satisfiable on concrete inputs *)

Example ex_crc32_sxor :
  crc32 (sxor "hello world" "ab cd ef gh") = N.lxor (crc32 "hello world") (crc_update 0 (bytes_of "ab cd ef gh"))
  /\ crc32 (sxor "hello world" "ab cd ef gh") = 4089824771.
Proof. split; [now apply crc32_sxor|vm_compute; reflexivity]. Qed.

Example ex_crc32_check : crc32 "123456789" = 3421780262.     (* 0xCBF43926, the standard check value *)
Proof. vm_compute. reflexivity. Qed.

(* three flipped bits: one in the version field, one in the ciphertext, one in the trailer *)
Definition ex_mask3 : string := of_bytes (repeat 0 5 ++ [16] ++ repeat 0 10 ++ [1] ++ repeat 0 6 ++ [128; 0]).

Example ex_le3 : String.length ex_mask3 = String.length (env_bin std g_ct) /\ mask_le3 ex_mask3 = true
  /\ decode_ct std (b64_encode (sxor (env_bin std g_ct) ex_mask3)) = DErrChecksum.
Proof. repeat split; vm_compute; reflexivity. Qed.

Example ex_le3_rejected ct' : decode_ct std (b64_encode (sxor (env_bin std g_ct) ex_mask3)) <> DOk ct'.
Proof. apply mask_le3_rejected; [reflexivity|vm_compute; reflexivity]. Qed.

(* a 32-bit burst (24 flipped bits) inside the ciphertext bytes *)
Definition ex_mask_body : string := of_bytes (repeat 0 10 ++ [128; 255; 255; 255; 127] ++ repeat 0 10).

Example ex_burst_body : String.length ex_mask_body = String.length (env_bin std g_ct)
  /\ mask_burst32_body ex_mask_body = true /\ span (mask_positions ex_mask_body) = 32
  /\ decode_ct std (b64_encode (sxor (env_bin std g_ct) ex_mask_body)) = DErrChecksum.
Proof. repeat split; vm_compute; reflexivity. Qed.

(* the whole trailer inverted *)
Definition ex_mask_trailer : string := of_bytes (repeat 0 21 ++ [255; 255; 255; 255]).

Example ex_in_trailer : String.length ex_mask_trailer = String.length (env_bin std g_ct)
  /\ mask_in_trailer ex_mask_trailer = true
  /\ decode_ct std (b64_encode (sxor (env_bin std g_ct) ex_mask_trailer)) = DErrChecksum.
Proof. repeat split; vm_compute; reflexivity. Qed.

(* a burst across the boundary that IS in the byte-swapped class: last body byte + first-transmitted
   (= last stored) trailer byte *)
Definition ex_mask_swapped : string := of_bytes (repeat 0 20 ++ [255; 0; 0; 0; 255]).

Example ex_burst_swapped : mask_burst32_swapped ex_mask_swapped = true
  /\ burst32 (mask_positions ex_mask_swapped) = false
  /\ decode_ct std (b64_encode (sxor (env_bin std g_ct) ex_mask_swapped)) = DErrChecksum.
Proof. repeat split; vm_compute; reflexivity. Qed.

(* the bound of [weight_le3_detected] is sharp: with 91640 bits (11455 bytes) three flipped bits can
   cancel: positions 0, 49961 and 91639 *)
Definition sharp_pattern : list N :=
  [1] ++ repeat 0 (N.to_nat 6244) ++ [2] ++ repeat 0 (N.to_nat 5208) ++ [128].

Example hd_bound_sharp :
  8 * N.of_nat (length sharp_pattern) = 91640 /\ popc sharp_pattern = 3%nat
  /\ bit_positions 0 sharp_pattern = [0; 49961; 91639]
  /\ crc_update 0 sharp_pattern = 0.
Proof. split; [|split; [|split]]; vm_compute; reflexivity. Qed.

Example hd_check_sharp : hd_check (N.to_nat 91640) = false.
Proof. vm_compute. reflexivity. Qed.
