(* Proofs/MemoRelEval.v — C10: the five mutually recursive functions of the evaluator, run twice from states that agree
   on C, in two contexts that differ only in the root environment (and hence in the value of `context`), return EQUAL
   chains and related final states — for every expression that does not start a reference at `context`. *)
From Verif Require Import Base.Bytes Model.Chain Model.GoText Model.Envelope Model.Eval.
From Verif Require Import Proofs.NonInterferenceTwins Proofs.ChainAlgebraLit Proofs.ChainAlgebraLink Proofs.MemoRelKit.
From Coq Require Import Lia Permutation.

(* the reserved-key selector of evaluateExprAccess *)
Definition sel {A} (k : option string) (a b c : A) : A :=
  match k with Some "imports" => a | Some "context" => b | _ => c end.

Lemma sel_spec {A} (k : option string) (a b c : A) :
  sel k a b c = match k with
                | Some s => if String.eqb s "imports" then a else if String.eqb s "context" then b else c
                | None => c
                end.
Proof.
  unfold sel. destruct k as [s|]; [|reflexivity].
  repeat (match goal with |- context [match ?x with _ => _ end] => is_var x; destruct x end; try reflexivity).
Qed.

Lemma access_body_sel W f E a0 rest :
  access_body W f E (a0 :: rest) =
  sel (object_key a0)
      (let '(c, n) := value_access (va_need (ec_imports E) rest) (ec_imports E) rest in add_err n ;;; ret c)
      (let '(c, n) := value_access (va_need (ec_context E) rest) (ec_context E) rest in add_err n ;;; ret c)
      (walk W f E (EObj (ec_values E)) false (ec_base E) (ec_name E, []) (a0 :: rest)).
Proof. reflexivity. Qed.

(* ---- no_ctx on selected sub-expressions ---- *)
Lemma no_ctx_nth l i : forallb no_ctx l = true -> no_ctx (nth i l EMissing) = true.
Proof.
  revert i. induction l as [|e r IH]; intros [|i] H; try reflexivity; cbn [forallb] in H; apply andb_true_iff in H.
  - apply H.
  - apply IH, H.
Qed.

Lemma no_ctx_find_entry k l i j px :
  forallb (fun kv => no_ctx (snd kv)) l = true -> find_entry k l i = Some (j, px) -> no_ctx px = true.
Proof.
  revert i. induction l as [|[k' e] r IH]; intros i H E; [discriminate|]. cbn [forallb snd] in H. apply andb_true_iff in H.
  cbn [find_entry] in E. destruct (String.eqb k k'); [injection E as _ <-; apply H|]. exact (IH (S i) (proj2 H) E).
Qed.

Lemma no_ctx_sorted_decl (l : list (string * expr)) :
  forallb (fun kv => no_ctx (snd kv)) l = true ->
  Forall (fun ike : nat * string * expr => no_ctx (snd ike) = true) (sort_entries (fst (declared l O []))).
Proof.
  intros H. rewrite forallb_forall in H. apply Forall_forall. intros ike Hin.
  apply (Permutation_in _ (sort_entries_perm _)) in Hin. apply declared_In in Hin. exact (H _ Hin).
Qed.

Section EV.
Variables W1 W2 : world.
Variables CM CI : string -> Prop.
Variables B1 B2 : st.
Hypothesis HF1 : w_fault W1 = None.
Hypothesis HF2 : w_fault W2 = None.
Hypothesis HPv : w_provs W1 = w_provs W2.
Hypothesis HCk : w_check W1 = w_check W2.
Hypothesis HSh : w_show W1 = w_show W2.
Hypothesis HDc : forall n, CM n -> forall ct, w_decrypt W1 n ct = w_decrypt W2 n ct.

Notation mr := (mrel CM CI B1 B2 eq).

(* two evaluation contexts of the same environment: root and the value of `context` are free *)
Record E_sim (E1 E2 : ectx) : Prop := {
  es_name : ec_name E1 = ec_name E2;
  es_C : CM (ec_name E1);
  es_values : ec_values E1 = ec_values E2;
  es_base : ec_base E1 = ec_base E2;
  es_imports : ec_imports E1 = ec_imports E2;
  es_nc : forallb (fun kv => no_ctx (snd kv)) (ec_values E1) = true
}.

Definition P_expr (f : nat) : Prop := forall E1 E2 x xsec xbase id,
  E_sim E1 E2 -> fst id = ec_name E1 -> no_ctx x = true ->
  mr (eval_expr W1 f E1 x xsec xbase id) (eval_expr W2 f E2 x xsec xbase id).
Definition P_repr (f : nat) : Prop := forall E1 E2 x xbase id,
  E_sim E1 E2 -> fst id = ec_name E1 -> no_ctx x = true ->
  mr (eval_repr W1 f E1 x xbase id) (eval_repr W2 f E2 x xbase id).
Definition P_typed (f : nat) : Prop := forall E1 E2 x a id,
  E_sim E1 E2 -> fst id = ec_name E1 -> no_ctx x = true ->
  mrel CM CI B1 B2 eq (eval_typed W1 f E1 x a id) (eval_typed W2 f E2 x a id).
Definition P_access (f : nat) : Prop := forall E1 E2 p,
  E_sim E1 E2 -> path_no_ctx p = true -> mr (eval_access W1 f E1 p) (eval_access W2 f E2 p).
Definition P_walk (f : nat) : Prop := forall E1 E2 rx rsec rbase rid accs,
  E_sim E1 E2 -> fst rid = ec_name E1 -> no_ctx rx = true ->
  mr (walk W1 f E1 rx rsec rbase rid accs) (walk W2 f E2 rx rsec rbase rid accs).

Lemma idC E1 E2 (id : eid) : E_sim E1 E2 -> fst id = ec_name E1 -> CM (fst id).
Proof. intros HE ->. apply HE. Qed.

(* ---- loops ---- *)
Lemma rel_interp_go f E1 E2 : E_sim E1 E2 -> P_access f ->
  forall ps, forallb (fun tp : string * option path => match snd tp with Some p => path_no_ctx p | None => true end) ps = true ->
  forall acc unk sec, mr (interp_go W1 f E1 ps acc unk sec) (interp_go W2 f E2 ps acc unk sec).
Proof.
  intros HE HA. induction ps as [|[text [p|]] r IH]; intros Hnc acc unk sec.
  - rewrite !interp_go_nil. now apply rel_ret.
  - cbn [forallb snd] in Hnc. apply andb_true_iff in Hnc. destruct Hnc as [Hp Hr].
    rewrite !interp_go_ref. apply rel_bind_eq; [now apply HA|]. intros pv.
    destruct (to_string (ts_need pv) pv) as [[s u] sc]. now apply IH.
  - cbn [forallb snd] in Hnc. rewrite !interp_go_text. now apply IH.
Qed.

Lemma rel_arr_go f E1 E2 id : E_sim E1 E2 -> fst id = ec_name E1 -> P_expr f ->
  forall es, forallb no_ctx es = true -> forall i acc, mr (arr_go W1 f E1 id es i acc) (arr_go W2 f E2 id es i acc).
Proof.
  intros HE Hid HP. induction es as [|e r IH]; intros Hnc i acc.
  - rewrite !arr_go_nil. now apply rel_ret.
  - cbn [forallb] in Hnc. apply andb_true_iff in Hnc. destruct Hnc as [He Hr].
    rewrite !arr_go_cons. apply rel_bind_eq; [now apply HP|]. intros v. now apply IH.
Qed.

Lemma rel_obj_go f E1 E2 xbase id : E_sim E1 E2 -> fst id = ec_name E1 -> P_expr f ->
  forall ds, Forall (fun ike : nat * string * expr => no_ctx (snd ike) = true) ds ->
  forall acc, mr (obj_go W1 f E1 xbase id ds acc) (obj_go W2 f E2 xbase id ds acc).
Proof.
  intros HE Hid HP. induction ds as [|[[i k] e] r IH]; intros Hnc acc.
  - rewrite !obj_go_nil. now apply rel_ret.
  - inversion Hnc as [|? ? He Hr]; subst. cbn [snd] in He.
    rewrite !obj_go_cons. apply rel_bind_eq; [now apply HP|]. intros v. now apply IH.
Qed.

(* ---- tails of the builtins: the same function of the same arguments on both sides ---- *)
Lemma rel_join_tail dr vr : mr (join_tail dr vr) (join_tail dr vr).
Proof. unfold join_tail. rel_tac. Qed.
Lemma rel_fromb64_tail r : mr (fromb64_tail r) (fromb64_tail r).
Proof. unfold fromb64_tail. rel_tac. Qed.
Lemma rel_tob64_tail r : mr (tob64_tail r) (tob64_tail r).
Proof. unfold tob64_tail. rel_tac. Qed.
Lemma rel_fromjson_tail r : mr (fromjson_tail r) (fromjson_tail r).
Proof. unfold fromjson_tail. rel_tac. Qed.
Lemma rel_tojson_tail v : mr (tojson_tail v) (tojson_tail v).
Proof. unfold tojson_tail. rel_tac. Qed.
Lemma rel_tostring_tail v : mr (tostring_tail v) (tostring_tail v).
Proof. unfold tostring_tail. rel_tac. Qed.

Lemma rel_cipher_body E1 E2 repr : E_sim E1 E2 -> mr (cipher_body W1 E1 repr) (cipher_body W2 E2 repr).
Proof.
  intros HE. unfold cipher_body. rewrite <- HCk, <- HSh, <- (es_name _ _ HE).
  destruct (decode_ct _ repr) as [ct| | | | | |]; try (apply rel_err; now apply rel_ret).
  destruct (w_check W1 && negb (w_show W1)); [now apply rel_ret|].
  apply rel_call; [exact HF1|exact HF2|]. apply rel_emit; [constructor|].
  rewrite <- (HDc _ (es_C _ _ HE) ct). destruct (w_decrypt W1 (ec_name E1) ct); [now apply rel_ret|].
  apply rel_err. now apply rel_ret.
Qed.

Lemma rel_open_tail E1 E2 id pname prov r :
  E_sim E1 E2 -> mr (open_tail W1 E1 id pname prov r) (open_tail W2 E2 id pname prov r).
Proof.
  intros HE. unfold open_tail. rewrite <- HCk, <- (es_name _ _ HE). destruct r as [iv ok].
  destruct prov as [p|]; [|now apply rel_ret].
  destruct (negb ok || contains_unknowns iv || w_check W1); [now apply rel_ret|].
  destruct (export_t iv) as [[s u sc|s u l|s u m]|].
  - apply rel_err. now apply rel_ret.
  - apply rel_err. now apply rel_ret.
  - apply rel_call; [exact HF1|exact HF2|]. apply rel_emit; [constructor|].
    destruct (pv_beh p); try now apply rel_ret. apply rel_err. now apply rel_ret.
  - apply rel_oof. now apply rel_ret.
Qed.

(* ---- one fuel step of the five functions ---- *)
Lemma step_expr f : P_repr f -> P_expr (S f).
Proof.
  intros HR E1 E2 x xsec xbase id HE Hid Hx. rewrite !eval_expr_S.
  apply rel_get_memo; [exact (idC _ _ _ HE Hid)|]. intros [[v|]|].
  - now apply rel_ret.
  - apply rel_err. now apply rel_ret.
  - apply rel_memo_set; [exact (idC _ _ _ HE Hid)|]. apply rel_bind_eq; [now apply HR|]. intros v. cbv zeta.
    apply rel_memo_set; [exact (idC _ _ _ HE Hid)|]. now apply rel_ret.
Qed.

Lemma step_typed f : P_expr f -> P_typed (S f).
Proof.
  intros HP E1 E2 x a id HE Hid Hx. rewrite !eval_typed_S. apply rel_bind_eq; [now apply HP|]. intros v.
  destruct (validate a v) as [ok n]. apply rel_add_err. now apply rel_ret.
Qed.

Lemma step_access f : P_walk f -> P_access (S f).
Proof.
  intros HWk E1 E2 p HE Hp. rewrite !eval_access_S. destruct p as [|a0 rest]; [now apply rel_ret|].
  rewrite !access_body_sel, !sel_spec. cbn [path_no_ctx] in Hp.
  destruct (object_key a0) as [k|].
  - destruct (String.eqb k "imports").
    + rewrite <- (es_imports _ _ HE). destruct (value_access (va_need (ec_imports E1) rest) (ec_imports E1) rest) as [c n].
      apply rel_add_err. now apply rel_ret.
    + apply negb_true_iff in Hp. rewrite Hp.
      rewrite <- (es_name _ _ HE), <- (es_values _ _ HE), <- (es_base _ _ HE).
      apply HWk; [exact HE|reflexivity|]. cbn [no_ctx]. apply HE.
  - rewrite <- (es_name _ _ HE), <- (es_values _ _ HE), <- (es_base _ _ HE).
    apply HWk; [exact HE|reflexivity|]. cbn [no_ctx]. apply HE.
Qed.

Lemma rel_value_tail (v : chain) (accs : path) :
  mr (let '(c, n) := value_access (va_need v accs) v accs in add_err n ;;; ret c)
     (let '(c, n) := value_access (va_need v accs) v accs in add_err n ;;; ret c).
Proof. destruct (value_access (va_need v accs) v accs) as [c n]. apply rel_add_err. now apply rel_ret. Qed.

Lemma step_walk f : P_expr f -> P_walk f -> P_walk (S f).
Proof.
  intros HP HWk E1 E2 rx rsec rbase rid accs HE Hid Hx. rewrite !walk_S. unfold walk_body.
  destruct accs as [|a rest]; [now apply HP|].
  assert (Dflt : mr (v <- eval_expr W1 f E1 rx rsec rbase rid ;; let '(c, n) := value_access (va_need v (a :: rest)) v (a :: rest) in add_err n ;;; ret c)
                    (v <- eval_expr W2 f E2 rx rsec rbase rid ;; let '(c, n) := value_access (va_need v (a :: rest)) v (a :: rest) in add_err n ;;; ret c)).
  { apply rel_bind_eq; [now apply HP|]. intros v. apply rel_value_tail. }
  destruct rx; try exact Dflt.
  - (* EArr *)
    destruct (array_index a (Z.of_nat (length l))) as [i|]; [|apply rel_err; now apply rel_ret].
    apply HWk; [exact HE|exact Hid|]. cbn [no_ctx] in Hx. now apply no_ctx_nth.
  - (* EObj *)
    destruct (object_key a) as [k|]; [|apply rel_err; now apply rel_ret].
    destruct (find_entry k l 0) as [[j px]|] eqn:Ef.
    + apply HWk; [exact HE|exact Hid|]. cbn [no_ctx] in Hx. exact (no_ctx_find_entry _ _ _ _ _ Hx Ef).
    + destruct (is_object rbase); [apply rel_value_tail|apply rel_err; now apply rel_ret].
  - (* ESecretPlain *) apply HWk; [exact HE|exact Hid|reflexivity].
  - (* ESecretCipher *) apply rel_err. now apply rel_ret.
Qed.

Lemma step_repr f : P_expr f -> P_typed f -> P_access f -> P_repr (S f).
Proof.
  intros HP HT HA E1 E2 x xbase id HE Hid Hx. rewrite !eval_repr_S.
  destruct x as [|b|t|s|parts|p|l|l|d vs|e|e|e|e|e|s|repr|pname inputs|]; cbn [repr_body]; cbn [no_ctx] in Hx; try (now apply rel_ret).
  - (* EInterp *) now apply rel_interp_go.
  - (* ESym *) now apply HA.
  - (* EArr *) now apply rel_arr_go.
  - (* EObj *)
    pose proof (no_ctx_sorted_decl l Hx) as Hd. destruct (declared l 0 []) as [decl dups]. cbn [fst] in Hd.
    apply rel_add_err. now apply rel_obj_go.
  - (* EJoin *)
    apply andb_true_iff in Hx. destruct Hx as [Hx1 Hx2].
    apply rel_bind_eq; [now apply HT|]. intros dr. apply rel_bind_eq; [now apply HT|]. intros vr. apply rel_join_tail.
  - (* EToJSON *) apply rel_bind_eq; [now apply HP|]. intros v. apply rel_tojson_tail.
  - (* EFromJSON *) apply rel_bind_eq; [now apply HT|]. intros r. apply rel_fromjson_tail.
  - (* EToString *) apply rel_bind_eq; [now apply HP|]. intros v. apply rel_tostring_tail.
  - (* EToB64 *) apply rel_bind_eq; [now apply HT|]. intros r. apply rel_tob64_tail.
  - (* EFromB64 *) apply rel_bind_eq; [now apply HT|]. intros r. apply rel_fromb64_tail.
  - (* ESecretPlain *) now apply HP.
  - (* ESecretCipher *) now apply rel_cipher_body.
  - (* EOpen *)
    unfold open_body. apply rel_call; [exact HF1|exact HF2|]. apply rel_emit; [constructor|].
    rewrite <- HPv. destruct (alookup pname (w_provs W1)) as [p|].
    + apply (rel_bind CM CI B1 B2 eq); [now apply rel_ret|]. intros _ _ _.
      apply rel_bind_eq; [now apply HT|]. intros r. now apply rel_open_tail.
    + apply rel_err. apply rel_bind_eq; [now apply HT|]. intros r. now apply rel_open_tail.
Qed.

Theorem eval_two_runs : forall f, P_expr f /\ P_repr f /\ P_typed f /\ P_access f /\ P_walk f.
Proof.
  induction f as [|f (IHe & IHr & IHt & IHa & IHw)].
  - repeat apply conj; red; intros.
    + rewrite !eval_expr_O. apply rel_fail_oof.
    + rewrite !eval_repr_O. apply rel_fail_oof.
    + rewrite !eval_typed_O. apply rel_fail_oof.
    + rewrite !eval_access_O. apply rel_fail_oof.
    + rewrite !walk_O. apply rel_fail_oof.
  - repeat apply conj.
    + now apply step_expr.
    + now apply step_repr.
    + now apply step_typed.
    + now apply step_access.
    + now apply step_walk.
Qed.

End EV.
