(* Proofs/NonInterferenceBuiltins.v — C03, stage 3: the relational toolkit for two runs of the state monad and the
   one-step lemmas of the builtins (what each builtin does with related, already evaluated arguments). *)
From Verif Require Import Base.Bytes Model.Chain Model.GoText Model.Envelope Model.Eval Model.Redact.
From Verif Require Import Proofs.NonInterferenceRel Proofs.NonInterferenceOps Proofs.NonInterferenceTwins Proofs.NonInterferenceMono.
From Verif Require Proofs.HelperFuel.
From Verif Require Import Proofs.RefSem2Depth.
From Coq Require Import Lia ZifyN ZifyNat ZifyBool.

Notation lo_c := (Forall2 lo_l).

(* ------------------------------------------------------------------------------------------------ *)
(* related states                                                                                   *)
(* ------------------------------------------------------------------------------------------------ *)
Inductive ev_lo : ev -> ev -> Prop :=
| ev_lo_load n : ev_lo (EvLoad n) (EvLoad n)
| ev_lo_prov n : ev_lo (EvLoadProvider n) (EvLoadProvider n)
| ev_lo_open id p x1 x2 r c : lo_strict x1 x2 -> ev_lo (EvOpen id p x1 r c) (EvOpen id p x2 r c)
| ev_lo_dec e ct : ev_lo (EvDecrypt e ct) (EvDecrypt e ct).

Definition memo_entry_lo (a b : eid * option chain) : Prop := fst a = fst b /\ opt_rel lo_c (snd a) (snd b).

Definition imp_lo (a b : imp_state) : Prop :=
  is_evaluating a = is_evaluating b /\ opt_rel lo_c (is_value a) (is_value b).

(* memo tables and import tables related entry by entry, logs related up to secret payloads (the inputs passed
   to providers), the same number of collaborator calls.  Diagnostics and fuel are handled by [good]:
   two good states have equal (zero) [nerr] and equal (false) [oof]. *)
Record srel (s1 s2 : st) : Prop := {
  sr_memo : Forall2 memo_entry_lo (memo s1) (memo s2);
  sr_imps : Forall2 (kv_rel imp_lo) (imps s1) (imps s2);
  sr_log : Forall2 ev_lo (log s1) (log s2);
  sr_calls : calls s1 = calls s2
}.

Lemma good_eq s1 s2 : good s1 -> good s2 -> nerr s1 = nerr s2 /\ oof s1 = oof s2.
Proof. intros [A B] [C D]. split; congruence. Qed.

Definition mrel {A B} (R : A -> B -> Prop) (m1 : M A) (m2 : M B) : Prop :=
  forall s1 s2, srel s1 s2 -> good (snd (m1 s1)) -> good (snd (m2 s2)) ->
                R (fst (m1 s1)) (fst (m2 s2)) /\ srel (snd (m1 s1)) (snd (m2 s2)).

Lemma rel_ret {A B} (R : A -> B -> Prop) a b : R a b -> mrel R (ret a) (ret b).
Proof. intros H s1 s2 Hs _ _. split; auto. Qed.

Lemma rel_bind {A B A' B'} (R : A -> B -> Prop) (R' : A' -> B' -> Prop) m1 m2 k1 k2 :
  mrel R m1 m2 -> (forall a, mono (k1 a)) -> (forall b, mono (k2 b)) ->
  (forall a b, R a b -> mrel R' (k1 a) (k2 b)) -> mrel R' (bind m1 k1) (bind m2 k2).
Proof.
  intros Hm M1 M2 Hk s1 s2 Hs G1 G2. unfold bind in *.
  specialize (Hm s1 s2 Hs). destruct (m1 s1) as [a s1'], (m2 s2) as [b s2']. simpl in Hm.
  destruct Hm as [Hab Hs']; [eapply M1, G1|eapply M2, G2|]. now apply Hk.
Qed.

Lemma rel_conseq {A B} (R R' : A -> B -> Prop) m1 m2 : (forall a b, R a b -> R' a b) -> mrel R m1 m2 -> mrel R' m1 m2.
Proof. intros H Hm s1 s2 Hs G1 G2. destruct (Hm s1 s2 Hs G1 G2). split; auto. Qed.

(* a run that certainly leaves a diagnostic (or runs out of fuel) is outside the property *)
Definition never_good {A} (m : M A) : Prop := forall s, ~ good (snd (m s)).

Lemma ng_bind_err {A} (k : unit -> M A) : (forall a, mono (k a)) -> never_good (bind err k).
Proof. intros Hk s G. unfold bind in G. simpl in G. apply Hk in G. destruct G as [G _]. simpl in G. lia. Qed.

Lemma ng_bind_oof {A} (k : unit -> M A) : (forall a, mono (k a)) -> never_good (bind out_of_fuel k).
Proof. intros Hk s G. unfold bind in G. simpl in G. apply Hk in G. destruct G as [_ G]. simpl in G. discriminate. Qed.

Lemma ng_bind_add_err {A} n (k : unit -> M A) : n <> 0 -> (forall a, mono (k a)) -> never_good (bind (add_err n) k).
Proof. intros Hn Hk s G. unfold bind in G. simpl in G. apply Hk in G. destruct G as [G _]. simpl in G. lia. Qed.

Lemma rel_ng_l {A B} (R : A -> B -> Prop) m1 m2 : never_good m1 -> mrel R m1 m2.
Proof. intros H s1 s2 _ G. now apply H in G. Qed.

Lemma rel_ng_r {A B} (R : A -> B -> Prop) m1 m2 : never_good m2 -> mrel R m1 m2.
Proof. intros H s1 s2 _ _ G. now apply H in G. Qed.

Ltac ng_tac :=
  first [ apply rel_ng_l; first [apply ng_bind_err | apply ng_bind_oof]; intro; mono_tac
        | apply rel_ng_r; first [apply ng_bind_err | apply ng_bind_oof]; intro; mono_tac ].

Lemma rel_add_err {A B} (R : A -> B -> Prop) n k1 k2 :
  mrel R (k1 tt) (k2 tt) -> mrel R (bind (add_err n) k1) (bind (add_err n) k2).
Proof.
  intros Hk s1 s2 Hs G1 G2. unfold bind in *. simpl in *. apply Hk; auto.
  destruct Hs; constructor; auto.
Qed.

Lemma rel_emit {A B} (R : A -> B -> Prop) e1 e2 k1 k2 :
  ev_lo e1 e2 -> mrel R (k1 tt) (k2 tt) -> mrel R (bind (emit e1) k1) (bind (emit e2) k2).
Proof.
  intros He Hk s1 s2 Hs G1 G2. unfold bind in *. simpl in *. apply Hk; auto.
  destruct Hs; constructor; simpl; auto.
Qed.

Lemma rel_call {A B} (R : A -> B -> Prop) W1 W2 k1 k2 :
  w_fault W1 = w_fault W2 -> (forall b, mrel R (k1 b) (k2 b)) -> mrel R (bind (call W1) k1) (bind (call W2) k2).
Proof.
  intros HW Hk s1 s2 Hs G1 G2. unfold bind in *. simpl in *. rewrite HW, (sr_calls _ _ Hs) in *.
  apply Hk; auto. destruct Hs; constructor; simpl; auto; congruence.
Qed.

Lemma memo_get_rel id m1 m2 : Forall2 memo_entry_lo m1 m2 -> opt_rel (opt_rel lo_c) (memo_get id m1) (memo_get id m2).
Proof.
  induction 1 as [|[k1 v1] [k2 v2] m1 m2 [E HR] _ IH]; simpl; [exact I|].
  simpl in E; subst k2. destruct (eid_eqb id k1); [exact HR|exact IH].
Qed.

Lemma rel_get_memo {A B} (R : A -> B -> Prop) id k1 k2 :
  (forall a b, opt_rel (opt_rel lo_c) a b -> mrel R (k1 a) (k2 b)) -> mrel R (bind (get_memo id) k1) (bind (get_memo id) k2).
Proof.
  intros Hk s1 s2 Hs G1 G2. unfold bind in *. simpl in *. apply Hk; auto. apply memo_get_rel, Hs.
Qed.

Lemma rel_memo_set {A B} (R : A -> B -> Prop) id v1 v2 k1 k2 :
  opt_rel lo_c v1 v2 -> mrel R (k1 tt) (k2 tt) -> mrel R (bind (memo_set id v1) k1) (bind (memo_set id v2) k2).
Proof.
  intros Hv Hk s1 s2 Hs G1 G2. unfold bind in *. simpl in *. apply Hk; auto.
  destruct Hs; constructor; simpl; auto. constructor; [split; auto|auto].
Qed.

Lemma rel_imps_get {A B} (R : A -> B -> Prop) n k1 k2 :
  (forall a b, opt_rel imp_lo a b -> mrel R (k1 a) (k2 b)) -> mrel R (bind (imps_get n) k1) (bind (imps_get n) k2).
Proof.
  intros Hk s1 s2 Hs G1 G2. unfold bind in *. simpl in *. apply Hk; auto. apply alookup_rel, Hs.
Qed.

Lemma rel_imps_set {A B} (R : A -> B -> Prop) n v1 v2 k1 k2 :
  imp_lo v1 v2 -> mrel R (k1 tt) (k2 tt) -> mrel R (bind (imps_set n v1) k1) (bind (imps_set n v2) k2).
Proof.
  intros Hv Hk s1 s2 Hs G1 G2. unfold bind in *. simpl in *. apply Hk; auto.
  destruct Hs; constructor; simpl; auto. constructor; [split; auto|auto].
Qed.

(* ------------------------------------------------------------------------------------------------ *)
(* related worlds                                                                                   *)
(* ------------------------------------------------------------------------------------------------ *)
Definition beh_lo (b1 b2 : pbehaviour) : Prop :=
  match b1, b2 with
  | PEcho, PEcho => True
  | PConst v1, PConst v2 => lo_equiv v1 v2
  | PFail, PFail => True
  | _, _ => False
  end.

Definition prov_lo (p1 p2 : provider) : Prop :=
  pv_in p1 = pv_in p2 /\ pv_out p1 = pv_out p2 /\ beh_lo (pv_beh p1) (pv_beh p2).

(* typed results *)
Definition tr_rel (r1 r2 : chain * bool) : Prop := lo_c (fst r1) (fst r2) /\ snd r1 = snd r2.

(* ------------------------------------------------------------------------------------------------ *)
(* public parts of related chains are equal                                                         *)
(* ------------------------------------------------------------------------------------------------ *)
Definition bf' : nat := Nat.pred big_fuel.
Lemma big_fuel_S : big_fuel = S bf'.
Proof. reflexivity. Qed.
Definition bf'' : nat := Nat.pred bf'.
Lemma bf'_S : bf' = S bf''.
Proof. reflexivity. Qed.

(* conversion problems whose scrutinee is [export big_fuel _] make the kernel unfold the 4096-deep numeral:
   always REWRITE with the lemmas below instead of unfolding *)
Lemma cs_eq c : contains_secrets c = match export_t c with Some v => x_has_secret v | None => true end.
Proof. unfold contains_secrets. reflexivity. Qed.
Lemma cu_eq c : contains_unknowns c = match export_t c with Some v => x_has_unknown v | None => true end.
Proof. unfold contains_unknowns. reflexivity. Qed.

(* the exports of the two runs, read at ONE fuel (two successors are visible: arrays of strings are read two levels deep) *)
Definition g2 (c1 c2 : chain) : nat := Nat.max (cdepth c1) (cdepth c2).
Lemma export_t_g_l c1 c2 : export_t c1 = export (S (S (g2 c1 c2))) c1.
Proof. apply export_t_at. unfold g2. lia. Qed.
Lemma export_t_g_r c1 c2 : export_t c2 = export (S (S (g2 c1 c2))) c2.
Proof. apply export_t_at. unfold g2. lia. Qed.
Lemma export_S_scalar f sec unk sc s r : export (S f) (LScalar sec unk sc s :: r) = Some (XScalar sec unk s).
Proof. reflexivity. Qed.
Lemma export_S_arr f sec unk sc e r :
  export (S f) (LArr sec unk sc e :: r) = match mapM (export f) e with Some l => Some (XArr sec unk l) | None => None end.
Proof. reflexivity. Qed.

Lemma public_export_eq c1 c2 : lo_c c1 c2 -> contains_secrets c1 = false ->
  exists xv, export (S (S (g2 c1 c2))) c1 = Some xv /\ export (S (S (g2 c1 c2))) c2 = Some xv
             /\ export_t c1 = Some xv /\ export_t c2 = Some xv.
Proof.
  intros H Hs. rewrite cs_eq in Hs. rewrite (export_t_g_l c1 c2) in *. rewrite (export_t_g_r c1 c2).
  pose proof (export_lo (S (S (g2 c1 c2))) _ _ H) as HE.
  destruct (export (S (S (g2 c1 c2))) c1) as [x1|]; [|discriminate].
  destruct (export (S (S (g2 c1 c2))) c2) as [x2|]; [|contradiction].
  rewrite (no_secret_eq' _ _ _ Hs HE). eauto.
Qed.

Definition head_str (c : chain) : string := match c with LScalar _ _ _ (SStr s) :: _ => s | _ => "" end.

Lemma head_str_export f c1 c2 : lo_c c1 c2 -> export (S f) c1 = export (S f) c2 -> head_str c1 = head_str c2.
Proof.
  intros H E. destruct H as [|l1 l2 c1 c2 Hl Hc]; [reflexivity|].
  destruct Hl as [sec unk sc a b Hs| |]; try reflexivity.
  rewrite !export_S_scalar in E. injection E as E. subst b. reflexivity.
Qed.

Lemma head_str_lo c1 c2 : lo_c c1 c2 -> contains_secrets c1 = false -> head_str c1 = head_str c2.
Proof.
  intros H Hs. destruct (public_export_eq _ _ H Hs) as (xv & E1 & E2 & _).
  apply (head_str_export (S (g2 c1 c2))); [exact H|congruence].
Qed.

Lemma mapM_Some_inv {A B} (g : A -> option B) l : forall r, mapM g l = Some r -> Forall2 (fun a y => g a = Some y) l r.
Proof.
  induction l as [|a l IH]; simpl; intros r E; [injection E as <-; constructor|].
  destruct (g a) eqn:Ea; [|discriminate]. destruct (mapM g l); [|discriminate]. injection E as <-. constructor; auto.
Qed.

Lemma elems_str_lo sec1 unk1 sc1 e1 r1 sec2 unk2 sc2 e2 r2 :
  Forall2 lo_c e1 e2 ->
  forall f xv, export (S (S f)) (LArr sec1 unk1 sc1 e1 :: r1) = Some xv -> export (S (S f)) (LArr sec2 unk2 sc2 e2 :: r2) = Some xv ->
  map head_str e1 = map head_str e2.
Proof.
  intros He f xv E1 E2. rewrite export_S_arr in E1, E2.
  destruct (mapM (export (S f)) e1) as [x1|] eqn:M1; [|discriminate].
  destruct (mapM (export (S f)) e2) as [x2|] eqn:M2; [|discriminate].
  assert (x1 = x2) by congruence. subst x2.
  apply mapM_Some_inv in M1. apply mapM_Some_inv in M2. clear E1 E2.
  revert x1 M1 M2. induction He as [|a b e1 e2 Hab _ IH]; intros x1 M1 M2; [reflexivity|].
  inversion M1; subst. inversion M2; subst. simpl. f_equal; [|eapply IH; eassumption].
  apply (head_str_export f); [exact Hab|congruence].
Qed.

(* ------------------------------------------------------------------------------------------------ *)
(* Stage 3: the builtins, one step each                                                             *)
(* ------------------------------------------------------------------------------------------------ *)
Lemma lo_c_single l1 l2 : lo_l l1 l2 -> lo_c [l1] [l2].
Proof. intros; constructor; [assumption|constructor]. Qed.

Lemma str_layer_lo sec unk a b : (sec = false -> a = b) -> lo_c [str_layer sec unk a] [str_layer sec unk b].
Proof. intros H. apply lo_c_single. constructor. exact H. Qed.

Ltac rel_refl := apply rel_ret; apply lo_c_refl.

(* fn::join *)
Theorem join_lo dr1 dr2 vr1 vr2 : tr_rel dr1 dr2 -> tr_rel vr1 vr2 -> mrel lo_c (join_tail dr1 vr1) (join_tail dr2 vr2).
Proof.
  destruct dr1 as [dv1 dok], dr2 as [dv2 dok2], vr1 as [vv1 vok], vr2 as [vv2 vok2].
  intros [Hd E1] [Hv E2]. cbn [fst snd] in *. subst dok2 vok2. unfold join_tail.
  destruct (negb dok || negb vok); [rel_refl|].
  unfold combine2. rewrite (contains_unknowns_lo _ _ Hd), (contains_unknowns_lo _ _ Hv),
    (contains_secrets_lo _ _ Hd), (contains_secrets_lo _ _ Hv).
  destruct (contains_unknowns dv2 || contains_unknowns vv2); [rel_refl|].
  apply rel_ret. apply str_layer_lo. intros Hsec. apply Bool.orb_false_elim in Hsec. destruct Hsec as [Sd Sv].
  rewrite <- (contains_secrets_lo _ _ Hd) in Sd. rewrite <- (contains_secrets_lo _ _ Hv) in Sv.
  fold (head_str dv1) (head_str dv2). rewrite (head_str_lo _ _ Hd Sd). f_equal.
  destruct (public_export_eq _ _ Hv Sv) as (xv & X1 & X2 & _). revert X1 X2. generalize (g2 vv1 vv2). intros g X1 X2.
  destruct Hv as [|l1 l2 c1 c2 Hl Hc]; [reflexivity|]. destruct Hl as [| sec unk sc e1 e2 He |]; try reflexivity.
  exact (elems_str_lo _ _ _ _ _ _ _ _ _ _ He g xv X1 X2).
Qed.

(* fn::toBase64 *)
Theorem tob64_lo r1 r2 : tr_rel r1 r2 -> mrel lo_c (tob64_tail r1) (tob64_tail r2).
Proof.
  destruct r1 as [v1 ok], r2 as [v2 ok2]. intros [Hv E]. cbn [fst snd] in *. subst ok2. unfold tob64_tail.
  destruct (negb ok); [rel_refl|].
  pose proof (head_str_lo _ _ Hv) as HS.
  rewrite (contains_unknowns_lo _ _ Hv), (contains_secrets_lo _ _ Hv) in *.
  destruct (contains_unknowns v2); [rel_refl|].
  destruct Hv as [|l1 l2 c1 c2 Hl Hc]; [rel_refl|]. destruct Hl as [sec unk sc a b Hs| |]; try rel_refl.
  destruct a, b; simpl in Hs; try contradiction; try rel_refl.
  apply rel_ret, str_layer_lo. intros E. cbn [head_str] in HS. now rewrite (HS E).
Qed.

(* fn::fromBase64: on a SECRET argument the decoder may fail in one run only; that run then has a diagnostic,
   which [mrel] excludes (both final states good) *)
Theorem fromb64_lo r1 r2 : tr_rel r1 r2 -> mrel lo_c (fromb64_tail r1) (fromb64_tail r2).
Proof.
  destruct r1 as [v1 ok], r2 as [v2 ok2]. intros [Hv E]. cbn [fst snd] in *. subst ok2. unfold fromb64_tail.
  destruct (negb ok); [rel_refl|].
  pose proof (head_str_lo _ _ Hv) as HS.
  rewrite (contains_unknowns_lo _ _ Hv), (contains_secrets_lo _ _ Hv) in *.
  destruct (contains_unknowns v2); [rel_refl|].
  destruct Hv as [|l1 l2 c1 c2 Hl Hc]; [rel_refl|]. destruct Hl as [sec unk sc a b Hs| |]; try rel_refl.
  destruct a, b; simpl in Hs; try contradiction; try rel_refl. cbn [head_str] in HS.
  destruct (b64_decode s) as [d1|] eqn:D1; [|ng_tac].
  destruct (b64_decode s0) as [d2|] eqn:D2; [|ng_tac].
  apply rel_ret, str_layer_lo. intros E. rewrite (HS E) in D1. congruence.
Qed.

(* fn::toJSON *)
Theorem tojson_lo v1 v2 : lo_c v1 v2 -> mrel lo_c (tojson_tail v1) (tojson_tail v2).
Proof.
  intros Hv. unfold tojson_tail.
  pose proof (public_export_eq _ _ Hv) as HP. pose proof (export_lo big_fuel _ _ Hv) as HE.
  rewrite (contains_unknowns_lo _ _ Hv), (contains_secrets_lo _ _ Hv) in *.
  destruct (contains_unknowns v2); [rel_refl|].
  destruct (contains_secrets v2) eqn:Sec.
  - destruct (export big_fuel v1) as [x1|]; [|ng_tac]. destruct (export big_fuel v2) as [x2|]; [|ng_tac].
    cbv zeta.
    match goal with |- mrel _ (if ?a then _ else _) _ => destruct a end; [|ng_tac].
    match goal with |- mrel _ _ (if ?a then _ else _) => destruct a end; [|ng_tac].
    apply rel_ret, str_layer_lo. discriminate.
  - destruct (export big_fuel v1) as [x1|] eqn:E1; [|ng_tac]. destruct (export big_fuel v2) as [x2|] eqn:E2; [|ng_tac].
    destruct (HP eq_refl) as (xv & _ & _ & X1 & X2).
    rewrite (export_t_big _ _ E1) in X1. rewrite (export_t_big _ _ E2) in X2. injection X1 as ->. injection X2 as ->. cbv zeta.
    match goal with |- mrel _ (if ?a then _ else _) _ => destruct a end; [rel_refl|ng_tac].
Qed.

(* fn::toString *)
Theorem tostring_lo v1 v2 : lo_c v1 v2 -> mrel lo_c (tostring_tail v1) (tostring_tail v2).
Proof.
  intros Hv. unfold tostring_tail.
  rewrite (HelperFuel.to_string_need_max v1 (ts_need v2)), (HelperFuel.to_string_need_max' v2 (ts_need v1)).
  pose proof (to_string_lo (Nat.max (ts_need v1) (ts_need v2)) _ _ Hv) as HT.
  destruct (to_string (Nat.max (ts_need v1) (ts_need v2)) v1) as [[s1 u1] k1],
           (to_string (Nat.max (ts_need v1) (ts_need v2)) v2) as [[s2 u2] k2].
  destruct HT as (Eu & Ek & Es). cbn [fst snd] in *. subst u2 k2. destruct u1; [rel_refl|].
  apply rel_ret, str_layer_lo, Es.
Qed.

(* unexport at the fuel the evaluator computes from each value (Proofs/HelperFuel.v: both can be read at one fuel) *)
Lemma unexport_need_lo xs v1 v2 :
  lo_under xs v1 v2 -> lo_c (unexport (S (x_depth v1)) xs v1) (unexport (S (x_depth v2)) xs v2).
Proof.
  intros H. rewrite (HelperFuel.unexport_need_max xs v1 (S (x_depth v2))), (HelperFuel.unexport_need_max' xs v2 (S (x_depth v1))).
  apply unexport_lo, H.
Qed.

(* fn::fromJSON: a SECRET document may parse to different shapes in the two runs (or to null, which FromJSON
   leaves unflagged); the lemma needs the two documents to be low-equivalent JSON whenever both parse *)
Definition fj_ok (sec : bool) (s1 s2 : string) : Prop :=
  match json_parse s1, json_parse s2 with
  | JPOk j1, JPOk j2 => j_lo sec j1 j2
  | _, _ => True
  end.

Theorem fromjson_lo r1 r2 : tr_rel r1 r2 ->
  (contains_secrets (fst r1) = true -> fj_ok true (head_str (fst r1)) (head_str (fst r2))) ->
  mrel lo_c (fromjson_tail r1) (fromjson_tail r2).
Proof.
  destruct r1 as [v1 ok], r2 as [v2 ok2]. intros [Hv E] HJ. cbn [fst snd] in *. subst ok2. unfold fromjson_tail.
  destruct (negb ok); [rel_refl|].
  pose proof (head_str_lo _ _ Hv) as HS.
  rewrite (contains_unknowns_lo _ _ Hv), (contains_secrets_lo _ _ Hv) in *.
  destruct (contains_unknowns v2); [rel_refl|].
  destruct Hv as [|l1 l2 c1 c2 Hl Hc]; [rel_refl|]. destruct Hl as [sec unk sc a b Hs| |]; try rel_refl.
  destruct a, b; simpl in Hs; try contradiction; try rel_refl. cbn [head_str fst snd] in HS, HJ.
  set (k := contains_secrets (LScalar sec unk sc (SStr s0) :: c2)) in *.
  assert (HJ' : fj_ok k s s0).
  { destruct k; [now apply HJ|]. rewrite (HS eq_refl). unfold fj_ok. destruct (json_parse s0); auto. apply j_lo_refl. }
  unfold fj_ok in HJ'.
  destruct (json_parse s) as [j1| |]; [|ng_tac|ng_tac].
  destruct (json_parse s0) as [j2| |]; [|ng_tac|ng_tac].
  apply rel_ret. rewrite (json_depth_lo _ _ _ HJ'). apply unexport_need_lo.
  eapply lo_g_weaken; [| |apply json_to_x_lo, HJ']; auto.
Qed.

Section WORLDS.
Variables W1 W2 : world.
Hypothesis Hcheck : w_check W1 = w_check W2.
Hypothesis Hshow : w_show W1 = w_show W2.
Hypothesis Hfault : w_fault W1 = w_fault W2.
Hypothesis Hdec : forall e c, opt_rel (fun _ _ => True) (w_decrypt W1 e c) (w_decrypt W2 e c).

(* fn::secret with a ciphertext: the two decrypters may return different plaintexts *)
Theorem cipher_lo E1 E2 repr : ec_name E1 = ec_name E2 -> mrel lo_c (cipher_body W1 E1 repr) (cipher_body W2 E2 repr).
Proof.
  intros EN. unfold cipher_body. rewrite <- Hcheck, <- Hshow, <- EN.
  destruct (decode_ct _ repr) as [ct| | | | | |]; try (apply rel_add_err; rel_refl).
  destruct (w_check W1 && negb (w_show W1)); [rel_refl|].
  apply rel_call; [exact Hfault|]. intros failed. apply rel_emit; [constructor|].
  destruct failed; [apply rel_add_err; rel_refl|].
  specialize (Hdec (ec_name E1) ct).
  destruct (w_decrypt W1 (ec_name E1) ct), (w_decrypt W2 (ec_name E1) ct); simpl in Hdec; try contradiction.
  - apply rel_ret, str_layer_lo. discriminate.
  - apply rel_add_err; rel_refl.
Qed.

(* fn::open after the inputs have been evaluated: echo providers return the (related) inputs, constant
   providers return related outputs by assumption *)
Theorem open_lo E1 E2 id pn prov1 prov2 r1 r2 :
  ec_name E1 = ec_name E2 -> ec_root E1 = ec_root E2 -> opt_rel prov_lo prov1 prov2 -> tr_rel r1 r2 ->
  mrel lo_c (open_tail W1 E1 id pn prov1 r1) (open_tail W2 E2 id pn prov2 r2).
Proof.
  intros EN ER HP. destruct r1 as [v1 ok], r2 as [v2 ok2]. intros [Hv E]. cbn [fst snd] in *. subst ok2. unfold open_tail.
  destruct prov1 as [p1|], prov2 as [p2|]; simpl in HP; try contradiction; [|rel_refl].
  destruct HP as (_ & Eout & Hbeh). rewrite <- Hcheck, <- Eout, <- EN, <- ER.
  pose proof (export_lo (S (S (g2 v1 v2))) _ _ Hv) as HE.
  rewrite (contains_unknowns_lo _ _ Hv).
  destruct (negb ok || contains_unknowns v2 || w_check W1); [rel_refl|].
  rewrite (export_t_g_l v1 v2), (export_t_g_r v1 v2).
  destruct (export (S (S (g2 v1 v2))) v1) as [x1|], (export (S (S (g2 v1 v2))) v2) as [x2|]; simpl in HE; try contradiction; [|ng_tac].
  inversion HE as [inh s u a b Hs|inh s u l1 l2 Hl|inh s u m1 m2 Hm]; subst; try (apply rel_add_err; rel_refl).
  apply rel_call; [exact Hfault|]. intros failed2. apply rel_emit; [constructor; exact HE|].
  destruct failed2; [apply rel_add_err; rel_refl|].
  destruct (pv_beh p1), (pv_beh p2); simpl in Hbeh; try contradiction.
  - apply rel_ret, unexport_need_lo. apply lo_strict_equiv. exact HE.
  - apply rel_ret, unexport_need_lo. exact Hbeh.
  - apply rel_add_err; rel_refl.
Qed.
End WORLDS.
