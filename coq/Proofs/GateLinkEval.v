(* Proofs/GateLinkEval.v — the evaluator model's gate [validate (AccIn insch)] decides exactly as the oracle
   [Corr.C05.x_valid], hence as JSON Schema ([vspec]) and as the validator mirror ([vimpl]) on the schema
   [schema_of_in insch]; and what the two models say about diagnostics. *)
From Coq Require Import Lia ZifyN ZifyNat ZifyBool.
From Verif Require Import Base.Bytes Model.Chain Model.GoText Model.Envelope Model.Eval.
From Verif Require Model.Schema Model.Validate.
From Verif Require Corr.C05 Proofs.ValidateBase Proofs.ValidateProofs.
From Verif Require Import Proofs.EvalLogKit Proofs.EvalTotalOrder Proofs.EvalLog2Valid.
From Verif Require Proofs.EvalTotalFail.
From Verif Require Import Proofs.GateLinkDefs Proofs.GateLinkSpec.
From Verif Require Proofs.RefSem2Depth.

Lemma filter_all_false {A} (f : A -> bool) l : (forall x, In x l -> f x = false) -> filter f l = [].
Proof.
  induction l as [|a r IH]; intros H; [reflexivity|]. cbn. rewrite (H a (or_introl eq_refl)).
  apply IH. intros x Hx. apply H. now right.
Qed.

Lemma nodupb_NoDup l : Schema.nodupb l = true -> NoDup l.
Proof.
  induction l as [|a r IH]; intros H; [constructor|]. cbn in H. apply andb_true_iff in H. destruct H as [Hn H].
  constructor; [|exact (IH H)]. intros Hin. apply negb_true_iff in Hn.
  unfold Schema.mem in Hn. apply (proj2 (existsb_eqb_in a r)) in Hin. rewrite Hin in Hn. discriminate.
Qed.

(* ---- the converse of [gate_implies_oracle_valid] ---- *)
Theorem oracle_valid_implies_gate (insch : in_schema) (iv : chain) (xin : xval) :
  in_wf insch = true ->
  export_t iv = Some xin ->
  x_has_unknown xin = false ->
  C05.x_valid insch xin = true ->
  fst (validate (AccIn insch) iv) = true.
Proof.
  intros Hwf Hx Hu Hv. destruct insch as [|props required closed]; [reflexivity|].
  cbn [in_wf] in Hwf. apply nodupb_NoDup in Hwf.
  destruct xin as [xs xu xsc|xs xu xl|xs xu m]; try discriminate.
  apply RefSem2Depth.export_t_sound in Hx. remember (cdepth iv) as F eqn:HF. clear HF.
  destruct iv as [|l rest]; [cbn [export] in Hx; discriminate|].
  destruct l as [sec unk sc s|sec unk sc es|sec unk sc ps].
  { cbn [export] in Hx. discriminate. }
  { cbn [export] in Hx. destruct (mapM (export F) es); discriminate. }
  set (c := LObj sec unk sc ps :: rest) in *.
  unfold c in Hx. rewrite export_obj_S in Hx. fold c in Hx.
  set (ks := keys c) in *.
  match type of Hx with match mapM ?g ks with _ => _ end = _ => destruct (mapM g ks) as [m0|] eqn:Hm; [|discriminate] end.
  injection Hx as E1 E2 E3. subst xs xu m. rename m0 into m. apply mapM_Forall2 in Hm.
  pose proof (no_unknown_top _ Hu) as Htop. cbn [xtop_unk] in Htop. subst unk.
  unfold C05.x_valid in Hv. apply andb_true_iff in Hv. destruct Hv as [Hreq Hmem].
  rewrite forallb_forall in Hreq, Hmem.
  (* members of the exported object <-> keys of the chain *)
  assert (forall k v, In (k, v) m -> In k ks /\ export F (property k c) = Some v) as Hmk.
  { intros k v Hin. destruct (Forall2_in_r _ _ _ (k, v) Hm Hin) as (k' & Hk' & Hg).
    destruct (export F (property k' c)) as [v'|] eqn:E; [|discriminate]. injection Hg as -> ->. split; assumption. }
  assert (forall k, In k ks -> exists v, In (k, v) m /\ export F (property k c) = Some v) as Hkm.
  { intros k Hk. destruct (Forall2_in_l _ _ _ k Hm Hk) as ([k' v] & Hin & Hg).
    destruct (export F (property k c)) as [v'|] eqn:E; [|discriminate]. injection Hg as <- <-. exists v'. split; [exact Hin|reflexivity]. }
  unfold validate. change (l_unk (LObj sec false sc ps)) with false. cbv iota. cbv zeta. cbn [fst].
  fold c. fold ks.
  apply Nat.eqb_eq.
  match goal with |- (length ?a + length ?b + length ?d)%nat = _ =>
    assert (a = []) as ->; [|assert (b = []) as ->; [|assert (d = []) as ->; [|reflexivity]]] end.
  - (* no required key is missing *)
    apply filter_all_false. intros r Hr. apply negb_false_iff. apply existsb_eqb_in.
    specialize (Hreq r Hr). apply existsb_exists in Hreq. destruct Hreq as ([k v] & Hin & E).
    cbn [fst] in E. apply String.eqb_eq in E. subst k. exact (proj1 (Hmk r v Hin)).
  - (* no extra key if closed *)
    destruct closed; [|reflexivity]. apply filter_all_false. intros k Hk. apply negb_false_iff.
    destruct (Hkm k Hk) as (v & Hin & _). specialize (Hmem (k, v) Hin). cbn [fst snd] in Hmem.
    destruct (alookup k props) as [ty|] eqn:Hl; [|discriminate].
    apply existsb_exists. exists (k, ty). split; [apply alookup_in, Hl|cbn; apply String.eqb_refl].
  - (* every declared property that is present has its type *)
    apply filter_all_false. intros [k ty] Hp. cbn [fst snd].
    destruct (existsb (String.eqb k) ks) eqn:Hk; [|reflexivity]. cbn [andb]. apply negb_false_iff.
    apply existsb_eqb_in in Hk. destruct (Hkm k Hk) as (v & Hin & Hxp).
    specialize (Hmem (k, v) Hin). cbn [fst snd] in Hmem.
    rewrite (alookup_nodup k ty props Hwf Hp) in Hmem.
    pose proof (no_unknown_obj_children _ _ _ Hu (k, v) Hin) as Hc. cbn [snd] in Hc.
    destruct (property k c) as [|pl prest] eqn:Hpc.
    + exfalso. destruct F; [discriminate|]. cbn [export] in Hxp. injection Hxp as <-. discriminate.
    + rewrite <- (export_top_unk _ _ _ _ Hxp), Hc. rewrite <- (export_x_type _ _ _ _ Hxp). exact Hmem.
Qed.

(** ** the evaluator's gate decides exactly as the oracle *)
Theorem gate_is_oracle (insch : in_schema) (iv : chain) (xin : xval) :
  in_wf insch = true -> export_t iv = Some xin -> x_has_unknown xin = false ->
  fst (validate (AccIn insch) iv) = C05.x_valid insch xin.
Proof.
  intros Hwf Hx Hu. destruct (C05.x_valid insch xin) eqn:Hv.
  - exact (oracle_valid_implies_gate insch iv xin Hwf Hx Hu Hv).
  - destruct (fst (validate (AccIn insch) iv)) eqn:Hg; [|reflexivity].
    rewrite (gate_implies_oracle_valid insch iv xin Hg Hx Hu) in Hv. discriminate.
Qed.

(** ** ... hence exactly as JSON Schema prescribes, and as the validator mirror does *)
Theorem evaluator_gate_is_instance re D f (insch : in_schema) (iv : chain) (xin : xval) :
  in_wf insch = true -> export_t iv = Some xin -> x_has_unknown xin = false ->
  Validate.vspec re D (S (S f)) (schema_of_in insch) (json_of_x xin) = Some (fst (validate (AccIn insch) iv)).
Proof. intros Hwf Hx Hu. rewrite vspec_family, (gate_is_oracle insch iv xin Hwf Hx Hu). reflexivity. Qed.

(* for EVERY parameter setting of the mirror; no side condition on numerals or object keys is needed here *)
Theorem evaluator_gate_is_vimpl P re D f (insch : in_schema) (iv : chain) (xin : xval) :
  in_wf insch = true -> export_t iv = Some xin -> x_has_unknown xin = false ->
  exists d, Validate.vimpl P re D (S (S f)) (schema_of_in insch) (json_of_x xin)
            = Some (fst (validate (AccIn insch) iv), d).
Proof.
  intros Hwf Hx Hu. exists (snd (gate_r P insch xin)).
  rewrite vimpl_family, (gate_is_oracle insch iv xin Hwf Hx Hu), <- (gate_r_verdict P). destruct (gate_r P insch xin); reflexivity.
Qed.

(* ---- the same through C08's main theorem: its side conditions hold on this family ---- *)
Lemma sall_family (p : Schema.schema -> bool) insch :
  p (schema_of_in insch) = true -> (forall t, p (tnode t) = true) -> p Schema.SNever = true ->
  Schema.sall p (schema_of_in insch) = true.
Proof.
  intros Hroot Ht Hn. destruct insch as [|props required closed]; [cbn [schema_of_in] in *; cbn [Schema.sall]; rewrite Hroot; reflexivity|].
  unfold schema_of_in in *. cbn [Schema.sall]. rewrite Hroot. cbn [forallb andb].
  assert (forallb (fun kp : string * Schema.schema => let (_, t) := kp in Schema.sall p t)
            (map (fun pr : string * string => (fst pr, ty_schema (snd pr))) props) = true) as Hp.
  { apply forallb_forall. intros [k t] Hin. apply in_map_iff in Hin. destruct Hin as ([k' ty] & E & _).
    injection E as _ <-. cbn [snd]. unfold ty_schema. destruct (jtype_of_name ty) as [t|].
    - assert (Schema.sall p (tnode t) = p (tnode t) && true) as -> by reflexivity. rewrite Ht. reflexivity.
    - assert (Schema.sall p Schema.SNever = p Schema.SNever && true) as -> by reflexivity. rewrite Hn. reflexivity. }
  rewrite Hp. destruct closed; [|reflexivity].
  assert (Schema.sall p Schema.SNever = p Schema.SNever && true) as -> by reflexivity. rewrite Hn. reflexivity.
Qed.

Lemma keys_props (props : list (string * string)) :
  Schema.keys (map (fun p => (fst p, ty_schema (snd p))) props) = map fst props.
Proof. unfold Schema.keys. rewrite map_map. reflexivity. Qed.

Lemma family_compiled insch : in_wf insch = true -> Schema.compiled [] (schema_of_in insch) = true.
Proof.
  intros Hwf. unfold Schema.compiled, Schema.rall. cbn [Schema.keys map Schema.nodupb forallb andb]. rewrite andb_true_r.
  apply sall_family; try reflexivity.
  destruct insch as [|props required closed]; [reflexivity|]. unfold Schema.wf_node. cbn [schema_of_in Schema.kw_of Schema.props_of Schema.ref_of].
  cbn [kw_type_req Schema.k_const Schema.k_enum Schema.k_multipleOf Schema.oall forallb andb].
  rewrite keys_props. cbn [in_wf] in Hwf. rewrite Hwf. reflexivity.
Qed.

Lemma family_in_vocabulary insch : Schema.in_vocabulary [] (schema_of_in insch) = true.
Proof.
  unfold Schema.in_vocabulary, Schema.rall. cbn [forallb]. rewrite andb_true_r.
  apply sall_family; try reflexivity. destruct insch; reflexivity.
Qed.

Lemma family_schema_integral insch : Schema.schema_integral [] (schema_of_in insch) = true.
Proof.
  unfold Schema.schema_integral, Schema.rall. cbn [forallb]. rewrite andb_true_r.
  apply sall_family; try reflexivity. destruct insch; reflexivity.
Qed.

Theorem evaluator_gate_via_validate_agrees P re f (insch : in_schema) (iv : chain) (xin : xval) :
  Validate.p_minlen_chars P = true -> Validate.p_maxlen_chars P = true ->
  in_wf insch = true -> export_t iv = Some xin -> x_has_unknown xin = false ->
  Schema.value_integral (json_of_x xin) = true -> Schema.value_wf (json_of_x xin) = true ->
  exists d, Validate.vimpl P re [] (S (S f)) (schema_of_in insch) (json_of_x xin)
            = Some (fst (validate (AccIn insch) iv), d).
Proof.
  intros Hmin Hmax Hwf Hx Hu Hint Hvwf.
  apply (ValidateProofs.validate_agrees P re [] (schema_of_in insch) (json_of_x xin) (S (S f)) _ Hmin Hmax).
  - apply family_compiled, Hwf.
  - apply family_in_vocabulary.
  - unfold Schema.numbers_integral. rewrite family_schema_integral, Hint. reflexivity.
  - exact Hvwf.
  - apply evaluator_gate_is_instance; assumption.
Qed.

(* ------------------------------------------------------------------------------------------- *)
(** * Diagnostics *)

(* evaluator model, every chain (unknowns allowed): accepted => no diagnostic *)
Theorem validate_accept_no_diag (insch : in_schema) (iv : chain) :
  fst (validate (AccIn insch) iv) = true -> snd (validate (AccIn insch) iv) = 0.
Proof.
  destruct insch as [|props required closed]; [reflexivity|]. unfold validate.
  destruct iv as [|l rest]; [discriminate|]. destruct (l_unk l).
  - destruct (top_sch (l :: rest)); cbn; try discriminate; reflexivity.
  - destruct l; try discriminate. cbv zeta. cbn [fst snd]. intros H. rewrite H. cbn [negb andb].
    apply Nat.eqb_eq in H.
    match type of H with (length ?a + length ?b + length ?d)%nat = _ =>
      assert (length a = 0%nat) as Ha by lia; assert (d = []) as Hd by (apply length_zero_nil; lia) end.
    rewrite Ha, Hd. reflexivity.
Qed.

(* a value whose top is unknown contains an unknown *)
Lemma unk_top_contains l rest : l_unk l = true -> contains_unknowns (l :: rest) = true.
Proof.
  intros Hu. unfold contains_unknowns. destruct (export_t (l :: rest)) as [v|] eqn:E; [|reflexivity].
  destruct (x_has_unknown v) eqn:Hx; [reflexivity|]. apply no_unknown_top in Hx.
  rewrite (export_top_unk _ _ _ _ (RefSem2Depth.export_t_sound _ _ E)), Hu in Hx. discriminate.
Qed.

(* rejected => at least one diagnostic, unless the inputs contain unknowns *)
Theorem validate_reject_has_diag (insch : in_schema) (iv : chain) :
  fst (validate (AccIn insch) iv) = false -> contains_unknowns iv = false -> 1 <= snd (validate (AccIn insch) iv).
Proof.
  destruct insch as [|props required closed]; [discriminate|]. unfold validate.
  destruct iv as [|l rest]; [cbn; lia|]. destruct (l_unk l) eqn:Hlu.
  - intros _ Hcu. rewrite (unk_top_contains _ _ Hlu) in Hcu. discriminate.
  - destruct l; try (cbn; lia). cbv zeta. cbn [fst snd]. intros H Hcu. rewrite H, Hcu. cbn [negb andb].
    match goal with |- 1 <= (if Nat.eqb ?n 0 then _ else _) => destruct (Nat.eqb n 0) eqn:E; [lia|apply Nat.eqb_neq in E; lia] end.
Qed.

Corollary validate_zero_iff_accepted (insch : in_schema) (iv : chain) :
  contains_unknowns iv = false ->
  (snd (validate (AccIn insch) iv) =? 0) = fst (validate (AccIn insch) iv).
Proof.
  intros Hcu. destruct (fst (validate (AccIn insch) iv)) eqn:Hf.
  - rewrite (validate_accept_no_diag _ _ Hf). reflexivity.
  - pose proof (validate_reject_has_diag _ _ Hf Hcu). apply N.eqb_neq. lia.
Qed.

(* the silent corners, exactly.  A rejection without diagnostic happens only
   (a) for inputs that are an unknown of schema `false` (eval_validate.go:191-193), or
   (b) for a known object that has every required key and an unknown somewhere inside, where every offending member is
       silent: a key that a CLOSED record does not declare (rejected by the `false` subschema), or a declared property
       whose value is an unknown of schema `false` *)
Theorem validate_silent_corner_exact props required closed (iv : chain) :
  validate (AccIn (InRecord props required closed)) iv = (false, 0) ->
  contains_unknowns iv = true
  /\ (silent_never iv = true
      \/ ((forall r, In r required -> In r (keys iv))
          /\ ((closed = true /\ exists k, In k (keys iv) /\ alookup k props = None)
              \/ (exists p, In p props /\ In (fst p) (keys iv) /\ silent_never (property (fst p) iv) = true))
          /\ (exists sec unk sc ps rest, iv = LObj sec unk sc ps :: rest /\ unk = false))).
Proof.
  unfold validate. destruct iv as [|l rest]; [discriminate|]. destruct (l_unk l) eqn:Hlu.
  - intros H. split; [exact (unk_top_contains _ _ Hlu)|]. left. unfold silent_never. rewrite Hlu.
    destruct (top_sch (l :: rest)); try discriminate H. reflexivity.
  - destruct l as [a b c0 d|a b c0 d|sec unk sc ps]; try discriminate. cbn [l_unk] in Hlu. subst unk.
    set (c := LObj sec false sc ps :: rest). cbv zeta.
    match goal with |- (Nat.eqb (length ?a + length ?b + length ?d) 0, _) = _ -> _ =>
      set (missing := a); set (extra := b); set (badty := d) end.
    match goal with |- context [length (filter ?q badty)] => set (loud := filter q badty) end.
    intros H. injection H as Hok Hn. rewrite Hok in Hn. cbn [negb andb] in Hn.
    destruct (Nat.eqb (length missing + length loud) 0) eqn:E.
    2:{ apply Nat.eqb_neq in E. lia. }
    apply Nat.eqb_eq in E. destruct (contains_unknowns c) eqn:Hcu; [|discriminate].
    apply Nat.eqb_neq in Hok.
    assert (missing = []) as Hmiss by (apply length_zero_nil; lia).
    assert (loud = []) as Hloud by (apply length_zero_nil; lia).
    split; [reflexivity|]. right. split.
    { intros r Hr. pose proof (filter_nil_all _ _ Hmiss r Hr) as Hin. apply negb_false_iff in Hin.
      apply existsb_eqb_in in Hin. exact Hin. }
    split.
    2:{ exists sec, false, sc, ps, rest. split; reflexivity. }
    destruct badty as [|p bt] eqn:Eb.
    + left.
      assert (extra <> []) as Hextra by (intros Hx; rewrite Hx, Hmiss in Hok; cbn in Hok; lia).
      destruct closed; [|exfalso; apply Hextra; reflexivity]. split; [reflexivity|].
      destruct extra as [|k ex] eqn:Ex; [contradiction|].
      assert (In k (filter (fun k0 => negb (existsb (fun p => String.eqb (fst p) k0) props)) (keys c))) as Hin
        by (fold extra; rewrite Ex; now left).
      apply filter_In in Hin. destruct Hin as [Hk Hneg]. exists k. split; [exact Hk|].
      apply negb_true_iff in Hneg. apply alookup_none. intros Hin. apply in_map_iff in Hin. destruct Hin as ([k0 ty] & Ek & Hin).
      cbn in Ek. subst k0.
      assert (existsb (fun p : string * string => String.eqb (fst p) k) props = true) as Ht;
        [|rewrite Ht in Hneg; discriminate].
      apply existsb_exists. exists (k, ty). split; [exact Hin|cbn; apply String.eqb_refl].
    + right. exists p.
      assert (In p badty) as Hin by (rewrite Eb; now left).
      unfold badty in Hin. apply filter_In in Hin. destruct Hin as [Hp Hcond].
      apply andb_true_iff in Hcond. destruct Hcond as [Hk _]. apply existsb_eqb_in in Hk.
      split; [exact Hp|]. split; [exact Hk|].
      pose proof (filter_nil_all _ _ Hloud p (or_introl eq_refl)) as Hs. apply negb_false_iff in Hs. exact Hs.
Qed.

(* outside the decidable class [EvalTotalFail.never_arg] (the inputs themselves, or the value of a declared property, are
   an unknown of schema `false`) the only rejection without diagnostic is the undeclared key of a CLOSED record *)
Theorem validate_silent_corner_partial props required closed (iv : chain) :
  EvalTotalFail.never_arg (AccIn (InRecord props required closed)) iv = false ->
  validate (AccIn (InRecord props required closed)) iv = (false, 0) ->
  contains_unknowns iv = true
  /\ closed = true
  /\ (forall r, In r required -> In r (keys iv))
  /\ (exists k, In k (keys iv) /\ alookup k props = None)
  /\ (exists sec unk sc ps rest, iv = LObj sec unk sc ps :: rest /\ unk = false).
Proof.
  intros Hn H. apply validate_silent_corner_exact in H. destruct H as (Hcu & H).
  unfold EvalTotalFail.never_arg in Hn. apply orb_false_iff in Hn. destruct Hn as [Hn1 Hn2].
  destruct H as [H|(Hreq & H & Hobj)]; [rewrite H in Hn1; discriminate|].
  destruct H as [(Hc & Hk)|(p & Hp & _ & Hs)].
  - repeat split; assumption.
  - exfalso. assert (existsb (fun p => silent_never (property (fst p) iv)) props = true) as Ht
      by (apply existsb_exists; exists p; split; assumption).
    rewrite Ht in Hn2. discriminate.
Qed.

(* inside the class the old characterisation is false: an OPEN record, inputs that are an unknown of schema `false` *)
Theorem validate_silent_corner_refuted :
  exists props required closed iv,
    validate (AccIn (InRecord props required closed)) iv = (false, 0) /\ closed = false
    /\ (forall sec unk sc ps rest, iv <> LObj sec unk sc ps :: rest)
    /\ EvalTotalFail.never_arg (AccIn (InRecord props required closed)) iv = true.
Proof.
  exists [], [], false, [unknown_layer false ScNever]. split; [vm_compute; reflexivity|]. split; [reflexivity|].
  split; [|vm_compute; reflexivity]. intros sec unk sc ps rest. discriminate.
Qed.

(* ... and a KNOWN object of an open record whose declared property is an unknown of schema `false` *)
Theorem validate_silent_corner_refuted_member :
  validate (AccIn (InRecord [("region", "string")] [] false))
    [LObj false false (ScObject [("region", ScNever)] None) [("region", [unknown_layer false ScNever])]] = (false, 0).
Proof. vm_compute. reflexivity. Qed.

(* ---- the two models side by side (concrete inputs): Open reached <-> accepted, error reported <-> rejected ---- *)
Theorem gate_models_agree P re D f (insch : in_schema) (iv : chain) (xin : xval) :
  Validate.p_gate_fallback P = true \/ Validate.p_never_reports P = true ->
  in_wf insch = true -> export_t iv = Some xin -> x_has_unknown xin = false -> contains_unknowns iv = false ->
  Validate.gate_impl P re D (S (S f)) (schema_of_in insch) (json_of_x xin)
  = Some (fst (validate (AccIn insch) iv), negb (snd (validate (AccIn insch) iv) =? 0)).
Proof.
  intros HP Hwf Hx Hu Hcu. rewrite (validate_zero_iff_accepted insch iv Hcu).
  destruct (evaluator_gate_is_vimpl P re D f insch iv xin Hwf Hx Hu) as (d & Hv).
  destruct (Validate.gate_impl P re D (S (S f)) (schema_of_in insch) (json_of_x xin)) as [[o dg]|] eqn:Hg.
  2:{ unfold Validate.gate_impl in Hg. rewrite Hv in Hg. discriminate. }
  assert (o = fst (validate (AccIn insch) iv)) as ->
    by (unfold Validate.gate_impl in Hg; rewrite Hv in Hg; cbn [fst snd] in Hg; injection Hg as E1 E2; symmetry; exact E1).
  destruct (fst (validate (AccIn insch) iv)).
  - rewrite (ValidateProofs.gate_accept_no_diagnostic _ _ _ _ _ _ _ Hg). reflexivity.
  - rewrite (ValidateProofs.gate_reject_has_diagnostic _ _ _ _ _ _ _ HP Hg). reflexivity.
Qed.

(* what the mirror's OWN diagnostics say when the `false` schema is silent (the source today): it reports exactly
   the missing required keys and the ill-typed declared properties; an undeclared key of a closed record (and a
   property declared with a type name outside JSON's six) is rejected silently, and it is the fallback of
   evaluateTypedExpr that reports it — for concrete inputs *)
Theorem vimpl_own_diag P (insch : in_schema) (xin : xval) :
  Validate.p_never_reports P = false ->
  snd (gate_r P insch xin) =
  match insch with
  | InAlways => false
  | InRecord props required closed =>
      match xin with
      | XObj _ _ m =>
          existsb (fun kv => match alookup (fst kv) props with
                             | Some ty => match jtype_of_name ty with Some _ => negb (type_ok ty (snd kv)) | None => false end
                             | None => false
                             end) m
          || negb (forallb (fun r => existsb (fun kv => String.eqb (fst kv) r) m) required)
      | _ => true
      end
  end.
Proof.
  intros Hn. destruct insch as [|props required closed]; [reflexivity|]. destruct xin as [s u sc|s u l|s u m]; try reflexivity.
  cbn [gate_r]. unfold Validate.r_and at 1. cbn [snd]. f_equal.
  - induction m as [|kv m IH]; [reflexivity|]. unfold loop_r. cbn [fold_right]. fold (loop_r P props closed m).
    unfold Validate.r_and at 1. cbn [snd existsb]. rewrite IH. f_equal.
    unfold member_r. destruct (alookup (fst kv) props) as [ty|].
    + destruct (jtype_of_name ty); [destruct (type_ok ty (snd kv)); reflexivity|exact Hn].
    + destruct closed; [exact Hn|reflexivity].
  - destruct (forallb _ required); reflexivity.
Qed.
