(* Proofs/CryptDoc.v — EncryptSecrets / DecryptSecrets on yaml node trees (decode -> walk -> marshal):
   skeleton preservation and the fate of the secrets, stated on the trees the implementation reads and writes. *)
From Verif Require Import Base.Bytes Model.Envelope Model.YamlTree Model.Crypt
     Proofs.YamlTreeProofs Proofs.CryptWalk Proofs.CryptProofs Proofs.CryptSkeleton.
From Coq Require Import Lia.

Lemma std_tag_nonempty t : std_tag t = true -> String.eqb t "" = false.
Proof.
  unfold std_tag. intros H. apply Bool.orb_true_iff in H. destruct H as [H|H].
  - destruct (is_lit_tag_cases _ H) as [E|[E|[E|E]]]; rewrite E; reflexivity.
  - apply eqb_true_s in H. rewrite H. reflexivity.
Qed.

Lemma std_tag_str t : std_tag t = true -> is_lit_tag t = false -> t = tag_str.
Proof. unfold std_tag. intros H L. rewrite L in H. now apply eqb_true_s. Qed.

Section Doc.
  Variable P : env_params.
  Variable fn_secret key_ciphertext new_key : string.
  Variable enc dec : string -> option string.
  Variable null_words quote_words : list string.
  Variable pf : string -> bool.
  Hypothesis Hne : String.eqb fn_secret key_ciphertext = false.
  Hypothesis Hnew : new_key = key_ciphertext.

  Notation parse_secret := (parse_secret fn_secret key_ciphertext).
  Notation marshal := (marshal null_words quote_words pf).
  Notation marshal_str := (marshal_str quote_words pf).
  Notation marshal_null := (marshal_null null_words).
  Notation ysecret := (ysecret fn_secret key_ciphertext).
  Notation yarg := (yarg key_ciphertext).
  Notation skeleton_in := (skeleton_in fn_secret key_ciphertext).
  Notation skeleton := (skeleton fn_secret key_ciphertext).
  Notation ysecrets := (ysecrets fn_secret key_ciphertext).
  Notation secrets := (secrets fn_secret key_ciphertext).
  Notation nm := (nm null_words quote_words pf).
  Notation ynorm := (ynorm null_words quote_words pf).
  Notation encrypt_doc := (encrypt_doc P fn_secret key_ciphertext new_key enc null_words quote_words pf).
  Notation decrypt_doc := (decrypt_doc P fn_secret key_ciphertext dec null_words quote_words pf).
  Notation enc_tree := (enc_tree P fn_secret key_ciphertext new_key enc).
  Notation dec_tree := (dec_tree P fn_secret key_ciphertext dec).

  (* ---------------- the normal form nm on scalars of the accepted subset ---------------- *)
  Lemma nm_str m : is_lit_tag (y_tag m) = false -> nm m = marshal_str (SynYaml m) (y_value m).
  Proof.
    unfold is_lit_tag, YamlTreeProofs.nm. intros H.
    destruct (String.eqb (y_tag m) tag_null); [discriminate|].
    destruct (String.eqb (y_tag m) tag_bool); [discriminate|].
    destruct (String.eqb (y_tag m) tag_int); [discriminate|].
    destruct (String.eqb (y_tag m) tag_float); [discriminate|]. reflexivity.
  Qed.

  Lemma nm_comments m : y_head (nm m) = y_head m /\ y_line (nm m) = y_line m /\ y_foot (nm m) = y_foot m.
  Proof.
    unfold YamlTreeProofs.nm.
    destruct (String.eqb (y_tag m) tag_null).
    { unfold YamlTree.marshal_null. destruct (norm_tag_comments tag_null (base_meta (SynYaml m))) as (H1 & H2 & H3 & _).
      destruct (mem_str _ _); cbn; auto. }
    destruct (String.eqb (y_tag m) tag_bool); [auto|].
    destruct (String.eqb (y_tag m) tag_int || String.eqb (y_tag m) tag_float); [auto|].
    apply (marshal_str_comments quote_words pf (SynYaml m)).
  Qed.

  Lemma nm_null m : y_tag m = tag_null -> nm m = marshal_null (SynYaml m).
  Proof. intros E. unfold YamlTreeProofs.nm. rewrite E. reflexivity. Qed.

  Lemma nm_other_lit m : y_tag m = tag_bool \/ y_tag m = tag_int \/ y_tag m = tag_float -> nm m = m.
  Proof. intros [E|[E|E]]; unfold YamlTreeProofs.nm; rewrite E; reflexivity. Qed.

  Lemma nm_tag m : std_tag (y_tag m) = true -> y_tag (nm m) = y_tag m.
  Proof.
    intros Hs. destruct (is_lit_tag (y_tag m)) eqn:L.
    - destruct (is_lit_tag_cases _ L) as [E|E].
      + rewrite (nm_null _ E), marshal_null_tag; [now rewrite E|]. unfold syn_tag. cbn [base_meta]. rewrite E. reflexivity.
      + now rewrite (nm_other_lit _ E).
    - rewrite (nm_str _ L). pose proof (std_tag_str _ Hs L) as Ht.
      rewrite (marshal_str_tag_eq quote_words pf). cbn [base_meta]. now rewrite (norm_tag_same tag_str m Ht).
  Qed.

  Lemma nm_value m : is_lit_tag (y_tag m) = false -> y_value (nm m) = y_value m.
  Proof. intros L. rewrite (nm_str _ L). apply marshal_str_value. Qed.

  Lemma nm_lit_value m :
    is_lit_tag (y_tag m) = true -> String.eqb (y_tag m) tag_null = false -> nm m = m.
  Proof.
    intros L E1. destruct (is_lit_tag_cases _ L) as [E|E].
    - rewrite E in E1. discriminate.
    - now apply nm_other_lit.
  Qed.

  Lemma content_scalar_nm m : std_tag (y_tag m) = true -> content_scalar (nm m) = content_scalar m.
  Proof.
    intros Hs. unfold content_scalar.
    pose proof (nm_tag _ Hs) as Ht. pose proof (std_tag_nonempty _ Hs) as Hn.
    rewrite (resolved_scalar_tagged m Hn), (resolved_scalar_tagged (nm m)) by now rewrite Ht.
    destruct (nm_comments m) as (H1 & H2 & H3). rewrite Ht, H1, H2, H3.
    destruct (String.eqb (y_tag m) tag_null) eqn:E1; [reflexivity|].
    destruct (is_lit_tag (y_tag m)) eqn:L.
    - now rewrite (nm_lit_value _ L E1).
    - now rewrite (nm_value _ L).
  Qed.

  Lemma is_str_meta_nm m : std_tag (y_tag m) = true -> is_str_meta (nm m) = is_str_meta m.
  Proof.
    intros Hs. unfold is_str_meta.
    pose proof (nm_tag _ Hs) as Ht. pose proof (std_tag_nonempty _ Hs) as Hn.
    rewrite (resolved_scalar_tagged m Hn), (resolved_scalar_tagged (nm m)) by now rewrite Ht.
    now rewrite Ht.
  Qed.

  Lemma is_str_meta_tag m : std_tag (y_tag m) = true -> is_str_meta m = negb (is_lit_tag (y_tag m)).
  Proof. intros Hs. unfold is_str_meta. now rewrite (resolved_scalar_tagged m (std_tag_nonempty _ Hs)). Qed.

  Lemma hole_nm m : hole (nm m) = hole m.
  Proof. destruct (nm_comments m) as (H1 & H2 & H3). now apply hole_comments. Qed.

  (* ---------------- recognition is invariant under the normal form ---------------- *)
  Lemma yarg_ynorm v : std_tree v = true -> yarg (ynorm v) = option_map nm (yarg v).
  Proof.
    intros Hs.
    destruct v as [m|m items|m [|[k c] [|]]|kd m]; try reflexivity.
    - cbn [std_tree] in Hs. cbn [YamlTreeProofs.ynorm Crypt.yarg]. rewrite (is_str_meta_nm _ Hs).
      destruct (is_str_meta m); reflexivity.
    - cbn [std_tree forallb] in Hs. rewrite Bool.andb_true_r in Hs. apply Bool.andb_true_iff in Hs.
      destruct Hs as [Hk Hc].
      destruct k as [k2| | |]; try reflexivity.
      destruct c as [c| | |]; try reflexivity.
      cbn [std_tree] in Hk, Hc. cbn [YamlTreeProofs.ynorm map Crypt.yarg].
      rewrite (is_str_meta_nm _ Hk), (is_str_meta_nm _ Hc).
      rewrite (is_str_meta_tag _ Hk).
      destruct (is_lit_tag (y_tag k2)) eqn:L; [reflexivity|]. cbn [negb andb].
      rewrite (nm_value _ L).
      destruct (String.eqb (y_value k2) key_ciphertext && is_str_meta c); reflexivity.
    - cbn [YamlTreeProofs.ynorm map Crypt.yarg]. destruct k, c; reflexivity.
  Qed.

  Lemma ysecret_inv y m0 km t :
    ysecret y = Some (m0, km, t) ->
    exists v, y = YMap m0 [(YScalar km, v)] /\ yarg v = Some t /\ is_str_meta km = true
              /\ y_value km = fn_secret.
  Proof.
    destruct y as [m|m items|m [|[k v] [|]]|kd m]; cbn [Crypt.ysecret]; try discriminate.
    - destruct k as [km0| | |]; try discriminate.
      destruct (is_str_meta km0) eqn:E1; [|discriminate].
      destruct (String.eqb (y_value km0) fn_secret) eqn:E2; [|discriminate]. cbn [andb].
      destruct (yarg v) as [t0|] eqn:E3; [|discriminate].
      intros H. injection H as <- <- <-. apply eqb_true_s in E2. eauto.
    - destruct k; discriminate.
  Qed.

  Lemma ysecret_ynorm y :
    std_tree y = true ->
    ysecret (ynorm y) =
    match ysecret y with Some (m0, km, t) => Some (m0, nm km, nm t) | None => None end.
  Proof.
    intros Hs.
    destruct y as [m|m items|m [|[k v] [|]]|kd m]; try reflexivity.
    - cbn [std_tree forallb] in Hs. rewrite Bool.andb_true_r in Hs. apply Bool.andb_true_iff in Hs.
      destruct Hs as [Hk Hv].
      destruct k as [km| | |]; try reflexivity.
      cbn [std_tree] in Hk.
      cbn [YamlTreeProofs.ynorm map Crypt.ysecret].
      rewrite (is_str_meta_nm _ Hk), (is_str_meta_tag _ Hk).
      destruct (is_lit_tag (y_tag km)) eqn:L; [reflexivity|]. cbn [negb andb].
      rewrite (nm_value _ L).
      destruct (String.eqb (y_value km) fn_secret); [|reflexivity].
      change (YamlTreeProofs.ynorm null_words quote_words pf v) with (ynorm v).
      rewrite (yarg_ynorm _ Hv). destruct (yarg v); reflexivity.
    - cbn [YamlTreeProofs.ynorm map Crypt.ysecret]. destruct k; reflexivity.
  Qed.

  Lemma forallb_In {A} (f : A -> bool) l x : forallb f l = true -> In x l -> f x = true.
  Proof. intros H. rewrite forallb_forall in H. apply H. Qed.

  Theorem skeleton_ynorm y : std_tree y = true -> forall fl, skeleton_in fl (ynorm y) = skeleton_in fl y.
  Proof.
    induction y as [m|m items IH|m es IH|kd m] using ynode_ind'; intros Hs fl.
    - cbn [std_tree] in Hs. cbn [YamlTreeProofs.ynorm Crypt.skeleton_in]. now rewrite (content_scalar_nm _ Hs).
    - cbn [std_tree] in Hs. cbn [YamlTreeProofs.ynorm Crypt.skeleton_in]. f_equal.
      rewrite map_map. apply map_ext_in. intros x Hx.
      rewrite Forall_forall in IH. apply IH; [exact Hx|]. eapply forallb_In; eauto.
    - change (ynorm (YMap m es)) with
        (YMap m (map (fun kv : ynode * ynode => let (k, v) := kv in (ynorm k, ynorm v)) es)).
      rewrite !skeleton_map.
      change (YMap m (map (fun kv : ynode * ynode => let (k, v) := kv in (ynorm k, ynorm v)) es))
        with (ynorm (YMap m es)).
      rewrite (ysecret_ynorm _ Hs).
      destruct (ysecret (YMap m es)) as [[[m0 km] t]|] eqn:E.
      + destruct (ysecret_inv _ _ _ _ E) as (v & Hy & _). injection Hy as -> ->.
        cbn [std_tree forallb] in Hs. apply Bool.andb_true_iff in Hs. destruct Hs as [Hs _].
        apply Bool.andb_true_iff in Hs. destruct Hs as [Hk _]. cbn [std_tree] in Hk.
        now rewrite (content_scalar_nm _ Hk), hole_nm.
      + f_equal. rewrite map_map. apply map_ext_in. intros [k v] Hx.
        cbn [std_tree] in Hs. pose proof (forallb_In _ _ _ Hs Hx) as Hkv. cbn in Hkv.
        apply Bool.andb_true_iff in Hkv. destruct Hkv as [Hk Hv].
        rewrite Forall_forall in IH. destruct (IH _ Hx) as [IHk IHv]. cbn [fst snd] in *.
        unfold skel_pair. now rewrite IHk, IHv.
    - reflexivity.
  Qed.

  (* ---------------- decoding a tree of the subset gives well-tagged literal nodes ---------------- *)
  Lemma std_unmarshal_scalar m : std_s (unmarshal_scalar m) = true.
  Proof.
    unfold unmarshal_scalar.
    destruct (String.eqb (y_tag m) tag_null) eqn:E1; [exact E1|].
    destruct (String.eqb (y_tag m) tag_bool) eqn:E2; [exact E2|].
    destruct (String.eqb (y_tag m) tag_int || String.eqb (y_tag m) tag_float) eqn:E3; [exact E3|reflexivity].
  Qed.

  Theorem std_unmarshal y s : unmarshal y = ROk s -> std_s s = true.
  Proof.
    revert s. induction y as [m|m items IH|m es IH|kd m] using ynode_ind'; intros s H; cbn [unmarshal] in H.
    - injection H as <-. apply std_unmarshal_scalar.
    - destruct (mapR unmarshal items) as [l|] eqn:El; [|discriminate]. injection H as <-.
      apply mapR_ok_Forall2 in El. cbn [std_s].
      induction El as [|x y r t Hx _ IHl]; [reflexivity|].
      inversion_clear IH as [|? ? IHx IHr]. cbn [forallb]. rewrite (IHx _ Hx). now apply IHl.
    - match type of H with context [mapR ?f es] => destruct (mapR f es) as [l|] eqn:El; [|discriminate] end.
      injection H as <-. apply mapR_ok_Forall2 in El. cbn [std_s].
      induction El as [|[k v] [k' v'] r t Hx _ IHl]; [reflexivity|].
      inversion_clear IH as [|? ? [_ IHv] IHr]. cbn [forallb fst snd] in *.
      destruct (unmarshal k) as [[| | |ks kv| |]|]; try discriminate.
      destruct (unmarshal v) as [vv|] eqn:Ev; [|discriminate]. injection Hx as <- <-.
      rewrite (IHv _ eq_refl). now apply IHl.
    - discriminate.
  Qed.

  (* ---------------- C12: the skeleton is preserved ---------------- *)
  Theorem encrypt_doc_skeleton y y' :
    std_tree y = true -> encrypt_doc y = ROk y' -> skeleton y' = skeleton y.
  Proof.
    unfold Crypt.encrypt_doc, rewrite_doc. intros Hs H.
    destruct (unmarshal y) as [s|] eqn:Eu; [|discriminate].
    change (walk (encrypt_visit P fn_secret key_ciphertext new_key enc) s)
      with (encrypt_tree P fn_secret key_ciphertext new_key enc s) in H.
    rewrite (encrypt_tree_top_down _ _ _ _ _ Hne) in H.
    destruct (enc_tree s) as [s'|] eqn:Ee; [|discriminate]. injection H as <-.
    destruct (enc_tree_skeleton P _ _ _ enc null_words quote_words pf Hne Hnew _ _ (std_unmarshal _ _ Eu) Ee) as [_ Hk].
    unfold Crypt.skeleton. rewrite Hk, (marshal_unmarshal _ _ _ _ _ Eu). now apply skeleton_ynorm.
  Qed.

  Theorem decrypt_doc_skeleton y y' :
    std_tree y = true -> decrypt_doc y = ROk y' -> skeleton y' = skeleton y.
  Proof.
    unfold Crypt.decrypt_doc, rewrite_doc. intros Hs H.
    destruct (unmarshal y) as [s|] eqn:Eu; [|discriminate].
    change (walk (decrypt_visit P fn_secret key_ciphertext dec) s)
      with (decrypt_tree P fn_secret key_ciphertext dec s) in H.
    rewrite (decrypt_tree_top_down _ _ _ _ Hne) in H.
    destruct (dec_tree s) as [s'|] eqn:Ee; [|discriminate]. injection H as <-.
    destruct (dec_tree_skeleton P _ _ dec null_words quote_words pf Hne _ _ (std_unmarshal _ _ Eu) Ee) as [_ Hk].
    unfold Crypt.skeleton. rewrite Hk, (marshal_unmarshal _ _ _ _ _ Eu). now apply skeleton_ynorm.
  Qed.
End Doc.
