(* Proofs/ChainAlgebraDeep.v — property C01 at every depth of the import graph (over Corr/C01.v's [flat]), literal
   values are in normal form, and the refutation of the unrestricted property through the evaluator model. *)
From Verif Require Import Base.Bytes Model.Chain Model.Eval Corr.EvalWire Corr.C01
  Proofs.ChainAlgebraSorted Proofs.ChainAlgebraExport Proofs.ChainAlgebra.
From Coq Require Import Lia Sorted.
Local Open Scope nat_scope.

(* ================= normal forms: keys strictly sorted everywhere, also inside arrays ================= *)
Fixpoint jdeep (j : json) : bool :=
  match j with
  | JArr l => forallb jdeep l
  | JObj m => sorted_b (map fst m) && forallb (fun kv => jdeep (snd kv)) m
  | _ => true
  end.

Lemma jmsize_In k v (m : list (string * json)) : In (k, v) m -> jsize v <= jmsize m.
Proof.
  induction m as [|kv' r IHm]; [intros []|]. rewrite jmsize_cons. intros [->|H]; [cbn [snd]; lia|]. specialize (IHm H). lia.
Qed.

Lemma jdeep_wf (j : json) : jdeep j = true -> jwf j = true.
Proof.
  assert (H : forall n j, jsize j < n -> jdeep j = true -> jwf j = true).
  { induction n as [|n IH]; intros x Hn D; [lia|]. destruct x; try reflexivity.
    cbn [jdeep jwf] in *. apply andb_true_iff in D. destruct D as [D1 D2]. rewrite D1. cbn [andb].
    apply forallb_forall. intros [k v] Hkv. rewrite forallb_forall in D2. apply IH; [|exact (D2 _ Hkv)].
    rewrite jsize_obj in Hn. pose proof (jmsize_In _ _ _ Hkv). cbn [snd]. lia. }
  apply (H (S (jsize j))). lia.
Qed.

Lemma alookup_nodup {A} (m : list (string * A)) k v : NoDup (map fst m) -> In (k, v) m -> alookup k m = Some v.
Proof.
  induction m as [|[k' v'] r IH]; intros Hnd Hin; [destruct Hin|]. cbn [alookup].
  inversion Hnd as [|? ? Hni Hnd']; subst. destruct Hin as [E|Hin].
  - injection E as -> ->. now rewrite String.eqb_refl.
  - destruct (String.eqb k k') eqn:E; [|now apply IH]. apply String.eqb_eq in E. subst.
    exfalso. apply Hni. apply in_map_iff. now exists (k', v).
Qed.

Lemma flat_merge_single_id (j : json) : jdeep j = true -> flat_merge [j] = j.
Proof.
  assert (H : forall n j, jsize j < n -> jdeep j = true -> flat_merge [j] = j).
  { induction n as [|n IH]; intros x Hn D; [lia|]. destruct x; try reflexivity.
    - rewrite flat_merge_arr. f_equal. rewrite <- (map_id l) at 2. apply map_ext_in. intros y Hy.
      cbn [jdeep] in D. rewrite forallb_forall in D. rewrite jsize_arr in Hn. pose proof (jlsize_In _ _ Hy).
      apply IH; [lia|now apply D].
    - rewrite flat_merge_obj. unfold fm_obj, tab. cbn [oprefix]. f_equal.
      change (jkeys [m]) with (map fst m). rewrite map_map. rewrite <- (map_id m) at 2. apply map_ext_in. intros [k v] Hkv.
      cbn [jdeep] in D. apply andb_true_iff in D. destruct D as [D1 D2]. apply sorted_b_ok, ssorted_nodup in D1.
      cbn [fst]. f_equal. change (jprop k [m]) with (match alookup k m with Some v => [v] | None => [] end).
      rewrite (alookup_nodup _ _ _ D1 Hkv). rewrite forallb_forall in D2. rewrite jsize_obj in Hn.
      pose proof (jmsize_In _ _ _ Hkv). apply IH; [lia|exact (D2 _ Hkv)]. }
  apply (H (S (jsize j))). lia.
Qed.

(* ---------------- literal expressions denote normal forms ---------------- *)
Lemma mapM_In {A B} (g : A -> option B) (l : list A) (out : list B) (y : B) :
  mapM g l = Some out -> In y out -> exists x, In x l /\ g x = Some y.
Proof.
  revert out. induction l as [|x r IH]; intros out E Hy; cbn [mapM] in E.
  - injection E as <-. destruct Hy.
  - destruct (g x) as [b|] eqn:Eg; [|discriminate]. destruct (mapM g r) as [t|] eqn:Er; [|discriminate].
    injection E as <-. destruct Hy as [<-|Hy]; [exists x; split; [now left|exact Eg]|].
    destruct (IH t eq_refl Hy) as (x' & Hx' & Ex'). exists x'. split; [now right|exact Ex'].
Qed.

Lemma In_ainsert {A} (k : string) (v : A) (m : list (string * A)) x : In x (ainsert k v m) -> x = (k, v) \/ In x m.
Proof.
  induction m as [|[k' v'] r IH]; cbn [ainsert]; [intros [<-|[]]; now left|].
  destruct (String.eqb k k'); [intros [<-|H]; [now left|right; now right]|].
  destruct (String.ltb k k'); [intros [<-|H]; [now left|now right]|].
  intros [<-|H]; [right; now left|]. destruct (IH H) as [->|H']; [now left|right; now right].
Qed.

Lemma In_ains_all {A} (b acc : list (string * A)) x : In x (ains_all b acc) -> In x b \/ In x acc.
Proof.
  unfold ains_all. revert acc. induction b as [|[k v] r IH]; intros acc H; [now right|]. cbn [fold_left fst snd] in H.
  destruct (IH _ H) as [H'|H']; [left; now right|]. apply In_ainsert in H'. destruct H' as [->|H']; [left; now left|now right].
Qed.

Lemma lit_json_deep (f : nat) (e : expr) (j : json) : lit_json f e = Some j -> jdeep j = true.
Proof.
  revert e j. induction f as [|f IH]; intros e j E; [discriminate|]. cbn [lit_json] in E.
  destruct e; try discriminate; try (injection E as <-; reflexivity).
  - destruct (mapM (lit_json f) l) as [js|] eqn:Em; [|discriminate]. injection E as <-. cbn [jdeep].
    apply forallb_forall. intros y Hy. destruct (mapM_In _ _ _ _ Em Hy) as (x & _ & Ex). exact (IH _ _ Ex).
  - match type of E with option_map _ ?mm = _ => destruct mm as [m|] eqn:Em end; [|discriminate]. injection E as <-.
    fold (ains_all m []). cbn [jdeep]. apply andb_true_iff. split.
    + apply sorted_b_ok, ains_all_sorted. constructor.
    + apply forallb_forall. intros kv Hkv. apply In_ains_all in Hkv. destruct Hkv as [Hkv|[]].
      destruct (mapM_In _ _ _ _ Em Hkv) as (x & _ & Ex). destruct (lit_json f (snd x)) as [j'|] eqn:Ej; [|discriminate].
      injection Ex as <-. cbn [snd]. exact (IH _ _ Ej).
Qed.

(* ================= C01 over the whole import graph ================= *)
Definition sel_merged (W : world) (im : string * bool) : list envdef :=
  if snd im then match alookup (fst im) (w_envs W) with Some (LoadOk d') => [d'] | _ => [] end else [].

(* the definitions of the merged imports that load, in listing order (with repetition) *)
Definition merged_defs (W : world) (d : envdef) : list envdef := flat_map (sel_merged W) (ed_imports d).

Definition own_json (d : envdef) : option json := lit_json wire_fuel (EObj (ed_values d)).

Lemma flat_S (f : nat) (W : world) (d : envdef) :
  flat (S f) W d = (match own_json d with Some j => [j] | None => [] end) ++ concat (rev (map (flat f W) (merged_defs W d))).
Proof.
  cbn [flat]. unfold own_json. f_equal. unfold merged_defs. induction (ed_imports d) as [|im r IH]; [reflexivity|].
  cbn [map rev flat_map]. rewrite map_app, rev_app_distr, !concat_app, <- IH. f_equal.
  unfold sel_merged. destruct (snd im); [|reflexivity].
  destruct (alookup (fst im) (w_envs W)) as [[| |d']|]; try reflexivity.
Qed.

(* the property's right-hand side: the fold of the imports' VALUES, nested through the graph *)
Fixpoint wspec (fuel : nat) (W : world) (d : envdef) : json :=
  match fuel with
  | O => JNull
  | S f => match own_json d with
           | Some o => fold_left mp' (map (wspec f W) (merged_defs W d) ++ [o]) (JObj [])
           | None => JNull
           end
  end.

(* every reachable environment is a literal, the fuel covers the depth of the (acyclic) graph, and no environment's merged
   imports fall into the known class *)
Fixpoint wgood (fuel : nat) (W : world) (d : envdef) : Prop :=
  match fuel with
  | O => False
  | S f => own_json d <> None
           /\ (forall p, oso_scan p (rev (map (flat f W) (merged_defs W d))) = false)
           /\ Forall (wgood f W) (merged_defs W d)
  end.

Lemma own_json_deep (d : envdef) (o : json) : own_json d = Some o -> jdeep o = true.
Proof. unfold own_json. apply lit_json_deep. Qed.

Lemma wspec_S (f : nat) (W : world) (d : envdef) :
  wspec (S f) W d = match own_json d with
                    | Some o => fold_left mp' (map (wspec f W) (merged_defs W d) ++ [o]) (JObj [])
                    | None => JNull
                    end.
Proof. reflexivity. Qed.

Lemma wgood_S (f : nat) (W : world) (d : envdef) :
  wgood (S f) W d <-> own_json d <> None
           /\ (forall p, oso_scan p (rev (map (flat f W) (merged_defs W d))) = false)
           /\ Forall (wgood f W) (merged_defs W d).
Proof. reflexivity. Qed.

Lemma flat_wf (f : nat) (W : world) (d : envdef) : Forall (fun j => jdeep j = true) (flat f W d).
Proof.
  revert d. induction f as [|f IH]; intros d; [constructor|]. rewrite flat_S. apply Forall_app. split.
  - destruct (own_json d) as [j|] eqn:E; constructor; [|constructor]. exact (own_json_deep _ _ E).
  - apply Forall_concat, Forall_rev, Forall_forall. intros g Hg. apply in_map_iff in Hg. destruct Hg as (d' & <- & _). apply IH.
Qed.

Theorem C01_deep (fuel : nat) (W : world) (d : envdef) :
  wgood fuel W d -> flat_merge (flat fuel W d) = wspec fuel W d.
Proof.
  revert d. induction fuel as [|f IH]; intros d G; [destruct G|]. apply wgood_S in G. destruct G as (Go & Gk & Gi).
  rewrite flat_S, wspec_S. destruct (own_json d) as [o|] eqn:Eo; [|congruence]. cbn [app].
  assert (Do : jdeep o = true) by (exact (own_json_deep _ _ Eo)).
  rewrite C01_fold_partial.
  - rewrite map_map. f_equal. f_equal. apply map_ext_in. intros d' Hd'. rewrite Forall_forall in Gi. apply IH, Gi, Hd'.
  - apply Forall_forall. intros g Hg. apply in_map_iff in Hg. destruct Hg as (d' & <- & _).
    eapply Forall_impl; [|apply flat_wf]. intros j. apply jdeep_wf.
  - apply Forall_forall. intros g Hg. apply in_map_iff in Hg. destruct Hg as (d' & <- & Hd').
    rewrite Forall_forall in Gi. specialize (Gi _ Hd'). destruct f as [|f']; [destruct Gi|]. apply wgood_S in Gi. destruct Gi as (Go' & _).
    rewrite flat_S. destruct (own_json d'); [discriminate|congruence].
  - now apply jdeep_wf.
  - now apply flat_merge_single_id.
  - exact Gk.
Qed.

(* a decidable sufficient condition for [wgood]: Corr/C01.v's boolean known-class check at every node *)
Fixpoint wgood_b (fuel : nat) (W : world) (d : envdef) : bool :=
  match fuel with
  | O => false
  | S f => let tg := rev (map (flat f W) (merged_defs W d)) in
           match own_json d with Some _ => true | None => false end
           && forallb (fun l => Nat.leb (jdepth l) wire_fuel) (concat tg)
           && negb (kf_groups tg)
           && forallb (wgood_b f W) (merged_defs W d)
  end.

Lemma wgood_b_S (f : nat) (W : world) (d : envdef) :
  wgood_b (S f) W d =
    (match own_json d with Some _ => true | None => false end
     && forallb (fun l => Nat.leb (jdepth l) wire_fuel) (concat (rev (map (flat f W) (merged_defs W d))))
     && negb (kf_groups (rev (map (flat f W) (merged_defs W d))))
     && forallb (wgood_b f W) (merged_defs W d))%bool.
Proof. reflexivity. Qed.

Lemma wgood_b_ok (fuel : nat) (W : world) (d : envdef) : wgood_b fuel W d = true -> wgood fuel W d.
Proof.
  revert d. induction fuel as [|f IH]; intros d H; [discriminate|]. rewrite wgood_b_S in H.
  rewrite !andb_true_iff in H. destruct H as (((H1 & H2) & H3) & H4). apply wgood_S. split; [|split].
  - destruct (own_json d); [discriminate|discriminate].
  - apply kf_groups_sound.
    + apply Forall_forall. intros l Hl. rewrite forallb_forall in H2. apply Nat.leb_le. now apply H2.
    + now apply negb_true_iff.
  - apply Forall_forall. intros d' Hd'. rewrite forallb_forall in H4. apply IH. now apply H4.
Qed.

(* ================= the unrestricted property is false of the evaluator ================= *)
Definition lit_env (imports : list (string * bool)) (vals : list (string * expr)) : envdef :=
  {| ed_imports := imports; ed_values := vals |}.

Definition wit_A := lit_env [] [("x", EObj [("a", ENum "1")])].
Definition wit_B := lit_env [] [("x", ENum "5")].
Definition wit_F := lit_env [] [("x", EObj [("c", ENum "3")])].
Definition wit_D := lit_env [("A", true); ("B", true)] [("x", EObj [("b", ENum "2")])].
Definition wit_E := lit_env [("F", true); ("D", true)] [].

Definition wit_W : world :=
  {| w_envs := [("A", LoadOk wit_A); ("B", LoadOk wit_B); ("F", LoadOk wit_F); ("D", LoadOk wit_D); ("E", LoadOk wit_E)];
     w_provs := []; w_ctx := []; w_check := false; w_show := false; w_fault := None;
     w_decrypt := fun _ _ => None |}.

(* the value the evaluator model computes for an environment opened on its own *)
Definition model_value (name : string) (d : envdef) : option json :=
  match run 64 wit_W name d with
  | {| ob_value := Some v; ob_errors := false; ob_oof := false |} => Some (xj v)
  | _ => None
  end.

Theorem C01_fold_refuted :
  model_value "F" wit_F = Some (JObj [("x", JObj [("c", JNum "3")])]) /\
  model_value "D" wit_D = Some (JObj [("x", JObj [("b", JNum "2")])]) /\
  (* the evaluator: *)
  model_value "E" wit_E = Some (JObj [("x", JObj [("b", JNum "2")])]) /\
  (* the property's fold over the values of E's imports, then E's own (empty) values: *)
  fold_left mp' [JObj [("x", JObj [("c", JNum "3")])]; JObj [("x", JObj [("b", JNum "2")])]; JObj []] (JObj [])
    = JObj [("x", JObj [("b", JNum "2"); ("c", JNum "3")])] /\
  (* and the chain semantics agrees with the evaluator, not with the fold: *)
  flat_merge (flat 8 wit_W wit_E) = JObj [("x", JObj [("b", JNum "2")])] /\
  wspec 8 wit_W wit_E = JObj [("x", JObj [("b", JNum "2"); ("c", JNum "3")])] /\
  kf_groups (rev (map (flat 7 wit_W) (merged_defs wit_W wit_E))) = true.
Proof. vm_compute. repeat split. Qed.

(* ---------------- non-vacuity ---------------- *)
(* D = [A, B] over x: object / number / object inside ONE group is fine when nothing lies below: the deep theorem applies
   to D (depth 1, two merged imports, a cut) ... *)
Example wgood_D : wgood 8 wit_W wit_D.
Proof. apply wgood_b_ok. vm_compute. reflexivity. Qed.

Example C01_deep_D : flat_merge (flat 8 wit_W wit_D) = wspec 8 wit_W wit_D
                     /\ wspec 8 wit_W wit_D = JObj [("x", JObj [("b", JNum "2")])].
Proof. split; [exact (C01_deep _ _ _ wgood_D)|vm_compute; reflexivity]. Qed.

(* ... and a diamond with repetition where everything merges: G imports [D2, A, D2], D2 imports [A, F] *)
Definition wit_D2 := lit_env [("A", true); ("F", true)] [("x", EObj [("b", ENum "2")]); ("y", EArr [ENum "1"])].
Definition wit_G := lit_env [("D2", true); ("A", true); ("N", false); ("D2", true)] [("x", EObj [("g", EBool true)])].
Definition wit_W2 : world :=
  {| w_envs := [("A", LoadOk wit_A); ("F", LoadOk wit_F); ("D2", LoadOk wit_D2); ("N", LoadOk wit_B); ("G", LoadOk wit_G)];
     w_provs := []; w_ctx := []; w_check := false; w_show := false; w_fault := None;
     w_decrypt := fun _ _ => None |}.

Example wgood_G : wgood 8 wit_W2 wit_G.
Proof. apply wgood_b_ok. vm_compute. reflexivity. Qed.

Example C01_deep_G :
  flat_merge (flat 8 wit_W2 wit_G) = wspec 8 wit_W2 wit_G /\
  wspec 8 wit_W2 wit_G =
    JObj [("x", JObj [("a", JNum "1"); ("b", JNum "2"); ("c", JNum "3"); ("g", JBool true)]); ("y", JArr [JNum "1"])] /\
  length (flat 8 wit_W2 wit_G) = 8.
Proof. split; [exact (C01_deep _ _ _ wgood_G)|vm_compute; split; reflexivity]. Qed.

(* the witness of the refutation is outside the hypothesis, as it must be *)
Example wgood_b_E_false : wgood_b 8 wit_W wit_E = false.
Proof. vm_compute. reflexivity. Qed.
