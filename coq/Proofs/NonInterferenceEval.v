(* Proofs/NonInterferenceEval.v — C03, stage 4: the relational invariant is preserved by the five mutually
   recursive functions of the evaluator and by [eval_env], for two worlds and two programs that are equal except
   for related secrets.  Fragment: programs without fn::fromJSON (see NonInterferenceExamples.v for why). *)
From Verif Require Import Base.Bytes Model.Chain Model.GoText Model.Envelope Model.Eval Model.Redact.
From Verif Require Import Proofs.NonInterferenceRel Proofs.NonInterferenceOps Proofs.NonInterferenceTwins
     Proofs.NonInterferenceMono Proofs.NonInterferenceBuiltins.
From Coq Require Import Lia ZifyN ZifyNat ZifyBool.

Notation lo_c := (Forall2 lo_l).

(* ------------------------------------------------------------------------------------------------ *)
(* related programs: equal except for the texts of static secrets; no fn::fromJSON                   *)
(* ------------------------------------------------------------------------------------------------ *)
Inductive xg_lo (fj : bool) : expr -> expr -> Prop :=
| x_lo_null : xg_lo fj ENull ENull
| x_lo_bool b : xg_lo fj (EBool b) (EBool b)
| x_lo_num t : xg_lo fj (ENum t) (ENum t)
| x_lo_str s : xg_lo fj (EStr s) (EStr s)
| x_lo_interp ps : xg_lo fj (EInterp ps) (EInterp ps)
| x_lo_sym p : xg_lo fj (ESym p) (ESym p)
| x_lo_arr l1 l2 : Forall2 (xg_lo fj) l1 l2 -> xg_lo fj (EArr l1) (EArr l2)
| x_lo_obj l1 l2 : Forall2 (kv_rel (xg_lo fj)) l1 l2 -> xg_lo fj (EObj l1) (EObj l2)
| x_lo_join d1 d2 v1 v2 : xg_lo fj d1 d2 -> xg_lo fj v1 v2 -> xg_lo fj (EJoin d1 v1) (EJoin d2 v2)
| x_lo_tojson e1 e2 : xg_lo fj e1 e2 -> xg_lo fj (EToJSON e1) (EToJSON e2)
| x_lo_tostring e1 e2 : xg_lo fj e1 e2 -> xg_lo fj (EToString e1) (EToString e2)
| x_lo_tob64 e1 e2 : xg_lo fj e1 e2 -> xg_lo fj (EToB64 e1) (EToB64 e2)
| x_lo_fromb64 e1 e2 : xg_lo fj e1 e2 -> xg_lo fj (EFromB64 e1) (EFromB64 e2)
| x_lo_secret s1 s2 : xg_lo fj (ESecretPlain s1) (ESecretPlain s2)
| x_lo_cipher r : xg_lo fj (ESecretCipher r) (ESecretCipher r)
| x_lo_open p i1 i2 : xg_lo fj i1 i2 -> xg_lo fj (EOpen p i1) (EOpen p i2)
| x_lo_missing : xg_lo fj EMissing EMissing
| x_lo_fromjson e1 e2 : fj = true -> xg_lo fj e1 e2 -> xg_lo fj (EFromJSON e1) (EFromJSON e2).

(* [fj]: is fn::fromJSON allowed in the programs?  The invariant is proved for the fragment [fj = false]. *)
Notation x_lo := (xg_lo false).

(* fn::secret s  evaluates  EStr s  with the secret mark: the only place where two different literals meet *)
Definition xs_lo (xsec : bool) (x1 x2 : expr) : Prop :=
  x_lo x1 x2 \/ (xsec = true /\ exists s1 s2, x1 = EStr s1 /\ x2 = EStr s2).

Definition envg_lo (fj : bool) (d1 d2 : envdef) : Prop :=
  ed_imports d1 = ed_imports d2 /\ Forall2 (kv_rel (xg_lo fj)) (ed_values d1) (ed_values d2).

Definition loadg_lo (fj : bool) (l1 l2 : env_load) : Prop :=
  match l1, l2 with
  | LoadFail, LoadFail => True
  | LoadNoParse, LoadNoParse => True
  | LoadOk d1, LoadOk d2 => envg_lo fj d1 d2
  | _, _ => False
  end.

(* two worlds equal except for related secrets: the environments they serve are related programs, constant
   providers return low-equivalent outputs, the decrypters succeed on the same inputs (with any plaintexts) *)
Record Wg_lo (fj : bool) (W1 W2 : world) : Prop := {
  wl_envs : Forall2 (kv_rel (loadg_lo fj)) (w_envs W1) (w_envs W2);
  wl_provs : Forall2 (kv_rel prov_lo) (w_provs W1) (w_provs W2);
  wl_ctx : w_ctx W1 = w_ctx W2;
  wl_check : w_check W1 = w_check W2;
  wl_show : w_show W1 = w_show W2;
  wl_fault : w_fault W1 = w_fault W2;
  wl_dec : forall e c, opt_rel (fun _ _ => True) (w_decrypt W1 e c) (w_decrypt W2 e c)
}.

Notation env_lo := (envg_lo false).
Notation load_lo := (loadg_lo false).
Notation W_lo := (Wg_lo false).

Record E_lo (E1 E2 : ectx) : Prop := {
  el_name : ec_name E1 = ec_name E2;
  el_root : ec_root E1 = ec_root E2;
  el_values : Forall2 (kv_rel x_lo) (ec_values E1) (ec_values E2);
  el_base : lo_c (ec_base E1) (ec_base E2);
  el_imports : lo_c (ec_imports E1) (ec_imports E2);
  el_context : lo_c (ec_context E1) (ec_context E2)
}.

(* ------------------------------------------------------------------------------------------------ *)
(* declared / sorted / looked-up entries of related objects                                          *)
(* ------------------------------------------------------------------------------------------------ *)
Definition ent_rel {A B} (R : A -> B -> Prop) (a : nat * string * A) (b : nat * string * B) : Prop :=
  fst a = fst b /\ R (snd a) (snd b).

Lemma declared_rel {A B} (R : A -> B -> Prop) l1 l2 : Forall2 (kv_rel R) l1 l2 -> forall i seen,
  Forall2 (ent_rel R) (fst (declared l1 i seen)) (fst (declared l2 i seen)) /\
  snd (declared l1 i seen) = snd (declared l2 i seen).
Proof.
  induction 1 as [|[k1 v1] [k2 v2] l1 l2 [E HR] _ IH]; intros i seen; simpl; [split; [constructor|reflexivity]|].
  simpl in E; subst k2. destruct (existsb (String.eqb k1) seen).
  - specialize (IH (S i) seen). destruct (declared l1 (S i) seen), (declared l2 (S i) seen). simpl in *.
    destruct IH as [IH1 IH2]. split; [exact IH1|congruence].
  - specialize (IH (S i) (k1 :: seen)). destruct (declared l1 (S i) (k1 :: seen)), (declared l2 (S i) (k1 :: seen)). simpl in *.
    destruct IH as [IH1 IH2]. split; [|exact IH2]. constructor; [split; auto|exact IH1].
Qed.

Lemma insert_sorted_rel {A B} (R : A -> B -> Prop) e1 e2 l1 l2 :
  ent_rel R e1 e2 -> Forall2 (ent_rel R) l1 l2 -> Forall2 (ent_rel R) (insert_sorted e1 l1) (insert_sorted e2 l2).
Proof.
  intros He. induction 1 as [|a b l1 l2 Hab Hl IH]; simpl; [constructor; [exact He|constructor]|].
  destruct He as [E1 R1]. destruct Hab as [E2 R2]. rewrite E1, E2.
  destruct (String.ltb (snd (fst e2)) (snd (fst b))).
  - constructor; [split; auto|]. constructor; [split; auto|auto].
  - constructor; [split; auto|]. apply IH.
Qed.

Lemma sort_entries_rel {A B} (R : A -> B -> Prop) l1 l2 :
  Forall2 (ent_rel R) l1 l2 -> Forall2 (ent_rel R) (sort_entries l1) (sort_entries l2).
Proof.
  unfold sort_entries. intros H.
  assert (G : forall a1 a2, Forall2 (ent_rel R) a1 a2 ->
              Forall2 (ent_rel R) (fold_left (fun acc e => insert_sorted e acc) l1 a1)
                                  (fold_left (fun acc e => insert_sorted e acc) l2 a2)).
  { induction H as [|a b l1 l2 Hab _ IH]; simpl; intros a1 a2 Ha; [exact Ha|]. apply IH. now apply insert_sorted_rel. }
  apply G. constructor.
Qed.

Lemma find_entry_rel {A B} (R : A -> B -> Prop) k l1 l2 : Forall2 (kv_rel R) l1 l2 -> forall i,
  opt_rel (fun a b => fst a = fst b /\ R (snd a) (snd b)) (find_entry k l1 i) (find_entry k l2 i).
Proof.
  induction 1 as [|[k1 v1] [k2 v2] l1 l2 [E HR] _ IH]; intros i; simpl; [exact I|].
  simpl in E; subst k2. destruct (String.eqb k k1); [split; auto|apply IH].
Qed.

(* the reserved-key selector of evaluateExprAccess *)
Definition sel {A} (k : option string) (a b c : A) : A :=
  match k with Some "imports" => a | Some "context" => b | _ => c end.

Lemma sel_cases (k : option string) :
  (forall A (a b c : A), sel k a b c = a) \/ (forall A (a b c : A), sel k a b c = b) \/ (forall A (a b c : A), sel k a b c = c).
Proof.
  unfold sel.
  repeat (match goal with |- context [match ?x with _ => _ end] => is_var x; destruct x end;
          try (right; right; intros; reflexivity)).
  all: first [left; intros; reflexivity | right; left; intros; reflexivity].
Qed.

Lemma access_body_sel W f E a0 rest :
  access_body W f E (a0 :: rest) =
  sel (object_key a0)
      (let '(c, n) := value_access (va_need (ec_imports E) rest) (ec_imports E) rest in add_err n ;;; ret c)
      (let '(c, n) := value_access (va_need (ec_context E) rest) (ec_context E) rest in add_err n ;;; ret c)
      (walk W f E (EObj (ec_values E)) false (ec_base E) (ec_name E, []) (a0 :: rest)).
Proof. reflexivity. Qed.

(* ------------------------------------------------------------------------------------------------ *)
(* the invariant                                                                                    *)
(* ------------------------------------------------------------------------------------------------ *)
Definition repr_rel (xsec : bool) (v1 v2 : chain) : Prop :=
  lo_c (if xsec then opt_top_sec v1 else v1) (if xsec then opt_top_sec v2 else v2).

Lemma opt_top_sec_lo v1 v2 : lo_c v1 v2 -> lo_c (opt_top_sec v1) (opt_top_sec v2).
Proof.
  intros [|l1 l2 c1 c2 Hl Hc]; [constructor|]. simpl. constructor; [|exact Hc].
  destruct Hl; simpl; constructor; auto. eapply sc_lo_weaken; [|eassumption]. auto.
Qed.

(* fn::secret with a plaintext: whatever the two texts are, the marked literals are related *)
Theorem secret_plain_lo s1 s2 :
  lo_c (opt_top_sec [str_layer false false s1]) (opt_top_sec [str_layer false false s2]).
Proof. simpl. apply lo_c_single. constructor. simpl. discriminate. Qed.

Lemma repr_rel_of_lo xsec v1 v2 : lo_c v1 v2 -> repr_rel xsec v1 v2.
Proof. intros H. unfold repr_rel. destruct xsec; [now apply opt_top_sec_lo|exact H]. Qed.

Lemma mono_interp_go' W f E ps acc unk sec : mono (interp_go W f E ps acc unk sec).
Proof. apply mono_interp_go. intros; apply mono_eval_access. Qed.
Lemma mono_arr_go' W f E id es i acc : mono (arr_go W f E id es i acc).
Proof. apply mono_arr_go. intros; apply mono_eval_expr. Qed.
Lemma mono_obj_go' W f E xbase id ds acc : mono (obj_go W f E xbase id ds acc).
Proof. apply mono_obj_go. intros; apply mono_eval_expr. Qed.
Lemma mono_imports_go' W f root' is base my : mono (imports_go W f root' is base my).
Proof. apply mono_imports_go. intros; apply mono_eval_env. Qed.
Lemma mono_join_tail dr vr : mono (join_tail dr vr).
Proof. unfold join_tail. mono_tac. Qed.
Lemma mono_fromb64_tail r : mono (fromb64_tail r).
Proof. unfold fromb64_tail. mono_tac. Qed.
Lemma mono_tob64_tail r : mono (tob64_tail r).
Proof. unfold tob64_tail. mono_tac. Qed.
Lemma mono_fromjson_tail r : mono (fromjson_tail r).
Proof. unfold fromjson_tail. mono_tac. Qed.
Lemma mono_tojson_tail v : mono (tojson_tail v).
Proof. unfold tojson_tail. mono_tac. Qed.
Lemma mono_tostring_tail v : mono (tostring_tail v).
Proof. unfold tostring_tail. mono_tac. Qed.
Lemma mono_cipher_body W E repr : mono (cipher_body W E repr).
Proof. unfold cipher_body. mono_tac. Qed.
Lemma mono_open_tail W E id pn prov r : mono (open_tail W E id pn prov r).
Proof. unfold open_tail. mono_tac. Qed.
#[export] Hint Resolve mono_interp_go' mono_arr_go' mono_obj_go' mono_imports_go' mono_join_tail mono_fromb64_tail
  mono_tob64_tail mono_fromjson_tail mono_tojson_tail mono_tostring_tail mono_cipher_body mono_open_tail : mono.

Ltac rel_refl := apply rel_ret; apply lo_c_refl.
Ltac rel_bind_with R := apply (rel_bind R); [ | intro; mono_tac | intro; mono_tac | ].

(* the two runs call [value_access] with the fuel each computes from its own chain; both can be read at one fuel *)
Lemma value_access_need_lo c1 c2 accs : lo_c c1 c2 ->
  va_rel (value_access (va_need c1 accs) c1 accs) (value_access (va_need c2 accs) c2 accs).
Proof.
  intros H. rewrite (HelperFuel.value_access_need_max c1 accs (va_need c2 accs)),
                    (HelperFuel.value_access_need_max' c2 accs (va_need c1 accs)).
  apply value_access_lo, H.
Qed.

Lemma rel_access_result (R : chain -> chain -> Prop) (r1 r2 : chain * N) :
  R (fst r1) (fst r2) -> snd r1 = snd r2 ->
  mrel R (let '(c, n) := r1 in add_err n ;;; ret c) (let '(c, n) := r2 in add_err n ;;; ret c).
Proof.
  destruct r1 as [c1 n1], r2 as [c2 n2]. simpl. intros Hc ->. apply rel_add_err. now apply rel_ret.
Qed.

Section NI.
Variables W1 W2 : world.
Hypothesis HW : W_lo W1 W2.

Definition P_expr (f : nat) : Prop := forall E1 E2 x1 x2 xsec xb1 xb2 id,
  E_lo E1 E2 -> xs_lo xsec x1 x2 -> lo_c xb1 xb2 ->
  mrel lo_c (eval_expr W1 f E1 x1 xsec xb1 id) (eval_expr W2 f E2 x2 xsec xb2 id).
Definition P_repr (f : nat) : Prop := forall E1 E2 x1 x2 xsec xb1 xb2 id,
  E_lo E1 E2 -> xs_lo xsec x1 x2 -> lo_c xb1 xb2 ->
  mrel (repr_rel xsec) (eval_repr W1 f E1 x1 xb1 id) (eval_repr W2 f E2 x2 xb2 id).
Definition P_typed (f : nat) : Prop := forall E1 E2 x1 x2 a id,
  E_lo E1 E2 -> x_lo x1 x2 -> mrel tr_rel (eval_typed W1 f E1 x1 a id) (eval_typed W2 f E2 x2 a id).
Definition P_access (f : nat) : Prop := forall E1 E2 p,
  E_lo E1 E2 -> mrel lo_c (eval_access W1 f E1 p) (eval_access W2 f E2 p).
Definition P_walk (f : nat) : Prop := forall E1 E2 rx1 rx2 rsec rb1 rb2 rid accs,
  E_lo E1 E2 -> xs_lo rsec rx1 rx2 -> lo_c rb1 rb2 ->
  mrel lo_c (walk W1 f E1 rx1 rsec rb1 rid accs) (walk W2 f E2 rx2 rsec rb2 rid accs).

(* ---- interpolation (stage 3 lemma; the accesses are evaluated by the invariant) ---- *)
Lemma rel_interp_go f E1 E2 : E_lo E1 E2 -> P_access f ->
  forall ps acc1 acc2 unk sec, (sec = false -> acc1 = acc2) ->
  mrel lo_c (interp_go W1 f E1 ps acc1 unk sec) (interp_go W2 f E2 ps acc2 unk sec).
Proof.
  intros HE HA. induction ps as [|[text [p|]] r IH]; intros acc1 acc2 unk sec Hacc.
  - rewrite !interp_go_nil. apply rel_ret, str_layer_lo. intros E. destruct unk; [reflexivity|auto].
  - rewrite !interp_go_ref. rel_bind_with (Forall2 lo_l); [now apply HA|].
    + intros pv1 pv2 Hpv.
      rewrite (HelperFuel.to_string_need_max pv1 (ts_need pv2)), (HelperFuel.to_string_need_max' pv2 (ts_need pv1)).
      pose proof (to_string_lo (Nat.max (ts_need pv1) (ts_need pv2)) _ _ Hpv) as HT.
      destruct (to_string (Nat.max (ts_need pv1) (ts_need pv2)) pv1) as [[s1 u1] k1],
               (to_string (Nat.max (ts_need pv1) (ts_need pv2)) pv2) as [[s2 u2] k2].
      destruct HT as (Eu & Ek & Es). cbn [fst snd] in *. subst u2 k2. apply IH.
      intros Hs. apply Bool.orb_false_elim in Hs. destruct Hs as [Hs1 Hs2].
      rewrite (Hacc Hs1). destruct u1; [reflexivity|]. now rewrite (Es Hs2).
  - rewrite !interp_go_text. apply IH. intros E. now rewrite (Hacc E).
Qed.

Lemma rel_arr_go f E1 E2 id : E_lo E1 E2 -> P_expr f ->
  forall es1 es2, Forall2 x_lo es1 es2 -> forall i acc1 acc2, Forall2 lo_c acc1 acc2 ->
  mrel lo_c (arr_go W1 f E1 id es1 i acc1) (arr_go W2 f E2 id es2 i acc2).
Proof.
  intros HE HP es1 es2 Hes. induction Hes as [|e1 e2 es1 es2 He _ IH]; intros i acc1 acc2 Hacc.
  - rewrite !arr_go_nil. apply rel_ret, lo_c_single.
    replace (map top_sch (rev acc1)) with (map top_sch (rev acc2)).
    + constructor. now apply Forall2_rev.
    + symmetry. apply Forall2_map_eq. eapply Forall2_impl; [|apply Forall2_rev, Hacc]. apply top_sch_lo.
  - rewrite !arr_go_cons. rel_bind_with (Forall2 lo_l).
    + apply HP; [exact HE|left; exact He|constructor].
    + intros v1 v2 Hv. apply IH. now constructor.
Qed.

Lemma rel_obj_go f E1 E2 xb1 xb2 id : E_lo E1 E2 -> P_expr f -> lo_c xb1 xb2 ->
  forall ds1 ds2, Forall2 (ent_rel x_lo) ds1 ds2 -> forall acc1 acc2, Forall2 (kv_rel lo_c) acc1 acc2 ->
  mrel lo_c (obj_go W1 f E1 xb1 id ds1 acc1) (obj_go W2 f E2 xb2 id ds2 acc2).
Proof.
  intros HE HP Hxb ds1 ds2 Hds. induction Hds as [|[[i1 k1] e1] [[i2 k2] e2] ds1 ds2 [E He] _ IH]; intros acc1 acc2 Hacc.
  - rewrite !obj_go_nil. apply rel_ret, lo_c_single.
    assert (HR : Forall2 (kv_rel lo_c) (rev acc1) (rev acc2)) by now apply Forall2_rev.
    replace (map (fun kc : string * chain => (fst kc, top_sch (snd kc))) (rev acc1))
      with (map (fun kc : string * chain => (fst kc, top_sch (snd kc))) (rev acc2)).
    + now constructor.
    + symmetry. apply Forall2_map_eq. eapply Forall2_impl; [|exact HR]. intros a b [Ek Hab]. now rewrite Ek, (top_sch_lo _ _ Hab).
  - cbn [fst snd] in E, He. injection E as -> ->. rewrite !obj_go_cons. rel_bind_with (Forall2 lo_l).
    + apply HP; [exact HE|left; exact He|now apply property_lo].
    + intros v1 v2 Hv. apply IH. constructor; [split; auto|exact Hacc].
Qed.

Lemma x_lo_xs xsec x1 x2 : x_lo x1 x2 -> xs_lo xsec x1 x2.
Proof. now left. Qed.

Lemma provs_lookup pn : opt_rel prov_lo (alookup pn (w_provs W1)) (alookup pn (w_provs W2)).
Proof. apply alookup_rel, HW. Qed.

(* ---- one fuel step of the five functions ---- *)
Lemma step_expr f : P_repr f -> P_expr (S f).
Proof.
  intros HR E1 E2 x1 x2 xsec xb1 xb2 id HE Hx Hxb. rewrite !eval_expr_S.
  apply rel_get_memo. intros m1 m2 Hm.
  destruct m1 as [[v1|]|], m2 as [[v2|]|]; simpl in Hm; try contradiction.
  - now apply rel_ret.
  - apply rel_add_err. rel_refl.
  - apply rel_memo_set; [exact I|]. rel_bind_with (repr_rel xsec); [now apply HR|].
    intros v1 v2 Hv. cbv zeta. unfold repr_rel in Hv.
    apply rel_memo_set; [simpl; now apply Forall2_app|]. apply rel_ret. now apply Forall2_app.
Qed.

Lemma step_typed f : P_expr f -> P_typed (S f).
Proof.
  intros HP E1 E2 x1 x2 a id HE Hx. rewrite !eval_typed_S. rel_bind_with (Forall2 lo_l).
  - apply HP; [exact HE|left; exact Hx|constructor].
  - intros v1 v2 Hv. rewrite (validate_lo a _ _ Hv). destruct (validate a v2) as [ok n].
    apply rel_add_err. apply rel_ret. split; auto.
Qed.

Lemma step_access f : P_walk f -> P_access (S f).
Proof.
  intros HWk E1 E2 p HE. rewrite !eval_access_S. destruct p as [|a0 rest]; [rel_refl|].
  rewrite !access_body_sel. destruct (sel_cases (object_key a0)) as [S|[S|S]]; rewrite !S.
  - pose proof (value_access_need_lo _ _ rest (el_imports _ _ HE)) as [H1 H2]. now apply rel_access_result.
  - pose proof (value_access_need_lo _ _ rest (el_context _ _ HE)) as [H1 H2]. now apply rel_access_result.
  - rewrite (el_name _ _ HE). apply HWk; [exact HE| |apply HE]. left. constructor. apply HE.
Qed.

Ltac walk_default HP HE Hx Hrb :=
  rel_bind_with (Forall2 lo_l); [apply HP; [exact HE|exact Hx|exact Hrb]|];
  let v1 := fresh "v" in let v2 := fresh "v" in let Hv := fresh "Hv" in
  intros v1 v2 Hv;
  match goal with |- mrel _ (let '(_, _) := value_access (va_need _ ?accs) _ ?accs in _) _ =>
    pose proof (value_access_need_lo _ _ accs Hv) as [? ?] end;
  now apply rel_access_result.

Lemma step_walk f : P_expr f -> P_walk f -> P_walk (S f).
Proof.
  intros HP HWk E1 E2 rx1 rx2 rsec rb1 rb2 rid accs HE Hx Hrb. rewrite !walk_S. unfold walk_body.
  destruct accs as [|a rest]; [now apply HP|].
  destruct Hx as [Hx|(-> & s1 & s2 & -> & ->)].
  - pose proof (or_introl Hx : xs_lo rsec rx1 rx2) as Hx'.
    destruct Hx; try (walk_default HP HE Hx' Hrb); try discriminate.
    + (* EArr *)
      rewrite (Forall2_length _ _ _ H). destruct (array_index a (Z.of_nat (length l2))) as [i|]; [|apply rel_add_err; rel_refl].
      apply HWk; [exact HE| |constructor]. left. apply Forall2_nth; [exact H|constructor].
    + (* EObj *)
      destruct (object_key a) as [k|]; [|apply rel_add_err; rel_refl].
      pose proof (find_entry_rel x_lo k _ _ H O) as HF.
      destruct (find_entry k l1 0) as [[i1 px1]|], (find_entry k l2 0) as [[i2 px2]|]; simpl in HF; try contradiction.
      * destruct HF as [_ HF]. apply HWk; [exact HE|left; exact HF|now apply property_lo].
      * rewrite (is_object_lo _ _ Hrb). destruct (is_object rb2); [|apply rel_add_err; rel_refl].
        pose proof (value_access_need_lo _ _ (a :: rest) Hrb) as [? ?]. now apply rel_access_result.
    + (* ESecretPlain *)
      apply HWk; [exact HE| |constructor]. right. split; [reflexivity|eauto].
    + (* ESecretCipher *)
      apply rel_add_err; rel_refl.
  - assert (Hx' : xs_lo true (EStr s1) (EStr s2)) by (right; split; [reflexivity|eauto]).
    walk_default HP HE Hx' Hrb.
Qed.

Lemma step_repr f : P_expr f -> P_typed f -> P_access f -> P_repr (S f).
Proof.
  intros HP HT HA E1 E2 x1 x2 xsec xb1 xb2 id HE Hx Hxb. rewrite !eval_repr_S.
  destruct Hx as [Hx|(-> & s1 & s2 & -> & ->)].
  2:{ cbn [repr_body]. apply rel_ret. unfold repr_rel. simpl. apply lo_c_single. constructor. exact (fun E => match Bool.diff_true_false E with end). }
  apply rel_conseq with (R := lo_c); [apply repr_rel_of_lo|].
  destruct Hx; cbn [repr_body]; try rel_refl; try discriminate.
  - (* EInterp *) apply rel_interp_go; auto.
  - (* ESym *) now apply HA.
  - (* EArr *) apply rel_arr_go; [exact HE|exact HP|assumption|constructor].
  - (* EObj *)
    pose proof (declared_rel x_lo _ _ H O []) as [HD EN].
    destruct (declared l1 0 []) as [d1 n1], (declared l2 0 []) as [d2 n2]. cbn [fst snd] in *. subst n2.
    apply rel_add_err. apply rel_obj_go; [exact HE|exact HP|exact Hxb|now apply sort_entries_rel|constructor].
  - (* EJoin *)
    rel_bind_with tr_rel; [now apply HT|]. intros dr1 dr2 Hdr.
    rel_bind_with tr_rel; [now apply HT|]. intros vr1 vr2 Hvr. now apply join_lo.
  - (* EToJSON *)
    rel_bind_with (Forall2 lo_l); [apply HP; [exact HE|left; assumption|constructor]|]. intros v1 v2 Hv. now apply tojson_lo.
  - (* EToString *)
    rel_bind_with (Forall2 lo_l); [apply HP; [exact HE|left; assumption|constructor]|]. intros v1 v2 Hv. now apply tostring_lo.
  - (* EToB64 *)
    rel_bind_with tr_rel; [now apply HT|]. intros r1 r2 Hr. now apply tob64_lo.
  - (* EFromB64 *)
    rel_bind_with tr_rel; [now apply HT|]. intros r1 r2 Hr. now apply fromb64_lo.
  - (* ESecretPlain *)
    apply HP; [exact HE| |constructor]. right. split; [reflexivity|eauto].
  - (* ESecretCipher *)
    apply cipher_lo; try apply HW. apply HE.
  - (* EOpen *)
    unfold open_body. apply rel_call; [apply HW|]. intros failed. apply rel_emit; [constructor|].
    pose proof (provs_lookup p) as HPv.
    destruct failed.
    + apply rel_add_err. rel_bind_with tr_rel; [now apply HT|]. intros r1 r2 Hr.
      apply open_lo; try apply HW; try apply HE; [exact I|exact Hr].
    + destruct (alookup p (w_provs W1)) as [p1|], (alookup p (w_provs W2)) as [p2|]; simpl in HPv; try contradiction.
      * apply (rel_bind (fun _ _ : unit => True)); [now apply rel_ret|intro; mono_tac|intro; mono_tac|]. intros _ _ _.
        destruct HPv as (Ein & Hrest). rewrite Ein.
        rel_bind_with tr_rel; [now apply HT|]. intros r1 r2 Hr.
        apply open_lo; try apply HW; try apply HE; [simpl; split; auto|exact Hr].
      * apply rel_add_err. rel_bind_with tr_rel; [now apply HT|]. intros r1 r2 Hr.
        apply open_lo; try apply HW; try apply HE; [exact I|exact Hr].
Qed.

Lemma rel_oof {A B} (R : A -> B -> Prop) (a : A) (b : B) : mrel R (out_of_fuel ;;; ret a) (out_of_fuel ;;; ret b).
Proof. apply rel_ng_l, ng_bind_oof. intro; mono_tac. Qed.

Theorem eval_invariant : forall f, P_expr f /\ P_repr f /\ P_typed f /\ P_access f /\ P_walk f.
Proof.
  induction f as [|f (IHe & IHr & IHt & IHa & IHw)].
  - repeat apply conj; red; intros.
    + rewrite !eval_expr_O. apply rel_oof.
    + rewrite !eval_repr_O. apply rel_oof.
    + rewrite !eval_typed_O. apply rel_oof.
    + rewrite !eval_access_O. apply rel_oof.
    + rewrite !walk_O. apply rel_oof.
  - repeat apply conj.
    + now apply step_expr.
    + now apply step_repr.
    + now apply step_typed.
    + now apply step_access.
    + now apply step_walk.
Qed.

(* ---- environments and imports ---- *)
Definition imp_res_rel (r1 r2 : chain * list (string * chain)) : Prop :=
  lo_c (fst r1) (fst r2) /\ Forall2 (kv_rel lo_c) (snd r1) (snd r2).

Definition P_env (f : nat) : Prop := forall root name d1 d2,
  env_lo d1 d2 -> mrel lo_c (eval_env W1 f root name d1) (eval_env W2 f root name d2).

Lemma envs_lookup n : opt_rel load_lo (alookup n (w_envs W1)) (alookup n (w_envs W2)).
Proof. apply alookup_rel, HW. Qed.

Lemma rel_imports_go f root' : P_env f ->
  forall is base1 base2 my1 my2, lo_c base1 base2 -> Forall2 (kv_rel lo_c) my1 my2 ->
  mrel imp_res_rel (imports_go W1 f root' is base1 my1) (imports_go W2 f root' is base2 my2).
Proof.
  intros HEnv. induction is as [|[n merge] rest IH]; intros base1 base2 my1 my2 Hb Hmy.
  - rewrite !imports_go_nil. apply rel_ret. split; auto.
  - rewrite !imports_go_cons. apply rel_imps_get. intros i1 i2 Hi.
    destruct i1 as [i1|], i2 as [i2|]; simpl in Hi; try contradiction.
    + destruct Hi as [Ee Hv]. rewrite Ee. destruct (is_evaluating i2).
      * apply rel_add_err. now apply IH.
      * destruct (is_value i1) as [v1|], (is_value i2) as [v2|]; simpl in Hv; try contradiction; [|now apply IH].
        apply IH; [destruct merge; [now apply Forall2_app|exact Hb]|now apply ainsert_rel].
    + apply rel_call; [apply HW|]. intros failed. apply rel_emit; [constructor|].
      pose proof (envs_lookup n) as HL.
      assert (Lfail : mrel imp_res_rel
                (err ;;; imps_set n {| is_evaluating := false; is_value := None |} ;;; imports_go W1 f root' rest base1 my1)
                (err ;;; imps_set n {| is_evaluating := false; is_value := None |} ;;; imports_go W2 f root' rest base2 my2)).
      { apply rel_add_err. apply rel_imps_set; [split; [reflexivity|exact I]|]. now apply IH. }
      destruct failed; [exact Lfail|].
      destruct (alookup n (w_envs W1)) as [l1|], (alookup n (w_envs W2)) as [l2|]; simpl in HL; try contradiction;
        [|exact Lfail].
      destruct l1 as [| |d1], l2 as [| |d2]; simpl in HL; try contradiction; try exact Lfail.
      rel_bind_with (Forall2 lo_l); [now apply HEnv|].
      intros v1 v2 Hv. apply rel_imps_set; [split; [reflexivity|exact Hv]|].
      apply IH; [destruct merge; [now apply Forall2_app|exact Hb]|now apply ainsert_rel].
Qed.

Lemma context_chain_eq root cur : context_chain W1 root cur = context_chain W2 root cur.
Proof. unfold context_chain. now rewrite (wl_ctx _ _ _ HW). Qed.

Lemma env_ctx_lo root' name d1 d2 base1 base2 my1 my2 :
  env_lo d1 d2 -> lo_c base1 base2 -> Forall2 (kv_rel lo_c) my1 my2 ->
  E_lo (env_ctx W1 root' name d1 base1 my1) (env_ctx W2 root' name d2 base2 my2).
Proof.
  intros [_ Hv] Hb Hmy. constructor; cbn [env_ctx ec_name ec_root ec_values ec_base ec_imports ec_context]; auto.
  - eapply filter_rel; [|exact Hv]. intros a b [E _]. now rewrite E.
  - unfold imports_value. apply lo_c_single.
    replace (map (fun kc : string * chain => (fst kc, top_sch (snd kc))) my1)
      with (map (fun kc : string * chain => (fst kc, top_sch (snd kc))) my2).
    + now constructor.
    + symmetry. apply Forall2_map_eq. eapply Forall2_impl; [|exact Hmy]. intros a b [Ek Hab]. now rewrite Ek, (top_sch_lo _ _ Hab).
  - rewrite context_chain_eq. apply lo_c_refl.
Qed.

Theorem env_invariant : forall f, P_env f.
Proof.
  induction f as [|f IH]; intros root name d1 d2 Hd.
  - rewrite !eval_env_O. apply rel_oof.
  - rewrite !eval_env_S. cbv zeta. set (root' := if String.eqb root "" || String.eqb root "<yaml>" then name else root).
    apply rel_imps_set; [split; [reflexivity|exact I]|].
    apply (rel_bind imp_res_rel).
    + destruct Hd as [Ei _]. rewrite Ei. apply rel_imports_go; [exact IH|constructor|constructor].
    + intros [b m]. mono_tac.
    + intros [b m]. mono_tac.
    + intros [base1 my1] [base2 my2] [Hb Hmy]. cbn [fst snd] in Hb, Hmy.
      apply rel_imps_set; [split; [reflexivity|exact I]|].
      assert (EN : length (filter (fun kv => reserved (fst kv)) (ed_values d1)) =
                   length (filter (fun kv => reserved (fst kv)) (ed_values d2))).
      { eapply Forall2_length, filter_rel; [|apply Hd]. intros a b [E _]. now rewrite E. }
      rewrite EN. apply rel_add_err.
      pose proof (env_ctx_lo root' name d1 d2 _ _ _ _ Hd Hb Hmy) as HE.
      apply (proj1 (eval_invariant f)); [exact HE| |exact Hb].
      left. constructor. apply HE.
Qed.

End NI.
