(* Proofs/BuiltinsDen.v — a DENOTATION for expressions: [den W name xv e] is the value the documentation assigns to e
   given the exported final value xv of the environment (references are looked up in xv, built-ins are the
   functions [spec_*] of BuiltinsSpec.v applied to the denotations of their arguments).
   [den_sound]: under the memo invariants Q (RefSemMemo) and QB (BuiltinsMemo) of a diagnostic-free run, the value
   memoised for e at a position without inherited base (or for a scalar-valued e anywhere) exports to den e. *)
From Verif Require Import Base.Bytes Model.Chain Model.GoText Model.Envelope Model.Eval
  Proofs.EvalTotalBase Proofs.EvalTotalInv Proofs.EvalTotalOrder Proofs.EvalTotalSyntax Proofs.EvalTotalFail
  Proofs.EvalTotalRecover Proofs.EvalTotalBound
  Proofs.ChainAlgebraSorted Proofs.ChainAlgebraExport Proofs.RefSemAccess Proofs.RefSemWf Proofs.RefSemMemo
  Proofs.RefSem Proofs.RefSemSorted Proofs.RefSemMain Proofs.RefSem2Interp
  Proofs.BuiltinsKit Proofs.BuiltinsMemo Proofs.BuiltinsValidate Proofs.BuiltinsSpec.
From Coq Require Import Lia.

Definition bindo {A B} (o : option A) (f : A -> option B) : option B :=
  match o with Some a => f a | None => None end.

(* fn::secret on a ciphertext: the plaintext the decrypter returns, secret; nothing is claimed in check mode *)
Definition spec_cipher (W : world) (name repr : string) : option xval :=
  match decode_ct esc_params repr with
  | DOk ct =>
      if w_check W && negb (w_show W) then None
      else match w_decrypt W name ct with Some pt => Some (XScalar true false (SStr pt)) | None => None end
  | _ => None
  end.

(* the members of an object literal: declared keys (first occurrences, sorted), each with its denotation *)
Definition den_obj (l : list (string * expr)) (dl : list (string * option xval)) : option xval :=
  option_map (XObj false false)
    (mapM (fun k => match alookup k dl with Some (Some x) => Some (k, x) | _ => None end) (declared_keys_of l)).

(* string interpolation: defined when every reference is local and denotes a known scalar; the text is
   RefSem2Interp.interp_text; secret iff one of the referenced scalars is *)
Definition interp_part_ok (xv : xval) (tp : string * option path) : bool :=
  match snd tp with
  | None => true
  | Some p => local_path p && match x_access p xv with Some (XScalar _ false _) => true | _ => false end
  end.
Definition interp_part_secret (xv : xval) (tp : string * option path) : bool :=
  match snd tp with
  | Some p => match x_access p xv with Some (XScalar s _ _) => s | _ => false end
  | None => false
  end.
Definition spec_interp (xv : xval) (parts : list (string * option path)) : option xval :=
  if forallb (interp_part_ok xv) parts
  then Some (XScalar (existsb (interp_part_secret xv) parts) false (SStr (interp_text parts xv EmptyString)))
  else None.

Section DEN.
Variable W : world.
Variable name : string.
Variable xv : xval.

Fixpoint den (e : expr) : option xval :=
  match e with
  | ENull => Some (XScalar false false SNull)
  | EBool b => Some (XScalar false false (SBool b))
  | ENum t => Some (XScalar false false (SNum t))
  | EStr s => Some (XScalar false false (SStr s))
  | ESym p => if local_path p then x_access p xv else None
  | EArr l =>
      option_map (XArr false false)
        ((fix go (es : list expr) : option (list xval) :=
            match es with
            | [] => Some []
            | x :: r => match den x, go r with Some y, Some t => Some (y :: t) | _, _ => None end
            end) l)
  | EObj l =>
      den_obj l ((fix go (kvs : list (string * expr)) : list (string * option xval) :=
                    match kvs with [] => [] | (k, x) :: r => (k, den x) :: go r end) l)
  | EJoin d vs => bindo (den d) (fun xd => bindo (den vs) (fun xs => spec_join xd xs))
  | EToJSON e1 => bindo (den e1) spec_tojson
  | EFromJSON e1 => bindo (den e1) spec_fromjson
  | EToString e1 => bindo (den e1) spec_tostring_scalar
  | EToB64 e1 => bindo (den e1) spec_tob64
  | EFromB64 e1 => bindo (den e1) spec_fromb64
  | ESecretPlain s => Some (XScalar true false (SStr s))
  | ESecretCipher repr => spec_cipher W name repr
  | EOpen pname e1 => bindo (den e1) (spec_open W pname)
  | EInterp parts => spec_interp xv parts
  | EMissing => None
  end.

Lemma den_arr l : den (EArr l) = option_map (XArr false false) (mapM den l).
Proof. cbn [den]. f_equal. induction l as [|x r IH]; [reflexivity|]. cbn [mapM]. rewrite IH. reflexivity. Qed.

Lemma den_obj_eq l : den (EObj l) = den_obj l (map (fun kv => (fst kv, den (snd kv))) l).
Proof.
  cbn [den]. f_equal. induction l as [|[k x] r IH]; [reflexivity|]. cbn [map fst snd]. rewrite IH. reflexivity.
Qed.

Lemma alookup_map_den k (l : list (string * expr)) :
  alookup k (map (fun kv => (fst kv, den (snd kv))) l) = option_map den (alookup k l).
Proof.
  induction l as [|[k' x] r IH]; [reflexivity|]. cbn [map fst snd alookup].
  destruct (String.eqb k k'); [reflexivity|exact IH].
Qed.

(* expressions whose value is a single scalar layer: what is inherited under them is hidden *)
Definition scalar_valued (e : expr) : bool :=
  match e with
  | ENull | EBool _ | ENum _ | EStr _ | EInterp _ | EJoin _ _ | EToJSON _ | EToString _ | EToB64 _ | EFromB64 _
  | ESecretPlain _ | ESecretCipher _ => true
  | _ => false
  end.

End DEN.

(* ---------------- small list facts ---------------- *)
Lemma mapM_nth_all {A B} (g : A -> option B) : forall (l : list A) (out : list B),
  length l = length out ->
  (forall i a b, nth_error l i = Some a -> nth_error out i = Some b -> g a = Some b) -> mapM g l = Some out.
Proof.
  induction l as [|x r IH]; intros [|y t] Hlen H; try discriminate Hlen; [reflexivity|]. cbn [mapM].
  rewrite (H 0%nat x y eq_refl eq_refl), (IH t); [reflexivity|cbn in Hlen; lia|].
  intros i a b Ha Hb. apply (H (S i)); assumption.
Qed.

Lemma mapM_nth_inv {A B} (g : A -> option B) : forall (l : list A) (out : list B), mapM g l = Some out ->
  length out = length l /\ forall i a b, nth_error l i = Some a -> nth_error out i = Some b -> g a = Some b.
Proof.
  induction l as [|x r IH]; intros out H; cbn [mapM] in H.
  - injection H as <-. split; [reflexivity|]. intros [|i] a b Ha; discriminate Ha.
  - destruct (g x) as [y|] eqn:Eg; [|discriminate]. destruct (mapM g r) as [t|] eqn:Er; [|discriminate].
    injection H as <-. destruct (IH t eq_refl) as [Hl Hp]. split; [cbn [length]; lia|].
    intros [|i] a b Ha Hb; cbn [nth_error] in *; [congruence|eapply Hp; eassumption].
Qed.

Lemma x_depth_pos v : (1 <= x_depth v)%nat.
Proof. destruct v; cbn [x_depth]; lia. Qed.

Lemma fold_max_bound {A} (d : A -> nat) (n : nat) (l : list A) : forall a,
  (a <= n)%nat -> (forall x, In x l -> d x <= n)%nat -> (fold_left (fun a x => Nat.max a (d x)) l a <= n)%nat.
Proof.
  induction l as [|x r IH]; intros a Ha H; [exact Ha|]. cbn [fold_left]. apply IH.
  - pose proof (H x (or_introl eq_refl)). lia.
  - intros y Hy. apply H. right. exact Hy.
Qed.

Lemma x_depth_strs s u elems strs : mapM x_str elems = Some strs -> (x_depth (XArr s u elems) <= 2)%nat.
Proof.
  intro H. cbn [x_depth]. apply le_n_S. apply fold_max_bound; [lia|].
  intros x Hx. destruct (mapM_nth_inv _ _ _ H) as [_ Hp].
  destruct (In_nth_error _ _ Hx) as [i Hi].
  assert (Hlen : (i < length strs)%nat).
  { destruct (mapM_nth_inv _ _ _ H) as [Hl _]. rewrite Hl. apply nth_error_Some. rewrite Hi. discriminate. }
  destruct (nth_error strs i) as [t|] eqn:Et; [|apply nth_error_None in Et; lia].
  specialize (Hp i x t Hi Et). destruct x; try discriminate Hp. cbn [x_depth]. lia.
Qed.

(* what the specifications need of their arguments' depth *)
Lemma spec_join_depth xd xs xa : spec_join xd xs = Some xa ->
  (x_depth xd <= big_fuel /\ x_depth xs <= big_fuel)%nat.
Proof.
  intro H. unfold spec_join in H. destruct xd as [sd [|] [| | |dl]| |]; try discriminate H.
  destruct xs as [|sa [|] elems|]; try discriminate H.
  destruct (mapM x_str elems) as [strs|] eqn:Em; [|discriminate H].
  pose proof big_fuel_ge2. pose proof (x_depth_strs sa false elems strs Em). cbn [x_depth] in *. split; lia.
Qed.

Lemma spec_tojson_depth x xa : spec_tojson x = Some xa -> (x_depth x <= big_fuel)%nat.
Proof.
  unfold spec_tojson. destruct (x_has_unknown x); [discriminate|].
  destruct (Nat.leb (x_depth x) big_fuel) eqn:E; [|discriminate]. intros _. apply Nat.leb_le, E.
Qed.

Lemma spec_open_depth W pname x xa : spec_open W pname x = Some xa -> (x_depth x <= big_fuel)%nat.
Proof.
  unfold spec_open. destruct (alookup pname (w_provs W)) as [p|]; [|discriminate].
  destruct (pv_in p); [|discriminate].
  destruct (Nat.leb (x_depth x) big_fuel) eqn:E; [intros _; apply Nat.leb_le, E|].
  rewrite !orb_true_r. discriminate.
Qed.

Lemma scalar_depth (spec : xval -> option xval) x xa :
  (forall y, spec y <> None -> exists s u t, y = XScalar s u t) -> spec x = Some xa -> (x_depth x <= big_fuel)%nat.
Proof.
  intros H Hs. destruct (H x) as (s & u & t & ->); [rewrite Hs; discriminate|]. cbn [x_depth]. apply big_fuel_ge1.
Qed.

Lemma spec_fromjson_scalar y : spec_fromjson y <> None -> exists s u t, y = XScalar s u t.
Proof. destruct y; [eauto| |]; intro H; exfalso; apply H; reflexivity. Qed.
Lemma spec_tob64_scalar y : spec_tob64 y <> None -> exists s u t, y = XScalar s u t.
Proof. destruct y; [eauto| |]; intro H; exfalso; apply H; reflexivity. Qed.
Lemma spec_fromb64_scalar y : spec_fromb64 y <> None -> exists s u t, y = XScalar s u t.
Proof. destruct y; [eauto| |]; intro H; exfalso; apply H; reflexivity. Qed.
Lemma spec_tostring_scalar_scalar y : spec_tostring_scalar y <> None -> exists s u t, y = XScalar s u t.
Proof. destruct y; [eauto| |]; intro H; exfalso; apply H; reflexivity. Qed.

(* ------------------------------------------------------------------------------------------------ *)
(* soundness of the denotation                                                                       *)
(* ------------------------------------------------------------------------------------------------ *)
Section SOUND.
Variable W : world.
Variable E : ectx.
Variable m : memo_t.
Hypothesis HQ : Q E m.
Hypothesis HQB : QB W E m.
Hypothesis HQI : QI E m.
Variable c : chain.
Variable xv : xval.
Hypothesis Hd : done m (ec_name E, []) = Some c.
Hypothesis Hg : cgood c = true.
Hypothesis Hx : export big_fuel c = Some xv.

Notation dn := (den W (ec_name E) xv).
Notation arg0 id := (fst id, snd id ++ [IIdx 0]).
Notation arg1 id := (fst id, snd id ++ [IIdx 1]).

Lemma interp_hall parts : forallb (interp_part_ok xv) parts = true ->
  forall text p, In (text, Some p) parts ->
    local_path p = true /\ exists s0 x0, x_access p xv = Some (XScalar s0 false x0).
Proof.
  intros H text p Hin. rewrite forallb_forall in H. specialize (H _ Hin). unfold interp_part_ok in H. cbn [snd] in H.
  apply andb_prop in H. destruct H as [H1 H2]. split; [exact H1|].
  destruct (x_access p xv) as [[s0 [|] x0| |]|]; try discriminate H2. eauto.
Qed.

(* the secrecy the interpolation loop accumulates *)
Lemma interp_sem_sec : forall ps acc unk sec a u sc,
  (forall text p, In (text, Some p) ps -> local_path p = true /\ exists s0 x0, x_access p xv = Some (XScalar s0 false x0)) ->
  interp_sem E m ps acc unk sec = Some (a, u, sc) -> sc = sec || existsb (interp_part_secret xv) ps.
Proof.
  induction ps as [|[text [p|]] rest IH]; intros acc unk sec a u sc Hall H; cbn [interp_sem existsb] in *.
  - injection H as _ _ <-. rewrite orb_false_r. reflexivity.
  - destruct (aresolve E m p) as [pv|] eqn:Ea; [|discriminate].
    destruct (Hall text p (or_introl eq_refl)) as (Hloc & s0 & x0 & Hacc).
    assert (Hr : resolve m (root_of E) (ec_base E) (ec_name E, []) p = Some pv).
    { unfold aresolve in Ea. destruct p as [|a0 r0]; [discriminate Hloc|]. cbn [local_path] in Hloc.
      destruct (object_key a0) as [k0|]; [|exact Ea]. unfold reserved in Hloc.
      apply negb_true_iff, orb_false_iff in Hloc. destruct Hloc as [H1 H2]. rewrite H1, H2 in Ea. exact Ea. }
    destruct (resolve_denotes E m HQ p (root_of E) (ec_base E) (ec_name E, []) c pv (conj eq_refl eq_refl) eq_refl Hd Hg Hr
                big_fuel xv Hx) as (xk & Hxa & Hxe).
    rewrite Hacc in Hxa. injection Hxa as <-.
    destruct (export_scalar_inv _ _ _ _ Hxe) as (sch & r & ->).
    change (to_string (ts_need (LScalar s0 false sch x0 :: r)) (LScalar s0 false sch x0 :: r)) with (scalar_text x0, false, s0) in H.
    cbv beta iota in H.
    rewrite (IH _ _ _ _ _ _ (fun t q Hin => Hall t q (or_intror Hin)) H).
    unfold interp_part_secret at 2. cbn [snd]. rewrite Hacc, orb_assoc. reflexivity.
  - rewrite (IH _ _ _ _ _ _ (fun t q Hin => Hall t q (or_intror Hin)) H). reflexivity.
Qed.

Definition DenP (e : expr) : Prop :=
  forall id v xa, at_id E id e -> psec E (snd id) = false -> done m id = Some v -> dn e = Some xa ->
  (xbof E id = [] \/ scalar_valued e = true) ->
  forall fe, (x_depth xa <= fe)%nat -> export fe v = Some xa.

Lemma fe_nonzero xa fe : (x_depth xa <= fe)%nat -> fe <> 0%nat.
Proof. pose proof (x_depth_pos xa). lia. Qed.

(* what QB gives at a position *)
Lemma QB_at id e v : at_id E id e -> psec E (snd id) = false -> done m id = Some v ->
  exists X, v = X ++ xbof E id /\ BPost W E m id e false X.
Proof. intros Hat Hps Hdn. destruct (HQB id e v Hat Hdn) as (X & H1 & H2). rewrite Hps in H2. eauto. Qed.

Lemma child_facts id e stp y : at_id E id e -> child e stp = Some y ->
  at_id E (fst id, snd id ++ [stp]) y /\ psec E (snd (fst id, snd id ++ [stp])) = issec e /\
  xbof E (fst id, snd id ++ [stp]) = xbstep stp (xbof E id).
Proof.
  intros Hat Hc. split; [eapply at_id_child; eassumption|]. split; [apply (psec_child E id e stp Hat)|apply xbof_child].
Qed.

(* a scalar literal *)
Lemma den_scalar_case id v s0 t b fe :
  v = [LScalar s0 false b t] ++ xbof E id -> fe <> 0%nat -> export fe v = Some (XScalar s0 false t).
Proof. intros -> H. apply export_scalar_top, H. Qed.

(* one-argument built-ins with a string result *)
Lemma den_unary_str (post : chain -> chain) (spec : xval -> option xval) e1 :
  (forall v x xa, export big_fuel v = Some x -> spec x = Some xa -> is_str_result (post v) xa) ->
  (forall x xa, spec x = Some xa -> (x_depth x <= big_fuel)%nat) ->
  DenP e1 ->
  forall id e v xa, at_id E id e -> child e (IIdx 0) = Some e1 -> issec e = false ->
  (exists va, done m (arg0 id) = Some va /\ v = post va ++ xbof E id) ->
  bindo (dn e1) spec = Some xa ->
  forall fe, (x_depth xa <= fe)%nat -> export fe v = Some xa.
Proof.
  intros Hfwd Hdepth IH id e v xa Hat Hch Hns (va & Hda & ->) Hden fe Hfe.
  destruct (dn e1) as [x1|] eqn:E1; [|discriminate Hden]. cbn [bindo] in Hden.
  destruct (child_facts id e (IIdx 0) e1 Hat Hch) as (Hat1 & Hps1 & Hxb1). rewrite Hns in Hps1.
  assert (Hx1 : export big_fuel va = Some x1).
  { apply (IH (arg0 id) va x1 Hat1 Hps1 Hda E1); [left; rewrite Hxb1; reflexivity|]. eapply Hdepth, Hden. }
  apply str_result_export; [apply (Hfwd va x1 xa Hx1 Hden)|eapply fe_nonzero, Hfe].
Qed.

Theorem den_sound : forall e, DenP e.
Proof.
  induction e using expr_ind'; unfold DenP; intros id v xa Hat Hps Hdn Hden Hbs fe Hfe.
  - (* ENull *)
    destruct (QB_at id _ v Hat Hps Hdn) as (X & Hv & HB). cbn [BPost] in HB. subst X. injection Hden as <-.
    eapply den_scalar_case; [exact Hv|eapply fe_nonzero, Hfe].
  - destruct (QB_at id _ v Hat Hps Hdn) as (X & Hv & HB). cbn [BPost] in HB. subst X. injection Hden as <-.
    eapply den_scalar_case; [exact Hv|eapply fe_nonzero, Hfe].
  - destruct (QB_at id _ v Hat Hps Hdn) as (X & Hv & HB). cbn [BPost] in HB. subst X. injection Hden as <-.
    eapply den_scalar_case; [exact Hv|eapply fe_nonzero, Hfe].
  - destruct (QB_at id _ v Hat Hps Hdn) as (X & Hv & HB). cbn [BPost] in HB. subst X. injection Hden as <-.
    eapply den_scalar_case; [exact Hv|eapply fe_nonzero, Hfe].
  - (* EInterp *)
    cbn [den] in Hden. unfold spec_interp in Hden.
    destruct (forallb (interp_part_ok xv) parts) eqn:Eok; [|discriminate Hden]. injection Hden as <-.
    destruct (HQI id parts v Hat Hdn) as (a & u & sc & rest & Hsem & ->).
    pose proof (interp_hall parts Eok) as Hall.
    destruct (interp_sem_text E m HQ c xv Hd Hg Hx parts EmptyString false false a u sc Hall Hsem) as [-> ->].
    rewrite (interp_sem_sec parts EmptyString false false _ _ sc Hall Hsem). cbn [orb].
    unfold str_layer. apply export_scalar_top. eapply fe_nonzero, Hfe.
  - (* ESym *)
    destruct Hbs as [Hb|Hb]; [|discriminate Hb].
    destruct (HQ id _ v Hat Hdn) as [_ (w & Hw & Hvw)]. rewrite Hb, app_nil_r in Hvw. subst w.
    cbn [den] in Hden. destruct (local_path p) eqn:Hloc; [|discriminate Hden].
    assert (Hr : resolve m (root_of E) (ec_base E) (ec_name E, []) p = Some v).
    { unfold aresolve in Hw. destruct p as [|a0 r0]; [discriminate Hloc|]. cbn [local_path] in Hloc.
      destruct (object_key a0) as [k0|]; [|exact Hw]. unfold reserved in Hloc.
      apply negb_true_iff, orb_false_iff in Hloc. destruct Hloc as [H1 H2]. rewrite H1, H2 in Hw. exact Hw. }
    destruct (resolve_denotes E m HQ p (root_of E) (ec_base E) (ec_name E, []) c v (conj eq_refl eq_refl) eq_refl Hd Hg Hr
                big_fuel xv Hx) as (xk & Hxa & Hxe).
    rewrite Hden in Hxa. injection Hxa as <-. eapply export_fuel_depth; eassumption.
  - (* EArr *)
    destruct Hbs as [Hb|Hb]; [|discriminate Hb].
    destruct (HQ id _ v Hat Hdn) as [_ (cs & Hv & Hlen & Hcs)]. rewrite Hb in Hv. subst v.
    rewrite den_arr in Hden. destruct (mapM dn l) as [xs|] eqn:Em; [|discriminate Hden]. injection Hden as <-.
    destruct (mapM_nth_inv _ _ _ Em) as [Hlx Hpx].
    destruct fe as [|g]; [cbn [x_depth] in Hfe; lia|]. unfold arr_layer. rewrite export_S.
    rewrite (mapM_nth_all (export g) cs xs); [reflexivity|lia|].
    intros i vi xi Hvi Hxi.
    assert (Hi : (i < length l)%nat) by (rewrite <- Hlen; apply nth_error_Some; rewrite Hvi; discriminate).
    destruct (nth_error l i) as [ei|] eqn:Eei; [|apply nth_error_None in Eei; lia].
    rewrite Forall_forall in H.
    destruct (child_facts id (EArr l) (IIdx i) ei Hat Eei) as (Hat1 & Hps1 & Hxb1).
    apply (H ei (nth_error_In _ _ Eei) _ vi xi Hat1 Hps1 (Hcs i vi Hvi) (Hpx i ei xi Eei Hxi)).
    + left. rewrite Hxb1. reflexivity.
    + pose proof (x_depth_arr false false xs xi (nth_error_In _ _ Hxi)). lia.
  - (* EObj *)
    destruct Hbs as [Hb|Hb]; [|discriminate Hb].
    destruct (HQ id _ v Hat Hdn) as [_ (props & Hv & Hkeys & Hprops)]. rewrite Hb in Hv. subst v.
    rewrite den_obj_eq in Hden. unfold den_obj in Hden.
    match type of Hden with option_map _ ?mm = _ => destruct mm as [ms|] eqn:Em end; [|discriminate Hden].
    injection Hden as <-.
    destruct fe as [|g]; [cbn [x_depth] in Hfe; lia|]. unfold obj_layer. rewrite export_S.
    change (keys [LObj false false (ScObject (map (fun kc => (fst kc, top_sch (snd kc))) props) None) props])
      with (map fst props).
    rewrite Hkeys.
    rewrite (mapM_In_both _ _ _ Em
               (fun k => match export g (property k [LObj false false (ScObject (map (fun kc => (fst kc, top_sch (snd kc))) props) None) props])
                         with Some v => Some (k, v) | None => None end)); [reflexivity|].
    intros k kx Hk Hkx Hfk. rewrite alookup_map_den in Hfk.
    destruct (alookup k l) as [ek|] eqn:Eek; [|discriminate Hfk]. cbn [option_map] in Hfk.
    destruct (dn ek) as [x|] eqn:Edx; [|discriminate Hfk]. injection Hfk as <-.
    assert (Hin : In k (map fst props)) by (rewrite Hkeys; exact Hk).
    apply alookup_Some_In in Hin. destruct Hin as [vk Hvk].
    cbn [property]. rewrite Hvk, app_nil_r.
    rewrite Forall_forall in H.
    destruct (child_facts id (EObj l) (IKey k) ek Hat Eek) as (Hat1 & Hps1 & Hxb1).
    rewrite (H (k, ek) (alookup_in _ _ _ Eek) _ vk x Hat1 Hps1 (Hprops k vk Hvk) Edx); [reflexivity| |].
    + left. rewrite Hxb1, Hb. reflexivity.
    + pose proof (x_depth_obj false false ms (k, x) Hkx). cbn [snd] in *. lia.
  - (* EJoin *)
    destruct (QB_at id _ v Hat Hps Hdn) as (X & Hv & (dv & vv & Hdd & Hdv & ->)). subst v.
    cbn [den] in Hden. destruct (dn e1) as [xd|] eqn:E1; [|discriminate Hden]. cbn [bindo] in Hden.
    destruct (dn e2) as [xs|] eqn:E2; [|discriminate Hden]. cbn [bindo] in Hden.
    destruct (spec_join_depth _ _ _ Hden) as [Hdd1 Hdd2].
    destruct (child_facts id (EJoin e1 e2) (IIdx 0) e1 Hat eq_refl) as (Hat1 & Hps1 & Hxb1).
    destruct (child_facts id (EJoin e1 e2) (IIdx 1) e2 Hat eq_refl) as (Hat2 & Hps2 & Hxb2).
    assert (Hx1 : export big_fuel dv = Some xd).
    { apply (IHe1 _ dv xd Hat1 Hps1 Hdd E1); [left; rewrite Hxb1; reflexivity|exact Hdd1]. }
    assert (Hx2 : export big_fuel vv = Some xs).
    { apply (IHe2 _ vv xs Hat2 Hps2 Hdv E2); [left; rewrite Hxb2; reflexivity|exact Hdd2]. }
    apply str_result_export; [apply (join_fwd dv vv xd xs xa Hx1 Hx2 Hden)|eapply fe_nonzero, Hfe].
  - (* EToJSON *)
    destruct (QB_at id _ v Hat Hps Hdn) as (X & Hv & (va & Hda & ->)).
    apply (den_unary_str tojson_post spec_tojson e tojson_fwd spec_tojson_depth IHe id (EToJSON e) v xa Hat eq_refl eq_refl);
      [exists va; split; assumption|exact Hden|exact Hfe].
  - (* EFromJSON *)
    destruct Hbs as [Hb|Hb]; [|discriminate Hb].
    destruct (QB_at id _ v Hat Hps Hdn) as (X & Hv & (va & Hda & ->)). rewrite Hb, app_nil_r in Hv. subst v.
    cbn [den] in Hden. destruct (dn e) as [x1|] eqn:E1; [|discriminate Hden]. cbn [bindo] in Hden.
    destruct (child_facts id (EFromJSON e) (IIdx 0) e Hat eq_refl) as (Hat1 & Hps1 & Hxb1).
    assert (Hx1 : export big_fuel va = Some x1).
    { apply (IHe _ va x1 Hat1 Hps1 Hda E1); [left; rewrite Hxb1; reflexivity|].
      eapply (scalar_depth spec_fromjson); [exact spec_fromjson_scalar|exact Hden]. }
    eapply export_fuel_depth; [apply (fromjson_fwd va x1 xa Hx1 Hden)|exact Hfe].
  - (* EToString *)
    destruct (QB_at id _ v Hat Hps Hdn) as (X & Hv & (va & Hda & ->)).
    apply (den_unary_str tostring_post spec_tostring_scalar e tostring_fwd
             (fun x xa => scalar_depth spec_tostring_scalar x xa spec_tostring_scalar_scalar) IHe id (EToString e) v xa Hat eq_refl eq_refl);
      [exists va; split; assumption|exact Hden|exact Hfe].
  - (* EToB64 *)
    destruct (QB_at id _ v Hat Hps Hdn) as (X & Hv & (va & Hda & ->)).
    apply (den_unary_str tob64_post spec_tob64 e tob64_fwd
             (fun x xa => scalar_depth spec_tob64 x xa spec_tob64_scalar) IHe id (EToB64 e) v xa Hat eq_refl eq_refl);
      [exists va; split; assumption|exact Hden|exact Hfe].
  - (* EFromB64 *)
    destruct (QB_at id _ v Hat Hps Hdn) as (X & Hv & (va & Hda & ->)).
    apply (den_unary_str fromb64_post spec_fromb64 e fromb64_fwd
             (fun x xa => scalar_depth spec_fromb64 x xa spec_fromb64_scalar) IHe id (EFromB64 e) v xa Hat eq_refl eq_refl);
      [exists va; split; assumption|exact Hden|exact Hfe].
  - (* ESecretPlain *)
    destruct (QB_at id _ v Hat Hps Hdn) as (X & Hv & HB). cbn [BPost] in HB.
    destruct (child_facts id (ESecretPlain s) (IIdx 0) (EStr s) Hat eq_refl) as (Hat1 & Hps1 & Hxb1).
    destruct (HQB _ _ _ Hat1 HB) as (X1 & HX1 & HB1). rewrite Hps1 in HB1. cbn [BPost issec] in HB1.
    rewrite Hxb1 in HX1. cbn [xbstep] in HX1. rewrite app_nil_r in HX1. subst X1 X. injection Hden as <-.
    subst v. apply export_str_layer. eapply fe_nonzero, Hfe.
  - (* ESecretCipher *)
    destruct (QB_at id _ v Hat Hps Hdn) as (X & Hv & (ct & Hdec & HB)).
    cbn [den] in Hden. unfold spec_cipher in Hden. rewrite Hdec in Hden.
    destruct (w_check W && negb (w_show W)); [discriminate Hden|].
    destruct HB as (pt & Hpt & ->). rewrite Hpt in Hden. injection Hden as <-.
    subst v. apply export_str_layer. eapply fe_nonzero, Hfe.
  - (* EOpen *)
    destruct Hbs as [Hb|Hb]; [|discriminate Hb].
    destruct (QB_at id _ v Hat Hps Hdn) as (X & Hv & (iv & Hdi & Hop)). rewrite Hb, app_nil_r in Hv. subst v.
    cbn [den] in Hden. destruct (dn e) as [xin|] eqn:E1; [|discriminate Hden]. cbn [bindo] in Hden.
    destruct (child_facts id (EOpen p e) (IIdx 0) e Hat eq_refl) as (Hat1 & Hps1 & Hxb1).
    assert (Hx1 : export big_fuel iv = Some xin).
    { apply (IHe _ iv xin Hat1 Hps1 Hdi E1); [left; rewrite Hxb1; reflexivity|]. eapply spec_open_depth, Hden. }
    eapply export_fuel_depth; [apply (open_fwd W p iv X xin xa Hop Hx1 Hden)|exact Hfe].
  - (* EMissing *) discriminate Hden.
Qed.

End SOUND.
