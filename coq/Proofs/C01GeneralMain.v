(* Proofs/C01GeneralMain.v — C01 for arbitrary programs: decidable forms of the side conditions, the boundary of the
   compatibility hypothesis (computed witnesses, the second one CONFIRMED ON THE GO IMPLEMENTATION), and a worked example
   world with references, an interpolation, a secret, a provider, fn::toJSON, a diamond, a repeated import, a
   merge:false import read through imports.<x>, and a failing load. *)
From Verif Require Import Base.Bytes Model.Chain Model.GoText Model.Envelope Model.Eval Corr.C01.
From Verif Require Import Proofs.ChainAlgebraSorted Proofs.ChainAlgebraExport Proofs.ChainAlgebra.
From Verif Require Proofs.ChainAlgebraLink Proofs.ChainAlgebraEnv Proofs.MemoRelMain Proofs.EvalTotalBase Proofs.EvalTotalBound.
From Verif Require Import Proofs.RefSemAccess Proofs.RefSemWf Proofs.C01GeneralChain Proofs.C01GeneralEnv.
From Coq Require Import Lia.
Local Open Scope nat_scope.

(* ================= decidable forms of the hypotheses ================= *)
Definition standalone_ok_b (W : world) (fu : string -> nat) (rt : string -> string) (d : envdef) : bool :=
  forallb (fun im : string * bool =>
             match env_of W (fst im) with
             | Some dn => negb (oof (snd (eval_env W (fu (fst im)) (rt (fst im)) (fst im) dn st0)))
             | None => true
             end) (ed_imports d).

Lemma standalone_ok_b_ok W fu rt d : standalone_ok_b W fu rt d = true -> standalone_ok W fu rt d.
Proof.
  unfold standalone_ok_b. intros H n mg dn Hin Hdn. rewrite forallb_forall in H. specialize (H (n, mg) Hin).
  cbn [fst] in H. rewrite Hdn in H. now destruct (oof _).
Qed.

(* a boolean check over every loadable environment of a world *)
Definition all_envs_b (W : world) (P : string -> envdef -> bool) : bool :=
  forallb (fun nl : string * env_load => match env_of W (fst nl) with Some d => P (fst nl) d | None => true end) (w_envs W).

Lemma all_envs_b_ok W P : all_envs_b W P = true -> forall n d, env_of W n = Some d -> P n d = true.
Proof.
  unfold all_envs_b. intros H n d Hn. rewrite forallb_forall in H.
  assert (X : In (n, LoadOk d) (w_envs W)).
  { unfold ChainAlgebraEnv.env_of in Hn. destruct (alookup n (w_envs W)) as [[| |d']|] eqn:E; try discriminate.
    injection Hn as ->. now apply alookup_In. }
  specialize (H _ X). cbn [fst] in H. now rewrite Hn in H.
Qed.

(* ================= the full statement (no compatibility hypothesis) and its refutation ================= *)
Definition C01_general_statement (compat_required : bool) : Prop :=
  forall (W : world) (rank : string -> nat),
    w_fault W = None ->
    (forall n d im, env_of W n = Some d -> In im (ed_imports d) -> rank (fst im) < rank n) ->
    (forall n d, env_of W n = Some d -> no_context_reference d) ->
    forall (fuel : nat) (root name : string) (d : envdef) (fu : string -> nat) (rt : string -> string),
      env_of W name = Some d -> oof (snd (eval_env W fuel root name d st0)) = false -> standalone_ok W fu rt d ->
      let c := fst (eval_env W fuel root name d st0) in
      let gs := mvals W (sval W fu rt) (ed_imports d) in
      (if compat_required then groups_compat (own_layer c :: rev gs) = true else True) ->
      jx c = fold_left mp' (map jx gs ++ [jx (own_layer c)]) (JObj []).

Theorem C01_general_statement_compat : C01_general_statement true.
Proof. intros W rank HF HR HN fuel root name d fu rt. apply (C01_general W rank HF HR HN). Qed.

Definition mkW (check : bool) (envs : list (string * env_load)) (provs : list (string * provider)) : world :=
  {| w_envs := envs; w_provs := provs; w_ctx := []; w_check := check; w_show := false; w_fault := None;
     w_decrypt := fun _ _ => None |}.

Definition fu40 (_ : string) : nat := 40.
Definition rt0 (_ : string) : string := EmptyString.

(* ---------- witness 1: the cut travels through a REFERENCE and is invisible in every exported value ---------- *)
(* F  y: 5          E imports [F]  y: {c: 3}, x: ${y}          G  x: {b: 2}          D imports [G, E]  (no own values)
   ${y} is y's chain [{c:3}; 5]: an object over a non-object.  In D, below it lies G's x: {b: 2}, which the 5 cuts off.
   hc_W2: the same with E importing nothing; then ${y} is [{c:3}] and G's object shows through.
   E and G export EXACTLY the same values in both worlds.   Go (eval.EvalEnvironment, snapshot of /repo) agrees with both. *)
Definition hc_F : envdef := {| ed_imports := []; ed_values := [("y", ENum "5")] |}.
Definition hc_E : envdef :=
  {| ed_imports := [("F", true)]; ed_values := [("y", EObj [("c", ENum "3")]); ("x", ESym [AName "y"])] |}.
Definition hc_E2 : envdef :=
  {| ed_imports := []; ed_values := [("y", EObj [("c", ENum "3")]); ("x", ESym [AName "y"])] |}.
Definition hc_G : envdef := {| ed_imports := []; ed_values := [("x", EObj [("b", ENum "2")])] |}.
Definition hc_D : envdef := {| ed_imports := [("G", true); ("E", true)]; ed_values := [] |}.
Definition hc_W1 : world := mkW false [("F", LoadOk hc_F); ("E", LoadOk hc_E); ("G", LoadOk hc_G); ("D", LoadOk hc_D)] [].
Definition hc_W2 : world := mkW false [("F", LoadOk hc_F); ("E", LoadOk hc_E2); ("G", LoadOk hc_G); ("D", LoadOk hc_D)] [].
Definition hc_rank (n : string) : nat := if String.eqb n "D" then 2 else if String.eqb n "E" then 1 else 0.

Definition hc_c (W : world) : chain := fst (eval_env W 40 "" "D" hc_D st0).
Definition hc_gs (W : world) : list chain := mvals W (sval W fu40 rt0) (ed_imports hc_D).

Theorem hidden_cut :
  (* the same imports' values and the same own layer ... *)
  map jx (hc_gs hc_W1) = [JObj [("x", JObj [("b", JNum "2")])]; JObj [("x", JObj [("c", JNum "3")]); ("y", JObj [("c", JNum "3")])]]
  /\ map jx (hc_gs hc_W2) = map jx (hc_gs hc_W1)
  /\ jx (own_layer (hc_c hc_W1)) = JObj [] /\ jx (own_layer (hc_c hc_W2)) = JObj []
  (* ... the fold they demand ... *)
  /\ fold_left mp' (map jx (hc_gs hc_W1) ++ [jx (own_layer (hc_c hc_W1))]) (JObj [])
     = JObj [("x", JObj [("b", JNum "2"); ("c", JNum "3")]); ("y", JObj [("c", JNum "3")])]
  (* ... is the value in world 2 but not in world 1 *)
  /\ jx (hc_c hc_W2) = JObj [("x", JObj [("b", JNum "2"); ("c", JNum "3")]); ("y", JObj [("c", JNum "3")])]
  /\ jx (hc_c hc_W1) = JObj [("x", JObj [("c", JNum "3")]); ("y", JObj [("c", JNum "3")])]
  (* the condition of the theorem tells them apart *)
  /\ groups_compat (own_layer (hc_c hc_W1) :: rev (hc_gs hc_W1)) = false
  /\ groups_compat (own_layer (hc_c hc_W2) :: rev (hc_gs hc_W2)) = true
  (* neither run reports anything *)
  /\ nerr (snd (eval_env hc_W1 40 "" "D" hc_D st0)) = 0%N /\ oof (snd (eval_env hc_W1 40 "" "D" hc_D st0)) = false.
Proof. vm_compute. repeat split. Qed.

Lemma hc_hyps :
  MemoRelMain.acyclic_b hc_W1 hc_rank = true /\ MemoRelMain.no_context_b hc_W1 = true
  /\ oof (snd (eval_env hc_W1 40 "" "D" hc_D st0)) = false /\ standalone_ok_b hc_W1 fu40 rt0 hc_D = true.
Proof. vm_compute. repeat split. Qed.

Theorem C01_general_statement_refuted : ~ C01_general_statement false.
Proof.
  intros H. destruct hc_hyps as (HA & HN & HO & HS).
  specialize (H hc_W1 hc_rank eq_refl (MemoRelMain.acyclic_b_ok _ _ HA) (MemoRelMain.no_context_b_ok _ HN)
                40 "" "D" hc_D fu40 rt0 eq_refl HO (standalone_ok_b_ok _ _ _ _ HS) I).
  destruct hidden_cut as (_ & _ & _ & _ & E1 & _ & E2 & _).
  unfold hc_c, hc_gs in E1, E2. cbv zeta in H. rewrite E1, E2 in H. clear -H. discriminate H.
Qed.

(* no condition on the imports' exported values and the exported own layer can be exact: it would have to hold of world 2
   (where the fold is the value) and fail of world 1 (where it is not), on the same data *)
Theorem C01_values_condition_impossible :
  ~ exists P : list json -> json -> Prop,
      forall (W : world) (c : chain) (gs : list chain),
        (W = hc_W1 /\ c = hc_c hc_W1 /\ gs = hc_gs hc_W1) \/ (W = hc_W2 /\ c = hc_c hc_W2 /\ gs = hc_gs hc_W2) ->
        (P (map jx gs) (jx (own_layer c)) <-> jx c = fold_left mp' (map jx gs ++ [jx (own_layer c)]) (JObj [])).
Proof.
  intros [P HP].
  destruct hidden_cut as (_ & Eg & Eo1 & Eo2 & EF & E2 & E1 & _).
  pose proof (HP hc_W1 _ _ (or_introl (conj eq_refl (conj eq_refl eq_refl)))) as H1.
  pose proof (HP hc_W2 _ _ (or_intror (conj eq_refl (conj eq_refl eq_refl)))) as H2.
  assert (Eo : jx (own_layer (hc_c hc_W2)) = jx (own_layer (hc_c hc_W1))) by (rewrite Eo1; exact Eo2).
  rewrite Eg, Eo in H2. rewrite EF in H1, H2. rewrite E1 in H1. rewrite E2 in H2.
  assert (X : P (map jx (hc_gs hc_W1)) (jx (own_layer (hc_c hc_W1)))) by (apply H2; reflexivity).
  apply H1 in X. clear -X. discriminate X.
Qed.

(* ---------- witness 2: the known finding C01-assoc (literals): an object over a non-object inside one import ---------- *)
Definition ka_A : envdef := {| ed_imports := []; ed_values := [("x", EObj [("a", ENum "1")])] |}.
Definition ka_B : envdef := {| ed_imports := []; ed_values := [("x", ENum "5")] |}.
Definition ka_F : envdef := {| ed_imports := []; ed_values := [("x", EObj [("c", ENum "3")])] |}.
Definition ka_D : envdef := {| ed_imports := [("A", true); ("B", true)]; ed_values := [("x", EObj [("b", ENum "2")])] |}.
Definition ka_E : envdef := {| ed_imports := [("F", true); ("D", true)]; ed_values := [] |}.
Definition ka_W : world :=
  mkW false [("A", LoadOk ka_A); ("B", LoadOk ka_B); ("F", LoadOk ka_F); ("D", LoadOk ka_D); ("E", LoadOk ka_E)] [].

Theorem known_assoc :
  let c := fst (eval_env ka_W 40 "" "E" ka_E st0) in
  let gs := mvals ka_W (sval ka_W fu40 rt0) (ed_imports ka_E) in
  jx c = JObj [("x", JObj [("b", JNum "2")])]
  /\ fold_left mp' (map jx gs ++ [jx (own_layer c)]) (JObj []) = JObj [("x", JObj [("b", JNum "2"); ("c", JNum "3")])]
  /\ groups_compat (own_layer c :: rev gs) = false.
Proof. vm_compute. repeat split. Qed.

(* ---------- witness 3: an UNKNOWN layer is a non-object cut (check mode: the provider is not opened) ---------- *)
(* F  x: fn::open p {}  (unknown while checking)     E imports [F]  x: {c: 3}     G  x: {b: 2}     D imports [G, E] *)
Definition uk_F : envdef := {| ed_imports := []; ed_values := [("x", EOpen "p" (EObj []))] |}.
Definition uk_E : envdef := {| ed_imports := [("F", true)]; ed_values := [("x", EObj [("c", ENum "3")])] |}.
Definition uk_D : envdef := {| ed_imports := [("G", true); ("E", true)]; ed_values := [] |}.
Definition uk_W : world :=
  mkW true [("F", LoadOk uk_F); ("E", LoadOk uk_E); ("G", LoadOk hc_G); ("D", LoadOk uk_D)]
      [("p", {| pv_in := InAlways; pv_out := ScAlways; pv_beh := PEcho |})].

Theorem unknown_cut :
  let c := fst (eval_env uk_W 40 "" "D" uk_D st0) in
  let gs := mvals uk_W (sval uk_W fu40 rt0) (ed_imports uk_D) in
  map jx gs = [JObj [("x", JObj [("b", JNum "2")])]; JObj [("x", JObj [("c", JNum "3")])]]
  /\ jx c = JObj [("x", JObj [("c", JNum "3")])]
  /\ fold_left mp' (map jx gs ++ [jx (own_layer c)]) (JObj []) = JObj [("x", JObj [("b", JNum "2"); ("c", JNum "3")])]
  /\ groups_compat (own_layer c :: rev gs) = false
  /\ nerr (snd (eval_env uk_W 40 "" "D" uk_D st0)) = 0%N.
Proof. vm_compute. repeat split. Qed.

(* ================= worlds without fn::toJSON / fn::fromJSON: the fuel hypotheses are syntactic ================= *)
(* above EvalTotalBound.fuel_bound no run exhausts its fuel (C07_fuel_suffices), so both "does not run out of fuel"
   hypotheses of the theorem are discharged by the text of the world *)
Definition fu_bound (W : world) (n : string) : nat :=
  match env_of W n with Some dn => EvalTotalBound.fuel_bound W dn | None => 0 end.

Lemma world_no_json_import W d n dn :
  EvalTotalBound.world_no_json W d = true -> env_of W n = Some dn -> EvalTotalBound.world_no_json W dn = true.
Proof.
  unfold EvalTotalBound.world_no_json. intros H Hn. apply andb_true_iff in H. destruct H as [_ H].
  apply andb_true_iff. split; [|exact H]. rewrite forallb_forall in H.
  assert (X : In (n, LoadOk dn) (w_envs W)).
  { unfold ChainAlgebraEnv.env_of in Hn. destruct (alookup n (w_envs W)) as [[| |d']|] eqn:E; try discriminate.
    injection Hn as ->. now apply alookup_In. }
  exact (H _ X).
Qed.

Theorem C01_general_nojson (W : world) (rank : string -> nat) :
  w_fault W = None ->
  (forall n d im, env_of W n = Some d -> In im (ed_imports d) -> rank (fst im) < rank n) ->
  (forall n d, env_of W n = Some d -> no_context_reference d) ->
  forall (fuel : nat) (name : string) (d : envdef),
    env_of W name = Some d -> EvalTotalBound.world_no_json W d = true -> EvalTotalBound.fuel_bound W d <= fuel ->
    let c := fst (eval_env W fuel "" name d st0) in
    let gs := mvals W (sval W (fu_bound W) rt0) (ed_imports d) in
    groups_compat (own_layer c :: rev gs) = true ->
    jx c = fold_left mp' (map jx gs ++ [jx (own_layer c)]) (JObj []).
Proof.
  intros HF HR HN fuel name d Hd Hj Hf. apply (C01_general W rank HF HR HN fuel "" name d (fu_bound W) rt0 Hd).
  - now apply EvalTotalBound.fuel_suffices.
  - intros n mg dn _ Hdn. unfold fu_bound, rt0. rewrite Hdn.
    apply EvalTotalBound.fuel_suffices; [exact (world_no_json_import W d n dn Hj Hdn)|lia].
Qed.

(* the JSON-free form on world 2 of the hidden-cut pair: every fuel from the textual bound (30) on *)
Lemma hc2_hyps :
  MemoRelMain.acyclic_b hc_W2 hc_rank = true /\ MemoRelMain.no_context_b hc_W2 = true
  /\ EvalTotalBound.world_no_json hc_W2 hc_D = true /\ EvalTotalBound.fuel_bound hc_W2 hc_D = 30
  /\ groups_compat (own_layer (fst (eval_env hc_W2 30 "" "D" hc_D st0))
                    :: rev (mvals hc_W2 (sval hc_W2 (fu_bound hc_W2) rt0) (ed_imports hc_D))) = true.
Proof. vm_compute. repeat split. Qed.

Example C01_general_nojson_D : forall fuel, 30 <= fuel ->
  jx (fst (eval_env hc_W2 fuel "" "D" hc_D st0)) = JObj [("x", JObj [("b", JNum "2"); ("c", JNum "3")]); ("y", JObj [("c", JNum "3")])].
Proof.
  intros fuel Hf. destruct hc2_hyps as (HA & HN & HJ & HB & HC).
  assert (O30 : oof (snd (eval_env hc_W2 30 "" "D" hc_D st0)) = false)
    by (apply EvalTotalBound.fuel_suffices; [exact HJ|rewrite HB; lia]).
  rewrite (EvalTotalBase.fuel_monotone_env hc_W2 30 fuel "" "D" hc_D st0 Hf eq_refl O30).
  rewrite (C01_general_nojson hc_W2 hc_rank eq_refl (MemoRelMain.acyclic_b_ok _ _ HA) (MemoRelMain.no_context_b_ok _ HN)
             30 "D" hc_D eq_refl HJ ltac:(rewrite HB; lia) HC).
  vm_compute. reflexivity.
Qed.

(* ================= a worked example ================= *)
(* base <- X <- L <- Rt; Rt also lists M (merge:false), base, X again, and an environment that does not exist *)
Definition g_base : envdef :=
  {| ed_imports := []; ed_values := [("k", EStr "v"); ("n", ENum "1"); ("o", EObj [("p", ENum "1")])] |}.
Definition g_X : envdef :=
  {| ed_imports := [("base", true)];
     ed_values := [("a", ESym [AName "k"]);                                          (* a reference into its own import *)
                   ("b", EInterp [("pre-", Some [AName "k"]); ("-post", None)]);   (* an interpolation *)
                   ("c", ESecretPlain "s3cr3t");                                     (* a secret *)
                   ("d", EOpen "echo" (EObj [("in", ESym [AName "a"])]));            (* a provider (echo) *)
                   ("o", EObj [("q", ESym [AName "n"])])] |}.                        (* deep merge over base's o *)
Definition g_M : envdef := {| ed_imports := []; ed_values := [("z", EStr "only-by-name"); ("k", EStr "never-merged")] |}.
Definition g_L : envdef := {| ed_imports := [("X", true)]; ed_values := [("l", ESym [AName "o"; AName "p"])] |}.
Definition g_Rt : envdef :=
  {| ed_imports := [("L", true); ("M", false); ("base", true); ("X", true); ("nope", true)];
     ed_values := [("d", EObj [("lit", EBool true)]);                              (* a literal over the provider's output *)
                   ("r", ESym [AName "imports"; AName "M"; AName "z"]);           (* the merge:false import, by name *)
                   ("s", ESym [AName "d"; AName "in"]);                            (* through the literal into the output *)
                   ("j", EToJSON (ESym [AName "o"]))] |}.
Definition g_W (check : bool) : world :=
  mkW check [("base", LoadOk g_base); ("X", LoadOk g_X); ("M", LoadOk g_M); ("L", LoadOk g_L); ("Rt", LoadOk g_Rt)]
      [("echo", {| pv_in := InAlways; pv_out := ScAlways; pv_beh := PEcho |})].
Definition g_rank (n : string) : nat :=
  if String.eqb n "Rt" then 3 else if String.eqb n "L" then 2 else if String.eqb n "X" then 1 else 0.

Definition g_c (check : bool) : chain := fst (eval_env (g_W check) 60 "" "Rt" g_Rt st0).
Definition g_gs (check : bool) : list chain := mvals (g_W check) (sval (g_W check) fu40 rt0) (ed_imports g_Rt).

Lemma g_hyps (check : bool) :
  MemoRelMain.acyclic_b (g_W check) g_rank = true /\ MemoRelMain.no_context_b (g_W check) = true
  /\ oof (snd (eval_env (g_W check) 60 "" "Rt" g_Rt st0)) = false /\ standalone_ok_b (g_W check) fu40 rt0 g_Rt = true
  /\ groups_compat (own_layer (fst (eval_env (g_W check) 60 "" "Rt" g_Rt st0))
                    :: rev (mvals (g_W check) (sval (g_W check) fu40 rt0) (ed_imports g_Rt))) = true.
Proof. destruct check; vm_compute; repeat split. Qed.

(* the groups: L, base, X in listing order (M is merge:false, nope cannot be loaded); one diagnostic (the failing load) *)
Example g_groups :
  map jx (g_gs false) =
    [JObj [("a", JStr "v"); ("b", JStr "pre-v-post"); ("c", JStr "s3cr3t"); ("d", JObj [("in", JStr "v")]); ("k", JStr "v");
           ("l", JNum "1"); ("n", JNum "1"); ("o", JObj [("p", JNum "1"); ("q", JNum "1")])];
     JObj [("k", JStr "v"); ("n", JNum "1"); ("o", JObj [("p", JNum "1")])];
     JObj [("a", JStr "v"); ("b", JStr "pre-v-post"); ("c", JStr "s3cr3t"); ("d", JObj [("in", JStr "v")]); ("k", JStr "v");
           ("n", JNum "1"); ("o", JObj [("p", JNum "1"); ("q", JNum "1")])]]
  /\ jx (own_layer (g_c false)) =
       JObj [("d", JObj [("in", JStr "v"); ("lit", JBool true)]); ("j", JStr "{""p"":1,""q"":1}"); ("r", JStr "only-by-name");
             ("s", JStr "v")]
  /\ nerr (snd (eval_env (g_W false) 60 "" "Rt" g_Rt st0)) = 1%N.
Proof. vm_compute. repeat split. Qed.

(* the theorem applied: whatever the export fuel, the exported value is the fold *)
Example C01_general_Rt : forall fx v,
  export fx (fst (eval_env (g_W false) 60 "" "Rt" g_Rt st0)) = Some v ->
  xjson v = JObj [("a", JStr "v"); ("b", JStr "pre-v-post"); ("c", JStr "s3cr3t");
                  ("d", JObj [("in", JStr "v"); ("lit", JBool true)]); ("j", JStr "{""p"":1,""q"":1}"); ("k", JStr "v");
                  ("l", JNum "1"); ("n", JNum "1"); ("o", JObj [("p", JNum "1"); ("q", JNum "1")]);
                  ("r", JStr "only-by-name"); ("s", JStr "v")].
Proof.
  intros fx v E. destruct (g_hyps false) as (HA & HN & HO & HS & HC).
  destruct (C01_general_export (g_W false) g_rank eq_refl (MemoRelMain.acyclic_b_ok _ _ HA) (MemoRelMain.no_context_b_ok _ HN)
              60 "" "Rt" g_Rt fu40 rt0 eq_refl HO (standalone_ok_b_ok _ _ _ _ HS) HC fx v E) as [H _].
  rewrite H. vm_compute. reflexivity.
Qed.

(* the same world while CHECKING: the provider is not opened, d is unknown in X; Rt's literal d: {lit: true} lies over an
   unknown layer, which cuts; the theorem applies all the same *)
Example C01_general_Rt_check : forall fx v,
  export fx (fst (eval_env (g_W true) 60 "" "Rt" g_Rt st0)) = Some v ->
  xjson v = JObj [("a", JStr "v"); ("b", JStr "pre-v-post"); ("c", JStr "s3cr3t");
                  ("d", JObj [("lit", JBool true)]); ("j", JStr "{""p"":1,""q"":1}"); ("k", JStr "v");
                  ("l", JNum "1"); ("n", JNum "1"); ("o", JObj [("p", JNum "1"); ("q", JNum "1")]);
                  ("r", JStr "only-by-name"); ("s", JStr "[unknown]")].
Proof.
  intros fx v E. destruct (g_hyps true) as (HA & HN & HO & HS & HC).
  destruct (C01_general_export (g_W true) g_rank eq_refl (MemoRelMain.acyclic_b_ok _ _ HA) (MemoRelMain.no_context_b_ok _ HN)
              60 "" "Rt" g_Rt fu40 rt0 eq_refl HO (standalone_ok_b_ok _ _ _ _ HS) HC fx v E) as [H _].
  rewrite H. vm_compute. reflexivity.
Qed.

(* structure: the chain is the own layer on the chains of X, base, L (last listed first); M and nope contribute nothing *)
Example g_structure :
  g_c false = own_layer (g_c false) ++ sval (g_W false) fu40 rt0 "X" ++ sval (g_W false) fu40 rt0 "base" ++ sval (g_W false) fu40 rt0 "L"
  /\ length (g_c false) = 7.
Proof. vm_compute. split; reflexivity. Qed.

(* imports.M is M opened on its own although M is merge:false (and M's k never reaches the merged value) *)
Example g_imports_M : forall k,
  exists f' my sm,
    let base := concat (rev (g_gs false)) in
    let E := env_ctx (g_W false) "Rt" "Rt" g_Rt base my in
    eval_env (g_W false) 60 "" "Rt" g_Rt st0 = eval_expr (g_W false) f' E (EObj (ec_values E)) false base ("Rt", []) sm
    /\ value_access (S (S k)) (ec_imports E) [AName "M"] = (fst (eval_env (g_W false) 40 "" "M" g_M st0), 0%N).
Proof.
  intros k. destruct (g_hyps false) as (HA & HN & HO & HS & _).
  destruct (imports_readable (g_W false) g_rank eq_refl (MemoRelMain.acyclic_b_ok _ _ HA) (MemoRelMain.no_context_b_ok _ HN)
              60 "" "Rt" g_Rt fu40 rt0 eq_refl HO (standalone_ok_b_ok _ _ _ _ HS)) as (f' & my & sm & Q & R).
  exists f', my, sm. cbv zeta in *. split; [exact Q|].
  exact (proj1 (R "M" false g_M k (or_intror (or_introl eq_refl)) eq_refl)).
Qed.

(* every depth: Rt's value is the nested fold in which L's value is the fold of X's value and L's own layer, X's value the
   fold of base's value and X's own layer, ... (X is reached twice, base three times) *)
Lemma g_deep_hyps :
  all_envs_b (g_W false) (fun n d => negb (oof (snd (eval_env (g_W false) (fu40 n) (rt0 n) n d st0)))) = true
  /\ all_envs_b (g_W false) (fun n d => groups_compat (own_layer (sval (g_W false) fu40 rt0 n)
                                                       :: rev (mvals (g_W false) (sval (g_W false) fu40 rt0) (ed_imports d)))) = true.
Proof. vm_compute. split; reflexivity. Qed.

Example C01_general_deep_Rt :
  jx (sval (g_W false) fu40 rt0 "Rt") = deepfold (g_W false) fu40 rt0 4 "Rt"
  /\ deepfold (g_W false) fu40 rt0 4 "Rt"
     = JObj [("a", JStr "v"); ("b", JStr "pre-v-post"); ("c", JStr "s3cr3t");
             ("d", JObj [("in", JStr "v"); ("lit", JBool true)]); ("j", JStr "{""p"":1,""q"":1}"); ("k", JStr "v");
             ("l", JNum "1"); ("n", JNum "1"); ("o", JObj [("p", JNum "1"); ("q", JNum "1")]);
             ("r", JStr "only-by-name"); ("s", JStr "v")].
Proof.
  destruct (g_hyps false) as (HA & HN & _). destruct g_deep_hyps as [H1 H2]. split.
  - apply (C01_general_deep (g_W false) g_rank eq_refl (MemoRelMain.acyclic_b_ok _ _ HA) (MemoRelMain.no_context_b_ok _ HN) fu40 rt0)
      with (d := g_Rt).
    + intros n d Hd. pose proof (all_envs_b_ok _ _ H1 n d Hd) as X. cbv beta in X. now destruct (oof _).
    + intros n d Hd. exact (all_envs_b_ok _ _ H2 n d Hd).
    + reflexivity.
    + vm_compute. lia.
  - vm_compute. reflexivity.
Qed.
