(* Proofs/BuiltinsMemo.v — the memo-table invariant for the built-ins: in a diagnostic-free run the value memoised for
   a built-in expression is a PURE function ([*_post]) of the values memoised for its argument expressions, on top
   of the base handed down to its identity.  The pure functions are the model's own code after the argument
   evaluations (no state), so nothing is lost; what they compute is related to the specification on exported values
   in BuiltinsSpec.v. *)
From Verif Require Import Base.Bytes Model.Chain Model.GoText Model.Envelope Model.Eval
  Proofs.EvalTotalBase Proofs.EvalTotalInv Proofs.EvalTotalOrder Proofs.EvalTotalSyntax Proofs.EvalTotalFail
  Proofs.EvalTotalRecover Proofs.EvalTotalBound Proofs.ChainAlgebraExport Proofs.RefSemMemo Proofs.BuiltinsKit.
From Coq Require Import Lia.

(* ------------------------------------------------------------------------------------------------ *)
(* 1. the code of the built-ins after their arguments are evaluated: monadic tails and pure results    *)
(* ------------------------------------------------------------------------------------------------ *)
Definition str_of (c : chain) : string := match c with LScalar _ _ _ (SStr s) :: _ => s | _ => "" end.
Definition strs_of (c : chain) : list string :=
  match c with LArr _ _ _ elems :: _ => map str_of elems | _ => [] end.

Definition join_tail (dr vr : chain * bool) : M chain :=
  let '(dv, dok) := dr in let '(vv, vok) := vr in
  if negb dok || negb vok then ret [unknown_layer false (ScType "string")]
  else
    let '(unk, sec) := combine2 dv vv in
    if unk then ret [LScalar sec true (ScType "string") SNull]
    else
      let strs := match vv with
                  | LArr _ _ _ elems :: _ =>
                      map (fun e => match e with LScalar _ _ _ (SStr s) :: _ => s | _ => "" end) elems
                  | _ => []
                  end in
      let dl := match dv with LScalar _ _ _ (SStr s) :: _ => s | _ => "" end in
      ret [str_layer sec false (sjoin dl strs)].

Definition join_pure (dr vr : chain * bool) : chain :=
  let '(dv, dok) := dr in let '(vv, vok) := vr in
  if negb dok || negb vok then [unknown_layer false (ScType "string")]
  else
    let '(unk, sec) := combine2 dv vv in
    if unk then [LScalar sec true (ScType "string") SNull]
    else [str_layer sec false (sjoin (str_of dv) (strs_of vv))].

Definition fromb64_tail (r : chain * bool) : M chain :=
  let '(v, ok) := r in
  if negb ok then ret [unknown_layer false (ScType "string")]
  else
    let unk := contains_unknowns v in let sec := contains_secrets v in
    if unk then ret [LScalar sec true (ScType "string") SNull]
    else match v with
         | LScalar _ _ _ (SStr s) :: _ =>
             match b64_decode s with
             | Some b => ret [str_layer sec false b]
             | None => err ;;; ret [LScalar sec true (ScType "string") SNull]
             end
         | _ => ret [LScalar sec true (ScType "string") SNull]
         end.

Definition fromb64_pure (r : chain * bool) : chain :=
  let '(v, ok) := r in
  if negb ok then [unknown_layer false (ScType "string")]
  else
    let unk := contains_unknowns v in let sec := contains_secrets v in
    if unk then [LScalar sec true (ScType "string") SNull]
    else match v with
         | LScalar _ _ _ (SStr s) :: _ =>
             match b64_decode s with
             | Some b => [str_layer sec false b]
             | None => [LScalar sec true (ScType "string") SNull]
             end
         | _ => [LScalar sec true (ScType "string") SNull]
         end.

Definition tob64_tail (r : chain * bool) : M chain :=
  let '(v, ok) := r in
  if negb ok then ret [unknown_layer false (ScType "string")]
  else
    let unk := contains_unknowns v in let sec := contains_secrets v in
    if unk then ret [LScalar sec true (ScType "string") SNull]
    else match v with
         | LScalar _ _ _ (SStr s) :: _ => ret [str_layer sec false (b64_encode s)]
         | _ => ret [LScalar sec true (ScType "string") SNull]
         end.

Definition tob64_pure (r : chain * bool) : chain :=
  let '(v, ok) := r in
  if negb ok then [unknown_layer false (ScType "string")]
  else
    let unk := contains_unknowns v in let sec := contains_secrets v in
    if unk then [LScalar sec true (ScType "string") SNull]
    else match v with
         | LScalar _ _ _ (SStr s) :: _ => [str_layer sec false (b64_encode s)]
         | _ => [LScalar sec true (ScType "string") SNull]
         end.

Definition fromjson_tail (r : chain * bool) : M chain :=
  let '(v, ok) := r in
  if negb ok then ret [unknown_layer false ScAlways]
  else
    let unk := contains_unknowns v in let sec := contains_secrets v in
    if unk then ret [LScalar sec true ScAlways SNull]
    else match v with
         | LScalar _ _ _ (SStr s) :: _ =>
             match json_parse s with
             | JPOk j => ret (unexport (S (x_depth (json_to_x (S (json_depth j)) sec j))) false (json_to_x (S (json_depth j)) sec j))
             | JPErr => err ;;; ret [LScalar sec true ScAlways SNull]
             | JPUnsupported => out_of_fuel ;;; ret invalid_access
             end
         | _ => ret [LScalar sec true ScAlways SNull]
         end.

Definition fromjson_pure (r : chain * bool) : chain :=
  let '(v, ok) := r in
  if negb ok then [unknown_layer false ScAlways]
  else
    let unk := contains_unknowns v in let sec := contains_secrets v in
    if unk then [LScalar sec true ScAlways SNull]
    else match v with
         | LScalar _ _ _ (SStr s) :: _ =>
             match json_parse s with
             | JPOk j => unexport (S (x_depth (json_to_x (S (json_depth j)) sec j))) false (json_to_x (S (json_depth j)) sec j)
             | JPErr => [LScalar sec true ScAlways SNull]
             | JPUnsupported => invalid_access
             end
         | _ => [LScalar sec true ScAlways SNull]
         end.

Definition tojson_tail (v : chain) : M chain :=
  let unk := contains_unknowns v in let sec := contains_secrets v in
  if unk then ret [LScalar sec true (ScType "string") SNull]
  else match export big_fuel v with
       | Some xv => let j := x_to_json (S (x_depth xv)) xv in
                    if json_all_ascii (S (json_depth j)) j
                    then ret [str_layer sec false (json_print (S (json_depth j)) j)]
                    else out_of_fuel ;;; ret invalid_access
       | None => out_of_fuel ;;; ret invalid_access
       end.

Definition tojson_post (v : chain) : chain :=
  let unk := contains_unknowns v in let sec := contains_secrets v in
  if unk then [LScalar sec true (ScType "string") SNull]
  else match export big_fuel v with
       | Some xv => let j := x_to_json (S (x_depth xv)) xv in
                    if json_all_ascii (S (json_depth j)) j
                    then [str_layer sec false (json_print (S (json_depth j)) j)]
                    else invalid_access
       | None => invalid_access
       end.

Definition tostring_tail (v : chain) : M chain :=
  let '(s, unk, sec) := to_string (ts_need v) v in
  if unk then ret [LScalar sec true (ScType "string") SNull] else ret [str_layer sec false s].

Definition tostring_post (v : chain) : chain :=
  let '(s, unk, sec) := to_string (ts_need v) v in
  if unk then [LScalar sec true (ScType "string") SNull] else [str_layer sec false s].

Definition join_post (dv vv : chain) : chain := join_pure (dv, vok AccString dv) (vv, vok AccArrString vv).
Definition fromb64_post (v : chain) : chain := fromb64_pure (v, vok AccString v).
Definition tob64_post (v : chain) : chain := tob64_pure (v, vok AccString v).
Definition fromjson_post (v : chain) : chain := fromjson_pure (v, vok AccString v).

Lemma join_tail_fixed dr vr : fixedv (join_tail dr vr) (join_pure dr vr).
Proof.
  destruct dr as [dv dok], vr as [vv vok']. unfold join_tail, join_pure.
  destruct (negb dok || negb vok'); [apply fixedv_ret|].
  destruct (combine2 dv vv) as [unk sec]. destruct unk; apply fixedv_ret.
Qed.
Lemma fromb64_tail_fixed r : fixedv (fromb64_tail r) (fromb64_pure r).
Proof.
  destruct r as [v ok]. unfold fromb64_tail, fromb64_pure. cbv zeta.
  destruct (negb ok); [apply fixedv_ret|]. destruct (contains_unknowns v); [apply fixedv_ret|].
  destruct v as [|[s u sc [| | |t]| |] r]; try apply fixedv_ret.
  destruct (b64_decode t); [apply fixedv_ret|apply fixedv_err_ret].
Qed.
Lemma tob64_tail_fixed r : fixedv (tob64_tail r) (tob64_pure r).
Proof.
  destruct r as [v ok]. unfold tob64_tail, tob64_pure. cbv zeta.
  destruct (negb ok); [apply fixedv_ret|]. destruct (contains_unknowns v); [apply fixedv_ret|].
  destruct v as [|[s u sc [| | |t]| |] r]; apply fixedv_ret.
Qed.
Lemma fromjson_tail_fixed r : fixedv (fromjson_tail r) (fromjson_pure r).
Proof.
  destruct r as [v ok]. unfold fromjson_tail, fromjson_pure. cbv zeta.
  destruct (negb ok); [apply fixedv_ret|]. destruct (contains_unknowns v); [apply fixedv_ret|].
  destruct v as [|[s u sc [| | |t]| |] r]; try apply fixedv_ret.
  destruct (json_parse t); [apply fixedv_ret|apply fixedv_err_ret|apply fixedv_oof_ret].
Qed.
Lemma tojson_tail_fixed v : fixedv (tojson_tail v) (tojson_post v).
Proof.
  unfold tojson_tail, tojson_post. cbv zeta. destruct (contains_unknowns v); [apply fixedv_ret|].
  destruct (export big_fuel v) as [xv|]; [|apply fixedv_oof_ret].
  destruct (json_all_ascii _ _); [apply fixedv_ret|apply fixedv_oof_ret].
Qed.
Lemma tostring_tail_fixed v : fixedv (tostring_tail v) (tostring_post v).
Proof.
  unfold tostring_tail, tostring_post. destruct (to_string (ts_need v) v) as [[s unk] sec].
  destruct unk; apply fixedv_ret.
Qed.

(* the secret ciphertext and the provider call consult the world: what a clean run can have produced *)
(* [esc_params] (the envelope parameters of esc ciphertexts) is Proofs/EvalTotalFail.v's *)

Definition cipher_post (W : world) (E : ectx) (repr : string) (X : chain) : Prop :=
  exists ct, decode_ct esc_params repr = DOk ct /\
    if w_check W && negb (w_show W) then X = [LScalar true true (ScType "string") SNull]
    else exists pt, w_decrypt W (ec_name E) ct = Some pt /\ X = [str_layer true false pt].

Definition prov_out (p : provider) (xin : xval) : option xval :=
  match pv_beh p with PEcho => Some xin | PConst v => Some v | PFail => None end.

Definition open_post (W : world) (pname : string) (iv X : chain) : Prop :=
  exists p, alookup pname (w_provs W) = Some p /\
    if negb (vok (AccIn (pv_in p)) iv) || contains_unknowns iv || w_check W then X = [unknown_layer false (pv_out p)]
    else exists s u m o, export_t iv = Some (XObj s u m) /\ prov_out p (XObj s u m) = Some o /\
                         X = unexport (S (x_depth o)) false o.

(* ------------------------------------------------------------------------------------------------ *)
(* 2. the invariant                                                                                  *)
(* ------------------------------------------------------------------------------------------------ *)
Section BMEMO.
Variable W : world.
Variable E : ectx.

Notation arg0 id := (fst id, snd id ++ [IIdx 0]).
Notation arg1 id := (fst id, snd id ++ [IIdx 1]).

(* what is memoised for x at id, above the base handed down; b is the xsec flag of the call (psec) *)
Definition BPost (m : memo_t) (id : eid) (x : expr) (b : bool) (X : chain) : Prop :=
  match x with
  | ENull => X = [LScalar false false (ScType "null") SNull]
  | EBool t => X = [LScalar false false (ScType "boolean") (SBool t)]
  | ENum t => X = [LScalar false false (ScType "number") (SNum t)]
  | EStr t => X = [str_layer b false t]
  | EJoin _ _ => exists dv vv, done m (arg0 id) = Some dv /\ done m (arg1 id) = Some vv /\ X = join_post dv vv
  | EToJSON _ => exists v, done m (arg0 id) = Some v /\ X = tojson_post v
  | EFromJSON _ => exists v, done m (arg0 id) = Some v /\ X = fromjson_post v
  | EToString _ => exists v, done m (arg0 id) = Some v /\ X = tostring_post v
  | EToB64 _ => exists v, done m (arg0 id) = Some v /\ X = tob64_post v
  | EFromB64 _ => exists v, done m (arg0 id) = Some v /\ X = fromb64_post v
  | ESecretPlain _ => done m (arg0 id) = Some X
  | ESecretCipher repr => cipher_post W E repr X
  | EOpen pname _ => exists iv, done m (arg0 id) = Some iv /\ open_post W pname iv X
  | _ => True
  end.

Lemma BPost_mono m m' id x b X : donele m m' -> BPost m id x b X -> BPost m' id x b X.
Proof.
  intros Hle H. destruct x; cbn [BPost] in *; try exact H.
  - destruct H as (dv & vv & H1 & H2 & H3). exists dv, vv. repeat split; auto.
  - destruct H as (v & H1 & H2). exists v. split; auto.
  - destruct H as (v & H1 & H2). exists v. split; auto.
  - destruct H as (v & H1 & H2). exists v. split; auto.
  - destruct H as (v & H1 & H2). exists v. split; auto.
  - destruct H as (v & H1 & H2). exists v. split; auto.
  - apply Hle, H.
  - destruct H as (v & H1 & H2). exists v. split; auto.
Qed.

Definition QB (m : memo_t) : Prop :=
  forall id x v, at_id E id x -> done m id = Some v ->
  exists X, v = X ++ xbof E id /\ BPost m id x (psec E (snd id)) X.
Definition JB (s : st) : Prop := clean s -> QB (memo s).

Lemma QB_entry_mono m m' id x (v : chain) : donele m m' ->
  (exists X, v = X ++ xbof E id /\ BPost m id x (psec E (snd id)) X) ->
  (exists X, v = X ++ xbof E id /\ BPost m' id x (psec E (snd id)) X).
Proof. intros Hle (X & H1 & H2). exists X. split; [exact H1|eapply BPost_mono; eassumption]. Qed.

Lemma JB_same s s' : memo s' = memo s -> (clean s' -> clean s) -> JB s -> JB s'.
Proof. intros Hm Hc HJ Hc'. rewrite Hm. apply HJ, Hc, Hc'. Qed.
Lemma JB_add_err n s : JB s -> JB (snd (add_err n s)).
Proof. apply JB_same; [reflexivity|]. intros [Hn Ho]. cbn [add_err snd nerr oof] in *. split; [lia|exact Ho]. Qed.
Lemma JB_emit e s : JB s -> JB (snd (emit e s)).
Proof. apply JB_same; [reflexivity|]. intro H. exact H. Qed.
Lemma JB_call s : JB s -> JB (snd (call W s)).
Proof. apply JB_same; [reflexivity|]. intro H. exact H. Qed.
Lemma JB_oof s : JB s -> JB (snd (out_of_fuel s)).
Proof. intros _ [_ H]. discriminate H. Qed.

Notation kb := (keeps JB).

Lemma expr_body_JB er x xsec xbase id :
  at_id E id x -> xbase = xbof E id -> xsec = psec E (snd id) ->
  kb (er x xbase id) -> mono (er x xbase id) -> pres frozen (er x xbase id) ->
  (forall s1, clean (snd (er x xbase id s1)) ->
     BPost (memo (snd (er x xbase id s1))) id x false (fst (er x xbase id s1))) ->
  kb (expr_body er x xsec xbase id).
Proof.
  intros Hid Hxb Hsec Hk Hmono Hfro Hpost s HJ. unfold expr_body. rewrite bind_eq.
  change (get_memo id s) with (memo_get id (memo s), s). cbn [fst snd].
  destruct (memo_get id (memo s)) as [[v|]|] eqn:Em.
  - exact HJ.
  - intro H. exfalso. exact (not_clean_bump s H).
  - rewrite bind_eq. cbv beta. rewrite bind_eq. cbv beta zeta. rewrite bind_eq.
    set (s1 := snd (memo_set id None s)).
    assert (Hd0 : done (memo s) id = None) by (unfold done; rewrite Em; reflexivity).
    assert (HJ1 : JB s1).
    { intro Hc1. assert (Hc : clean s) by exact Hc1. specialize (HJ Hc).
      intros id' x' v' Hat Hd. cbn [s1 memo_set snd memo] in Hd |- *.
      destruct (eid_eqb id' id) eqn:Eq.
      - apply eid_eqb_eq in Eq. subst id'. rewrite done_cons_self in Hd. discriminate Hd.
      - rewrite done_cons_other in Hd by exact Eq.
        eapply QB_entry_mono; [apply donele_cons, Hd0|apply (HJ id' x' v' Hat Hd)]. }
    pose proof (Hk s1 HJ1) as HJ2. pose proof (Hfro s1) as Hf12. pose proof (Hpost s1) as Hp.
    set (r := er x xbase id s1) in *. set (s2 := snd r) in *. set (v := fst r) in *.
    intro Hc3. assert (Hc2 : clean s2) by exact Hc3. specialize (HJ2 Hc2). specialize (Hp Hc2).
    assert (Hd2 : done (memo s2) id = None).
    { unfold done. rewrite (Hf12 id); cbn [s1 memo_set snd memo]; rewrite memo_get_cons, eid_eqb_refl;
        [reflexivity|discriminate]. }
    set (v2 := (if xsec then opt_top_sec v else v) ++ xbase).
    cbn [ret snd memo_set memo].
    assert (Hle : donele (memo s2) ((id, Some v2) :: memo s2)) by (apply donele_cons, Hd2).
    intros id' x' v' Hat Hd. destruct (eid_eqb id' id) eqn:Eq.
    + apply eid_eqb_eq in Eq. subst id'. rewrite done_cons_self in Hd. injection Hd as <-.
      rewrite (at_id_fun E _ _ _ Hat Hid). clear Hat x'.
      exists (if xsec then opt_top_sec v else v). split; [unfold v2; rewrite Hxb; reflexivity|].
      rewrite <- Hsec. destruct xsec.
      * destruct (psec_true_str E id x Hid (eq_sym Hsec)) as [t ->]. cbn [BPost] in Hp |- *. rewrite Hp. reflexivity.
      * eapply BPost_mono; [exact Hle|exact Hp].
    + rewrite done_cons_other in Hd by exact Eq. eapply QB_entry_mono; [exact Hle|apply (HJ2 id' x' v' Hat Hd)].
Qed.

(* ---- what eval_repr returns for the built-ins, in terms of the memo table it leaves ---- *)
Lemma typed_then_fixed f e a id (tail : chain * bool -> M chain) (pure : chain * bool -> chain) s :
  (forall r, fixedv (tail r) (pure r)) ->
  let t := bind (eval_typed W f E e a id) tail s in
  clean (snd t) ->
  exists v, done (memo (snd t)) id = Some v /\ fst t = pure (v, vok a v) /\
            clean (snd (eval_typed W f E e a id s)) /\ memo (snd t) = memo (snd (eval_typed W f E e a id s)).
Proof.
  intros Hfix t Hc. unfold t in *. rewrite bind_eq in *.
  set (c1 := eval_typed W f E e a id s) in *.
  destruct (Hfix (fst c1) (snd c1)) as (Hv & Hm & Hle).
  assert (Hc1 : clean (snd c1)) by (eapply clean_le; eassumption).
  destruct (eval_typed_done W E f e a id s Hc1) as [Hd Hok]. fold c1 in Hd, Hok.
  exists (fst (fst c1)). rewrite Hm, Hv. split; [exact Hd|]. split; [|split; [exact Hc1|reflexivity]].
  rewrite <- Hok. destruct (fst c1); reflexivity.
Qed.

Definition open_tail (id : eid) (pname : string) (prov : option provider) (r : chain * bool) : M chain :=
  let out_s := match prov with Some p => pv_out p | None => ScAlways end in
  let '(iv, ok) := r in
  match prov with
  | None => ret [unknown_layer false out_s]
  | Some p =>
      if negb ok || contains_unknowns iv || w_check W then ret [unknown_layer false out_s]
      else match export_t iv with
           | Some (XObj s u m as xin) =>
               failed2 <- call W ;;
               emit (EvOpen id pname xin (ec_root E) (ec_name E)) ;;;
               let out := if failed2 then None
                          else match pv_beh p with PEcho => Some xin | PConst v => Some v | PFail => None end in
               match out with
               | Some o => ret (unexport (S (x_depth o)) false o)
               | None => err ;;; ret [unknown_layer false out_s]
               end
           | Some _ => err ;;; ret [unknown_layer false out_s]
           | None => out_of_fuel ;;; ret invalid_access
           end
  end.

Lemma repr_open ee et ea pname inputs xbase id :
  repr_body W ee et ea E (EOpen pname inputs) xbase id =
  (failed <- call W ;;
   emit (EvLoadProvider pname) ;;;
   let prov := if failed then None else alookup pname (w_provs W) in
   (match prov with None => err | Some _ => ret tt end) ;;;
   let in_s := match prov with Some p => pv_in p | None => InAlways end in
   r <- et inputs (AccIn in_s) (arg0 id) ;;
   open_tail id pname prov r).
Proof. unfold repr_body, open_tail. reflexivity. Qed.

Lemma open_tail_mono id pname prov r : mono (open_tail id pname prov r).
Proof.
  unfold open_tail. destruct r as [iv ok]. cbv zeta. destruct prov as [p|]; [|apply mono_ret].
  destruct (negb ok || contains_unknowns iv || w_check W); [apply mono_ret|].
  destruct (export_t iv) as [[s0 u t|s0 u l|s0 u m]|]; mono_tac; apply mono_call.
Qed.

Lemma open_tail_post id pname p iv ok s :
  clean (snd (open_tail id pname (Some p) (iv, ok) s)) ->
  memo (snd (open_tail id pname (Some p) (iv, ok) s)) = memo s /\
  (if negb ok || contains_unknowns iv || w_check W
   then fst (open_tail id pname (Some p) (iv, ok) s) = [unknown_layer false (pv_out p)]
   else exists s0 u m o, export_t iv = Some (XObj s0 u m) /\ prov_out p (XObj s0 u m) = Some o /\
                         fst (open_tail id pname (Some p) (iv, ok) s) = unexport (S (x_depth o)) false o).
Proof.
  unfold open_tail. cbv zeta.
  destruct (negb ok || contains_unknowns iv || w_check W); [intros _; split; reflexivity|].
  destruct (export_t iv) as [[s0 u t|s0 u l|s0 u m]|];
    try (intro Hc; exfalso; exact (not_clean_after_err (ret _) s (mono_ret _) Hc)).
  - rewrite bind_eq, bind_eq. unfold prov_out.
    set (s1 := snd (emit (EvOpen id pname (XObj s0 u m) (ec_root E) (ec_name E)) (snd (call W s)))).
    destruct (fst (call W s)).
    { intro Hc. exfalso. exact (not_clean_after_err (ret _) s1 (mono_ret _) Hc). }
    destruct (pv_beh p) as [|cv|].
    + intros _. split; [reflexivity|]. exists s0, u, m, (XObj s0 u m). split; [reflexivity|split; reflexivity].
    + intros _. split; [reflexivity|]. exists s0, u, m, cv. split; [reflexivity|split; reflexivity].
    + intro Hc. exfalso. exact (not_clean_after_err (ret _) s1 (mono_ret _) Hc).
  - intro Hc. exfalso. exact (not_clean_after_oof (ret _) s (mono_ret _) Hc).
Qed.

Lemma repr_tojson ee et ea x xbase id :
  repr_body W ee et ea E (EToJSON x) xbase id = bind (ee x false [] (arg0 id)) tojson_tail.
Proof. unfold repr_body, tojson_tail. reflexivity. Qed.
Lemma repr_fromjson ee et ea x xbase id :
  repr_body W ee et ea E (EFromJSON x) xbase id = bind (et x AccString (arg0 id)) fromjson_tail.
Proof. unfold repr_body, fromjson_tail. reflexivity. Qed.
Lemma repr_tostring ee et ea x xbase id :
  repr_body W ee et ea E (EToString x) xbase id = bind (ee x false [] (arg0 id)) tostring_tail.
Proof. unfold repr_body, tostring_tail. reflexivity. Qed.
Lemma repr_tob64 ee et ea x xbase id :
  repr_body W ee et ea E (EToB64 x) xbase id = bind (et x AccString (arg0 id)) tob64_tail.
Proof. unfold repr_body, tob64_tail. reflexivity. Qed.
Lemma repr_fromb64 ee et ea x xbase id :
  repr_body W ee et ea E (EFromB64 x) xbase id = bind (et x AccString (arg0 id)) fromb64_tail.
Proof. unfold repr_body, fromb64_tail. reflexivity. Qed.
Lemma repr_join ee et ea d vs xbase id :
  repr_body W ee et ea E (EJoin d vs) xbase id =
  (dr <- et d AccString (arg0 id) ;; bind (et vs AccArrString (arg1 id)) (join_tail dr)).
Proof. unfold repr_body, join_tail. reflexivity. Qed.

Lemma eval_repr_postB f x xbase id s :
  clean (snd (eval_repr W f E x xbase id s)) ->
  BPost (memo (snd (eval_repr W f E x xbase id s))) id x false (fst (eval_repr W f E x xbase id s)).
Proof.
  destruct f as [|f]; [intros [_ H]; discriminate H|]. rewrite eval_repr_S.
  destruct x; unfold BPost; try exact (fun _ => I); try (intros _; reflexivity).
  - (* EJoin *)
    rewrite repr_join.
    rewrite bind_eq. cbv beta. set (c1 := eval_typed W f E x1 AccString (arg0 id) s).
    intro Hc.
    destruct (typed_then_fixed f x2 AccArrString (arg1 id) (join_tail (fst c1)) (join_pure (fst c1)) (snd c1)
                (join_tail_fixed (fst c1)) Hc) as (vv & Hdv & Hval & Hc2 & Hm).
    assert (Hc1 : clean (snd c1)) by (eapply clean_le; [apply eval_typed_mono|exact Hc2]).
    destruct (eval_typed_done W E f x1 AccString (arg0 id) s Hc1) as [Hdd Hok]. fold c1 in Hdd, Hok.
    exists (fst (fst c1)), vv. split; [|split; [exact Hdv|]].
    + rewrite Hm. apply (frozen_donele _ _ (proj1 (proj2 (proj2 (F5_all W f))) E x2 AccArrString (arg1 id) (snd c1))).
      exact Hdd.
    + rewrite Hval. unfold join_post. rewrite <- Hok. destruct (fst c1); reflexivity.
  - (* EToJSON *)
    rewrite repr_tojson.
    rewrite bind_eq. set (c1 := eval_expr W f E x false [] (arg0 id) s). intro Hc.
    destruct (tojson_tail_fixed (fst c1) (snd c1)) as (Hv & Hm & Hle).
    exists (fst c1). rewrite Hm, Hv. split; [|reflexivity].
    apply (eval_expr_done W E f x false [] (arg0 id) s). fold c1. eapply clean_le; eassumption.
  - (* EFromJSON *)
    rewrite repr_fromjson.
    intro Hc. destruct (typed_then_fixed f x AccString (arg0 id) fromjson_tail fromjson_pure s fromjson_tail_fixed Hc)
      as (v & Hd & Hval & _ & _).
    exists v. split; [exact Hd|exact Hval].
  - (* EToString *)
    rewrite repr_tostring.
    rewrite bind_eq. set (c1 := eval_expr W f E x false [] (arg0 id) s). intro Hc.
    destruct (tostring_tail_fixed (fst c1) (snd c1)) as (Hv & Hm & Hle).
    exists (fst c1). rewrite Hm, Hv. split; [|reflexivity].
    apply (eval_expr_done W E f x false [] (arg0 id) s). fold c1. eapply clean_le; eassumption.
  - (* EToB64 *)
    rewrite repr_tob64.
    intro Hc. destruct (typed_then_fixed f x AccString (arg0 id) tob64_tail tob64_pure s tob64_tail_fixed Hc)
      as (v & Hd & Hval & _ & _).
    exists v. split; [exact Hd|exact Hval].
  - (* EFromB64 *)
    rewrite repr_fromb64.
    intro Hc. destruct (typed_then_fixed f x AccString (arg0 id) fromb64_tail fromb64_pure s fromb64_tail_fixed Hc)
      as (v & Hd & Hval & _ & _).
    exists v. split; [exact Hd|exact Hval].
  - (* ESecretPlain *)
    apply eval_expr_done.
  - (* ESecretCipher *)
    unfold repr_body, cipher_post. fold esc_params.
    destruct (decode_ct esc_params repr) as [ct| | | | | |] eqn:Ed;
      try (intro Hc; exfalso; exact (not_clean_after_err (ret _) s (mono_ret _) Hc)).
    destruct (w_check W && negb (w_show W)) eqn:Ecs.
    { intros _. exists ct. split; [reflexivity|]. reflexivity. }
    rewrite bind_eq, bind_eq. set (s1 := snd (emit (EvDecrypt (ec_name E) ct) (snd (call W s)))).
    destruct (fst (call W s)).
    + intro Hc. exfalso. exact (not_clean_after_err (ret _) s1 (mono_ret _) Hc).
    + destruct (w_decrypt W (ec_name E) ct) as [pt|] eqn:Edc.
      * intros _. exists ct. split; [reflexivity|]. exists pt. split; [exact Edc|reflexivity].
      * intro Hc. exfalso. exact (not_clean_after_err (ret _) s1 (mono_ret _) Hc).
  - (* EOpen *)
    rewrite repr_open. rewrite bind_eq, bind_eq. cbv zeta.
    set (s1 := snd (emit (EvLoadProvider provider) (snd (call W s)))).
    destruct (if fst (call W s) then None else alookup provider (w_provs W)) as [p|] eqn:Ep.
    + assert (Hal : alookup provider (w_provs W) = Some p).
      { destruct (fst (call W s)); [discriminate|exact Ep]. }
      rewrite bind_eq. cbn [ret snd]. rewrite bind_eq.
      set (c1 := eval_typed W f E x (AccIn (pv_in p)) (arg0 id) s1).
      destruct (fst c1) as [iv ok] eqn:Ec1. intro Hc.
      destruct (open_tail_post id provider p iv ok (snd c1) Hc) as [Hm Hres].
      assert (Hc1 : clean (snd c1)) by (eapply clean_le; [apply open_tail_mono|exact Hc]).
      destruct (eval_typed_done W E f x (AccIn (pv_in p)) (arg0 id) s1 Hc1) as [Hd Hok]. fold c1 in Hd, Hok.
      rewrite Ec1 in Hd, Hok. cbn [fst snd] in Hd, Hok.
      exists iv. rewrite Hm. split; [exact Hd|]. exists p. split; [exact Hal|]. rewrite <- Hok. exact Hres.
    + intro Hc. exfalso. revert Hc. apply (not_clean_after_err _ s1).
      apply mono_bind; [apply eval_typed_mono|intro r; apply open_tail_mono].
Qed.

Definition JB5 (f : nat) : Prop :=
  (forall x xsec xbase id, at_id E id x -> xbase = xbof E id -> xsec = psec E (snd id) ->
     kb (eval_expr W f E x xsec xbase id)) /\
  (forall x xbase id, at_id E id x -> xbase = xbof E id -> kb (eval_repr W f E x xbase id)) /\
  (forall x a id, at_id E id x -> xbof E id = [] -> psec E (snd id) = false -> kb (eval_typed W f E x a id)) /\
  (forall p, kb (eval_access W f E p)) /\
  (forall rx rsec rbase rid accs, at_id E rid rx -> rbase = xbof E rid -> rsec = psec E (snd rid) ->
     kb (walk W f E rx rsec rbase rid accs)).

Lemma JB5_all : forall f, JB5 f.
Proof.
  induction f as [|f IH].
  - unfold JB5; split5; intros; intros s0 _ [_ Hoof]; discriminate Hoof.
  - destruct IH as (He & Hr & Ht & Ha & Hw). unfold JB5; split5.
    + intros x xsec xbase id Hid Hxb Hsec. rewrite eval_expr_S. apply expr_body_JB; auto.
      * intros s. apply eval_repr_mono.
      * intros s. apply (F5_all W f).
      * intros s1. apply eval_repr_postB.
    + intros x xbase id Hid Hxb. rewrite eval_repr_S.
      apply (repr_body_keeps2 W JB JB_add_err JB_emit JB_call JB_oof).
      * intros stp e c Hc Hcb. apply He; [eapply at_id_child; eassumption| |].
        -- rewrite xbof_child, <- Hxb. exact Hcb.
        -- cbn [snd]. symmetry. apply (psec_child E id x stp Hid).
      * intros stp e a Hc Hcb Hns. apply Ht; [eapply at_id_child; eassumption| |].
        -- rewrite xbof_child, <- Hxb. exact Hcb.
        -- cbn [snd]. rewrite (psec_child E id x stp Hid). exact Hns.
      * exact Ha.
    + intros x a id Hid Hxb Hns. rewrite eval_typed_S. apply (typed_body_keeps JB JB_add_err).
      apply He; [exact Hid|symmetry; exact Hxb|symmetry; exact Hns].
    + intros p. rewrite eval_access_S. apply (access_body_keeps JB JB_add_err).
      apply Hw; [split; reflexivity|reflexivity|reflexivity].
    + intros rx rsec rbase rid accs Hid Hxb Hsec. rewrite walk_S. apply (walk_body_keeps2 JB JB_add_err).
      * apply He; assumption.
      * intros stp y c accs' Hc Hcb. apply Hw; [eapply at_id_child; eassumption| |].
        -- rewrite xbof_child, <- Hxb. exact Hcb.
        -- cbn [snd]. symmetry. apply (psec_child E rid rx stp Hid).
Qed.

End BMEMO.
