(* Proofs/EvalTotalOrder.v — the string order, [declared], [sort_entries], [find_entry]:
   what object evaluation sees of the source order of keys. *)
From Verif Require Import Base.Bytes Model.Chain Model.Eval.
From Coq Require Import Lia OrderedTypeEx Sorting.Permutation Sorting.Sorted.

(* ---------------- String.ltb is a strict total order ---------------- *)
Definition slt (a b : string) : Prop := String.ltb a b = true.

Lemma compare_refl (a : string) : String.compare a a = Eq.
Proof.
  pose proof (String.compare_antisym a a) as H. destruct (String.compare a a); simpl in H; congruence.
Qed.

Lemma slt_irrefl a : ~ slt a a.
Proof. unfold slt, String.ltb. rewrite compare_refl. discriminate. Qed.

Lemma slt_iff a b : slt a b <-> String_as_OT.lt a b.
Proof.
  unfold slt, String.ltb. rewrite <- String_as_OT.cmp_lt. unfold String_as_OT.cmp.
  destruct (String.compare a b); split; congruence.
Qed.

Lemma slt_trans a b c : slt a b -> slt b c -> slt a c.
Proof. rewrite !slt_iff. apply String_as_OT.lt_trans. Qed.

Lemma slt_total a b : String.ltb a b = false -> a <> b -> slt b a.
Proof.
  unfold slt, String.ltb. intros H Hne. rewrite (String.compare_antisym b a).
  destruct (String.compare a b) eqn:E; try discriminate; [|reflexivity].
  apply String.compare_eq_iff in E. contradiction.
Qed.

Lemma slt_neq a b : slt a b -> a <> b.
Proof. intros H ->. exact (slt_irrefl _ H). Qed.

Lemma existsb_eqb_false k seen : existsb (String.eqb k) seen = false <-> ~ In k seen.
Proof.
  split.
  - intros H Hin. assert (existsb (String.eqb k) seen = true); [|congruence].
    apply existsb_exists. exists k. split; [exact Hin|apply String.eqb_refl].
  - intros H. destruct (existsb (String.eqb k) seen) eqn:E; [|reflexivity].
    apply existsb_exists in E. destruct E as (x & Hin & Hx). apply String.eqb_eq in Hx. subst. contradiction.
Qed.

Lemma existsb_eqb_true k seen : existsb (String.eqb k) seen = true <-> In k seen.
Proof.
  split.
  - intros E. apply existsb_exists in E. destruct E as (x & Hin & Hx). apply String.eqb_eq in Hx. now subst.
  - intros Hin. apply existsb_exists. exists k. split; [exact Hin|apply String.eqb_refl].
Qed.

(* ---------------- entries without their source positions ---------------- *)
Section ENTRIES.
Context {A : Type}.

Definition ekey (e : nat * string * A) : string := snd (fst e).
Definition strip1 (e : nat * string * A) : string * A := (snd (fst e), snd e).
Definition strip (l : list (nat * string * A)) : list (string * A) := map strip1 l.

Fixpoint kinsert (e : string * A) (l : list (string * A)) : list (string * A) :=
  match l with
  | [] => [e]
  | e' :: r => if String.ltb (fst e) (fst e') then e :: l else e' :: kinsert e r
  end.
Definition ksort (l : list (string * A)) : list (string * A) := fold_left (fun acc e => kinsert e acc) l [].

Lemma strip_insert_sorted e l : strip (insert_sorted e l) = kinsert (strip1 e) (strip l).
Proof.
  induction l as [|e' r IH]; [reflexivity|]. cbn [insert_sorted strip map kinsert].
  change (fst (strip1 e)) with (snd (fst e)). change (fst (strip1 e')) with (snd (fst e')).
  destruct (String.ltb (snd (fst e)) (snd (fst e'))); cbn [map]; [reflexivity|].
  f_equal. exact IH.
Qed.

Lemma strip_fold l : forall acc,
  strip (fold_left (fun acc e => insert_sorted e acc) l acc)
  = fold_left (fun acc e => kinsert e acc) (strip l) (strip acc).
Proof.
  induction l as [|e r IH]; intro acc; [reflexivity|]. cbn [fold_left strip map].
  rewrite IH, strip_insert_sorted. reflexivity.
Qed.

(* sort_entries forgets positions: it is the key sort of the stripped list *)
Lemma strip_sort_entries l : strip (sort_entries l) = ksort (strip l).
Proof. unfold sort_entries, ksort. apply (strip_fold l []). Qed.

(* ---- declared ---- *)
Lemma declared_cons_seen k (v : A) (r : list (string * A)) i seen :
  existsb (String.eqb k) seen = true ->
  declared ((k, v) :: r) i seen = (fst (declared r (S i) seen), snd (declared r (S i) seen) + 1).
Proof. intros H. cbn [declared]. rewrite H. destruct (declared r (S i) seen). reflexivity. Qed.

Lemma declared_cons_new k (v : A) (r : list (string * A)) i seen :
  existsb (String.eqb k) seen = false ->
  declared ((k, v) :: r) i seen
  = ((i, k, v) :: fst (declared r (S i) (k :: seen)), snd (declared r (S i) (k :: seen))).
Proof. intros H. cbn [declared]. rewrite H. destruct (declared r (S i) (k :: seen)). reflexivity. Qed.

(* every declared entry is the FIRST occurrence of its key (position and value), and its key is new *)
Lemma declared_first (l : list (string * A)) : forall i seen j k v,
  In (j, k, v) (fst (declared l i seen)) -> find_entry k l i = Some (j, v) /\ ~ In k seen.
Proof.
  induction l as [|[k0 v0] r IH]; intros i seen j k v Hin; [contradiction|].
  destruct (existsb (String.eqb k0) seen) eqn:E.
  - rewrite (declared_cons_seen _ _ _ _ _ E) in Hin. cbn [fst] in Hin.
    destruct (IH _ _ _ _ _ Hin) as [Hf Hn]. split; [|exact Hn].
    cbn [find_entry]. apply existsb_eqb_true in E.
    destruct (String.eqb_spec k k0) as [->|_]; [contradiction|exact Hf].
  - rewrite (declared_cons_new _ _ _ _ _ E) in Hin. cbn [fst] in Hin.
    apply existsb_eqb_false in E. destruct Hin as [Heq|Hin].
    + injection Heq as <- <- <-. split; [|exact E]. cbn [find_entry]. rewrite String.eqb_refl. reflexivity.
    + destruct (IH _ _ _ _ _ Hin) as [Hf Hn]. split.
      * cbn [find_entry]. destruct (String.eqb_spec k k0) as [->|_]; [|exact Hf].
        exfalso. apply Hn. left. reflexivity.
      * intro H. apply Hn. right. exact H.
Qed.

(* the declared keys: duplicate-free, exactly the keys of the list not already seen *)
Lemma declared_keys (l : list (string * A)) : forall i seen,
  NoDup (map ekey (fst (declared l i seen))) /\
  (forall k, In k (map ekey (fst (declared l i seen))) <-> In k (map fst l) /\ ~ In k seen).
Proof.
  induction l as [|[k0 v0] r IH]; intros i seen.
  - cbn. split; [constructor|]. intro k. tauto.
  - destruct (existsb (String.eqb k0) seen) eqn:E.
    + rewrite (declared_cons_seen _ _ _ _ _ E). cbn [fst]. destruct (IH (S i) seen) as [Hn Hk].
      split; [exact Hn|]. intro k. rewrite Hk. cbn [map fst In]. apply existsb_eqb_true in E.
      split; [tauto|]. intros [[<-|H] Hs]; [contradiction|tauto].
    + rewrite (declared_cons_new _ _ _ _ _ E). cbn [fst map]. destruct (IH (S i) (k0 :: seen)) as [Hn Hk].
      apply existsb_eqb_false in E. split.
      * constructor; [|exact Hn]. change (ekey (i, k0, v0)) with k0. rewrite Hk. cbn [In]. tauto.
      * intro k. change (ekey (i, k0, v0)) with k0. cbn [In map fst]. rewrite Hk. cbn [In].
        destruct (String.eqb_spec k0 k) as [->|Hne]; [tauto|]. tauto.
Qed.

(* with unique keys nothing is dropped and nothing is counted *)
Lemma declared_nodup (l : list (string * A)) : forall i seen,
  NoDup (map fst l) -> (forall k, In k (map fst l) -> ~ In k seen) ->
  strip (fst (declared l i seen)) = l /\ snd (declared l i seen) = 0.
Proof.
  induction l as [|[k0 v0] r IH]; intros i seen Hnd Hs; [split; reflexivity|].
  cbn [map fst] in Hnd. inversion Hnd as [|? ? Hni Hnd']; subst.
  assert (E : existsb (String.eqb k0) seen = false).
  { apply existsb_eqb_false. apply Hs. left. reflexivity. }
  rewrite (declared_cons_new _ _ _ _ _ E). cbn [fst snd strip map].
  destruct (IH (S i) (k0 :: seen) Hnd') as [H1 H2].
  { intros k Hk [<-|Hin]; [contradiction|]. apply (Hs k); [right; exact Hk|exact Hin]. }
  split; [|exact H2]. unfold strip in H1. rewrite H1. reflexivity.
Qed.

(* ---- the key sort ---- *)
Definition klt (a b : string * A) : Prop := slt (fst a) (fst b).
Definition ksorted (l : list (string * A)) : Prop := StronglySorted klt l.

Lemma kinsert_perm e l : Permutation (kinsert e l) (e :: l).
Proof.
  induction l as [|e' r IH]; [apply Permutation_refl|]. cbn [kinsert].
  destruct (String.ltb (fst e) (fst e')); [apply Permutation_refl|].
  eapply Permutation_trans; [apply perm_skip, IH|apply perm_swap].
Qed.

Lemma fold_kinsert_perm l : forall acc, Permutation (fold_left (fun acc e => kinsert e acc) l acc) (l ++ acc).
Proof.
  induction l as [|e r IH]; intro acc; [apply Permutation_refl|]. cbn [fold_left app].
  eapply Permutation_trans; [apply IH|].
  eapply Permutation_trans; [apply Permutation_app_head, kinsert_perm|].
  apply Permutation_sym, Permutation_middle.
Qed.

Lemma ksort_perm l : Permutation (ksort l) l.
Proof. unfold ksort. rewrite <- (app_nil_r l) at 2. apply fold_kinsert_perm. Qed.

Lemma kinsert_sorted e l : ksorted l -> ~ In (fst e) (map fst l) -> ksorted (kinsert e l).
Proof.
  induction l as [|e' r IH]; intros Hs Hn.
  - cbn. constructor; constructor.
  - cbn [kinsert]. apply StronglySorted_inv in Hs. destruct Hs as [Hs Hf].
    destruct (String.ltb (fst e) (fst e')) eqn:E.
    + constructor; [constructor; assumption|]. constructor; [exact E|].
      eapply Forall_impl; [|exact Hf]. intros a Ha. eapply slt_trans; [exact E|exact Ha].
    + constructor.
      * apply IH; [exact Hs|]. intro H. apply Hn. right. exact H.
      * assert (Hlt : klt e' e).
        { apply slt_total; [exact E|]. intro Heq. apply Hn. left. symmetry. exact Heq. }
        eapply Permutation_Forall; [apply Permutation_sym, kinsert_perm|]. constructor; assumption.
Qed.

Lemma fold_kinsert_sorted l : forall acc,
  ksorted acc -> NoDup (map fst (l ++ acc)) -> ksorted (fold_left (fun acc e => kinsert e acc) l acc).
Proof.
  induction l as [|e r IH]; intros acc Hs Hn; [exact Hs|]. cbn [fold_left].
  cbn [app map] in Hn. inversion Hn as [|? ? Hni Hn']; subst. apply IH.
  - apply kinsert_sorted; [exact Hs|]. intro H. apply Hni. rewrite map_app. apply in_or_app. right. exact H.
  - eapply Permutation_NoDup; [|exact Hn].
    change (fst e :: map fst (r ++ acc)) with (map fst (e :: r ++ acc)).
    apply Permutation_map. eapply Permutation_trans; [apply Permutation_middle|].
    apply Permutation_app_head. apply Permutation_sym, kinsert_perm.
Qed.

Lemma ksort_sorted l : NoDup (map fst l) -> ksorted (ksort l).
Proof. intro H. apply fold_kinsert_sorted; [constructor|]. rewrite app_nil_r. exact H. Qed.

(* a strictly sorted list is determined by its elements *)
Lemma ksorted_unique : forall a b, ksorted a -> ksorted b -> Permutation a b -> a = b.
Proof.
  induction a as [|x a IH]; intros b Ha Hb Hp.
  - apply Permutation_nil in Hp. now subst.
  - destruct b as [|y b]; [apply Permutation_sym, Permutation_nil in Hp; discriminate|].
    apply StronglySorted_inv in Ha. destruct Ha as [Ha Hxa].
    apply StronglySorted_inv in Hb. destruct Hb as [Hb Hyb].
    assert (Hxy : x = y).
    { assert (Hx : In x (y :: b)) by (eapply Permutation_in; [exact Hp|left; reflexivity]).
      assert (Hy : In y (x :: a)) by (eapply Permutation_in; [apply Permutation_sym, Hp|left; reflexivity]).
      destruct Hx as [Hx|Hx]; [now symmetry|]. destruct Hy as [Hy|Hy]; [exact Hy|].
      rewrite Forall_forall in Hxa, Hyb. exfalso.
      apply (slt_irrefl (fst x)). eapply slt_trans; [apply (Hxa _ Hy)|apply (Hyb _ Hx)]. }
    subst y. f_equal. apply IH; [exact Ha|exact Hb|]. eapply Permutation_cons_inv. exact Hp.
Qed.

(* the sorted list of a duplicate-free entry list does not depend on the order of the entries *)
Lemma ksort_perm_eq l l' : NoDup (map fst l) -> Permutation l l' -> ksort l = ksort l'.
Proof.
  intros Hn Hp. apply ksorted_unique.
  - apply ksort_sorted, Hn.
  - apply ksort_sorted. eapply Permutation_NoDup; [apply Permutation_map, Hp|exact Hn].
  - eapply Permutation_trans; [apply ksort_perm|].
    eapply Permutation_trans; [exact Hp|apply Permutation_sym, ksort_perm].
Qed.

Lemma ksorted_keys l : ksorted l -> StronglySorted slt (map fst l).
Proof.
  induction 1 as [|a l Hs IH Hf]; cbn [map]; constructor; [exact IH|].
  apply Forall_map. exact Hf.
Qed.

(* ---- find_entry ---- *)
Lemma find_entry_shift k (l : list (string * A)) : forall i j,
  option_map snd (find_entry k l i) = option_map snd (find_entry k l j).
Proof.
  induction l as [|[k' v] r IH]; intros i j; [reflexivity|]. cbn [find_entry].
  destruct (String.eqb k k'); [reflexivity|apply IH].
Qed.

Lemma find_entry_alookup k (l : list (string * A)) i : option_map snd (find_entry k l i) = alookup k l.
Proof.
  revert i. induction l as [|[k' v] r IH]; intro i; [reflexivity|]. cbn [find_entry alookup].
  destruct (String.eqb k k'); [reflexivity|apply IH].
Qed.

Lemma alookup_in k v (l : list (string * A)) : alookup k l = Some v -> In (k, v) l.
Proof.
  induction l as [|[k' v'] r IH]; [discriminate|]. cbn [alookup].
  destruct (String.eqb_spec k k') as [->|_]; [intros [= ->]; left; reflexivity|intro H; right; auto].
Qed.

Lemma alookup_nodup k v (l : list (string * A)) : NoDup (map fst l) -> In (k, v) l -> alookup k l = Some v.
Proof.
  induction l as [|[k' v'] r IH]; [contradiction|]. cbn [map fst alookup]. intros Hn Hin.
  inversion Hn as [|? ? Hni Hn']; subst. destruct Hin as [[= -> ->]|Hin].
  - rewrite String.eqb_refl. reflexivity.
  - destruct (String.eqb_spec k k') as [->|_]; [|auto].
    exfalso. apply Hni. apply (in_map fst) in Hin. exact Hin.
Qed.

Lemma alookup_none k (l : list (string * A)) : alookup k l = None <-> ~ In k (map fst l).
Proof.
  induction l as [|[k' v'] r IH]; cbn [alookup map fst In]; [tauto|].
  destruct (String.eqb_spec k k') as [->|Hne]; [split; [discriminate|tauto]|].
  rewrite IH. split; [intros H [Heq|Hin]; [congruence|contradiction]|tauto].
Qed.

(* lookup (first occurrence) does not depend on the order when keys are unique *)
Lemma alookup_perm k (l l' : list (string * A)) :
  NoDup (map fst l) -> Permutation l l' -> alookup k l = alookup k l'.
Proof.
  intros Hn Hp.
  assert (Hn' : NoDup (map fst l')) by (eapply Permutation_NoDup; [apply Permutation_map, Hp|exact Hn]).
  destruct (alookup k l) as [v|] eqn:E.
  - symmetry. apply alookup_nodup; [exact Hn'|]. eapply Permutation_in; [exact Hp|]. apply alookup_in, E.
  - symmetry. apply alookup_none. apply alookup_none in E. intro H. apply E.
    eapply Permutation_in; [apply Permutation_sym, Permutation_map, Hp|exact H].
Qed.

End ENTRIES.

(* ---- insertion sort is parametric in the values ---- *)
Section PARAM.
Context {A B : Type} (Rv : A -> B -> Prop).
Definition krel (a : string * A) (b : string * B) : Prop := fst a = fst b /\ Rv (snd a) (snd b).

Lemma kinsert_rel e e' l l' : krel e e' -> Forall2 krel l l' -> Forall2 krel (kinsert e l) (kinsert e' l').
Proof.
  intros He Hl. induction Hl as [|x y l l' Hxy Hl IH]; cbn [kinsert].
  - constructor; [exact He|constructor].
  - destruct He as [Hk Hv]. destruct Hxy as [Hk' Hv']. rewrite <- Hk, <- Hk'.
    destruct (String.ltb (fst e) (fst x)).
    + constructor; [split; assumption|]. constructor; [split; assumption|exact Hl].
    + constructor; [split; assumption|exact IH].
Qed.

Lemma fold_kinsert_rel l l' : Forall2 krel l l' -> forall acc acc', Forall2 krel acc acc' ->
  Forall2 krel (fold_left (fun acc e => kinsert e acc) l acc) (fold_left (fun acc e => kinsert e acc) l' acc').
Proof.
  induction 1 as [|x y l l' Hxy Hl IH]; intros acc acc' Hacc; [exact Hacc|]. cbn [fold_left].
  apply IH. apply kinsert_rel; assumption.
Qed.

Lemma ksort_rel l l' : Forall2 krel l l' -> Forall2 krel (ksort l) (ksort l').
Proof. intro H. apply fold_kinsert_rel; [exact H|constructor]. Qed.

Lemma krel_keys l l' : Forall2 krel l l' -> map fst l = map fst l'.
Proof. induction 1 as [|x y l l' [Hk _] _ IH]; cbn [map]; congruence. Qed.

Lemma alookup_rel k l l' : Forall2 krel l l' ->
  match alookup k l, alookup k l' with
  | Some a, Some b => Rv a b
  | None, None => True
  | _, _ => False
  end.
Proof.
  induction 1 as [|[k1 a] [k2 b] l l' [Hk Hv] _ IH]; cbn [alookup]; [exact I|].
  cbn [fst snd] in Hk, Hv. subst k2. destruct (String.eqb k k1); [exact Hv|exact IH].
Qed.

Lemma filter_rel (p : string -> bool) l l' : Forall2 krel l l' ->
  Forall2 krel (filter (fun kv => p (fst kv)) l) (filter (fun kv => p (fst kv)) l').
Proof.
  induction 1 as [|x y l l' Hxy Hl IH]; cbn [filter]; [constructor|].
  destruct Hxy as [Hk Hv]. rewrite <- Hk. destruct (p (fst x)); [constructor; [split; assumption|exact IH]|exact IH].
Qed.

End PARAM.
