(* Proofs/CheckApproxMain.v — C06, central clause: checking soundly approximates opening.
   Final theorems for [run], the witness that the unrestricted clause is false of the model (and of the
   implementation), the "unknown, not invented" form, examples. *)
From Verif Require Import Base.Bytes Base.Wire Model.Chain Model.GoText Model.Envelope Model.Eval Corr.EvalWire.
From Verif Require Corr.C06.
From Verif Require Import Proofs.NonInterferenceRel Proofs.NonInterferenceOps Proofs.NonInterferenceTwins
     Proofs.NonInterferenceBuiltins Proofs.NonInterferenceEval
     Proofs.CheckApproxMono Proofs.CheckApproxRel Proofs.CheckApproxKit Proofs.CheckApproxEval.
From Coq Require Import Lia ZifyN ZifyNat ZifyBool.

Notation ap_c := (chain_ap ap_l).

Lemma srel_a_st0 : srel_a st0 st0.
Proof. constructor; simpl; constructor. Qed.

Lemma run_nof fuel W name d :
  ob_oof (run fuel W name d) = false ->
  nof (snd (eval_env W fuel "" name d st0)) /\
  exists v, export big_fuel (fst (eval_env W fuel "" name d st0)) = Some v /\ ob_value (run fuel W name d) = Some v.
Proof.
  unfold run. destruct (eval_env W fuel "" name d st0) as [c s]. cbn [ob_oof ob_value fst snd].
  intros Ho. apply Bool.orb_false_elim in Ho. destruct Ho as [Ho Hx].
  split; [exact Ho|]. destruct (export big_fuel c) as [v|]; [eauto|discriminate].
Qed.

(* what the theorem says about the two observations: the oracle's relation, with the oracle's fuel, and its
   Prop form *)
Definition approx_concl (oc oo : obs) : Prop :=
  exists c o, ob_value oc = Some c /\ ob_value oo = Some o /\ ap_x c o /\ C06.approx (S (x_depth c)) c o = true.

(* general form: the check world and the open world need not have the same providers or (unless check shows
   secrets) the same decrypter.  No hypothesis on diagnostics: neither run has to be error-free. *)
Theorem check_approx_open_co Wc Wo fuel name d :
  W_co Wc Wo -> env_ntj d = true ->
  ob_oof (run fuel Wc name d) = false -> ob_oof (run fuel Wo name d) = false ->
  approx_concl (run fuel Wc name d) (run fuel Wo name d).
Proof.
  intros HW Hd Oc Oo.
  destruct (run_nof _ _ _ _ Oc) as (Gc & c & Xc & Vc). destruct (run_nof _ _ _ _ Oo) as (Go & o & Xo & Vo).
  destruct (sim_env Wc Wo HW fuel "" name d Hd st0 st0 srel_a_st0 Gc Go) as [Hc _].
  pose proof (export_ap big_fuel _ _ _ _ Hc Xc Xo) as HX.
  exists c, o. repeat apply conj; auto. apply ap_x_approx; [exact HX|lia].
Qed.

Lemma with_mode_co W show : w_check W = false -> w_fault W = None -> world_ntj W -> W_co (C06.with_mode W true show) W.
Proof. intros Hc Hf Hn. constructor; simpl; auto. Qed.

(* the clause as stated: one world, run in check mode (either showSecrets setting) and in open mode *)
Definition check_approx_open_statement : Prop :=
  forall W show fuel name d,
    w_check W = false -> w_fault W = None ->
    ob_oof (run fuel (C06.with_mode W true show) name d) = false -> ob_oof (run fuel W name d) = false ->
    approx_concl (run fuel (C06.with_mode W true show) name d) (run fuel W name d).

(* proved for every program and world without fn::toJSON *)
Theorem check_approx_open_partial :
  forall W show fuel name d,
    w_check W = false -> w_fault W = None -> world_ntj W -> env_ntj d = true ->
    ob_oof (run fuel (C06.with_mode W true show) name d) = false -> ob_oof (run fuel W name d) = false ->
    approx_concl (run fuel (C06.with_mode W true show) name d) (run fuel W name d).
Proof. intros. apply check_approx_open_co; auto using with_mode_co. Qed.

(* ---- the unrestricted clause is false: fn::toJSON reads the MERGED view of an object, and in check mode the keys
   that a provider output lying beneath the object contributes are invisible (keys() stops at an unknown base) ---- *)
Definition W_tj : world :=
  {| w_envs := [("base", LoadOk {| ed_imports := []; ed_values := [("cfg", EOpen "p" (EObj []))] |})];
     w_provs := [("p", {| pv_in := InAlways; pv_out := ScAlways;
                          pv_beh := PConst (XObj false false [("b", XScalar false false (SNum "2"))]) |})];
     w_ctx := []; w_check := false; w_show := false; w_fault := None; w_decrypt := fun _ _ => None |}.

Definition d_tj : envdef :=
  {| ed_imports := [("base", true)];
     ed_values := [("cfg", EObj [("a", ENum "1")]); ("js", EToJSON (ESym [AName "cfg"]))] |}.

(* check: js = "{""a"":1}" reported as KNOWN; open: js = "{""a"":1,""b"":2}"; no diagnostics in either mode *)
Example tojson_witness :
  let oc := run 40 (C06.with_mode W_tj true false) "main" d_tj in
  let oo := run 40 W_tj "main" d_tj in
  ob_oof oc = false /\ ob_errors oc = false /\ ob_oof oo = false /\ ob_errors oo = false /\
  ob_value oc = Some (XObj false false [("cfg", XObj false false [("a", XScalar false false (SNum "1"))]);
                                        ("js", XScalar false false (SStr "{""a"":1}"))]) /\
  ob_value oo = Some (XObj false false [("cfg", XObj false false [("a", XScalar false false (SNum "1"));
                                                                   ("b", XScalar false false (SNum "2"))]);
                                        ("js", XScalar false false (SStr "{""a"":1,""b"":2}"))]).
Proof. vm_compute. repeat split. Qed.

Theorem check_approx_open_refuted : ~ check_approx_open_statement.
Proof.
  intros H. specialize (H W_tj false 40%nat "main" d_tj eq_refl eq_refl).
  assert (A1 : ob_oof (run 40 (C06.with_mode W_tj true false) "main" d_tj) = false) by (vm_compute; reflexivity).
  assert (A2 : ob_oof (run 40 W_tj "main" d_tj) = false) by (vm_compute; reflexivity).
  destruct (H A1 A2) as (c & o & Vc & Vo & _ & HA).
  vm_compute in Vc, Vo. injection Vc as <-. injection Vo as <-. vm_compute in HA. discriminate.
Qed.

(* ---- unknown, not invented ---- *)
(* positions in an exported value; [x_get] only descends through KNOWN composites *)
Inductive xstep := XKey (k : string) | XIdx (i : nat).

Fixpoint x_get (p : list xstep) (v : xval) : option xval :=
  match p with
  | [] => Some v
  | XKey k :: r =>
      match v with
      | XObj _ false m => match alookup k m with Some v' => x_get r v' | None => None end
      | _ => None
      end
  | XIdx i :: r =>
      match v with
      | XArr _ false l => match nth_error l i with Some v' => x_get r v' | None => None end
      | _ => None
      end
  end.

Lemma alookup_In {A} k (m : list (string * A)) v : alookup k m = Some v -> In (k, v) m.
Proof.
  induction m as [|[k' v'] m IH]; simpl; [discriminate|]. destruct (String.eqb k k') eqn:E.
  - apply String.eqb_eq in E. subst. intros H; injection H as ->. now left.
  - intros H. right. auto.
Qed.

Lemma F2_nth_error {A B} (R : A -> B -> Prop) l l' i a :
  Forall2 R l l' -> nth_error l i = Some a -> exists b, nth_error l' i = Some b /\ R a b.
Proof. intros H; revert i; induction H; intros [|i] E; simpl in *; try discriminate; [injection E as <-; eauto|eauto]. Qed.

(* a scalar that check reports as known, at a position reached through known composites, is at the same position,
   with the same value and secret flag, known, in the opened environment *)
Theorem ap_x_get p : forall c o s x, ap_x c o -> x_get p c = Some (XScalar s false x) -> x_get p o = Some (XScalar s false x).
Proof.
  induction p as [|[k|i] r IH]; intros c o s x H E; simpl in *.
  - injection E as ->. inversion H; subst; [discriminate|reflexivity].
  - destruct c as [| |sc [|] m]; try discriminate.
    destruct (alookup k m) as [v|] eqn:L; [|discriminate].
    inversion H as [c0 o0 Hu| | |s1 s2 m1 m' Hm]; subst; [discriminate|].
    rewrite Forall_forall in Hm. destruct (Hm _ (alookup_In _ _ _ L)) as (v' & L' & Hv). simpl in L'. rewrite L'. eapply IH; eauto.
  - destruct c as [|sc [|] l|]; try discriminate.
    destruct (nth_error l i) as [v|] eqn:L; [|discriminate].
    inversion H as [c0 o0 Hu| |s1 s2 l1 l' Hl|]; subst; [discriminate|].
    destruct (F2_nth_error _ _ _ _ _ Hl L) as (v' & L' & Hv). rewrite L'. eapply IH; eauto.
Qed.

(* whatever check reports as known does not depend on provider behaviours, provider tables, or (without
   showSecrets) decrypter results: it has the same value in ANY two open-mode worlds that share the
   environments and the execution context with the check world *)
Theorem unknown_not_invented Wc Wo1 Wo2 fuel name d :
  W_co Wc Wo1 -> W_co Wc Wo2 -> env_ntj d = true ->
  ob_oof (run fuel Wc name d) = false -> ob_oof (run fuel Wo1 name d) = false -> ob_oof (run fuel Wo2 name d) = false ->
  exists c o1 o2,
    ob_value (run fuel Wc name d) = Some c /\ ob_value (run fuel Wo1 name d) = Some o1 /\ ob_value (run fuel Wo2 name d) = Some o2 /\
    forall p s x, x_get p c = Some (XScalar s false x) ->
                  x_get p o1 = Some (XScalar s false x) /\ x_get p o2 = Some (XScalar s false x).
Proof.
  intros H1 H2 Hd Oc O1 O2.
  destruct (check_approx_open_co _ _ _ _ _ H1 Hd Oc O1) as (c & o1 & Vc & V1 & A1 & _).
  destruct (check_approx_open_co _ _ _ _ _ H2 Hd Oc O2) as (c' & o2 & Vc' & V2 & A2 & _).
  assert (c' = c) by congruence. subst c'.
  exists c, o1, o2. repeat apply conj; auto. intros p s x E. split; eapply ap_x_get; eauto.
Qed.

(* two open worlds that differ only in providers and decrypters are both approximated by the check run of either *)
Lemma two_open_worlds W1 W2 :
  w_envs W1 = w_envs W2 -> w_ctx W1 = w_ctx W2 -> w_check W1 = false -> w_check W2 = false ->
  w_fault W1 = None -> w_fault W2 = None -> world_ntj W1 ->
  W_co (C06.with_mode W1 true false) W1 /\ W_co (C06.with_mode W1 true false) W2.
Proof.
  intros He Hc C1 C2 F1 F2 Hn. split; constructor; simpl; auto; try discriminate.
  intros n d. rewrite <- He. apply Hn.
Qed.
