(* Proofs/C01GeneralEnv.v — C01 for ARBITRARY programs on the evaluator model (references, interpolation, every builtin,
   fn::open, secrets, ciphertexts, failing loads).

   STRUCTURE (eval_env_structure): on an acyclic, fault-free world whose environments do not read `context`, a run
   eval_env W fuel root name d st0 that does not run out of fuel returns the chain

       own :: concat (rev gs)

   where own is one object layer (obj_layer props: known, not secret) and gs lists, in LISTED order and once per
   listing, the STAND-ALONE values of the imports that are marked merge:true and can be loaded (a merge:false import
   and a failing load contribute no layer).  "Stand-alone value of X" = fst (eval_env W fuel' root' X dX st0) for ANY
   fuel' / root' whose run does not run out of fuel (MemoRelSound.Sound_unique: the imports-table entry is that value).

   FOLD (C01_general): when the groups are compatible (C01GeneralChain.groups_compat, decidable, computed on those chains)
   the exported JSON of the result is the left-to-right merge-patch fold of the exported stand-alone values of the merged
   imports followed by the exported own layer. *)
From Verif Require Import Base.Bytes Model.Chain Model.GoText Model.Envelope Model.Eval Corr.C01.
From Verif Require Import Proofs.ChainAlgebraSorted Proofs.ChainAlgebraExport Proofs.ChainAlgebra.
From Verif Require Proofs.ChainAlgebraEval Proofs.ChainAlgebraLink Proofs.ChainAlgebraEnv Proofs.EvalTotalBase
  Proofs.RefSemSorted Proofs.MemoRelSound.
From Verif Require Import Proofs.RefSemAccess Proofs.RefSemWf Proofs.C01GeneralChain.
From Coq Require Import Lia.
Local Open Scope nat_scope.

Notation env_of := ChainAlgebraEnv.env_of.
Notation obj_layer := EvalTotalBase.obj_layer.
Notation no_context_reference := ChainAlgebraLink.no_context_reference.
Notation env_ctx := ChainAlgebraEval.env_ctx.

(* ================= 1. the own values evaluate to ONE object layer on top of the base ================= *)
Notation ekey := (fun ike : nat * string * expr => snd (fst ike)).

Lemma obj_go_shape (ee : expr -> bool -> chain -> eid -> M chain) (xbase : chain) (id : eid) :
  forall ds acc s, exists props, fst (EvalTotalBase.obj_go ee xbase id ds acc s) = [obj_layer props]
                                 /\ map fst props = rev (map fst acc) ++ map ekey ds.
Proof.
  induction ds as [|[[i k] e] r IH]; intros acc s.
  - rewrite EvalTotalBase.obj_go_nil. exists (rev acc). split; [reflexivity|]. now rewrite map_rev, app_nil_r.
  - rewrite EvalTotalBase.obj_go_cons. unfold bind at 1.
    destruct (ee e false (property k xbase) (fst id, snd id ++ [IKey k]) s) as [v s'].
    destruct (IH ((k, v) :: acc) s') as (props & E & K). exists props. split; [exact E|].
    rewrite K. cbn [map fst snd rev]. now rewrite <- app_assoc.
Qed.

(* the keys an object expression declares: first occurrences, sorted *)
Definition decl_keys (l : list (string * expr)) : list string := map ekey (sort_entries (fst (declared l 0 []))).

Lemma repr_obj_shape (W : world) (f : nat) (E : ectx) (l : list (string * expr)) (xbase : chain) (id : eid) (s : st) :
  oof (snd (eval_repr W f E (EObj l) xbase id s)) = false ->
  exists props, fst (eval_repr W f E (EObj l) xbase id s) = [obj_layer props] /\ map fst props = decl_keys l.
Proof.
  destruct f as [|f]; [discriminate|]. intros _. rewrite EvalTotalBase.eval_repr_S. unfold EvalTotalBase.repr_body, decl_keys.
  destruct (declared l 0 []) as [decl dups]. unfold bind at 1. cbn [add_err fst snd].
  apply obj_go_shape.
Qed.

Lemma expr_body_fresh (er : expr -> chain -> eid -> M chain) (x : expr) (xbase : chain) (id : eid) (s : st) :
  memo_get id (memo s) = None ->
  EvalTotalBase.expr_body er x false xbase id s =
    (fst (er x xbase id (snd (memo_set id None s))) ++ xbase,
     snd (memo_set id (Some (fst (er x xbase id (snd (memo_set id None s))) ++ xbase))
                   (snd (er x xbase id (snd (memo_set id None s)))))).
Proof.
  intros Hm. unfold EvalTotalBase.expr_body, bind. cbn [get_memo fst snd]. rewrite Hm. cbn [memo_set fst snd].
  destruct (er x xbase id _) as [v s2]. reflexivity.
Qed.

Lemma expr_obj_shape (W : world) (f : nat) (E : ectx) (l : list (string * expr)) (xbase : chain) (id : eid) (s : st) :
  memo_get id (memo s) = None ->
  oof (snd (eval_expr W f E (EObj l) false xbase id s)) = false ->
  exists props, fst (eval_expr W f E (EObj l) false xbase id s) = obj_layer props :: xbase /\ map fst props = decl_keys l.
Proof.
  intros Hm. destruct f as [|f]; [discriminate|]. rewrite EvalTotalBase.eval_expr_S, (expr_body_fresh _ _ _ _ _ Hm).
  cbn [fst snd]. intros Ho.
  destruct (repr_obj_shape W f E l xbase id (snd (memo_set id None s))) as (props & Hp & K); [exact Ho|].
  rewrite Hp. exists props. split; [reflexivity|exact K].
Qed.

(* ================= 2. the merged imports of a definition ================= *)
Section GENERAL.
Variable W : world.
Variable rank : string -> nat.
Hypothesis HF : w_fault W = None.
Hypothesis HR : forall n d im, env_of W n = Some d -> In im (ed_imports d) -> rank (fst im) < rank n.
Hypothesis HN : forall n d, env_of W n = Some d -> no_context_reference d.

Notation Sound := (MemoRelSound.Sound W rank).
Notation LoopVals := (MemoRelSound.LoopVals W rank).

(* the values of the imports that are merged (merge:true) and loadable, in listing order, once per listing *)
Fixpoint mvals (val : string -> chain) (is : list (string * bool)) : list chain :=
  match is with
  | [] => []
  | (n, merge) :: rest =>
      match env_of W n with
      | Some _ => if merge then val n :: mvals val rest else mvals val rest
      | None => mvals val rest
      end
  end.

Lemma LoopVals_base (val : string -> chain) is base my b' m' :
  LoopVals is base my b' m' ->
  (forall im v, In im is -> Sound (fst im) v -> v = val (fst im)) ->
  b' = concat (rev (mvals val is)) ++ base.
Proof.
  induction 1 as [base my|n merge rest base my b' m' Hn H1 IH|n merge rest base my v b' m' Hv H1 IH]; intros HU.
  - reflexivity.
  - cbn [mvals]. rewrite Hn. apply IH. intros im v Him. apply HU. now right.
  - cbn [mvals]. destruct (MemoRelSound.Sound_env W rank n v Hv) as [dn Hdn]. rewrite Hdn.
    assert (Ev : v = val n) by (apply (HU (n, merge) v); [now left|exact Hv]).
    rewrite IH by (intros im w Him; apply HU; now right).
    destruct merge; [|reflexivity]. cbn [rev]. rewrite concat_app. cbn [concat]. rewrite app_nil_r, <- app_assoc, Ev. reflexivity.
Qed.

Lemma LoopVals_my_keep (val : string -> chain) is base my b' m' x :
  LoopVals is base my b' m' ->
  (forall im v, In im is -> Sound (fst im) v -> v = val (fst im)) ->
  alookup x my = Some (val x) -> alookup x m' = Some (val x).
Proof.
  induction 1 as [base my|n merge rest base my b' m' Hn H1 IH|n merge rest base my v b' m' Hv H1 IH]; intros HU Hx.
  - exact Hx.
  - apply IH; [intros im v Him; apply HU; now right|exact Hx].
  - apply IH; [intros im w Him; apply HU; now right|]. rewrite alookup_ainsert.
    destruct (String.eqb x n) eqn:E; [|exact Hx]. apply String.eqb_eq in E. subst x.
    f_equal. apply (HU (n, merge) v); [now left|exact Hv].
Qed.

Lemma LoopVals_my (val : string -> chain) is base my b' m' x mg dx :
  LoopVals is base my b' m' ->
  (forall im v, In im is -> Sound (fst im) v -> v = val (fst im)) ->
  In (x, mg) is -> env_of W x = Some dx -> alookup x m' = Some (val x).
Proof.
  induction 1 as [base my|n merge rest base my b' m' Hn H1 IH|n merge rest base my v b' m' Hv H1 IH]; intros HU Hin Hdx.
  - destruct Hin.
  - destruct Hin as [[= -> ->]|Hin]; [congruence|]. apply IH; [intros im v Him; apply HU; now right|exact Hin|exact Hdx].
  - assert (HU' : forall im w, In im rest -> Sound (fst im) w -> w = val (fst im)) by (intros im w Him; apply HU; now right).
    destruct Hin as [[= -> ->]|Hin]; [|apply IH; assumption].
    apply (LoopVals_my_keep val rest _ _ b' m' x H1 HU'). rewrite alookup_ainsert, String.eqb_refl. f_equal.
    apply (HU (x, mg) v); [now left|exact Hv].
Qed.

(* ================= 3. stand-alone values ================= *)
(* [fu n] / [rt n]: the fuel and the root name with which import n is opened on its own *)
Definition sval (fu : string -> nat) (rt : string -> string) (n : string) : chain :=
  match env_of W n with Some dn => fst (eval_env W (fu n) (rt n) n dn st0) | None => [] end.

Definition standalone_ok (fu : string -> nat) (rt : string -> string) (d : envdef) : Prop :=
  forall n mg dn, In (n, mg) (ed_imports d) -> env_of W n = Some dn ->
                  oof (snd (eval_env W (fu n) (rt n) n dn st0)) = false.

Lemma Sound_is_sval fu rt d : standalone_ok fu rt d ->
  forall im v, In im (ed_imports d) -> Sound (fst im) v -> v = sval fu rt (fst im).
Proof.
  intros Hok [n mg] v Hin Hv. cbn [fst] in *. destruct (MemoRelSound.Sound_env W rank n v Hv) as [dn Hdn].
  unfold sval. rewrite Hdn. apply (MemoRelSound.Sound_unique W rank HF HR HN n); [exact Hv|].
  apply MemoRelSound.standalone_sound; [exact Hdn|]. exact (Hok n mg dn Hin Hdn).
Qed.

Lemma sval_sorted fu rt n : csorted (sval fu rt n) = true.
Proof. unfold sval. destruct (env_of W n); [apply RefSemSorted.eval_env_sorted|reflexivity]. Qed.

(* ================= 4. the structure of the value of an environment ================= *)
(* the keys of the own layer: the declared, non-reserved top-level keys of the definition, sorted *)
Definition own_keys (d : envdef) : list string :=
  decl_keys (filter (fun kv => negb (reserved (fst kv))) (ed_values d)).

(* the decomposition of a run, with everything the later statements need *)
Theorem eval_env_decompose (fuel : nat) (root name : string) (d : envdef) (fu : string -> nat) (rt : string -> string) :
  env_of W name = Some d -> oof (snd (eval_env W fuel root name d st0)) = false -> standalone_ok fu rt d ->
  exists f' my sm props,
    let base := concat (rev (mvals (sval fu rt) (ed_imports d))) in
    let E := env_ctx W (MemoRelSound.root_of root name) name d base my in
    eval_env W fuel root name d st0 = eval_expr W f' E (EObj (ec_values E)) false base (name, []) sm
    /\ fst (eval_env W fuel root name d st0) = obj_layer props :: base
    /\ map fst props = own_keys d
    /\ forall x mg dx, In (x, mg) (ed_imports d) -> env_of W x = Some dx -> alookup x my = Some (sval fu rt x).
Proof.
  intros Hd Ho Hok.
  destruct (MemoRelSound.inv_st0 W rank) as (A1 & A2 & A3).
  destruct (MemoRelSound.env_sound W rank HF HR HN fuel root name d st0 Hd eq_refl A1 A2 (A3 _) eq_refl Ho)
    as (_ & f' & base & my & sm & -> & LV & Fr & Osm & Q).
  pose proof (Sound_is_sval fu rt d Hok) as HU.
  pose proof (LoopVals_base (sval fu rt) _ _ _ _ _ LV HU) as Eb. rewrite app_nil_r in Eb. subst base.
  exists f', my, sm.
  destruct (expr_obj_shape W f' (env_ctx W (MemoRelSound.root_of root name) name d (concat (rev (mvals (sval fu rt) (ed_imports d)))) my)
              (ec_values (env_ctx W (MemoRelSound.root_of root name) name d (concat (rev (mvals (sval fu rt) (ed_imports d)))) my))
              (concat (rev (mvals (sval fu rt) (ed_imports d)))) (name, []) sm (Fr [])) as (props & Hp & K).
  { rewrite <- Q. exact Ho. }
  exists props. cbv zeta. split; [exact Q|]. split; [rewrite Q; exact Hp|]. split; [exact K|].
  intros x mg dx Hin Hdx. exact (LoopVals_my (sval fu rt) _ _ _ _ _ x mg dx LV HU Hin Hdx).
Qed.

(* the own layer of a value: its top layer *)
Definition own_layer (c : chain) : chain := firstn 1 c.

Theorem eval_env_structure (fuel : nat) (root name : string) (d : envdef) (fu : string -> nat) (rt : string -> string) :
  env_of W name = Some d -> oof (snd (eval_env W fuel root name d st0)) = false -> standalone_ok fu rt d ->
  let c := fst (eval_env W fuel root name d st0) in
  c = own_layer c ++ concat (rev (mvals (sval fu rt) (ed_imports d)))
  /\ exists props, own_layer c = [obj_layer props] /\ map fst props = own_keys d.
Proof.
  intros Hd Ho Hok. destruct (eval_env_decompose fuel root name d fu rt Hd Ho Hok) as (f' & my & sm & props & _ & E & K & _).
  cbv zeta in *. rewrite E. unfold own_layer. cbn [firstn app]. split; [reflexivity|]. exists props. split; [reflexivity|exact K].
Qed.

(* ================= 5. C01 for arbitrary programs ================= *)
Theorem C01_general (fuel : nat) (root name : string) (d : envdef) (fu : string -> nat) (rt : string -> string) :
  env_of W name = Some d -> oof (snd (eval_env W fuel root name d st0)) = false -> standalone_ok fu rt d ->
  let c := fst (eval_env W fuel root name d st0) in
  let gs := mvals (sval fu rt) (ed_imports d) in
  groups_compat (own_layer c :: rev gs) = true ->
  jx c = fold_left mp' (map jx gs ++ [jx (own_layer c)]) (JObj []).
Proof.
  intros Hd Ho Hok c gs C.
  destruct (eval_env_structure fuel root name d fu rt Hd Ho Hok) as [E (props & Hp & _)]. fold c gs in E, Hp.
  assert (Sc : csorted c = true) by apply RefSemSorted.eval_env_sorted.
  rewrite E at 1. rewrite Hp in *. cbn [app].
  apply jx_fold.
  - apply Forall_forall. intros g Hg. unfold gs in Hg. clear -Hg.
    induction (ed_imports d) as [|[n mg] r IH]; [destruct Hg|]. cbn [mvals] in Hg.
    destruct (env_of W n); [|now apply IH]. destruct mg; [|now apply IH].
    destruct Hg as [<-|Hg]; [apply sval_sorted|now apply IH].
  - rewrite E in Sc. apply csorted_app_iff in Sc. apply Sc.
  - exact C.
Qed.

(* the same in terms of [export] / [x_to_json] *)
Corollary C01_general_export (fuel : nat) (root name : string) (d : envdef) (fu : string -> nat) (rt : string -> string) :
  env_of W name = Some d -> oof (snd (eval_env W fuel root name d st0)) = false -> standalone_ok fu rt d ->
  let c := fst (eval_env W fuel root name d st0) in
  let gs := mvals (sval fu rt) (ed_imports d) in
  groups_compat (own_layer c :: rev gs) = true ->
  forall fx v, export fx c = Some v ->
    xjson v = fold_left mp' (map jx gs ++ [jx (own_layer c)]) (JObj [])
    /\ forall fj, x_depth v <= fj -> x_to_json fj v = fold_left mp' (map jx gs ++ [jx (own_layer c)]) (JObj []).
Proof.
  intros Hd Ho Hok c gs C fx v E.
  pose proof (C01_general fuel root name d fu rt Hd Ho Hok C) as H. fold c gs in H.
  rewrite <- (jx_export _ _ _ E) in H. split; [exact H|]. intros fj Hfj. now rewrite x_to_json_xjson.
Qed.

(* merge:false (and merge:true) imports stay readable under imports.<x>: the context in which the own values are evaluated
   holds, under imports.x, exactly x opened on its own *)
Theorem imports_readable (fuel : nat) (root name : string) (d : envdef) (fu : string -> nat) (rt : string -> string) :
  env_of W name = Some d -> oof (snd (eval_env W fuel root name d st0)) = false -> standalone_ok fu rt d ->
  exists f' my sm,
    let base := concat (rev (mvals (sval fu rt) (ed_imports d))) in
    let E := env_ctx W (MemoRelSound.root_of root name) name d base my in
    eval_env W fuel root name d st0 = eval_expr W f' E (EObj (ec_values E)) false base (name, []) sm
    /\ forall x mg dx k, In (x, mg) (ed_imports d) -> env_of W x = Some dx ->
         value_access (S (S k)) (ec_imports E) [AName x] = (sval fu rt x, 0%N)
         /\ value_access (S (S k)) (ec_imports E) [AKey x] = (sval fu rt x, 0%N).
Proof.
  intros Hd Ho Hok. destruct (eval_env_decompose fuel root name d fu rt Hd Ho Hok) as (f' & my & sm & props & Q & _ & _ & L).
  exists f', my, sm. cbv zeta in *. split; [exact Q|]. intros x mg dx k Hin Hdx.
  pose proof (ChainAlgebraEval.imports_access_stored k my x _ (L x mg dx Hin Hdx)) as [H1 H2].
  rewrite app_nil_r in H1, H2. split; assumption.
Qed.

(* ================= 6. every depth of the import graph ================= *)
(* the names of the merged, loadable imports, in listing order *)
Fixpoint mnames (is : list (string * bool)) : list string :=
  match is with
  | [] => []
  | (n, merge) :: rest =>
      match env_of W n with
      | Some _ => if merge then n :: mnames rest else mnames rest
      | None => mnames rest
      end
  end.

Lemma mvals_map (val : string -> chain) is : mvals val is = map val (mnames is).
Proof.
  induction is as [|[n mg] r IH]; [reflexivity|]. cbn [mvals mnames]. destruct (env_of W n); [|exact IH].
  destruct mg; [cbn [map]; now rewrite IH|exact IH].
Qed.

Lemma mnames_In is m : In m (mnames is) -> In (m, true) is /\ exists dm, env_of W m = Some dm.
Proof.
  induction is as [|[n mg] r IH]; [intros []|]. cbn [mnames]. destruct (env_of W n) as [dn|] eqn:En.
  - destruct mg.
    + intros [<-|H]; [split; [now left|eauto]|]. destruct (IH H) as [A B]. split; [now right|exact B].
    + intros H. destruct (IH H) as [A B]. split; [now right|exact B].
  - intros H. destruct (IH H) as [A B]. split; [now right|exact B].
Qed.

(* the nested fold: every merged import's value is itself the fold of ITS merged imports' values and its own layer *)
Fixpoint deepfold (fu : string -> nat) (rt : string -> string) (k : nat) (n : string) : json :=
  match k with
  | O => junknown
  | S k' =>
    match env_of W n with
    | None => junknown
    | Some d => fold_left mp' (map (deepfold fu rt k') (mnames (ed_imports d)) ++ [jx (own_layer (sval fu rt n))]) (JObj [])
    end
  end.

Theorem C01_general_deep (fu : string -> nat) (rt : string -> string) :
  (forall n d, env_of W n = Some d -> oof (snd (eval_env W (fu n) (rt n) n d st0)) = false) ->
  (forall n d, env_of W n = Some d ->
     groups_compat (own_layer (sval fu rt n) :: rev (mvals (sval fu rt) (ed_imports d))) = true) ->
  forall k n d, env_of W n = Some d -> rank n < k -> jx (sval fu rt n) = deepfold fu rt k n.
Proof.
  intros HO HC. induction k as [|k IH]; intros n d Hd Hk; [lia|]. cbn [deepfold]. rewrite Hd.
  assert (Es : sval fu rt n = fst (eval_env W (fu n) (rt n) n d st0)) by (unfold sval; now rewrite Hd).
  assert (Hok : standalone_ok fu rt d) by (intros m mg dm _ Hdm; exact (HO m dm Hdm)).
  pose proof (C01_general (fu n) (rt n) n d fu rt Hd (HO n d Hd) Hok) as H. cbv zeta in H. rewrite <- Es in H.
  rewrite (H (HC n d Hd)), mvals_map, map_map. f_equal. f_equal.
  apply map_ext_in. intros m Hm. destruct (mnames_In _ _ Hm) as [Hin [dm Hdm]].
  apply (IH m dm Hdm). pose proof (HR n d (m, true) Hd Hin). cbn [fst] in *. lia.
Qed.

End GENERAL.
