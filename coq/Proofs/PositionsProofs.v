(* Proofs/PositionsProofs.v — pos, yamlEndPos, yamlNodeRange, ScalarRange against the text. *)
From Coq Require Import Lia ZifyNat ZifyBool.
From Verif Require Import Base.Bytes Model.Positions Proofs.PositionsBase.
Local Open Scope Z_scope.

(* ---------------- the walk of the non-ASCII path ---------------- *)
Lemma walk_prefix : forall cs1 rest b c,
  walk (one_each cs1 ++ rest) b c (c + Z.of_nat (length cs1)) = b + slenZ (concat_str cs1).
Proof.
  induction cs1 as [|x cs1 IH]; intros rest b c.
  - cbn [one_each map app length concat_str]. change (slenZ EmptyString) with 0. rewrite !Z.add_0_r.
    destruct rest as [|[y w] r]; cbn [walk]; [reflexivity|]. now rewrite Z.ltb_irrefl.
  - cbn [one_each map app length concat_str walk]. fold (one_each cs1).
    replace (c <? c + Z.of_nat (S (length cs1))) with true by lia.
    replace (c + Z.of_nat (S (length cs1))) with ((c + 1) + Z.of_nat (length cs1)) by lia.
    rewrite IH, slenZ_app. lia.
Qed.

(* the walk never moves backwards, and a later column is never reported before an earlier one *)
Lemma walk_ge : forall cls b c column, b <= walk cls b c column.
Proof.
  induction cls as [|[cl w] r IH]; intros b c column; cbn [walk]; [lia|].
  destruct (c <? column); [|lia]. specialize (IH (b + slenZ cl) (c + w) column).
  pose proof (slenZ_nonneg cl). lia.
Qed.

Lemma walk_mono : forall cls b c col1 col2, col1 <= col2 -> walk cls b c col1 <= walk cls b c col2.
Proof.
  induction cls as [|[cl w] r IH]; intros b c col1 col2 H; cbn [walk]; [lia|].
  destruct (c <? col1) eqn:E1.
  - replace (c <? col2) with true by lia. now apply IH.
  - destruct (c <? col2); [|lia].
    pose proof (walk_ge r (b + slenZ cl) (c + w) col2). pose proof (slenZ_nonneg cl). lia.
Qed.

(* one column per code point: the walk stays on the line *)
Lemma walk_one_each_le : forall cs b c column, walk (one_each cs) b c column <= b + slenZ (concat_str cs).
Proof.
  induction cs as [|x cs IH]; intros b c column; cbn [one_each map walk concat_str].
  - change (slenZ EmptyString) with 0. lia.
  - fold (one_each cs). rewrite slenZ_app. destruct (c <? column).
    + specialize (IH (b + slenZ x) (c + 1) column). lia.
    + pose proof (slenZ_nonneg x). pose proof (slenZ_nonneg (concat_str cs)). lia.
Qed.

(* the ASCII fast path computes what the general walk computes when the clusters of the line are its characters
   with width 1 each (always so when pos advances one column per code point) *)
Lemma ascii_fast_path : forall cls l off col,
  is_ascii_str l = true -> w1_prefix cls (chars_of l) = true ->
  1 <= col -> col - 1 <= slenZ l ->
  walk cls off 1 col = off + col - 1.
Proof.
  intros cls l off col Ha Hw H1 H2.
  pose proof (ascii_chars_len1 l Ha) as Hl.
  pose proof (len1_concat _ Hl) as Hn. rewrite chars_concat in Hn.
  set (k := Z.to_nat (col - 1)).
  rewrite <- (firstn_skipn k (chars_of l)) in Hw. apply w1_prefix_app_l, w1_prefix_split in Hw.
  destruct Hw as [rest ->].
  assert (Hk : length (firstn k (chars_of l)) = k) by (rewrite firstn_length; lia).
  replace col with (1 + Z.of_nat (length (firstn k (chars_of l)))) at 1 by lia.
  rewrite walk_prefix, len1_concat; [lia|].
  rewrite <- (firstn_skipn k (chars_of l)) in Hl. apply Forall_app in Hl. tauto.
Qed.

(* ---------------- pos on a position of the text ---------------- *)
(* is the guard of pos passed by this line of the text? *)
Definition line_ok (p : pos_params) (nlines line : Z) : Prop :=
  pp_lo p <= 1 /\ (pp_hi_incl p = true \/ line < nlines).

(* byte offset = offset of the line start + byte length of the first col-1 characters of the line *)
Theorem pos_decomp : forall p u text pre l post cs1 cs2,
  lines_of text = pre ++ l :: post ->
  chars_of l = cs1 ++ cs2 ->
  line_ok p (Z.of_nat (length (lines_of text))) (Z.of_nat (length pre) + 1) ->
  (pp_runes p = true \/ is_ascii_str l = true \/ w1_prefix (u_seg u l) cs1 = true) ->
  pos p u (new_position_index text) (Z.of_nat (length pre) + 1) (Z.of_nat (length cs1) + 1)
  = Some {| p_line := Z.of_nat (length pre) + 1; p_col := Z.of_nat (length cs1) + 1;
            p_byte := lines_len pre + slenZ (concat_str cs1) |}.
Proof.
  intros p u text pre l post cs1 cs2 Hl Hc [Hlo Hhi] Hw.
  unfold pos, new_position_index. rewrite index_from_length, Hl in *.
  rewrite app_length in *. cbn [length] in *.
  replace (Z.of_nat (length pre) + 1 <? pp_lo p) with false by lia.
  replace (if pp_hi_incl p
           then Z.of_nat (length pre + S (length post)) <? Z.of_nat (length pre) + 1
           else Z.of_nat (length pre + S (length post)) <=? Z.of_nat (length pre) + 1) with false
    by (destruct (pp_hi_incl p); destruct Hhi as [Hh | Hh]; try discriminate Hh; lia).
  cbn [orb]. replace (Z.of_nat (length pre) + 1 <? 1) with false by lia.
  replace (Z.to_nat (Z.of_nat (length pre) + 1 - 1)) with (length pre) by lia.
  rewrite index_from_nth. cbn [l_ascii l_off l_line].
  assert (Hcat : slenZ l = slenZ (concat_str cs1) + slenZ (concat_str cs2)).
  { rewrite <- (chars_concat l) at 1. now rewrite Hc, concat_str_app, slenZ_app. }
  pose proof (slenZ_nonneg (concat_str cs2)) as Hnn.
  destruct (is_ascii_str l) eqn:Ea.
  - (* fast path *)
    pose proof (ascii_chars_len1 l Ea) as Hl1. rewrite Hc in Hl1. apply Forall_app in Hl1.
    destruct Hl1 as [Hl1 _]. rewrite (len1_concat _ Hl1) in *.
    do 2 f_equal. destruct (pp_clamp p); [|lia].
    destruct ((1 <=? Z.of_nat (length cs1) + 1) && (Z.of_nat (length cs1) + 1 - 1 <? slenZ l)) eqn:E; lia.
  - (* walk *)
    do 2 f_equal.
    replace (Z.of_nat (length cs1) + 1) with (1 + Z.of_nat (length cs1)) by lia.
    assert (Hcl : exists rest, clusters p u l = one_each cs1 ++ rest).
    { unfold clusters. destruct Hw as [Hw | [Hw | Hw]]; [|discriminate Hw|].
      - rewrite Hw, Hc, one_each_app. now eexists.
      - destruct (pp_runes p); [rewrite Hc, one_each_app; now eexists | now apply w1_prefix_split]. }
    destruct Hcl as [rest ->]. rewrite walk_prefix. lia.
Qed.

(* ---------------- true_byte: decomposition, bounds, monotonicity ---------------- *)
Lemma true_byte_decomp : forall text line col b, true_byte text line col = Some b ->
  exists pre l post cs1 cs2,
    lines_of text = pre ++ l :: post /\ chars_of l = cs1 ++ cs2 /\
    line = Z.of_nat (length pre) + 1 /\ col = Z.of_nat (length cs1) + 1 /\
    b = lines_len pre + slenZ (concat_str cs1).
Proof.
  intros text line col b H. unfold true_byte in H.
  destruct ((1 <=? line) && (line <=? Z.of_nat (length (lines_of text))) && (1 <=? col)) eqn:E; [|discriminate H].
  destruct (nth_error (lines_of text) (Z.to_nat (line - 1))) as [l|] eqn:En; [|discriminate H].
  destruct (col - 1 <=? Z.of_nat (length (chars_of l))) eqn:Ec; [|discriminate H].
  apply nth_error_split in En. destruct En as [pre [post [Hls Hlen]]].
  exists pre, l, post, (firstn (Z.to_nat (col - 1)) (chars_of l)), (skipn (Z.to_nat (col - 1)) (chars_of l)).
  repeat split.
  - exact Hls.
  - now rewrite firstn_skipn.
  - lia.
  - rewrite firstn_length. lia.
  - injection H as <-. rewrite Hls at 1. rewrite <- Hlen, firstn_app, firstn_all, Nat.sub_diag. cbn [firstn].
    now rewrite app_nil_r.
Qed.

Lemma true_byte_of_decomp : forall text pre l post cs1 cs2,
  lines_of text = pre ++ l :: post -> chars_of l = cs1 ++ cs2 ->
  true_byte text (Z.of_nat (length pre) + 1) (Z.of_nat (length cs1) + 1)
  = Some (lines_len pre + slenZ (concat_str cs1)).
Proof.
  intros text pre l post cs1 cs2 Hl Hc. unfold true_byte. rewrite Hl, app_length. cbn [length].
  replace ((1 <=? Z.of_nat (length pre) + 1)
           && (Z.of_nat (length pre) + 1 <=? Z.of_nat (length pre + S (length post)))
           && (1 <=? Z.of_nat (length cs1) + 1)) with true by lia.
  replace (Z.to_nat (Z.of_nat (length pre) + 1 - 1)) with (length pre) by lia.
  rewrite nth_error_app2, Nat.sub_diag by lia. cbn [nth_error]. rewrite Hc, app_length.
  replace (Z.of_nat (length cs1) + 1 - 1 <=? Z.of_nat (length cs1 + length cs2)) with true by lia.
  replace (Z.to_nat (Z.of_nat (length cs1) + 1 - 1)) with (length cs1) by lia.
  rewrite !firstn_app, !firstn_all, !Nat.sub_diag. cbn [firstn]. now rewrite !app_nil_r.
Qed.

Lemma concat_prefix_le : forall cs1 cs2, slenZ (concat_str cs1) <= slenZ (concat_str (cs1 ++ cs2)).
Proof. intros. rewrite concat_str_app, slenZ_app. pose proof (slenZ_nonneg (concat_str cs2)). lia. Qed.

Theorem true_byte_bounds : forall text line col b, true_byte text line col = Some b ->
  0 <= b <= slenZ text.
Proof.
  intros text line col b H. apply true_byte_decomp in H.
  destruct H as (pre & l & post & cs1 & cs2 & Hl & Hc & _ & _ & ->).
  rewrite (text_len_split text pre l post Hl).
  pose proof (lines_len_nonneg pre). pose proof (slenZ_nonneg (concat_str cs1)).
  pose proof (concat_prefix_le cs1 cs2) as Hp. rewrite <- Hc, chars_concat in Hp.
  destruct post; [lia|]. pose proof (slenZ_nonneg (join_nl (s :: post))). lia.
Qed.

Lemma lines_len_firstn_S : forall ls n l, nth_error ls n = Some l ->
  lines_len (firstn (S n) ls) = lines_len (firstn n ls) + slenZ l + 1.
Proof.
  induction ls as [|x ls IH]; intros n l H; [now destruct n|].
  destruct n as [|n]; cbn [nth_error] in H.
  - injection H as ->. cbn [firstn lines_len]. lia.
  - cbn [firstn lines_len]. cbn [firstn] in IH. rewrite (IH n l H). lia.
Qed.

Lemma lines_len_firstn_mono : forall ls n m, (n <= m)%nat ->
  lines_len (firstn n ls) <= lines_len (firstn m ls).
Proof.
  induction ls as [|x ls IH]; intros n m H; [now rewrite !firstn_nil|].
  destruct n as [|n]; [cbn [firstn lines_len]; apply lines_len_nonneg|].
  destruct m as [|m]; [lia|]. cbn [firstn lines_len]. specialize (IH n m). lia.
Qed.

Lemma concat_firstn_mono : forall cs n m, (n <= m)%nat ->
  slenZ (concat_str (firstn n cs)) <= slenZ (concat_str (firstn m cs)).
Proof.
  induction cs as [|x cs IH]; intros n m H; [now rewrite !firstn_nil|].
  destruct n as [|n]; [cbn [firstn concat_str]; apply slenZ_nonneg|].
  destruct m as [|m]; [lia|]. cbn [firstn concat_str]. rewrite !slenZ_app. specialize (IH n m). lia.
Qed.

Lemma concat_firstn_le : forall cs n, slenZ (concat_str (firstn n cs)) <= slenZ (concat_str cs).
Proof.
  intros cs n. rewrite <- (firstn_skipn n cs) at 2. apply concat_prefix_le.
Qed.

Definition lex_le (l1 c1 l2 c2 : Z) : Prop := l1 < l2 \/ (l1 = l2 /\ c1 <= c2).

Theorem true_byte_mono : forall text l1 c1 b1 l2 c2 b2,
  true_byte text l1 c1 = Some b1 -> true_byte text l2 c2 = Some b2 -> lex_le l1 c1 l2 c2 -> b1 <= b2.
Proof.
  intros text l1 c1 b1 l2 c2 b2 H1 H2 Hle. unfold true_byte in H1, H2.
  set (ls := lines_of text) in *.
  destruct ((1 <=? l1) && (l1 <=? Z.of_nat (length ls)) && (1 <=? c1)) eqn:E1; [|discriminate H1].
  destruct ((1 <=? l2) && (l2 <=? Z.of_nat (length ls)) && (1 <=? c2)) eqn:E2; [|discriminate H2].
  destruct (nth_error ls (Z.to_nat (l1 - 1))) as [x1|] eqn:N1; [|discriminate H1].
  destruct (nth_error ls (Z.to_nat (l2 - 1))) as [x2|] eqn:N2; [|discriminate H2].
  destruct (c1 - 1 <=? Z.of_nat (length (chars_of x1))) eqn:C1; [|discriminate H1].
  destruct (c2 - 1 <=? Z.of_nat (length (chars_of x2))) eqn:C2; [|discriminate H2].
  injection H1 as <-. injection H2 as <-.
  destruct Hle as [Hlt | [-> Hc]].
  - pose proof (lines_len_firstn_S ls _ x1 N1) as HS.
    pose proof (lines_len_firstn_mono ls (S (Z.to_nat (l1 - 1))) (Z.to_nat (l2 - 1)) ltac:(lia)) as HM.
    pose proof (concat_firstn_le (chars_of x1) (Z.to_nat (c1 - 1))) as HC. rewrite chars_concat in HC.
    pose proof (slenZ_nonneg (concat_str (firstn (Z.to_nat (c2 - 1)) (chars_of x2)))). lia.
  - rewrite N1 in N2. injection N2 as <-.
    pose proof (concat_firstn_mono (chars_of x1) (Z.to_nat (c1 - 1)) (Z.to_nat (c2 - 1)) ltac:(lia)). lia.
Qed.

(* ---------------- pos agrees with true_byte ---------------- *)
Lemma line_at_decomp : forall text pre l post, lines_of text = pre ++ l :: post ->
  line_at text (Z.of_nat (length pre) + 1) = Some l.
Proof.
  intros text pre l post H. unfold line_at. replace (1 <=? Z.of_nat (length pre) + 1) with true by lia.
  replace (Z.to_nat (Z.of_nat (length pre) + 1 - 1)) with (length pre) by lia.
  rewrite H, nth_error_app2, Nat.sub_diag by lia. reflexivity.
Qed.

Theorem pos_true_byte : forall p u text line col b,
  true_byte text line col = Some b ->
  line_ok p (Z.of_nat (length (lines_of text))) line ->
  irregular_before p u text line col = false ->
  pos p u (new_position_index text) line col = Some {| p_line := line; p_col := col; p_byte := b |}.
Proof.
  intros p u text line col b H Hok Hz. apply true_byte_decomp in H.
  destruct H as (pre & l & post & cs1 & cs2 & Hl & Hc & -> & -> & ->).
  apply (pos_decomp p u text pre l post cs1 cs2 Hl Hc Hok).
  unfold irregular_before in Hz. rewrite (line_at_decomp text pre l post Hl) in Hz.
  replace (Z.to_nat (Z.of_nat (length cs1) + 1 - 1)) with (length cs1) in Hz by lia.
  rewrite Hc, firstn_app, firstn_all, Nat.sub_diag in Hz. cbn [firstn] in Hz. rewrite app_nil_r in Hz.
  destruct (pp_runes p); [now left|]. destruct (is_ascii_str l); [right; now left|].
  right; right. cbn [negb andb] in Hz. now destruct (w1_prefix (u_seg u l) cs1).
Qed.

(* ---------------- ranges of nodes ---------------- *)
Lemma node_range_spec : forall p u idx n b e, node_range p u idx n = Some (b, e) ->
  pos p u idx (yn_line n) (yn_col n) = Some b /\
  pos p u idx (fst (end_lc p n)) (snd (end_lc p n)) = Some e.
Proof.
  intros p u idx n b e H. unfold node_range, yaml_end_pos in H.
  destruct (end_lc p n) as [l c]. cbn [fst snd].
  destruct (pos p u idx (yn_line n) (yn_col n)); [|discriminate H].
  destruct (pos p u idx l c); [|discriminate H]. now injection H as <- <-.
Qed.

(* every reported range whose two (line, column) pairs exist in the text and are in order lies in the text,
   begin not after end, byte offsets agreeing with line and column *)
Theorem range_in_text : forall p u text n tb te,
  let nl := Z.of_nat (length (lines_of text)) in
  let '(el, ec) := end_lc p n in
  true_byte text (yn_line n) (yn_col n) = Some tb ->
  true_byte text el ec = Some te ->
  line_ok p nl (yn_line n) -> line_ok p nl el ->
  irregular_before p u text (yn_line n) (yn_col n) = false ->
  irregular_before p u text el ec = false ->
  lex_le (yn_line n) (yn_col n) el ec ->
  node_range p u (new_position_index text) n
  = Some ({| p_line := yn_line n; p_col := yn_col n; p_byte := tb |},
          {| p_line := el; p_col := ec; p_byte := te |})
  /\ 0 <= tb /\ tb <= te /\ te <= slenZ text.
Proof.
  intros p u text n tb te nl. destruct (end_lc p n) as [el ec] eqn:Ee.
  intros Hb He Hokb Hoke Hzb Hze Hle. split.
  - unfold node_range, yaml_end_pos. rewrite Ee.
    rewrite (pos_true_byte p u text _ _ tb Hb Hokb Hzb), (pos_true_byte p u text _ _ te He Hoke Hze). reflexivity.
  - pose proof (true_byte_bounds _ _ _ _ Hb). pose proof (true_byte_bounds _ _ _ _ He).
    pose proof (true_byte_mono _ _ _ _ _ _ _ Hb He Hle). lia.
Qed.

(* ---------------- begin <= end in (line, column) order ---------------- *)
Lemma nchars_nonneg : forall s, 0 <= nchars s.
Proof. intros s. unfold nchars. lia. Qed.

Lemma str_len_nonneg : forall c s, 0 <= str_len c s.
Proof. intros c s. unfold str_len. destruct c; [apply nchars_nonneg | apply slenZ_nonneg]. Qed.

Lemma scalar_end_lex : forall p style tag value line col,
  let '(el, ec) := scalar_end_lc p style tag value line col in lex_le line col el ec.
Proof.
  intros p style tag value line col. unfold scalar_end_lc.
  pose proof (str_len_nonneg (pp_end_chars p) value).
  pose proof (str_len_nonneg (pp_tag_chars p) tag).
  destruct (style =? 8)%N.
  - pose proof (str_len_nonneg (pp_end_chars p) (last (lines_of value) EmptyString)).
    pose proof (lines_nonempty value). destruct (lines_of value) as [|x r] eqn:E; [congruence|].
    cbn [length]. unfold lex_le. destruct r; cbn [length]; lia.
  - destruct (style =? 1)%N; unfold lex_le; lia.
Qed.

(* yaml.v3 reports nodes in document order: the last child of a collection does not start before it *)
Fixpoint ordered (n : ynode) : Prop :=
  match n with
  | YNode kind _ _ _ line col _ ch =>
      is_collection kind = true ->
      (fix go (l : list ynode) : Prop :=
         match l with
         | [] => True
         | x :: r => match r with
                     | [] => lex_le line col (yn_line x) (yn_col x) /\ ordered x
                     | _ :: _ => go r
                     end
         end) ch
  end.

Lemma lex_le_trans : forall l1 c1 l2 c2 l3 c3, lex_le l1 c1 l2 c2 -> lex_le l2 c2 l3 c3 -> lex_le l1 c1 l3 c3.
Proof. unfold lex_le. intros. lia. Qed.

Lemma lex_le_refl : forall l c, lex_le l c l c.
Proof. unfold lex_le. intros. lia. Qed.

Fixpoint ynode_size (n : ynode) : nat :=
  match n with
  | YNode _ _ _ _ _ _ _ ch => S ((fix go (l : list ynode) : nat :=
                                    match l with [] => O | x :: r => (ynode_size x + go r)%nat end) ch)
  end.

Theorem node_lex : forall p n, ordered n ->
  let '(el, ec) := end_lc p n in lex_le (yn_line n) (yn_col n) el ec.
Proof.
  intros p n. remember (ynode_size n) as sz eqn:Hs. revert n Hs.
  induction sz as [sz IH] using (well_founded_induction lt_wf). intros n Hs Ho.
  destruct n as [kind style tag value line col anch ch]. cbn [end_lc yn_line yn_col].
  destruct (is_collection kind) eqn:Ek.
  - cbn [ordered] in Ho. specialize (Ho Ek). cbn [ynode_size] in Hs.
    revert Hs Ho. generalize dependent sz. induction ch as [|x r IHr]; intros sz IH Hs Ho.
    + apply lex_le_refl.
    + destruct r as [|y r].
      * destruct Ho as [Hle Hox]. specialize (IH (ynode_size x) ltac:(lia) x eq_refl Hox).
        destruct (end_lc p x) as [el ec]. eapply lex_le_trans; eauto.
      * apply (IHr (S ((fix go (l : list ynode) : nat :=
                          match l with [] => O | x :: r => (ynode_size x + go r)%nat end) (y :: r)))).
        -- intros m Hm. apply IH. lia.
        -- reflexivity.
        -- exact Ho.
  - apply (scalar_end_lex p style tag value line col).
Qed.

(* ---------------- plain single-line scalars ---------------- *)
(* the scalar [value] sits on line |pre|+1 after the characters of [a]:  line = a ++ value ++ z.
   The node is NOT anchored: yaml.v3 reports an anchored scalar at its `&` (see anchored_slice_refuted). *)
Theorem plain_scalar_slice : forall p u text pre a value z post tag,
  lines_of text = pre ++ (a +++ value +++ z) :: post ->
  complete a = true -> complete value = true ->
  (pp_end_chars p = true \/ is_ascii_str value = true) ->
  let l := a +++ value +++ z in
  let line := Z.of_nat (length pre) + 1 in
  let col := nchars a + 1 in
  line_ok p (Z.of_nat (length (lines_of text))) line ->
  (pp_runes p = true \/ is_ascii_str l = true \/ w1_prefix (u_seg u l) (chars_of (a +++ value)) = true) ->
  let b := lines_len pre + slenZ a in
  let e := b + slenZ value in
  node_range p u (new_position_index text) (YNode 8 0 tag value line col false [])
  = Some ({| p_line := line; p_col := col; p_byte := b |},
          {| p_line := line; p_col := col + nchars value; p_byte := e |})
  /\ substr b e text = value
  /\ 0 <= b /\ b <= e /\ e <= slenZ text
  /\ true_byte text line col = Some b /\ true_byte text line (col + nchars value) = Some e.
Proof.
  intros p u text pre a value z post tag Hl Ha Hv Hunit l line col Hok Hw b e.
  assert (Hcs : chars_of l = chars_of a ++ chars_of value ++ chars_of z).
  { unfold l. rewrite (chars_app a _ Ha), (chars_app value _ Hv). reflexivity. }
  assert (Hcs2 : chars_of l = (chars_of a ++ chars_of value) ++ chars_of z) by (now rewrite <- app_assoc).
  assert (Hend : str_len (pp_end_chars p) value = nchars value).
  { unfold str_len. destruct (pp_end_chars p); [reflexivity|].
    destruct Hunit as [Hu | Hu]; [discriminate Hu | now rewrite ascii_nchars]. }
  assert (Hw1 : pp_runes p = true \/ is_ascii_str l = true \/ w1_prefix (u_seg u l) (chars_of a) = true).
  { destruct Hw as [Hw | [Hw | Hw]]; [now left | right; now left | right; right].
    rewrite (chars_app a _ Ha) in Hw. now apply w1_prefix_app_l in Hw. }
  assert (Hw2 : pp_runes p = true \/ is_ascii_str l = true
                \/ w1_prefix (u_seg u l) (chars_of a ++ chars_of value) = true).
  { destruct Hw as [Hw | [Hw | Hw]]; [now left | right; now left | right; right].
    now rewrite (chars_app a _ Ha) in Hw. }
  pose proof (pos_decomp p u text pre l post _ _ Hl Hcs Hok Hw1) as Pb.
  pose proof (pos_decomp p u text pre l post _ _ Hl Hcs2 Hok Hw2) as Pe.
  rewrite chars_concat in Pb. rewrite concat_str_app, !chars_concat, slenZ_app, app_length in Pe.
  assert (Hcol : Z.of_nat (length (chars_of a)) + 1 = col) by reflexivity.
  assert (Hcol2 : Z.of_nat (length (chars_of a) + length (chars_of value)) + 1 = col + nchars value)
    by (unfold col, nchars; clear; lia).
  rewrite Hcol in Pb. rewrite Hcol2 in Pe.
  assert (Hsub : substr b e text = value).
  { assert (Htext : text = (concat_nl pre +++ a) +++ value +++
                           (z +++ match post with [] => EmptyString | _ :: _ => nl +++ join_nl post end)).
    { rewrite (text_split text pre l post Hl) at 1. unfold l. now rewrite !app_assoc_s. }
    rewrite Htext. apply substr_mid; unfold e, b; rewrite ?slenZ_app, ?lines_len_concat_nl; clear; lia. }
  pose proof (true_byte_of_decomp text pre l post _ _ Hl Hcs) as Tb.
  pose proof (true_byte_of_decomp text pre l post _ _ Hl Hcs2) as Te.
  rewrite chars_concat, Hcol in Tb. rewrite concat_str_app, !chars_concat, slenZ_app, app_length, Hcol2 in Te.
  replace (lines_len pre + (slenZ a + slenZ value)) with e in * by (unfold e, b; clear; lia).
  fold b in Pb, Tb.
  repeat split.
  - unfold node_range, yaml_end_pos. cbn [yn_line yn_col end_lc]. change (is_collection 8) with false. cbv iota.
    unfold scalar_end_lc. change (0 =? 8)%N with false. change (0 =? 1)%N with false. cbv iota.
    rewrite Hend. unfold line. rewrite Pb, Pe. reflexivity.
  - exact Hsub.
  - pose proof (true_byte_bounds _ _ _ _ Tb) as Hn. clear - Hn. lia.
  - unfold e. pose proof (slenZ_nonneg value) as Hn. clear - Hn. lia.
  - pose proof (true_byte_bounds _ _ _ _ Te) as Hn. clear - Hn. lia.
  - exact Tb.
  - exact Te.
Qed.

(* the anchor flag plays no role in the computation: an anchored node gets the range of the un-anchored one *)
Lemma node_range_ignores_anchor : forall p u idx k s t v l c a1 a2 ch,
  node_range p u idx (YNode k s t v l c a1 ch) = node_range p u idx (YNode k s t v l c a2 ch).
Proof. reflexivity. Qed.

(* ---------------- sub-ranges of a plain single-line scalar: ScalarRange ---------------- *)
Theorem scalar_subrange : forall p u text pre a v1 v2 v3 z post tag style,
  let value := v1 +++ v2 +++ v3 in
  lines_of text = pre ++ (a +++ value +++ z) :: post ->
  complete a = true -> complete v1 = true -> complete v2 = true -> complete v3 = true ->
  (pp_end_chars p = true \/ is_ascii_str value = true) ->
  (style = 0 \/ style = 32)%N ->
  let l := a +++ value +++ z in
  let line := Z.of_nat (length pre) + 1 in
  let col := nchars a + 1 in
  line_ok p (Z.of_nat (length (lines_of text))) line ->
  (pp_runes p = true \/ is_ascii_str l = true \/ w1_prefix (u_seg u l) (chars_of (a +++ value)) = true) ->
  (pp_sr_runes p = true \/ (u_width u v1 = nchars v1 /\ u_width u (v1 +++ v2) = nchars (v1 +++ v2))) ->
  forall rng, node_range p u (new_position_index text) (YNode 8 0 tag value line col false []) = Some rng ->
  let st := String.length v1 in
  let en := (String.length v1 + String.length v2)%nat in
  exists b' e',
    scalar_range p u (YNode 8 style tag value line col false []) rng st en = Some (b', e')
    /\ p_line b' = line /\ p_line e' = line
    /\ true_byte text line (p_col b') = Some (p_byte b')
    /\ true_byte text line (p_col e') = Some (p_byte e')
    /\ substr (p_byte b') (p_byte e') text = v2
    /\ p_byte b' <= p_byte e' <= slenZ text.
Proof.
  intros p u text pre a v1 v2 v3 z post tag style value Hl Ha H1 H2 H3 Hunit Hst l line col Hok Hw Hsr rng Hr st en.
  assert (Hv : complete value = true) by (unfold value; auto using complete_app).
  destruct (plain_scalar_slice p u text pre a value z post tag Hl Ha Hv Hunit Hok Hw)
    as (Hnr & _ & _ & _ & _ & _ & _).
  fold line col in Hnr. rewrite Hnr in Hr. injection Hr as <-.
  unfold scalar_range. cbn [yn_kind yn_style yn_value p_line p_col p_byte].
  replace (negb (8 =? 8)%N) with false by reflexivity. rewrite Z.eqb_refl. cbn [negb orb].
  replace (negb (style =? 0)%N && negb (style =? 32)%N) with false
    by (destruct Hst as [-> | ->]; reflexivity).
  assert (Hk1 : stake st value = v1) by (unfold st, value; apply stake_app).
  assert (Hk2 : stake en value = v1 +++ v2).
  { unfold en, value. rewrite <- length_app_s, <- app_assoc_s. apply stake_app. }
  rewrite Hk1, Hk2.
  assert (W1 : (if pp_sr_runes p then nchars v1 else u_width u v1) = nchars v1).
  { destruct (pp_sr_runes p); [reflexivity|]. destruct Hsr as [Hs | [Hs _]]; [discriminate Hs | exact Hs]. }
  assert (W2 : (if pp_sr_runes p then nchars (v1 +++ v2) else u_width u (v1 +++ v2)) = nchars (v1 +++ v2)).
  { destruct (pp_sr_runes p); [reflexivity|]. destruct Hsr as [Hs | [_ Hs]]; [discriminate Hs | exact Hs]. }
  rewrite W1, W2.
  eexists; eexists. split; [reflexivity|]. cbn [p_line p_col p_byte].
  (* decompose the line at the two sub-positions *)
  assert (La : l = (a +++ v1) +++ (v2 +++ v3 +++ z)) by (unfold l, value; now rewrite !app_assoc_s).
  assert (Lb : l = (a +++ v1 +++ v2) +++ (v3 +++ z)) by (unfold l, value; now rewrite !app_assoc_s).
  assert (Ca : complete (a +++ v1) = true) by auto using complete_app.
  assert (Cb : complete (a +++ v1 +++ v2) = true) by auto using complete_app.
  assert (Ta : true_byte text line (col + nchars v1) = Some (lines_len pre + slenZ a + slenZ v1)).
  { pose proof (true_byte_of_decomp text pre l post (chars_of (a +++ v1)) (chars_of (v2 +++ v3 +++ z)) Hl) as T.
    rewrite chars_concat, slenZ_app in T. unfold col, line.
    assert (E1 : Z.of_nat (length (chars_of (a +++ v1))) = nchars a + nchars v1) by exact (nchars_app a v1 Ha).
    replace (nchars a + 1 + nchars v1) with (Z.of_nat (length (chars_of (a +++ v1))) + 1) by (rewrite E1; clear; lia).
    rewrite T; [f_equal; clear; lia|]. rewrite La at 1. now apply chars_app. }
  assert (Tb : true_byte text line (col + nchars (v1 +++ v2))
               = Some (lines_len pre + slenZ a + slenZ v1 + slenZ v2)).
  { pose proof (true_byte_of_decomp text pre l post (chars_of (a +++ v1 +++ v2)) (chars_of (v3 +++ z)) Hl) as T.
    rewrite chars_concat, !slenZ_app in T. unfold col, line.
    assert (E1 : Z.of_nat (length (chars_of (a +++ v1 +++ v2))) = nchars a + nchars (v1 +++ v2))
      by exact (nchars_app a (v1 +++ v2) Ha).
    replace (nchars a + 1 + nchars (v1 +++ v2)) with (Z.of_nat (length (chars_of (a +++ v1 +++ v2))) + 1)
      by (rewrite E1; clear; lia).
    rewrite T; [f_equal; clear; lia|]. rewrite Lb at 1. now apply chars_app. }
  unfold st, en. rewrite Nat2Z.inj_add. fold (slenZ v1) (slenZ v2).
  replace (lines_len pre + slenZ a + (slenZ v1 + slenZ v2)) with (lines_len pre + slenZ a + slenZ v1 + slenZ v2)
    by (clear; lia).
  repeat split.
  - exact Ta.
  - exact Tb.
  - assert (Htext : text = (concat_nl pre +++ a +++ v1) +++ v2 +++
                         (v3 +++ z +++ match post with [] => EmptyString | _ :: _ => nl +++ join_nl post end)).
    { rewrite (text_split text pre l post Hl) at 1. unfold l, value. now rewrite !app_assoc_s. }
    rewrite Htext. apply substr_mid; rewrite ?slenZ_app, ?lines_len_concat_nl; clear; lia.
  - pose proof (slenZ_nonneg v2) as Hn. clear - Hn. lia.
  - pose proof (true_byte_bounds _ _ _ _ Tb) as Hn. clear - Hn. lia.
Qed.

(* ---------------- every node, whether or not the end the code computes exists in the text ---------------- *)
(* a position on a line of the text, at any column >= 1 (also past the end of the line) *)
Lemma pos_line_bounds : forall p u text pre l post col,
  lines_of text = pre ++ l :: post ->
  line_ok p (Z.of_nat (length (lines_of text))) (Z.of_nat (length pre) + 1) -> 1 <= col ->
  exists bt, pos p u (new_position_index text) (Z.of_nat (length pre) + 1) col
             = Some {| p_line := Z.of_nat (length pre) + 1; p_col := col; p_byte := bt |}
    /\ lines_len pre <= bt
    /\ (pp_clamp p = true -> pp_runes p = true -> bt <= lines_len pre + slenZ l).
Proof.
  intros p u text pre l post col Hl [Hlo Hhi] Hc.
  unfold pos, new_position_index. rewrite index_from_length, Hl in *.
  rewrite app_length in *. cbn [length] in *.
  replace (Z.of_nat (length pre) + 1 <? pp_lo p) with false by lia.
  replace (if pp_hi_incl p
           then Z.of_nat (length pre + S (length post)) <? Z.of_nat (length pre) + 1
           else Z.of_nat (length pre + S (length post)) <=? Z.of_nat (length pre) + 1) with false
    by (destruct (pp_hi_incl p); destruct Hhi as [Hh | Hh]; try discriminate Hh; lia).
  cbn [orb]. replace (Z.of_nat (length pre) + 1 <? 1) with false by lia.
  replace (Z.to_nat (Z.of_nat (length pre) + 1 - 1)) with (length pre) by lia.
  rewrite index_from_nth. cbn [l_ascii l_off l_line].
  pose proof (slenZ_nonneg l) as Hn.
  destruct (is_ascii_str l) eqn:Ea.
  - eexists. split; [reflexivity|]. split.
    + destruct (pp_clamp p); [|lia]. destruct ((1 <=? col) && (col - 1 <? slenZ l)); lia.
    + intros -> _. destruct ((1 <=? col) && (col - 1 <? slenZ l)) eqn:E; lia.
  - eexists. split; [reflexivity|]. split.
    + pose proof (walk_ge (clusters p u l) (0 + lines_len pre) 1 col). lia.
    + intros _ Hr. unfold clusters. rewrite Hr.
      pose proof (walk_one_each_le (chars_of l) (0 + lines_len pre) 1 col) as W. rewrite chars_concat in W. lia.
Qed.

(* on one line, a later column is never reported at an earlier byte *)
Lemma pos_mono_col : forall p u idx line c1 c2 h1, 1 <= c1 -> c1 <= c2 ->
  pos p u idx line c1 = Some h1 ->
  exists h2, pos p u idx line c2 = Some h2 /\ p_byte h1 <= p_byte h2 /\ p_line h2 = line /\ p_col h2 = c2.
Proof.
  intros p u idx line c1 c2 h1 H1 Hc H. unfold pos in *.
  destruct ((line <? pp_lo p) || (if pp_hi_incl p then Z.of_nat (length idx) <? line else Z.of_nat (length idx) <=? line)).
  - injection H as <-. eexists. split; [reflexivity|]. cbn [p_byte p_line p_col]. lia.
  - destruct (line <? 1); [discriminate H|].
    destruct (nth_error idx (Z.to_nat (line - 1))) as [l|]; [|discriminate H].
    destruct (l_ascii l).
    + injection H as <-. eexists. split; [reflexivity|]. cbn [p_byte p_line p_col].
      pose proof (slenZ_nonneg (l_line l)).
      destruct (pp_clamp p); [|lia].
      destruct ((1 <=? c1) && (c1 - 1 <? slenZ (l_line l))) eqn:E1;
        destruct ((1 <=? c2) && (c2 - 1 <? slenZ (l_line l))) eqn:E2; lia.
    + injection H as <-. eexists. split; [reflexivity|]. cbn [p_byte p_line p_col].
      pose proof (walk_mono (clusters p u (l_line l)) (l_off l) 1 c1 c2 Hc). lia.
Qed.

Lemma nth_error_split_len : forall (ls : list string) k l, nth_error ls k = Some l ->
  exists pre post, ls = pre ++ l :: post /\ length pre = k /\ pre = firstn k ls.
Proof.
  intros ls k l H. destruct (nth_error_split ls k H) as (pre & post & E & L).
  exists pre, post. repeat split; [exact E | exact L|].
  rewrite E, <- L, firstn_app, firstn_all, Nat.sub_diag. cbn [firstn]. now rewrite app_nil_r.
Qed.

(* for EVERY node whose begin exists in the text (what yaml.v3 reports) and whose end line is a line of the text:
   the range is reported, begins at the right byte and does not end before it begins — whether or not the
   (line, column) computed for the end exists (ends of block, folded and multi-line scalars often do not:
   [end_missing]).  With the clamp of a repaired pos the end also stays inside the text. *)
Theorem range_bytes_ordered : forall p u text n tb,
  let nl := Z.of_nat (length (lines_of text)) in
  let el := fst (end_lc p n) in
  let ec := snd (end_lc p n) in
  true_byte text (yn_line n) (yn_col n) = Some tb ->
  (forall line, line_ok p nl line) ->
  irregular_before p u text (yn_line n) (yn_col n) = false ->
  lex_le (yn_line n) (yn_col n) el ec -> 1 <= ec -> el <= nl ->
  exists e, node_range p u (new_position_index text) n
            = Some ({| p_line := yn_line n; p_col := yn_col n; p_byte := tb |}, e)
    /\ p_line e = el /\ p_col e = ec /\ 0 <= tb /\ tb <= p_byte e
    /\ (pp_clamp p = true -> pp_runes p = true -> p_byte e <= slenZ text).
Proof.
  intros p u text n tb nl el ec Hb Hok Hz Hle Hec Hel.
  pose proof (pos_true_byte p u text _ _ tb Hb (Hok _) Hz) as Pb.
  pose proof (true_byte_bounds _ _ _ _ Hb) as Bb.
  unfold node_range, yaml_end_pos. destruct (end_lc p n) as [el' ec'] eqn:Ee. cbn [fst snd] in el, ec.
  subst el ec. rewrite Pb.
  assert (Hl1 : 1 <= yn_line n <= nl).
  { unfold true_byte in Hb. fold nl in Hb.
    destruct ((1 <=? yn_line n) && (yn_line n <=? nl) && (1 <=? yn_col n)) eqn:E; [lia | discriminate Hb]. }
  assert (Hl2 : 1 <= el') by (unfold lex_le in Hle; lia).
  destruct (nth_error (lines_of text) (Z.to_nat (el' - 1))) as [l2|] eqn:N2;
    [|apply nth_error_None in N2; unfold nl in Hel; lia].
  destruct (nth_error_split_len _ _ _ N2) as (pre2 & post2 & E2 & L2 & F2).
  assert (Hline : el' = Z.of_nat (length pre2) + 1) by lia.
  destruct (pos_line_bounds p u text pre2 l2 post2 ec' E2 (Hok _) Hec) as (bt & Pe & Lo & Hi).
  rewrite <- Hline in Pe.
  assert (Hin : pp_clamp p = true -> pp_runes p = true -> bt <= slenZ text).
  { intros Hc Hr. specialize (Hi Hc Hr). rewrite (text_len_split text pre2 l2 post2 E2).
    destruct post2; [lia|]. pose proof (slenZ_nonneg (join_nl (s :: post2))). lia. }
  destruct Hle as [Hlt | [Heq Hcol]].
  - (* the end is on a later line *)
    rewrite Pe. eexists. split; [reflexivity|]. cbn [p_line p_col p_byte].
    split; [reflexivity|]. split; [reflexivity|]. split; [lia|]. split; [|exact Hin].
    apply true_byte_decomp in Hb. destruct Hb as (pre & l & post & cs1 & cs2 & Hl & Hc & Hln & _ & ->).
    assert (N1 : nth_error (lines_of text) (length pre) = Some l)
      by (rewrite Hl, nth_error_app2, Nat.sub_diag by lia; reflexivity).
    pose proof (lines_len_firstn_S _ _ _ N1) as HS.
    assert (Fp : firstn (length pre) (lines_of text) = pre).
    { rewrite Hl, firstn_app, firstn_all, Nat.sub_diag. cbn [firstn]. now rewrite app_nil_r. }
    rewrite Fp in HS.
    pose proof (lines_len_firstn_mono (lines_of text) (S (length pre)) (Z.to_nat (el' - 1)) ltac:(lia)) as HM.
    rewrite <- F2 in HM.
    pose proof (concat_prefix_le cs1 cs2) as Hp. rewrite <- Hc, chars_concat in Hp. lia.
  - (* same line *)
    rewrite <- Heq in *.
    assert (Hc1 : 1 <= yn_col n).
    { unfold true_byte in Hb. fold nl in Hb.
      destruct ((1 <=? yn_line n) && (yn_line n <=? nl) && (1 <=? yn_col n)) eqn:E; [lia | discriminate Hb]. }
    destruct (pos_mono_col p u _ _ _ _ _ Hc1 Hcol Pb) as (h2 & P2 & Hle2 & Hl2' & Hc2).
    rewrite P2. eexists. split; [reflexivity|]. cbn [p_byte] in Hle2.
    rewrite P2 in Pe. injection Pe as ->. cbn [p_line p_col p_byte] in *.
    split; [reflexivity|]. split; [reflexivity|]. split; [lia|]. split; [lia | exact Hin].
Qed.
