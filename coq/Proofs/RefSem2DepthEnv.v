(* Proofs/RefSem2DepthEnv.v — the nesting depth of the value of an environment is bounded by a number computed from
   the text of the world: (context / provider-constant depth) + sum over the root and the loadable definitions of
   (number of expression positions + 1).  For every fuel, every fault plan, cyclic imports and references included. *)
From Verif Require Import Base.Bytes Model.Chain Model.GoText Model.Envelope Model.Eval
  Proofs.EvalTotalBase Proofs.EvalTotalInv Proofs.EvalTotalOrder Proofs.EvalTotalSyntax Proofs.EvalTotalFail
  Proofs.EvalTotalRecover Proofs.EvalTotalBound
  Proofs.ChainAlgebraSorted Proofs.ChainAlgebraExport Proofs.RefSemMemo Proofs.RefSem
  Proofs.RefSem2Depth Proofs.RefSem2DepthEval.
From Coq Require Import Lia.
Local Open Scope nat_scope.

(* ---------------- sums over filtered lists ---------------- *)
Lemma msum_cons {A} (g : A -> nat) a l : list_sum (map g (a :: l)) = g a + list_sum (map g l).
Proof. reflexivity. Qed.

Lemma sum_filter_le {A} (g : A -> nat) (p p' : A -> bool) l :
  (forall x, p' x = true -> p x = true) ->
  list_sum (map g (filter p' l)) <= list_sum (map g (filter p l)).
Proof.
  intro H. induction l as [|a r IH]; [reflexivity|]. cbn [filter].
  destruct (p' a) eqn:E; [rewrite (H a E), !msum_cons; lia|]. destruct (p a); rewrite ?msum_cons; lia.
Qed.

Lemma sum_filter_drop {A} (g : A -> nat) (p p' : A -> bool) l x :
  In x l -> p x = true -> p' x = false -> (forall y, p' y = true -> p y = true) ->
  list_sum (map g (filter p' l)) + g x <= list_sum (map g (filter p l)).
Proof.
  intros Hin Hp Hp' H. induction l as [|a r IH]; [contradiction|]. cbn [filter]. destruct Hin as [->|Hin].
  - rewrite Hp, Hp', msum_cons. pose proof (sum_filter_le g p p' r H). lia.
  - specialize (IH Hin). destruct (p' a) eqn:E; [rewrite (H a E), !msum_cons; lia|].
    destruct (p a); rewrite ?msum_cons; lia.
Qed.

Lemma sum_filter_total {A} (g : A -> nat) (p : A -> bool) l : list_sum (map g (filter p l)) <= list_sum (map g l).
Proof.
  induction l as [|a r IH]; [reflexivity|]. cbn [filter]. destruct (p a); rewrite !msum_cons; lia.
Qed.

Section WFM.
Variable W : world.

(* no expression of a not-yet-entered environment is in the memo table *)
Definition wfm (s : st) : Prop := forall n, alookup n (imps s) = None -> untouched n s.

Lemma wfm_st0 : wfm st0. Proof. intros n _ p. reflexivity. Qed.

Lemma wfm_same_memo s s' : memo s' = memo s -> (forall n, alookup n (imps s') = None -> alookup n (imps s) = None) ->
  wfm s -> wfm s'.
Proof. intros Hm Hi H n Hn p. rewrite Hm. apply (H n (Hi n Hn)). Qed.

Lemma wfm_imps_set n i s : wfm s -> wfm (snd (imps_set n i s)).
Proof.
  apply wfm_same_memo; [reflexivity|]. intros n' H. cbn [imps_set snd imps alookup] in H.
  destruct (String.eqb n' n); [discriminate|exact H].
Qed.

Lemma imps_unchanged_P5 f : P5 W (fun s s' => imps s' = imps s) (fun _ => True) f.
Proof. apply P5_all; auto; intros; congruence. Qed.

Lemma eval_expr_wfm f E x xsec xbase id s :
  fst id = ec_name E -> alookup (ec_name E) (imps s) <> None -> wfm s -> wfm (snd (eval_expr W f E x xsec xbase id s)).
Proof.
  intros Hid Hin Hs n Hn.
  destruct (imps_unchanged_P5 f) as (Hi & _). rewrite (Hi E x xsec xbase id I I s) in Hn.
  assert (Hne : ec_name E <> n) by (intro Heq; apply Hin; rewrite Heq; exact Hn).
  destruct (untouched_P5 W n f) as (Hu & _). apply Hu; [exact Hne|rewrite Hid; exact Hne|apply Hs, Hn].
Qed.

Lemma env_go_wfm (ev : string -> envdef -> M chain) :
  (forall n d s, wfm s -> wfm (snd (ev n d s))) ->
  forall is base my s, wfm s -> wfm (snd (env_go W ev is base my s)).
Proof.
  intro Hev. induction is as [|[n merge] rest IH]; intros base my s Hs; [exact Hs|].
  rewrite env_go_cons, bind_eq. change (imps_get n s) with (alookup n (imps s), s). cbn [fst snd].
  destruct (alookup n (imps s)) as [i|].
  - destruct (is_evaluating i); [rewrite bind_eq; apply IH|destruct (is_value i); apply IH; exact Hs].
    eapply wfm_same_memo; [| |exact Hs]; [reflexivity|auto].
  - rewrite bind_eq. cbv beta. rewrite bind_eq.
    set (s1 := snd (emit (EvLoad n) (snd (call W s)))).
    assert (H1 : wfm s1) by (eapply wfm_same_memo; [| |exact Hs]; [reflexivity|auto]).
    destruct (load_result W (fst (call W s)) n) as [| |d'].
    + rewrite bind_eq, bind_eq. apply IH. apply wfm_imps_set. eapply wfm_same_memo; [| |exact H1]; [reflexivity|auto].
    + rewrite bind_eq, bind_eq. apply IH. apply wfm_imps_set. eapply wfm_same_memo; [| |exact H1]; [reflexivity|auto].
    + rewrite bind_eq. cbv beta. rewrite bind_eq. apply IH. apply wfm_imps_set. apply Hev, H1.
Qed.

Lemma eval_env_wfm : forall f root name d s, wfm s -> wfm (snd (eval_env W f root name d s)).
Proof.
  induction f as [|f IH]; intros root name d s Hs.
  - rewrite eval_env_0. eapply wfm_same_memo; [| |exact Hs]; [reflexivity|auto].
  - rewrite eval_env_unfold. apply eval_expr_wfm; [reflexivity| |].
    + change (ec_name (env_E W f root name d s)) with name.
      pose proof (env_s3_untouched W f root name d s) as _. unfold env_s3. cbn [add_err snd imps imps_set alookup].
      rewrite String.eqb_refl. discriminate.
    + unfold env_s3. eapply wfm_same_memo; [reflexivity|intros n H; exact H|]. apply wfm_imps_set.
      unfold env_imports_run. apply env_go_wfm; [intros; apply IH; assumption|]. apply wfm_imps_set, Hs.
Qed.

End WFM.

(* ---------------- the bound ---------------- *)
Definition cost (d : envdef) : nat := length (all_paths (EObj (vals_of d))) + 1.
Definition lcost (l : env_load) : nat := match l with LoadOk d => cost d | _ => 0 end.
Definition prov_depth (W : world) : nat :=
  lmax (fun np : string * provider => match pv_beh (snd np) with PConst v => x_depth v | _ => 0 end) (w_provs W).
Definition ctx_depth (W : world) : nat := S (Nat.max 2 (lmax (fun kv : string * xval => x_depth (snd kv)) (w_ctx W))).
Definition C0 (W : world) : nat := Nat.max (ctx_depth W) (prov_depth W).
(* the bound on the depth of the value of environment d in world W *)
Definition depth_bound (W : world) (d : envdef) : nat :=
  C0 W + list_sum (map (fun nl : string * env_load => lcost (snd nl)) (w_envs W)) + cost d.

Section ENVDEPTH.
Variable W : world.
Hypothesis world_good : forall n d, alookup n (w_envs W) = Some (LoadOk d) -> good_def d.

(* cost of the loadable environments not yet entered *)
Definition Rem (s : st) : nat :=
  list_sum (map (fun nl : string * env_load => lcost (snd nl)) (filter (fun nl => unseen s (fst nl)) (w_envs W))).

Lemma Rem_le s s' : (forall n, alookup n (imps s) <> None -> alookup n (imps s') <> None) -> Rem s' <= Rem s.
Proof.
  intro H. apply sum_filter_le. intros [n l]. unfold unseen. cbn [fst]. specialize (H n).
  destruct (alookup n (imps s')); [discriminate|]. destruct (alookup n (imps s)); [|reflexivity].
  exfalso. apply H; [discriminate|reflexivity].
Qed.
Lemma Rem_st_le s s' : st_le s s' -> Rem s' <= Rem s.
Proof. intro H. apply Rem_le, (le_imps _ _ H). Qed.

Lemma Rem_enter n d s : alookup n (w_envs W) = Some (LoadOk d) -> alookup n (imps s) = None ->
  Rem (enter n s) + cost d <= Rem s.
Proof.
  intros Hl Hn. apply (sum_filter_drop (fun nl : string * env_load => lcost (snd nl)) _ _ _ (n, LoadOk d)).
  - apply alookup_in, Hl.
  - unfold unseen. cbn [fst]. rewrite Hn. reflexivity.
  - unfold unseen, enter. cbn [fst imps_set snd imps alookup]. rewrite String.eqb_refl. reflexivity.
  - intros [m l]. unfold unseen, enter. cbn [fst imps_set snd imps alookup].
    destruct (String.eqb m n); [discriminate|auto].
Qed.

Lemma Rem_total s : Rem s <= list_sum (map (fun nl : string * env_load => lcost (snd nl)) (w_envs W)).
Proof.
  unfold Rem. apply sum_filter_total.
Qed.

(* what is kept about stored values: depth + cost still to come + cost of the environments being evaluated <= T *)
Definition stored (T K : nat) (s : st) : Prop :=
  forall n i v, In (n, i) (imps s) -> is_value i = Some v -> cdepth v + Rem s + K <= T.

Lemma stored_le T K s s' :
  (forall ni, In ni (imps s') -> In ni (imps s)) -> Rem s' <= Rem s -> stored T K s -> stored T K s'.
Proof. intros Hi Hr H n i v Hin Hv. specialize (H n i v (Hi _ Hin) Hv). lia. Qed.

(* the context has bounded depth *)
Lemma context_depth root cur : cdepth (context_chain W root cur) <= ctx_depth W.
Proof.
  unfold context_chain, ctx_depth. etransitivity; [apply cdepth_unexport|]. rewrite x_depth_obj_eq. apply le_n_S.
  apply lmax_ub. intros [k v] Hin. cbn [snd].
  apply (fold_ainsert_from (fun x : xval => x)) in Hin. destruct Hin as [Hin|(kv & Hkv & ->)].
  - apply (fold_ainsert_from (fun x : xval => x)) in Hin. destruct Hin as [[]|(kv & Hkv & ->)].
    pose proof (lmax_In (fun kv : string * xval => x_depth (snd kv)) _ kv Hkv). cbv beta in *. lia.
  - destruct Hkv as [<-|[<-|[]]]; cbv beta; cbn [snd];
      match goal with |- x_depth ?o <= _ => change (x_depth o) with 2 end; lia.
Qed.

Lemma prov_depth_ok pn p v : alookup pn (w_provs W) = Some p -> pv_beh p = PConst v -> x_depth v <= prov_depth W.
Proof.
  intros Ha Hb. apply alookup_in in Ha.
  pose proof (lmax_In (fun np : string * provider => match pv_beh (snd np) with PConst v => x_depth v | _ => 0 end)
                _ _ Ha) as H. cbn [snd] in H. rewrite Hb in H. exact H.
Qed.

(* the import loop *)
Definition Linv (T K : nat) (s : st) (base : chain) (my : list (string * chain)) : Prop :=
  stored T K s /\ C0 W + Rem s + K <= T /\ cdepth base + Rem s + K <= T /\
  (forall k c, In (k, c) my -> cdepth c + Rem s + K <= T) /\ wfm s.

Lemma Linv_later T K s s' base my :
  (forall ni, In ni (imps s') -> In ni (imps s)) -> Rem s' <= Rem s -> wfm s' ->
  Linv T K s base my -> Linv T K s' base my.
Proof.
  intros Hi Hr Hw (H1 & H2 & H3 & H4 & _). split; [eapply stored_le; eassumption|]. split; [lia|]. split; [lia|].
  split; [|exact Hw]. intros k c Hin. specialize (H4 k c Hin). lia.
Qed.

(* registering a failed import: an entry without a value *)
Lemma Linv_failed T K n s base my :
  Linv T K s base my -> Linv T K (snd (imps_set n {| is_evaluating := false; is_value := None |} s)) base my.
Proof.
  intros (H1 & H2 & H3 & H4 & H5).
  assert (Hr : Rem (snd (imps_set n {| is_evaluating := false; is_value := None |} s)) <= Rem s)
    by (apply Rem_st_le, mono_imps_set).
  split; [|split; [lia|split; [lia|split; [|apply wfm_imps_set, H5]]]].
  - intros n' i' v' [[= <- <-]|Hin] Hv'; [discriminate Hv'|]. specialize (H1 n' i' v' Hin Hv'). lia.
  - intros k c Hin. specialize (H4 k c Hin). lia.
Qed.

Lemma env_go_depth T K (ev : string -> envdef -> M chain) :
  (forall n d s, alookup n (w_envs W) = Some (LoadOk d) -> alookup n (imps s) = None ->
     stored T K s -> C0 W + Rem s + K <= T -> wfm s ->
     cdepth (fst (ev n d s)) + Rem (snd (ev n d s)) + K <= T /\ stored T K (snd (ev n d s)) /\ wfm (snd (ev n d s))) ->
  (forall n d, mono (ev n d)) ->
  forall is base my s, Linv T K s base my ->
  Linv T K (snd (env_go W ev is base my s)) (fst (fst (env_go W ev is base my s))) (snd (fst (env_go W ev is base my s))).
Proof.
  intros Hev Hmono. induction is as [|[n merge] rest IH]; intros base my s HL; [exact HL|].
  rewrite env_go_cons, bind_eq. change (imps_get n s) with (alookup n (imps s), s). cbn [fst snd].
  destruct (alookup n (imps s)) as [i|] eqn:En.
  - destruct (is_evaluating i).
    + rewrite bind_eq. apply IH. eapply Linv_later; [| | |exact HL]; [auto|reflexivity|].
      eapply wfm_same_memo; [| |apply HL]; [reflexivity|auto].
    + destruct (is_value i) as [v|] eqn:Ev; [|apply IH; exact HL].
      apply IH. destruct HL as (H1 & H2 & H3 & H4 & H5).
      assert (Hval : cdepth v + Rem s + K <= T) by (apply (H1 n i v (alookup_In _ _ _ En) Ev)).
      split; [exact H1|]. split; [exact H2|]. split; [destruct merge; [rewrite cdepth_app; lia|exact H3]|].
      split; [|exact H5]. intros k c Hin. apply In_ainsert2 in Hin. destruct Hin as [[= -> ->]|Hin]; [exact Hval|eapply H4, Hin].
  - rewrite bind_eq. cbv beta. rewrite bind_eq.
    set (s1 := snd (emit (EvLoad n) (snd (call W s)))).
    assert (HL1 : Linv T K s1 base my).
    { eapply Linv_later; [| | |exact HL]; [auto|reflexivity|]. eapply wfm_same_memo; [| |apply HL]; [reflexivity|auto]. }
    assert (En1 : alookup n (imps s1) = None) by exact En.
    destruct (load_result W (fst (call W s)) n) as [| |d'] eqn:El.
    + rewrite bind_eq, bind_eq. apply IH. apply Linv_failed.
      eapply Linv_later; [| | |exact HL1]; [auto|reflexivity|].
      eapply wfm_same_memo; [| |apply HL1]; [reflexivity|auto].
    + rewrite bind_eq, bind_eq. apply IH. apply Linv_failed.
      eapply Linv_later; [| | |exact HL1]; [auto|reflexivity|].
      eapply wfm_same_memo; [| |apply HL1]; [reflexivity|auto].
    + rewrite bind_eq. cbv beta. rewrite bind_eq.
      destruct HL1 as (H1 & H2 & H3 & H4 & H5).
      destruct (Hev n d' s1 (load_result_ok W _ _ _ El) En1 H1 H2 H5) as (Hv & Hst & Hw).
      pose proof (Rem_st_le _ _ (Hmono n d' s1)) as Hr.
      set (r := ev n d' s1) in *. set (s2 := snd r) in *. set (v := fst r) in *.
      apply IH. set (s3 := snd (imps_set n {| is_evaluating := false; is_value := Some v |} s2)).
      assert (Hr3 : Rem s3 <= Rem s2) by (apply Rem_st_le, mono_imps_set).
      split.
      { intros n' i' v' [[= <- <-]|Hin] Hv'; [cbn [is_value] in Hv'; injection Hv' as <-; lia|].
        specialize (Hst n' i' v' Hin Hv'). lia. }
      split; [lia|]. split; [destruct merge; [rewrite cdepth_app; lia|lia]|].
      split; [|apply wfm_imps_set, Hw].
      intros k c Hin. apply In_ainsert2 in Hin. destruct Hin as [[= -> ->]|Hin]; [lia|]. specialize (H4 k c Hin). lia.
Qed.


Lemma C0_pos : 1 <= C0 W.
Proof. unfold C0, ctx_depth. lia. Qed.

Lemma eval_env_depth_gen : forall f root name d s T K,
  good_def d -> wfm s -> alookup name (imps s) = None ->
  stored T K s -> 1 + Rem s + K <= T ->
  (forall n i v, In (n, i) (imps s) -> is_value i = Some v -> cdepth v + Rem (enter name s) + cost d + K <= T) ->
  C0 W + Rem (enter name s) + cost d + K <= T ->
  cdepth (fst (eval_env W f root name d s)) + Rem (snd (eval_env W f root name d s)) + K <= T /\
  stored T K (snd (eval_env W f root name d s)) /\ wfm (snd (eval_env W f root name d s)).
Proof.
  induction f as [|f IH]; intros root name d s T K Hg Hw Hn Hst H1 HA HB.
  - rewrite eval_env_0. cbn [fail_oof]. split; [|split].
    + change (cdepth invalid_access + Rem s + K <= T). rewrite cdepth_invalid. lia.
    + exact Hst.
    + eapply wfm_same_memo; [| |exact Hw]; [reflexivity|auto].
  - assert (Hwf : wfm (snd (eval_env W (S f) root name d s))) by (apply eval_env_wfm, Hw).
    rewrite eval_env_unfold in Hwf |- *.
    set (K' := K + cost d).
    assert (HL0 : Linv T K' (enter name s) [] []).
    { split; [|split; [|split; [|split]]].
      - intros n i v [[= <- <-]|Hin] Hv; [discriminate Hv|]. specialize (HA n i v Hin Hv). unfold K'. lia.
      - unfold K'. lia.
      - cbn [cdepth]. unfold K'. pose proof C0_pos. lia.
      - intros k c [].
      - apply wfm_imps_set, Hw. }
    assert (HL2 := env_go_depth T K' (eval_env W f (env_root' root name))
            (fun n d' s'' Hl Hn'' Hst'' HC'' Hw'' =>
               IH (env_root' root name) n d' s'' T K' (world_good n d' Hl) Hw'' Hn'' Hst''
                  ltac:(pose proof C0_pos; lia)
                  (fun n0 i v Hin Hv => ltac:(pose proof (Hst'' n0 i v Hin Hv); pose proof (Rem_enter n d' s'' Hl Hn''); lia))
                  ltac:(pose proof (Rem_enter n d' s'' Hl Hn''); lia))
            (fun n d' => eval_env_mono W f (env_root' root name) n d')
            (ed_imports d) [] [] (enter name s) HL0).
    fold (env_imports_run W f root name d s) in HL2. fold (env_base W f root name d s) in HL2.
    fold (env_my W f root name d s) in HL2.
    destruct HL2 as (S2 & C2 & B2 & M2 & W2).
    set (s2 := snd (env_imports_run W f root name d s)) in *.
    set (s3 := env_s3 W f root name d s) in *.
    assert (Hr3 : Rem s3 <= Rem s2).
    { unfold s3, env_s3. fold s2. apply Rem_le. intros n0 H0. cbn [add_err snd imps imps_set alookup].
      destruct (String.eqb n0 name); [discriminate|exact H0]. }
    assert (Hst3 : forall n i v, In (n, i) (imps s3) -> is_value i = Some v -> cdepth v + Rem s3 + K' <= T).
    { intros n i v Hin Hv. unfold s3, env_s3 in Hin. fold s2 in Hin. cbn [add_err snd imps imps_set] in Hin.
      destruct Hin as [[= <- <-]|Hin]; [discriminate Hv|]. specialize (S2 n i v Hin Hv). lia. }
    set (E := env_E W f root name d s) in *. set (base := env_base W f root name d s) in *.
    set (my := env_my W f root name d s) in *.
    set (Dx := T - Rem s3 - K' + 1).
    assert (Hu3 : untouched name s3) by (apply env_s3_untouched, Hw, Hn).
    assert (HD : D5 W E Dx f).
    { apply D5_all.
      - unfold Dx. lia.
      - change (ec_base E) with base. unfold Dx. lia.
      - change (ec_imports E) with (imports_value my). unfold imports_value. rewrite cdepth_cons, ldepth_obj. cbn [cdepth].
        assert (pdepth my <= T - Rem s3 - K'); [|unfold Dx; lia].
        apply pdepth_ub. intros k c Hin. specialize (M2 k c Hin). pose proof C0_pos. lia.
      - change (ec_context E) with (context_chain W (env_root' root name) name).
        pose proof (context_depth (env_root' root name) name). unfold C0 in C2. unfold Dx. lia.
      - intros pn p v Ha Hb. pose proof (prov_depth_ok pn p v Ha Hb). unfold C0 in C2. unfold Dx. lia.
      - exact Hg. }
    destruct HD as (He & _).
    assert (Hat : at_id E (name, []) (root_of E)) by (split; reflexivity).
    assert (Hb : cdepth base <= Dx) by (unfold Dx; lia).
    assert (HDI : DInv E Dx s3).
    { intros id x v [Hi _] Hd. exfalso. unfold done in Hd. destruct id as [nm q]. cbn [fst] in Hi.
      change (ec_name E) with name in Hi. subst nm. rewrite (Hu3 q) in Hd. discriminate Hd. }
    destruct (He (root_of E) false base (name, []) 0 Hat Hb s3 HDI (Nat.le_0_l _)) as (Hv & _ & _).
    set (r := eval_expr W f E (root_of E) false base (name, []) s3) in *.
    assert (Hrr : Rem (snd r) <= Rem s3) by (apply Rem_st_le, eval_expr_mono).
    split; [|split; [|exact Hwf]].
    + unfold le in Hv. assert (HDN : DN E (snd r) <= length (all_paths (root_of E))) by apply filter_len.
      assert (Hc : length (all_paths (root_of E)) + 1 = cost d) by reflexivity.
      unfold Dx, K' in *. lia.
    + intros n i v Hin Hvv. destruct (imps_unchanged_P5 W f) as (Hi & _).
      unfold r in Hin. rewrite (Hi E (root_of E) false base (name, []) I I s3) in Hin.
      specialize (Hst3 n i v Hin Hvv). unfold K' in *. lia.
Qed.

End ENVDEPTH.

(* THEOREM: the depth of the value of an environment never exceeds [depth_bound W d] — for every fuel *)
Theorem eval_env_depth W f root name d :
  world_no_json W d = true ->
  cdepth (fst (eval_env W f root name d st0)) <= depth_bound W d.
Proof.
  intro Hj. unfold world_no_json in Hj. apply andb_true_iff in Hj. destruct Hj as [Hd Hw].
  assert (Hwg : forall n d', alookup n (w_envs W) = Some (LoadOk d') -> good_def d').
  { intros n d' Hl. apply alookup_in in Hl. apply good_def_of. rewrite forallb_forall in Hw. apply (Hw _ Hl). }
  destruct (eval_env_depth_gen W Hwg f root name d st0 (depth_bound W d) 0 (good_def_of d Hd) wfm_st0 eq_refl) as (H & _).
  - intros n i v [].
  - unfold depth_bound. pose proof (Rem_total W st0). pose proof (C0_pos W). unfold cost. lia.
  - intros n i v [].
  - unfold depth_bound. pose proof (Rem_total W (enter name st0)). lia.
  - lia.
Qed.
