(* Proofs/EvalTotalInv.v — generic "invariant preserved by bind / ret / err / emit / call / memo_set" toolkit:
   any reflexive-transitive relation on states that the primitive state operations respect is respected by
   the five mutually recursive evaluator functions, at every fuel.  [okid] restricts the expression identities
   whose memo entries may be written (closed under extension by a step). *)
From Verif Require Import Base.Bytes Model.Chain Model.GoText Model.Envelope Model.Eval Proofs.EvalTotalBase.
From Coq Require Import Lia.

Section INV.
Variable W : world.
Variable T : st -> st -> Prop.
Variable okid : eid -> Prop.
Hypothesis T_refl : forall s, T s s.
Hypothesis T_trans : forall a b c, T a b -> T b c -> T a c.
Hypothesis T_add_err : forall n s, T s (snd (add_err n s)).
Hypothesis T_emit : forall e s, T s (snd (emit e s)).
Hypothesis T_oof : forall s, T s (snd (out_of_fuel s)).
Hypothesis T_call : forall s, T s (snd (call W s)).
Hypothesis T_memo_set : forall id v, okid id -> forall s, T s (snd (memo_set id v s)).
Hypothesis okid_ext : forall id stp, okid id -> okid (fst id, snd id ++ [stp]).

Definition pres {A} (m : M A) : Prop := forall s, T s (snd (m s)).

Lemma pres_ret {A} (a : A) : pres (ret a).
Proof. intro s. apply T_refl. Qed.
Lemma pres_bind {A B} (m : M A) (k : A -> M B) : pres m -> (forall a, pres (k a)) -> pres (bind m k).
Proof.
  intros Hm Hk s. unfold bind. specialize (Hm s). destruct (m s) as [a s1]. cbn [snd] in Hm.
  eapply T_trans; [exact Hm|apply Hk].
Qed.
Lemma pres_add_err n : pres (add_err n). Proof. intro s. apply T_add_err. Qed.
Lemma pres_err : pres err. Proof. apply pres_add_err. Qed.
Lemma pres_emit e : pres (emit e). Proof. intro s. apply T_emit. Qed.
Lemma pres_oof : pres out_of_fuel. Proof. intro s. apply T_oof. Qed.
Lemma pres_call : pres (call W). Proof. intro s. apply T_call. Qed.
Lemma pres_get_memo id : pres (get_memo id). Proof. intro s. apply T_refl. Qed.
Lemma pres_imps_get n : pres (imps_get n). Proof. intro s. apply T_refl. Qed.
Lemma pres_memo_set id v : okid id -> pres (memo_set id v). Proof. intros H s. apply T_memo_set, H. Qed.
Lemma pres_fail_oof {A} (a : A) : pres (fail_oof a).
Proof. apply pres_bind; [apply pres_oof|intro; apply pres_ret]. Qed.

Ltac ok_tac := first [ assumption | apply okid_ext; assumption ].
Ltac p_step :=
  first
  [ assumption
  | apply pres_ret | apply pres_err | apply pres_add_err | apply pres_emit | apply pres_oof | apply pres_call
  | apply pres_get_memo | apply pres_imps_get | apply pres_fail_oof
  | apply pres_memo_set; ok_tac
  | apply pres_bind; [ | intro ]
  | match goal with H : forall _, _ |- pres _ => apply H; ok_tac end
  | match goal with H : forall _, _ |- pres _ => apply H end
  | match goal with |- pres (match ?x with _ => _ end) => destruct x end
  | progress cbv beta zeta ].
Ltac p_tac := repeat p_step.

Lemma interp_go_pres (ea : path -> M chain) :
  (forall p, pres (ea p)) -> forall ps acc unk sec, pres (interp_go ea ps acc unk sec).
Proof.
  intros H. induction ps as [|[text [p|]] r IH]; intros acc unk sec.
  - rewrite interp_go_nil. p_tac.
  - rewrite interp_go_ref. apply pres_bind; [apply H|]. intro pv.
    destruct (to_string (ts_need pv) pv) as [[s u] sc]. apply IH.
  - rewrite interp_go_text. apply IH.
Qed.

Lemma arr_go_pres (ee : expr -> bool -> chain -> eid -> M chain) id :
  (forall x b c i, okid i -> pres (ee x b c i)) -> okid id ->
  forall es i acc, pres (arr_go ee id es i acc).
Proof.
  intros H Hid. induction es as [|e r IH]; intros i acc.
  - rewrite arr_go_nil. p_tac.
  - rewrite arr_go_cons. apply pres_bind; [apply H; ok_tac|]. intro v. apply IH.
Qed.

Lemma obj_go_pres (ee : expr -> bool -> chain -> eid -> M chain) xbase id :
  (forall x b c i, okid i -> pres (ee x b c i)) -> okid id ->
  forall ds acc, pres (obj_go ee xbase id ds acc).
Proof.
  intros H Hid. induction ds as [|[[i k] e] r IH]; intros acc.
  - rewrite obj_go_nil. p_tac.
  - rewrite obj_go_cons. apply pres_bind; [apply H; ok_tac|]. intro v. apply IH.
Qed.

Lemma expr_body_pres er x xsec xbase id :
  (forall x b i, okid i -> pres (er x b i)) -> okid id -> pres (expr_body er x xsec xbase id).
Proof. intros H Hid. unfold expr_body. p_tac. Qed.

Lemma typed_body_pres ee x a id :
  (forall x b c i, okid i -> pres (ee x b c i)) -> okid id -> pres (typed_body ee x a id).
Proof. intros H Hid. unfold typed_body. p_tac. Qed.

Lemma access_body_pres wk E p :
  (forall x b c i a, okid i -> pres (wk x b c i a)) -> okid (ec_name E, []) -> pres (access_body wk E p).
Proof. intros H Hid. unfold access_body. p_tac. Qed.

Lemma walk_body_pres ee wk rx rsec rbase rid accs :
  (forall x b c i, okid i -> pres (ee x b c i)) ->
  (forall x b c i a, okid i -> pres (wk x b c i a)) -> okid rid ->
  pres (walk_body ee wk rx rsec rbase rid accs).
Proof. intros H1 H2 Hid. unfold walk_body. p_tac. Qed.

Lemma repr_body_pres ee et ea E x xbase id :
  (forall x b c i, okid i -> pres (ee x b c i)) ->
  (forall x a i, okid i -> pres (et x a i)) ->
  (forall p, pres (ea p)) -> okid id ->
  pres (repr_body W ee et ea E x xbase id).
Proof.
  intros H1 H2 H3 Hid. destruct x; unfold repr_body.
  all: try solve [p_tac].
  - apply interp_go_pres; assumption.
  - apply arr_go_pres; assumption.
  - destruct (declared l 0%nat []) as [decl dups]. apply pres_bind; [p_tac|]. intro. apply obj_go_pres; assumption.
Qed.

Definition P5 (f : nat) : Prop :=
  (forall E x xsec xbase id, okid (ec_name E, []) -> okid id -> pres (eval_expr W f E x xsec xbase id)) /\
  (forall E x xbase id, okid (ec_name E, []) -> okid id -> pres (eval_repr W f E x xbase id)) /\
  (forall E x a id, okid (ec_name E, []) -> okid id -> pres (eval_typed W f E x a id)) /\
  (forall E p, okid (ec_name E, []) -> pres (eval_access W f E p)) /\
  (forall E rx rsec rbase rid accs, okid (ec_name E, []) -> okid rid -> pres (walk W f E rx rsec rbase rid accs)).

Lemma P5_all : forall f, P5 f.
Proof.
  induction f as [|f IH].
  - unfold P5; split5; intros; apply pres_fail_oof.
  - destruct IH as (He & Hr & Ht & Ha & Hw). unfold P5; split5; intros.
    + rewrite eval_expr_S. apply expr_body_pres; [|assumption]. intros; apply Hr; assumption.
    + rewrite eval_repr_S. apply repr_body_pres; intros; auto.
    + rewrite eval_typed_S. apply typed_body_pres; [|assumption]. intros; apply He; assumption.
    + rewrite eval_access_S. apply access_body_pres; [|assumption]. intros; apply Hw; assumption.
    + rewrite walk_S. apply walk_body_pres; intros; auto.
Qed.

End INV.

(* ---------------- small facts used everywhere ---------------- *)
Lemma bind_eq {A B} (m : M A) (k : A -> M B) s : bind m k s = k (fst (m s)) (snd (m s)).
Proof. unfold bind. destruct (m s). reflexivity. Qed.

Lemma idstep_eqb_eq a b : idstep_eqb a b = true <-> a = b.
Proof.
  destruct a, b; cbn [idstep_eqb]; try (split; [discriminate|congruence]).
  - rewrite String.eqb_eq. split; congruence.
  - rewrite Nat.eqb_eq. split; congruence.
Qed.

Lemma idpath_eqb_eq : forall x y, idpath_eqb x y = true <-> x = y.
Proof.
  induction x as [|i x IH]; destruct y as [|j y]; cbn [idpath_eqb]; try (split; [discriminate|congruence]).
  - tauto.
  - rewrite andb_true_iff, idstep_eqb_eq, IH. split; [intros [-> ->]; reflexivity|intros [= -> ->]; auto].
Qed.

Lemma eid_eqb_eq a b : eid_eqb a b = true <-> a = b.
Proof.
  destruct a as [n p], b as [n' p']. unfold eid_eqb. cbn [fst snd].
  rewrite andb_true_iff, String.eqb_eq, idpath_eqb_eq. split; [intros [-> ->]; reflexivity|intros [= -> ->]; auto].
Qed.

Lemma eid_eqb_refl a : eid_eqb a a = true.
Proof. apply eid_eqb_eq. reflexivity. Qed.

Lemma eid_eqb_fst a b : fst a <> fst b -> eid_eqb a b = false.
Proof.
  intro H. destruct (eid_eqb a b) eqn:E; [|reflexivity]. apply eid_eqb_eq in E. subst. contradiction.
Qed.

Lemma memo_get_cons id k v m : memo_get id ((k, v) :: m) = if eid_eqb id k then Some v else memo_get id m.
Proof. reflexivity. Qed.
