(* Proofs/ClientCross.v — addressing ACROSS operations, and the names a request carries in its body.
   (1) The request target determines the ROUTE (which segments are literal route words, which are substituted names)
       and the names, for any two operations of the table - provided no name is itself a route word; with such a
       name the statement is false (GetEnvironment at version "tags" with decryption = GetEnvironmentRevisionTag
       "decrypt").
   (2) The body fields of an operation determine the parameters the body carries. *)
From Verif Require Import Base.Bytes Model.Client Proofs.ClientPath Proofs.ClientAddr Proofs.ClientRetry.
From Coq Require Import Lia.

(* ---------------------------------------------------------------------------------------------- *)
(* fill / tfill / lits / holes *)
Lemma tfill_text : forall l a, map tseg_text (tfill l a) = fill l a.
Proof.
  induction l as [|[s|v] r IH]; intros a; cbn [tfill fill map]; [reflexivity| |].
  - cbn [tseg_text]. rewrite IH. reflexivity.
  - destruct a as [|x a]; cbn [map tseg_text]; rewrite IH; reflexivity.
Qed.

Lemma fill_app_lits : forall l x args, fill (l ++ map SLit x) args = fill l args ++ x.
Proof.
  induction l as [|[s|v] r IH]; intros x args; cbn [app fill].
  - induction x as [|y x IHx]; cbn [map fill]; [reflexivity|]. rewrite IHx. reflexivity.
  - rewrite IH. reflexivity.
  - destruct args as [|a args]; rewrite IH; reflexivity.
Qed.

Lemma lits_app : forall l l', lits (l ++ l') = lits l ++ lits l'.
Proof. induction l as [|[s|v] r IH]; intros l'; cbn [app lits]; [reflexivity| |]; rewrite IH; reflexivity. Qed.

Lemma lits_map_SLit : forall x, lits (map SLit x) = x.
Proof. induction x as [|y x IH]; cbn [map lits]; [reflexivity|]. rewrite IH. reflexivity. Qed.

Lemma holes_app : forall l l', holes (l ++ l') = (holes l + holes l')%nat.
Proof. induction l as [|[s|v] r IH]; intros l'; cbn [app holes]; [reflexivity| |]; rewrite IH; reflexivity. Qed.

Lemma holes_map_SLit : forall x, holes (map SLit x) = 0%nat.
Proof. induction x as [|y x IH]; cbn [map holes]; [reflexivity|exact IH]. Qed.

(* THE combinatorial step: two instantiated templates with the same text have the same tagged form, when no
   substituted value is a word that occurs literally in either template *)
Lemma tfill_agree : forall (W : string -> bool) l l' a a',
  (forall s, In s (lits l) -> W s = true) -> (forall s, In s (lits l') -> W s = true) ->
  (forall x, In x a -> W x = false) -> (forall x, In x a' -> W x = false) ->
  holes l = length a -> holes l' = length a' ->
  fill l a = fill l' a' -> tfill l a = tfill l' a'.
Proof.
  intros W. induction l as [|[s|v] r IH]; intros l' a a' HL HL' HA HA' HN HN' E.
  - destruct l' as [|[s'|v'] r']; cbn [fill] in E; [reflexivity|discriminate E|].
    destruct a'; discriminate E.
  - destruct l' as [|[s'|v'] r']; cbn [fill] in E; [discriminate E| |].
    + injection E as E1 E2. subst s'. cbn [tfill]. f_equal.
      apply IH; try assumption.
      * intros x Hx. apply HL. cbn [lits]. right. exact Hx.
      * intros x Hx. apply HL'. cbn [lits]. right. exact Hx.
    + cbn [holes] in HN'. destruct a' as [|x a']; [discriminate HN'|]. injection E as E1 E2. exfalso.
      assert (W s = true) by (apply HL; cbn [lits]; left; reflexivity).
      assert (W x = false) by (apply HA'; left; reflexivity). congruence.
  - cbn [holes] in HN. destruct a as [|x a]; [discriminate HN|]. injection HN as HN.
    destruct l' as [|[s'|v'] r']; cbn [fill] in E; [discriminate E| |].
    + injection E as E1 E2. exfalso.
      assert (W s' = true) by (apply HL'; cbn [lits]; left; reflexivity).
      assert (W x = false) by (apply HA; left; reflexivity). congruence.
    + cbn [holes] in HN'. destruct a' as [|x' a']; [discriminate HN'|]. injection HN' as HN'.
      injection E as E1 E2. subst x'. cbn [tfill]. f_equal.
      apply IH; try assumption.
      * intros y Hy. apply HA. right. exact Hy.
      * intros y Hy. apply HA'. right. exact Hy.
Qed.

(* ---------------------------------------------------------------------------------------------- *)
(* the pattern view of an operation's segments *)
Lemma base_segs_pattern : forall f vals, base_segs f vals = fill (base_pattern f vals) (base_args f vals).
Proof.
  intros f vals. unfold base_segs, base_pattern, base_args. destruct (of_resolve f); [|reflexivity].
  destruct vals as [|o [|p [|e [|v [|x r]]]]]; try reflexivity. destruct (String.eqb v ""); reflexivity.
Qed.

Lemma op_segs_pattern : forall f vals flag,
  op_segs f vals flag = fill (op_pattern f vals flag) (base_args f vals).
Proof.
  intros f vals flag. unfold op_segs, op_pattern. rewrite base_segs_pattern.
  assert (E : map SLit (suffix_segs (of_suffix f)) ++ (if flag then map SLit (suffix_segs (of_flag_suffix f)) else [])
              = map SLit (suffix_segs (of_suffix f) ++ (if flag then suffix_segs (of_flag_suffix f) else []))).
  { rewrite map_app. destruct flag; reflexivity. }
  rewrite E, fill_app_lits. reflexivity.
Qed.

Lemma base_args_in : forall f vals x, In x (base_args f vals) -> In x vals.
Proof.
  intros f vals x. unfold base_args. destruct (of_resolve f); [|auto].
  destruct vals as [|o [|p [|e [|v [|y r]]]]]; try (intros []).
  destruct (String.eqb v ""); [|auto]. cbn [In]. intuition.
Qed.

Lemma in_route_words : forall s, In s route_words -> is_route_word s = true.
Proof.
  intros s H. unfold is_route_word. apply existsb_exists. exists s. split; [exact H|apply String.eqb_refl].
Qed.

Lemma op_pattern_lits : forall f vals flag, In f client_ops ->
  forall s, In s (lits (op_pattern f vals flag)) -> is_route_word s = true.
Proof.
  intros f vals flag Hin s Hs. apply in_route_words. unfold op_pattern in Hs.
  rewrite !lits_app, lits_map_SLit in Hs. unfold route_words.
  assert (Hop : In s (op_words f) -> In s (lits (tpl_segs resolve_template_noversion)
            ++ lits (tpl_segs resolve_template_version) ++ flat_map op_words client_ops)).
  { intro H. apply in_or_app. right. apply in_or_app. right. apply in_flat_map. exists f. auto. }
  apply in_app_or in Hs. destruct Hs as [Hs|Hs].
  - unfold base_pattern in Hs. destruct (of_resolve f).
    + destruct vals as [|o [|p [|e [|v [|y r]]]]]; try (destruct Hs).
      destruct (String.eqb v ""); [apply in_or_app; left; exact Hs|].
      apply in_or_app. right. apply in_or_app. left. exact Hs.
    + apply Hop. unfold op_words. apply in_or_app. left. exact Hs.
  - apply Hop. unfold op_words. apply in_or_app. right. apply in_app_or in Hs. destruct Hs as [Hs|Hs].
    + apply in_or_app. left. exact Hs.
    + apply in_or_app. right. destruct flag; [rewrite lits_map_SLit in Hs; exact Hs|destruct Hs].
Qed.

Section Cross.
Hypothesis HT : table_ok = true.
Let HRes : resolve_ok = true := proj1 (proj2 (table_ok_parts HT)).

Lemma shape_of : forall f, In f client_ops -> op_shape_ok f = true.
Proof. intros f Hin. exact (in_table_ok _ f (proj1 (table_ok_parts HT)) Hin). Qed.

Lemma op_pattern_holes : forall f vals flag, In f client_ops -> length vals = length (of_holes f) ->
  vals_ok f vals = true -> holes (op_pattern f vals flag) = length (base_args f vals).
Proof.
  intros f vals flag Hin HL HV. pose proof (shape_of f Hin) as HS.
  destruct (op_shape_parts f HS) as (_ & _ & H3). destruct (resolve_ok_parts HRes) as (R1 & R2 & _).
  unfold op_pattern. rewrite !holes_app, holes_map_SLit.
  assert (E : holes (if flag then map SLit (suffix_segs (of_flag_suffix f)) else []) = 0%nat)
    by (destruct flag; [apply holes_map_SLit|reflexivity]).
  rewrite E, !Nat.add_0_r. unfold base_pattern, base_args, vals_ok in *. destruct (of_resolve f).
  - destruct vals as [|o [|p [|e [|v [|y r]]]]]; try discriminate HV.
    destruct (String.eqb v "").
    + destruct (tpl_ok_spec _ _ R1) as (_ & _ & N & _). exact N.
    + destruct (tpl_ok_spec _ _ R2) as (_ & _ & N & _). exact N.
  - rewrite <- HL in H3. destruct (tpl_ok_spec _ _ H3) as (_ & _ & N & _). exact N.
Qed.

Lemma op_path_no_qm : forall f a fl, In f client_ops -> names_ok f a = true ->
  mem_char c_qm (op_path f (effective_args f a) fl) = false.
Proof.
  intros f a fl Hin HN. pose proof (shape_of f Hin) as HS. unfold names_ok in HN.
  rewrite (op_path_render f _ _ HRes HS).
  destruct (op_segs_props f HRes HS _ fl (map_length _ _) HN) as [V _].
  destruct (pchar_no _ (render_pchar _ V)) as (_ & Q & _). exact Q.
Qed.

(* equal request targets of ANY two operations: same route (tagged segments) and same encoded query, unless a
   name is a route word *)
Lemma across_ops_partial : forall f f', In f client_ops -> In f' client_ops ->
  forall a a' n n', names_ok f a = true -> names_ok f' a' = true ->
  reserved_names f a = false -> reserved_names f' a' = false ->
  request_target f a n = request_target f' a' n' ->
  op_route f a n = op_route f' a' n'
  /\ query_string (of_query f) (query_values f a n) = query_string (of_query f') (query_values f' a' n').
Proof.
  intros f f' Hin Hin' a a' n n' HN HN' HR HR' E.
  pose proof (shape_of f Hin) as HS. pose proof (shape_of f' Hin') as HS'.
  destruct (target_identity_op f HRes HS a n HN) as [T _].
  destruct (target_identity_op f' HRes HS' a' n' HN') as [T' _].
  rewrite T, T' in E.
  assert (HQ : forall q, qsuffix_ok q = true -> q = "" \/ exists t, q = String c_qm t).
  { intros [|c q] H; [auto|]. simpl in H. apply andb_true_iff in H as [H _]. apply Ascii.eqb_eq in H. subst. eauto. }
  destruct (append_sep_inj c_qm _ _ _ _ (op_path_no_qm f a _ Hin HN) (op_path_no_qm f' a' _ Hin' HN')
              (HQ _ (query_string_ok _ _)) (HQ _ (query_string_ok _ _)) E) as [EP EQ].
  split; [|exact EQ]. clear E EQ T T'.
  rewrite (op_path_render f _ _ HRes HS), (op_path_render f' _ _ HRes HS') in EP.
  unfold names_ok in HN, HN'.
  set (vals := hole_values f (effective_args f a)) in *.
  set (vals' := hole_values f' (effective_args f' a')) in *.
  assert (HL : length vals = length (of_holes f)) by (apply map_length).
  assert (HL' : length vals' = length (of_holes f')) by (apply map_length).
  destruct (op_segs_props f HRes HS vals (flag_of f n) HL HN) as [V _].
  destruct (op_segs_props f' HRes HS' vals' (flag_of f' n') HL' HN') as [V' _].
  apply render_inj in EP; try (apply forallb_valid_noslash; assumption).
  rewrite !op_segs_pattern in EP. unfold op_route. fold vals vals'.
  apply (tfill_agree is_route_word); try assumption.
  - apply op_pattern_lits; exact Hin.
  - apply op_pattern_lits; exact Hin'.
  - intros x Hx. apply base_args_in in Hx. unfold reserved_names in HR. fold vals in HR.
    destruct (is_route_word x) eqn:Ex; [|reflexivity].
    assert (existsb is_route_word vals = true) by (apply existsb_exists; exists x; auto). congruence.
  - intros x Hx. apply base_args_in in Hx. unfold reserved_names in HR'. fold vals' in HR'.
    destruct (is_route_word x) eqn:Ex; [|reflexivity].
    assert (existsb is_route_word vals' = true) by (apply existsb_exists; exists x; auto). congruence.
  - apply op_pattern_holes; assumption.
  - apply op_pattern_holes; assumption.
Qed.
End Cross.

(* the unqualified statement: for ALL valid names, two operations with the same verb and the same request target
   have the same route *)
Definition across_ops_full_statement : Prop :=
  forall f f', In f client_ops -> In f' client_ops -> of_verb f = of_verb f' ->
  forall a a' n n', names_ok f a = true -> names_ok f' a' = true ->
  request_target f a n = request_target f' a' n' -> op_route f a n = op_route f' a' n'.

Lemma op_named_in : forall name, find_op name client_ops <> None -> In (op_named name) client_ops.
Proof.
  intros name H. unfold op_named. destruct (find_op name client_ops) as [f|] eqn:E; [|congruence].
  exact (find_op_in name _ _ E).
Qed.

Lemma across_ops_refuted : ~ across_ops_full_statement.
Proof.
  intro H.
  assert (H1 : In (op_named "GetEnvironment") client_ops) by (apply op_named_in; vm_compute; discriminate).
  assert (H2 : In (op_named "GetEnvironmentRevisionTag") client_ops) by (apply op_named_in; vm_compute; discriminate).
  specialize (H _ _ H1 H2 eq_refl ["o"; "p"; "e"; "tags"] ["o"; "p"; "e"; "decrypt"] [Some 1%Z] []
                eq_refl eq_refl eq_refl).
  vm_compute in H. discriminate H.
Qed.

(* ---------------------------------------------------------------------------------------------- *)
(* the body determines the parameters it carries *)
Lemma nth_s_eqb_empty : forall i a a', String.eqb (nth_s i a) "" = true -> String.eqb (nth_s i a') "" = true ->
  nth_s i a = nth_s i a'.
Proof. intros i a a' H H'. apply String.eqb_eq in H, H'. congruence. Qed.

Ltac name_case nm E := apply String.eqb_eq in E; subst nm; cbn [String.eqb Ascii.eqb Bool.eqb orb].

Lemma body_fields_inj : forall f a a' n n', body_fields f a n = body_fields f a' n' ->
  (forall i, In i (body_params f) -> nth_s i a = nth_s i a') /\ body_num f n = body_num f n'.
Proof.
  intros f a a' n n'. unfold body_fields, body_params, body_num. generalize (of_name f). intro nm.
  destruct (String.eqb nm "CreateEnvironment") eqn:N1.
  { name_case nm N1. intro E. injection E as E. split; [|reflexivity]. intros i [<-|[]]. exact E. }
  destruct (String.eqb nm "CreateEnvironmentWithProject") eqn:N2.
  { name_case nm N2. intro E. injection E as E1 E2. split; [|reflexivity]. intros i [<-|[<-|[]]]; assumption. }
  destruct (String.eqb nm "CloneEnvironment") eqn:N3.
  { name_case nm N3. intro E. injection E as E1 E2.
    destruct (bool_of (nth_n 0 n)), (bool_of (nth_n 0 n'));
      destruct (String.eqb (nth_s 3 a) "") eqn:P, (String.eqb (nth_s 3 a') "") eqn:P';
      cbn [app] in E2; try discriminate E2;
      try (injection E2 as E2); try discriminate E2;
      (split; [|reflexivity]); intros i [<-|[<-|[]]];
      first [assumption | apply nth_s_eqb_empty; assumption]. }
  destruct (String.eqb nm "CreateEnvironmentTag") eqn:N4.
  { name_case nm N4. intro E. injection E as E1 E2. split; [|reflexivity]. intros i [<-|[<-|[]]]; assumption. }
  destruct (String.eqb nm "UpdateEnvironmentTag") eqn:N5.
  { name_case nm N5. intro E. injection E as E1 E2 E3. split; [|reflexivity]. intros i [<-|[<-|[<-|[]]]]; assumption. }
  destruct (String.eqb nm "RetractEnvironmentRevision") eqn:N6.
  { name_case nm N6. intro E. unfold opt_leaf in E.
    destruct (String.eqb (nth_s 4 a) "") eqn:P, (String.eqb (nth_s 4 a') "") eqn:P';
      destruct (nth_n 0 n) as [z|], (nth_n 0 n') as [z'|]; cbn [app] in E; try discriminate E;
      try (injection E as E); try discriminate E;
      try (match goal with H : [_] = [_] |- _ => injection H as H end);
      (split; [intros i [<-|[]]; first [assumption | apply nth_s_eqb_empty; assumption] | congruence]). }
  destruct (String.eqb nm "CreateEnvironmentRevisionTag") eqn:N7.
  { name_case nm N7. intro E. unfold opt_leaf in E. injection E as E1 E2.
    split; [intros i [<-|[]]; exact E1|].
    destruct (nth_n 0 n) as [z|], (nth_n 0 n') as [z'|]; try discriminate E2; [|reflexivity].
    injection E2 as E2. congruence. }
  destruct (String.eqb nm "UpdateEnvironmentRevisionTag") eqn:N8.
  { name_case nm N8. intro E. unfold opt_leaf in E. split; [intros i []|].
    destruct (nth_n 0 n) as [z|], (nth_n 0 n') as [z'|]; try discriminate E; [|reflexivity].
    injection E as E. congruence. }
  cbn [orb]. intros _. split; [intros i []|reflexivity].
Qed.

Section Req.
Hypothesis HT : table_ok = true.
Variable f : op_fact.
Hypothesis Hin : In f client_ops.

(* the whole request of an operation with valid names: verb, target (= instantiated template + query, unchanged by
   cleanPath and the URL round trip), credentials, tag header and body *)
Lemma request_identity : forall token a n, names_ok f a = true ->
  build_request f token a n
  = Some (mk_req (of_verb f)
                 (op_path f (effective_args f a) (flag_of f n) +++ query_string (of_query f) (query_values f a n))
                 (auth_value token)
                 (if header_is etag_header "ETag" then tag_value f a else "")
                 (if header_is etag_header "If-Match" then tag_value f a else "")
                 (body_fields f a n)).
Proof.
  intros token a n HN. destruct (t_target_identity HT f Hin a n HN) as [T W].
  assert (E : String.eqb (request_target f a n) (raw_target f a n) = true) by (apply String.eqb_eq; exact T).
  unfold build_request. rewrite E. cbn [negb]. rewrite andb_false_r, W, T. reflexivity.
Qed.

(* (target, body) of one operation determine every parameter the path and the body mention *)
Lemma request_injective : forall a a' n n', names_ok f a = true -> names_ok f a' = true ->
  request_target f a n = request_target f a' n' -> body_fields f a n = body_fields f a' n' ->
  (forall i, In (HParam i) (of_holes f) -> nth i (effective_args f a) "" = nth i (effective_args f a') "")
  /\ (of_flag_suffix f <> "" -> flag_of f n = flag_of f n')
  /\ query_string (of_query f) (query_values f a n) = query_string (of_query f) (query_values f a' n')
  /\ (forall i, In i (body_params f) -> nth i a "" = nth i a' "")
  /\ body_num f n = body_num f n'.
Proof.
  intros a a' n n' H1 H2 ET EB. destruct (t_path_injective HT f Hin a a' n n' H1 H2 ET) as (A & B & C0).
  destruct (body_fields_inj f a a' n n' EB) as [D E]. auto 6.
Qed.
End Req.
