(* Proofs/CheckApproxRel.v — C06, central clause: the asymmetric relation "check approximates open" on
   chains and on exported values, and the value operations of eval/value.go that preserve it. *)
From Verif Require Import Base.Bytes Base.Wire Model.Chain Model.GoText Model.Envelope Model.Eval Corr.EvalWire.
From Verif Require Corr.C06.
From Verif Require Import Proofs.NonInterferenceRel Proofs.NonInterferenceOps Proofs.NonInterferenceBuiltins.
From Coq Require Import Lia ZifyN ZifyNat ZifyBool.

(* ------------------------------------------------------------------------------------------------ *)
(* the relation on chains                                                                           *)
(* ------------------------------------------------------------------------------------------------ *)
(* An unknown SCALAR layer on the check side (what check mode puts where a provider output, an undisclosed
   ciphertext or anything derived from them would be) faces ANY chain on the open side, and so does everything
   below it in the check chain.  Every other check layer faces an open layer of the same constructor, the same
   flags, the same payload / keys, with related children.  Schemas are NOT compared: in check mode an unknown
   carries a declared schema, in open mode values carry the schema of what was actually returned; no known
   value depends on either. *)
Inductive chain_ap (R : layer -> layer -> Prop) : chain -> chain -> Prop :=
| ap_nil : chain_ap R [] []
| ap_wild s c x r o : chain_ap R (LScalar s true c x :: r) o
| ap_cons l l' r r' : R l l' -> chain_ap R r r' -> chain_ap R (l :: r) (l' :: r').

Inductive ap_l : layer -> layer -> Prop :=
| ap_l_scalar s u c c' x : ap_l (LScalar s u c x) (LScalar s u c' x)
| ap_l_arr s u c c' e e' : Forall2 (chain_ap ap_l) e e' -> ap_l (LArr s u c e) (LArr s u c' e')
| ap_l_obj s u c c' p p' : Forall2 (kv_rel (chain_ap ap_l)) p p' -> ap_l (LObj s u c p) (LObj s u c' p').

Notation ap_c := (chain_ap ap_l).

Definition wildc (c : chain) : Prop := match c with LScalar _ true _ _ :: _ => True | _ => False end.

Lemma wildc_ap c o : wildc c -> ap_c c o.
Proof. destruct c as [|[s [|] sc x| |] r]; simpl; try contradiction. intros _. constructor. Qed.

Lemma ap_l_refl l : ap_l l l.
Proof.
  induction l as [s u c sc|s u c e IH|s u c p IH] using layer_ind2; constructor.
  - apply Forall2_refl. eapply Forall_impl; [|exact IH]. intros ch H.
    induction H; constructor; auto.
  - apply Forall2_refl. eapply Forall_impl; [|exact IH]. intros kv H. split; auto.
    induction H; constructor; auto.
Qed.

Lemma ap_c_refl c : ap_c c c.
Proof. induction c; constructor; auto using ap_l_refl. Qed.

Lemma ap_l_unk l l' : ap_l l l' -> l_unk l = l_unk l'.
Proof. now destruct 1. Qed.
Lemma ap_l_sec l l' : ap_l l l' -> l_sec l = l_sec l'.
Proof. now destruct 1. Qed.

Lemma ap_app a a' b b' : ap_c a a' -> ap_c b b' -> ap_c (a ++ b) (a' ++ b').
Proof. intros Ha Hb. induction Ha; simpl; [exact Hb|constructor|constructor; auto]. Qed.

Lemma ap_single l l' : ap_l l l' -> ap_c [l] [l'].
Proof. intros; constructor; [assumption|constructor]. Qed.

Lemma unknown_layer_wild s c r : wildc (unknown_layer s c :: r).
Proof. exact I. Qed.

(* ---------------- property / keys ---------------- *)
Theorem property_ap k c o : ap_c c o -> ap_c (property k c) (property k o).
Proof.
  induction 1 as [|s sc x r o|l l' r r' Hl Hr IH].
  - constructor.
  - cbn [property l_unk]. constructor.
  - destruct Hl as [s u c c' x|s u c c' e e' He|s u c c' p p' Hp].
    + cbn [property l_unk]. destruct u; [constructor|constructor].
    + cbn [property l_unk]. destruct u; [constructor|constructor].
    + cbn [property]. pose proof (alookup_rel _ k _ _ Hp) as HL.
      destruct (alookup k p), (alookup k p'); simpl in HL; try contradiction; [|exact IH].
      now apply ap_app.
Qed.

Lemma In_sinsert' (k x : string) (l : list string) : In x (sinsert k l) <-> x = k \/ In x l.
Proof.
  induction l as [|y l IH]; simpl; [intuition|].
  destruct (String.eqb k y) eqn:E.
  - apply String.eqb_eq in E. subst. simpl. intuition.
  - destruct (String.ltb k y); simpl; [intuition|]. rewrite IH. intuition.
Qed.

Lemma In_sunion' (x : string) (a b : list string) : In x (sunion a b) <-> In x a \/ In x b.
Proof.
  unfold sunion. revert b. induction a as [|y a IH]; simpl; intros b; [intuition|].
  rewrite IH, In_sinsert'. intuition.
Qed.

Theorem keys_ap c o : ap_c c o -> incl (keys c) (keys o).
Proof.
  induction 1 as [|s sc x r o|l l' r r' Hl Hr IH]; simpl; try (intros ? []).
  destruct Hl as [| |s u c c' p p' Hp]; simpl; try (intros ? []).
  intros x Hx. apply In_sunion' in Hx. apply In_sunion'. rewrite <- (kv_keys _ _ _ Hp). destruct Hx; auto.
Qed.

(* ------------------------------------------------------------------------------------------------ *)
(* the relation on exported values (Prop form of Corr/C06.approx)                                    *)
(* ------------------------------------------------------------------------------------------------ *)
Inductive ap_x : xval -> xval -> Prop :=
| ap_x_unk c o : C06.x_unk c = true -> ap_x c o
| ap_x_scalar s x : ap_x (XScalar s false x) (XScalar s false x)
| ap_x_arr s s' l l' : Forall2 ap_x l l' -> ap_x (XArr s false l) (XArr s' false l')
| ap_x_obj s s' m m' :
    Forall (fun kv => exists v', alookup (fst kv) m' = Some v' /\ ap_x (snd kv) v') m ->
    ap_x (XObj s false m) (XObj s' false m').

Lemma scalar_eqb_refl x : scalar_eqb x x = true.
Proof. destruct x; simpl; auto using Bool.eqb_reflx, String.eqb_refl. Qed.

Lemma forallb_combine_F2 {A B} (p : A * B -> bool) (R : A -> B -> Prop) l l' :
  Forall2 R l l' -> (forall a b, In a l -> R a b -> p (a, b) = true) -> forallb p (combine l l') = true.
Proof.
  induction 1 as [|a b l l' Hab _ IH]; simpl; intros H; [reflexivity|].
  rewrite (H a b (or_introl eq_refl) Hab), IH; auto.
Qed.

(* the Prop relation implies the oracle's boolean, with any fuel beyond the depth of the check value *)
Theorem ap_x_approx f : forall c o, ap_x c o -> (x_depth c < f)%nat -> C06.approx f c o = true.
Proof.
  induction f as [|f IH]; intros c o H Hd; [lia|].
  destruct H as [c o Hu|s x|s s' l l' Hl|s s' m m' Hm]; cbn [C06.approx].
  - now rewrite Hu.
  - simpl. now rewrite Bool.eqb_reflx, scalar_eqb_refl.
  - simpl. rewrite (Forall2_length _ _ _ Hl), Nat.eqb_refl. simpl.
    eapply forallb_combine_F2; [exact Hl|]. intros a b Ha Hab. simpl. apply IH; [exact Hab|].
    simpl in Hd. pose proof (foldmax_in x_depth l O a Ha). lia.
  - simpl. apply forallb_forall. intros kv Hkv. rewrite Forall_forall in Hm.
    destruct (Hm kv Hkv) as (v' & E & Hv). rewrite E. apply IH; [exact Hv|].
    simpl in Hd. pose proof (foldmax_in (fun kv => x_depth (snd kv)) m O kv Hkv). simpl in H. lia.
Qed.

(* ---------------- export ---------------- *)
Lemma mapM_F2 {A B A' B'} (R : A -> B -> Prop) (R' : A' -> B' -> Prop) (g : A -> option A') (g' : B -> option B') l l' :
  Forall2 R l l' -> (forall a b xa xb, R a b -> g a = Some xa -> g' b = Some xb -> R' xa xb) ->
  forall r r', mapM g l = Some r -> mapM g' l' = Some r' -> Forall2 R' r r'.
Proof.
  intros HF HR. induction HF as [|a b l l' Hab _ IH]; simpl; intros r r' E E'.
  - injection E as <-. injection E' as <-. constructor.
  - destruct (g a) eqn:Ea; [|discriminate]. destruct (mapM g l); [|discriminate].
    destruct (g' b) eqn:Eb; [|discriminate]. destruct (mapM g' l'); [|discriminate].
    injection E as <-. injection E' as <-. constructor; eauto.
Qed.

Lemma mapM_kv_all {B} (g : string -> option B) ks : forall m,
  mapM (fun k => match g k with Some v => Some (k, v) | None => None end) ks = Some m ->
  Forall (fun kv => In (fst kv) ks /\ g (fst kv) = Some (snd kv)) m.
Proof.
  induction ks as [|k ks IH]; simpl; intros m E; [injection E as <-; constructor|].
  destruct (g k) eqn:Ek; [|discriminate].
  destruct (mapM _ ks) as [t|] eqn:Et; [|discriminate]. injection E as <-.
  constructor; [simpl; auto|]. eapply Forall_impl; [|apply IH; reflexivity]. intros kv [H1 H2]. auto.
Qed.

Lemma mapM_kv_lookup {B} (g : string -> option B) ks : forall m k,
  mapM (fun k => match g k with Some v => Some (k, v) | None => None end) ks = Some m ->
  In k ks -> exists v, g k = Some v /\ alookup k m = Some v.
Proof.
  induction ks as [|k0 ks IH]; simpl; intros m k E Hin; [contradiction|].
  destruct (g k0) eqn:Ek; [|discriminate].
  destruct (mapM _ ks) as [t|] eqn:Et; [|discriminate]. injection E as <-. simpl.
  destruct (String.eqb k k0) eqn:Ekk.
  - apply String.eqb_eq in Ekk. subst. eauto.
  - destruct Hin as [->|Hin]; [rewrite String.eqb_refl in Ekk; discriminate|]. eapply IH; eauto.
Qed.

Lemma export_S_obj f sec unk sc p r :
  export (S f) (LObj sec unk sc p :: r) =
  match mapM (fun k => match export f (property k (LObj sec unk sc p :: r)) with Some v => Some (k, v) | None => None end)
             (keys (LObj sec unk sc p :: r)) with
  | Some m => Some (XObj sec unk m)
  | None => None
  end.
Proof. reflexivity. Qed.

Lemma export_S_nil f : export (S f) [] = Some (XScalar false true SNull).
Proof. reflexivity. Qed.

Theorem export_ap f : forall c o xc xo, ap_c c o -> export f c = Some xc -> export f o = Some xo -> ap_x xc xo.
Proof.
  induction f as [|f IH]; intros c o xc xo H Ec Eo; [discriminate|].
  pose proof (keys_ap _ _ H) as HK.
  destruct H as [|s sc x r o|l l' r r' Hl Hr].
  - rewrite export_S_nil in Ec. injection Ec as <-. now apply ap_x_unk.
  - rewrite export_S_scalar in Ec. injection Ec as <-. now apply ap_x_unk.
  - assert (Hc : ap_c (l :: r) (l' :: r')) by now constructor.
    destruct Hl as [s u c c' x|s u c c' e e' He|s u c c' p p' Hp].
    + rewrite export_S_scalar in Ec, Eo. injection Ec as <-. injection Eo as <-.
      destruct u; [now apply ap_x_unk|apply ap_x_scalar].
    + rewrite export_S_arr in Ec, Eo.
      destruct (mapM (export f) e) as [xl|] eqn:M1; [|discriminate].
      destruct (mapM (export f) e') as [xl'|] eqn:M2; [|discriminate].
      injection Ec as <-. injection Eo as <-. destruct u; [now apply ap_x_unk|]. apply ap_x_arr.
      eapply mapM_F2; [exact He| |exact M1|exact M2]. intros a b xa xb Hab Ea Eb. eapply IH; eauto.
    + rewrite export_S_obj in Ec, Eo.
      set (cc := LObj s u c p :: r) in *. set (oo := LObj s u c' p' :: r') in *.
      destruct (mapM _ (keys cc)) as [m|] eqn:M1; [|discriminate].
      destruct (mapM _ (keys oo)) as [m'|] eqn:M2; [|discriminate].
      injection Ec as <-. injection Eo as <-. destruct u; [now apply ap_x_unk|]. apply ap_x_obj.
      pose proof (mapM_kv_all (fun k => export f (property k cc)) _ _ M1) as HA.
      eapply Forall_impl; [|exact HA]. intros kv [Hin Ev].
      destruct (mapM_kv_lookup (fun k => export f (property k oo)) _ _ (fst kv) M2 (HK _ Hin)) as (v' & Ev' & EL).
      exists v'. split; [exact EL|]. eapply IH; [apply (property_ap (fst kv)), Hc|exact Ev|exact Ev'].
Qed.

(* ---------------- toString: only the top layers are read ---------------- *)
Definition tsa (r r' : string * bool * bool) : Prop := snd (fst r) = true \/ r = r'.

Lemma tsa_list {A B} (t : A -> string * bool * bool) (t' : B -> string * bool * bool) l l' :
  Forall2 (fun a b => tsa (t a) (t' b)) l l' ->
  existsb (fun a => snd (fst (t a))) l = true \/ map t l = map t' l'.
Proof.
  induction 1 as [|a b l l' [Hu|E] _ [IH|IH]]; simpl; auto.
  - rewrite Hu. auto.
  - rewrite Hu. auto.
  - rewrite IH, Bool.orb_true_r. auto.
  - right. congruence.
Qed.

Theorem to_string_ap f : forall c o, ap_c c o -> tsa (to_string f c) (to_string f o).
Proof.
  induction f as [|f IH]; intros c o H; [now left|].
  destruct H as [|s sc x r o|l l' r r' Hl Hr]; [now right|now left|]. cbn [to_string].
  rewrite <- (ap_l_unk _ _ Hl), <- (ap_l_sec _ _ Hl). destruct (l_unk l) eqn:EU; [now left|].
  destruct Hl as [s u c c' x|s u c c' e e' He|s u c c' p p' Hp].
  - now right.
  - assert (HF : Forall2 (fun a b => tsa (to_string f a) (to_string f b)) e e').
    { eapply Forall2_impl; [|exact He]. intros; now apply IH. }
    destruct (tsa_list _ _ _ _ HF) as [Hu|E].
    + left. cbn [fst snd]. now rewrite existsb_map'.
    + right. now rewrite E.
  - assert (HF : Forall2 (fun a b => tsa ((fun kv : string * chain => to_string f (snd kv)) a)
                                       ((fun kv : string * chain => to_string f (snd kv)) b)) p p').
    { eapply Forall2_impl; [|exact Hp]. intros a b [_ Hab]. now apply IH. }
    destruct (tsa_list _ _ _ _ HF) as [Hu|E].
    + left. cbn [fst snd]. rewrite existsb_map'. exact Hu.
    + right. f_equal; [f_equal|].
      * f_equal. rewrite !map_map. cbn [fst snd].
        assert (EK : map fst p = map fst p') by exact (kv_keys _ _ _ Hp).
        clear -E EK. revert p' E EK. induction p as [|a p IHp]; intros [|b p'] E EK; try discriminate; [reflexivity|].
        simpl in *. injection E as E1 E2. injection EK as K1 K2. rewrite K1, E1. f_equal. now apply IHp.
      * rewrite !existsb_map'. cbn [fst snd].
        clear -E. revert p' E. induction p as [|a p IHp]; intros [|b p'] E; try discriminate; [reflexivity|].
        simpl in *. injection E as E1 E2. rewrite E1. f_equal. now apply IHp.
      * f_equal. rewrite !existsb_map'. cbn [fst snd].
        clear -E. revert p' E. induction p as [|a p IHp]; intros [|b p'] E; try discriminate; [reflexivity|].
        simpl in *. injection E as E1 E2. rewrite E1. f_equal. now apply IHp.
Qed.

(* ---------------- accessors ---------------- *)
Lemma unknown_access_wild s accs : wildc (fst (unknown_access s accs)).
Proof.
  revert s. induction accs as [|a rest IH]; intros s; simpl; [exact I|].
  destruct s; try exact I.
  - apply IH.
  - destruct (array_index a _); [apply IH|exact I].
  - destruct (object_key a); [apply IH|exact I].
Qed.

Lemma va_unk_wild f l r a rest : l_unk l = true -> wildc (fst (value_access f (l :: r) (a :: rest))).
Proof. intros H. destruct f as [|f]; [exact I|]. cbn [value_access]. rewrite H. apply unknown_access_wild. Qed.

Theorem value_access_ap f : forall c o accs, ap_c c o -> ap_c (fst (value_access f c accs)) (fst (value_access f o accs)).
Proof.
  induction f as [|f IH]; intros c o accs H; [apply ap_c_refl|].
  cbn [value_access]. destruct accs as [|a rest]; [exact H|].
  destruct H as [|s sc x r o|l l' r r' Hl Hr].
  - apply ap_c_refl.
  - cbn [l_unk]. apply wildc_ap, unknown_access_wild.
  - rewrite <- (ap_l_unk _ _ Hl). destruct (l_unk l) eqn:EU; [apply wildc_ap, unknown_access_wild|].
    destruct Hl as [s u c c' x|s u c c' e e' He|s u c c' p p' Hp].
    + apply ap_c_refl.
    + rewrite (Forall2_length _ _ _ He). destruct (array_index a (Z.of_nat (length e'))) as [i|]; [|apply ap_c_refl].
      apply IH. apply Forall2_nth; [exact He|constructor].
    + destruct (object_key a) as [k|]; [|apply ap_c_refl].
      pose proof (alookup_rel _ k _ _ Hp) as HL.
      destruct (alookup k p), (alookup k p'); simpl in HL; try contradiction.
      * apply IH. apply ap_app; [exact HL|now apply property_ap].
      * (* the key is not in the top layer: go on in the base if it is (or may be) an object *)
        destruct Hr as [|s0 sc0 x0 r0 o0|l0 l0' r0 r0' Hl0 Hr0].
        -- apply ap_c_refl.
        -- (* the check base starts with an unknown: the check result is an unknown in either branch *)
           apply wildc_ap. destruct (is_object _); [|exact I].
           destruct f as [|f']; [exact I|]. cbn [value_access l_unk]. apply unknown_access_wild.
        -- unfold is_object. rewrite <- (ap_l_unk _ _ Hl0). destruct (l_unk l0) eqn:EU0.
           ++ apply wildc_ap. destruct (sch_objectish _); [|exact I].
              destruct f as [|f']; [exact I|]. cbn [value_access]. rewrite EU0. apply unknown_access_wild.
           ++ assert (Hb : ap_c (l0 :: r0) (l0' :: r0')) by now constructor.
              destruct Hl0; try apply ap_c_refl. now apply IH.
Qed.
