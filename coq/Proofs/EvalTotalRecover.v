(* Proofs/EvalTotalRecover.v — error recovery: failures become unknown values and diagnostics, and every
   declared key / array element is still produced (C07, second half). *)
From Verif Require Import Base.Bytes Model.Chain Model.GoText Model.Envelope Model.Eval
  Proofs.EvalTotalBase Proofs.EvalTotalInv Proofs.EvalTotalOrder.
From Coq Require Import Lia ZifyN ZifyNat ZifyBool Sorting.Permutation Sorting.Sorted.

(* ------------------------------------------------------------------------------------------------ *)
(* 1. objects and arrays always have all their members                                              *)
(* ------------------------------------------------------------------------------------------------ *)
Section SHAPE.
Variable W : world.

Lemma obj_go_shape (ee : expr -> bool -> chain -> eid -> M chain) xbase id :
  forall ds acc s, exists props,
    fst (obj_go ee xbase id ds acc s) = [obj_layer props] /\
    map fst props = rev (map fst acc) ++ map ekey ds.
Proof.
  induction ds as [|[[i k] e] r IH]; intros acc s.
  - rewrite obj_go_nil. exists (rev acc). split; [reflexivity|]. rewrite map_rev, app_nil_r. reflexivity.
  - rewrite obj_go_cons, bind_eq.
    destruct (IH ((k, fst (ee e false (property k xbase) (fst id, snd id ++ [IKey k]) s)) :: acc)
                 (snd (ee e false (property k xbase) (fst id, snd id ++ [IKey k]) s))) as (props & H1 & H2).
    exists props. split; [exact H1|]. rewrite H2. cbn [map fst rev]. rewrite <- app_assoc. reflexivity.
Qed.

Lemma arr_go_shape (ee : expr -> bool -> chain -> eid -> M chain) id :
  forall es i acc s, exists elems,
    fst (arr_go ee id es i acc s) = [LArr false false (ScArray (map top_sch elems) (Some ScNever)) elems] /\
    length elems = (length acc + length es)%nat.
Proof.
  induction es as [|e r IH]; intros i acc s.
  - rewrite arr_go_nil. exists (rev acc). split; [reflexivity|]. rewrite rev_length. cbn [length]. lia.
  - rewrite arr_go_cons, bind_eq.
    destruct (IH (S i) (fst (ee e false [] (fst id, snd id ++ [IIdx i]) s) :: acc)
                 (snd (ee e false [] (fst id, snd id ++ [IIdx i]) s))) as (elems & H1 & H2).
    exists elems. split; [exact H1|]. rewrite H2. cbn [length]. lia.
Qed.

(* the keys an object literal declares: first occurrences, sorted *)
Definition declared_keys_of {A} (entries : list (string * A)) : list string :=
  map ekey (sort_entries (fst (declared entries 0%nat []))).

Lemma declared_keys_of_spec {A} (entries : list (string * A)) :
  StronglySorted slt (declared_keys_of entries) /\
  NoDup (declared_keys_of entries) /\
  (forall k, In k (declared_keys_of entries) <-> In k (map fst entries)).
Proof.
  unfold declared_keys_of.
  destruct (declared_keys entries 0%nat []) as [Hn Hk].
  set (decl := fst (declared entries 0%nat [])) in *.
  assert (E : map ekey (sort_entries decl) = map fst (ksort (strip decl))).
  { rewrite <- strip_sort_entries. unfold strip. rewrite map_map. reflexivity. }
  assert (Hn' : NoDup (map fst (strip decl))).
  { unfold strip. rewrite map_map. exact Hn. }
  rewrite E. split; [|split].
  - apply ksorted_keys, ksort_sorted, Hn'.
  - eapply Permutation_NoDup; [apply Permutation_sym, Permutation_map, ksort_perm|exact Hn'].
  - intro k. split.
    + intro H. apply (Permutation_in _ (Permutation_map fst (ksort_perm (strip decl)))) in H.
      unfold strip in H. rewrite map_map in H. apply Hk in H. apply H.
    + intro H. apply (Permutation_in _ (Permutation_sym (Permutation_map fst (ksort_perm (strip decl))))).
      unfold strip. rewrite map_map. apply Hk. split; [exact H|intros []].
Qed.

(* Theorem 3, expression level: an object literal evaluates to an object with exactly its declared keys,
   an array literal to an array of the same length — in every state, whatever the sub-evaluations did *)
Theorem eval_repr_obj_keys f E entries xbase id s :
  exists props,
    fst (eval_repr W (S f) E (EObj entries) xbase id s) = [obj_layer props] /\
    map fst props = declared_keys_of entries.
Proof.
  rewrite eval_repr_S. unfold repr_body, declared_keys_of.
  destruct (declared entries 0%nat []) as [decl dups]. cbn [fst]. rewrite bind_eq.
  destruct (obj_go_shape (eval_expr W f E) xbase id (sort_entries decl) [] (snd (add_err dups s)))
    as (props & H1 & H2).
  exists props. split; [exact H1|exact H2].
Qed.

Theorem eval_repr_arr_length f E l xbase id s :
  exists elems,
    fst (eval_repr W (S f) E (EArr l) xbase id s) = [LArr false false (ScArray (map top_sch elems) (Some ScNever)) elems] /\
    length elems = length l.
Proof.
  rewrite eval_repr_S. unfold repr_body.
  destruct (arr_go_shape (eval_expr W f E) id l 0%nat [] s) as (elems & H1 & H2).
  exists elems. split; [exact H1|exact H2].
Qed.

End SHAPE.

(* ------------------------------------------------------------------------------------------------ *)
(* 2. the root object of an environment has every declared, non-reserved key                        *)
(* ------------------------------------------------------------------------------------------------ *)
Section ENVKEYS.
Variable W : world.

(* no expression of environment [n] has been entered yet *)
Definition untouched (n : string) (s : st) : Prop := forall p, memo_get (n, p) (memo s) = None.
Definition Inv (n : string) (s : st) : Prop := alookup n (imps s) <> None /\ untouched n s.

Lemma Inv_same n s s' : imps s' = imps s -> memo s' = memo s -> Inv n s -> Inv n s'.
Proof. unfold Inv, untouched. intros H1 H2. rewrite H1, H2. auto. Qed.

Lemma untouched_same n s s' : memo s' = memo s -> untouched n s -> untouched n s'.
Proof. unfold untouched. intros H2. rewrite H2. auto. Qed.

Lemma Inv_imps_set n n0 v s : Inv n s -> Inv n (snd (imps_set n0 v s)).
Proof.
  intros [H1 H2]. split; [|exact H2]. cbn [imps_set snd imps alookup].
  destruct (String.eqb n n0); [discriminate|exact H1].
Qed.

(* the expression family of environment E only writes memo entries of E *)
Lemma untouched_P5 n f : P5 W (fun s s' => untouched n s -> untouched n s') (fun id => fst id <> n) f.
Proof.
  apply P5_all; auto.
  - intros id v Hid s Hs p. cbn [memo_set snd memo]. rewrite memo_get_cons.
    rewrite eid_eqb_fst; [apply Hs|]. cbn [fst]. congruence.
Qed.

Lemma env_go_Inv n (ev : string -> envdef -> M chain) :
  (forall n0 d s, n0 <> n -> Inv n s -> Inv n (snd (ev n0 d s))) ->
  forall is base my s, Inv n s -> Inv n (snd (env_go W ev is base my s)).
Proof.
  intros Hev. induction is as [|[n0 merge] rest IH]; intros base my s Hs.
  - exact Hs.
  - rewrite env_go_cons, bind_eq. unfold imps_get at 1 2. cbn [fst snd].
    destruct (alookup n0 (imps s)) as [i|] eqn:E.
    + destruct (is_evaluating i).
      * rewrite bind_eq. apply IH. eapply Inv_same; [| |exact Hs]; reflexivity.
      * destruct (is_value i); apply IH, Hs.
    + assert (Hne : n0 <> n) by (intros ->; apply (proj1 Hs); exact E).
      rewrite bind_eq. cbv beta. rewrite bind_eq.
      set (s1 := snd (emit (EvLoad n0) (snd (call W s)))).
      assert (H1 : Inv n s1) by (eapply Inv_same; [| |exact Hs]; reflexivity).
      destruct (load_result W (fst (call W s)) n0) as [| |d'].
      * rewrite bind_eq, bind_eq. apply IH. apply Inv_imps_set. eapply Inv_same; [| |exact H1]; reflexivity.
      * rewrite bind_eq, bind_eq. apply IH. apply Inv_imps_set. eapply Inv_same; [| |exact H1]; reflexivity.
      * rewrite bind_eq. cbv beta. rewrite bind_eq. apply IH. apply Inv_imps_set. apply Hev; assumption.
Qed.

Lemma eval_env_Inv n : forall f root name d s, name <> n -> Inv n s -> Inv n (snd (eval_env W f root name d s)).
Proof.
  induction f as [|f IH]; intros root name d s Hne Hs.
  - rewrite eval_env_0. eapply Inv_same; [| |exact Hs]; reflexivity.
  - rewrite eval_env_S. unfold env_body. cbv zeta. rewrite bind_eq.
    set (root' := if String.eqb root "" || String.eqb root "<yaml>" then name else root).
    rewrite bind_eq.
    pose proof (env_go_Inv n (eval_env W f root') (fun n0 d0 s0 => IH root' n0 d0 s0) (ed_imports d) [] []
                  _ (Inv_imps_set n name {| is_evaluating := true; is_value := None |} s Hs)) as H1.
    destruct (env_go W (eval_env W f root') (ed_imports d) [] []
                (snd (imps_set name {| is_evaluating := true; is_value := None |} s))) as [[base my] s2].
    cbn [fst snd] in *. rewrite bind_eq, bind_eq.
    match goal with |- Inv n (snd (eval_expr W f ?E ?x ?a ?b ?i ?s3)) => set (s3' := s3); set (E' := E) end.
    assert (H3 : Inv n s3').
    { eapply Inv_same; [| |apply (Inv_imps_set n name {| is_evaluating := false; is_value := None |} s2 H1)]; reflexivity. }
    split.
    + apply (le_imps _ _ (eval_expr_mono W f E' _ _ _ _ s3')). apply H3.
    + destruct (untouched_P5 n f) as (He & _). apply He; [exact Hne|exact Hne|apply H3].
Qed.

Definition env_values (d : envdef) : list (string * expr) :=
  filter (fun kv => negb (reserved (fst kv))) (ed_values d).

(* the keys the root object of [d] must have: first occurrences of the non-reserved keys, sorted *)
Definition env_keys (d : envdef) : list string := declared_keys_of (env_values d).

Lemma env_keys_spec d :
  StronglySorted slt (env_keys d) /\ NoDup (env_keys d) /\
  (forall k, In k (env_keys d) <-> In k (map fst (ed_values d)) /\ reserved k = false).
Proof.
  unfold env_keys. destruct (declared_keys_of_spec (env_values d)) as (H1 & H2 & H3).
  split; [exact H1|split; [exact H2|]]. intro k. rewrite H3. unfold env_values.
  rewrite !in_map_iff. split.
  - intros ([k' e] & <- & Hin). apply filter_In in Hin. destruct Hin as [Hin Hr]. cbn [fst] in *.
    split; [exists (k', e); auto|]. now destruct (reserved k').
  - intros [([k' e] & <- & Hin) Hr]. exists (k', e). split; [reflexivity|]. apply filter_In.
    cbn [fst] in *. rewrite Hr. auto.
Qed.

(* the final step of eval_env: evaluating the root object with a fresh identity *)
Lemma root_object_keys f E entries base id s :
  memo_get id (memo s) = None ->
  oof (snd (eval_expr W f E (EObj entries) false base id s)) = false ->
  exists props,
    fst (eval_expr W f E (EObj entries) false base id s) = obj_layer props :: base /\
    map fst props = declared_keys_of entries.
Proof.
  intros Hm Hoof. destruct f as [|f]; [discriminate Hoof|].
  rewrite eval_expr_S in *. unfold expr_body in *. rewrite bind_eq in *.
  unfold get_memo at 1 2 in Hoof. unfold get_memo at 1 2. cbn [fst snd] in *. rewrite Hm in *.
  rewrite bind_eq in *. cbv beta in *. rewrite bind_eq in *. cbv beta zeta in *. rewrite bind_eq in *.
  set (s1 := snd (memo_set id None s)) in *.
  destruct f as [|f].
  - exfalso. revert Hoof. rewrite eval_repr_0. discriminate.
  - destruct (eval_repr_obj_keys W f E entries base id s1) as (props & H1 & H2).
    exists props. split; [|exact H2]. cbn [ret fst]. rewrite H1. reflexivity.
Qed.

(* Theorem 3, environment level.  [untouched name s]: no expression of [name] has been entered in [s]
   (true of [st0], and of every state in which the evaluator itself calls [eval_env]). *)
Theorem declared_keys_present fuel root name d s :
  untouched name s ->
  oof (snd (eval_env W fuel root name d s)) = false ->
  exists props rest,
    fst (eval_env W fuel root name d s) = obj_layer props :: rest /\
    map fst props = env_keys d.
Proof.
  intros Hu Hoof. destruct fuel as [|f]; [discriminate Hoof|].
  rewrite eval_env_S in *. unfold env_body in *. cbv zeta in *.
  set (root' := if String.eqb root "" || String.eqb root "<yaml>" then name else root) in *.
  rewrite bind_eq in *. rewrite bind_eq in *.
  set (s1 := snd (imps_set name {| is_evaluating := true; is_value := None |} s)) in *.
  assert (H1 : Inv name s1).
  { split; [cbn; rewrite String.eqb_refl; discriminate|exact Hu]. }
  pose proof (env_go_Inv name (eval_env W f root')
                (fun n0 d0 s0 => eval_env_Inv name f root' n0 d0 s0) (ed_imports d) [] [] s1 H1) as H2.
  destruct (env_go W (eval_env W f root') (ed_imports d) [] [] s1) as [[base my] s2].
  cbn [fst snd] in *. rewrite bind_eq in *. rewrite bind_eq in *.
  match type of Hoof with oof (snd (eval_expr W f ?E ?x ?a ?b ?i ?s3)) = false => set (s3' := s3) in *; set (E' := E) in * end.
  assert (H3 : memo_get (name, []) (memo s3') = None) by apply H2.
  destruct (root_object_keys f E' (ec_values E') base (name, []) s3' H3 Hoof) as (props & Hv & Hk).
  exists props, base. split; [exact Hv|exact Hk].
Qed.

End ENVKEYS.

Lemma untouched_st0 n : untouched n st0.
Proof. intro p. reflexivity. Qed.

(* ------------------------------------------------------------------------------------------------ *)
(* 3. the same at the level of the observation ([run]): the check of Corr/C07.v [keys_present]       *)
(* ------------------------------------------------------------------------------------------------ *)
Lemma sinsert_in k k' l : In k l -> In k (sinsert k' l).
Proof.
  induction l as [|a r IH]; [contradiction|]. cbn [sinsert].
  destruct (String.eqb k' a); [auto|]. destruct (String.ltb k' a); [intro; right; assumption|].
  intros [->|H]; [left; reflexivity|right; auto].
Qed.

Lemma sunion_in_r k a b : In k b -> In k (sunion a b).
Proof.
  unfold sunion. revert b. induction a as [|x r IH]; intros b H; [exact H|]. cbn [fold_left].
  apply IH, sinsert_in, H.
Qed.

Lemma mapM_keys {B} (g : string -> option B) l m :
  mapM (fun k => match g k with Some v => Some (k, v) | None => None end) l = Some m -> map fst m = l.
Proof.
  revert m. induction l as [|k r IH]; intros m; cbn [mapM]; [intros [= <-]; reflexivity|].
  destruct (g k) as [v|]; [|discriminate].
  destruct (mapM _ r) as [t|]; [|discriminate]. intros [= <-]. cbn [map fst]. f_equal. apply IH. reflexivity.
Qed.

Lemma export_obj_keys fu props rest v :
  export fu (obj_layer props :: rest) = Some v ->
  exists m, v = XObj false false m /\ forall k, In k (map fst props) -> In k (map fst m).
Proof.
  destruct fu as [|fu]; [discriminate|]. unfold obj_layer. cbn [export].
  destruct (mapM _ _) as [m|] eqn:Em; [|discriminate]. intros [= <-].
  exists m. split; [reflexivity|]. intros k Hk. apply mapM_keys in Em. rewrite Em.
  cbn [keys]. apply sunion_in_r, Hk.
Qed.

(* a run that did not exhaust its fuel shows an object containing every declared, non-reserved root key:
   whatever failed on the way (imports, providers, decryption, references, any injected fault) *)
Theorem run_keys_present f W name d :
  ob_oof (run f W name d) = false ->
  exists m, ob_value (run f W name d) = Some (XObj false false m) /\
            forall k, In k (map fst (ed_values d)) -> reserved k = false -> In k (map fst m).
Proof.
  unfold run. intro H.
  pose proof (declared_keys_present W f "" name d st0 (untouched_st0 name)) as Hk.
  destruct (eval_env W f "" name d st0) as [c s]. cbn [fst snd ob_oof ob_value] in *.
  apply orb_false_iff in H. destruct H as [Ho Hx].
  destruct (Hk Ho) as (props & rest & -> & Hp).
  destruct (export big_fuel (obj_layer props :: rest)) as [v|] eqn:Ev; [|discriminate].
  destruct (export_obj_keys _ props rest v Ev) as (m & -> & Hm).
  exists m. split; [reflexivity|]. intros k Hin Hr. apply Hm. rewrite Hp.
  apply (proj2 (proj2 (env_keys_spec d))). split; assumption.
Qed.
