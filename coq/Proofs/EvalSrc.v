(* Proofs/EvalSrc.v — the evaluator models (Model/Chain.v, Model/Eval.v) against the structure of the evaluator's source.

   harness/cmd/srcfacts/evalcore.go reads eval/value.go, eval/eval.go, eval/crypt.go (DecryptSecrets) and environment.go
   (CopyForEnv) with go/ast on every run and writes, into coq/Src/SrcEval.v, the BEHAVIOUR TABLE of each function the models
   restate: a canonical, order-free list  `conditions => effect`  (notation explained at the top of SrcEval.v), plus a
   few order facts (booleans), the repr dispatch of evaluateExpr, the path condition of the one call of provider.Open,
   and call-site counts.  The canonical form does not depend on comments, on the names of receivers / parameters / locals,
   on logging statements, on the wording of diagnostics, on the order of independent statements, on locals that merely
   name a sub-expression, on if/else orientation or early-return style; everything else shows.

   This file holds, for every table, the form the models were written and validated against ([exp_*], read on the
   reference tree with the validating correspondence runs green) and the comparison, by computation.  Each [exp_*] is
   preceded by the model definition it is the source of.  A source change in one of these functions therefore either
   leaves the table unchanged (then it is one of the rewrites above) or breaks the corresponding [eval_src_*_ok]
   obligation of the properties that rest on that model definition — until somebody has looked at the change, updated the
   model if needed (the correspondence check then decides), and updated the expectation here.

   The last section ties three of the tables to the model by theorems rather than by text: the dispatch of evaluateExpr
   is in bijection with the constructors of [expr]; the model's [combine2] is the fold the table of combine describes;
   [contains_unknowns] / [contains_secrets] are defined through the merged view the tables of containsUnknowns /
   containsSecrets use.

   Nothing in THIS file can stop compiling when the source changes: the comparisons are only defined here.  Each is
   decided in a file of its own, Proofs/EvalSrc<Group>.v (so that, under `make -k`, a change in one Go function breaks the
   obligations of exactly the properties that name that group in their Properties/Cxx_src.v); there, each table is first
   compared with [table_diff], so that the error message of a failing build lists the entries that changed. *)
From Verif Require Import Base.Bytes Model.Chain Model.GoText Model.Eval Src.SrcEval.

Fixpoint lseqb (a b : list string) : bool :=
  match a, b with
  | [], [] => true
  | x :: a', y :: b' => String.eqb x y && lseqb a' b'
  | _, _ => false
  end.

Definition pair_eqb (p q : string * string) : bool := String.eqb (fst p) (fst q) && String.eqb (snd p) (snd q).

Fixpoint lpeqb (a b : list (string * string)) : bool :=
  match a, b with
  | [], [] => true
  | x :: a', y :: b' => pair_eqb x y && lpeqb a' b'
  | _, _ => false
  end.

Lemma lseqb_eq a b : lseqb a b = true -> a = b.
Proof.
  revert b. induction a as [|x a IH]; intros [|y b] H; try discriminate; [reflexivity|].
  cbn [lseqb] in H. apply andb_prop in H. destruct H as [H1 H2]. apply String.eqb_eq in H1. subst y. f_equal. now apply IH.
Qed.

(* ====================================================================================================================
   The expected tables.  Correspondence asserted (Go function  ->  model definition):

   value.go
     combine               -> Eval.combine2, and `let unk := contains_unknowns v in let sec := contains_secrets v` in
                              EFromB64 / EToB64 / EFromJSON / EToJSON of Eval.eval_repr (receiver fresh: flags false, no repr)
     containsUnknowns      -> Eval.contains_unknowns  (= Chain.x_has_unknown of Chain.export: the merged view)
     containsSecrets       -> Eval.contains_secrets
     merge                 -> list append of chains: `v1 ++ xbase` in Eval.eval_expr, `val ++ base` in Eval.eval_env; the
                              no-op guards are what makes appending an already-present suffix harmless; the re-merge of
                              the own properties is the duplicated base segment of Proofs/ChainAlgebraSrc.v
     mergedSchema          -> Chain.merged_schema / chain_sch
     property              -> Chain.property
     keys                  -> Chain.keys (sunion over the object prefix; sorted)
     export                -> Chain.export
     isObject              -> Chain.is_object
     toString              -> Eval.to_string
     unexport(Value)       -> Chain.unexport
     copier.copy           -> (nothing to model: chains are immutable values; recorded because facts 6 and 7 rely on it
                              being a deep copy of repr children AND of the base chain)
   eval.go
     evaluateExpr          -> Eval.eval_expr (memo: Some None = exprEvaluating, Some (Some v) = exprDone) + the match of
                              Eval.eval_repr
     evaluatePropertyAccess-> Eval.eval_access (the copy is implicit in the model)
     evaluateExprAccess    -> Eval.eval_access + Eval.walk;  evaluateValueAccess -> Eval.value_access;
     evaluateUnknownAccess -> Eval.unknown_access;  invalidPropertyAccess -> Eval.invalid_access;
     arrayIndex / objectKey-> Eval.array_index / Eval.object_key
     evaluateImport(s)     -> the `go` loop of Eval.eval_env (imps_get / is_evaluating / call + EvLoad / eval_env f root' n d' /
                              imps_set / proceed: `if merge then val ++ base else base`, `ainsert n val my`)
     newEvalContext        -> the arguments of the recursive call `eval_env f root' n d'` and w_decrypt W (ec_name E)
     CopyForEnv            -> Eval.context_chain W root' name, root' in Eval.eval_env
     evaluate / declare    -> tail of Eval.eval_env (reserved keys), Eval.declared, `property k xbase` in the EObj case
     evaluateBuiltinOpen   -> EOpen case of Eval.eval_repr (the gate `negb ok || contains_unknowns iv || w_check W`)
     evaluateTypedExpr     -> Eval.eval_typed / Eval.validate
     evaluateBuiltinSecret -> ESecretPlain / ESecretCipher cases;  decryptSecrets -> `w_check W && negb (w_show W)`
     evaluateBuiltinJoin .. ToString -> EJoin, EToJSON, EFromJSON, EToB64, EFromB64, EToString cases
     evaluateInterpolate   -> EInterp case;  evaluateObject / evaluateArray -> EObj (sort_entries) / EArr cases
   crypt.go
     DecryptSecrets (closure) -> Model/Crypt.v's decrypt step: decode, then Decrypt on the decoded bytes only
   ==================================================================================================================== *)
Definition exp_combine : list string := [
  "func (*value) combine(...*value)";
  "each $p0 => $r.secret = ($r.containsSecrets() || $v($p0).containsSecrets())";
  "each $p0 => $r.unknown = ($r.containsUnknowns() || $v($p0).containsUnknowns())"
].
Definition exp_contains_unknowns : list string := [
  "func (*value) containsUnknowns() (bool)";
  "!$r.unknown & $r.property($r.def.repr.syntax(), $v($r.keys())).containsUnknowns() & $r.repr.(type) is map[string]*value & ($r != nil) & each $r.keys() => return true";
  "!$r.unknown & $r.repr.(type) is []*value & $v($r.repr.(type)).containsUnknowns() & ($r != nil) & each $r.repr.(type) => return true";
  "!$r.unknown & ($r != nil) => return false";
  "$r.unknown & ($r != nil) => return true";
  "($r == nil) => return false"
].
Definition exp_contains_secrets : list string := [
  "func (*value) containsSecrets() (bool)";
  "!$r.secret & $r.property($r.def.repr.syntax(), $v($r.keys())).containsSecrets() & $r.repr.(type) is map[string]*value & ($r != nil) & each $r.keys() => return true";
  "!$r.secret & $r.repr.(type) is []*value & $v($r.repr.(type)).containsSecrets() & ($r != nil) & each $r.repr.(type) => return true";
  "!$r.secret & ($r != nil) => return false";
  "$r.secret & ($r != nil) => return true";
  "($r == nil) => return false"
].
Definition exp_merge : list string := [
  "func (*value) merge(*value)";
  "!$r.is($p0) & ($p0 != nil) & ($r.base != nil) => $r.base.merge($p0)";
  "!$r.is($p0) & ($p0 != nil) & ($r.base == nil) => $r.base = $p0";
  "!$r.is($p0) & ($p0 != nil) & (%[$p0] == $r) & while (%[$p0] != nil) => return";
  "!$r.is($p0) & ($p0 != nil) & each $r.repr.(map[string]*value) & ok($r.repr.(map[string]*value)) => $v($r.repr.(map[string]*value)).merge($r.base.property($v($r.repr.(map[string]*value)).def.repr.syntax(), $k($r.repr.(map[string]*value))))";
  "!$r.is($p0) & ($p0 != nil) & while (%[$p0] != nil) => %[$p0] = %[$p0].base";
  "!$r.is($p0) & ($p0 != nil) => $r.schema = mergedSchema($r.base.schema, $r.schema)";
  "!$r.is($p0) & ($p0 != nil) => %[$p0] = $p0";
  "(($p0 == nil) || $r.is($p0)) => return"
].
Definition exp_property : list string := [
  "func (*value) property(ast.Expr, string) (*value)";
  "!$r.unknown & !ok($r.repr.(map[string]*value)) & ($r != nil) => return nil";
  "!ok($r.repr.(map[string]*value)) & $r.unknown & ($r != nil) => par{let @property | let @Property}";
  "!ok($r.repr.(map[string]*value)) & $r.unknown & ($r != nil) => return &value{base: @property, def: &expr{base: @property, repr: &accessExpr{accessor: &ast.PropertyName{Name: $p1}, node: $p0, receiver: $r}, schema: @Property, state: exprDone}, schema: @Property, unknown: true}";
  "!ok($r.repr.(map[string]*value)[$p1]) & ($r != nil) & ok($r.repr.(map[string]*value)) => return $r.base.property($p0, $p1)";
  "($r != nil) & ok($r.repr.(map[string]*value)) & ok($r.repr.(map[string]*value)[$p1]) => return $r.repr.(map[string]*value)[$p1]";
  "($r == nil) => return nil";
  "where @Property := $r.schema.Property($p1)";
  "where @property := $r.base.property($p0, $p1)"
].
Definition exp_keys : list string := [
  "func (*value) keys() ([]string)";
  "!ok($r.repr.(map[string]*value)) & ($r != nil) & ($r.mergedKeys == nil) => return nil";
  "($r != nil) & ($r.mergedKeys == nil) & (len(@keys) != 0) & each $r.repr.(map[string]*value) & ok($r.repr.(map[string]*value)) => @make[$k($r.repr.(map[string]*value))] = struct{}{}";
  "($r != nil) & ($r.mergedKeys == nil) & (len(@keys) != 0) & each @keys & ok($r.repr.(map[string]*value)) => @make[$v(@keys)] = struct{}{}";
  "($r != nil) & ($r.mergedKeys == nil) & (len(@keys) != 0) & ok($r.repr.(map[string]*value)) => $r.mergedKeys = maps.Keys(@make)";
  "($r != nil) & ($r.mergedKeys == nil) & (len(@keys) != 0) & ok($r.repr.(map[string]*value)) => let @make";
  "($r != nil) & ($r.mergedKeys == nil) & (len(@keys) == 0) & ok($r.repr.(map[string]*value)) => $r.mergedKeys = maps.Keys($r.repr.(map[string]*value))";
  "($r != nil) & ($r.mergedKeys == nil) & ok($r.repr.(map[string]*value)) => let @keys";
  "($r != nil) & ($r.mergedKeys == nil) & ok($r.repr.(map[string]*value)) => sort.Strings($r.mergedKeys)";
  "($r != nil) => return $r.mergedKeys";
  "($r == nil) => return nil";
  "where @keys := $r.base.keys()";
  "where @make := make(map[string]struct{}, ite((len(@keys) < len($r.repr.(map[string]*value))), len($r.repr.(map[string]*value)), len(@keys)))"
].
Definition exp_export : list string := [
  "func (*value) export(string) (esc.Value)";
  "$r.repr.(type) is []*value & ($r.exported == nil) & each $r.repr.(type) => @make.1[$k($r.repr.(type))] = $v($r.repr.(type)).export($p0)";
  "$r.repr.(type) is []*value & ($r.exported == nil) => let @make.1";
  "$r.repr.(type) is map[string]*value & ($r.exported == nil) & each @keys => @make.2[$v(@keys)] = $r.property($r.def.repr.syntax(), $v(@keys)).export($p0)";
  "$r.repr.(type) is map[string]*value & ($r.exported == nil) => let @keys";
  "$r.repr.(type) is map[string]*value & ($r.exported == nil) => let @make.2";
  "($r.base != nil) & ($r.exported == nil) => %[$r.base.export(""<import>"")] = $r.base.export(""<import>"")";
  "($r.exported != nil) => return *$r.exported";
  "($r.exported == nil) => $r.exported = &esc.Value{Secret: $r.secret, Trace: esc.Trace{Base: ite(($r.base != nil), &%[$r.base.export(""<import>"")], zero(*esc.Value)), Def: $r.def.defRange($p0)}, Unknown: $r.unknown, Value: sw($r.repr.(type)){[]*value: @make.1 | default: $r.repr.(type) | map[string]*value: @make.2}}";
  "($r.exported == nil) => return *$r.exported";
  "where @keys := $r.keys()";
  "where @make.1 := make([]esc.Value, len($r.repr.(type)))";
  "where @make.2 := make(map[string]esc.Value, len(@keys))"
].
Definition exp_to_string : list string := [
  "func (*value) toString() (string, bool, bool)";
  "!$r.unknown & $r.repr.(type) is []*value & each $r.repr.(type) => let @toString.2";
  "!$r.unknown & $r.repr.(type) is []*value & each $r.repr.(type) => par{%res1 = (%res1 || @toString.2#1) | %res2 = (%res2 || @toString.2#2) | @make[$k($r.repr.(type))] = strconv.Quote(@toString.2#0)}";
  "!$r.unknown & $r.repr.(type) is []*value => let @Join";
  "!$r.unknown & $r.repr.(type) is []*value => let @make";
  "!$r.unknown & $r.repr.(type) is json.Number => let @String";
  "!$r.unknown & $r.repr.(type) is map[string]*value & each @Keys => let @toString.1";
  "!$r.unknown & $r.repr.(type) is map[string]*value & each @Keys => par{%res1 = (%res1 || @toString.1#1) | %res2 = (%res2 || @toString.1#2) | @make[$k(@Keys)] = fmt.Sprintf(""%q=%q"", $v(@Keys), @toString.1#0)}";
  "!$r.unknown & $r.repr.(type) is map[string]*value => let @Join";
  "!$r.unknown & $r.repr.(type) is map[string]*value => let @Keys";
  "!$r.unknown & $r.repr.(type) is map[string]*value => let @make";
  "!$r.unknown & $r.repr.(type) is map[string]*value => sort.Strings(@Keys)";
  "!$r.unknown => par{%res1 = false | %res2 = $r.secret}";
  "!$r.unknown => return sw($r.repr.(type)){[]*value: @Join | bool: ite($r.repr.(type), ""true"", ""false"") | default: """" | json.Number: @String | map[string]*value: @Join | string: $r.repr.(type)}, %res1, %res2";
  "$r.unknown => return ""[unknown]"", true, $r.secret";
  "where @Join := strings.Join(@make, "","")";
  "where @Keys := maps.Keys($r.repr.(type))";
  "where @String := $r.repr.(type).String()";
  "where @make := make([]string, len($r.repr.(type)))";
  "where @toString.1 := $r.repr.(type)[$v(@Keys)].toString()";
  "where @toString.2 := $v($r.repr.(type)).toString()"
].
Definition exp_is_object : list string := [
  "func (*value) isObject() (bool)";
  "!$r.unknown & ($r != nil) => return ok($r.repr.(map[string]*value))";
  "$r.unknown & ($r != nil) => return ($r.schema.Always || ($r.schema.Type == ""object""))";
  "($r == nil) => return false"
].
Definition exp_unexport : list string := [
  "func unexport(esc.Value, *expr) (*value)";
  "=> return unexportValue($p0, $p1, false)"
].
Definition exp_unexport_value : list string := [
  "func unexportValue(esc.Value, *expr, bool) (*value)";
  "$p0.Value.(type) is []esc.Value & each $p0.Value.(type) => let @unexportValue";
  "$p0.Value.(type) is []esc.Value & each $p0.Value.(type) => par{@make.1[$k($p0.Value.(type))] = @unexportValue | @make.2[$k($p0.Value.(type))] = @unexportValue.schema}";
  "$p0.Value.(type) is []esc.Value => par{@value.repr = @make.1 | @value.schema = schema.Tuple(@make.2...).Schema()}";
  "$p0.Value.(type) is []esc.Value => par{let @make.1 | let @make.2}";
  "$p0.Value.(type) is bool => par{@value.repr = $p0.Value.(type) | @value.schema = schema.Boolean().Const($p0.Value.(type)).Schema()}";
  "$p0.Value.(type) is default => panic(fmt.Errorf(_, $p0.Value.(type)))";
  "$p0.Value.(type) is json.Number => par{@value.repr = $p0.Value.(type) | @value.schema = schema.Number().Const($p0.Value.(type)).Schema()}";
  "$p0.Value.(type) is map[string]esc.Value & each $p0.Value.(type) => let @unexportValue";
  "$p0.Value.(type) is map[string]esc.Value & each $p0.Value.(type) => par{@make.3[$k($p0.Value.(type))] = @unexportValue | @make.4[$k($p0.Value.(type))] = @unexportValue.schema}";
  "$p0.Value.(type) is map[string]esc.Value => par{@value.repr = @make.3 | @value.schema = schema.Record(@make.4).Schema()}";
  "$p0.Value.(type) is map[string]esc.Value => par{let @make.3 | let @make.4}";
  "$p0.Value.(type) is nil => par{@value.repr = nil | @value.schema = schema.Null().Schema()}";
  "$p0.Value.(type) is string => par{@value.repr = $p0.Value.(type) | @value.schema = schema.String().Const($p0.Value.(type)).Schema()}";
  "=> let @value";
  "=> return @value";
  "where @make.1 := make([]*value, len($p0.Value.(type)))";
  "where @make.2 := make([]schema.Builder, len($p0.Value.(type)))";
  "where @make.3 := make(map[string]*value, len($p0.Value.(type)))";
  "where @make.4 := make(schema.SchemaMap, len($p0.Value.(type)))";
  "where @unexportValue := unexportValue($v($p0.Value.(type)), $p1, @value.secret)";
  "where @value := &value{def: $p1, secret: (($p0.Secret || $p1.secret) || $p2), unknown: $p0.Unknown}"
].
Definition exp_copy : list string := [
  "func (copier) copy(*value) (*value)";
  "!ok($r.memo[$p0]) & $p0.repr.(type) is []*value & ($p0 != nil) & each $p0.repr.(type) => @make.1[$k($p0.repr.(type))] = $r.copy($v($p0.repr.(type)))";
  "!ok($r.memo[$p0]) & $p0.repr.(type) is []*value & ($p0 != nil) => let @make.1";
  "!ok($r.memo[$p0]) & $p0.repr.(type) is map[string]*value & ($p0 != nil) & each $p0.repr.(type) => @make.2[$k($p0.repr.(type))] = $r.copy($v($p0.repr.(type)))";
  "!ok($r.memo[$p0]) & $p0.repr.(type) is map[string]*value & ($p0 != nil) => let @make.2";
  "!ok($r.memo[$p0]) & ($p0 != nil) => $r.memo[$p0] = @value";
  "!ok($r.memo[$p0]) & ($p0 != nil) => *@value = value{base: $r.copy($p0.base), def: $p0.def, repr: sw($p0.repr.(type)){[]*value: @make.1 | default: $p0.repr.(type) | map[string]*value: @make.2}, schema: $p0.schema, secret: $p0.secret, unknown: $p0.unknown}";
  "!ok($r.memo[$p0]) & ($p0 != nil) => let @value";
  "!ok($r.memo[$p0]) & ($p0 != nil) => return @value";
  "($p0 != nil) & ok($r.memo[$p0]) => return $r.memo[$p0]";
  "($p0 == nil) => return nil";
  "where @make.1 := make([]*value, len($p0.repr.(type)))";
  "where @make.2 := make(map[string]*value, len($p0.repr.(type)))";
  "where @value := &value{}"
].
Definition exp_merged_schema : list string := [
  "func mergedSchema(*schema.Schema, *schema.Schema) (*schema.Schema)";
  "!ok(@make.1[$v($v([][]string{$p0.Required, $p1.Required}))]) & ($p0 != nil) & ($p0.Type == ""object"") & ($p1.Type == ""object"") & each $v([][]string{$p0.Required, $p1.Required}) & each [][]string{$p0.Required, $p1.Required} => %[make([]string, 0, (len($p0.Required) + len($p1.Required)))] = append(%[make([]string, 0, (len($p0.Required) + len($p1.Required)))], $v($v([][]string{$p0.Required, $p1.Required})))";
  "!ok(@make.1[$v($v([][]string{$p0.Required, $p1.Required}))]) & ($p0 != nil) & ($p0.Type == ""object"") & ($p1.Type == ""object"") & each $v([][]string{$p0.Required, $p1.Required}) & each [][]string{$p0.Required, $p1.Required} => @make.1[$v($v([][]string{$p0.Required, $p1.Required}))] = struct{}{}";
  "!ok(@make.2[$k($p1.Properties)]) & ($p0 != nil) & ($p0.Type == ""object"") & ($p1.Type == ""object"") & each $p1.Properties => @make.2[$k($p1.Properties)] = $v($p1.Properties)";
  "($p0 != nil) & ($p0.AdditionalProperties != nil) & ($p0.Type == ""object"") & ($p1.AdditionalProperties != nil) & ($p1.Type == ""object"") => let @Schema";
  "($p0 != nil) & ($p0.Type != ""object"") & ($p1.Type == ""object"") => return $p1";
  "($p0 != nil) & ($p0.Type == ""object"") & ($p1.Type == ""object"") & each $p0.Properties => @make.2[$k($p0.Properties)] = $v($p0.Properties)";
  "($p0 != nil) & ($p0.Type == ""object"") & ($p1.Type == ""object"") & each $p1.Properties & ok(@make.2[$k($p1.Properties)]) => @make.2[$k($p1.Properties)] = mergedSchema(@make.2[$k($p1.Properties)].Schema(), $v($p1.Properties))";
  "($p0 != nil) & ($p0.Type == ""object"") & ($p1.Type == ""object"") => %[make([]string, 0, (len($p0.Required) + len($p1.Required)))] = make([]string, 0, (len($p0.Required) + len($p1.Required)))";
  "($p0 != nil) & ($p0.Type == ""object"") & ($p1.Type == ""object"") => let @make.1";
  "($p0 != nil) & ($p0.Type == ""object"") & ($p1.Type == ""object"") => let @make.2";
  "($p0 != nil) & ($p0.Type == ""object"") & ($p1.Type == ""object"") => return schema.Object().Properties(@make.2).Required(%[make([]string, 0, (len($p0.Required) + len($p1.Required)))]...).AdditionalProperties(ite(($p0.AdditionalProperties != nil), ite(($p1.AdditionalProperties == nil), $p0.AdditionalProperties, @Schema), $p1.AdditionalProperties)).Schema()";
  "($p0 != nil) & ($p0.Type == ""object"") & ($p1.Type == ""object"") => sort.Strings(%[make([]string, 0, (len($p0.Required) + len($p1.Required)))])";
  "(($p0 == nil) || ($p1.Type != ""object"")) => return $p1";
  "where @Schema := schema.Always().Schema()";
  "where @make.1 := make(map[string]struct{}, (len($p0.Required) + len($p1.Required)))";
  "where @make.2 := make(schema.SchemaMap, ite((len($p0.Properties) < len($p1.Properties)), len($p1.Properties), len($p0.Properties)))"
].
Definition exp_evaluate_expr : list string := [
  "func (*evalContext) evaluateExpr(*expr) (*value)";
  "$p0.repr.(type) is *arrayExpr => let @evaluateArray";
  "$p0.repr.(type) is *fromBase64Expr => let @evaluateBuiltinFromBase64";
  "$p0.repr.(type) is *fromJSONExpr => let @evaluateBuiltinFromJSON";
  "$p0.repr.(type) is *interpolateExpr => let @evaluateInterpolate";
  "$p0.repr.(type) is *joinExpr => let @evaluateBuiltinJoin";
  "$p0.repr.(type) is *literalExpr & $p0.repr.syntax().(type) is *ast.BooleanExpr => let @value.1";
  "$p0.repr.(type) is *literalExpr & $p0.repr.syntax().(type) is *ast.NullExpr => let @value.2";
  "$p0.repr.(type) is *literalExpr & $p0.repr.syntax().(type) is *ast.NumberExpr => let @value.1";
  "$p0.repr.(type) is *literalExpr & $p0.repr.syntax().(type) is *ast.StringExpr => let @value.1";
  "$p0.repr.(type) is *missingExpr => let @value.3";
  "$p0.repr.(type) is *objectExpr => let @evaluateObject";
  "$p0.repr.(type) is *openExpr => let @evaluateBuiltinOpen";
  "$p0.repr.(type) is *secretExpr => let @evaluateBuiltinSecret";
  "$p0.repr.(type) is *symbolExpr => let @evaluatePropertyAccess";
  "$p0.repr.(type) is *toBase64Expr => let @evaluateBuiltinToBase64";
  "$p0.repr.(type) is *toJSONExpr => let @evaluateBuiltinToJSON";
  "$p0.repr.(type) is *toStringExpr => let @evaluateBuiltinToString";
  "$p0.repr.(type) is default => panic(fmt.Sprintf(""fatal: invalid expr type %T"", $p0.repr.(type)))";
  "$p0.secret => sw($p0.repr.(type)){*arrayExpr: @evaluateArray | *fromBase64Expr: @evaluateBuiltinFromBase64 | *fromJSONExpr: @evaluateBuiltinFromJSON | *interpolateExpr: @evaluateInterpolate | *joinExpr: @evaluateBuiltinJoin | *literalExpr: sw($p0.repr.syntax().(type)){*ast.BooleanExpr: @value.1 | *ast.NullExpr: @value.2 | *ast.NumberExpr: @value.1 | *ast.StringExpr: @value.1 | default: (*value)(nil)} | *missingExpr: @value.3 | *objectExpr: @evaluateObject | *openExpr: @evaluateBuiltinOpen | *secretExpr: @evaluateBuiltinSecret | *symbolExpr: @evaluatePropertyAccess | *toBase64Expr: @evaluateBuiltinToBase64 | *toJSONExpr: @evaluateBuiltinToJSON | *toStringExpr: @evaluateBuiltinToString}.secret = true";
  "$p0.state is default => $p0.state = exprEvaluating";
  "$p0.state is default => defer func{$p0.state = exprDone}()";
  "$p0.state is exprDone => return $p0.value";
  "$p0.state is exprEvaluating => diag";
  "$p0.state is exprEvaluating => return &value{def: $p0, schema: schema.Always().Schema(), unknown: true}";
  "=> $p0.schema = sw($p0.repr.(type)){*arrayExpr: @evaluateArray | *fromBase64Expr: @evaluateBuiltinFromBase64 | *fromJSONExpr: @evaluateBuiltinFromJSON | *interpolateExpr: @evaluateInterpolate | *joinExpr: @evaluateBuiltinJoin | *literalExpr: sw($p0.repr.syntax().(type)){*ast.BooleanExpr: @value.1 | *ast.NullExpr: @value.2 | *ast.NumberExpr: @value.1 | *ast.StringExpr: @value.1 | default: (*value)(nil)} | *missingExpr: @value.3 | *objectExpr: @evaluateObject | *openExpr: @evaluateBuiltinOpen | *secretExpr: @evaluateBuiltinSecret | *symbolExpr: @evaluatePropertyAccess | *toBase64Expr: @evaluateBuiltinToBase64 | *toJSONExpr: @evaluateBuiltinToJSON | *toStringExpr: @evaluateBuiltinToString}.schema";
  "=> $p0.value = sw($p0.repr.(type)){*arrayExpr: @evaluateArray | *fromBase64Expr: @evaluateBuiltinFromBase64 | *fromJSONExpr: @evaluateBuiltinFromJSON | *interpolateExpr: @evaluateInterpolate | *joinExpr: @evaluateBuiltinJoin | *literalExpr: sw($p0.repr.syntax().(type)){*ast.BooleanExpr: @value.1 | *ast.NullExpr: @value.2 | *ast.NumberExpr: @value.1 | *ast.StringExpr: @value.1 | default: (*value)(nil)} | *missingExpr: @value.3 | *objectExpr: @evaluateObject | *openExpr: @evaluateBuiltinOpen | *secretExpr: @evaluateBuiltinSecret | *symbolExpr: @evaluatePropertyAccess | *toBase64Expr: @evaluateBuiltinToBase64 | *toJSONExpr: @evaluateBuiltinToJSON | *toStringExpr: @evaluateBuiltinToString}";
  "=> return sw($p0.repr.(type)){*arrayExpr: @evaluateArray | *fromBase64Expr: @evaluateBuiltinFromBase64 | *fromJSONExpr: @evaluateBuiltinFromJSON | *interpolateExpr: @evaluateInterpolate | *joinExpr: @evaluateBuiltinJoin | *literalExpr: sw($p0.repr.syntax().(type)){*ast.BooleanExpr: @value.1 | *ast.NullExpr: @value.2 | *ast.NumberExpr: @value.1 | *ast.StringExpr: @value.1 | default: (*value)(nil)} | *missingExpr: @value.3 | *objectExpr: @evaluateObject | *openExpr: @evaluateBuiltinOpen | *secretExpr: @evaluateBuiltinSecret | *symbolExpr: @evaluatePropertyAccess | *toBase64Expr: @evaluateBuiltinToBase64 | *toJSONExpr: @evaluateBuiltinToJSON | *toStringExpr: @evaluateBuiltinToString}";
  "=> sw($p0.repr.(type)){*arrayExpr: @evaluateArray | *fromBase64Expr: @evaluateBuiltinFromBase64 | *fromJSONExpr: @evaluateBuiltinFromJSON | *interpolateExpr: @evaluateInterpolate | *joinExpr: @evaluateBuiltinJoin | *literalExpr: sw($p0.repr.syntax().(type)){*ast.BooleanExpr: @value.1 | *ast.NullExpr: @value.2 | *ast.NumberExpr: @value.1 | *ast.StringExpr: @value.1 | default: (*value)(nil)} | *missingExpr: @value.3 | *objectExpr: @evaluateObject | *openExpr: @evaluateBuiltinOpen | *secretExpr: @evaluateBuiltinSecret | *symbolExpr: @evaluatePropertyAccess | *toBase64Expr: @evaluateBuiltinToBase64 | *toJSONExpr: @evaluateBuiltinToJSON | *toStringExpr: @evaluateBuiltinToString}.merge($p0.base)";
  "where @evaluateArray := $r.evaluateArray($p0, $p0.repr.(type))";
  "where @evaluateBuiltinFromBase64 := $r.evaluateBuiltinFromBase64($p0, $p0.repr.(type))";
  "where @evaluateBuiltinFromJSON := $r.evaluateBuiltinFromJSON($p0, $p0.repr.(type))";
  "where @evaluateBuiltinJoin := $r.evaluateBuiltinJoin($p0, $p0.repr.(type))";
  "where @evaluateBuiltinOpen := $r.evaluateBuiltinOpen($p0, $p0.repr.(type))";
  "where @evaluateBuiltinSecret := $r.evaluateBuiltinSecret($p0, $p0.repr.(type))";
  "where @evaluateBuiltinToBase64 := $r.evaluateBuiltinToBase64($p0, $p0.repr.(type))";
  "where @evaluateBuiltinToJSON := $r.evaluateBuiltinToJSON($p0, $p0.repr.(type))";
  "where @evaluateBuiltinToString := $r.evaluateBuiltinToString($p0, $p0.repr.(type))";
  "where @evaluateInterpolate := $r.evaluateInterpolate($p0, $p0.repr.(type))";
  "where @evaluateObject := $r.evaluateObject($p0, $p0.repr.(type))";
  "where @evaluatePropertyAccess := $r.evaluatePropertyAccess($p0, $p0.repr.(type).property.accessors)";
  "where @value.1 := &value{def: $p0, repr: $p0.repr.syntax().(type).Value, schema: $p0.schema}";
  "where @value.2 := &value{def: $p0, repr: nil, schema: $p0.schema}";
  "where @value.3 := &value{def: $p0, schema: $p0.schema, unknown: true}"
].
Definition exp_property_access : list string := [
  "func (*evalContext) evaluatePropertyAccess(*expr, []*propertyAccessor) (*value)";
  "=> @copy.def = $p0";
  "=> let @copy";
  "=> return @copy";
  "where @copy := newCopier().copy($r.evaluateExprAccess($p0, $p1))"
].
Definition exp_expr_access : list string := [
  "func (*evalContext) evaluateExprAccess(*expr, []*propertyAccessor) (*value)";
  "!%[$r.root].base.isObject() & !(@objectKey.1#1 && (@objectKey.1#0 == ""context"")) & !(@objectKey.1#1 && (@objectKey.1#0 == ""imports"")) & !ok(%[$r.root].repr.(type).properties[@objectKey.2#0]) & %[$r.root].repr.(type) is *objectExpr & (%[$r.root] != nil) & while (len(%p1) > 0) & @objectKey.2#1 => diag";
  "!%[$r.root].base.isObject() & !(@objectKey.1#1 && (@objectKey.1#0 == ""context"")) & !(@objectKey.1#1 && (@objectKey.1#0 == ""imports"")) & !ok(%[$r.root].repr.(type).properties[@objectKey.2#0]) & %[$r.root].repr.(type) is *objectExpr & (%[$r.root] != nil) & while (len(%p1) > 0) & @objectKey.2#1 => return $r.invalidPropertyAccess($p0.repr.syntax(), %p1)";
  "!(@objectKey.1#1 && (@objectKey.1#0 == ""context"")) & !(@objectKey.1#1 && (@objectKey.1#0 == ""imports"")) & !@arrayIndex#1 & %[$r.root].repr.(type) is *arrayExpr & (%[$r.root] != nil) & while (len(%p1) > 0) => return $r.invalidPropertyAccess($p0.repr.syntax(), %p1)";
  "!(@objectKey.1#1 && (@objectKey.1#0 == ""context"")) & !(@objectKey.1#1 && (@objectKey.1#0 == ""imports"")) & !@objectKey.2#1 & %[$r.root].repr.(type) is *objectExpr & (%[$r.root] != nil) & while (len(%p1) > 0) => return $r.invalidPropertyAccess($p0.repr.syntax(), %p1)";
  "!(@objectKey.1#1 && (@objectKey.1#0 == ""context"")) & !(@objectKey.1#1 && (@objectKey.1#0 == ""imports"")) & !ok(%[$r.root].repr.(type).properties[@objectKey.2#0]) & %[$r.root].base.isObject() & %[$r.root].repr.(type) is *objectExpr & (%[$r.root] != nil) & while (len(%p1) > 0) & @objectKey.2#1 => return $r.evaluateValueAccess($p0.repr.syntax(), %[$r.root].base, %p1)";
  "!(@objectKey.1#1 && (@objectKey.1#0 == ""context"")) & !(@objectKey.1#1 && (@objectKey.1#0 == ""imports"")) & %[$r.root].repr.(type) is *arrayExpr & (%[$r.root] != nil) & while (len(%p1) > 0) & @arrayIndex#1 => %[$r.root] = %[$r.root].repr.(type).elements[@arrayIndex#0]";
  "!(@objectKey.1#1 && (@objectKey.1#0 == ""context"")) & !(@objectKey.1#1 && (@objectKey.1#0 == ""imports"")) & %[$r.root].repr.(type) is *arrayExpr & (%[$r.root] != nil) & while (len(%p1) > 0) => let @arrayIndex";
  "!(@objectKey.1#1 && (@objectKey.1#0 == ""context"")) & !(@objectKey.1#1 && (@objectKey.1#0 == ""imports"")) & %[$r.root].repr.(type) is *objectExpr & (%[$r.root] != nil) & ok(%[$r.root].repr.(type).properties[@objectKey.2#0]) & while (len(%p1) > 0) & @objectKey.2#1 => %[$r.root] = %[$r.root].repr.(type).properties[@objectKey.2#0]";
  "!(@objectKey.1#1 && (@objectKey.1#0 == ""context"")) & !(@objectKey.1#1 && (@objectKey.1#0 == ""imports"")) & %[$r.root].repr.(type) is *objectExpr & (%[$r.root] != nil) & while (len(%p1) > 0) => let @objectKey.2";
  "!(@objectKey.1#1 && (@objectKey.1#0 == ""context"")) & !(@objectKey.1#1 && (@objectKey.1#0 == ""imports"")) & %[$r.root].repr.(type) is *secretExpr & (%[$r.root] != nil) & while (len(%p1) > 0) => %[$r.root] = %[$r.root].repr.(type).plaintext";
  "!(@objectKey.1#1 && (@objectKey.1#0 == ""context"")) & !(@objectKey.1#1 && (@objectKey.1#0 == ""imports"")) & %[$r.root].repr.(type) is *secretExpr & (%[$r.root] != nil) & while (len(%p1) > 0) => continue";
  "!(@objectKey.1#1 && (@objectKey.1#0 == ""context"")) & !(@objectKey.1#1 && (@objectKey.1#0 == ""imports"")) & %[$r.root].repr.(type) is default & (%[$r.root] != nil) & while (len(%p1) > 0) => return $r.evaluateValueAccess($p0.repr.syntax(), $r.evaluateExpr(%[$r.root]), %p1)";
  "!(@objectKey.1#1 && (@objectKey.1#0 == ""context"")) & !(@objectKey.1#1 && (@objectKey.1#0 == ""imports"")) & (%[$r.root] != nil) & while (len(%p1) > 0) => par{%p1 = %p1[1:] | %p1[0].value = &value{base: %[$r.root].base, def: %[$r.root], schema: %[$r.root].schema}}";
  "!(@objectKey.1#1 && (@objectKey.1#0 == ""context"")) & !(@objectKey.1#1 && (@objectKey.1#0 == ""imports"")) & (%[$r.root] == nil) & while (len(%p1) > 0) => diag";
  "!(@objectKey.1#1 && (@objectKey.1#0 == ""context"")) & !(@objectKey.1#1 && (@objectKey.1#0 == ""imports"")) & (%[$r.root] == nil) & while (len(%p1) > 0) => return $r.invalidPropertyAccess($p0.repr.syntax(), %p1)";
  "!(@objectKey.1#1 && (@objectKey.1#0 == ""context"")) & !(@objectKey.1#1 && (@objectKey.1#0 == ""imports"")) => return $r.evaluateExpr(%[$r.root])";
  "!(@objectKey.1#1 && (@objectKey.1#0 == ""imports"")) & (@objectKey.1#0 == ""context"") & @objectKey.1#1 => %p1[0].value = $r.myContext";
  "!(@objectKey.1#1 && (@objectKey.1#0 == ""imports"")) & (@objectKey.1#0 == ""context"") & @objectKey.1#1 => return $r.evaluateValueAccess($p0.repr.syntax(), $r.myContext, %p1[1:])";
  "(@objectKey.1#0 == ""imports"") & @objectKey.1#1 => %p1[0].value = $r.myImports";
  "(@objectKey.1#0 == ""imports"") & @objectKey.1#1 => return $r.evaluateValueAccess($p0.repr.syntax(), $r.myImports, %p1[1:])";
  "=> %[$r.root] = $r.root";
  "=> let @objectKey.1";
  "where @arrayIndex := $r.arrayIndex($p0.repr.syntax(), %p1[0].accessor, len(%[$r.root].repr.(type).elements))";
  "where @objectKey.1 := $r.objectKey($p0.repr.syntax(), %p1[0].accessor, false)";
  "where @objectKey.2 := $r.objectKey($p0.repr.syntax(), %p1[0].accessor, true)"
].
Definition exp_value_access : list string := [
  "func (*evalContext) evaluateValueAccess(ast.Expr, *value, []*propertyAccessor) (*value)";
  "!%p1.base.isObject() & !%p1.unknown & !ok(%p1.repr.(type)[@objectKey#0]) & %p1.repr.(type) is map[string]*value & while (len(%p2) > 0) & @objectKey#1 => diag";
  "!%p1.base.isObject() & !%p1.unknown & !ok(%p1.repr.(type)[@objectKey#0]) & %p1.repr.(type) is map[string]*value & while (len(%p2) > 0) & @objectKey#1 => return $r.invalidPropertyAccess($p0, %p2)";
  "!%p1.unknown & !@arrayIndex#1 & %p1.repr.(type) is []*value & while (len(%p2) > 0) => return $r.invalidPropertyAccess($p0, %p2)";
  "!%p1.unknown & !@objectKey#1 & %p1.repr.(type) is map[string]*value & while (len(%p2) > 0) => return $r.invalidPropertyAccess($p0, %p2)";
  "!%p1.unknown & !ok(%p1.repr.(type)[@objectKey#0]) & %p1.base.isObject() & %p1.repr.(type) is map[string]*value & while (len(%p2) > 0) & @objectKey#1 => return $r.evaluateValueAccess($p0, %p1.base, %p2)";
  "!%p1.unknown & %p1.repr.(type) is []*value & while (len(%p2) > 0) & @arrayIndex#1 => %p1 = %p1.repr.(type)[@arrayIndex#0]";
  "!%p1.unknown & %p1.repr.(type) is []*value & while (len(%p2) > 0) => let @arrayIndex";
  "!%p1.unknown & %p1.repr.(type) is default & while (len(%p2) > 0) => diag";
  "!%p1.unknown & %p1.repr.(type) is default & while (len(%p2) > 0) => return $r.invalidPropertyAccess($p0, %p2)";
  "!%p1.unknown & %p1.repr.(type) is map[string]*value & ok(%p1.repr.(type)[@objectKey#0]) & while (len(%p2) > 0) & @objectKey#1 => %p1 = %p1.repr.(type)[@objectKey#0]";
  "!%p1.unknown & %p1.repr.(type) is map[string]*value & while (len(%p2) > 0) => let @objectKey";
  "!%p1.unknown & while (len(%p2) > 0) => par{%p2 = %p2[1:] | %p2[0].value = %p1}";
  "%p1.unknown & while (len(%p2) > 0) => return $r.evaluateUnknownAccess($p0, %p1.schema, %p2)";
  "=> return %p1";
  "where @arrayIndex := $r.arrayIndex($p0, %p2[0].accessor, len(%p1.repr.(type)))";
  "where @objectKey := $r.objectKey($p0, %p2[0].accessor, true)"
].
Definition exp_unknown_access : list string := [
  "func (*evalContext) evaluateUnknownAccess(ast.Expr, *schema.Schema, []*propertyAccessor) (*value)";
  "!%p1.Always & !@arrayIndex#1 & %p1.Type is ""array"" & while (len(%p2) > 0) => return $r.invalidPropertyAccess($p0, %p2)";
  "!%p1.Always & !@objectKey#1 & %p1.Type is ""object"" & while (len(%p2) > 0) => return $r.invalidPropertyAccess($p0, %p2)";
  "!%p1.Always & %p1.Type is ""array"" & while (len(%p2) > 0) & @arrayIndex#1 => %p1 = %p1.Item(@arrayIndex#0)";
  "!%p1.Always & %p1.Type is ""array"" & while (len(%p2) > 0) => let @arrayIndex";
  "!%p1.Always & %p1.Type is ""object"" & while (len(%p2) > 0) & @objectKey#1 => %p1 = %p1.Property(@objectKey#0)";
  "!%p1.Always & %p1.Type is ""object"" & while (len(%p2) > 0) => let @objectKey";
  "!%p1.Always & %p1.Type is default & while (len(%p2) > 0) => diag";
  "!%p1.Always & %p1.Type is default & while (len(%p2) > 0) => return $r.invalidPropertyAccess($p0, %p2)";
  "=> return %[zero(*value)]";
  "while (len(%p2) > 0) => %[zero(*value)] = &value{def: &expr{repr: &literalExpr{node: $p0}, state: exprDone}, schema: %p1, unknown: true}";
  "while (len(%p2) > 0) => par{%p2 = %p2[1:] | %p2[0].value = %[zero(*value)]}";
  "where @arrayIndex := $r.arrayIndex($p0, %p2[0].accessor, ite(((%p1.Items != nil) && %p1.Items.Never), len(%p1.PrefixItems), -1))";
  "where @objectKey := $r.objectKey($p0, %p2[0].accessor, true)"
].
Definition exp_invalid_access : list string := [
  "func (*evalContext) invalidPropertyAccess(ast.Expr, []*propertyAccessor) (*value)";
  "=> return $p1[(len($p1) - 1)].value";
  "each $p1 => $v($p1).value = &value{def: &expr{repr: &literalExpr{node: $p0}, state: exprDone}, schema: schema.Always().Schema(), unknown: true}"
].
Definition exp_array_index : list string := [
  "func (*evalContext) arrayIndex(ast.Expr, ast.PropertyAccessor, int) (int, bool)";
  "!(($p2 >= 0) && ($p1.(*ast.PropertySubscript).Index.(int) >= $p2)) & ($p1.(*ast.PropertySubscript).Index.(int) >= 0) & ok($p1.(*ast.PropertySubscript)) & ok($p1.(*ast.PropertySubscript).Index.(int)) => return $p1.(*ast.PropertySubscript).Index.(int), true";
  "!ok($p1.(*ast.PropertySubscript)) => diag";
  "!ok($p1.(*ast.PropertySubscript)) => return 0, false";
  "!ok($p1.(*ast.PropertySubscript).Index.(int)) & ok($p1.(*ast.PropertySubscript)) => diag";
  "!ok($p1.(*ast.PropertySubscript).Index.(int)) & ok($p1.(*ast.PropertySubscript)) => return 0, false";
  "($p1.(*ast.PropertySubscript).Index.(int) < 0) & ok($p1.(*ast.PropertySubscript)) & ok($p1.(*ast.PropertySubscript).Index.(int)) => diag";
  "($p1.(*ast.PropertySubscript).Index.(int) < 0) & ok($p1.(*ast.PropertySubscript)) & ok($p1.(*ast.PropertySubscript).Index.(int)) => return 0, false";
  "($p1.(*ast.PropertySubscript).Index.(int) >= $p2) & ($p1.(*ast.PropertySubscript).Index.(int) >= 0) & ($p2 >= 0) & ok($p1.(*ast.PropertySubscript)) & ok($p1.(*ast.PropertySubscript).Index.(int)) => diag";
  "($p1.(*ast.PropertySubscript).Index.(int) >= $p2) & ($p1.(*ast.PropertySubscript).Index.(int) >= 0) & ($p2 >= 0) & ok($p1.(*ast.PropertySubscript)) & ok($p1.(*ast.PropertySubscript).Index.(int)) => return 0, false"
].
Definition exp_object_key : list string := [
  "func (*evalContext) objectKey(ast.Expr, ast.PropertyAccessor, bool) (string, bool)";
  "!ok($p1.(type).Index.(string)) & $p1.(type) is *ast.PropertySubscript & $p2 => diag";
  "!ok($p1.(type).Index.(string)) & $p1.(type) is *ast.PropertySubscript => return """", false";
  "$p1.(type) is *ast.PropertyName => return $p1.(type).Name, true";
  "$p1.(type) is *ast.PropertySubscript & ok($p1.(type).Index.(string)) => return $p1.(type).Index.(string), true";
  "$p1.(type) is default => panic(fmt.Errorf(_, $p1))"
].
Definition exp_evaluate_import : list string := [
  "func (*evalContext) evaluateImport(map[string]*value, *ast.ImportDecl)";
  "!$r.imports[$p1.Environment.Value].evaluating & $r.imports[$p1.Environment.Value].failed & ($p1.Environment != nil) & ok($r.imports[$p1.Environment.Value]) => return";
  "!ok($r.imports[$p1.Environment.Value]) & ($p1.Environment != nil) & (@LoadEnvironment#2 != nil) => $r.imports[$p1.Environment.Value] = &imported{failed: true}";
  "!ok($r.imports[$p1.Environment.Value]) & ($p1.Environment != nil) & (@LoadEnvironment#2 != nil) => diag";
  "!ok($r.imports[$p1.Environment.Value]) & ($p1.Environment != nil) & (@LoadEnvironment#2 != nil) => return";
  "!ok($r.imports[$p1.Environment.Value]) & ($p1.Environment != nil) & (@LoadEnvironment#2 == nil) & (@LoadYAMLBytes#0 != nil) & (@LoadYAMLBytes#2 == nil) => $r.diags.Extend(@evaluate#1...)";
  "!ok($r.imports[$p1.Environment.Value]) & ($p1.Environment != nil) & (@LoadEnvironment#2 == nil) & (@LoadYAMLBytes#0 != nil) & (@LoadYAMLBytes#2 == nil) => $r.imports[$p1.Environment.Value].value = @evaluate#0";
  "!ok($r.imports[$p1.Environment.Value]) & ($p1.Environment != nil) & (@LoadEnvironment#2 == nil) & (@LoadYAMLBytes#0 != nil) & (@LoadYAMLBytes#2 == nil) => let @evaluate";
  "!ok($r.imports[$p1.Environment.Value]) & ($p1.Environment != nil) & (@LoadEnvironment#2 == nil) & (@LoadYAMLBytes#0 == nil) & (@LoadYAMLBytes#2 == nil) => $r.imports[$p1.Environment.Value] = &imported{failed: true}";
  "!ok($r.imports[$p1.Environment.Value]) & ($p1.Environment != nil) & (@LoadEnvironment#2 == nil) & (@LoadYAMLBytes#0 == nil) & (@LoadYAMLBytes#2 == nil) => return";
  "!ok($r.imports[$p1.Environment.Value]) & ($p1.Environment != nil) & (@LoadEnvironment#2 == nil) & (@LoadYAMLBytes#2 != nil) => $r.imports[$p1.Environment.Value] = &imported{failed: true}";
  "!ok($r.imports[$p1.Environment.Value]) & ($p1.Environment != nil) & (@LoadEnvironment#2 == nil) & (@LoadYAMLBytes#2 != nil) => diag";
  "!ok($r.imports[$p1.Environment.Value]) & ($p1.Environment != nil) & (@LoadEnvironment#2 == nil) & (@LoadYAMLBytes#2 != nil) => return";
  "!ok($r.imports[$p1.Environment.Value]) & ($p1.Environment != nil) & (@LoadEnvironment#2 == nil) => $r.diags.Extend(@LoadYAMLBytes#1...)";
  "!ok($r.imports[$p1.Environment.Value]) & ($p1.Environment != nil) & (@LoadEnvironment#2 == nil) => let @LoadYAMLBytes";
  "!ok($r.imports[$p1.Environment.Value]) & ($p1.Environment != nil) => let @LoadEnvironment";
  "$r.imports[$p1.Environment.Value].evaluating & ($p1.Environment != nil) & ok($r.imports[$p1.Environment.Value]) => $r.diags.Extend(diag)";
  "$r.imports[$p1.Environment.Value].evaluating & ($p1.Environment != nil) & ok($r.imports[$p1.Environment.Value]) => return";
  "($p1.Environment != nil) & ite((($p1.Meta != nil) && ($p1.Meta.Merge != nil)), $p1.Meta.Merge.Value, true) => $r.base = @copy";
  "($p1.Environment != nil) & ite((($p1.Meta != nil) && ($p1.Meta.Merge != nil)), $p1.Meta.Merge.Value, true) => @copy.merge($r.base)";
  "($p1.Environment != nil) & ite((($p1.Meta != nil) && ($p1.Meta.Merge != nil)), $p1.Meta.Merge.Value, true) => let @copy";
  "($p1.Environment != nil) => $p0[$p1.Environment.Value] = ite(ok($r.imports[$p1.Environment.Value]), $r.imports[$p1.Environment.Value].value, @evaluate#0)";
  "($p1.Environment == nil) => return";
  "where @LoadEnvironment := $r.environments.LoadEnvironment($r.ctx, $p1.Environment.Value)";
  "where @LoadYAMLBytes := LoadYAMLBytes($p1.Environment.Value, @LoadEnvironment#0)";
  "where @copy := newCopier().copy(ite(ok($r.imports[$p1.Environment.Value]), $r.imports[$p1.Environment.Value].value, @evaluate#0))";
  "where @evaluate := newEvalContext($r.ctx, $r.validating, $p1.Environment.Value, @LoadYAMLBytes#0, @LoadEnvironment#1, $r.providers, $r.environments, $r.imports, $r.execContext, $r.showSecrets).evaluate()"
].
Definition exp_evaluate_imports : list string := [
  "func (*evalContext) evaluateImports()";
  "=> $r.imports[$r.name] = @imported";
  "=> $r.myImports = @value.1";
  "=> @declare.value = @value.1";
  "=> defer func{@imported.evaluating = false}()";
  "=> let @Schema";
  "=> let @declare";
  "=> let @imported";
  "=> let @make";
  "=> let @value.1";
  "=> let @value.2";
  "=> par{@declare.schema = @Schema | @declare.state = exprDone}";
  "each $r.env.Imports.GetElements() => $r.evaluateImport(@value.2, $v($r.env.Imports.GetElements()))";
  "each @value.2 => @make[$k(@value.2)] = $v(@value.2).schema";
  "where @Schema := schema.Record(@make).Schema()";
  "where @declare := declare($r, """", ast.Symbol(&ast.PropertyName{Name: ""imports""}), nil)";
  "where @imported := &imported{evaluating: true}";
  "where @make := make(schema.SchemaMap, len(@value.2))";
  "where @value.1 := &value{def: @declare, repr: @value.2, schema: @Schema}";
  "where @value.2 := map[string]*value{}"
].
Definition exp_new_eval_context : list string := [
  "func newEvalContext(context.Context, bool, string, *ast.EnvironmentDecl, Decrypter, ProviderLoader, EnvironmentLoader, map[string]*imported, *esc.ExecContext, bool) (*evalContext)";
  "=> return &evalContext{ctx: $p0, decrypter: $p4, env: $p3, environments: $p6, execContext: $p8.CopyForEnv($p2), imports: $p7, name: $p2, providers: $p5, showSecrets: $p9, validating: $p1}"
].
Definition exp_copy_for_env : list string := [
  "func (*ExecContext) CopyForEnv(string) (*ExecContext)";
  "=> @copyContext[""currentEnvironment""] = NewValue(map[string]Value{""name"": NewValue($p0)})";
  "=> @copyContext[""rootEnvironment""] = NewValue(map[string]Value{""name"": NewValue(ite((($r.rootEnvironment == AnonymousEnvironmentName) || ($r.rootEnvironment == """")), $p0, $r.rootEnvironment))})";
  "=> let @copyContext";
  "=> return &ExecContext{currentEnvironment: $p0, rootEnvironment: ite((($r.rootEnvironment == AnonymousEnvironmentName) || ($r.rootEnvironment == """")), $p0, $r.rootEnvironment), values: @copyContext}";
  "where @copyContext := copyContext($r.values)"
].
Definition exp_evaluate : list string := [
  "func (*evalContext) evaluate() (*value, syntax.Diagnostics)";
  "!$r.isReserveTopLevelKey(@GetValue) & !ok(@make[@GetValue]) & each $r.env.Values.GetEntries() => @make[@GetValue] = declare($r, @GetValue, $v($r.env.Values.GetEntries()).Value, $r.base.property($v($r.env.Values.GetEntries()).Key, @GetValue))";
  "!$r.isReserveTopLevelKey(@GetValue) & each $r.env.Values.GetEntries() & ok(@make[@GetValue]) => diag";
  "$r.isReserveTopLevelKey(@GetValue) & each $r.env.Values.GetEntries() => diag";
  "=> $r.evaluateContext()";
  "=> $r.evaluateImports()";
  "=> $r.root = &expr{base: $r.base, path: ((""<"" + $r.name) + "">""), repr: &objectExpr{node: ast.Object(), properties: @make}}";
  "=> let @make";
  "=> return $r.evaluateExpr($r.root), $r.diags";
  "each $r.env.Values.GetEntries() => let @GetValue";
  "where @GetValue := $v($r.env.Values.GetEntries()).Key.GetValue()";
  "where @make := make(map[string]*expr, len($r.env.Values.GetEntries()))"
].
Definition exp_evaluate_context : list string := [
  "func (*evalContext) evaluateContext()";
  "=> $r.myContext = unexport(esc.NewValue($r.execContext.Values()), declare($r, """", ast.Symbol(&ast.PropertyName{Name: ""context""}), nil))"
].
Definition exp_declare : list string := [
  "func declare(*evalContext, string, Expr, *value) (*expr)";
  "!ok(@make.5[$v(any($p2).(type).Entries).Key.Value]) & ($p2 != %[zero(Expr)]) & any($p2).(type) is *ast.ObjectExpr & each any($p2).(type).Entries => @make.5[$v(any($p2).(type).Entries).Key.Value] = declare($p0, util.JoinKey($p1, $v(any($p2).(type).Entries).Key.Value), $v(any($p2).(type).Entries).Value, $p3.property($v(any($p2).(type).Entries).Key, $v(any($p2).(type).Entries).Key.Value))";
  "($p2 != %[zero(Expr)]) & ($v(any($p2).(type).Parts).Value != nil) & any($p2).(type) is *ast.InterpolateExpr & each $v(any($p2).(type).Parts).Value.Accessors & each any($p2).(type).Parts => @make.2[$k($v(any($p2).(type).Parts).Value.Accessors)] = &propertyAccessor{accessor: $v($v(any($p2).(type).Parts).Value.Accessors)}";
  "($p2 != %[zero(Expr)]) & ($v(any($p2).(type).Parts).Value != nil) & any($p2).(type) is *ast.InterpolateExpr & each any($p2).(type).Parts => let @make.2";
  "($p2 != %[zero(Expr)]) & ($v(any($p2).(type).Parts).Value != nil) & any($p2).(type) is *ast.InterpolateExpr & each any($p2).(type).Parts => let @propertyAccess";
  "($p2 != %[zero(Expr)]) & (any($p2).(type).Plaintext != nil) & any($p2).(type) is *ast.SecretExpr => @secretExpr.2.plaintext.secret = true";
  "($p2 != %[zero(Expr)]) & (any($p2).(type).Plaintext != nil) & any($p2).(type) is *ast.SecretExpr => let @secretExpr.2";
  "($p2 != %[zero(Expr)]) & (any($p2).(type).Plaintext != nil) & any($p2).(type) is *ast.SecretExpr => return newExpr($p1, @secretExpr.2, schema.String().Schema(), $p3)";
  "($p2 != %[zero(Expr)]) & (any($p2).(type).Plaintext == nil) & any($p2).(type) is *ast.SecretExpr => @secretExpr.1.ciphertext.secret = true";
  "($p2 != %[zero(Expr)]) & (any($p2).(type).Plaintext == nil) & any($p2).(type) is *ast.SecretExpr => let @secretExpr.1";
  "($p2 != %[zero(Expr)]) & (any($p2).(type).Plaintext == nil) & any($p2).(type) is *ast.SecretExpr => return newExpr($p1, @secretExpr.1, schema.String().Schema(), $p3)";
  "($p2 != %[zero(Expr)]) & any($p2).(type) is *ast.ArrayExpr & each any($p2).(type).Elements => @make.1[$k(any($p2).(type).Elements)] = declare($p0, fmt.Sprintf(""%v[%d]"", $p1, $k(any($p2).(type).Elements)), $v(any($p2).(type).Elements), nil)";
  "($p2 != %[zero(Expr)]) & any($p2).(type) is *ast.ArrayExpr => let @make.1";
  "($p2 != %[zero(Expr)]) & any($p2).(type) is *ast.ArrayExpr => return newExpr($p1, &arrayExpr{elements: @make.1, node: any($p2).(type)}, schema.Array().Items(schema.Always()).Schema(), $p3)";
  "($p2 != %[zero(Expr)]) & any($p2).(type) is *ast.BooleanExpr => return newExpr($p1, &literalExpr{node: any($p2).(type)}, schema.Boolean().Const(any($p2).(type).Value).Schema(), $p3)";
  "($p2 != %[zero(Expr)]) & any($p2).(type) is *ast.FromBase64Expr => return newExpr($p1, &fromBase64Expr{node: any($p2).(type), string: declare($p0, """", any($p2).(type).String, nil)}, schema.String().Schema(), $p3)";
  "($p2 != %[zero(Expr)]) & any($p2).(type) is *ast.FromJSONExpr => return newExpr($p1, &fromJSONExpr{node: any($p2).(type), string: declare($p0, """", any($p2).(type).String, nil)}, schema.Always(), $p3)";
  "($p2 != %[zero(Expr)]) & any($p2).(type) is *ast.InterpolateExpr & each any($p2).(type).Parts => @make.4[$k(any($p2).(type).Parts)] = interpolation{syntax: $v(any($p2).(type).Parts), value: ite(($v(any($p2).(type).Parts).Value != nil), @propertyAccess, zero(*propertyAccess))}";
  "($p2 != %[zero(Expr)]) & any($p2).(type) is *ast.InterpolateExpr => let @make.4";
  "($p2 != %[zero(Expr)]) & any($p2).(type) is *ast.InterpolateExpr => return newExpr($p1, &interpolateExpr{node: any($p2).(type), parts: @make.4}, schema.String().Schema(), $p3)";
  "($p2 != %[zero(Expr)]) & any($p2).(type) is *ast.JoinExpr => return newExpr($p1, &joinExpr{delimiter: declare($p0, """", any($p2).(type).Delimiter, nil), node: any($p2).(type), values: declare($p0, """", any($p2).(type).Values, nil)}, schema.String().Schema(), $p3)";
  "($p2 != %[zero(Expr)]) & any($p2).(type) is *ast.NullExpr => return newExpr($p1, &literalExpr{node: any($p2).(type)}, schema.Null().Schema(), $p3)";
  "($p2 != %[zero(Expr)]) & any($p2).(type) is *ast.NumberExpr => return newExpr($p1, &literalExpr{node: any($p2).(type)}, schema.Number().Const(any($p2).(type).Value).Schema(), $p3)";
  "($p2 != %[zero(Expr)]) & any($p2).(type) is *ast.ObjectExpr & each any($p2).(type).Entries & ok(@make.5[$v(any($p2).(type).Entries).Key.Value]) => diag";
  "($p2 != %[zero(Expr)]) & any($p2).(type) is *ast.ObjectExpr => let @make.5";
  "($p2 != %[zero(Expr)]) & any($p2).(type) is *ast.ObjectExpr => return newExpr($p1, &objectExpr{node: any($p2).(type), properties: @make.5}, schema.Object().AdditionalProperties(schema.Always()).Schema(), $p3)";
  "($p2 != %[zero(Expr)]) & any($p2).(type) is *ast.OpenExpr => return newExpr($p1, &openExpr{inputSchema: schema.Always().Schema(), inputs: declare($p0, """", any($p2).(type).Inputs, nil), node: any($p2).(type), provider: declare($p0, """", any($p2).(type).Provider, nil)}, schema.Always().Schema(), $p3)";
  "($p2 != %[zero(Expr)]) & any($p2).(type) is *ast.StringExpr => return newExpr($p1, &literalExpr{node: any($p2).(type)}, schema.String().Const(any($p2).(type).Value).Schema(), $p3)";
  "($p2 != %[zero(Expr)]) & any($p2).(type) is *ast.SymbolExpr & each any($p2).(type).Property.Accessors => @make.3[$k(any($p2).(type).Property.Accessors)] = &propertyAccessor{accessor: $v(any($p2).(type).Property.Accessors)}";
  "($p2 != %[zero(Expr)]) & any($p2).(type) is *ast.SymbolExpr => let @make.3";
  "($p2 != %[zero(Expr)]) & any($p2).(type) is *ast.SymbolExpr => return newExpr($p1, &symbolExpr{node: any($p2).(type), property: &propertyAccess{accessors: @make.3}}, schema.Always().Schema(), $p3)";
  "($p2 != %[zero(Expr)]) & any($p2).(type) is *ast.ToBase64Expr => return newExpr($p1, &toBase64Expr{node: any($p2).(type), value: declare($p0, """", any($p2).(type).Value, nil)}, schema.String().Schema(), $p3)";
  "($p2 != %[zero(Expr)]) & any($p2).(type) is *ast.ToJSONExpr => return newExpr($p1, &toJSONExpr{node: any($p2).(type), value: declare($p0, """", any($p2).(type).Value, nil)}, schema.String().Schema(), $p3)";
  "($p2 != %[zero(Expr)]) & any($p2).(type) is *ast.ToStringExpr => return newExpr($p1, &toStringExpr{node: any($p2).(type), value: declare($p0, """", any($p2).(type).Value, nil)}, schema.String().Schema(), $p3)";
  "($p2 != %[zero(Expr)]) & any($p2).(type) is default => panic(fmt.Sprintf(""fatal: invalid expr type %v"", reflect.TypeOf(any($p2).(type))))";
  "($p2 == %[zero(Expr)]) => return newMissingExpr($p1, $p3)";
  "where @make.1 := make([]*expr, len(any($p2).(type).Elements))";
  "where @make.2 := make([]*propertyAccessor, len($v(any($p2).(type).Parts).Value.Accessors))";
  "where @make.3 := make([]*propertyAccessor, len(any($p2).(type).Property.Accessors))";
  "where @make.4 := make([]interpolation, len(any($p2).(type).Parts))";
  "where @make.5 := make(map[string]*expr, len(any($p2).(type).Entries))";
  "where @propertyAccess := &propertyAccess{accessors: @make.2}";
  "where @secretExpr.1 := &secretExpr{ciphertext: declare($p0, """", any($p2).(type).Ciphertext, nil), node: any($p2).(type)}";
  "where @secretExpr.2 := &secretExpr{node: any($p2).(type), plaintext: declare($p0, """", any($p2).(type).Plaintext, nil)}"
].
Definition exp_builtin_open : list string := [
  "func (*evalContext) evaluateBuiltinOpen(*expr, *openExpr) (*value)";
  "!$r.validating & !@evaluateTypedExpr#0.containsUnknowns() & !@export#1 & ($p1.node.Provider != nil) & (@LoadProvider#1 == nil) & @evaluateTypedExpr#1 => @value.unknown = true";
  "!$r.validating & !@evaluateTypedExpr#0.containsUnknowns() & !@export#1 & ($p1.node.Provider != nil) & (@LoadProvider#1 == nil) & @evaluateTypedExpr#1 => diag";
  "!$r.validating & !@evaluateTypedExpr#0.containsUnknowns() & !@export#1 & ($p1.node.Provider != nil) & (@LoadProvider#1 == nil) & @evaluateTypedExpr#1 => return @value";
  "!$r.validating & !@evaluateTypedExpr#0.containsUnknowns() & ($p1.node.Provider != nil) & (@LoadProvider#1 == nil) & (@Open#1 != nil) & @evaluateTypedExpr#1 & @export#1 => @value.unknown = true";
  "!$r.validating & !@evaluateTypedExpr#0.containsUnknowns() & ($p1.node.Provider != nil) & (@LoadProvider#1 == nil) & (@Open#1 != nil) & @evaluateTypedExpr#1 & @export#1 => diag";
  "!$r.validating & !@evaluateTypedExpr#0.containsUnknowns() & ($p1.node.Provider != nil) & (@LoadProvider#1 == nil) & (@Open#1 != nil) & @evaluateTypedExpr#1 & @export#1 => return @value";
  "!$r.validating & !@evaluateTypedExpr#0.containsUnknowns() & ($p1.node.Provider != nil) & (@LoadProvider#1 == nil) & (@Open#1 == nil) & @evaluateTypedExpr#1 & @export#1 => return unexport(@Open#0, $p0)";
  "!$r.validating & !@evaluateTypedExpr#0.containsUnknowns() & ($p1.node.Provider != nil) & (@LoadProvider#1 == nil) & @evaluateTypedExpr#1 & @export#1 => let @Open";
  "!$r.validating & !@evaluateTypedExpr#0.containsUnknowns() & ($p1.node.Provider != nil) & (@LoadProvider#1 == nil) & @evaluateTypedExpr#1 => let @export";
  "($p1.node.Provider != nil) & (((!@evaluateTypedExpr#1 || @evaluateTypedExpr#0.containsUnknowns()) || $r.validating) || (@LoadProvider#1 != nil)) => @value.unknown = true";
  "($p1.node.Provider != nil) & (((!@evaluateTypedExpr#1 || @evaluateTypedExpr#0.containsUnknowns()) || $r.validating) || (@LoadProvider#1 != nil)) => return @value";
  "($p1.node.Provider != nil) & (@LoadProvider#1 != nil) => diag";
  "($p1.node.Provider != nil) & (@LoadProvider#1 == nil) & (@Compile.1 != nil) => diag";
  "($p1.node.Provider != nil) & (@LoadProvider#1 == nil) & (@Compile.1 == nil) => $p1.inputSchema = @Schema#0";
  "($p1.node.Provider != nil) & (@LoadProvider#1 == nil) & (@Compile.2 != nil) => diag";
  "($p1.node.Provider != nil) & (@LoadProvider#1 == nil) & (@Compile.2 == nil) => $p0.schema = @Schema#1";
  "($p1.node.Provider != nil) & (@LoadProvider#1 == nil) => let @Compile.1";
  "($p1.node.Provider != nil) & (@LoadProvider#1 == nil) => let @Compile.2";
  "($p1.node.Provider != nil) & (@LoadProvider#1 == nil) => let @Schema";
  "($p1.node.Provider != nil) => @value.schema = $p0.schema";
  "($p1.node.Provider != nil) => let @LoadProvider";
  "($p1.node.Provider != nil) => let @evaluateTypedExpr";
  "($p1.node.Provider == nil) => @value.schema = schema.Always()";
  "($p1.node.Provider == nil) => @value.unknown = true";
  "($p1.node.Provider == nil) => return @value";
  "=> let @value";
  "where @Compile.1 := @Schema#0.Compile()";
  "where @Compile.2 := @Schema#1.Compile()";
  "where @LoadProvider := $r.providers.LoadProvider($r.ctx, $p1.node.Provider.GetValue())";
  "where @Open := @LoadProvider#0.Open($r.ctx, @export#0, $r.execContext)";
  "where @Schema := @LoadProvider#0.Schema()";
  "where @evaluateTypedExpr := $r.evaluateTypedExpr($p1.inputs, $p1.inputSchema)";
  "where @export := @evaluateTypedExpr#0.export("""").Value.(map[string]esc.Value)";
  "where @value := &value{def: $p0}"
].
Definition exp_open_guard : list string := [
  "!$r.validating";
  "!@evaluateTypedExpr#0.containsUnknowns()";
  "($p1.node.Provider != nil)";
  "(@LoadProvider#1 == nil)";
  "@evaluateTypedExpr#1";
  "@export#1";
  "call @LoadProvider#0.Open($r.ctx, @export#0, $r.execContext)";
  "where @LoadProvider := $r.providers.LoadProvider($r.ctx, $p1.node.Provider.GetValue())";
  "where @evaluateTypedExpr := $r.evaluateTypedExpr($p1.inputs, $p1.inputSchema)";
  "where @export := @evaluateTypedExpr#0.export("""").Value.(map[string]esc.Value)"
].
Definition exp_builtin_secret : list string := [
  "func (*evalContext) evaluateBuiltinSecret(*expr, *secretExpr) (*value)";
  "!$r.decryptSecrets() & ($p1.plaintext == nil) & (@decodeCiphertext#1 == nil) => @value.unknown = true";
  "!$r.decryptSecrets() & ($p1.plaintext == nil) & (@decodeCiphertext#1 == nil) => return @value";
  "$r.decryptSecrets() & ($p1.plaintext == nil) & (@Decrypt#1 != nil) & (@decodeCiphertext#1 == nil) => @value.unknown = true";
  "$r.decryptSecrets() & ($p1.plaintext == nil) & (@Decrypt#1 != nil) & (@decodeCiphertext#1 == nil) => diag";
  "$r.decryptSecrets() & ($p1.plaintext == nil) & (@Decrypt#1 != nil) & (@decodeCiphertext#1 == nil) => return @value";
  "$r.decryptSecrets() & ($p1.plaintext == nil) & (@Decrypt#1 == nil) & (@decodeCiphertext#1 == nil) => @value.repr = string(@Decrypt#0)";
  "$r.decryptSecrets() & ($p1.plaintext == nil) & (@Decrypt#1 == nil) & (@decodeCiphertext#1 == nil) => return @value";
  "$r.decryptSecrets() & ($p1.plaintext == nil) & (@decodeCiphertext#1 == nil) => let @Decrypt";
  "($p1.plaintext != nil) => return $r.evaluateExpr($p1.plaintext)";
  "($p1.plaintext == nil) & (@decodeCiphertext#1 != nil) => @value.unknown = true";
  "($p1.plaintext == nil) & (@decodeCiphertext#1 != nil) => diag";
  "($p1.plaintext == nil) & (@decodeCiphertext#1 != nil) => return @value";
  "($p1.plaintext == nil) => let @decodeCiphertext";
  "($p1.plaintext == nil) => let @value";
  "where @Decrypt := $r.decrypter.Decrypt($r.ctx, @decodeCiphertext#0)";
  "where @decodeCiphertext := decodeCiphertext($p1.node.Ciphertext.Value)";
  "where @value := &value{def: $p0, schema: $p0.schema, secret: true}"
].
Definition exp_decrypt_secrets_flag : list string := [
  "func (*evalContext) decryptSecrets() (bool)";
  "=> return (!$r.validating || $r.showSecrets)"
].
Definition exp_decrypt_secrets : list string := [
  "func DecryptSecrets(context.Context, string, []byte, Decrypter) ([]byte, error)";
  "(!@parseSecret#3 || (@parseSecret#2 == nil)) & in-closure => return $c0, nil, nil";
  "(@Decrypt#1 != nil) & (@decodeCiphertext#1 == nil) & (@parseSecret#2 != nil) & in-closure & @parseSecret#3 => return nil, nil, @Decrypt#1";
  "(@Decrypt#1 == nil) & (@decodeCiphertext#1 == nil) & (@parseSecret#2 != nil) & in-closure & @parseSecret#3 => return syntax.ObjectSyntax(@parseSecret#0.Syntax(), syntax.ObjectPropertySyntax(@parseSecret#0.Index(0).Syntax, @parseSecret#0.Index(0).Key, syntax.StringSyntax(@parseSecret#2.Syntax(), string(@Decrypt#0)))), nil, nil";
  "(@decodeCiphertext#1 != nil) & (@parseSecret#2 != nil) & in-closure & @parseSecret#3 => return nil, nil, fmt.Errorf(_, @decodeCiphertext#1)";
  "(@decodeCiphertext#1 == nil) & (@parseSecret#2 != nil) & in-closure & @parseSecret#3 => let @Decrypt";
  "(@parseSecret#2 != nil) & in-closure & @parseSecret#3 => let @decodeCiphertext";
  "in-closure => let @parseSecret";
  "where @Decrypt := $p3.Decrypt($p0, @decodeCiphertext#0)";
  "where @decodeCiphertext := decodeCiphertext(@parseSecret#2.Value())";
  "where @parseSecret := parseSecret($c0)"
].
Definition exp_builtin_join : list string := [
  "func (*evalContext) evaluateBuiltinJoin(*expr, *joinExpr) (*value)";
  "!@value.unknown & @evaluateTypedExpr.1#1 & @evaluateTypedExpr.2#1 => @value.repr = strings.Join(@make, @evaluateTypedExpr.1#0.repr.(string))";
  "!@value.unknown & @evaluateTypedExpr.1#1 & @evaluateTypedExpr.2#1 => let @make";
  "!@value.unknown & each @evaluateTypedExpr.2#0.repr.([]*value) & @evaluateTypedExpr.1#1 & @evaluateTypedExpr.2#1 => @make[$k(@evaluateTypedExpr.2#0.repr.([]*value))] = $v(@evaluateTypedExpr.2#0.repr.([]*value)).repr.(string)";
  "(!@evaluateTypedExpr.1#1 || !@evaluateTypedExpr.2#1) => @value.unknown = true";
  "(!@evaluateTypedExpr.1#1 || !@evaluateTypedExpr.2#1) => return @value";
  "=> let @evaluateTypedExpr.1";
  "=> let @evaluateTypedExpr.2";
  "=> let @value";
  "@evaluateTypedExpr.1#1 & @evaluateTypedExpr.2#1 => @value.combine(@evaluateTypedExpr.1#0, @evaluateTypedExpr.2#0)";
  "@evaluateTypedExpr.1#1 & @evaluateTypedExpr.2#1 => return @value";
  "where @evaluateTypedExpr.1 := $r.evaluateTypedExpr($p1.delimiter, schema.String().Schema())";
  "where @evaluateTypedExpr.2 := $r.evaluateTypedExpr($p1.values, schema.Array().Items(schema.String()).Schema())";
  "where @make := make([]string, len(@evaluateTypedExpr.2#0.repr.([]*value)))";
  "where @value := &value{def: $p0, schema: $p0.schema}"
].
Definition exp_builtin_to_json : list string := [
  "func (*evalContext) evaluateBuiltinToJSON(*expr, *toJSONExpr) (*value)";
  "!@value.unknown & (@Marshal#1 != nil) => @value.unknown = true";
  "!@value.unknown & (@Marshal#1 != nil) => diag";
  "!@value.unknown & (@Marshal#1 != nil) => return @value";
  "!@value.unknown & (@Marshal#1 == nil) => @value.repr = string(@Marshal#0)";
  "!@value.unknown => let @Marshal";
  "=> @value.combine(@evaluateExpr)";
  "=> let @evaluateExpr";
  "=> let @value";
  "=> return @value";
  "where @Marshal := json.Marshal(@evaluateExpr.export("""").ToJSON(false))";
  "where @evaluateExpr := $r.evaluateExpr($p1.value)";
  "where @value := &value{def: $p0, schema: $p0.schema}"
].
Definition exp_builtin_from_json : list string := [
  "func (*evalContext) evaluateBuiltinFromJSON(*expr, *fromJSONExpr) (*value)";
  "!@evaluateTypedExpr#1 => @value.unknown = true";
  "!@evaluateTypedExpr#1 => return @value";
  "!@value.unknown & (@Decode != nil) & @evaluateTypedExpr#1 => @value.unknown = true";
  "!@value.unknown & (@Decode != nil) & @evaluateTypedExpr#1 => diag";
  "!@value.unknown & (@Decode != nil) & @evaluateTypedExpr#1 => return @value";
  "!@value.unknown & (@Decode == nil) & @evaluateTypedExpr#1 => let @FromJSON";
  "!@value.unknown & (@FromJSON#1 != nil) & (@Decode == nil) & @evaluateTypedExpr#1 => @value.unknown = true";
  "!@value.unknown & (@FromJSON#1 != nil) & (@Decode == nil) & @evaluateTypedExpr#1 => diag";
  "!@value.unknown & (@FromJSON#1 != nil) & (@Decode == nil) & @evaluateTypedExpr#1 => return @value";
  "!@value.unknown & (@FromJSON#1 == nil) & (@Decode == nil) & @evaluateTypedExpr#1 => return unexport(@FromJSON#0, $p0)";
  "!@value.unknown & @evaluateTypedExpr#1 => @NewDecoder.UseNumber()";
  "!@value.unknown & @evaluateTypedExpr#1 => let @Decode";
  "!@value.unknown & @evaluateTypedExpr#1 => let @NewDecoder";
  "=> let @evaluateTypedExpr";
  "=> let @value";
  "@evaluateTypedExpr#1 & @value.unknown => return @value";
  "@evaluateTypedExpr#1 => @value.combine(@evaluateTypedExpr#0)";
  "where @Decode := @NewDecoder.Decode(&%[zero(any)])";
  "where @FromJSON := esc.FromJSON(%[zero(any)], @value.secret)";
  "where @NewDecoder := json.NewDecoder(strings.NewReader(@evaluateTypedExpr#0.repr.(string)))";
  "where @evaluateTypedExpr := $r.evaluateTypedExpr($p1.string, schema.String().Schema())";
  "where @value := &value{def: $p0, schema: $p0.schema}"
].
Definition exp_builtin_to_base64 : list string := [
  "func (*evalContext) evaluateBuiltinToBase64(*expr, *toBase64Expr) (*value)";
  "!@evaluateTypedExpr#1 => @value.unknown = true";
  "!@evaluateTypedExpr#1 => return @value";
  "!@value.unknown & @evaluateTypedExpr#1 => @value.repr = base64.StdEncoding.EncodeToString([]byte(@evaluateTypedExpr#0.repr.(string)))";
  "=> let @evaluateTypedExpr";
  "=> let @value";
  "@evaluateTypedExpr#1 => @value.combine(@evaluateTypedExpr#0)";
  "@evaluateTypedExpr#1 => return @value";
  "where @evaluateTypedExpr := $r.evaluateTypedExpr($p1.value, schema.String().Schema())";
  "where @value := &value{def: $p0, schema: $p0.schema}"
].
Definition exp_builtin_from_base64 : list string := [
  "func (*evalContext) evaluateBuiltinFromBase64(*expr, *fromBase64Expr) (*value)";
  "!@evaluateTypedExpr#1 => @value.unknown = true";
  "!@evaluateTypedExpr#1 => return @value";
  "!@value.unknown & (@DecodeString#1 != nil) & @evaluateTypedExpr#1 => @value.unknown = true";
  "!@value.unknown & (@DecodeString#1 != nil) & @evaluateTypedExpr#1 => diag";
  "!@value.unknown & (@DecodeString#1 != nil) & @evaluateTypedExpr#1 => return @value";
  "!@value.unknown & (@DecodeString#1 == nil) & @evaluateTypedExpr#1 => @value.repr = string(@DecodeString#0)";
  "!@value.unknown & @evaluateTypedExpr#1 => let @DecodeString";
  "=> let @evaluateTypedExpr";
  "=> let @value";
  "@evaluateTypedExpr#1 => @value.combine(@evaluateTypedExpr#0)";
  "@evaluateTypedExpr#1 => return @value";
  "where @DecodeString := base64.StdEncoding.DecodeString(@evaluateTypedExpr#0.repr.(string))";
  "where @evaluateTypedExpr := $r.evaluateTypedExpr($p1.string, schema.String().Schema())";
  "where @value := &value{def: $p0, schema: $p0.schema}"
].
Definition exp_builtin_to_string : list string := [
  "func (*evalContext) evaluateBuiltinToString(*expr, *toStringExpr) (*value)";
  "!@toString#1 => @value.repr = @toString#0";
  "=> let @toString";
  "=> let @value";
  "=> par{@value.secret = @toString#2 | @value.unknown = @toString#1}";
  "=> return @value";
  "where @toString := $r.evaluateExpr($p1.value).toString()";
  "where @value := &value{def: $p0, schema: $p0.schema}"
].
Definition exp_interpolate : list string := [
  "func (*evalContext) evaluateInterpolate(*expr, *interpolateExpr) (*value)";
  "!@toString#1 & ($v($p1.parts).value != nil) & each $p1.parts => %[zero(strings.Builder)].WriteString(@toString#0)";
  "!@value.unknown => @value.repr = %[zero(strings.Builder)].String()";
  "($v($p1.parts).value != nil) & each $p1.parts => let @toString";
  "($v($p1.parts).value != nil) & each $p1.parts => par{@value.secret = (@value.containsSecrets() || @toString#2) | @value.unknown = (@value.containsUnknowns() || @toString#1)}";
  "=> let @value";
  "=> return @value";
  "@value.unknown => @value.repr = ""[unknown]""";
  "each $p1.parts => %[zero(strings.Builder)].WriteString($v($p1.parts).syntax.Text)";
  "where @toString := $r.evaluatePropertyAccess($p0, $v($p1.parts).value.accessors).toString()";
  "where @value := &value{def: $p0, schema: $p0.schema}"
].
Definition exp_typed_expr : list string := [
  "func (*evalContext) evaluateTypedExpr(*expr, *schema.Schema) (*value, bool)";
  "!%[validator{}].diags.HasErrors() & !@evaluateExpr.containsUnknowns() & !@validateValue => diag";
  "=> $r.diags.Extend(%[validator{}].diags...)";
  "=> %[validator{}] = validator{}";
  "=> let @evaluateExpr";
  "=> let @validateValue";
  "=> return @evaluateExpr, @validateValue";
  "where @evaluateExpr := $r.evaluateExpr($p0)";
  "where @validateValue := %[validator{}].validateValue(@evaluateExpr, $p1, validationLoc{x: $p0})"
].
Definition exp_evaluate_object : list string := [
  "func (*evalContext) evaluateObject(*expr, *objectExpr) (*value)";
  "=> let @Keys";
  "=> let @value";
  "=> par{@value.repr = @make.1 | @value.schema = schema.Record(@make.2).Schema()}";
  "=> par{let @make.1 | let @make.2}";
  "=> return @value";
  "=> sort.Strings(@Keys)";
  "each @Keys => let @evaluateExpr";
  "each @Keys => par{@make.1[$v(@Keys)] = @evaluateExpr | @make.2[$v(@Keys)] = @evaluateExpr.schema}";
  "where @Keys := maps.Keys($p1.properties)";
  "where @evaluateExpr := $r.evaluateExpr($p1.properties[$v(@Keys)])";
  "where @make.1 := make(map[string]*value, len(@Keys))";
  "where @make.2 := make(schema.SchemaMap, len(@Keys))";
  "where @value := &value{def: $p0}"
].
Definition exp_evaluate_array : list string := [
  "func (*evalContext) evaluateArray(*expr, *arrayExpr) (*value)";
  "=> let @value";
  "=> par{@value.repr = @make.1 | @value.schema = schema.Tuple(@make.2...).Schema()}";
  "=> par{let @make.1 | let @make.2}";
  "=> return @value";
  "each $p1.elements => let @evaluateExpr";
  "each $p1.elements => par{@make.1[$k($p1.elements)] = @evaluateExpr | @make.2[$k($p1.elements)] = @evaluateExpr.schema}";
  "where @evaluateExpr := $r.evaluateExpr($v($p1.elements))";
  "where @make.1 := make([]*value, len($p1.elements))";
  "where @make.2 := make([]schema.Builder, len($p1.elements))";
  "where @value := &value{def: $p0}"
].
Definition exp_dispatch : list (string * string) := [
  ("*arrayExpr", "$r.evaluateArray($p0, $p0.repr.(type))");
  ("*fromBase64Expr", "$r.evaluateBuiltinFromBase64($p0, $p0.repr.(type))");
  ("*fromJSONExpr", "$r.evaluateBuiltinFromJSON($p0, $p0.repr.(type))");
  ("*interpolateExpr", "$r.evaluateInterpolate($p0, $p0.repr.(type))");
  ("*joinExpr", "$r.evaluateBuiltinJoin($p0, $p0.repr.(type))");
  ("*literalExpr/*ast.BooleanExpr", "&value{def: $p0, repr: $p0.repr.syntax().(type).Value, schema: $p0.schema}");
  ("*literalExpr/*ast.NullExpr", "&value{def: $p0, repr: nil, schema: $p0.schema}");
  ("*literalExpr/*ast.NumberExpr", "&value{def: $p0, repr: $p0.repr.syntax().(type).Value, schema: $p0.schema}");
  ("*literalExpr/*ast.StringExpr", "&value{def: $p0, repr: $p0.repr.syntax().(type).Value, schema: $p0.schema}");
  ("*missingExpr", "&value{def: $p0, schema: $p0.schema, unknown: true}");
  ("*objectExpr", "$r.evaluateObject($p0, $p0.repr.(type))");
  ("*openExpr", "$r.evaluateBuiltinOpen($p0, $p0.repr.(type))");
  ("*secretExpr", "$r.evaluateBuiltinSecret($p0, $p0.repr.(type))");
  ("*symbolExpr", "$r.evaluatePropertyAccess($p0, $p0.repr.(type).property.accessors)");
  ("*toBase64Expr", "$r.evaluateBuiltinToBase64($p0, $p0.repr.(type))");
  ("*toJSONExpr", "$r.evaluateBuiltinToJSON($p0, $p0.repr.(type))");
  ("*toStringExpr", "$r.evaluateBuiltinToString($p0, $p0.repr.(type))");
  ("default", "panic(fmt.Sprintf(""fatal: invalid expr type %T"", $p0.repr.(type)))")
].
Definition exp_builtins_unknown_first : list (string * string) := [
  ("evaluateBuiltinJoin", "ok");
  ("evaluateBuiltinToJSON", "ok");
  ("evaluateBuiltinFromJSON", "ok");
  ("evaluateBuiltinToBase64", "ok");
  ("evaluateBuiltinFromBase64", "ok");
  ("evaluateBuiltinToString", "ok")
].

(* ====================================================================================================================
   Comparisons, grouped by the model definition / property they serve
   ==================================================================================================================== *)
(* what differs, for the reader of a failing build: entries of the expected table the source no longer has, and new ones *)
Definition table_diff (observed expected : list string) : list string :=
  map (fun s => "expected, not in the source any more:  " +++ s) (filter (fun s => negb (existsb (String.eqb s) observed)) expected)
  ++ map (fun s => "in the source, not expected:  " +++ s) (filter (fun s => negb (existsb (String.eqb s) expected)) observed).

Definition all_ok (l : list (string * string)) : bool := forallb (fun p => String.eqb (snd p) "ok") l.

(* 1 + 2: the taint join *)
Definition eval_src_combine_ok : bool := lseqb ev_combine exp_combine.
Definition eval_src_contains_ok : bool :=
  lseqb ev_contains_unknowns exp_contains_unknowns && lseqb ev_contains_secrets exp_contains_secrets
  && String.eqb ev_contains_unknowns_object_view "merged" && String.eqb ev_contains_secrets_object_view "merged".

(* 3: merge = append *)
Definition eval_src_merge_ok : bool :=
  lseqb ev_merge exp_merge && ev_merge_order && lseqb ev_merged_schema exp_merged_schema.

(* 4: the lazy merged view *)
Definition eval_src_chain_view_ok : bool :=
  lseqb ev_property exp_property && lseqb ev_keys exp_keys && ev_keys_sorted_after
  && lseqb ev_export exp_export && lseqb ev_is_object exp_is_object && lseqb ev_copy exp_copy.
Definition eval_src_text_ok : bool :=
  lseqb ev_to_string exp_to_string && ev_to_string_sorted_before
  && lseqb ev_unexport exp_unexport && lseqb ev_unexport_value exp_unexport_value.

(* 5: evaluateExpr *)
Definition eval_src_expr_ok : bool :=
  lseqb ev_evaluate_expr exp_evaluate_expr && lpeqb ev_dispatch exp_dispatch && ev_expr_marked_before_dispatch.

(* 6: references *)
Definition eval_src_access_ok : bool :=
  lseqb ev_property_access exp_property_access && lseqb ev_expr_access exp_expr_access
  && lseqb ev_value_access exp_value_access && lseqb ev_unknown_access exp_unknown_access
  && lseqb ev_invalid_access exp_invalid_access && lseqb ev_array_index exp_array_index
  && lseqb ev_object_key exp_object_key.

(* 7: imports, contexts, declaration *)
Definition eval_src_import_ok : bool :=
  lseqb ev_evaluate_import exp_evaluate_import && ev_import_copy_merge_assign
  && lseqb ev_evaluate_imports exp_evaluate_imports && ev_imports_marked_before_loop
  && lseqb ev_new_eval_context exp_new_eval_context && (ev_load_environment_call_sites =? 1).
Definition eval_src_context_ok : bool :=
  lseqb ev_copy_for_env exp_copy_for_env && lseqb ev_new_eval_context exp_new_eval_context
  && lseqb ev_evaluate_context exp_evaluate_context.
Definition eval_src_declare_ok : bool :=
  lseqb ev_evaluate exp_evaluate && ev_evaluate_order && lseqb ev_declare exp_declare.

(* 8: the fn::open gate *)
Definition eval_src_open_ok : bool :=
  lseqb ev_builtin_open exp_builtin_open && lseqb ev_open_guard exp_open_guard
  && (ev_open_call_sites =? 1) && (ev_load_provider_call_sites =? 1) && lseqb ev_typed_expr exp_typed_expr.

(* 9: fn::secret *)
Definition eval_src_secret_ok : bool :=
  lseqb ev_builtin_secret exp_builtin_secret && ev_secret_decode_dominates_decrypt
  && lseqb ev_decrypt_secrets_flag exp_decrypt_secrets_flag && (ev_decrypt_call_sites =? 1).
Definition eval_src_decrypt_doc_ok : bool := lseqb ev_decrypt_secrets exp_decrypt_secrets.

(* 10 + 11: the other builtins, interpolation *)
Definition eval_src_builtins_ok : bool :=
  lseqb ev_builtin_join exp_builtin_join && lseqb ev_builtin_to_json exp_builtin_to_json
  && lseqb ev_builtin_from_json exp_builtin_from_json && lseqb ev_builtin_to_base64 exp_builtin_to_base64
  && lseqb ev_builtin_from_base64 exp_builtin_from_base64 && lseqb ev_builtin_to_string exp_builtin_to_string
  && lpeqb ev_builtins_unknown_first exp_builtins_unknown_first && all_ok ev_builtins_unknown_first
  && lseqb ev_interpolate exp_interpolate.

(* evaluation order is key order (C09) *)
Definition eval_src_order_ok : bool :=
  lseqb ev_evaluate_object exp_evaluate_object && ev_object_sorted_before_loop
  && lseqb ev_evaluate_array exp_evaluate_array && ev_keys_sorted_after && ev_to_string_sorted_before.


(* ====================================================================================================================
   Ties stated on the model (definitions; the theorems that depend on today's source are in Proofs/EvalSrcExpr.v and
   Proofs/EvalSrcContains.v)
   ==================================================================================================================== *)

(* ---- the dispatch of evaluateExpr and the constructors of [expr] ---- *)
Definition repr_of (e : expr) : string :=
  match e with
  | ENull => "*literalExpr/*ast.NullExpr"
  | EBool _ => "*literalExpr/*ast.BooleanExpr"
  | ENum _ => "*literalExpr/*ast.NumberExpr"
  | EStr _ => "*literalExpr/*ast.StringExpr"
  | EInterp _ => "*interpolateExpr"
  | ESym _ => "*symbolExpr"
  | EArr _ => "*arrayExpr"
  | EObj _ => "*objectExpr"
  | EJoin _ _ => "*joinExpr"
  | EToJSON _ => "*toJSONExpr"
  | EFromJSON _ => "*fromJSONExpr"
  | EToString _ => "*toStringExpr"
  | EToB64 _ => "*toBase64Expr"
  | EFromB64 _ => "*fromBase64Expr"
  | ESecretPlain _ => "*secretExpr"
  | ESecretCipher _ => "*secretExpr"
  | EOpen _ _ => "*openExpr"
  | EMissing => "*missingExpr"
  end.

(* what evaluateExpr runs for that repr: the Go function whose body the same case of [eval_repr] restates *)
Definition producer_of (e : expr) : string :=
  match e with
  | ENull => "&value{def: $p0, repr: nil, schema: $p0.schema}"
  | EBool _ | ENum _ | EStr _ => "&value{def: $p0, repr: $p0.repr.syntax().(type).Value, schema: $p0.schema}"
  | EInterp _ => "$r.evaluateInterpolate($p0, $p0.repr.(type))"
  | ESym _ => "$r.evaluatePropertyAccess($p0, $p0.repr.(type).property.accessors)"
  | EArr _ => "$r.evaluateArray($p0, $p0.repr.(type))"
  | EObj _ => "$r.evaluateObject($p0, $p0.repr.(type))"
  | EJoin _ _ => "$r.evaluateBuiltinJoin($p0, $p0.repr.(type))"
  | EToJSON _ => "$r.evaluateBuiltinToJSON($p0, $p0.repr.(type))"
  | EFromJSON _ => "$r.evaluateBuiltinFromJSON($p0, $p0.repr.(type))"
  | EToString _ => "$r.evaluateBuiltinToString($p0, $p0.repr.(type))"
  | EToB64 _ => "$r.evaluateBuiltinToBase64($p0, $p0.repr.(type))"
  | EFromB64 _ => "$r.evaluateBuiltinFromBase64($p0, $p0.repr.(type))"
  | ESecretPlain _ | ESecretCipher _ => "$r.evaluateBuiltinSecret($p0, $p0.repr.(type))"
  | EOpen _ _ => "$r.evaluateBuiltinOpen($p0, $p0.repr.(type))"
  | EMissing => "&value{def: $p0, schema: $p0.schema, unknown: true}"
  end.

Definition row_of (e : expr) : string * string := (repr_of e, producer_of e).

(* one expression per constructor *)
Definition expr_samples : list expr :=
  [ENull; EBool true; ENum "0"; EStr ""; EInterp []; ESym []; EArr []; EObj []; EJoin ENull ENull; EToJSON ENull;
   EFromJSON ENull; EToString ENull; EToB64 ENull; EFromB64 ENull; ESecretPlain ""; ESecretCipher ""; EOpen "" ENull; EMissing].

Definition dispatch_ok : bool :=
  (* every row of the source's switch is the row of a constructor (or the panicking default) ... *)
  forallb (fun row => String.eqb (fst row) "default" || existsb (fun e => pair_eqb row (row_of e)) expr_samples) ev_dispatch
  (* ... and every constructor has its row *)
  && forallb (fun e => existsb (pair_eqb (row_of e)) ev_dispatch) expr_samples.

(* ---- combine: the model's two-argument join is the fold over ALL arguments the table describes ---- *)
Definition src_combine (args : list chain) : bool * bool :=
  fold_left (fun fl o => (fst fl || contains_unknowns o, snd fl || contains_secrets o)) args (false, false).

Theorem combine2_is_source_fold (a b : chain) : combine2 a b = src_combine [a; b].
Proof. unfold combine2, src_combine. cbn [fold_left fst snd orb]. reflexivity. Qed.

Theorem single_argument_is_source_fold (v : chain) : (contains_unknowns v, contains_secrets v) = src_combine [v].
Proof. unfold src_combine. cbn [fold_left fst snd orb]. reflexivity. Qed.

