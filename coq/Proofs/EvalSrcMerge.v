(* Proofs/EvalSrcMerge.v -- decides [eval_src_merge_ok] (defined in Proofs/EvalSrc.v) on today's coq/Src/SrcEval.v.
   The [same_*] lemmas come first so that a failing build names the table and prints the entries that differ. *)
From Verif Require Import Base.Bytes Model.Chain Model.GoText Model.Eval Src.SrcEval Proofs.EvalSrc.

Lemma same_merge : table_diff ev_merge exp_merge = [].
Proof. vm_compute. reflexivity. Qed.
Lemma same_merged_schema : table_diff ev_merged_schema exp_merged_schema = [].
Proof. vm_compute. reflexivity. Qed.

Lemma eval_src_merge_ok_true : eval_src_merge_ok = true.
Proof. vm_compute. reflexivity. Qed.
