(* Proofs/RefSem2DepthEval.v — the nesting depth of every value the expression family builds is at most
   (depth of what comes from outside: base, imports table, context, provider constants) + (number of expression
   positions of the environment that are done).  A literal adds one level and becomes done once; a reference copies
   a value; cycles are cut to an unknown scalar. *)
From Verif Require Import Base.Bytes Model.Chain Model.GoText Model.Envelope Model.Eval
  Proofs.EvalTotalBase Proofs.EvalTotalInv Proofs.EvalTotalOrder Proofs.EvalTotalSyntax Proofs.EvalTotalFail
  Proofs.EvalTotalRecover Proofs.EvalTotalBound
  Proofs.ChainAlgebraSorted Proofs.ChainAlgebraExport Proofs.RefSemMemo Proofs.RefSem2Depth.
From Coq Require Import Lia.
Local Open Scope nat_scope.

Section DEPTH.
Variable W : world.
Variable E : ectx.
Variable Dx : nat.
Hypothesis HDx : 1 <= Dx.
Hypothesis Hbase : cdepth (ec_base E) <= Dx.
Hypothesis Himps : cdepth (ec_imports E) <= Dx.
Hypothesis Hctx : cdepth (ec_context E) <= Dx.
Hypothesis Hprov : forall pn p v, alookup pn (w_provs W) = Some p -> pv_beh p = PConst v -> x_depth v <= Dx.
Hypothesis Hnj : no_json (root_of E) = true.

Definition isdone (s : st) (p : list idstep) : bool :=
  match done (memo s) (ec_name E, p) with Some _ => true | None => false end.
(* number of positions of the environment whose value is memoised *)
Definition DN (s : st) : nat := length (filter (isdone s) (all_paths (root_of E))).

Definition DInv (s : st) : Prop :=
  forall id x v, at_id E id x -> done (memo s) id = Some v -> cdepth v <= Dx + DN s.

(* a triple: from any state with the invariant and at least n done positions *)
Definition ht {A} (n : nat) (m : M A) (Qv : A -> nat -> Prop) : Prop :=
  forall s, DInv s -> n <= DN s ->
    Qv (fst (m s)) (DN (snd (m s))) /\ DInv (snd (m s)) /\ DN s <= DN (snd (m s)).

Definition le (c : nat) : chain -> nat -> Prop := fun v N => cdepth v <= Dx + N + c.
Definition anyq {A} : A -> nat -> Prop := fun _ _ => True.

Lemma ht_ret {A} n (a : A) (Qv : A -> nat -> Prop) : (forall N, n <= N -> Qv a N) -> ht n (ret a) Qv.
Proof. intros H s Hs Hn. cbn [ret fst snd]. split; [apply H, Hn|split; [exact Hs|lia]]. Qed.

Lemma ht_bind {A B} n (m : M A) (k : A -> M B) (Q1 : A -> nat -> Prop) (Q2 : B -> nat -> Prop) :
  ht n m Q1 -> (forall a n1, n <= n1 -> Q1 a n1 -> ht n1 (k a) Q2) -> ht n (bind m k) Q2.
Proof.
  intros Hm Hk s Hs Hn. rewrite bind_eq. destruct (Hm s Hs Hn) as (H1 & H2 & H3).
  destruct (Hk (fst (m s)) (DN (snd (m s))) ltac:(lia) H1 (snd (m s)) H2 (le_n _)) as (H4 & H5 & H6).
  split; [exact H4|split; [exact H5|lia]].
Qed.

Lemma ht_raise {A} n n' (m : M A) Qv : n <= n' -> ht n m Qv -> ht n' m Qv.
Proof. intros Hle H s Hs Hn. apply H; [exact Hs|lia]. Qed.

Lemma ht_weaken {A} n (m : M A) (Q1 Q2 : A -> nat -> Prop) :
  ht n m Q1 -> (forall a N, Q1 a N -> Q2 a N) -> ht n m Q2.
Proof. intros H HQ s Hs Hn. destruct (H s Hs Hn) as (H1 & H2 & H3). split; [apply HQ, H1|split; assumption]. Qed.

(* steps that do not touch the memo table *)
Lemma ht_same {A} n (m : M A) : (forall s, memo (snd (m s)) = memo s) -> ht n m anyq.
Proof.
  intros Hm s Hs Hn.
  assert (HD : DN (snd (m s)) = DN s) by (unfold DN, isdone; rewrite Hm; reflexivity).
  split; [exact I|]. split; [|lia]. intros id x v Hat Hd. rewrite Hm in Hd. rewrite HD. apply (Hs id x v Hat Hd).
Qed.
Lemma ht_add_err n k : ht n (add_err k) anyq. Proof. apply ht_same. reflexivity. Qed.
Lemma ht_err n : ht n err anyq. Proof. apply ht_add_err. Qed.
Lemma ht_emit n e : ht n (emit e) anyq. Proof. apply ht_same. reflexivity. Qed.
Lemma ht_call n : ht n (call W) anyq. Proof. apply ht_same. reflexivity. Qed.
Lemma ht_oof n : ht n out_of_fuel anyq. Proof. apply ht_same. reflexivity. Qed.

Lemma le_mono c v N N' : N <= N' -> le c v N -> le c v N'.
Proof. unfold le. lia. Qed.

Lemma ht_fail_oof n : ht n (fail_oof invalid_access) (le 0).
Proof.
  eapply ht_bind; [apply ht_oof|]. intros _ n1 _ _. apply ht_ret. intros N _. unfold le. rewrite cdepth_invalid. lia.
Qed.

Lemma ht_value_access n c accs b :
  cdepth c <= Dx + b -> b <= n ->
  ht n (let '(c', k) := value_access (va_need c accs) c accs in add_err k ;;; ret c') (le 0).
Proof.
  intros Hc Hb. pose proof (cdepth_value_access (va_need c accs) c accs) as H.
  destruct (value_access (va_need c accs) c accs) as [c' k]. cbn [fst] in H.
  eapply ht_bind; [apply ht_add_err|]. intros _ n1 Hn1 _. apply ht_ret. intros N HN. unfold le. lia.
Qed.


Lemma cdepth1 s u c x : cdepth [LScalar s u c x] = 1. Proof. reflexivity. Qed.
Ltac leaf1 := apply ht_ret; intros ? ?; unfold le, unknown_layer, str_layer; rewrite ?cdepth1, ?cdepth_invalid; lia.

(* ---------------- loops ---------------- *)
Lemma interp_go_ht (ea : path -> M chain) ps :
  (forall p n, ht n (ea p) (le 0)) -> forall acc unk sec n, ht n (interp_go ea ps acc unk sec) (le 0).
Proof.
  intro H. induction ps as [|[text [p|]] r IH]; intros acc unk sec n.
  - rewrite interp_go_nil. leaf1.
  - rewrite interp_go_ref. eapply ht_bind; [apply H|]. intros pv n1 _ _.
    destruct (to_string (ts_need pv) pv) as [[s0 u0] sc]. apply IH.
  - rewrite interp_go_text. apply IH.
Qed.

Lemma arr_go_ht (ee : expr -> bool -> chain -> eid -> M chain) id es :
  forall i,
  (forall j e n, nth_error es j = Some e -> ht n (ee e false [] (fst id, snd id ++ [IIdx (i + j)])) (le 0)) ->
  forall acc n, (forall c, In c acc -> cdepth c <= Dx + n) -> ht n (arr_go ee id es i acc) (le 1).
Proof.
  induction es as [|e r IH]; intros i H acc n Hacc.
  - rewrite arr_go_nil. apply ht_ret. intros N HN. unfold le. rewrite cdepth_cons, ldepth_arr. cbn [cdepth].
    assert (csdepth (rev acc) <= Dx + n); [|lia]. apply csdepth_ub. intros c Hc. apply in_rev in Hc.
    specialize (Hacc c Hc). lia.
  - rewrite arr_go_cons. eapply ht_bind.
    + specialize (H 0 e n eq_refl). rewrite Nat.add_0_r in H. exact H.
    + intros v n1 Hn1 Hv. apply IH.
      * intros j e' n' Hj. specialize (H (S j) e' n' Hj). replace (S i + j) with (i + S j) by lia. exact H.
      * intros c [<-|Hc]; [unfold le in Hv; lia|]. specialize (Hacc c Hc). lia.
Qed.

Lemma obj_go_ht (ee : expr -> bool -> chain -> eid -> M chain) xbase id ds :
  (forall j k e n, In (j, k, e) ds -> ht n (ee e false (property k xbase) (fst id, snd id ++ [IKey k])) (le 0)) ->
  forall acc n, (forall k c, In (k, c) acc -> cdepth c <= Dx + n) -> ht n (obj_go ee xbase id ds acc) (le 1).
Proof.
  induction ds as [|[[j k] e] r IH]; intros H acc n Hacc.
  - rewrite obj_go_nil. apply ht_ret. intros N HN. unfold le, obj_layer. rewrite cdepth_cons, ldepth_obj. cbn [cdepth].
    assert (pdepth (rev acc) <= Dx + n); [|lia]. apply pdepth_ub. intros k c Hc. apply in_rev in Hc.
    specialize (Hacc k c Hc). lia.
  - rewrite obj_go_cons. eapply ht_bind; [apply (H j k e); left; reflexivity|].
    intros v n1 Hn1 Hv. apply IH.
    + intros j' k' e' n' Hin. apply (H j' k' e'). right. exact Hin.
    + intros k' c [[= <- <-]|Hc]; [unfold le in Hv; lia|]. specialize (Hacc k' c Hc). lia.
Qed.

(* ---------------- the memo steps ---------------- *)
Lemma isdone_set_other s id o p : eid_eqb (ec_name E, p) id = false ->
  isdone (snd (memo_set id o s)) p = isdone s p.
Proof. intro H. unfold isdone. cbn [memo_set snd memo]. rewrite done_cons_other by exact H. reflexivity. Qed.

Lemma DN_set_none s id : memo_get id (memo s) = None ->
  DN (snd (memo_set id None s)) = DN s /\ (DInv s -> DInv (snd (memo_set id None s))).
Proof.
  intro Hm. assert (Hd : done (memo s) id = None) by (unfold done; rewrite Hm; reflexivity).
  assert (Hall : forall id', done (memo (snd (memo_set id None s))) id' = done (memo s) id').
  { intro id'. cbn [memo_set snd memo]. destruct (eid_eqb id' id) eqn:Eq.
    - apply eid_eqb_eq in Eq. subst id'. rewrite done_cons_self. symmetry. exact Hd.
    - apply done_cons_other, Eq. }
  assert (HD : DN (snd (memo_set id None s)) = DN s).
  { unfold DN. f_equal. apply filter_ext. intro p. unfold isdone. rewrite Hall. reflexivity. }
  split; [exact HD|]. intros Hs id' x v Hat Hd'. rewrite Hall in Hd'. rewrite HD. apply (Hs id' x v Hat Hd').
Qed.

Lemma DN_set_done s id x v2 :
  at_id E id x -> done (memo s) id = None -> DInv s -> cdepth v2 <= Dx + DN s + 1 ->
  DN s + 1 <= DN (snd (memo_set id (Some v2) s)) /\ DInv (snd (memo_set id (Some v2) s)).
Proof.
  intros Hat Hd Hs Hv. set (s3 := snd (memo_set id (Some v2) s)).
  assert (Hid : id = (ec_name E, snd id)) by (destruct id as [nm q]; destruct Hat as [Hn _]; cbn in *; subst; reflexivity).
  assert (Hlt : DN s < DN s3).
  { unfold DN. apply filter_length_lt with (x := snd id).
    - eapply sub_at_in_paths. apply (proj2 Hat).
    - unfold isdone, s3. cbn [memo_set snd memo]. rewrite <- Hid, done_cons_self. reflexivity.
    - unfold isdone. rewrite <- Hid, Hd. reflexivity.
    - intros q. unfold isdone, s3. cbn [memo_set snd memo]. destruct (eid_eqb (ec_name E, q) id) eqn:Eq.
      + apply eid_eqb_eq in Eq. rewrite Eq, Hd. discriminate.
      + rewrite done_cons_other by exact Eq. auto. }
  split; [lia|]. intros id' x' v' Hat' Hd'. unfold s3 in Hd'. cbn [memo_set snd memo] in Hd'.
  destruct (eid_eqb id' id) eqn:Eq.
  - apply eid_eqb_eq in Eq. subst id'. rewrite done_cons_self in Hd'. injection Hd' as <-. lia.
  - rewrite done_cons_other in Hd' by exact Eq. specialize (Hs id' x' v' Hat' Hd'). lia.
Qed.

(* ---------------- the bodies ---------------- *)
Lemma expr_body_ht er x xsec xbase id :
  at_id E id x -> cdepth xbase <= Dx ->
  (forall n, ht n (er x xbase id) (le 1)) -> pres frozen (er x xbase id) ->
  forall n, ht n (expr_body er x xsec xbase id) (le 0).
Proof.
  intros Hat Hxb Her Hfro n s Hs Hn. unfold expr_body. rewrite bind_eq.
  change (get_memo id s) with (memo_get id (memo s), s). cbn [fst snd].
  destruct (memo_get id (memo s)) as [[v|]|] eqn:Em.
  - cbn [ret fst snd]. split; [|split; [exact Hs|lia]]. unfold le.
    assert (Hd : done (memo s) id = Some v) by (unfold done; rewrite Em; reflexivity).
    specialize (Hs id x v Hat Hd). lia.
  - assert (H : ht n (err ;;; ret [unknown_layer false ScAlways]) (le 0)).
    { eapply ht_bind; [apply ht_err|]. intros _ n1 _ _. leaf1. }
    apply (H s Hs Hn).
  - rewrite bind_eq. cbv beta. rewrite bind_eq. cbv beta zeta. rewrite bind_eq.
    destruct (DN_set_none s id Em) as [HD1 HI1]. set (s1 := snd (memo_set id None s)) in *.
    destruct (Her (DN s1) s1 (HI1 Hs) (le_n _)) as (Hv & HI2 & HD2).
    pose proof (Hfro s1) as Hf12.
    set (r := er x xbase id s1) in *. set (s2 := snd r) in *. set (v := fst r) in *.
    assert (Hd2 : done (memo s2) id = None).
    { unfold done. rewrite (Hf12 id); unfold s1; cbn [memo_set snd memo]; rewrite memo_get_cons, eid_eqb_refl;
        [reflexivity|discriminate]. }
    set (v2 := (if xsec then opt_top_sec v else v) ++ xbase).
    assert (Hv2 : cdepth v2 <= Dx + DN s2 + 1).
    { unfold v2. rewrite cdepth_app. unfold le in Hv. destruct xsec; [rewrite cdepth_opt_top_sec|]; lia. }
    destruct (DN_set_done s2 id x v2 Hat Hd2 HI2 Hv2) as [HD3 HI3].
    cbn [ret fst snd]. split; [unfold le; lia|]. split; [exact HI3|lia].
Qed.

Lemma typed_body_ht ee x a id :
  (forall n, ht n (ee x false [] id) (le 0)) ->
  forall n, ht n (typed_body ee x a id) (fun r N => cdepth (fst r) <= Dx + N).
Proof.
  intros H n. unfold typed_body. eapply ht_bind; [apply H|]. intros v n1 Hn1 Hv.
  destruct (validate a v) as [ok k]. eapply ht_bind; [apply ht_add_err|]. intros _ n2 Hn2 _.
  apply ht_ret. intros N HN. cbn [fst]. unfold le in Hv. lia.
Qed.

Lemma access_body_ht wk p :
  (forall n, ht n (wk (root_of E) false (ec_base E) (ec_name E, []) p) (le 0)) ->
  forall n, ht n (access_body wk E p) (le 0).
Proof.
  intros H n. unfold access_body. destruct p as [|a0 rest]; [leaf1|].
  cbv zeta. rewrite root_dispatch. destruct (object_key a0) as [k|]; [|apply H].
  destruct (String.eqb k "imports"); [apply (ht_value_access n _ rest 0); lia|].
  destruct (String.eqb k "context"); [apply (ht_value_access n _ rest 0); lia|]. apply H.
Qed.

Lemma walk_body_ht ee wk rx rsec rbase rid accs :
  cdepth rbase <= Dx ->
  (forall n, ht n (ee rx rsec rbase rid) (le 0)) ->
  (forall stp y b c accs' n, child rx stp = Some y -> cdepth c <= Dx ->
     ht n (wk y b c (fst rid, snd rid ++ [stp]) accs') (le 0)) ->
  forall n, ht n (walk_body ee wk rx rsec rbase rid accs) (le 0).
Proof.
  intros Hrb Hee Hwk n. unfold walk_body. destruct accs as [|a rest]; [apply Hee|].
  assert (Hdef : ht n (v <- ee rx rsec rbase rid ;;
                       let '(c, k) := value_access (va_need v (a :: rest)) v (a :: rest) in add_err k ;;; ret c) (le 0)).
  { eapply ht_bind; [apply Hee|]. intros v n1 Hn1 Hv. apply (ht_value_access n1 v (a :: rest) n1); [unfold le in Hv; lia|lia]. }
  assert (Herr : ht n (err ;;; ret invalid_access) (le 0)).
  { eapply ht_bind; [apply ht_err|]. intros _ n1 _ _. leaf1. }
  destruct rx; try exact Hdef.
  - destruct (array_index a (Z.of_nat (length l))) as [i|] eqn:Ei; [|exact Herr].
    apply array_index_lt in Ei. apply Hwk; [|cbn; lia].
    cbn [child]. rewrite (nth_error_nth' l EMissing Ei). reflexivity.
  - destruct (object_key a) as [k|]; [|exact Herr].
    destruct (find_entry k l 0) as [[j px]|] eqn:Ef.
    + apply Hwk; [|pose proof (cdepth_property_le k rbase); lia].
      cbn [child]. rewrite <- (find_entry_alookup k l 0), Ef. reflexivity.
    + destruct (is_object rbase); [|exact Herr]. apply (ht_value_access n rbase (a :: rest) 0); lia.
  - apply Hwk; [reflexivity|cbn; lia].
  - exact Herr.
Qed.


Ltac h_step :=
  first
  [ leaf1
  | eapply ht_bind; [ first [ apply ht_err | apply ht_add_err | apply ht_emit | apply ht_call | apply ht_oof ] | intros ? ? ? ? ]
  | match goal with |- ht _ (match ?x with _ => _ end) _ => destruct x eqn:? end
  | progress cbv beta zeta ].
Ltac h_tac := repeat h_step.

Lemma le_01 v N : le 0 v N -> le 1 v N.
Proof. unfold le. lia. Qed.

Lemma repr_body_ht ee et ea x xbase id :
  no_json x = true ->
  (forall stp e b c n, child x stp = Some e -> cdepth c <= Dx -> ht n (ee e b c (fst id, snd id ++ [stp])) (le 0)) ->
  (forall stp e a n, child x stp = Some e ->
     ht n (et e a (fst id, snd id ++ [stp])) (fun r N => cdepth (fst r) <= Dx + N)) ->
  (forall p n, ht n (ea p) (le 0)) ->
  cdepth xbase <= Dx ->
  forall n, ht n (repr_body W ee et ea E x xbase id) (le 1).
Proof.
  intros Hj Hee Het Hea Hxb n. destruct x; unfold repr_body; try discriminate Hj.
  - leaf1. - leaf1. - leaf1. - leaf1.
  - eapply ht_weaken; [apply interp_go_ht, Hea|apply le_01].
  - eapply ht_weaken; [apply Hea|apply le_01].
  - apply arr_go_ht; [|intros c []]. intros j e n' Hj'. apply Hee; [exact Hj'|cbn; lia].
  - destruct (declared l 0 []) as [decl dups] eqn:Ed. eapply ht_bind; [apply ht_add_err|]. intros _ n1 _ _.
    apply obj_go_ht; [|intros k c []]. intros j k e n' Hin. apply Hee; [|pose proof (cdepth_property_le k xbase); lia].
    cbn [child]. apply In_sort_entries in Hin. replace decl with (fst (declared l 0 [])) in Hin by (rewrite Ed; reflexivity).
    destruct (declared_first l _ _ _ _ _ Hin) as [Hf _]. rewrite <- (find_entry_alookup k l 0), Hf. reflexivity.
  - eapply ht_bind; [apply (Het (IIdx 0)); reflexivity|]. intros dr n1 _ _.
    eapply ht_bind; [apply (Het (IIdx 1)); reflexivity|]. intros vr n2 _ _. h_tac.
  - eapply ht_bind; [apply (Hee (IIdx 0)); [reflexivity|cbn; lia]|]. intros v n1 _ _. h_tac.
  - eapply ht_bind; [apply (Het (IIdx 0)); reflexivity|]. intros r n1 _ _. h_tac.
  - eapply ht_bind; [apply (Het (IIdx 0)); reflexivity|]. intros r n1 _ _. h_tac.
  - eapply ht_weaken; [apply (Hee (IIdx 0)); [reflexivity|cbn; lia]|apply le_01].
  - h_tac.
  - (* EOpen *)
    eapply ht_bind; [apply ht_call|]. intros failed n1 _ _. eapply ht_bind; [apply ht_emit|]. intros _ n2 _ _. cbv zeta.
    destruct (if failed then None else alookup provider (w_provs W)) as [p|] eqn:Ep.
    + assert (Hal : alookup provider (w_provs W) = Some p) by (destruct failed; [discriminate Ep|exact Ep]).
      eapply ht_bind with (Q1 := anyq); [apply ht_ret; intros; exact I|]. intros _ n3 _ _.
      eapply ht_bind; [apply (Het (IIdx 0)); reflexivity|]. intros [iv ok] n4 _ Hiv. cbn [fst] in Hiv.
      destruct (negb ok || contains_unknowns iv || w_check W); [leaf1|].
      destruct (export_t iv) as [xin|] eqn:Ex; [|h_tac].
      destruct xin as [sx ux x0|sx ux lx|sx ux mx]; [h_tac|h_tac|].
      eapply ht_bind; [apply ht_call|]. intros failed2 n5 Hn5 _. eapply ht_bind; [apply ht_emit|]. intros _ n6 Hn6 _.
      cbv zeta. destruct failed2; [h_tac|].
      destruct (pv_beh p) as [|v|] eqn:Eb; [| |h_tac].
      * apply ht_ret. intros N HN. unfold le.
        pose proof (cdepth_unexport (S (x_depth (XObj sx ux mx))) false (XObj sx ux mx)). pose proof (x_depth_export _ _ _ (export_t_sound _ _ Ex)). lia.
      * apply ht_ret. intros N HN. unfold le.
        pose proof (cdepth_unexport (S (x_depth v)) false v). pose proof (Hprov _ _ _ Hal Eb). lia.
    + eapply ht_bind; [apply ht_err|]. intros _ n3 _ _.
      eapply ht_bind; [apply (Het (IIdx 0)); reflexivity|]. intros [iv ok] n4 _ _. leaf1.
  - leaf1.
Qed.

(* ---------------- the five functions ---------------- *)
Lemma at_id_no_json id x : at_id E id x -> no_json x = true.
Proof. intros [_ H]. apply (sub_at_good (max_path (root_of E)) _ _ _ (conj Hnj (le_n _)) H). Qed.

Definition D5 (f : nat) : Prop :=
  (forall x xsec xbase id n, at_id E id x -> cdepth xbase <= Dx -> ht n (eval_expr W f E x xsec xbase id) (le 0)) /\
  (forall x xbase id n, at_id E id x -> cdepth xbase <= Dx -> ht n (eval_repr W f E x xbase id) (le 1)) /\
  (forall x a id n, at_id E id x -> ht n (eval_typed W f E x a id) (fun r N => cdepth (fst r) <= Dx + N)) /\
  (forall p n, ht n (eval_access W f E p) (le 0)) /\
  (forall rx rsec rbase rid accs n, at_id E rid rx -> cdepth rbase <= Dx ->
     ht n (walk W f E rx rsec rbase rid accs) (le 0)).

Lemma D5_all : forall f, D5 f.
Proof.
  induction f as [|f IH].
  - unfold D5; split5; intros; try apply ht_fail_oof.
    + eapply ht_weaken; [apply ht_fail_oof|apply le_01].
    + eapply ht_bind; [apply ht_oof|]. intros _ n1 _ _. apply ht_ret. intros N _. cbn [fst]. rewrite cdepth_invalid. lia.
  - destruct IH as (He & Hr & Ht & Ha & Hw). unfold D5; split5.
    + intros x xsec xbase id n Hat Hxb. rewrite eval_expr_S. apply expr_body_ht; auto.
      intros s. apply (F5_all W f).
    + intros x xbase id n Hat Hxb. rewrite eval_repr_S. apply repr_body_ht; auto.
      * eapply at_id_no_json, Hat.
      * intros stp e b c n' Hc Hcb. apply He; [eapply at_id_child; eassumption|exact Hcb].
      * intros stp e a n' Hc. apply Ht. eapply at_id_child; eassumption.
    + intros x a id n Hat. rewrite eval_typed_S. apply typed_body_ht. intro n'. apply He; [exact Hat|cbn; lia].
    + intros p n. rewrite eval_access_S. apply access_body_ht. intro n'. apply Hw; [split; reflexivity|exact Hbase].
    + intros rx rsec rbase rid accs n Hat Hrb. rewrite walk_S. apply walk_body_ht; auto.
      intros stp y b c accs' n' Hc Hcb. apply Hw; [eapply at_id_child; eassumption|exact Hcb].
Qed.

End DEPTH.
