(* Proofs/BuiltinsMain.v — C02, second half, at the level of eval_env: in a run without diagnostics, without fuel
   exhaustion and without unknown layers, a key defined by an expression e exports the DENOTATION of e
   (BuiltinsDen.den: built-ins = their documented functions [spec_*] of the denotations of their arguments,
   references = the value found at their path in the exported final value). *)
From Verif Require Import Base.Bytes Model.Chain Model.GoText Model.Envelope Model.Eval
  Proofs.EvalTotalBase Proofs.EvalTotalInv Proofs.EvalTotalOrder Proofs.EvalTotalSyntax Proofs.EvalTotalFail
  Proofs.EvalTotalRecover Proofs.EvalTotalBound
  Proofs.ChainAlgebraSorted Proofs.ChainAlgebraExport Proofs.RefSemAccess Proofs.RefSemWf Proofs.RefSemMemo
  Proofs.RefSem Proofs.RefSemSorted Proofs.RefSemMain Proofs.RefSem2Interp Proofs.EnvelopeBase64
  Proofs.BuiltinsKit Proofs.BuiltinsMemo Proofs.BuiltinsValidate Proofs.BuiltinsSpec Proofs.BuiltinsDen.
From Coq Require Import Lia.

(* a scalar-valued expression denotes a known scalar *)
Lemma scalar_valued_den W name xv e xa : scalar_valued e = true -> den W name xv e = Some xa ->
  exists s t, xa = XScalar s false t.
Proof.
  destruct e; try discriminate; intros _ H; cbn [den] in H.
  - injection H as <-. eauto.
  - injection H as <-. eauto.
  - injection H as <-. eauto.
  - injection H as <-. eauto.
  - unfold spec_interp in H. destruct (forallb _ parts); [|discriminate H]. injection H as <-. eauto.
  - destruct (den W name xv e1) as [xd|]; [|discriminate H]. destruct (den W name xv e2) as [xs|]; [|discriminate H].
    cbn [bindo] in H. unfold spec_join in H. destruct xd as [sd [|] [| | |dl]| |]; try discriminate H.
    destruct xs as [|sa [|] elems|]; try discriminate H. destruct (mapM x_str elems); [|discriminate H].
    injection H as <-. eauto.
  - destruct (den W name xv e) as [x|]; [|discriminate H]. cbn [bindo] in H. unfold spec_tojson in H.
    destruct (x_has_unknown x); [discriminate H|]. destruct (Nat.leb _ _); [|discriminate H]. cbv zeta in H.
    destruct (json_all_ascii _ _); [|discriminate H]. injection H as <-. eauto.
  - destruct (den W name xv e) as [x|]; [|discriminate H]. cbn [bindo] in H.
    destruct x as [s [|] sc| |]; try discriminate H. injection H as <-. eauto.
  - destruct (den W name xv e) as [x|]; [|discriminate H]. cbn [bindo] in H.
    destruct x as [s [|] [| | |t]| |]; try discriminate H. injection H as <-. eauto.
  - destruct (den W name xv e) as [x|]; [|discriminate H]. cbn [bindo] in H.
    destruct x as [s [|] [| | |t]| |]; try discriminate H. cbn [spec_fromb64] in H.
    destruct (b64_decode t); [|discriminate H]. injection H as <-. eauto.
  - injection H as <-. eauto.
  - unfold spec_cipher in H. destruct (decode_ct esc_params repr); try discriminate H.
    destruct (w_check W && negb (w_show W)); [discriminate H|]. destruct (w_decrypt W name ct); [|discriminate H].
    injection H as <-. eauto.
Qed.

Section BMAIN.
Variable W : world.

(* the built-in invariant holds of the final memo table of a clean run *)
Lemma final_builtins f root name d s :
  untouched name s -> clean (snd (eval_env W (S f) root name d s)) ->
  QB W (env_E W f root name d s) (memo (snd (eval_env W (S f) root name d s))).
Proof.
  intros Hu Hc. rewrite eval_env_unfold in *. set (E := env_E W f root name d s) in *.
  set (s3 := env_s3 W f root name d s) in *.
  assert (HJ3 : JB W E s3).
  { intros _ id x v [Hn _] Hd. exfalso. unfold done in Hd.
    pose proof (env_s3_untouched W f root name d s Hu (snd id)) as Hun. fold s3 in Hun.
    destruct id as [n q]. cbn [fst snd] in *. change (ec_name E) with name in Hn. subst n.
    rewrite Hun in Hd. discriminate Hd. }
  destruct (JB5_all W E f) as (He & _).
  apply (He (root_of E) false (env_base W f root name d s) (name, []) (conj eq_refl eq_refl) eq_refl eq_refl s3 HJ3 Hc).
Qed.

(* THE THEOREM: key k, defined as e, exports den e *)
Theorem builtin_denotes fuel root name d k e :
  let r := eval_env W fuel root name d st0 in
  nerr (snd r) = 0 -> oof (snd r) = false ->
  alookup k (ed_values d) = Some e -> reserved k = false ->
  cknown (fst r) = true ->
  forall xv, export big_fuel (fst r) = Some xv ->
  forall xa, den W name xv e = Some xa ->
  (property k (tl (fst r)) = [] \/ scalar_valued e = true) ->
  export big_fuel (property k (fst r)) = Some xa.
Proof.
  intros r Hn Ho Hk Hres Hkn xv Hx xa Hden Hbs. unfold r in *. destruct fuel as [|f]; [discriminate Ho|].
  assert (Hc : clean (snd (eval_env W (S f) root name d st0))) by (split; assumption).
  destruct (final_state W f root name d st0 (untouched_st0 name) Hc) as (HQ & Hd & props & Hv & Hkeys & Hprops).
  pose proof (final_builtins f root name d st0 (untouched_st0 name) Hc) as HQB.
  pose proof (final_interp W f root name d st0 (untouched_st0 name) Hc) as HQI.
  set (E := env_E W f root name d st0) in *. set (c := fst (eval_env W (S f) root name d st0)) in *.
  set (m := memo (snd (eval_env W (S f) root name d st0))) in *.
  set (base := env_base W f root name d st0) in *.
  assert (Hg : cgood c = true) by (apply cgood_of_known_sorted; [exact Hkn|apply eval_env_sorted]).
  assert (Hal : alookup k (ec_values E) = Some e).
  { change (ec_values E) with (filter (fun kv => negb (reserved (fst kv))) (ed_values d)).
    rewrite (alookup_filter_key (fun k => negb (reserved k))); [exact Hk|rewrite Hres; reflexivity]. }
  assert (Hin : In k (map fst props)).
  { rewrite Hkeys. apply (proj2 (proj2 (declared_keys_of_spec (ec_values E)))).
    apply alookup_in in Hal. apply (in_map fst) in Hal. exact Hal. }
  pose proof Hin as Hin'. apply alookup_Some_In in Hin'. destruct Hin' as [Vk HVk]. pose proof (Hprops _ _ HVk) as Hdk.
  assert (Hat0 : at_id E (name, []) (root_of E)) by (split; reflexivity).
  assert (Hatk : at_id E (name, [IKey k]) e) by (apply (at_id_child E (name, []) (root_of E) (IKey k) e Hat0 Hal)).
  assert (Hpsk : psec E (snd (name, [IKey k])) = false) by (apply (psec_child E (name, []) (root_of E) (IKey k) Hat0)).
  assert (Hxbk : xbof E (name, [IKey k]) = property k base) by reflexivity.
  assert (Hpk : property k c = Vk ++ property k base).
  { rewrite Hv. unfold obj_layer. cbn [property]. rewrite HVk. reflexivity. }
  rewrite Hv in Hbs. cbn [tl] in Hbs.
  assert (Hsound : forall fe, (x_depth xa <= fe)%nat -> export fe Vk = Some xa).
  { apply (den_sound W E m HQ HQB HQI c xv Hd Hg Hx e (name, [IKey k]) Vk xa Hatk Hpsk Hdk Hden).
    rewrite Hxbk. exact Hbs. }
  rewrite Hpk. destruct Hbs as [Hb|Hb].
  - (* nothing inherited under k *)
    rewrite Hb, app_nil_r.
    assert (Hink : In k (keys c)).
    { rewrite Hv. unfold obj_layer. cbn [keys]. apply sunion_in_r. exact Hin. }
    rewrite Hv in Hx, Hink. unfold obj_layer in Hx, Hink.
    destruct (export_obj_member _ _ _ _ _ _ _ k Hx Hink) as (fe' & mm & xk & Hfe & _ & _ & Hxk).
    cbn [property] in Hxk. rewrite HVk in Hxk. fold base in Hxk. rewrite Hb, app_nil_r in Hxk.
    assert (Hmax : export (Nat.max fe' (x_depth xa)) Vk = Some xk) by (eapply export_fuel_mono; [exact Hxk|lia]).
    rewrite (Hsound (Nat.max fe' (x_depth xa))) in Hmax by lia. injection Hmax as <-.
    eapply export_fuel_mono; [exact Hxk|lia].
  - (* a scalar on top hides what is inherited *)
    destruct (scalar_valued_den W name xv e xa Hb Hden) as (s0 & t0 & ->).
    pose proof (Hsound 1%nat (le_n 1)) as H1.
    destruct (export_known_scalar_inv _ _ _ _ H1) as (sch & r0 & ->).
    apply export_scalar_top. destruct big_fuel_S as [g ->]. discriminate.
Qed.

(* ---- the built-ins one by one (instances of the theorem; [dn] = denotation of the argument expressions) ---- *)
Section INSTANCES.
Variables (fuel : nat) (root name : string) (d : envdef).
Notation r := (eval_env W fuel root name d st0).
Hypothesis Hn : nerr (snd r) = 0.
Hypothesis Ho : oof (snd r) = false.
Hypothesis Hkn : cknown (fst r) = true.
Variable xv : xval.
Hypothesis Hx : export big_fuel (fst r) = Some xv.
Notation dn := (den W name xv).

Theorem join_denotes k dl vs xd xs xa :
  alookup k (ed_values d) = Some (EJoin dl vs) -> reserved k = false ->
  dn dl = Some xd -> dn vs = Some xs -> spec_join xd xs = Some xa ->
  export big_fuel (property k (fst r)) = Some xa.
Proof.
  intros Hk Hres H1 H2 H3. apply (builtin_denotes fuel root name d k (EJoin dl vs) Hn Ho Hk Hres Hkn xv Hx xa).
  - cbn [den]. rewrite H1, H2. exact H3.
  - right. reflexivity.
Qed.

Theorem tojson_denotes k e x xa :
  alookup k (ed_values d) = Some (EToJSON e) -> reserved k = false ->
  dn e = Some x -> spec_tojson x = Some xa -> export big_fuel (property k (fst r)) = Some xa.
Proof.
  intros Hk Hres H1 H2. apply (builtin_denotes fuel root name d k (EToJSON e) Hn Ho Hk Hres Hkn xv Hx xa).
  - cbn [den]. rewrite H1. exact H2.
  - right. reflexivity.
Qed.

Theorem fromjson_denotes k e x xa :
  alookup k (ed_values d) = Some (EFromJSON e) -> reserved k = false -> property k (tl (fst r)) = [] ->
  dn e = Some x -> spec_fromjson x = Some xa -> export big_fuel (property k (fst r)) = Some xa.
Proof.
  intros Hk Hres Hb H1 H2. apply (builtin_denotes fuel root name d k (EFromJSON e) Hn Ho Hk Hres Hkn xv Hx xa).
  - cbn [den]. rewrite H1. exact H2.
  - left. exact Hb.
Qed.

Theorem tob64_denotes k e x xa :
  alookup k (ed_values d) = Some (EToB64 e) -> reserved k = false ->
  dn e = Some x -> spec_tob64 x = Some xa -> export big_fuel (property k (fst r)) = Some xa.
Proof.
  intros Hk Hres H1 H2. apply (builtin_denotes fuel root name d k (EToB64 e) Hn Ho Hk Hres Hkn xv Hx xa).
  - cbn [den]. rewrite H1. exact H2.
  - right. reflexivity.
Qed.

Theorem fromb64_denotes k e x xa :
  alookup k (ed_values d) = Some (EFromB64 e) -> reserved k = false ->
  dn e = Some x -> spec_fromb64 x = Some xa -> export big_fuel (property k (fst r)) = Some xa.
Proof.
  intros Hk Hres H1 H2. apply (builtin_denotes fuel root name d k (EFromB64 e) Hn Ho Hk Hres Hkn xv Hx xa).
  - cbn [den]. rewrite H1. exact H2.
  - right. reflexivity.
Qed.

Theorem tostring_scalar_denotes k e x xa :
  alookup k (ed_values d) = Some (EToString e) -> reserved k = false ->
  dn e = Some x -> spec_tostring_scalar x = Some xa -> export big_fuel (property k (fst r)) = Some xa.
Proof.
  intros Hk Hres H1 H2. apply (builtin_denotes fuel root name d k (EToString e) Hn Ho Hk Hres Hkn xv Hx xa).
  - cbn [den]. rewrite H1. exact H2.
  - right. reflexivity.
Qed.

Theorem interp_denotes_flag k parts :
  alookup k (ed_values d) = Some (EInterp parts) -> reserved k = false ->
  forallb (interp_part_ok xv) parts = true ->
  export big_fuel (property k (fst r))
  = Some (XScalar (existsb (interp_part_secret xv) parts) false (SStr (interp_text parts xv EmptyString))).
Proof.
  intros Hk Hres Hok. apply (builtin_denotes fuel root name d k (EInterp parts) Hn Ho Hk Hres Hkn xv Hx).
  - cbn [den]. unfold spec_interp. rewrite Hok. reflexivity.
  - right. reflexivity.
Qed.

Theorem secret_plain_denotes k s :
  alookup k (ed_values d) = Some (ESecretPlain s) -> reserved k = false ->
  export big_fuel (property k (fst r)) = Some (XScalar true false (SStr s)).
Proof.
  intros Hk Hres. apply (builtin_denotes fuel root name d k (ESecretPlain s) Hn Ho Hk Hres Hkn xv Hx).
  - reflexivity.
  - right. reflexivity.
Qed.

Theorem secret_cipher_denotes k repr ct pt :
  alookup k (ed_values d) = Some (ESecretCipher repr) -> reserved k = false ->
  decode_ct esc_params repr = DOk ct -> w_check W && negb (w_show W) = false -> w_decrypt W name ct = Some pt ->
  export big_fuel (property k (fst r)) = Some (XScalar true false (SStr pt)).
Proof.
  intros Hk Hres H1 H2 H3. apply (builtin_denotes fuel root name d k (ESecretCipher repr) Hn Ho Hk Hres Hkn xv Hx).
  - cbn [den]. unfold spec_cipher. rewrite H1, H2, H3. reflexivity.
  - right. reflexivity.
Qed.

Theorem open_denotes k pname e xin xa :
  alookup k (ed_values d) = Some (EOpen pname e) -> reserved k = false -> property k (tl (fst r)) = [] ->
  dn e = Some xin -> spec_open W pname xin = Some xa -> export big_fuel (property k (fst r)) = Some xa.
Proof.
  intros Hk Hres Hb H1 H2. apply (builtin_denotes fuel root name d k (EOpen pname e) Hn Ho Hk Hres Hkn xv Hx xa).
  - cbn [den]. rewrite H1. exact H2.
  - left. exact Hb.
Qed.

(* COMPOSED LAW: fn::fromBase64(fn::toBase64 e) exports the string e denotes, with its secrecy *)
Theorem fromb64_tob64_denotes k e sec s :
  alookup k (ed_values d) = Some (EFromB64 (EToB64 e)) -> reserved k = false ->
  dn e = Some (XScalar sec false (SStr s)) ->
  export big_fuel (property k (fst r)) = Some (XScalar sec false (SStr s)).
Proof.
  intros Hk Hres H1.
  apply (builtin_denotes fuel root name d k (EFromB64 (EToB64 e)) Hn Ho Hk Hres Hkn xv Hx).
  - cbn [den]. rewrite H1. cbn [bindo spec_tob64 spec_fromb64]. rewrite b64_decode_encode. reflexivity.
  - right. reflexivity.
Qed.

End INSTANCES.

End BMAIN.
