(* Proofs/EvalTotalBound.v — the termination argument (C07, first half): above an explicit bound the fuel
   never runs out.  Each call consumes one unit of fuel; recursion is on sub-expressions or on the shrinking
   accessor list of a reference; re-entry into an expression being evaluated is cut by the memo table
   (a second visit returns at once), so along any call chain the number of NOT YET VISITED expression
   identities of the environment strictly decreases at every new expression. *)
From Verif Require Import Base.Bytes Model.Chain Model.GoText Model.Envelope Model.Eval
  Proofs.EvalTotalBase Proofs.EvalTotalInv Proofs.EvalTotalOrder Proofs.EvalTotalSyntax Proofs.EvalTotalFail.
From Verif Require Proofs.RefSem2Depth.
From Coq Require Import Lia Sorting.Permutation.

(* ---------------- counting ---------------- *)
Lemma filter_length_le {A} (p p' : A -> bool) l :
  (forall x, p' x = true -> p x = true) -> (length (filter p' l) <= length (filter p l))%nat.
Proof.
  intro H. induction l as [|a r IH]; cbn [filter]; [lia|].
  destruct (p' a) eqn:E; [rewrite (H a E); cbn [length]; lia|]. destruct (p a); cbn [length]; lia.
Qed.

Lemma filter_length_lt {A} (p p' : A -> bool) l x :
  In x l -> p x = true -> p' x = false -> (forall y, p' y = true -> p y = true) ->
  (length (filter p' l) < length (filter p l))%nat.
Proof.
  intros Hin Hp Hp' H. induction l as [|a r IH]; [contradiction|]. cbn [filter].
  destruct Hin as [->|Hin].
  - rewrite Hp, Hp'. cbn [length]. pose proof (filter_length_le p p' r H). lia.
  - specialize (IH Hin). destruct (p' a) eqn:E; [rewrite (H a E); cbn [length]; lia|].
    destruct (p a); cbn [length]; lia.
Qed.

Lemma filter_len {A} (p : A -> bool) l : (length (filter p l) <= length l)%nat.
Proof. induction l as [|a r IH]; cbn [filter length]; [lia|]. destruct (p a); cbn [length]; lia. Qed.

Lemma In_insert_sorted {A} (e x : nat * string * A) l : In x (insert_sorted e l) -> x = e \/ In x l.
Proof.
  induction l as [|a r IH]; cbn [insert_sorted]; [intros [<-|[]]; auto|].
  destruct (String.ltb _ _); cbn [In]; [intuition|]. intros [<-|H]; [auto|]. destruct (IH H); auto.
Qed.

Lemma In_sort_entries {A} (x : nat * string * A) l : In x (sort_entries l) -> In x l.
Proof.
  unfold sort_entries. assert (G : forall acc, In x (fold_left (fun acc e => insert_sorted e acc) l acc) -> In x l \/ In x acc).
  { induction l as [|e r IH]; intros acc H; [right; exact H|]. cbn [fold_left] in H.
    destruct (IH _ H) as [H1|H1]; [left; right; exact H1|].
    destruct (In_insert_sorted _ _ _ H1) as [->|H2]; [left; left; reflexivity|right; exact H2]. }
  intro H. destruct (G [] H) as [H1|[]]. exact H1.
Qed.

Section BOUND.
Variable W : world.

Definition root_of (E : ectx) : expr := EObj (ec_values E).

Definition unvisited (n : string) (s : st) (p : list idstep) : bool :=
  match memo_get (n, p) (memo s) with None => true | Some _ => false end.

(* number of expression positions of the environment not yet entered *)
Definition U (E : ectx) (s : st) : nat :=
  length (filter (unvisited (ec_name E) s) (all_paths (root_of E))).

Definition at_id (E : ectx) (id : eid) (x : expr) : Prop :=
  fst id = ec_name E /\ sub_at (root_of E) (snd id) = Some x.

Lemma U_le E s s' :
  (forall id, memo_get id (memo s) <> None -> memo_get id (memo s') <> None) -> (U E s' <= U E s)%nat.
Proof.
  intro H. apply filter_length_le. intros p. unfold unvisited.
  specialize (H (ec_name E, p)). destruct (memo_get _ (memo s')); [discriminate|].
  destruct (memo_get _ (memo s)); [|reflexivity]. exfalso. apply H; [discriminate|reflexivity].
Qed.

Lemma U_st_le E s s' : st_le s s' -> (U E s' <= U E s)%nat.
Proof. intro H. apply U_le. apply (le_memo _ _ H). Qed.

Lemma U_mark E id x v s :
  at_id E id x -> memo_get id (memo s) = None -> (U E (snd (memo_set id v s)) + 1 <= U E s)%nat.
Proof.
  intros [Hn Hs] Hm. destruct id as [n p]. cbn [fst snd] in *. subst n.
  assert (H : (U E (snd (memo_set (ec_name E, p) v s)) < U E s)%nat); [|lia].
  unfold U. apply filter_length_lt with (x := p).
  - eapply sub_at_in_paths, Hs.
  - unfold unvisited. rewrite Hm. reflexivity.
  - unfold unvisited. cbn [memo_set snd memo]. rewrite memo_get_cons, eid_eqb_refl. reflexivity.
  - intros q. unfold unvisited. cbn [memo_set snd memo]. rewrite memo_get_cons.
    destruct (eid_eqb _ _); [discriminate|auto].
Qed.

Lemma sub_at_good L : forall p x y, good L x -> sub_at x p = Some y -> good L y.
Proof.
  induction p as [|stp q IH]; intros x y Hg H; cbn [sub_at] in H; [injection H as <-; exact Hg|].
  destruct (child x stp) as [z|] eqn:Hc; [|discriminate]. eapply IH; [eapply child_good; eassumption|exact H].
Qed.

Lemma at_id_child E id x stp y : at_id E id x -> child x stp = Some y -> at_id E (fst id, snd id ++ [stp]) y.
Proof. intros [Hn Hs] Hc. split; [exact Hn|]. cbn [snd]. rewrite sub_at_app, Hs. exact Hc. Qed.

(* ---------------- "safe": the fuel flag stays clear and the count does not grow ---------------- *)
Definition safe {A} (E : ectx) (u : nat) (m : M A) : Prop :=
  forall s, (U E s <= u)%nat -> oof s = false -> (U E (snd (m s)) <= u)%nat /\ oof (snd (m s)) = false.

Lemma safe_of_mono {A} E u (m : M A) :
  mono m -> (forall s, (U E s <= u)%nat -> oof s = false -> oof (snd (m s)) = false) -> safe E u m.
Proof.
  intros Hm H s Hu Ho. split; [|apply H; assumption].
  pose proof (U_st_le E _ _ (Hm s)). lia.
Qed.

Lemma safe_ret {A} E u (a : A) : safe E u (ret a).
Proof. intros s Hu Ho. split; assumption. Qed.
Lemma safe_bind {A B} E u (m : M A) (k : A -> M B) : safe E u m -> (forall a, safe E u (k a)) -> safe E u (bind m k).
Proof.
  intros Hm Hk s Hu Ho. rewrite bind_eq. destruct (Hm s Hu Ho) as [Hu1 Ho1]. apply Hk; assumption.
Qed.
Lemma safe_add_err E u n : safe E u (add_err n).
Proof. intros s Hu Ho. split; assumption. Qed.
Lemma safe_err E u : safe E u err.
Proof. apply safe_add_err. Qed.
Lemma safe_emit E u e : safe E u (emit e).
Proof. intros s Hu Ho. split; assumption. Qed.
Lemma safe_call E u : safe E u (call W).
Proof. intros s Hu Ho. split; assumption. Qed.
Lemma safe_get_memo E u id : safe E u (get_memo id).
Proof. intros s Hu Ho. split; assumption. Qed.
Lemma safe_memo_set E u id v : safe E u (memo_set id v).
Proof.
  intros s Hu Ho. split; [|exact Ho].
  pose proof (U_st_le E _ _ (mono_memo_set id v s)). lia.
Qed.

Ltac s_step :=
  first
  [ assumption
  | apply safe_ret | apply safe_err | apply safe_add_err | apply safe_emit | apply safe_call
  | apply safe_get_memo | apply safe_memo_set
  | apply safe_bind; [ | intro ]
  | match goal with |- safe _ _ (match ?x with _ => _ end) => destruct x eqn:? end
  | progress cbv beta zeta ].
Ltac s_tac := repeat s_step.

(* ---------------- the loops ---------------- *)
Lemma interp_go_safe E u (ea : path -> M chain) ps :
  (forall text p, In (text, Some p) ps -> safe E u (ea p)) ->
  forall acc unk sec, safe E u (interp_go ea ps acc unk sec).
Proof.
  induction ps as [|[text [p|]] r IH]; intros H acc unk sec.
  - rewrite interp_go_nil. apply safe_ret.
  - rewrite interp_go_ref. apply safe_bind; [apply (H text p); left; reflexivity|]. intro pv.
    destruct (to_string (ts_need pv) pv) as [[s0 u0] sc]. apply IH. intros t q Hin. apply (H t q). right. exact Hin.
  - rewrite interp_go_text. apply IH. intros t q Hin. apply (H t q). right. exact Hin.
Qed.

Lemma arr_go_safe E u (ee : expr -> bool -> chain -> eid -> M chain) id es :
  forall i,
  (forall j e, nth_error es j = Some e -> safe E u (ee e false [] (fst id, snd id ++ [IIdx (i + j)]))) ->
  forall acc, safe E u (arr_go ee id es i acc).
Proof.
  induction es as [|e r IH]; intros i H acc.
  - rewrite arr_go_nil. apply safe_ret.
  - rewrite arr_go_cons. apply safe_bind.
    + specialize (H 0%nat e eq_refl). rewrite Nat.add_0_r in H. exact H.
    + intro v. apply IH. intros j e' Hj. specialize (H (S j) e' Hj).
      replace (S i + j)%nat with (i + S j)%nat by lia. exact H.
Qed.

Lemma obj_go_safe E u (ee : expr -> bool -> chain -> eid -> M chain) xbase id ds :
  (forall j k e, In (j, k, e) ds -> safe E u (ee e false (property k xbase) (fst id, snd id ++ [IKey k]))) ->
  forall acc, safe E u (obj_go ee xbase id ds acc).
Proof.
  induction ds as [|[[j k] e] r IH]; intros H acc.
  - rewrite obj_go_nil. apply safe_ret.
  - rewrite obj_go_cons. apply safe_bind; [apply (H j k e); left; reflexivity|].
    intro v. apply IH. intros j' k' e' Hin. apply (H j' k' e'). right. exact Hin.
Qed.

(* ---------------- the bodies ---------------- *)
Lemma expr_body_safe E u er x xsec xbase id :
  at_id E id x ->
  ((1 <= u)%nat -> safe E (u - 1) (er x xbase id)) ->
  safe E u (expr_body er x xsec xbase id).
Proof.
  intros Hid Her s Hu Ho. unfold expr_body. rewrite bind_eq.
  change (get_memo id s) with (memo_get id (memo s), s). cbn [fst snd].
  destruct (memo_get id (memo s)) as [[v|]|] eqn:Em.
  - exact (conj Hu Ho).
  - exact (conj Hu Ho).
  - rewrite bind_eq. cbv beta. rewrite bind_eq. cbv beta zeta. rewrite bind_eq.
    pose proof (U_mark E id x None s Hid Em) as Hm.
    set (s1 := snd (memo_set id None s)) in *.
    assert (H1 : (1 <= u)%nat) by lia.
    destruct (Her H1 s1) as [Hu2 Ho2]; [lia|exact Ho|].
    set (s2 := snd (er x xbase id s1)) in *.
    match goal with |- context [memo_set id ?v s2] =>
      destruct (safe_memo_set E (u - 1) id v s2 Hu2 Ho2) as [Hu3 Ho3] end.
    cbn [ret snd]. split; [lia|exact Ho3].
Qed.

Lemma typed_body_safe E u ee x a id :
  safe E u (ee x false [] id) -> safe E u (typed_body ee x a id).
Proof. intro H. unfold typed_body. s_tac. Qed.

Lemma access_body_safe E u wk p :
  safe E u (wk (root_of E) false (ec_base E) (ec_name E, []) p) -> safe E u (access_body wk E p).
Proof.
  intro H. unfold access_body. destruct p as [|a0 rest]; [apply safe_ret|].
  cbv zeta. rewrite root_dispatch. s_tac.
Qed.

Definition sp (x : expr) : nat := match x with ESecretPlain _ => 1%nat | _ => 0%nat end.
Lemma sp_le x : (sp x <= 1)%nat. Proof. destruct x; cbn; lia. Qed.

Lemma array_index_lt a n i : array_index a (Z.of_nat n) = Some i -> (i < n)%nat.
Proof.
  unfold array_index. destruct a as [| |z]; try discriminate.
  destruct (z <? 0)%Z eqn:E1; [discriminate|].
  destruct ((0 <=? Z.of_nat n)%Z && (Z.of_nat n <=? z)%Z) eqn:E2; [discriminate|].
  intros [= <-]. apply andb_false_iff in E2. lia.
Qed.

Lemma walk_body_safe E u ee wk rx rsec rbase rid accs :
  safe E u (ee rx rsec rbase rid) ->
  (forall stp y b c accs', child rx stp = Some y ->
     (2 * length accs' + sp y + 1 <= 2 * length accs + sp rx)%nat ->
     safe E u (wk y b c (fst rid, snd rid ++ [stp]) accs')) ->
  safe E u (walk_body ee wk rx rsec rbase rid accs).
Proof.
  intros Hee Hwk. unfold walk_body. destruct accs as [|a rest]; [exact Hee|].
  destruct rx; try solve [s_tac].
  - (* EArr *)
    destruct (array_index a (Z.of_nat (length l))) as [i|] eqn:Ei; [|s_tac].
    apply array_index_lt in Ei. apply Hwk.
    + cbn [child]. rewrite (nth_error_nth' l EMissing Ei). reflexivity.
    + pose proof (sp_le (nth i l EMissing)). cbn [length sp]. lia.
  - (* EObj *)
    destruct (object_key a) as [k|]; [|s_tac].
    destruct (find_entry k l 0%nat) as [[j px]|] eqn:Ef; [|s_tac].
    apply Hwk.
    + cbn [child]. rewrite <- (find_entry_alookup k l 0%nat), Ef. reflexivity.
    + pose proof (sp_le px). cbn [length sp]. lia.
  - (* ESecretPlain *)
    apply Hwk; [reflexivity|]. cbn [length sp]. lia.
Qed.

(* the [None] branch of fn::open's export is dead because [export_t] is total (it used to be dead only because
   contains_unknowns answered `true` when its export ran out of fuel) *)
Lemma dead_export iv ok (b : bool) :
  negb ok || contains_unknowns iv || b = false -> export_t iv = None -> False.
Proof. intros _ H. exact (RefSem2Depth.export_t_not_none iv H). Qed.

Lemma repr_body_safe E u ee et ea x xbase id :
  no_json x = true ->
  (forall stp e b c, child x stp = Some e -> safe E u (ee e b c (fst id, snd id ++ [stp]))) ->
  (forall stp e a, child x stp = Some e -> safe E u (et e a (fst id, snd id ++ [stp]))) ->
  (forall p, (length p <= max_path x)%nat -> safe E u (ea p)) ->
  safe E u (repr_body W ee et ea E x xbase id).
Proof.
  intros Hj Hee Het Hea. destruct x; unfold repr_body; try discriminate Hj.
  - apply safe_ret. - apply safe_ret. - apply safe_ret. - apply safe_ret.
  - (* EInterp *)
    apply interp_go_safe. intros text p Hin. apply Hea. eapply max_path_interp_in, Hin.
  - (* ESym *) apply Hea. cbn [max_path]. lia.
  - (* EArr *)
    apply arr_go_safe. intros j e Hj'. apply Hee. exact Hj'.
  - (* EObj *)
    destruct (declared l 0%nat []) as [decl dups] eqn:Ed. apply safe_bind; [apply safe_add_err|]. intros _.
    apply obj_go_safe. intros j k e Hin. apply Hee. cbn [child].
    apply In_sort_entries in Hin. replace decl with (fst (declared l 0%nat [])) in Hin by (rewrite Ed; reflexivity).
    destruct (declared_first l _ _ _ _ _ Hin) as [Hf _].
    rewrite <- (find_entry_alookup k l 0%nat), Hf. reflexivity.
  - (* EJoin *)
    apply safe_bind; [apply (Het (IIdx 0)); reflexivity|]. intro dr.
    apply safe_bind; [apply (Het (IIdx 1)); reflexivity|]. intro vr. s_tac.
  - (* EToString *)
    apply safe_bind; [apply (Hee (IIdx 0)); reflexivity|]. intro v. s_tac.
  - (* EToB64 *)
    apply safe_bind; [apply (Het (IIdx 0)); reflexivity|]. intro r. s_tac.
  - (* EFromB64 *)
    apply safe_bind; [apply (Het (IIdx 0)); reflexivity|]. intro r. s_tac.
  - (* ESecretPlain *)
    apply (Hee (IIdx 0)). reflexivity.
  - (* ESecretCipher *) s_tac.
  - (* EOpen *)
    apply safe_bind; [apply safe_call|]. intro failed. apply safe_bind; [apply safe_emit|]. intros _.
    cbv zeta. apply safe_bind; [s_tac|]. intros _.
    apply safe_bind; [apply (Het (IIdx 0)); reflexivity|]. intros [iv ok].
    s_tac. exfalso. eapply dead_export; eassumption.
  - apply safe_ret.
Qed.

(* ---------------- the expression family ---------------- *)
Definition K (L : nat) : nat := (2 * L + 4)%nat.

Lemma mul_pred k u : (1 <= u)%nat -> (k * (u - 1) + k = k * u)%nat.
Proof. intro H. destruct u as [|u]; [lia|]. replace (S u - 1)%nat with u by lia. rewrite Nat.mul_succ_r. lia. Qed.

Definition B5 (f : nat) : Prop :=
  (forall E L x xsec xbase id u, good L (root_of E) -> at_id E id x -> (K L * u + 1 <= f)%nat ->
     safe E u (eval_expr W f E x xsec xbase id)) /\
  (forall E L x xbase id u, good L (root_of E) -> at_id E id x -> (K L * u + K L <= f)%nat ->
     safe E u (eval_repr W f E x xbase id)) /\
  (forall E L x a id u, good L (root_of E) -> at_id E id x -> (K L * u + 2 <= f)%nat ->
     safe E u (eval_typed W f E x a id)) /\
  (forall E L p u, good L (root_of E) -> (K L * u + 2 * length p + 3 <= f)%nat ->
     safe E u (eval_access W f E p)) /\
  (forall E L rx rsec rbase rid accs u, good L (root_of E) -> at_id E rid rx ->
     (K L * u + 2 * length accs + 2 + sp rx <= f)%nat ->
     safe E u (walk W f E rx rsec rbase rid accs)).

Lemma B5_all : forall f, B5 f.
Proof.
  induction f as [|f IH].
  - unfold B5; split5; intros; exfalso; pose proof (eq_refl : K L = (2 * L + 4)%nat); lia.
  - destruct IH as (He & Hr & Ht & Ha & Hw). unfold B5; split5.
    + intros E L x xsec xbase id u Hg Hid Hf. rewrite eval_expr_S. apply expr_body_safe; [exact Hid|].
      intro Hu. apply (Hr E L); [exact Hg|exact Hid|]. pose proof (mul_pred (K L) u Hu). lia.
    + intros E L x xbase id u Hg Hid Hf. rewrite eval_repr_S.
      pose proof (eq_refl : K L = (2 * L + 4)%nat) as HK.
      destruct (sub_at_good L _ _ _ Hg (proj2 Hid)) as [Hj Hm].
      apply repr_body_safe; [exact Hj| | |].
      * intros stp e b c Hc. apply (He E L); [exact Hg|eapply at_id_child; eassumption|lia].
      * intros stp e a Hc. apply (Ht E L); [exact Hg|eapply at_id_child; eassumption|lia].
      * intros p Hp. apply (Ha E L); [exact Hg|lia].
    + intros E L x a id u Hg Hid Hf. rewrite eval_typed_S. apply typed_body_safe.
      apply (He E L); [exact Hg|exact Hid|lia].
    + intros E L p u Hg Hf. rewrite eval_access_S. apply access_body_safe.
      apply (Hw E L); [exact Hg|split; reflexivity|]. cbn [sp root_of]. lia.
    + intros E L rx rsec rbase rid accs u Hg Hid Hf. rewrite walk_S. apply walk_body_safe.
      * apply (He E L); [exact Hg|exact Hid|lia].
      * intros stp y b c accs' Hc Hlen. apply (Hw E L); [exact Hg|eapply at_id_child; eassumption|lia].
Qed.

(* Theorem 5, expression level: with fuel K * (number of positions) + 1 an expression of a JSON-free
   environment never exhausts the fuel, whatever the references (cyclic, dangling) and collaborators do *)
Theorem eval_expr_fuel_suffices f E x xsec xbase id s :
  no_json (root_of E) = true -> at_id E id x ->
  (K (max_path (root_of E)) * length (all_paths (root_of E)) + 1 <= f)%nat ->
  oof s = false -> oof (snd (eval_expr W f E x xsec xbase id s)) = false.
Proof.
  intros Hj Hid Hf Ho. destruct (B5_all f) as (He & _).
  apply (He E (max_path (root_of E)) x xsec xbase id (length (all_paths (root_of E)))); auto.
  - split; [exact Hj|lia].
  - unfold U. apply filter_len.
Qed.

(* ---------------- environments ---------------- *)
Definition vals_of (d : envdef) : list (string * expr) :=
  filter (fun kv => negb (reserved (fst kv))) (ed_values d).
Definition def_cost (d : envdef) : nat :=
  (K (max_path (EObj (vals_of d))) * length (all_paths (EObj (vals_of d))) + 1)%nat.
Definition good_def (d : envdef) : Prop := no_json (EObj (vals_of d)) = true.

Definition unseen (s : st) (n : string) : bool := match alookup n (imps s) with None => true | Some _ => false end.
(* environments the loader knows that have not been entered yet *)
Definition avail (s : st) : nat := length (filter (unseen s) (map fst (w_envs W))).
Definition enter (name : string) (s : st) : st :=
  snd (imps_set name {| is_evaluating := true; is_value := None |} s).

Lemma avail_le s s' : (forall n, alookup n (imps s) <> None -> alookup n (imps s') <> None) -> (avail s' <= avail s)%nat.
Proof.
  intro H. apply filter_length_le. intro n. unfold unseen. specialize (H n).
  destruct (alookup n (imps s')); [discriminate|]. destruct (alookup n (imps s)); [|reflexivity].
  exfalso. apply H; [discriminate|reflexivity].
Qed.

Lemma avail_st_le s s' : st_le s s' -> (avail s' <= avail s)%nat.
Proof. intro H. apply avail_le, (le_imps _ _ H). Qed.

Lemma avail_enter n s : In n (map fst (w_envs W)) -> alookup n (imps s) = None -> (avail (enter n s) < avail s)%nat.
Proof.
  intros Hin Hn. apply filter_length_lt with (x := n); [exact Hin| | |].
  - unfold unseen. rewrite Hn. reflexivity.
  - unfold unseen, enter. cbn [imps_set snd imps alookup]. rewrite String.eqb_refl. reflexivity.
  - intros m. unfold unseen, enter. cbn [imps_set snd imps alookup].
    destruct (String.eqb m n); [discriminate|auto].
Qed.

Lemma env_go_mono ev : (forall n d, mono (ev n d)) -> forall is base my, mono (env_go W ev is base my).
Proof. intros H is base my. apply (env_go_R W ev ev). intros n d. apply R_refl, H. Qed.

Lemma load_result_ok b n d : load_result W b n = LoadOk d -> alookup n (w_envs W) = Some (LoadOk d).
Proof. unfold load_result. destruct b; [discriminate|]. destruct (alookup n (w_envs W)); [congruence|discriminate]. Qed.

Lemma env_go_oof a (ev : string -> envdef -> M chain) :
  (forall n d s, alookup n (w_envs W) = Some (LoadOk d) -> alookup n (imps s) = None ->
     (avail s <= a)%nat -> oof s = false -> oof (snd (ev n d s)) = false) ->
  (forall n d, mono (ev n d)) ->
  forall is base my s, (avail s <= a)%nat -> oof s = false -> oof (snd (env_go W ev is base my s)) = false.
Proof.
  intros Hev Hm. induction is as [|[n merge] rest IH]; intros base my s Ha Ho.
  - exact Ho.
  - rewrite env_go_cons, bind_eq. change (imps_get n s) with (alookup n (imps s), s). cbn [fst snd].
    destruct (alookup n (imps s)) as [i|] eqn:En.
    + destruct (is_evaluating i); [rewrite bind_eq|destruct (is_value i)]; apply IH; assumption.
    + rewrite bind_eq. cbv beta. rewrite bind_eq.
      set (s1 := snd (emit (EvLoad n) (snd (call W s)))).
      assert (Ha1 : (avail s1 <= a)%nat) by exact Ha.
      assert (Ho1 : oof s1 = false) by exact Ho.
      assert (En1 : alookup n (imps s1) = None) by exact En.
      destruct (load_result W (fst (call W s)) n) as [| |d'] eqn:El.
      * rewrite bind_eq, bind_eq. apply IH; [|exact Ho1].
        match goal with |- (avail (snd (imps_set n ?v ?s0)) <= a)%nat =>
          pose proof (avail_st_le _ _ (mono_imps_set n v s0)); assert (avail s0 <= a)%nat by exact Ha1 end. lia.
      * rewrite bind_eq, bind_eq. apply IH; [|exact Ho1].
        match goal with |- (avail (snd (imps_set n ?v ?s0)) <= a)%nat =>
          pose proof (avail_st_le _ _ (mono_imps_set n v s0)); assert (avail s0 <= a)%nat by exact Ha1 end. lia.
      * rewrite bind_eq. cbv beta. rewrite bind_eq.
        pose proof (Hev n d' s1 (load_result_ok _ _ _ El) En1 Ha1 Ho1) as Ho2.
        pose proof (avail_st_le _ _ (Hm n d' s1)) as Ha2.
        set (s2 := snd (ev n d' s1)) in *.
        apply IH; [|exact Ho2].
        match goal with |- (avail (snd (imps_set n ?v s2)) <= a)%nat =>
          pose proof (avail_st_le _ _ (mono_imps_set n v s2)) end. lia.
Qed.

Section ENVBOUND.
Variable C : nat.
Hypothesis world_good : forall n d, alookup n (w_envs W) = Some (LoadOk d) -> good_def d /\ (def_cost d <= C)%nat.

Lemma eval_env_oof : forall f root name d s,
  good_def d -> (def_cost d <= C)%nat -> (avail (enter name s) + C + 1 <= f)%nat ->
  oof s = false -> oof (snd (eval_env W f root name d s)) = false.
Proof.
  induction f as [|f IH]; intros root name d s Hg Hc Hf Ho; [lia|].
  rewrite eval_env_S. unfold env_body. cbv zeta. rewrite bind_eq.
  set (root' := if String.eqb root "" || String.eqb root "<yaml>" then name else root).
  fold (enter name s). rewrite bind_eq.
  assert (Hgo : oof (snd (env_go W (eval_env W f root') (ed_imports d) [] [] (enter name s))) = false).
  { apply env_go_oof with (a := avail (enter name s)); [| |lia|exact Ho].
    - intros n d' s' Hl Hn Ha Ho'. destruct (world_good n d' Hl) as [Hg' Hc'].
      apply IH; [exact Hg'|exact Hc'| |exact Ho'].
      assert (Hin : In n (map fst (w_envs W))).
      { apply alookup_in in Hl. apply (in_map fst) in Hl. exact Hl. }
      pose proof (avail_enter n s' Hin Hn). lia.
    - intros. apply eval_env_mono. }
  destruct (env_go W (eval_env W f root') (ed_imports d) [] [] (enter name s)) as [[base my] s2].
  cbn [fst snd] in *. rewrite bind_eq, bind_eq.
  apply eval_expr_fuel_suffices.
  - exact Hg.
  - split; reflexivity.
  - change (def_cost d <= f)%nat. lia.
  - exact Hgo.
Qed.

End ENVBOUND.
End BOUND.

(* ---------------- the bound B(W, d) ---------------- *)
Definition load_cost (l : env_load) : nat := match l with LoadOk d => def_cost d | _ => 0%nat end.
Definition world_cost (W : world) (d : envdef) : nat :=
  fold_right Nat.max (def_cost d) (map (fun ne => load_cost (snd ne)) (w_envs W)).
Definition fuel_bound (W : world) (d : envdef) : nat := (length (w_envs W) + world_cost W d + 1)%nat.

(* the syntactic restriction: no fn::toJSON / fn::fromJSON in the root definition or in any loadable one *)
Definition load_no_json (l : env_load) : bool :=
  match l with LoadOk d => no_json (EObj (ed_values d)) | _ => true end.
Definition world_no_json (W : world) (d : envdef) : bool :=
  no_json (EObj (ed_values d)) && forallb (fun ne => load_no_json (snd ne)) (w_envs W).

Lemma forallb_filter {A} (p q : A -> bool) l : forallb p l = true -> forallb p (filter q l) = true.
Proof.
  induction l as [|a r IH]; [reflexivity|]. cbn [forallb filter]. intro H. apply andb_true_iff in H.
  destruct H as [H1 H2]. destruct (q a); [cbn [forallb]; rewrite H1; auto|auto].
Qed.

Lemma good_def_of d : no_json (EObj (ed_values d)) = true -> good_def d.
Proof. unfold good_def, vals_of. cbn [no_json]. apply forallb_filter. Qed.

Lemma fold_max_ge a l : (a <= fold_right Nat.max a l)%nat.
Proof. induction l; cbn [fold_right]; lia. Qed.
Lemma fold_max_in a l x : In x l -> (x <= fold_right Nat.max a l)%nat.
Proof. induction l as [|y r IH]; [contradiction|]. cbn [fold_right]. intros [->|H]; [lia|]. specialize (IH H). lia. Qed.

(* Theorem 5: above [fuel_bound W d] the fuel flag stays clear — cyclic / dangling references, import cycles,
   self-imports, failing collaborators and every fault plan included *)
Theorem fuel_suffices W name d f :
  world_no_json W d = true -> (fuel_bound W d <= f)%nat ->
  oof (snd (eval_env W f "" name d st0)) = false.
Proof.
  intros Hj Hf. unfold world_no_json in Hj. apply andb_true_iff in Hj. destruct Hj as [Hd Hw].
  apply eval_env_oof with (C := world_cost W d).
  - intros n d' Hl. apply alookup_in in Hl. split.
    + apply good_def_of. rewrite forallb_forall in Hw. apply (Hw _ Hl).
    + unfold world_cost. apply fold_max_in. apply in_map_iff. exists (n, LoadOk d'). split; [reflexivity|exact Hl].
  - apply good_def_of, Hd.
  - unfold world_cost. apply fold_max_ge.
  - unfold fuel_bound in Hf.
    pose proof (filter_len (unseen (enter name st0)) (map fst (w_envs W))) as H1.
    rewrite map_length in H1. unfold avail. lia.
  - reflexivity.
Qed.

(* with enough fuel the observation no longer depends on the fuel at all *)
Corollary run_stable W name d f :
  world_no_json W d = true -> (fuel_bound W d <= f)%nat -> run f W name d = run (fuel_bound W d) W name d.
Proof.
  intros Hj Hf. unfold run.
  rewrite (fuel_monotone_env W (fuel_bound W d) f "" name d st0 Hf eq_refl
             (fuel_suffices W name d _ Hj (le_n _))).
  reflexivity.
Qed.

(* ---------------- the boundary of the theorem ---------------- *)
(* the observation-level flag [ob_oof] additionally records a failed [export] of the result (a value nested
   deeper than [big_fuel] = 4096 levels); under the hypotheses of [fuel_suffices] that is the ONLY way it can
   be set *)
Theorem run_oof_only_export W name d f :
  world_no_json W d = true -> (fuel_bound W d <= f)%nat ->
  ob_oof (run f W name d) = match ob_value (run f W name d) with None => true | Some _ => false end.
Proof.
  intros Hj Hf. pose proof (fuel_suffices W name d f Hj Hf) as H. unfold run.
  destruct (eval_env W f "" name d st0) as [c s]. cbn [snd ob_oof ob_value] in *. rewrite H. reflexivity.
Qed.

(* the full intended statement "enough fuel => flag clear" WITHOUT the syntactic restriction is false of the
   model: fn::fromJSON of a non-ASCII string raises the flag as an "unsupported" marker, at every fuel *)
Definition fuel_suffices_unrestricted_statement : Prop :=
  forall W name d f, (fuel_bound W d <= f)%nat -> oof (snd (eval_env W f "" name d st0)) = false.

Definition non_ascii_json : string := String """"%char (String (ascii_of_N 233) (String """"%char EmptyString)).
Definition unsupported_def : envdef :=
  {| ed_imports := []; ed_values := [("x", EFromJSON (EStr non_ascii_json))] |}.
Definition empty_world : world :=
  {| w_envs := []; w_provs := []; w_ctx := []; w_check := false; w_show := false; w_fault := None;
     w_decrypt := fun _ _ => None |}.

Theorem fuel_suffices_unrestricted_refuted : ~ fuel_suffices_unrestricted_statement.
Proof.
  intro H. specialize (H empty_world "e" unsupported_def (fuel_bound empty_world unsupported_def) (le_n _)).
  vm_compute in H. discriminate H.
Qed.
