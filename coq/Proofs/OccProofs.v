(* Proofs/OccProofs.v — no lost update under optimistic concurrency control (C14): an invariant of [step], hence of
   every schedule; and the refutation of the statement when a command may send an empty tag. *)
From Verif Require Import Base.Bytes Model.Occ.
From Coq Require Import Lia ZifyN ZifyNat ZifyBool.

(* ---- list utilities ---- *)
Lemma set_nth_length {A} (i : nat) (x : A) (l : list A) : length (set_nth i x l) = length l.
Proof.
  revert i; induction l as [|y r IH]; intros [|i]; cbn [set_nth length]; auto.
Qed.

Lemma nth_error_set_nth_eq {A} (i : nat) (x : A) (l : list A) :
  (i < length l)%nat -> nth_error (set_nth i x l) i = Some x.
Proof.
  revert i; induction l as [|y r IH]; intros [|i] H; cbn [set_nth nth_error length] in *; try lia; auto.
  apply IH; lia.
Qed.

Lemma nth_error_set_nth_ne {A} (i j : nat) (x : A) (l : list A) :
  i <> j -> nth_error (set_nth i x l) j = nth_error l j.
Proof.
  revert i j; induction l as [|y r IH]; intros [|i] [|j] H; cbn [set_nth nth_error]; auto; try congruence.
Qed.

Lemma nth_error_some_lt {A} (l : list A) (i : nat) (x : A) : nth_error l i = Some x -> (i < length l)%nat.
Proof. intros H; apply nth_error_Some; congruence. Qed.

Lemma NoDup_snoc {A} (l : list A) (x : A) : NoDup l -> ~ In x l -> NoDup (l ++ [x]).
Proof.
  induction 1 as [|y l Hy Hl IH]; cbn [app]; intros Hx.
  - constructor; [intros []|constructor].
  - constructor.
    + rewrite in_app_iff. intros [H|[H|[]]]; [exact (Hy H)|]. apply Hx. left. symmetry. exact H.
    + apply IH. intros H. apply Hx. right. exact H.
Qed.

Section OccProofs.
  Variable D : Type.
  Notation command := (command D).
  Notation state := (state D).
  Notation store := (store D).

  Variable cmds : list command.
  Variable d0 : D.

  Record inv (st : state) : Prop := mkInv {
    inv_len : length (st_ph st) = length cmds;
    inv_def : s_def (st_store st) = replay cmds (st_log st) d0;
    inv_read : forall i d r, nth_error (st_ph st) i = Some (PRead d r) ->
                 r <= s_rev (st_store st) /\ (r = s_rev (st_store st) -> d = s_def (st_store st));
    inv_log : forall i, In i (st_log st) <-> nth_error (st_ph st) i = Some (PDone OOk);
    inv_nodup : NoDup (st_log st);
    inv_trace : Forall (event_ok cmds) (st_trace st)
  }.

  Lemma inv_init (init : store) : s_def init = d0 -> inv (init_state cmds init).
  Proof.
    intros Hd; constructor; cbn [init_state st_ph st_store st_log st_trace].
    - apply map_length.
    - exact Hd.
    - intros i d r H. apply nth_error_In in H. apply in_map_iff in H. destruct H as [c [Hc _]]. discriminate.
    - intros i; split; [intros []|].
      intros H. apply nth_error_In in H. apply in_map_iff in H. destruct H as [c [Hc _]]. discriminate.
    - constructor.
    - constructor.
  Qed.

  (* a command ends without writing *)
  Lemma inv_finish (st : state) (i : nat) (o : outcome) (d : D) (r : N) :
    inv st -> nth_error (st_ph st) i = Some (PRead d r) -> o <> OOk -> inv (finish st i o).
  Proof.
    intros I Hph Ho. pose proof (nth_error_some_lt _ _ _ Hph) as Hlt.
    constructor; cbn [finish st_ph st_store st_log st_trace].
    - rewrite set_nth_length. exact (inv_len _ I).
    - exact (inv_def _ I).
    - intros j dj rj Hj. destruct (Nat.eq_dec i j) as [->|Hne].
      + rewrite nth_error_set_nth_eq in Hj by exact Hlt. discriminate.
      + rewrite nth_error_set_nth_ne in Hj by exact Hne. exact (inv_read _ I j dj rj Hj).
    - intros j. destruct (Nat.eq_dec i j) as [->|Hne].
      + rewrite nth_error_set_nth_eq by exact Hlt. rewrite (inv_log _ I j), Hph.
        split; intros H; [discriminate|]. injection H as H. congruence.
      + rewrite nth_error_set_nth_ne by exact Hne. exact (inv_log _ I j).
    - exact (inv_nodup _ I).
    - exact (inv_trace _ I).
  Qed.

  (* a write step of command [i] carrying tag [t] and body [body] *)
  Lemma inv_write (st : state) (i : nat) (t : option N) (body : D) :
    inv st ->
    (i < length (st_ph st))%nat ->
    nth_error (st_ph st) i <> Some (PDone OOk) ->
    (accept t (s_rev (st_store st)) = true ->
       apply_cmd cmds (s_def (st_store st)) i = body
       /\ event_ok cmds (EvPatch i t true (st_store st) body (mkStore body (s_rev (st_store st) + 1)))) ->
    (accept t (s_rev (st_store st)) = false ->
       event_ok cmds (EvPatch i t false (st_store st) body (st_store st))) ->
    inv (write st i t body).
  Proof.
    intros I Hlt Hnot Hacc1 Hacc0. unfold write.
    destruct (accept t (s_rev (st_store st))) eqn:Hacc.
    - destruct (Hacc1 eq_refl) as [Happ Hev].
      constructor; cbn [st_ph st_store st_log st_trace s_def s_rev].
      + rewrite set_nth_length. exact (inv_len _ I).
      + unfold replay. rewrite fold_left_app. cbn [fold_left]. fold (replay cmds (st_log st) d0).
        rewrite <- (inv_def _ I). symmetry. exact Happ.
      + intros j dj rj Hj. destruct (Nat.eq_dec i j) as [->|Hne].
        * rewrite nth_error_set_nth_eq in Hj by exact Hlt. discriminate.
        * rewrite nth_error_set_nth_ne in Hj by exact Hne.
          destruct (inv_read _ I j dj rj Hj) as [Hle _]. split; [lia|intros ->; lia].
      + intros j. rewrite in_app_iff. destruct (Nat.eq_dec i j) as [->|Hne].
        * rewrite nth_error_set_nth_eq by exact Hlt. split; auto. intros _. right. left. reflexivity.
        * rewrite nth_error_set_nth_ne by exact Hne. rewrite <- (inv_log _ I j). split.
          -- intros [H|[H|[]]]; [exact H|congruence].
          -- intros H; left; exact H.
      + apply NoDup_snoc; [exact (inv_nodup _ I)|]. intros Hin. apply (inv_log _ I i) in Hin. contradiction.
      + apply Forall_app. split; [exact (inv_trace _ I)|]. constructor; [exact Hev|constructor].
    - constructor; cbn [st_ph st_store st_log st_trace].
      + rewrite set_nth_length. exact (inv_len _ I).
      + exact (inv_def _ I).
      + intros j dj rj Hj. destruct (Nat.eq_dec i j) as [->|Hne].
        * rewrite nth_error_set_nth_eq in Hj by exact Hlt. discriminate.
        * rewrite nth_error_set_nth_ne in Hj by exact Hne. exact (inv_read _ I j dj rj Hj).
      + intros j. destruct (Nat.eq_dec i j) as [->|Hne].
        * rewrite nth_error_set_nth_eq by exact Hlt. rewrite (inv_log _ I j).
          split; intros H; [contradiction|discriminate].
        * rewrite nth_error_set_nth_ne by exact Hne. exact (inv_log _ I j).
      + exact (inv_nodup _ I).
      + apply Forall_app. split; [exact (inv_trace _ I)|]. constructor; [exact (Hacc0 eq_refl)|constructor].
  Qed.

  Hypothesis all_tagged : Forall (@tagged D) cmds.

  (* the invariant is preserved by every step of every command *)
  Lemma inv_step (st : state) (i : nat) : inv st -> inv (step cmds i st).
  Proof.
    intros I. unfold step.
    destruct (nth_error cmds i) as [c|] eqn:Hc; [|exact I].
    destruct (nth_error (st_ph st) i) as [ph|] eqn:Hph; [|destruct c; exact I].
    pose proof (nth_error_some_lt _ _ _ Hph) as Hlt.
    assert (Hnot : nth_error (st_ph st) i = Some (PDone OOk) -> ph = PDone OOk) by (rewrite Hph; congruence).
    destruct c as [edit pol|db].
    - assert (Hpol : pol = SendRead).
      { pose proof (proj1 (Forall_forall _ _) all_tagged _ (nth_error_In _ _ Hc)) as Ht.
        destruct pol; [reflexivity|destruct Ht]. }
      subst pol.
      destruct ph as [|d r|o]; [| |exact I].
      + (* Read *)
        constructor; cbn [st_ph st_store st_log st_trace].
        * rewrite set_nth_length. exact (inv_len _ I).
        * exact (inv_def _ I).
        * intros j dj rj Hj. destruct (Nat.eq_dec i j) as [->|Hne].
          -- rewrite nth_error_set_nth_eq in Hj by exact Hlt. injection Hj as <- <-. split; [lia|reflexivity].
          -- rewrite nth_error_set_nth_ne in Hj by exact Hne. exact (inv_read _ I j dj rj Hj).
        * intros j. destruct (Nat.eq_dec i j) as [->|Hne].
          -- rewrite nth_error_set_nth_eq by exact Hlt. rewrite (inv_log _ I j), Hph.
             split; intros H; discriminate.
          -- rewrite nth_error_set_nth_ne by exact Hne. exact (inv_log _ I j).
        * exact (inv_nodup _ I).
        * apply Forall_app. split; [exact (inv_trace _ I)|]. constructor; [exact Logic.I|constructor].
      + (* Write *)
        destruct (inv_read _ I i d r Hph) as [Hle Heq].
        destruct (edit d) as [d'| | |] eqn:He.
        * apply inv_write; [exact I|exact Hlt|intros H; specialize (Hnot H); discriminate| |].
          -- cbn [sent_tag accept]. intros Hacc. apply N.eqb_eq in Hacc. specialize (Heq Hacc). subst d.
             unfold apply_cmd, event_ok. rewrite Hc, He. split; [reflexivity|]. right. auto.
          -- intros _. unfold event_ok. rewrite Hc. left. auto.
        * apply (inv_finish st i ONoWrite d r I Hph). discriminate.
        * apply (inv_finish st i OErr d r I Hph). discriminate.
        * apply (inv_finish st i OPanic d r I Hph). discriminate.
    - destruct ph as [|d r|o]; [|exact I|exact I].
      apply inv_write; [exact I|exact Hlt|intros H; specialize (Hnot H); discriminate| |].
      + intros _. unfold apply_cmd, event_ok. rewrite Hc. auto.
      + cbn [accept]. discriminate.
  Qed.

  Lemma inv_run (sched : list nat) (st : state) : inv st -> inv (run cmds sched st).
  Proof.
    revert st; induction sched as [|i r IH]; intros st I; [exact I|].
    cbn [run fold_left]. apply IH. apply inv_step. exact I.
  Qed.
End OccProofs.

(* ---- the property ---- *)
Theorem no_lost_update (D : Type) : occ_statement D (@tagged D).
Proof.
  intros cmds Hall init sched fin.
  pose proof (inv_run D cmds (s_def init) Hall sched _ (inv_init D cmds (s_def init) init eq_refl)) as I.
  fold fin in I. destruct I as [_ Hdef _ Hlog Hnd Htr]. auto.
Qed.

(* the guarantee about one step, read off the invariant: from any state reachable under any schedule, the write step
   of a tagged read-modify-write command either is rejected and leaves the store unchanged, or installs its edit
   of the definition that is current at that moment (not of the definition it read earlier) *)
Theorem write_step_safe (D : Type) (cmds : list (command D)) :
  Forall (@tagged D) cmds ->
  forall (init : store D) (sched : list nat) (i : nat) (edit : D -> eres D) (pol : policy) (d : D) (r : N),
    let st := run cmds sched (init_state cmds init) in
    nth_error cmds i = Some (RMW edit pol) ->
    nth_error (st_ph st) i = Some (PRead d r) ->
    let st' := step cmds i st in
    (nth_error (st_ph st') i = Some (PDone OConflict) /\ st_store st' = st_store st)
    \/ (exists d', nth_error (st_ph st') i = Some (PDone OOk) /\ edit (s_def (st_store st)) = EUpd d'
                   /\ st_store st' = mkStore d' (s_rev (st_store st) + 1))
    \/ ((exists o, o <> OOk /\ o <> OConflict /\ nth_error (st_ph st') i = Some (PDone o)) /\ st_store st' = st_store st).
Proof.
  intros Hall init sched i edit pol d r st Hc Hph st'.
  pose proof (inv_run D cmds (s_def init) Hall sched _ (inv_init D cmds (s_def init) init eq_refl)) as I.
  fold st in I.
  assert (Hpol : pol = SendRead).
  { pose proof (proj1 (Forall_forall _ _) Hall _ (nth_error_In _ _ Hc)) as Ht. destruct pol; [reflexivity|destruct Ht]. }
  subst pol.
  pose proof (nth_error_some_lt _ _ _ Hph) as Hlt.
  destruct (inv_read _ _ _ _ I i d r Hph) as [Hle Heq].
  subst st'. unfold step. rewrite Hc, Hph.
  destruct (edit d) as [d'| | |] eqn:He.
  - unfold write. cbn [sent_tag accept]. destruct (r =? s_rev (st_store st)) eqn:Hacc.
    + right; left. apply N.eqb_eq in Hacc. specialize (Heq Hacc). subst d. exists d'.
      cbn [st_ph st_store]. rewrite nth_error_set_nth_eq by exact Hlt. auto.
    + left. cbn [st_ph st_store]. rewrite nth_error_set_nth_eq by exact Hlt. auto.
  - right; right. cbn [finish st_ph st_store]. rewrite nth_error_set_nth_eq by exact Hlt.
    split; [exists ONoWrite; repeat split; discriminate|reflexivity].
  - right; right. cbn [finish st_ph st_store]. rewrite nth_error_set_nth_eq by exact Hlt.
    split; [exists OErr; repeat split; discriminate|reflexivity].
  - right; right. cbn [finish st_ph st_store]. rewrite nth_error_set_nth_eq by exact Hlt.
    split; [exists OPanic; repeat split; discriminate|reflexivity].
Qed.

(* ---- with an empty tag the statement is false ---- *)
Definition lost_cmds : list (command N) :=
  [RMW (fun d => EUpd (d + 1)) SendEmpty; RMW (fun d => EUpd (d + 10)) SendRead].

Theorem empty_tag_loses_update_refuted : ~ occ_statement N (fun _ => True).
Proof.
  intros H.
  specialize (H lost_cmds (proj2 (Forall_forall _ _) (fun _ _ => Logic.I)) (mkStore 0 5) [0; 1; 1; 0]%nat).
  destruct H as [_ [Hdef _]]. vm_compute in Hdef. discriminate.
Qed.

(* ---- the commands of the CLI with the policies read from the source ---- *)
From Verif Require Import Model.OccSrc.

Theorem no_lost_update_cli :
  pol_set = SendRead /\ pol_rm = SendRead /\ pol_edit = SendRead ->
  forall (ops : list op) (init : store tree) (sched : list nat),
    let cmds := map cli_command ops in
    let fin := run cmds sched (init_state cmds init) in
    Forall (event_ok cmds) (st_trace fin)
    /\ s_def (st_store fin) = replay cmds (st_log fin) (s_def init)
    /\ NoDup (st_log fin)
    /\ (forall i, In i (st_log fin) <-> nth_error (st_ph fin) i = Some (PDone OOk)).
Proof.
  intros [Hs [Hr He]] ops init sched.
  apply (no_lost_update tree).
  apply Forall_forall. intros c Hc. apply in_map_iff in Hc. destruct Hc as [o [<- _]].
  unfold cli_command, command_of. rewrite Hs, Hr, He. destruct o; exact Logic.I.
Qed.
