(* Proofs/OccProofs.v — no lost update under optimistic concurrency control (C14): an invariant of [step], hence of
   every schedule with every placement of backend faults (reply lost after the commit, update refused with
   diagnostics); and the refutations of the statement when a command may send an empty tag or when the client sends
   an update again after a lost reply. *)
From Verif Require Import Base.Bytes Model.Occ.
From Coq Require Import Lia ZifyN ZifyNat ZifyBool.

(* ---- list utilities ---- *)
Lemma set_nth_length {A} (i : nat) (x : A) (l : list A) : length (set_nth i x l) = length l.
Proof.
  revert i; induction l as [|y r IH]; intros [|i]; cbn [set_nth length]; auto.
Qed.

Lemma nth_error_set_nth_eq {A} (i : nat) (x : A) (l : list A) :
  (i < length l)%nat -> nth_error (set_nth i x l) i = Some x.
Proof.
  revert i; induction l as [|y r IH]; intros [|i] H; cbn [set_nth nth_error length] in *; try lia; auto.
  apply IH; lia.
Qed.

Lemma nth_error_set_nth_ne {A} (i j : nat) (x : A) (l : list A) :
  i <> j -> nth_error (set_nth i x l) j = nth_error l j.
Proof.
  revert i j; induction l as [|y r IH]; intros [|i] [|j] H; cbn [set_nth nth_error]; auto; try congruence.
Qed.

Lemma nth_error_some_lt {A} (l : list A) (i : nat) (x : A) : nth_error l i = Some x -> (i < length l)%nat.
Proof. intros H; apply nth_error_Some; congruence. Qed.

Lemma NoDup_snoc {A} (l : list A) (x : A) : NoDup l -> ~ In x l -> NoDup (l ++ [x]).
Proof.
  induction 1 as [|y l Hy Hl IH]; cbn [app]; intros Hx.
  - constructor; [intros []|constructor].
  - constructor.
    + rewrite in_app_iff. intros [H|[H|[]]]; [exact (Hy H)|]. apply Hx. left. symmetry. exact H.
    + apply IH. intros H. apply Hx. right. exact H.
Qed.

Section OccProofs.
  Variable D : Type.
  Notation command := (command D).
  Notation state := (state D).
  Notation store := (store D).

  Variable cmds : list command.
  Variable d0 : D.

  Record inv (st : state) : Prop := mkInv {
    inv_len : length (st_ph st) = length cmds;
    inv_def : s_def (st_store st) = replay cmds (st_log st) d0;
    inv_read : forall i d r k, nth_error (st_ph st) i = Some (PRead d r k) ->
                 r <= s_rev (st_store st) /\ (r = s_rev (st_store st) -> d = s_def (st_store st))
                 /\ ~ In i (committed st);
    inv_idle : forall i, nth_error (st_ph st) i = Some PIdle -> ~ In i (committed st);
    inv_sent : forall i t b k, nth_error (st_ph st) i <> Some (PSent t b k);
    inv_ok : forall i, nth_error (st_ph st) i = Some (PDone OOk) -> In i (committed st);
    inv_in : forall i, In i (committed st) ->
               nth_error (st_ph st) i = Some (PDone OOk) \/ nth_error (st_ph st) i = Some (PDone OLost);
    inv_nodup : NoDup (committed st);
    inv_trace : Forall (event_ok cmds) (st_trace st)
  }.

  Lemma inv_init (init : store) : s_def init = d0 -> inv (init_state cmds init).
  Proof.
    intros Hd.
    assert (Hph : forall i p, nth_error (map (fun _ : command => @PIdle D) cmds) i = Some p -> p = PIdle).
    { intros i p H. apply nth_error_In in H. apply in_map_iff in H. destruct H as [c [Hc _]]. congruence. }
    constructor; unfold committed; cbn [init_state st_ph st_store st_log st_trace map].
    - apply map_length.
    - exact Hd.
    - intros i d r k H. apply Hph in H. discriminate.
    - intros i _ [].
    - intros i t b k H. apply Hph in H. discriminate.
    - intros i H. apply Hph in H. discriminate.
    - intros i [].
    - constructor.
    - constructor.
  Qed.

  (* a command ends without writing *)
  Lemma inv_finish (st : state) (i : nat) (o : outcome) (d : D) (r : N) (k : nat) :
    inv st -> nth_error (st_ph st) i = Some (PRead d r k) -> o <> OOk -> inv (finish st i o).
  Proof.
    intros I Hph Ho. pose proof (nth_error_some_lt _ _ _ Hph) as Hlt.
    destruct (inv_read _ I i d r k Hph) as [_ [_ Hnotin]].
    constructor; unfold committed in *; cbn [finish st_ph st_store st_log st_trace].
    - rewrite set_nth_length. exact (inv_len _ I).
    - exact (inv_def _ I).
    - intros j dj rj kj Hj. destruct (Nat.eq_dec i j) as [->|Hne].
      + rewrite nth_error_set_nth_eq in Hj by exact Hlt. discriminate.
      + rewrite nth_error_set_nth_ne in Hj by exact Hne. exact (inv_read _ I j dj rj kj Hj).
    - intros j Hj. destruct (Nat.eq_dec i j) as [->|Hne].
      + rewrite nth_error_set_nth_eq in Hj by exact Hlt. discriminate.
      + rewrite nth_error_set_nth_ne in Hj by exact Hne. exact (inv_idle _ I j Hj).
    - intros j t b kj Hj. destruct (Nat.eq_dec i j) as [->|Hne].
      + rewrite nth_error_set_nth_eq in Hj by exact Hlt. discriminate.
      + rewrite nth_error_set_nth_ne in Hj by exact Hne. exact (inv_sent _ I j t b kj Hj).
    - intros j Hj. destruct (Nat.eq_dec i j) as [->|Hne].
      + rewrite nth_error_set_nth_eq in Hj by exact Hlt. injection Hj as Hj. contradiction.
      + rewrite nth_error_set_nth_ne in Hj by exact Hne. exact (inv_ok _ I j Hj).
    - intros j Hj. destruct (Nat.eq_dec i j) as [->|Hne]; [contradiction|].
      rewrite nth_error_set_nth_ne by exact Hne. exact (inv_in _ I j Hj).
    - exact (inv_nodup _ I).
    - exact (inv_trace _ I).
  Qed.

  (* the backend serves an update of command [i] (round [k], tag [t], text [body]) under fault [f] *)
  Lemma inv_write (st : state) (i k : nat) (t : option N) (body : D) (f : fault) (next : bool -> phase D) :
    inv st ->
    (i < length (st_ph st))%nat ->
    ~ In i (committed st) ->
    (f <> FReject -> next true = PDone OOk \/ next true = PDone OLost) ->
    ((exists o, o <> OOk /\ next false = PDone o)
     \/ (exists d r k1 k2, nth_error (st_ph st) i = Some (PRead d r k1) /\ next false = PRead d r k2)) ->
    (f <> FReject -> accept t (s_rev (st_store st)) = true ->
       apply_cmd cmds (s_def (st_store st)) (i, k) = body
       /\ event_ok cmds (EvPatch i t true f (st_store st) body (mkStore body (s_rev (st_store st) + 1)))) ->
    ((match f with FReject => false | _ => accept t (s_rev (st_store st)) end) = false ->
       event_ok cmds (EvPatch i t false f (st_store st) body (st_store st))) ->
    inv (write st i k t body f next).
  Proof.
    intros I Hlt Hnotin Hnt Hnf Hacc1 Hacc0. unfold write.
    destruct (match f with FReject => false | _ => accept t (s_rev (st_store st)) end) eqn:Hc.
    - assert (Hf : f <> FReject) by (intros ->; discriminate).
      assert (Hacc : accept t (s_rev (st_store st)) = true) by (destruct f; [exact Hc|exact Hc|discriminate]).
      destruct (Hacc1 Hf Hacc) as [Happ Hev]. specialize (Hnt Hf).
      assert (Hcm : forall j, In j (map fst (st_log st ++ [(i, k)])) <-> In j (committed st) \/ j = i).
      { intros j. rewrite map_app, in_app_iff. cbn [map fst In]. unfold committed. intuition. }
      constructor; unfold committed in *; cbn [st_ph st_store st_log st_trace s_def s_rev].
      + rewrite set_nth_length. exact (inv_len _ I).
      + unfold replay. rewrite fold_left_app. cbn [fold_left]. fold (replay cmds (st_log st) d0).
        rewrite <- (inv_def _ I). symmetry. exact Happ.
      + intros j dj rj kj Hj. destruct (Nat.eq_dec i j) as [->|Hne].
        * rewrite nth_error_set_nth_eq in Hj by exact Hlt. destruct Hnt as [H|H]; rewrite H in Hj; discriminate.
        * rewrite nth_error_set_nth_ne in Hj by exact Hne.
          destruct (inv_read _ I j dj rj kj Hj) as [Hle [_ Hn]]. split; [lia|]. split; [intros ->; lia|].
          rewrite Hcm. intros [H|H]; [exact (Hn H)|congruence].
      + intros j Hj. destruct (Nat.eq_dec i j) as [->|Hne].
        * rewrite nth_error_set_nth_eq in Hj by exact Hlt. destruct Hnt as [H|H]; rewrite H in Hj; discriminate.
        * rewrite nth_error_set_nth_ne in Hj by exact Hne. rewrite Hcm.
          intros [H|H]; [exact (inv_idle _ I j Hj H)|congruence].
      + intros j t' b kj Hj. destruct (Nat.eq_dec i j) as [->|Hne].
        * rewrite nth_error_set_nth_eq in Hj by exact Hlt. destruct Hnt as [H|H]; rewrite H in Hj; discriminate.
        * rewrite nth_error_set_nth_ne in Hj by exact Hne. exact (inv_sent _ I j t' b kj Hj).
      + intros j Hj. rewrite Hcm. destruct (Nat.eq_dec i j) as [->|Hne]; [right; reflexivity|].
        rewrite nth_error_set_nth_ne in Hj by exact Hne. left. exact (inv_ok _ I j Hj).
      + intros j Hj. rewrite Hcm in Hj. destruct (Nat.eq_dec i j) as [->|Hne].
        * rewrite nth_error_set_nth_eq by exact Hlt. destruct Hnt as [H|H]; rewrite H; auto.
        * rewrite nth_error_set_nth_ne by exact Hne. destruct Hj as [Hj|Hj]; [exact (inv_in _ I j Hj)|congruence].
      + rewrite map_app. cbn [map fst]. apply NoDup_snoc; [exact (inv_nodup _ I)|exact Hnotin].
      + apply Forall_app. split; [exact (inv_trace _ I)|]. constructor; [exact Hev|constructor].
    - constructor; unfold committed in *; cbn [st_ph st_store st_log st_trace].
      + rewrite set_nth_length. exact (inv_len _ I).
      + exact (inv_def _ I).
      + intros j dj rj kj Hj. destruct (Nat.eq_dec i j) as [->|Hne].
        * rewrite nth_error_set_nth_eq in Hj by exact Hlt.
          destruct Hnf as [[o [_ H]]|[d [r [k1 [k2 [Hold H]]]]]]; rewrite H in Hj; [discriminate|].
          injection Hj as <- <- <-. exact (inv_read _ I j d r k1 Hold).
        * rewrite nth_error_set_nth_ne in Hj by exact Hne. exact (inv_read _ I j dj rj kj Hj).
      + intros j Hj. destruct (Nat.eq_dec i j) as [->|Hne].
        * rewrite nth_error_set_nth_eq in Hj by exact Hlt.
          destruct Hnf as [[o [_ H]]|[d [r [k1 [k2 [_ H]]]]]]; rewrite H in Hj; discriminate.
        * rewrite nth_error_set_nth_ne in Hj by exact Hne. exact (inv_idle _ I j Hj).
      + intros j t' b kj Hj. destruct (Nat.eq_dec i j) as [->|Hne].
        * rewrite nth_error_set_nth_eq in Hj by exact Hlt.
          destruct Hnf as [[o [_ H]]|[d [r [k1 [k2 [_ H]]]]]]; rewrite H in Hj; discriminate.
        * rewrite nth_error_set_nth_ne in Hj by exact Hne. exact (inv_sent _ I j t' b kj Hj).
      + intros j Hj. destruct (Nat.eq_dec i j) as [->|Hne].
        * rewrite nth_error_set_nth_eq in Hj by exact Hlt.
          destruct Hnf as [[o [Ho H]]|[d [r [k1 [k2 [_ H]]]]]]; rewrite H in Hj; [|discriminate].
          injection Hj as Hj. contradiction.
        * rewrite nth_error_set_nth_ne in Hj by exact Hne. exact (inv_ok _ I j Hj).
      + intros j Hj. destruct (Nat.eq_dec i j) as [->|Hne]; [contradiction|].
        rewrite nth_error_set_nth_ne by exact Hne. exact (inv_in _ I j Hj).
      + exact (inv_nodup _ I).
      + apply Forall_app. split; [exact (inv_trace _ I)|]. constructor; [exact (Hacc0 eq_refl)|constructor].
  Qed.

  Hypothesis all_tagged : Forall (@tagged D) cmds.

  (* the invariant is preserved by every step of every command under every fault *)
  Lemma inv_step (st : state) (x : nat * fault) : inv st -> inv (step cmds x st).
  Proof.
    intros I. destruct x as [i f]. unfold step.
    destruct (nth_error cmds i) as [c|] eqn:Hc; [|exact I].
    destruct (nth_error (st_ph st) i) as [ph|] eqn:Hph; [|destruct c; exact I].
    pose proof (nth_error_some_lt _ _ _ Hph) as Hlt.
    destruct c as [edit pol enters rp|db].
    - assert (Hpol : pol = SendRead /\ rp = false).
      { pose proof (proj1 (Forall_forall _ _) all_tagged _ (nth_error_In _ _ Hc)) as Ht.
        destruct pol, rp; cbn in Ht; try destruct Ht; auto. }
      destruct Hpol as [-> ->].
      destruct ph as [|d r k|t b k|o]; [| | |exact I].
      + (* Read *)
        pose proof (inv_idle _ I i Hph) as Hnotin.
        constructor; unfold committed in *; cbn [st_ph st_store st_log st_trace].
        * rewrite set_nth_length. exact (inv_len _ I).
        * exact (inv_def _ I).
        * intros j dj rj kj Hj. destruct (Nat.eq_dec i j) as [->|Hne].
          -- rewrite nth_error_set_nth_eq in Hj by exact Hlt. injection Hj as <- <- <-.
             split; [lia|]. split; [reflexivity|exact Hnotin].
          -- rewrite nth_error_set_nth_ne in Hj by exact Hne. exact (inv_read _ I j dj rj kj Hj).
        * intros j Hj. destruct (Nat.eq_dec i j) as [->|Hne].
          -- rewrite nth_error_set_nth_eq in Hj by exact Hlt. discriminate.
          -- rewrite nth_error_set_nth_ne in Hj by exact Hne. exact (inv_idle _ I j Hj).
        * intros j t b kj Hj. destruct (Nat.eq_dec i j) as [->|Hne].
          -- rewrite nth_error_set_nth_eq in Hj by exact Hlt. discriminate.
          -- rewrite nth_error_set_nth_ne in Hj by exact Hne. exact (inv_sent _ I j t b kj Hj).
        * intros j Hj. destruct (Nat.eq_dec i j) as [->|Hne].
          -- rewrite nth_error_set_nth_eq in Hj by exact Hlt. discriminate.
          -- rewrite nth_error_set_nth_ne in Hj by exact Hne. exact (inv_ok _ I j Hj).
        * intros j Hj. destruct (Nat.eq_dec i j) as [->|Hne]; [contradiction|].
          rewrite nth_error_set_nth_ne by exact Hne. exact (inv_in _ I j Hj).
        * exact (inv_nodup _ I).
        * apply Forall_app. split; [exact (inv_trace _ I)|]. constructor; [exact Logic.I|constructor].
      + (* Write *)
        destruct (inv_read _ I i d r k Hph) as [Hle [Heq Hnotin]].
        destruct (edit k d) as [d'| | |] eqn:He.
        * apply inv_write; [exact I|exact Hlt|exact Hnotin| | | |].
          -- intros Hf. destruct f; cbn [after_reply]; auto. contradiction.
          -- destruct f; cbn [after_reply].
             ++ left. exists OConflict. split; [discriminate|reflexivity].
             ++ left. exists OLost. split; [discriminate|reflexivity].
             ++ destruct (k <? enters)%nat.
                ** right. exists d, r, k, (S k). auto.
                ** left. exists ORejected. split; [discriminate|reflexivity].
          -- cbn [sent_tag accept]. intros Hf Hacc. apply N.eqb_eq in Hacc. specialize (Heq Hacc). subst d.
             unfold apply_cmd, event_ok. cbn [fst snd]. rewrite Hc, He. split; [reflexivity|].
             right. repeat split; auto. exists k. exact He.
          -- intros _. unfold event_ok. rewrite Hc. left. auto.
        * apply (inv_finish st i ONoWrite d r k I Hph). discriminate.
        * apply (inv_finish st i OErr d r k I Hph). discriminate.
        * apply (inv_finish st i OPanic d r k I Hph). discriminate.
      + exfalso. exact (inv_sent _ I i t b k Hph).
    - destruct ph as [|d r k|t b k|o]; [|exact I|exact I|exact I].
      pose proof (inv_idle _ I i Hph) as Hnotin.
      apply inv_write; [exact I|exact Hlt|exact Hnotin| | | |].
      + intros Hf. destruct f; cbn [after_reply]; auto. contradiction.
      + left. destruct f; cbn [after_reply].
        * exists OConflict. split; [discriminate|reflexivity].
        * exists OLost. split; [discriminate|reflexivity].
        * exists ORejected. split; [discriminate|reflexivity].
      + intros Hf _. unfold apply_cmd, event_ok. cbn [fst]. rewrite Hc. split; [reflexivity|]. right. auto.
      + intros Hcnd. unfold event_ok. rewrite Hc. left. destruct f; cbn [accept] in Hcnd; try discriminate. auto.
  Qed.

  Lemma inv_run (sched : list (nat * fault)) (st : state) : inv st -> inv (run cmds sched st).
  Proof.
    revert st; induction sched as [|i r IH]; intros st I; [exact I|].
    cbn [run fold_left]. apply IH. apply inv_step. exact I.
  Qed.
End OccProofs.

(* ---- the property ---- *)
Theorem no_lost_update (D : Type) : occ_statement D (@tagged D).
Proof.
  intros cmds Hall init sched fin.
  pose proof (inv_run D cmds (s_def init) Hall sched _ (inv_init D cmds (s_def init) init eq_refl)) as I.
  fold fin in I. destruct I as [_ Hdef _ _ _ Hok Hin Hnd Htr]. auto.
Qed.

(* a command that was told "conflict" (or ended for any reason other than success / lost reply) committed nothing *)
Corollary conflict_changed_nothing (D : Type) (cmds : list (command D)) :
  Forall (@tagged D) cmds ->
  forall (init : store D) (sched : list (nat * fault)) (i : nat) (o : outcome),
    let fin := run cmds sched (init_state cmds init) in
    nth_error (st_ph fin) i = Some (PDone o) -> o <> OOk -> o <> OLost -> ~ In i (committed fin).
Proof.
  intros Hall init sched i o fin Hph Hk Hl Hin.
  destruct (no_lost_update D cmds Hall init sched) as [_ [_ [_ [_ H]]]]. fold fin in H.
  destruct (H i Hin) as [H'|H']; rewrite H' in Hph; injection Hph as <-; contradiction.
Qed.

(* the guarantee about one step, read off the invariant: from any state reachable under any schedule, the write step
   of a tagged read-modify-write command under any fault either leaves the store unchanged and does not end in
   success, or installs its edit of the definition that is current at that moment (not of the definition it read
   earlier) and ends in success or, if the reply was lost, in "lost" *)
Theorem write_step_safe (D : Type) (cmds : list (command D)) :
  Forall (@tagged D) cmds ->
  forall (init : store D) (sched : list (nat * fault)) (i : nat) (f : fault)
         (edit : nat -> D -> eres D) (pol : policy) (enters : nat) (rp : bool) (d : D) (r : N) (k : nat),
    let st := run cmds sched (init_state cmds init) in
    nth_error cmds i = Some (RMW edit pol enters rp) ->
    nth_error (st_ph st) i = Some (PRead d r k) ->
    let st' := step cmds (i, f) st in
    (st_store st' = st_store st /\ nth_error (st_ph st') i <> Some (PDone OOk))
    \/ (exists d', edit k (s_def (st_store st)) = EUpd d'
                   /\ st_store st' = mkStore d' (s_rev (st_store st) + 1)
                   /\ (nth_error (st_ph st') i = Some (PDone OOk) \/ nth_error (st_ph st') i = Some (PDone OLost))).
Proof.
  intros Hall init sched i f edit pol enters rp d r k st Hc Hph st'.
  pose proof (inv_run D cmds (s_def init) Hall sched _ (inv_init D cmds (s_def init) init eq_refl)) as I.
  fold st in I.
  assert (Hpol : pol = SendRead /\ rp = false).
  { pose proof (proj1 (Forall_forall _ _) Hall _ (nth_error_In _ _ Hc)) as Ht.
    destruct pol, rp; cbn in Ht; try destruct Ht; auto. }
  destruct Hpol as [-> ->].
  pose proof (nth_error_some_lt _ _ _ Hph) as Hlt.
  destruct (inv_read _ _ _ _ I i d r k Hph) as [Hle [Heq _]].
  subst st'. unfold step. rewrite Hc, Hph.
  destruct (edit k d) as [d'| | |] eqn:He.
  - unfold write. cbn [sent_tag accept].
    destruct (match f with FReject => false | _ => r =? s_rev (st_store st) end) eqn:Hacc.
    + right. assert (Hr : (r =? s_rev (st_store st)) = true) by (destruct f; [exact Hacc|exact Hacc|discriminate]).
      apply N.eqb_eq in Hr. specialize (Heq Hr). subst d. exists d'.
      cbn [st_ph st_store]. rewrite nth_error_set_nth_eq by exact Hlt.
      split; [exact He|]. split; [reflexivity|]. destruct f; cbn [after_reply]; auto. discriminate.
    + left. cbn [st_ph st_store]. rewrite nth_error_set_nth_eq by exact Hlt. split; [reflexivity|].
      destruct f; cbn [after_reply]; try discriminate. destruct (k <? enters)%nat; discriminate.
  - left. cbn [finish st_ph st_store]. rewrite nth_error_set_nth_eq by exact Hlt. split; [reflexivity|discriminate].
  - left. cbn [finish st_ph st_store]. rewrite nth_error_set_nth_eq by exact Hlt. split; [reflexivity|discriminate].
  - left. cbn [finish st_ph st_store]. rewrite nth_error_set_nth_eq by exact Hlt. split; [reflexivity|discriminate].
Qed.

(* a schedule without faults is a special case *)
Lemma no_faults_run (D : Type) (cmds : list (command D)) (sched : list nat) (st : state D) :
  run cmds (no_faults sched) st = fold_left (fun st i => step cmds (i, FNone) st) sched st.
Proof.
  revert st; induction sched as [|i r IH]; intros st; [reflexivity|]. cbn [no_faults map run fold_left]. apply IH.
Qed.

(* ---- with an empty tag the statement is false ---- *)
Definition lost_cmds : list (command N) :=
  [RMW (fun _ d => EUpd (d + 1)) SendEmpty 0 false; RMW (fun _ d => EUpd (d + 10)) SendRead 0 false].

Theorem empty_tag_loses_update_refuted :
  ~ occ_statement N (fun c => match c with RMW _ _ _ true => False | _ => True end).
Proof.
  intros H.
  assert (Hall : Forall (fun c : command N => match c with RMW _ _ _ true => False | _ => True end) lost_cmds)
    by (repeat constructor).
  specialize (H lost_cmds Hall (mkStore 0 5) (no_faults [0; 1; 1; 0]%nat)).
  destruct H as [_ [Hdef _]]. vm_compute in Hdef. discriminate.
Qed.

(* ---- if the client sends an update again after a lost reply, the statement is false although every command sends
   the tag it read: the update is committed, its reply lost, the second sending is refused (the tag is stale now),
   the command reports a conflict and yet its change is in the definition ---- *)
Definition replay_cmds : list (command N) := [RMW (fun _ d => EUpd (d + 1)) SendRead 0 true].

Theorem replay_after_lost_reply_refuted :
  ~ occ_statement N (fun c => match c with RMW _ SendEmpty _ _ => False | _ => True end).
Proof.
  intros H.
  assert (Hall : Forall (fun c : command N => match c with RMW _ SendEmpty _ _ => False | _ => True end) replay_cmds)
    by (repeat constructor).
  specialize (H replay_cmds Hall (mkStore 0 5) [(0, FNone); (0, FLost); (0, FNone)]%nat).
  destruct H as [_ [_ [_ [_ Hin]]]]. specialize (Hin 0%nat). vm_compute in Hin.
  destruct (Hin (or_introl eq_refl)) as [H|H]; discriminate.
Qed.

(* ---- the commands of the CLI with the policies read from the source ---- *)
From Verif Require Import Model.OccSrc.

Theorem no_lost_update_cli :
  pol_set = SendRead /\ pol_rm = SendRead /\ pol_edit = SendRead -> update_replayed = false ->
  forall (ops : list op) (init : store tree) (sched : list (nat * fault)),
    let cmds := map cli_command ops in
    let fin := run cmds sched (init_state cmds init) in
    Forall (event_ok cmds) (st_trace fin)
    /\ s_def (st_store fin) = replay cmds (st_log fin) (s_def init)
    /\ NoDup (committed fin)
    /\ (forall i, nth_error (st_ph fin) i = Some (PDone OOk) -> In i (committed fin))
    /\ (forall i, In i (committed fin) ->
                  nth_error (st_ph fin) i = Some (PDone OOk) \/ nth_error (st_ph fin) i = Some (PDone OLost)).
Proof.
  intros [Hs [Hr He]] Hrp ops init sched.
  apply (no_lost_update tree).
  apply Forall_forall. intros c Hc. apply in_map_iff in Hc. destruct Hc as [o [<- _]].
  unfold cli_command, command_of. rewrite Hs, Hr, He, Hrp. destruct o; exact Logic.I.
Qed.
