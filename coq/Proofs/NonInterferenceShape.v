(* Proofs/NonInterferenceShape.v — C03: the shape of a secret payload.

   [W_lo] (NonInterferenceEval.v) relates two worlds whose constant provider outputs are [lo_equiv]: the same shape
   (constructors, keys, lengths, kinds of scalars, flags) and equal payloads outside secret nodes.  The property says
   more: "changing the plaintext of any secret ... can change only those parts of the result that are flagged secret" -
   and the plaintext of a provider output flagged secret is the WHOLE value below the flag, its shape included.
   Here: [x_free] (anything at all below a node flagged secret), the worlds [Wfree], the statement over them, its
   refutation by computation (the keys of a secret object show once a public object is merged over it: known finding
   C03-secret-shape, reproduced on eval.EvalEnvironment), and the proof outside the decidable class [C03.shape_class]
   (some constant provider output differs in shape between the two worlds). *)
From Verif Require Import Base.Bytes Model.Chain Model.GoText Model.Envelope Model.Eval Model.Redact.
From Verif Require Import Proofs.NonInterferenceRel Proofs.NonInterferenceOps Proofs.NonInterferenceTwins
     Proofs.NonInterferenceMono Proofs.NonInterferenceBuiltins Proofs.NonInterferenceEval Proofs.NonInterferenceMain
     Proofs.NonInterferenceExamples.
From Verif Require Corr.C03.

Definition x_top_secret (v : xval) : bool :=
  match v with XScalar s _ _ | XArr s _ _ | XObj s _ _ => s end.

(* two exported values that differ only in secret plaintexts: equal outside the nodes flagged secret; a node flagged
   secret is related to ANY node flagged secret *)
Inductive x_free : xval -> xval -> Prop :=
| xf_secret v1 v2 : x_top_secret v1 = true -> x_top_secret v2 = true -> x_free v1 v2
| xf_scalar u a : x_free (XScalar false u a) (XScalar false u a)
| xf_arr u l1 l2 : Forall2 x_free l1 l2 -> x_free (XArr false u l1) (XArr false u l2)
| xf_obj u m1 m2 : Forall2 (kv_rel x_free) m1 m2 -> x_free (XObj false u m1) (XObj false u m2).

Definition beh_free (b1 b2 : pbehaviour) : Prop :=
  match b1, b2 with
  | PEcho, PEcho => True
  | PConst v1, PConst v2 => x_free v1 v2
  | PFail, PFail => True
  | _, _ => False
  end.

Definition prov_free (p1 p2 : provider) : Prop :=
  pv_in p1 = pv_in p2 /\ pv_out p1 = pv_out p2 /\ beh_free (pv_beh p1) (pv_beh p2).

(* two worlds equal except for secrets of ANY shape *)
Record Wfree (fj : bool) (W1 W2 : world) : Prop := {
  wf_envs : Forall2 (kv_rel (loadg_lo fj)) (w_envs W1) (w_envs W2);
  wf_provs : Forall2 (kv_rel prov_free) (w_provs W1) (w_provs W2);
  wf_ctx : w_ctx W1 = w_ctx W2;
  wf_check : w_check W1 = w_check W2;
  wf_show : w_show W1 = w_show W2;
  wf_fault : w_fault W1 = w_fault W2;
  wf_dec : forall e c, opt_rel (fun _ _ => True) (w_decrypt W1 e c) (w_decrypt W2 e c)
}.

(* ---- same_shape: the boolean decides what lo_equiv needs beyond x_free ---- *)
Lemma all2_Forall2 {A} (f : A -> A -> bool) (R : A -> A -> Prop) l :
  Forall (fun a => forall b, f a b = true -> R a b) l ->
  forall l', C03.all2 f l l' = true -> Forall2 R l l'.
Proof.
  induction 1 as [|a l Ha _ IH]; intros [|b l'] H; cbn in H; try discriminate; constructor.
  - apply Ha. now apply andb_true_iff in H.
  - apply IH. now apply andb_true_iff in H.
Qed.

Lemma scalar_kind_sc_lo a b : C03.scalar_kind_eqb a b = true -> sc_lo true a b.
Proof. destruct a, b; cbn; intros H; try discriminate; auto; discriminate. Qed.

(* below a secret node the shape is all that low-equivalence asks for *)
Lemma same_shape_lo_under v1 : forall v2, C03.same_shape v1 v2 = true -> lo_g true true v1 v2.
Proof.
  induction v1 as [s u sc|s u l IH|s u m IH] using xval_ind2; intros [s' u' sc'|s' u' l'|s' u' m'] H; cbn in H;
    try discriminate; repeat (apply andb_true_iff in H; destruct H as [H ?]);
    apply Bool.eqb_prop in H; subst s'; match goal with E : Bool.eqb u _ = true |- _ => apply Bool.eqb_prop in E; subst u' end.
  - constructor. rewrite Bool.orb_true_r. now apply scalar_kind_sc_lo.
  - constructor. rewrite Bool.orb_true_r. cbn. eapply all2_Forall2; [|eassumption]. exact IH.
  - constructor. rewrite Bool.orb_true_r. cbn. eapply all2_Forall2; [|eassumption].
    eapply Forall_impl; [|exact IH]. intros [k v] Hv [k' v'] E. cbn in *.
    apply andb_true_iff in E. destruct E as [Ek Ev]. apply String.eqb_eq in Ek. split; [exact Ek|]. cbn. now apply Hv.
Qed.

Lemma lo_under_top_secret v1 v2 : x_top_secret v1 = true -> lo_g true true v1 v2 -> lo_g true false v1 v2.
Proof.
  intros Hs H. inversion H; subst; cbn in Hs; subst; constructor; cbn in *; assumption.
Qed.

Lemma all2_Forall2_rel {A} (f : A -> A -> bool) (P R : A -> A -> Prop) l :
  Forall (fun a => forall b, P a b -> f a b = true -> R a b) l ->
  forall l', Forall2 P l l' -> C03.all2 f l l' = true -> Forall2 R l l'.
Proof.
  induction 1 as [|a l Ha _ IH]; intros l' HP H; inversion HP; subst; cbn in H; constructor.
  - apply Ha; [assumption|]. now apply andb_true_iff in H.
  - apply IH; [assumption|]. now apply andb_true_iff in H.
Qed.

Lemma free_shape_lo v1 : forall v2, x_free v1 v2 -> C03.same_shape v1 v2 = true -> lo_equiv v1 v2.
Proof.
  unfold lo_equiv.
  induction v1 as [s u sc|s u l IH|s u m IH] using xval_ind2; intros v2 HF HS.
  - inversion HF; subst.
    + apply lo_under_top_secret; [assumption|]. now apply same_shape_lo_under.
    + apply lo_g_refl.
  - inversion HF as [? ? Hs1 Hs2| |u0 l1 l2 HL|]; subst.
    + apply lo_under_top_secret; [assumption|]. now apply same_shape_lo_under.
    + cbn in HS. constructor. cbn.
      apply andb_true_iff in HS. destruct HS as [_ HS].
      eapply all2_Forall2_rel; [exact IH|exact HL|]. exact HS.
  - inversion HF as [? ? Hs1 Hs2| | |u0 m1 m2 HL]; subst.
    + apply lo_under_top_secret; [assumption|]. now apply same_shape_lo_under.
    + cbn in HS. constructor. cbn. apply andb_true_iff in HS. destruct HS as [_ HS].
      eapply all2_Forall2_rel; [|exact HL|exact HS].
      eapply Forall_impl; [|exact IH]. intros [k v] Hv [k' v'] [Rk Rv] E. cbn in *.
      apply andb_true_iff in E. destruct E as [_ Ev]. split; [exact Rk|]. cbn. now apply Hv.
Qed.

(* ---- outside the class the worlds are W_lo ---- *)
Lemma provs_free_lo ps1 ps2 :
  Forall2 (kv_rel prov_free) ps1 ps2 -> C03.shape_class_provs ps1 ps2 = false -> Forall2 (kv_rel prov_lo) ps1 ps2.
Proof.
  unfold C03.shape_class_provs.
  induction 1 as [|[n1 p1] [n2 p2] ps1 ps2 [En (Ei & Eo & Eb)] _ IH]; intros Hc; [constructor|].
  cbn in Hc. apply Bool.orb_false_iff in Hc. destruct Hc as [Hh Ht].
  constructor; [|exact (IH Ht)]. split; [exact En|]. cbn in *. split; [exact Ei|]. split; [exact Eo|].
  unfold beh_free in Eb. unfold beh_lo. destruct (pv_beh p1), (pv_beh p2); try exact Eb.
  apply free_shape_lo; [exact Eb|]. now apply Bool.negb_false_iff in Hh.
Qed.

Theorem Wfree_lo fj W1 W2 : Wfree fj W1 W2 -> C03.shape_class W1 W2 = false -> Wg_lo fj W1 W2.
Proof.
  intros [He Hp Hc Hk Hs Hf Hd] Hcl. constructor; auto. now apply provs_free_lo.
Qed.

(* the converse inclusion: W_lo worlds are Wfree worlds (the new statement quantifies over MORE pairs) *)
Lemma lo_equiv_free v1 : forall v2, lo_equiv v1 v2 -> x_free v1 v2.
Proof.
  unfold lo_equiv. induction v1 as [s u sc|s u l IH|s u m IH] using xval_ind2; intros v2 H; inversion H; subst.
  - destruct s; [now apply xf_secret|]. cbn in *. rewrite (sc_lo_false _ _ H5). apply xf_scalar.
  - destruct s; [now apply xf_secret|]. cbn in *. apply xf_arr.
    eapply Forall2_Forall_l; [exact IH|eassumption|]. intros a b Ha Hab. now apply Ha.
  - destruct s; [now apply xf_secret|]. cbn in *. apply xf_obj.
    eapply Forall2_Forall_l; [exact IH|eassumption|]. intros a b Ha [Ek Hab]. split; [exact Ek|now apply Ha].
Qed.

Theorem Wlo_free fj W1 W2 : Wg_lo fj W1 W2 -> Wfree fj W1 W2.
Proof.
  intros [He Hp Hc Hk Hs Hf Hd]. constructor; auto.
  eapply Forall2_impl; [|exact Hp]. intros [n1 p1] [n2 p2] [En (Ei & Eo & Eb)]. split; [exact En|]. cbn in *.
  split; [exact Ei|]. split; [exact Eo|]. unfold beh_lo in Eb. unfold beh_free.
  destruct (pv_beh p1), (pv_beh p2); try exact Eb. now apply lo_equiv_free.
Qed.

(* ---- the statement over secrets of any shape ---- *)
Definition ni_statement_free (fj : bool) : Prop :=
  forall W1 W2 fuel name d1 d2,
    Wfree fj W1 W2 -> envg_lo fj d1 d2 ->
    ob_errors (run fuel W1 name d1) = false -> ob_oof (run fuel W1 name d1) = false ->
    ob_errors (run fuel W2 name d2) = false -> ob_oof (run fuel W2 name d2) = false ->
    ni_conclusion (run fuel W1 name d1) (run fuel W2 name d2).

(* proved outside the class: no fn::fromJSON, and no constant provider output changes its shape *)
Theorem noninterference_shape_partial :
  forall W1 W2 fuel name d1 d2,
    Wfree false W1 W2 -> C03.shape_class W1 W2 = false -> env_lo d1 d2 ->
    ob_errors (run fuel W1 name d1) = false -> ob_oof (run fuel W1 name d1) = false ->
    ob_errors (run fuel W2 name d2) = false -> ob_oof (run fuel W2 name d2) = false ->
    ni_conclusion (run fuel W1 name d1) (run fuel W2 name d2).
Proof.
  intros W1 W2 fuel name d1 d2 HW Hc Hd. apply noninterference_partial; [|exact Hd]. now apply Wfree_lo.
Qed.

(* refuted WITHOUT fn::fromJSON: a provider returns the secret object {j: v} in one world and {k: v} in the other; the
   importer merges {extra: x} over it; the redacted JSON renderings are {"cfg":{"extra":"x","j":"[secret]"}} and
   {"cfg":{"extra":"x","k":"[secret]"}} *)
Lemma W_shape_free k1 k2 : Wfree false (W_shape k1) (W_shape k2).
Proof.
  constructor; simpl; auto.
  - constructor; [|constructor]. split; [reflexivity|]. simpl. split; [reflexivity|]. simpl.
    constructor; [|constructor]. split; [reflexivity|]. simpl. constructor. constructor. constructor.
  - constructor; [|constructor]. split; [reflexivity|]. simpl. repeat split. now apply xf_secret.
Qed.

Lemma d_merge_lo : env_lo d_merge d_merge.
Proof.
  split; [reflexivity|]. simpl. constructor; [|constructor]. split; [reflexivity|]. simpl.
  constructor. constructor; [|constructor]. split; [reflexivity|]. simpl. constructor.
Qed.

Example W_shape_in_class : C03.shape_class (W_shape "j") (W_shape "k") = true.
Proof. vm_compute. reflexivity. Qed.

Theorem noninterference_shape_refuted : ~ ni_statement_free false.
Proof.
  intros H.
  specialize (H (W_shape "j") (W_shape "k") 40%nat "main" d_merge d_merge (W_shape_free _ _) d_merge_lo).
  assert (A1 : ob_errors (run 40 (W_shape "j") "main" d_merge) = false) by (vm_compute; reflexivity).
  assert (A2 : ob_oof (run 40 (W_shape "j") "main" d_merge) = false) by (vm_compute; reflexivity).
  assert (A3 : ob_errors (run 40 (W_shape "k") "main" d_merge) = false) by (vm_compute; reflexivity).
  assert (A4 : ob_oof (run 40 (W_shape "k") "main" d_merge) = false) by (vm_compute; reflexivity).
  destruct (H A1 A2 A3 A4) as (v1 & v2 & V1 & V2 & _ & _ & HJ & _).
  vm_compute in V1, V2. injection V1 as <-. injection V2 as <-. vm_compute in HJ. discriminate.
Qed.

(* the full intended statement - all programs, secrets of any shape - is refuted by either witness *)
Theorem noninterference_full_refuted : ~ ni_statement_free true.
Proof.
  intros H. apply noninterference_refuted. intros W1 W2 fuel name d1 d2 HW. apply H. now apply Wlo_free.
Qed.

(* scalar versus composite: the same leak; and array lengths do NOT show through a plain reference *)
Definition W_payload (v : xval) : world :=
  {| w_envs := [("base", LoadOk {| ed_imports := []; ed_values := [("cfg", EOpen "p" (EObj []))] |})];
     w_provs := [("p", {| pv_in := InAlways; pv_out := ScAlways; pv_beh := PConst v |})];
     w_ctx := []; w_check := false; w_show := false; w_fault := None; w_decrypt := fun _ _ => None |}.

Example scalar_vs_composite_leaks :
  let o1 := run 40 (W_payload (XScalar true false (SStr "v"))) "main" d_merge in
  let o2 := run 40 (W_payload (XObj true false [("k", XScalar false false (SStr "v"))])) "main" d_merge in
  ob_errors o1 = false /\ ob_oof o1 = false /\ ob_errors o2 = false /\ ob_oof o2 = false /\
  option_map x_redact_json (ob_value o1) = Some (JObj [("cfg", JObj [("extra", JStr "x")])]) /\
  option_map x_redact_json (ob_value o2) = Some (JObj [("cfg", JObj [("extra", JStr "x"); ("k", JStr "[secret]")])]).
Proof. vm_compute. repeat split. Qed.

(* ---- the oracle's class for C03-fromjson-null is about fromJSON arguments that CAN be secret ---- *)
Definition d_fj_public : envdef :=
  {| ed_imports := []; ed_values := [("a", EFromJSON (EStr "null")); ("b", ESecretPlain "null")] |}.
Definition d_fj_ref : envdef :=
  {| ed_imports := []; ed_values := [("a", EFromJSON (ESym [AName "s"])); ("s", ESecretPlain "null")] |}.
Definition W_fj_import : world :=
  {| w_envs := [("base", LoadOk (d_fromjson "null"))]; w_provs := []; w_ctx := []; w_check := false; w_show := false;
     w_fault := None; w_decrypt := fun _ _ => None |}.

Example fromjson_class_narrowed :
  C03.fromjson_of_secret W_plain d_fj_public = false            (* a public literal: outside the class *)
  /\ C03.fromjson_of_secret W_plain (d_fromjson "null") = true   (* a static secret *)
  /\ C03.fromjson_of_secret W_plain d_fj_ref = true              (* a reference *)
  /\ C03.fromjson_of_secret W_fj_import {| ed_imports := [("base", true)]; ed_values := [] |} = true.  (* in an import *)
Proof. vm_compute. repeat split. Qed.
