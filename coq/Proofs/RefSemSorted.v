(* Proofs/RefSemSorted.v — every chain the evaluator builds has strictly key-sorted object layers at every depth
   (value.go keeps properties in maps and sorts on export; the model keeps them sorted).  No hypothesis on the world,
   the definitions, the fuel or the diagnostics. *)
From Verif Require Import Base.Bytes Model.Chain Model.GoText Model.Envelope Model.Eval
  Proofs.EvalTotalBase Proofs.EvalTotalInv Proofs.EvalTotalOrder Proofs.EvalTotalSyntax Proofs.EvalTotalFail
  Proofs.EvalTotalRecover Proofs.EvalTotalBound
  Proofs.ChainAlgebraSorted Proofs.ChainAlgebraExport Proofs.RefSemAccess Proofs.RefSemWf.
From Coq Require Import Lia Sorted.

(* ---------------- chain operations keep sortedness ---------------- *)
Lemma csorted_property k c : csorted c = true -> csorted (property k c) = true.
Proof. apply (chered_property psorted psorted_unknown). Qed.

Lemma csorted_app a b : csorted a = true -> csorted b = true -> csorted (a ++ b) = true.
Proof. intros Ha Hb. rewrite chered_app, Ha, Hb. reflexivity. Qed.

Lemma csorted_opt_top_sec c : csorted c = true -> csorted (opt_top_sec c) = true.
Proof.
  destruct c as [|l r]; [auto|]. cbn [opt_top_sec]. rewrite !chered_cons. intro H. apply andb_true_iff in H.
  destruct H as [Hl Hr]. rewrite Hr, andb_true_r. destruct l; exact Hl.
Qed.

Lemma csorted_unknown_access : forall accs s, csorted (fst (unknown_access s accs)) = true.
Proof.
  induction accs as [|a rest IH]; intro s; [reflexivity|]. cbn [unknown_access].
  destruct s; try reflexivity; try apply IH.
  - destruct (array_index a _); [apply IH|reflexivity].
  - destruct (object_key a); [apply IH|reflexivity].
Qed.

Lemma csorted_head l c : csorted (l :: c) = true -> lhered psorted l = true.
Proof. rewrite chered_cons. intro H. apply andb_true_iff in H. apply H. Qed.
Lemma csorted_tail l c : csorted (l :: c) = true -> csorted c = true.
Proof. rewrite chered_cons. intro H. apply andb_true_iff in H. apply H. Qed.

Lemma csorted_value_access : forall f c p, csorted c = true -> csorted (fst (value_access f c p)) = true.
Proof.
  induction f as [|f IH]; intros c p Hc; [reflexivity|]. cbn [value_access].
  destruct p as [|a rest]; [exact Hc|]. destruct c as [|l base]; [reflexivity|].
  destruct (l_unk l); [apply csorted_unknown_access|].
  pose proof (csorted_head _ _ Hc) as Hl. pose proof (csorted_tail _ _ Hc) as Hb.
  destruct l as [s u sc x|s u sc elems|s u sc props]; [reflexivity| |].
  - destruct (array_index a _) as [i|]; [|reflexivity]. apply IH. eapply chered_nth, Hl.
  - destruct (object_key a) as [k|]; [|reflexivity]. destruct (alookup k props) as [ch|] eqn:Ea.
    + apply IH. apply csorted_app; [eapply chered_child; eassumption|apply csorted_property, Hb].
    + destruct (is_object base); [apply IH, Hb|reflexivity].
Qed.

Lemma In_ainsert' {A} k (v : A) m x : In x (ainsert k v m) -> x = (k, v) \/ In x m.
Proof.
  induction m as [|[k' v'] r IH]; cbn [ainsert]; [intros [<-|[]]; auto|].
  destruct (String.eqb k k'); [intros [<-|H]; [auto|right; right; exact H]|].
  destruct (String.ltb k k'); [intros [<-|H]; auto|]. intros [<-|H]; [right; left; reflexivity|].
  destruct (IH H); auto. right. right. assumption.
Qed.

Lemma obj_sorted s u sc props :
  ssorted (map fst props) -> (forall k c, In (k, c) props -> csorted c = true) ->
  csorted [LObj s u sc props] = true.
Proof.
  intros Hs Hc. rewrite chered_cons, lhered_obj. change (chered psorted []) with true. rewrite andb_true_r.
  change (psorted (LObj s u sc props)) with (sorted_b (map fst props)).
  apply andb_true_iff. split; [apply sorted_b_ok, Hs|]. apply forallb_forall. intros [k c] Hin. apply (Hc k c Hin).
Qed.

Lemma arr_sorted s u sc elems : (forall c, In c elems -> csorted c = true) -> csorted [LArr s u sc elems] = true.
Proof.
  intros Hc. rewrite chered_cons, lhered_arr. change (chered psorted []) with true. rewrite andb_true_r.
  change (psorted (LArr s u sc elems)) with true. cbn [andb]. apply forallb_forall, Hc.
Qed.

Lemma fold_ainsert_sorted (g : xval -> chain) (m : list (string * xval)) :
  (forall v, csorted (g v) = true) ->
  forall acc, asorted acc -> (forall k c, In (k, c) acc -> csorted c = true) ->
  asorted (fold_left (fun acc kv => ainsert (fst kv) (g (snd kv)) acc) m acc) /\
  forall k c, In (k, c) (fold_left (fun acc kv => ainsert (fst kv) (g (snd kv)) acc) m acc) -> csorted c = true.
Proof.
  intro Hg. induction m as [|kv r IHm]; intros acc H1 H2; [split; assumption|]. cbn [fold_left]. apply IHm.
  - apply ainsert_sorted, H1.
  - intros k c Hin. apply In_ainsert' in Hin. destruct Hin as [[= -> ->]|Hin]; [apply Hg|eapply H2, Hin].
Qed.

Lemma csorted_unexport : forall fuel b v, csorted (unexport fuel b v) = true.
Proof.
  induction fuel as [|f IH]; intros b v; [reflexivity|]. cbn [unexport]. destruct v as [s u x|s u l|s u m].
  - reflexivity.
  - apply arr_sorted. intros c Hc. apply in_map_iff in Hc. destruct Hc as (x & <- & _). apply IH.
  - destruct (fold_ainsert_sorted (unexport f (s || b)) m (IH (s || b)) []) as [G1 G2];
      [constructor|intros k c []|]. apply obj_sorted; assumption.
Qed.

(* ---------------- a small Hoare logic with value postconditions ---------------- *)
Section VT.
Variable P : st -> Prop.
Definition vt {A} (m : M A) (Qv : A -> Prop) : Prop := forall s, P s -> Qv (fst (m s)) /\ P (snd (m s)).

Lemma vt_ret {A} (a : A) (Qv : A -> Prop) : Qv a -> vt (ret a) Qv.
Proof. intros H s Hs. split; assumption. Qed.
Lemma vt_bind {A B} (m : M A) (k : A -> M B) (Q1 : A -> Prop) (Q2 : B -> Prop) :
  vt m Q1 -> (forall a, Q1 a -> vt (k a) Q2) -> vt (bind m k) Q2.
Proof. intros Hm Hk s Hs. rewrite bind_eq. destruct (Hm s Hs) as [H1 H2]. apply Hk; assumption. Qed.
Lemma vt_weaken {A} (m : M A) (Q1 Q2 : A -> Prop) : vt m Q1 -> (forall a, Q1 a -> Q2 a) -> vt m Q2.
Proof. intros H HQ s Hs. destruct (H s Hs). split; auto. Qed.
End VT.

(* ---------------- the state invariant: every stored value is sorted ---------------- *)
Definition Sst (s : st) : Prop :=
  (forall id v, In (id, Some v) (memo s) -> csorted v = true) /\
  (forall n i v, In (n, i) (imps s) -> is_value i = Some v -> csorted v = true).

Lemma Sst_st0 : Sst st0.
Proof. split; intros; contradiction. Qed.

Lemma memo_get_In id m o : memo_get id m = Some o -> exists k, In (k, o) m.
Proof.
  induction m as [|[k v] r IH]; [discriminate|]. cbn [memo_get].
  destruct (eid_eqb id k); [intros [= ->]; exists k; left; reflexivity|].
  intro H. destruct (IH H) as [k' Hk']. exists k'. right. exact Hk'.
Qed.

Notation vs := (vt Sst).
Definition anyv {A} : A -> Prop := fun _ => True.

Lemma Sst_same s s' : memo s' = memo s -> imps s' = imps s -> Sst s -> Sst s'.
Proof. unfold Sst. intros -> ->. auto. Qed.

Section SORTED.
Variable W : world.

Lemma vs_add_err n : vs (add_err n) anyv.
Proof. intros s Hs. split; [exact I|]. eapply Sst_same; [| |exact Hs]; reflexivity. Qed.
Lemma vs_err : vs err anyv. Proof. apply vs_add_err. Qed.
Lemma vs_emit e : vs (emit e) anyv.
Proof. intros s Hs. split; [exact I|]. eapply Sst_same; [| |exact Hs]; reflexivity. Qed.
Lemma vs_call : vs (call W) anyv.
Proof. intros s Hs. split; [exact I|]. eapply Sst_same; [| |exact Hs]; reflexivity. Qed.
Lemma vs_oof : vs out_of_fuel anyv.
Proof. intros s Hs. split; [exact I|]. eapply Sst_same; [| |exact Hs]; reflexivity. Qed.
Lemma vs_fail_oof (c : chain) : csorted c = true -> vs (fail_oof c) (fun v => csorted v = true).
Proof. intro H. eapply vt_bind; [apply vs_oof|]. intros _ _. apply vt_ret, H. Qed.

Lemma vs_get_memo id : vs (get_memo id) (fun o => forall v, o = Some (Some v) -> csorted v = true).
Proof.
  intros s Hs. split; [|exact Hs]. cbn [get_memo fst]. intros v Hv.
  destruct (memo_get_In _ _ _ Hv) as [k Hk]. apply (proj1 Hs k v Hk).
Qed.
Lemma vs_memo_set id o : (forall v, o = Some v -> csorted v = true) -> vs (memo_set id o) anyv.
Proof.
  intros Ho s [H1 H2]. split; [exact I|]. split; [|exact H2].
  intros id' v [[= _ E2]|Hin]; [apply (Ho v E2)|eapply H1, Hin].
Qed.
Lemma vs_imps_get n : vs (imps_get n) (fun o => forall i v, o = Some i -> is_value i = Some v -> csorted v = true).
Proof.
  intros s Hs. split; [|exact Hs]. cbn [imps_get fst]. intros i v Hi Hv.
  apply alookup_In in Hi. apply (proj2 Hs n i v Hi Hv).
Qed.
Lemma vs_imps_set n i : (forall v, is_value i = Some v -> csorted v = true) -> vs (imps_set n i) anyv.
Proof.
  intros Hi s [H1 H2]. split; [exact I|]. split; [exact H1|].
  intros n' i' v [[= _ E2]|Hin] Hv; [subst i'; apply Hi, Hv|eapply H2; eassumption].
Qed.

Notation so := (fun v : chain => csorted v = true).

Lemma vs_value_access c accs : csorted c = true ->
  vs (let '(c', n) := value_access (va_need c accs) c accs in add_err n ;;; ret c') so.
Proof.
  intro Hc. pose proof (csorted_value_access (va_need c accs) c accs Hc) as H.
  destruct (value_access (va_need c accs) c accs) as [c' n]. cbn [fst] in H.
  eapply vt_bind; [apply vs_add_err|]. intros _ _. apply vt_ret, H.
Qed.

Ltac leaf := first [ reflexivity | apply csorted_unexport | assumption ].
Ltac v_step :=
  first
  [ assumption
  | apply vt_ret; leaf
  | apply vs_value_access; assumption
  | eapply vt_bind; [ first [ apply vs_err | apply vs_add_err | apply vs_emit | apply vs_call | apply vs_oof ] | intros ? _ ]
  | match goal with |- vt _ (match ?x with _ => _ end) _ => destruct x eqn:? end
  | progress cbv beta zeta ].
Ltac v_tac := repeat v_step.

(* ---- loops ---- *)
Lemma interp_go_vs (ea : path -> M chain) ps :
  (forall p, vs (ea p) so) -> forall acc unk sec, vs (interp_go ea ps acc unk sec) so.
Proof.
  intro H. induction ps as [|[text [p|]] r IH]; intros acc unk sec.
  - rewrite interp_go_nil. apply vt_ret. reflexivity.
  - rewrite interp_go_ref. eapply vt_bind; [apply H|]. intros pv _.
    destruct (to_string (ts_need pv) pv) as [[s0 u0] sc]. apply IH.
  - rewrite interp_go_text. apply IH.
Qed.

Lemma arr_go_vs (ee : expr -> bool -> chain -> eid -> M chain) id :
  (forall e i', vs (ee e false [] i') so) ->
  forall es i acc, (forall c, In c acc -> csorted c = true) -> vs (arr_go ee id es i acc) so.
Proof.
  intro H. induction es as [|e r IH]; intros i acc Hacc.
  - rewrite arr_go_nil. apply vt_ret. apply arr_sorted. intros c Hc. apply Hacc, in_rev, Hc.
  - rewrite arr_go_cons. eapply vt_bind; [apply H|]. intros v Hv. apply IH.
    intros c [<-|Hc]; [exact Hv|apply Hacc, Hc].
Qed.

Lemma obj_go_vs (ee : expr -> bool -> chain -> eid -> M chain) xbase id :
  (forall e c i', csorted c = true -> vs (ee e false c i') so) -> csorted xbase = true ->
  forall ds acc, ssorted (rev (map fst acc) ++ map ekey ds) -> (forall k c, In (k, c) acc -> csorted c = true) ->
  vs (obj_go ee xbase id ds acc) so.
Proof.
  intros H Hxb. induction ds as [|[[j k] e] r IH]; intros acc Hs Hacc.
  - rewrite obj_go_nil. apply vt_ret. unfold obj_layer. apply obj_sorted.
    + rewrite map_rev. rewrite app_nil_r in Hs. exact Hs.
    + intros k c Hin. apply (Hacc k c). apply in_rev. exact Hin.
  - rewrite obj_go_cons. eapply vt_bind; [apply H, csorted_property, Hxb|]. intros v Hv. apply IH.
    + cbn [map fst rev]. rewrite <- app_assoc. exact Hs.
    + intros k' c [[= <- <-]|Hin]; [exact Hv|eapply Hacc, Hin].
Qed.

(* ---- bodies ---- *)
Definition Ewf (E : ectx) : Prop :=
  csorted (ec_base E) = true /\ csorted (ec_imports E) = true /\ csorted (ec_context E) = true.

Lemma expr_body_vs er x xsec xbase id :
  vs (er x xbase id) so -> csorted xbase = true -> vs (expr_body er x xsec xbase id) so.
Proof.
  intros Her Hxb. unfold expr_body. eapply vt_bind; [apply vs_get_memo|]. intros o Ho.
  destruct o as [[v|]|].
  - apply vt_ret. apply Ho. reflexivity.
  - v_tac.
  - eapply vt_bind; [apply vs_memo_set; intros v [=]|]. intros _ _.
    eapply vt_bind; [exact Her|]. intros v Hv. cbv zeta.
    assert (H2 : csorted ((if xsec then opt_top_sec v else v) ++ xbase) = true).
    { apply csorted_app; [|exact Hxb]. destruct xsec; [apply csorted_opt_top_sec, Hv|exact Hv]. }
    eapply vt_bind; [apply vs_memo_set; intros v' [= <-]; exact H2|]. intros _ _. apply vt_ret, H2.
Qed.

Lemma typed_body_vs ee x a id :
  vs (ee x false [] id) so -> vs (typed_body ee x a id) (fun r => csorted (fst r) = true).
Proof.
  intro H. unfold typed_body. eapply vt_bind; [exact H|]. intros v Hv.
  destruct (validate a v) as [ok n]. eapply vt_bind; [apply vs_add_err|]. intros _ _. apply vt_ret. exact Hv.
Qed.

Lemma access_body_vs wk E p :
  Ewf E -> vs (wk (root_of E) false (ec_base E) (ec_name E, []) p) so -> vs (access_body wk E p) so.
Proof.
  intros (Hb & Hi & Hc) H. unfold access_body. destruct p as [|a0 rest]; [apply vt_ret; reflexivity|].
  cbv zeta. rewrite root_dispatch. v_tac.
Qed.

Lemma walk_body_vs ee wk rx rsec rbase rid accs :
  csorted rbase = true ->
  vs (ee rx rsec rbase rid) so ->
  (forall y b c i accs', csorted c = true -> vs (wk y b c i accs') so) ->
  vs (walk_body ee wk rx rsec rbase rid accs) so.
Proof.
  intros Hrb Hee Hwk. unfold walk_body. destruct accs as [|a rest]; [exact Hee|].
  assert (Hdef : vs (v <- ee rx rsec rbase rid ;;
                     let '(c, n) := value_access (va_need v (a :: rest)) v (a :: rest) in add_err n ;;; ret c) so).
  { eapply vt_bind; [exact Hee|]. intros v Hv. apply vs_value_access, Hv. }
  destruct rx; try exact Hdef.
  - destruct (array_index a _); [apply Hwk; reflexivity|v_tac].
  - destruct (object_key a) as [k|]; [|v_tac]. destruct (find_entry k l 0%nat) as [[j px]|].
    + apply Hwk, csorted_property, Hrb.
    + destruct (is_object rbase); [apply vs_value_access, Hrb|v_tac].
  - apply Hwk. reflexivity.
  - v_tac.
Qed.

Lemma repr_body_vs E ee et ea x xbase id :
  (forall e b c i', csorted c = true -> vs (ee e b c i') so) ->
  (forall e a i', vs (et e a i') (fun r => csorted (fst r) = true)) ->
  (forall p, vs (ea p) so) -> csorted xbase = true ->
  vs (repr_body W ee et ea E x xbase id) so.
Proof.
  intros Hee Het Hea Hxb. destruct x; unfold repr_body.
  - v_tac. - v_tac. - v_tac. - v_tac.
  - apply interp_go_vs, Hea.
  - apply Hea.
  - apply arr_go_vs; [intros; apply Hee; reflexivity|intros c []].
  - pose proof (proj1 (declared_keys_of_spec l)) as Hs. unfold declared_keys_of in Hs.
    destruct (declared l 0%nat []) as [decl dups]. cbn [fst] in Hs.
    eapply vt_bind; [apply vs_add_err|]. intros _ _.
    apply obj_go_vs; [intros; apply Hee; assumption|exact Hxb|exact Hs|intros k c []].
  - eapply vt_bind; [apply Het|]. intros [dv dok] Hd. eapply vt_bind; [apply Het|]. intros [vv vok] Hv. v_tac.
  - eapply vt_bind; [apply Hee; reflexivity|]. intros v Hv. v_tac.
  - eapply vt_bind; [apply Het|]. intros [v ok] Hv. v_tac.
  - eapply vt_bind; [apply Hee; reflexivity|]. intros v Hv. v_tac.
  - eapply vt_bind; [apply Het|]. intros [v ok] Hv. v_tac.
  - eapply vt_bind; [apply Het|]. intros [v ok] Hv. v_tac.
  - apply Hee. reflexivity.
  - v_tac.
  - eapply vt_bind; [apply vs_call|]. intros failed _. eapply vt_bind; [apply vs_emit|]. intros _ _. cbv zeta.
    eapply vt_bind; [instantiate (1 := anyv); destruct (if failed then None else alookup provider (w_provs W)); [apply vt_ret; exact I|apply vs_err]|]. intros _ _.
    eapply vt_bind; [apply Het|]. intros [iv ok] Hv. v_tac.
  - v_tac.
Qed.

Definition S5 (f : nat) : Prop :=
  (forall E x xsec xbase id, Ewf E -> csorted xbase = true -> vs (eval_expr W f E x xsec xbase id) so) /\
  (forall E x xbase id, Ewf E -> csorted xbase = true -> vs (eval_repr W f E x xbase id) so) /\
  (forall E x a id, Ewf E -> vs (eval_typed W f E x a id) (fun r => csorted (fst r) = true)) /\
  (forall E p, Ewf E -> vs (eval_access W f E p) so) /\
  (forall E rx rsec rbase rid accs, Ewf E -> csorted rbase = true -> vs (walk W f E rx rsec rbase rid accs) so).

Lemma S5_all : forall f, S5 f.
Proof.
  induction f as [|f IH].
  - unfold S5; split5; intros; try (apply vs_fail_oof; reflexivity).
    all: try (eapply vt_bind; [apply vs_oof|]; intros _ _; apply vt_ret; reflexivity).
  - destruct IH as (He & Hr & Ht & Ha & Hw). unfold S5; split5; intros.
    + rewrite eval_expr_S. apply expr_body_vs; auto.
    + rewrite eval_repr_S. apply repr_body_vs; auto.
    + rewrite eval_typed_S. apply typed_body_vs. apply He; [assumption|reflexivity].
    + rewrite eval_access_S. apply access_body_vs; [assumption|]. apply Hw; [assumption|apply H].
    + rewrite walk_S. apply walk_body_vs; auto.
Qed.

End SORTED.

(* ---------------- environments ---------------- *)
Section SORTED_ENV.
Variable W : world.
Notation so := (fun v : chain => csorted v = true).

Definition my_ok (my : list (string * chain)) : Prop :=
  asorted my /\ forall k c, In (k, c) my -> csorted c = true.

Lemma my_ok_ainsert n v my : csorted v = true -> my_ok my -> my_ok (ainsert n v my).
Proof.
  intros Hv [H1 H2]. split; [apply ainsert_sorted, H1|].
  intros k c Hin. apply In_ainsert' in Hin. destruct Hin as [[= -> ->]|Hin]; [exact Hv|eapply H2, Hin].
Qed.

Lemma env_go_vs (ev : string -> envdef -> M chain) :
  (forall n d, vs (ev n d) so) ->
  forall is base my, csorted base = true -> my_ok my ->
  vs (env_go W ev is base my) (fun r => csorted (fst r) = true /\ my_ok (snd r)).
Proof.
  intro Hev. induction is as [|[n merge] rest IH]; intros base my Hb Hm.
  - rewrite env_go_nil. apply vt_ret. split; assumption.
  - rewrite env_go_cons. eapply vt_bind; [apply vs_imps_get|]. intros o Ho. destruct o as [i|].
    + destruct (is_evaluating i).
      * eapply vt_bind; [apply vs_err|]. intros _ _. apply IH; assumption.
      * destruct (is_value i) as [v|] eqn:Ev; [|apply IH; assumption].
        assert (Hval : csorted v = true) by (apply (Ho i v eq_refl Ev)).
        apply IH; [destruct merge; [apply csorted_app; assumption|exact Hb]|apply my_ok_ainsert; assumption].
    + eapply vt_bind; [apply vs_call|]. intros failed _. eapply vt_bind; [apply vs_emit|]. intros _ _.
      destruct (load_result W failed n) as [| |d'].
      * eapply vt_bind; [apply vs_err|]. intros _ _.
        eapply vt_bind; [apply vs_imps_set; cbn [is_value]; intros v [=]|]. intros _ _. apply IH; assumption.
      * eapply vt_bind; [apply vs_err|]. intros _ _.
        eapply vt_bind; [apply vs_imps_set; cbn [is_value]; intros v [=]|]. intros _ _. apply IH; assumption.
      * eapply vt_bind; [apply Hev|]. intros v Hv.
        eapply vt_bind; [apply vs_imps_set; cbn [is_value]; intros v' [= <-]; exact Hv|]. intros _ _.
        apply IH; [destruct merge; [apply csorted_app; assumption|exact Hb]|apply my_ok_ainsert; assumption].
Qed.

Lemma env_ectx_wf root' name d base my : csorted base = true -> my_ok my -> Ewf (env_ectx W root' name d base my).
Proof.
  intros Hb [H1 H2]. unfold Ewf. cbn [env_ectx ec_base ec_imports ec_context]. split; [exact Hb|]. split.
  - unfold imports_value. apply obj_sorted; assumption.
  - unfold context_chain. apply csorted_unexport.
Qed.

Lemma eval_env_vs : forall f root name d, vs (eval_env W f root name d) so.
Proof.
  induction f as [|f IH]; intros root name d.
  - rewrite eval_env_0. apply vs_fail_oof. reflexivity.
  - rewrite eval_env_S. unfold env_body. cbv zeta.
    eapply vt_bind; [apply vs_imps_set; cbn [is_value]; intros v [=]|]. intros _ _.
    eapply vt_bind; [apply env_go_vs; [intros; apply IH|reflexivity|split; [constructor|intros k c []]]|].
    intros [base my] [Hb Hm]. cbn [fst snd] in Hb, Hm.
    eapply vt_bind; [apply vs_imps_set; cbn [is_value]; intros v [=]|]. intros _ _.
    eapply vt_bind; [apply vs_add_err|]. intros _ _.
    apply (S5_all W f); [apply env_ectx_wf; assumption|exact Hb].
Qed.

(* THEOREM: the value of an environment is key-sorted at every depth — always *)
Theorem eval_env_sorted f root name d : csorted (fst (eval_env W f root name d st0)) = true.
Proof. apply (eval_env_vs f root name d st0 Sst_st0). Qed.

End SORTED_ENV.

(* ---------------- known + sorted = good ---------------- *)
Local Open Scope nat_scope.
Definition pknown (l : layer) : bool := negb (l_unk l).
(* no layer of the chain, at any depth, is an unknown *)
Notation cknown := (chered pknown).

Lemma lhered_and (P Q : layer -> bool) : forall n l, lsize l <= n ->
  lhered P l = true -> lhered Q l = true -> lhered (fun l => P l && Q l) l = true.
Proof.
  induction n as [|n IH]; intros l Hn; [pose proof (lsize_pos l); lia|].
  assert (Hin : forall c l0, In l0 c -> lsize l0 <= csize c).
  { induction c as [|a r IHc]; [contradiction|]. intros l0 [->|H0]; rewrite csize_cons; [lia|]. specialize (IHc _ H0). lia. }
  destruct l as [s u sc x|s u sc e|s u sc props].
  - rewrite !lhered_scalar. intros -> ->. reflexivity.
  - rewrite !lhered_arr, lsize_arr in *. intros H1 H2. apply andb_true_iff in H1, H2.
    destruct H1 as [P1 F1], H2 as [Q1 F2]. rewrite P1, Q1. cbn [andb]. rewrite forallb_forall in *.
    intros c Hc. specialize (F1 c Hc). specialize (F2 c Hc). unfold chered in *. rewrite forallb_forall in *.
    intros l0 Hl0. apply IH; [|apply F1, Hl0|apply F2, Hl0].
    pose proof (cssize_In c e Hc). pose proof (Hin c l0 Hl0). lia.
  - rewrite !lhered_obj, lsize_obj in *. intros H1 H2. apply andb_true_iff in H1, H2.
    destruct H1 as [P1 F1], H2 as [Q1 F2]. rewrite P1, Q1. cbn [andb]. rewrite forallb_forall in *.
    intros [k c] Hc. specialize (F1 (k, c) Hc). specialize (F2 (k, c) Hc). cbn [snd] in *.
    unfold chered in *. rewrite forallb_forall in *. intros l0 Hl0. apply IH; [|apply F1, Hl0|apply F2, Hl0].
    assert (csize c <= psize props).
    { clear -Hc. induction props as [|a r IHp]; [contradiction|]. rewrite psize_cons.
      destruct Hc as [->|Hc]; [cbn [snd]; lia|]. specialize (IHp Hc). lia. }
    pose proof (Hin c l0 Hl0). lia.
Qed.

Lemma cgood_of_known_sorted c : cknown c = true -> csorted c = true -> cgood c = true.
Proof.
  unfold chered. rewrite !forallb_forall. intros H1 H2 l Hl.
  apply (lhered_and pknown psorted (lsize l) l (le_n _) (H1 l Hl) (H2 l Hl)).
Qed.
