(* Proofs/YamlEditRec.v — Set and Delete, level by level.
   The model writes Set / Delete as the core edit followed by ONE pass over the keys of the path (norm_path).  The Go
   code calls fixKeyComment(keyNode, valueNode) after the recursive call at every mapping level.  The equations below
   show that the two are the same function: [yset pr (key :: p)] is [yset pr p] on the value of that key followed by
   the repair of that one key.  They are what the theorems about the CLI commands need, because `env set` / `env rm`
   call Set / Delete on the node UNDER the key "values": that is the same edit without the repair of that key. *)
From Coq Require Import Lia ZifyNat ZifyBool.
From Verif Require Import Base.Bytes Model.YamlEdit Proofs.YamlEditBase Proofs.YamlEditProofs Proofs.YamlEditNorm.
Local Open Scope Z_scope.

(* [g] applied to the value of the first entry whose key is [key] *)
Fixpoint map_val (key : string) (g : node -> node) (l : list node) : list node :=
  match l with
  | k :: v :: r => if String.eqb (nvalue k) key then k :: g v :: r else k :: v :: map_val key g r
  | _ => l
  end.

(* fixKeyComment on the first entry whose key is [key] *)
Definition fix_entry (key : string) (l : list node) : list node := norm_entry key (fun v => v) l.

Lemma norm_entry_split key g l : norm_entry key g l = fix_entry key (map_val key g l).
Proof.
  unfold fix_entry. induction l as [| k0 | k0 v0 r IH] using pair_ind; cbn; auto.
  destruct (String.eqb (nvalue k0) key) eqn:E; cbn; rewrite E; [reflexivity|]. now rewrite IH.
Qed.

Lemma rmap_rmap {A B C} (f : A -> B) (g : B -> C) (r : result A) :
  rmap g (rmap f r) = rmap (fun a => g (f a)) r.
Proof. now destruct r. Qed.

Lemma rmap_ext {A B} (f g : A -> B) (r : result A) : (forall a, f a = g a) -> rmap f r = rmap g r.
Proof. intros H. destruct r; cbn; now rewrite ?H. Qed.

Lemma upd_key_rmap key f g l :
  upd_key key (fun x => rmap g (f x)) l = rmap (map_val key g) (upd_key key f l).
Proof.
  induction l as [| k0 | k0 v0 r IH] using pair_ind; cbn [upd_key].
  - rewrite !rmap_rmap. apply rmap_ext. intros a. cbn. now rewrite String.eqb_refl.
  - reflexivity.
  - destruct (String.eqb (nvalue k0) key) eqn:E.
    + rewrite !rmap_rmap. apply rmap_ext. intros a. cbn. now rewrite E.
    + rewrite IH, !rmap_rmap. apply rmap_ext. intros a. cbn. now rewrite E.
Qed.

Lemma upd_nth_rmap i f g l :
  upd_nth i (fun x => rmap g (f x)) l = rmap (map_nth i g) (upd_nth i f l).
Proof.
  revert i. induction l as [|c r IH]; intros [|i]; cbn [upd_nth]; try reflexivity.
  - rewrite !rmap_rmap. now apply rmap_ext.
  - rewrite IH, !rmap_rmap. now apply rmap_ext.
Qed.

Lemma del_key_rmap pr key f g l :
  del_key pr key false (fun x => rmap g (f x)) l = rmap (map_val key g) (del_key pr key false f l).
Proof.
  induction l as [| k0 | k0 v0 r IH] using pair_ind; cbn [del_key].
  - now destruct (p_del_missing pr).
  - reflexivity.
  - destruct (String.eqb (nvalue k0) key) eqn:E.
    + rewrite !rmap_rmap. apply rmap_ext. intros a. cbn. now rewrite E.
    + rewrite IH, !rmap_rmap. apply rmap_ext. intros a. cbn. now rewrite E.
Qed.

Lemma with_content_twice n c c' : with_content (with_content n c) c' = with_content n c'.
Proof. now destruct n. Qed.

(* the key repair of one level, as a function on the mapping *)
Definition fix_key_at (pr : params) (key : string) (n : node) : node :=
  if p_key_lc pr then with_content n (fix_entry key (ncontent n)) else n.

Lemma fix_key_at_norm pr key n :
  nkind n = KMap -> fix_key_at pr key n = if p_key_lc pr then norm_path [AKey key] n else n.
Proof. intros Hk. unfold fix_key_at. cbn [norm_path]. now rewrite Hk. Qed.

Lemma norm_path_cons_map key p n c :
  nkind n = KMap ->
  norm_path (AKey key :: p) (with_content n c) = with_content n (fix_entry key (map_val key (norm_path p) c)).
Proof.
  intros Hk. cbn [norm_path]. now rewrite with_content_kind, Hk, with_content_content, with_content_twice, norm_entry_split.
Qed.

(* ---------------- Set ---------------- *)
Theorem yset_cons_map pr key p new n :
  nkind (promote (AKey key) n) = KMap ->
  yset pr (AKey key :: p) new n =
  rmap (fun c => fix_key_at pr key (with_content (promote (AKey key) n) c))
       (upd_key key (yset pr p new) (ncontent n)).
Proof.
  intros Hk. unfold yset, fix_key_at. cbn [yset0]. cbv zeta. rewrite Hk, promote_content.
  destruct (p_key_lc pr).
  - rewrite upd_key_rmap, !rmap_rmap. apply rmap_ext. intros c.
    rewrite with_content_content, with_content_twice. now apply norm_path_cons_map.
  - reflexivity.
Qed.

Lemma upd_nth_length i f l l' : upd_nth i f l = Ok l' -> length l' = length l /\ (i < length l)%nat.
Proof.
  intros H. apply upd_nth_ok in H. destruct H as (c & c' & H1 & _ & _ & H4 & _). split; auto.
  apply nth_error_Some. congruence.
Qed.

Theorem yset_cons_seq pr i p new n :
  nkind (promote (AIdx i) n) = KSeq ->
  yset pr (AIdx i :: p) new n =
  if (i <? 0) || (len (ncontent n) <? i) then Err ERange
  else rmap (with_content (promote (AIdx i) n))
            (upd_nth (Z.to_nat i) (yset pr p new)
                     (if i =? len (ncontent n) then ncontent n ++ [zero_node] else ncontent n)).
Proof.
  intros Hk. unfold yset. cbn [yset0]. cbv zeta. rewrite Hk, promote_content.
  destruct ((i <? 0) || (len (ncontent n) <? i)) eqn:Hb; [now destruct (p_key_lc pr)|].
  destruct (p_key_lc pr); [|reflexivity].
  rewrite upd_nth_rmap, !rmap_rmap.
  set (c1 := if i =? len (ncontent n) then ncontent n ++ [zero_node] else ncontent n).
  destruct (upd_nth (Z.to_nat i) (yset0 pr p new) c1) as [c2| |] eqn:Eu; cbn [rmap]; try reflexivity.
  f_equal. cbn [norm_path]. rewrite with_content_kind, Hk, with_content_content, with_content_twice.
  destruct (upd_nth_length _ _ _ _ Eu) as [Hl Hi].
  assert (Hr : (i <? 0) || (len c2 <=? i) = false) by (unfold len in *; lia).
  now rewrite Hr.
Qed.

Theorem yset_cons_other pr a p new n :
  nkind (promote a n) <> KMap -> nkind (promote a n) <> KSeq -> yset pr (a :: p) new n = Err EExpected.
Proof.
  intros H1 H2. unfold yset. cbn [yset0]. cbv zeta.
  destruct (nkind (promote a n)); try congruence; now destruct (p_key_lc pr).
Qed.

Theorem yset_nil pr new n : yset pr [] new n = Ok (overwrite pr n new).
Proof. unfold yset. cbn. now destruct (p_key_lc pr). Qed.

(* ---------------- Delete ---------------- *)
Lemma removelast_cons (a : acc) (p : path) : p <> [] -> removelast (a :: p) = a :: removelast p.
Proof. destruct p; [congruence|reflexivity]. Qed.

Theorem ydelete_one pr a n : ydelete pr [a] n = ydelete0 pr [a] n.
Proof. unfold ydelete. cbn [removelast norm_path]. destruct (p_key_lc pr); [|reflexivity]. now destruct (ydelete0 pr [a] n). Qed.

Theorem ydelete_nil pr n : ydelete pr [] n = ydelete0 pr [] n.
Proof. unfold ydelete. cbn [removelast norm_path]. destruct (p_key_lc pr); [|reflexivity]. now destruct (ydelete0 pr [] n). Qed.

Theorem ydelete_cons_map pr key p n :
  p <> [] -> nkind n = KMap ->
  ydelete pr (AKey key :: p) n =
  rmap (fun c => fix_key_at pr key (with_content n c)) (del_key pr key false (ydelete pr p) (ncontent n)).
Proof.
  intros Hp Hk. unfold ydelete, fix_key_at. rewrite removelast_cons by auto. cbn [ydelete0]. rewrite Hk.
  assert (Hn : is_nil p = false) by (destruct p; [congruence|reflexivity]). rewrite Hn.
  destruct (p_key_lc pr).
  - rewrite del_key_rmap, !rmap_rmap. apply rmap_ext. intros c.
    rewrite with_content_content, with_content_twice. now apply norm_path_cons_map.
  - reflexivity.
Qed.

Theorem ydelete_cons_seq pr i p n :
  p <> [] -> nkind n = KSeq ->
  ydelete pr (AIdx i :: p) n =
  if (i <? 0) || (len (ncontent n) <=? i) then Err ERange
  else rmap (with_content n) (upd_nth (Z.to_nat i) (ydelete pr p) (ncontent n)).
Proof.
  intros Hp Hk. unfold ydelete. rewrite removelast_cons by auto. cbn [ydelete0]. rewrite Hk.
  assert (Hn : is_nil p = false) by (destruct p; [congruence|reflexivity]). rewrite Hn.
  destruct ((i <? 0) || (len (ncontent n) <=? i)) eqn:Hb; [now destruct (p_key_lc pr)|].
  destruct (p_key_lc pr); [|reflexivity].
  rewrite upd_nth_rmap, !rmap_rmap.
  destruct (upd_nth (Z.to_nat i) (ydelete0 pr p) (ncontent n)) as [c2| |] eqn:Eu; cbn [rmap]; try reflexivity.
  f_equal. cbn [norm_path]. rewrite with_content_kind, Hk, with_content_content, with_content_twice.
  destruct (upd_nth_length _ _ _ _ Eu) as [Hl Hi].
  assert (Hr : (i <? 0) || (len c2 <=? i) = false) by (unfold len in *; lia).
  now rewrite Hr.
Qed.

(* ---------------- the edit below "values" ---------------- *)
(* Set(root, "values" :: p) is Set(valuesNode, p) followed by the repair of the key "values" *)
Theorem yset_values pr p new root :
  nkind root = KMap ->
  yset pr (AKey values_key :: p) new root = rmap (fix_key_at pr values_key) (on_values (yset pr p new) root).
Proof.
  intros Hk. rewrite yset_cons_map by (rewrite promote_kind; congruence).
  unfold on_values. rewrite rmap_rmap, promote_kind by congruence. reflexivity.
Qed.

(* a key that is found: del_key (not last) and upd_key do the same *)
Lemma del_key_found pr key f l v :
  find_val key l = GFound v -> del_key pr key false f l = upd_key key f l.
Proof.
  induction l as [| k0 | k0 v0 r IH] using pair_ind; cbn; try discriminate.
  destruct (String.eqb (nvalue k0) key); [reflexivity|]. intros H. now rewrite IH.
Qed.

Theorem ydelete_values pr p root vn :
  p <> [] -> yget [AKey values_key] root = GFound vn ->
  ydelete pr (AKey values_key :: p) root = rmap (fix_key_at pr values_key) (on_values (ydelete pr p) root).
Proof.
  intros Hp Hg. cbn [yget] in Hg.
  destruct (nkind root) eqn:Hk; try discriminate.
  destruct (find_val values_key (ncontent root)) eqn:Ef; try discriminate.
  rewrite ydelete_cons_map by auto. unfold on_values. rewrite rmap_rmap.
  now rewrite (del_key_found _ _ _ _ _ Ef).
Qed.
