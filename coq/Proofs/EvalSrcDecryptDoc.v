(* Proofs/EvalSrcDecryptDoc.v -- decides [eval_src_decrypt_doc_ok] (defined in Proofs/EvalSrc.v) on today's coq/Src/SrcEval.v.
   The [same_*] lemmas come first so that a failing build names the table and prints the entries that differ. *)
From Verif Require Import Base.Bytes Model.Chain Model.GoText Model.Eval Src.SrcEval Proofs.EvalSrc.

Lemma same_decrypt_secrets : table_diff ev_decrypt_secrets exp_decrypt_secrets = [].
Proof. vm_compute. reflexivity. Qed.

Lemma eval_src_decrypt_doc_ok_true : eval_src_decrypt_doc_ok = true.
Proof. vm_compute. reflexivity. Qed.
