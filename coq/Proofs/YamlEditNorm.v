(* Proofs/YamlEditNorm.v — the pass that moves the line comments of the keys on the edited path (fixKeyComment),
   and the theorems about Set / Delete (core edit followed by that pass). *)
From Coq Require Import Lia ZifyNat ZifyBool.
From Verif Require Import Base.Bytes Model.YamlEdit Proofs.YamlEditBase Proofs.YamlEditProofs.
Local Open Scope Z_scope.

(* ---------- nodes that differ only in line comment and (for collections) style ---------- *)
Definition sim (a b : node) : Prop :=
  nkind a = nkind b /\ ntag a = ntag b /\ nvalue a = nvalue b /\ nhc a = nhc b /\ nfc a = nfc b
  /\ ncontent a = ncontent b /\ (is_coll b = false -> nstyle a = nstyle b).

Lemma sim_refl a : sim a a.
Proof. repeat split; auto. Qed.

Lemma sim_trans a b c : sim a b -> sim b c -> sim a c.
Proof.
  intros (A1 & A2 & A3 & A4 & A5 & A6 & A7) (B1 & B2 & B3 & B4 & B5 & B6 & B7).
  repeat split; try congruence. intros Hc. rewrite A7, B7; auto. unfold is_coll in *. now rewrite B1.
Qed.

Lemma sim_set_lc l a : sim (set_lc l a) a.
Proof. destruct a; repeat split; auto. Qed.

Lemma sim_set_style_coll s a : is_coll a = true -> sim (set_style s a) a.
Proof. intros Hc. destruct a. repeat split; auto. intros Hf. unfold is_coll in *. cbn in *. congruence. Qed.

Lemma is_coll_sim a b : sim a b -> is_coll a = is_coll b.
Proof. intros (H & _). unfold is_coll. now rewrite H. Qed.

Lemma denote_sim a b : sim a b -> denote a = denote b.
Proof.
  destruct a as [k1 t1 s1 v1 h1 l1 f1 c1], b as [k2 t2 s2 v2 h2 l2 f2 c2].
  intros (A1 & A2 & A3 & A4 & A5 & A6 & A7). cbn in *. subst.
  destruct k2; try reflexivity. cbn. rewrite A7; auto.
Qed.

Lemma wf_sim a b : sim a b -> wf a = wf b.
Proof.
  destruct a as [k1 t1 s1 v1 h1 l1 f1 c1], b as [k2 t2 s2 v2 h2 l2 f2 c2].
  intros (A1 & _ & _ & _ & _ & A6 & _). cbn in *. subst. now destruct k2.
Qed.

Lemma yget_sim q a b : sim a b -> q <> [] -> yget q a = yget q b.
Proof.
  intros (A1 & _ & _ & _ & _ & A6 & _) Hq. destruct q as [|x q]; [congruence|].
  cbn [yget]. now rewrite A1, A6.
Qed.

Lemma fix_key_lc_sim k v :
  sim (fst (fix_key_lc k v)) k /\ nstyle (fst (fix_key_lc k v)) = nstyle k /\ sim (snd (fix_key_lc k v)) v.
Proof.
  unfold fix_key_lc. destruct (String.eqb (nlc k) ""); [cbn; auto using sim_refl|].
  destruct (is_coll v && negb (is_nil (ncontent v)) && negb (st_flow (nstyle v))); [cbn; auto using sim_refl|].
  cbn [fst snd]. split; [apply sim_set_lc|]. split; [now destruct k|].
  destruct (is_coll v && is_nil (ncontent v)) eqn:E.
  - apply andb_true_iff in E as [Ec _].
    match goal with |- sim (if ?b then _ else _) _ => destruct b end.
    + eapply sim_trans; [apply sim_set_lc|now apply sim_set_style_coll].
    + now apply sim_set_style_coll.
  - match goal with |- sim (if ?b then _ else _) _ => destruct b end; [apply sim_set_lc|apply sim_refl].
Qed.

(* ---------- the pass keeps the root's own fields, values, well-formedness ---------- *)
Lemma norm_path_shell p n : shell (norm_path p n) = shell n.
Proof.
  destruct p as [|a p]; [reflexivity|]. cbn [norm_path].
  destruct (nkind n); try reflexivity; destruct a; try reflexivity.
  - destruct ((i <? 0) || (len (ncontent n) <=? i)); [reflexivity|apply shell_with_content].
  - apply shell_with_content.
Qed.

Lemma shell_fields a b :
  shell a = shell b ->
  nkind a = nkind b /\ ntag a = ntag b /\ nstyle a = nstyle b /\ nvalue a = nvalue b
  /\ nhc a = nhc b /\ nlc a = nlc b /\ nfc a = nfc b.
Proof. destruct a, b. cbn. intros H. inversion H. subst. repeat split; auto. Qed.

Lemma norm_path_kind p n : nkind (norm_path p n) = nkind n.
Proof. now destruct (shell_fields _ _ (norm_path_shell p n)). Qed.

Lemma map_nth_length i f l : length (map_nth i f l) = length l.
Proof. revert i. induction l as [|c r IH]; intros [|i]; cbn; auto. Qed.

Lemma nth_error_map_nth_same i f l c :
  nth_error l i = Some c -> nth_error (map_nth i f l) i = Some (f c).
Proof.
  revert i. induction l as [|x r IH]; intros [|i] H; cbn in *; try discriminate; auto. now inversion H.
Qed.

Lemma nth_error_map_nth_other i j f l : j <> i -> nth_error (map_nth i f l) j = nth_error l j.
Proof.
  revert i j. induction l as [|x r IH]; intros [|i] [|j] H; cbn; auto; try congruence.
Qed.

Lemma map_map_nth {B} (g : node -> B) i f l :
  (forall c, g (f c) = g c) -> map g (map_nth i f l) = map g l.
Proof.
  intros H. revert i. induction l as [|x r IH]; intros [|i]; cbn; auto; now rewrite ?H, ?IH.
Qed.

Lemma forallb_map_nth (P : node -> bool) i f l :
  (forall c, P (f c) = P c) -> forallb P (map_nth i f l) = forallb P l.
Proof.
  intros H. revert i. induction l as [|x r IH]; intros [|i]; cbn; auto; now rewrite ?H, ?IH.
Qed.

(* the value a key leads to, after the pass over that entry *)
Fixpoint key_of (key : string) (l : list node) : option node :=
  match l with
  | k :: _ :: r => if String.eqb (nvalue k) key then Some k else key_of key r
  | _ => None
  end.

Lemma find_val_norm_entry key f l :
  find_val key (norm_entry key f l) =
  match find_val key l, key_of key l with
  | GFound v, Some k => GFound (snd (fix_key_lc k (f v)))
  | r, _ => r
  end.
Proof.
  induction l as [| k0 | k0 v0 r IH] using pair_ind; cbn; auto.
  destruct (String.eqb (nvalue k0) key) eqn:E.
  - destruct (fix_key_lc k0 (f v0)) as [k' v'] eqn:Ef. cbn.
    destruct (fix_key_lc_sim k0 (f v0)) as ((_ & _ & Hv & _) & _ & _). rewrite Ef in Hv. cbn in Hv.
    now rewrite Hv, E.
  - cbn. rewrite E. exact IH.
Qed.

Lemma find_val_key_of key l v : find_val key l = GFound v -> exists k, key_of key l = Some k.
Proof.
  induction l as [| k0 | k0 v0 r IH] using pair_ind; cbn; try discriminate.
  destruct (String.eqb (nvalue k0) key); eauto.
Qed.

Lemma find_val_norm_entry_other key key' f l :
  key' <> key -> find_val key' (norm_entry key f l) = find_val key' l.
Proof.
  intros Hne. induction l as [| k0 | k0 v0 r IH] using pair_ind; cbn; auto.
  destruct (String.eqb (nvalue k0) key) eqn:E.
  - destruct (fix_key_lc k0 (f v0)) as [k' v'] eqn:Ef. cbn.
    destruct (fix_key_lc_sim k0 (f v0)) as ((_ & _ & Hv & _) & _ & _). rewrite Ef in Hv. cbn in Hv.
    rewrite Hv. destruct (String.eqb (nvalue k0) key') eqn:E'; auto.
    apply String.eqb_eq in E, E'. congruence.
  - cbn. destruct (String.eqb (nvalue k0) key'); auto.
Qed.

Lemma norm_entry_length key f l : length (norm_entry key f l) = length l.
Proof.
  induction l as [| k0 | k0 v0 r IH] using pair_ind; cbn; auto.
  destruct (String.eqb (nvalue k0) key).
  - now destruct (fix_key_lc k0 (f v0)).
  - cbn. now rewrite IH.
Qed.

Lemma norm_entry_key_names key f l : key_names (norm_entry key f l) = key_names l.
Proof.
  unfold key_names. induction l as [| k0 | k0 v0 r IH] using pair_ind; cbn; auto.
  destruct (String.eqb (nvalue k0) key).
  - destruct (fix_key_lc k0 (f v0)) as [k' v'] eqn:Ef. cbn.
    destruct (fix_key_lc_sim k0 (f v0)) as ((_ & _ & Hv & _) & _ & _). rewrite Ef in Hv. cbn in Hv. now rewrite Hv.
  - cbn. now rewrite IH.
Qed.

(* the keys other than the one the path goes through are the very same nodes, in the same order *)
Definition other_keys (key : string) (l : list node) : list node :=
  filter (fun kn => negb (String.eqb (nvalue kn) key)) (keys_of l).

Lemma norm_entry_other_keys key f l : other_keys key (norm_entry key f l) = other_keys key l.
Proof.
  unfold other_keys. induction l as [| k0 | k0 v0 r IH] using pair_ind; cbn; auto.
  destruct (String.eqb (nvalue k0) key) eqn:E.
  - destruct (fix_key_lc k0 (f v0)) as [k' v'] eqn:Ef. cbn.
    destruct (fix_key_lc_sim k0 (f v0)) as ((_ & _ & Hv & _) & _ & _). rewrite Ef in Hv. cbn in Hv.
    now rewrite Hv, E.
  - cbn. rewrite E. cbn. now rewrite IH.
Qed.

Lemma norm_entry_forallb_scalar key f l :
  forallb is_scalar (keys_of (norm_entry key f l)) = forallb is_scalar (keys_of l).
Proof.
  induction l as [| k0 | k0 v0 r IH] using pair_ind; cbn; auto.
  destruct (String.eqb (nvalue k0) key).
  - destruct (fix_key_lc k0 (f v0)) as [k' v'] eqn:Ef. cbn.
    destruct (fix_key_lc_sim k0 (f v0)) as ((Hk & _) & _ & _). rewrite Ef in Hk. cbn in Hk.
    unfold is_scalar at 1 3. now rewrite Hk.
  - cbn. now rewrite IH.
Qed.

Lemma norm_entry_forallb_wf key f l :
  (forall c, wf (f c) = wf c) -> forallb wf (norm_entry key f l) = forallb wf l.
Proof.
  intros Hf. induction l as [| k0 | k0 v0 r IH] using pair_ind; cbn; auto.
  destruct (String.eqb (nvalue k0) key).
  - destruct (fix_key_lc k0 (f v0)) as [k' v'] eqn:Ef. cbn.
    destruct (fix_key_lc_sim k0 (f v0)) as (Hk & _ & Hv). rewrite Ef in Hk, Hv. cbn in Hk, Hv.
    now rewrite (wf_sim _ _ Hk), (wf_sim _ _ Hv), Hf.
  - cbn. now rewrite IH.
Qed.

(* the value of a mapping, with a top-level name for the inner loop of [denote] *)
Fixpoint dpairs (l : list node) : list (string * val) :=
  match l with kn :: vn :: r => (nvalue kn, denote vn) :: dpairs r | _ => [] end.

Lemma denote_map t s v h l f c : denote (Node KMap t s v h l f c) = VMap (dpairs c).
Proof.
  reflexivity.
Qed.

Lemma dpairs_norm_entry key f l :
  (forall c, denote (f c) = denote c) -> dpairs (norm_entry key f l) = dpairs l.
Proof.
  intros Hf. induction l as [| k0 | k0 v0 r IH] using pair_ind; cbn; auto.
  destruct (String.eqb (nvalue k0) key).
  - destruct (fix_key_lc k0 (f v0)) as [k' v'] eqn:Ef. cbn.
    destruct (fix_key_lc_sim k0 (f v0)) as ((_ & _ & Hk & _) & _ & Hv). rewrite Ef in Hk, Hv. cbn in Hk, Hv.
    now rewrite Hk, (denote_sim _ _ Hv), Hf.
  - cbn. now rewrite IH.
Qed.

Lemma denote_norm p n : denote (norm_path p n) = denote n.
Proof.
  revert n. induction p as [|a p IH]; intros n; [reflexivity|]. cbn [norm_path].
  destruct n as [k t s v h l f c]. cbn [nkind ncontent].
  destruct k; try reflexivity; destruct a as [key|i]; try reflexivity.
  - destruct ((i <? 0) || (len c <=? i)); [reflexivity|]. cbn [with_content denote]. f_equal.
    now apply map_map_nth.
  - cbn [with_content]. rewrite !denote_map. f_equal. now apply dpairs_norm_entry.
Qed.

Lemma wf_norm p n : wf (norm_path p n) = wf n.
Proof.
  revert n. induction p as [|a p IH]; intros n; [reflexivity|]. cbn [norm_path].
  destruct n as [k t s v h l f c]. cbn [nkind ncontent].
  destruct k; try reflexivity; destruct a as [key|i]; try reflexivity.
  - destruct ((i <? 0) || (len c <=? i)); [reflexivity|]. cbn [with_content wf]. now apply forallb_map_nth.
  - cbn [with_content wf].
    now rewrite norm_entry_length, norm_entry_forallb_scalar, norm_entry_key_names, norm_entry_forallb_wf.
Qed.

Lemma wf_root_norm p n : wf_root (norm_path p n) = wf_root n.
Proof.
  unfold wf_root. rewrite norm_path_kind, wf_norm.
  destruct (nkind n) eqn:Hk; auto. destruct p as [|a p]; [reflexivity|]. cbn [norm_path]. now rewrite Hk.
Qed.

(* ---------- Get after the pass ---------- *)
(* a path that is not a prefix of the one the pass walked finds the same node *)
Lemma yget_norm_other p q n : is_prefix q p = false -> yget q (norm_path p n) = yget q n.
Proof.
  revert q n. induction p as [|a p IH]; intros q n H; [reflexivity|].
  destruct q as [|b q]; [discriminate|]. cbn [is_prefix] in H.
  cbn [norm_path]. destruct (nkind n) eqn:Hk; try reflexivity; destruct a as [key|i]; try reflexivity.
  - destruct ((i <? 0) || (len (ncontent n) <=? i)) eqn:Hb; [reflexivity|].
    cbn [yget]. rewrite with_content_kind, Hk, with_content_content.
    destruct b as [kb|j]; [reflexivity|]. unfold len. rewrite map_nth_length.
    destruct ((j <? 0) || (Z.of_nat (length (ncontent n)) <=? j)) eqn:Hj; [reflexivity|].
    destruct (Z.eq_dec j i) as [->|Hne].
    + cbn [acc_eqb] in H. rewrite Z.eqb_refl in H. cbn [andb] in H.
      destruct (nth_error (ncontent n) (Z.to_nat i)) eqn:En.
      * rewrite (nth_error_map_nth_same _ _ _ _ En). now apply IH.
      * apply nth_error_None in En. lia.
    + rewrite nth_error_map_nth_other by lia. reflexivity.
  - cbn [yget]. rewrite with_content_kind, Hk, with_content_content.
    destruct b as [kb|j]; [|reflexivity].
    destruct (String.eqb kb key) eqn:Ek.
    + apply String.eqb_eq in Ek. subst kb. cbn [acc_eqb] in H. rewrite String.eqb_refl in H. cbn [andb] in H.
      rewrite find_val_norm_entry.
      destruct (find_val key (ncontent n)) eqn:Ef; auto.
      destruct (find_val_key_of _ _ _ Ef) as (k & Hk0). rewrite Hk0.
      assert (Hq : q <> []) by (intros ->; discriminate).
      destruct (fix_key_lc_sim k (norm_path p n0)) as (_ & _ & Hs).
      rewrite (yget_sim _ _ _ Hs Hq). now apply IH.
    + apply String.eqb_neq in Ek. now rewrite find_val_norm_entry_other.
Qed.

(* a prefix of it finds a node that differs from the old one only by the pass below it and by its own line
   comment / collection style *)
Lemma yget_norm_prefix p q n m :
  is_prefix q p = true -> yget q n = GFound m ->
  exists m', yget q (norm_path p n) = GFound m' /\ sim m' (norm_path (skipn (length q) p) m).
Proof.
  revert p n. induction q as [|b q IH]; intros p n H Hg.
  - cbn in Hg. inversion Hg; subst m. exists (norm_path p n). split; [reflexivity|apply sim_refl].
  - destruct p as [|a p]; [discriminate|]. cbn [is_prefix] in H. apply andb_true_iff in H as [Hab Hp].
    apply acc_eqb_eq in Hab. subst b. cbn [length skipn].
    cbn [yget] in Hg. cbn [norm_path].
    destruct (nkind n) eqn:Hk; try discriminate; destruct a as [key|i]; try discriminate.
    + destruct ((i <? 0) || (len (ncontent n) <=? i)) eqn:Hb; [discriminate|].
      destruct (nth_error (ncontent n) (Z.to_nat i)) eqn:En; [|discriminate].
      destruct (IH _ _ Hp Hg) as (m' & G1 & G2). exists m'. split; auto.
      rewrite (yget_seq_step _ i (norm_path p n0)); auto.
      * now rewrite with_content_kind.
      * lia.
      * rewrite with_content_content. now apply nth_error_map_nth_same.
    + destruct (find_val key (ncontent n)) eqn:Ef; try discriminate.
      destruct (find_val_key_of _ _ _ Ef) as (k & Hk0).
      destruct (IH _ _ Hp Hg) as (m' & G1 & G2).
      rewrite yget_map_step by now rewrite with_content_kind.
      rewrite with_content_content, find_val_norm_entry, Ef, Hk0.
      destruct (fix_key_lc_sim k (norm_path p n0)) as (_ & _ & Hs).
      destruct q as [|c q].
      * cbn in G1, Hg. inversion G1; subst m'. inversion Hg; subst m. cbn [yget length skipn] in *.
        eexists. split; [reflexivity|]. eapply sim_trans; eauto.
      * rewrite (yget_sim _ _ _ Hs) by discriminate. eauto.
Qed.

(* ================= Set ================= *)
Lemma yset_cases pr p new n n' :
  yset pr p new n = Ok n' ->
  exists n0, yset0 pr p new n = Ok n0 /\ (n' = n0 \/ n' = norm_path p n0).
Proof.
  unfold yset. destruct (p_key_lc pr); intros H.
  - apply rmap_ok in H. destruct H as (n0 & H0 & ->). eauto.
  - eauto.
Qed.

Lemma is_prefix_refl p : is_prefix p p = true.
Proof. induction p as [|a p IH]; cbn; auto. now rewrite acc_eqb_refl. Qed.

Lemma skipn_all_path (p : path) : skipn (length p) p = [].
Proof. induction p; cbn; auto. Qed.

Theorem get_set pr p new n n' :
  set_params_ok pr = true -> yset pr p new n = Ok n' ->
  exists m, yget p n' = GFound m /\ denote m = denote new.
Proof.
  intros Hp H. destruct (yset_cases _ _ _ _ _ H) as (n0 & H0 & [->| ->]).
  - eapply get_set_core; eauto.
  - destruct (get_set_core _ _ _ _ _ Hp H0) as (m0 & Hg & Hd).
    destruct (yget_norm_prefix p p n0 m0 (is_prefix_refl p) Hg) as (m' & G1 & G2).
    rewrite skipn_all_path in G2. cbn in G2. exists m'. split; auto. now rewrite (denote_sim _ _ G2).
Qed.

(* the node Set wrote: kind and content of the new value (up to the head comment of the first entry) *)
Lemma get_set_empty pr p new n n' :
  set_params_ok pr = true -> ncontent new = [] -> yset pr p new n = Ok n' ->
  exists m, yget p n' = GFound m /\ nkind m = nkind new /\ ncontent m = [].
Proof.
  intros Hp Hc H. destruct (yset_cases _ _ _ _ _ H) as (n0 & H0 & Hn').
  destruct (get_set_node_core _ _ _ _ _ H0) as (old & Hold).
  assert (Hm0 : nkind (overwrite pr old new) = nkind new /\ ncontent (overwrite pr old new) = []).
  { unfold set_params_ok in Hp.
    apply andb_true_iff in Hp as [Hp Hst]. apply andb_true_iff in Hp as [Hp Hv].
    apply andb_true_iff in Hp as [Hp Ht]. apply andb_true_iff in Hp as [Hcc Hk].
    unfold overwrite. rewrite Hcc, Hk, Hc. cbn. rewrite !andb_false_r. auto. }
  destruct Hn' as [->| ->].
  - exists (overwrite pr old new). tauto.
  - destruct (yget_norm_prefix p p n0 _ (is_prefix_refl p) Hold) as (m' & G1 & G2).
    rewrite skipn_all_path in G2. cbn in G2. exists m'. split; auto.
    destruct G2 as (S1 & _ & _ & _ & _ & S6 & _). rewrite S1, S6. tauto.
Qed.

Lemma unrelated_not_prefix p q : related p q = false -> is_prefix q p = false.
Proof. unfold related. intros H. apply orb_false_iff in H. tauto. Qed.

Theorem set_frame pr p new n n' q :
  wf_root n = true -> yset pr p new n = Ok n' -> related p q = false -> yget q n' = yget q n.
Proof.
  intros Hw H Hr. destruct (yset_cases _ _ _ _ _ H) as (n0 & H0 & [->| ->]).
  - eapply set_frame_core; eauto.
  - rewrite yget_norm_other by now apply unrelated_not_prefix. eapply set_frame_core; eauto.
Qed.

Theorem set_wf pr p new n n' :
  set_params_ok pr = true -> wf_root n = true -> wf new = true ->
  yset pr p new n = Ok n' -> wf n' = true.
Proof.
  intros Hp Hw Hnew H. destruct (yset_cases _ _ _ _ _ H) as (n0 & H0 & [->| ->]).
  - eapply set_wf_core; eauto.
  - rewrite wf_norm. eapply set_wf_core; eauto.
Qed.

Theorem set_total pr p new n : wf_root n = true -> yset pr p new n <> Panic.
Proof.
  intros Hw. unfold yset. destruct (p_key_lc pr); [apply rmap_not_panic|]; now apply set_total_core.
Qed.

(* the nodes above the edited one: same kind, tag, value, head and foot comment; a mapping keeps the names of
   its keys in order (a new key is appended), and every key other than the one the path goes through is the very
   same node (comments included) *)
Definition core (n : node) : kind * string * string * string * string :=
  (nkind n, ntag n, nvalue n, nhc n, nfc n).

Lemma core_sim a b : sim a b -> core a = core b.
Proof. intros (A1 & A2 & A3 & A4 & A5 & _). unfold core. congruence. Qed.

Lemma core_shell a b : shell a = shell b -> core a = core b.
Proof. intros H. destruct (shell_fields _ _ H) as (A1 & A2 & _ & A3 & A4 & _ & A5). unfold core. congruence. Qed.

Lemma norm_path_content_map key p n :
  nkind n = KMap ->
  key_names (ncontent (norm_path (AKey key :: p) n)) = key_names (ncontent n)
  /\ other_keys key (ncontent (norm_path (AKey key :: p) n)) = other_keys key (ncontent n).
Proof.
  intros Hk. cbn [norm_path]. rewrite Hk, with_content_content.
  split; [apply norm_entry_key_names|apply norm_entry_other_keys].
Qed.

Lemma norm_path_content_seq i p n :
  nkind n = KSeq -> length (ncontent (norm_path (AIdx i :: p) n)) = length (ncontent n).
Proof.
  intros Hk. cbn [norm_path]. rewrite Hk.
  destruct ((i <? 0) || (len (ncontent n) <=? i)); [reflexivity|].
  rewrite with_content_content. apply map_nth_length.
Qed.

Lemma skipn_app_cons (p1 : path) a p2 : skipn (length p1) (p1 ++ a :: p2) = a :: p2.
Proof. induction p1; cbn; auto. Qed.

Lemma is_prefix_app p1 p2 : is_prefix p1 (p1 ++ p2) = true.
Proof. induction p1 as [|a p IH]; cbn; auto. now rewrite acc_eqb_refl. Qed.

Lemma other_keys_app key l k v :
  Nat.even (length l) = true ->
  other_keys key (l ++ [k; v]) = other_keys key l ++ (if String.eqb (nvalue k) key then [] else [k]).
Proof.
  intros He. unfold other_keys. rewrite keys_of_app_pair by auto. rewrite filter_app. cbn.
  now destruct (String.eqb (nvalue k) key).
Qed.

Theorem set_prefix_node pr p1 a p2 new n n' m :
  yset pr (p1 ++ a :: p2) new n = Ok n' -> yget p1 n = GFound m ->
  exists m', yget p1 n' = GFound m' /\ core m' = core (promote a m) /\
    match a with
    | AKey k => nkind m' = KMap /\
                key_names (ncontent m') =
                key_names (ncontent m) ++ (if str_in k (key_names (ncontent m)) then [] else [k])
                /\ other_keys k (ncontent m') = other_keys k (ncontent m)
    | AIdx i => nkind m' = KSeq /\
                len (ncontent m') = (if i =? len (ncontent m) then len (ncontent m) + 1 else len (ncontent m))
    end.
Proof.
  intros H Hg. destruct (yset_cases _ _ _ _ _ H) as (n0 & H0 & Hn').
  destruct (set_prefix_node_core _ _ _ _ _ _ _ _ H0 Hg) as (m0 & G1 & G2 & G3).
  assert (Hcore0 : match a with
    | AKey k => nkind m0 = KMap /\
                key_names (ncontent m0) =
                key_names (ncontent m) ++ (if str_in k (key_names (ncontent m)) then [] else [k])
                /\ other_keys k (ncontent m0) = other_keys k (ncontent m)
    | AIdx i => nkind m0 = KSeq /\
                len (ncontent m0) = (if i =? len (ncontent m) then len (ncontent m) + 1 else len (ncontent m))
    end).
  { destruct a as [k|i]; [|exact G3]. destruct G3 as [Hk Hkeys]. split; auto.
    destruct (str_in k (key_names (ncontent m))) eqn:Es; unfold key_names, other_keys;
      rewrite Hkeys, map_app, filter_app; cbn [map filter key_node nvalue];
      rewrite ?app_nil_r, ?String.eqb_refl; cbn [negb]; rewrite ?app_nil_r; auto. }
  destruct Hn' as [->| ->].
  - exists m0. split; auto. split; [now apply core_shell|exact Hcore0].
  - destruct (yget_norm_prefix (p1 ++ a :: p2) p1 n0 m0 (is_prefix_app _ _) G1) as (m' & N1 & N2).
    rewrite skipn_app_cons in N2. exists m'. split; auto.
    split.
    + rewrite (core_sim _ _ N2). rewrite (core_shell _ _ (norm_path_shell _ _)). now apply core_shell.
    + destruct N2 as (S1 & _ & _ & _ & _ & S6 & _). rewrite S1, S6, norm_path_kind.
      destruct a as [k|i].
      * destruct Hcore0 as (Hk & Hn & Ho). destruct (norm_path_content_map k p2 m0 Hk) as [C1 C2].
        rewrite C1, C2. auto.
      * destruct Hcore0 as (Hk & Hl). split; auto. unfold len in *. now rewrite norm_path_content_seq.
Qed.

(* ================= Delete ================= *)
Lemma ydelete_cases pr p n n' :
  ydelete pr p n = Ok n' ->
  exists n0, ydelete0 pr p n = Ok n0 /\ (n' = n0 \/ n' = norm_path (removelast p) n0).
Proof.
  unfold ydelete. destruct (p_key_lc pr); intros H.
  - apply rmap_ok in H. destruct H as (n0 & H0 & ->). eauto.
  - eauto.
Qed.

Theorem delete_total pr p n :
  del_params_ok pr = true -> wf_root n = true -> ydelete pr p n <> Panic.
Proof.
  intros Hp Hw. unfold ydelete. destruct (p_key_lc pr); [apply rmap_not_panic|]; now apply delete_total_core.
Qed.

Theorem delete_wf pr p n n' :
  wf_root n = true -> ydelete pr p n = Ok n' -> wf_root n' = true.
Proof.
  intros Hw H. destruct (ydelete_cases _ _ _ _ H) as (n0 & H0 & [->| ->]).
  - eapply delete_wf_core; eauto.
  - rewrite wf_root_norm. eapply delete_wf_core; eauto.
Qed.

Lemma is_prefix_length p q : is_prefix p q = true -> (length p <= length q)%nat.
Proof.
  revert q. induction p as [|a p IH]; intros q H; cbn; [lia|].
  destruct q as [|b q]; [discriminate|]. cbn in H. apply andb_true_iff in H as [_ H]. apply IH in H. cbn. lia.
Qed.

Lemma removelast_app_one (p : path) a : removelast (p ++ [a]) = p.
Proof. apply removelast_last. Qed.

Theorem delete_removes_key pr p k n n' :
  wf_root n = true -> ydelete pr (p ++ [AKey k]) n = Ok n' -> yget (p ++ [AKey k]) n' = GMissing.
Proof.
  intros Hw H. destruct (ydelete_cases _ _ _ _ H) as (n0 & H0 & [->| ->]).
  - eapply delete_removes_key_core; eauto.
  - rewrite removelast_app_one. rewrite yget_norm_other; [eapply delete_removes_key_core; eauto|].
    destruct (is_prefix (p ++ [AKey k]) p) eqn:E; auto.
    apply is_prefix_length in E. rewrite app_length in E. cbn in E. lia.
Qed.

(* a path unrelated to the deleted one, moved to where its node now is, is not above the deleted entry *)
Lemma shift_not_prefix p q :
  related p q = false -> is_prefix (shift_del p q) (removelast p) = false.
Proof.
  revert q. induction p as [|a p IH]; intros q Hr; [now rewrite related_nil_l in Hr|].
  destruct q as [|b q]; [now rewrite related_nil_r in Hr|]. rewrite related_cons in Hr.
  destruct p as [|a' p'].
  - (* the last element of the deleted path: anything non-empty is longer than the empty prefix *)
    cbn [removelast]. destruct a as [ka|i]; destruct b as [kb|j]; cbn [shift_del acc_eqb];
      repeat match goal with |- context [if ?c then _ else _] => destruct c end; reflexivity.
  - destruct (acc_eqb a b) eqn:Eab; cbn [andb] in Hr.
    + apply acc_eqb_eq in Eab. subst b. rewrite shift_del_cons_same by congruence.
      change (removelast (a :: a' :: p')) with (a :: removelast (a' :: p')).
      cbn [is_prefix]. rewrite acc_eqb_refl. cbn [andb]. now apply IH.
    + rewrite shift_del_cons_diff by (auto; congruence).
      change (removelast (a :: a' :: p')) with (a :: removelast (a' :: p')).
      cbn [is_prefix]. rewrite acc_eqb_sym, Eab. reflexivity.
Qed.

Theorem delete_frame pr p n n' q :
  ydelete pr p n = Ok n' -> related p q = false -> yget (shift_del p q) n' = yget q n.
Proof.
  intros H Hr. destruct (ydelete_cases _ _ _ _ H) as (n0 & H0 & [->| ->]).
  - eapply delete_frame_core; eauto.
  - rewrite yget_norm_other by now apply shift_not_prefix. eapply delete_frame_core; eauto.
Qed.

(* the parent of the removed entry afterwards: the same node up to its own line comment / collection style
   (it may have inherited the line comment of its key when it became empty), exactly that entry removed *)
Theorem delete_parent pr p a n n' m :
  ydelete pr (p ++ [a]) n = Ok n' -> yget p n = GFound m ->
  exists m', yget p n' = GFound m' /\ core m' = core m /\
    match a with
    | AIdx i => nkind m = KSeq /\ 0 <= i < len (ncontent m)
                /\ ncontent m' = del_nth (Z.to_nat i) (ncontent m)
    | AKey k => nkind m = KMap /\ ncontent m' = del_pair k (ncontent m)
    end.
Proof.
  intros H Hg. destruct (ydelete_cases _ _ _ _ H) as (n0 & H0 & Hn').
  destruct (delete_parent_core _ _ _ _ _ _ H0 Hg) as (m0 & G1 & G2 & G3).
  destruct Hn' as [->| ->].
  - exists m0. split; auto. split; [now apply core_shell|exact G3].
  - rewrite removelast_app_one.
    destruct (yget_norm_prefix p p n0 m0 (is_prefix_refl p) G1) as (m' & N1 & N2).
    rewrite skipn_all_path in N2. cbn in N2. exists m'. split; auto. split.
    + rewrite (core_sim _ _ N2). now apply core_shell.
    + destruct N2 as (_ & _ & _ & _ & _ & S6 & _). now rewrite S6.
Qed.

Theorem delete_prefix_node pr p1 a p2 n n' m :
  p2 <> [] -> ydelete pr (p1 ++ a :: p2) n = Ok n' -> yget p1 n = GFound m ->
  exists m', yget p1 n' = GFound m' /\ core m' = core m /\
    match a with
    | AKey k => nkind m = KMap /\ key_names (ncontent m') = key_names (ncontent m)
                /\ other_keys k (ncontent m') = other_keys k (ncontent m)
    | AIdx _ => nkind m = KSeq /\ length (ncontent m') = length (ncontent m)
    end.
Proof.
  intros Hp2 H Hg. destruct (ydelete_cases _ _ _ _ H) as (n0 & H0 & Hn').
  destruct (delete_prefix_node_core _ _ _ _ _ _ _ Hp2 H0 Hg) as (m0 & G1 & G2 & G3).
  assert (Hk0 : nkind m0 = nkind m) by now destruct (shell_fields _ _ G2).
  destruct Hn' as [->| ->].
  - exists m0. split; auto. split; [now apply core_shell|].
    destruct a; destruct G3 as [Hk Hc]; split; auto. unfold key_names, other_keys. now rewrite Hc.
  - assert (Hrl : removelast (p1 ++ a :: p2) = p1 ++ a :: removelast p2).
    { rewrite removelast_app by discriminate. cbn. destruct p2; [congruence|reflexivity]. }
    rewrite Hrl.
    destruct (yget_norm_prefix (p1 ++ a :: removelast p2) p1 n0 m0 (is_prefix_app _ _) G1) as (m' & N1 & N2).
    rewrite skipn_app_cons in N2. exists m'. split; auto. split.
    + rewrite (core_sim _ _ N2), (core_shell _ _ (norm_path_shell _ _)). now apply core_shell.
    + destruct N2 as (_ & _ & _ & _ & _ & S6 & _). rewrite S6.
      destruct a as [k|i]; destruct G3 as [Hk Hc]; split; auto.
      * rewrite <- Hk0 in Hk. destruct (norm_path_content_map k (removelast p2) m0 Hk) as [C1 C2].
        rewrite C1, C2. unfold key_names, other_keys. now rewrite Hc.
      * rewrite <- Hk0 in Hk. now rewrite norm_path_content_seq.
Qed.

(* a Delete that found nothing to delete changes nothing but, possibly, the place of the line comments of the
   keys it went through *)
Theorem delete_missing_noop pr p n n' :
  ydelete pr p n = Ok n' -> yget p n = GMissing -> n' = n \/ n' = norm_path (removelast p) n.
Proof.
  intros H Hg. destruct (ydelete_cases _ _ _ _ H) as (n0 & H0 & Hn').
  rewrite (delete_missing_noop_core _ _ _ _ H0 Hg) in Hn'. exact Hn'.
Qed.
