(* Proofs/RedactorClash.v — the class of secrets that can be spelled with placeholder text ([ph_clash]) is exact on a
   bounded family: every clashing secret of the family has a run of the filter whose output contains it. *)
From Verif Require Import Base.Bytes Model.Redactor Proofs.RedactorBase Proofs.RedactorFast.
From Coq Require Import Arith Lia.
Local Open Scope nat_scope.

(* all words of exactly n letters / of at most n letters *)
Fixpoint words_n (alpha : bytes) (n : nat) : list bytes :=
  match n with
  | O => [[]]
  | S k => flat_map (fun w => map (fun c => c :: w) alpha) (words_n alpha k)
  end.

Fixpoint words (alpha : bytes) (n : nat) : list bytes :=
  match n with
  | O => [[]]
  | S k => words alpha k ++ words_n alpha (S k)
  end.

Definition clash_alphabet : bytes := chars "[st]a".

(* candidate runs for a secret p: (further secrets, chunks) - p alone on p; a prefix and a suffix of p around another secret *)
Definition other_secret : bytes := chars "ZZZZZZZZ".

Definition clash_candidates (p : bytes) : list (list bytes * list bytes) :=
  ([], [p]) ::
  flat_map (fun i => map (fun j => ([other_secret], [firstn i p ++ other_secret ++ skipn j p])) (seq 0 (S (length p))))
           (seq 0 (S (length p))).

Definition clash_witness (P : rparams) (p : bytes) : bool :=
  existsb (fun c => contains p (run_fast P (p :: fst c) (snd c))) (clash_candidates p).

Definition clash_check (P : rparams) (n : nat) : bool :=
  forallb (fun p => implb ((rp_min_len P <=? length p) && ph_clash (rp_placeholder P) p) (clash_witness P p))
          (words clash_alphabet n).

Theorem clash_exact_bounded : forall P n, clash_check P n = true ->
  forall p, In p (words clash_alphabet n) -> rp_min_len P <= length p -> ph_clash (rp_placeholder P) p = true ->
  exists secrets chunks, In p secrets /\ occurs p (run P secrets chunks).
Proof.
  intros P n H p Hin Hlen Hc. unfold clash_check in H. rewrite forallb_forall in H. specialize (H p Hin).
  apply Nat.leb_le in Hlen. rewrite Hlen, Hc in H. cbn [andb implb] in H.
  unfold clash_witness in H. apply existsb_exists in H. destruct H as [[extra chunks] [_ H]]. cbn [fst snd] in H.
  exists (p :: extra), chunks. split; [left; reflexivity|].
  apply contains_spec. rewrite <- run_fast_run. exact H.
Qed.
