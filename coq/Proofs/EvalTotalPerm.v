(* Proofs/EvalTotalPerm.v — C09 / C02: nothing depends on the order in which (unique) keys are written.
   Objects are evaluated through [declared] + [sort_entries] and expression identities are key-based, so two
   definitions that differ only by the order of keys — at every nesting level, in the root environment and in
   every imported one — produce the same values, the same final state, the same observation. *)
From Verif Require Import Base.Bytes Model.Chain Model.GoText Model.Envelope Model.Eval
  Proofs.EvalTotalBase Proofs.EvalTotalInv Proofs.EvalTotalOrder Proofs.EvalTotalSyntax.
From Coq Require Import Lia Sorting.Permutation Sorting.Sorted.

(* ------------------------------------------------------------------------------------------------ *)
(* 1. declared / sort_entries / lookup under reordering                                             *)
(* ------------------------------------------------------------------------------------------------ *)
Section REORDER.
Context {A : Type}.

Theorem declared_perm (l l' : list (string * A)) :
  NoDup (map fst l) -> Permutation l l' ->
  strip (sort_entries (fst (declared l 0%nat []))) = strip (sort_entries (fst (declared l' 0%nat []))) /\
  snd (declared l 0%nat []) = 0 /\ snd (declared l' 0%nat []) = 0.
Proof.
  intros Hn Hp.
  assert (Hn' : NoDup (map fst l')) by (eapply Permutation_NoDup; [apply Permutation_map, Hp|exact Hn]).
  destruct (declared_nodup l 0%nat [] Hn (fun _ _ H => H)) as [H1 H2].
  destruct (declared_nodup l' 0%nat [] Hn' (fun _ _ H => H)) as [H1' H2'].
  rewrite !strip_sort_entries, H1, H1'. split; [apply ksort_perm_eq; assumption|split; assumption].
Qed.

Lemma reorder_declared (l m : list (string * A)) : reorder l m ->
  strip (sort_entries (fst (declared l 0%nat []))) = strip (sort_entries (fst (declared m 0%nat []))) /\
  snd (declared l 0%nat []) = snd (declared m 0%nat []).
Proof.
  intros [->|[Hn Hp]]; [split; reflexivity|].
  destruct (declared_perm l m Hn Hp) as (H1 & H2 & H3). split; [exact H1|congruence].
Qed.

Lemma reorder_alookup k (l m : list (string * A)) : reorder l m -> alookup k l = alookup k m.
Proof. intros [->|[Hn Hp]]; [reflexivity|apply alookup_perm; assumption]. Qed.

Lemma Permutation_filter' (p : string * A -> bool) l m : Permutation l m -> Permutation (filter p l) (filter p m).
Proof.
  induction 1 as [|x l m _ IH|x y l|l m n _ IH1 _ IH2]; cbn [filter].
  - constructor.
  - destruct (p x); [constructor|]; exact IH.
  - destruct (p x), (p y); try apply Permutation_refl. apply perm_swap.
  - eapply Permutation_trans; eassumption.
Qed.

Lemma NoDup_keys_filter (p : string * A -> bool) l : NoDup (map fst l) -> NoDup (map fst (filter p l)).
Proof.
  induction l as [|x r IH]; cbn [map filter]; intro H; [constructor|].
  inversion H as [|? ? Hni Hn]; subst. destruct (p x); [|auto]. cbn [map]. constructor; [|auto].
  intro Hin. apply Hni. apply in_map_iff in Hin. destruct Hin as (y & Hy & Hin).
  apply filter_In in Hin. apply in_map_iff. exists y. tauto.
Qed.

Lemma reorder_filter (p : string * A -> bool) l m : reorder l m -> reorder (filter p l) (filter p m).
Proof.
  intros [->|[Hn Hp]]; [left; reflexivity|right].
  split; [apply NoDup_keys_filter, Hn|apply Permutation_filter', Hp].
Qed.

Lemma reorder_length l m : @reorder A l m -> length l = length m.
Proof. intros [->|[_ Hp]]; [reflexivity|apply Permutation_length, Hp]. Qed.

End REORDER.

Lemma Forall2_len {A B} (R : A -> B -> Prop) l l' : Forall2 R l l' -> length l = length l'.
Proof. induction 1; cbn [length]; congruence. Qed.

Lemma Forall2_nth_rel {A B} (R : A -> B -> Prop) l l' da db :
  Forall2 R l l' -> R da db -> forall i, R (nth i l da) (nth i l' db).
Proof.
  intros H Hd. induction H as [|x y l l' Hxy _ IH]; intros [|i]; cbn [nth]; auto.
Qed.

Section DECL_REL.
Context {A B : Type} (Rv : A -> B -> Prop).

Lemma declared_rel l l' : Forall2 (krel Rv) l l' -> forall i seen,
  Forall2 (krel Rv) (strip (fst (declared l i seen))) (strip (fst (declared l' i seen))) /\
  snd (declared l i seen) = snd (declared l' i seen).
Proof.
  induction 1 as [|[k a] [k' b] l l' [Hk Hv] Hl IH]; intros i seen; [split; [constructor|reflexivity]|].
  cbn [fst snd] in Hk, Hv. subst k'.
  destruct (existsb (String.eqb k) seen) eqn:E.
  - rewrite !(declared_cons_seen _ _ _ _ _ E). cbn [fst snd]. destruct (IH (S i) seen) as [H1 H2].
    split; [exact H1|congruence].
  - rewrite !(declared_cons_new _ _ _ _ _ E). cbn [fst snd strip map]. destruct (IH (S i) (k :: seen)) as [H1 H2].
    split; [|exact H2]. constructor; [split; [reflexivity|exact Hv]|exact H1].
Qed.

Lemma sorted_declared_rel l l' : Forall2 (krel Rv) l l' ->
  Forall2 (krel Rv) (strip (sort_entries (fst (declared l 0%nat [])))) (strip (sort_entries (fst (declared l' 0%nat [])))) /\
  snd (declared l 0%nat []) = snd (declared l' 0%nat []).
Proof.
  intro H. destruct (declared_rel l l' H 0%nat []) as [H1 H2]. split; [|exact H2].
  rewrite !strip_sort_entries. apply ksort_rel, H1.
Qed.

Lemma filter_length_rel (p : string -> bool) l l' : Forall2 (krel Rv) l l' ->
  length (filter (fun kv => p (fst kv)) l) = length (filter (fun kv => p (fst kv)) l').
Proof. intro H. eapply Forall2_len, (filter_rel Rv p), H. Qed.

End DECL_REL.

(* ------------------------------------------------------------------------------------------------ *)
(* 2. definitions and worlds up to key order                                                        *)
(* ------------------------------------------------------------------------------------------------ *)
Definition envdef_perm (d d' : envdef) : Prop :=
  ed_imports d = ed_imports d' /\ expr_perm (EObj (ed_values d)) (EObj (ed_values d')).

Inductive load_perm : env_load -> env_load -> Prop :=
| LP_fail : load_perm LoadFail LoadFail
| LP_noparse : load_perm LoadNoParse LoadNoParse
| LP_ok d d' : envdef_perm d d' -> load_perm (LoadOk d) (LoadOk d').

(* same collaborators; the environments they serve may have their keys in another order *)
Record world_perm (W W' : world) : Prop := {
  wp_envs : Forall2 (krel load_perm) (w_envs W) (w_envs W');
  wp_provs : w_provs W' = w_provs W;
  wp_ctx : w_ctx W' = w_ctx W;
  wp_check : w_check W' = w_check W;
  wp_show : w_show W' = w_show W;
  wp_fault : w_fault W' = w_fault W;
  wp_decrypt : forall n c, w_decrypt W' n c = w_decrypt W n c }.

Record ectx_perm (E E' : ectx) : Prop := {
  xp_name : ec_name E' = ec_name E;
  xp_root : ec_root E' = ec_root E;
  xp_values : expr_perm (EObj (ec_values E)) (EObj (ec_values E'));
  xp_base : ec_base E' = ec_base E;
  xp_imports : ec_imports E' = ec_imports E;
  xp_context : ec_context E' = ec_context E }.

Lemma envdef_perm_refl d : envdef_perm d d.
Proof. split; [reflexivity|apply expr_perm_refl]. Qed.

Lemma load_perm_refl l : load_perm l l.
Proof. destruct l; constructor. apply envdef_perm_refl. Qed.

Lemma world_perm_refl W : world_perm W W.
Proof.
  constructor; auto. induction (w_envs W) as [|a r IH]; constructor; [|exact IH].
  split; [reflexivity|apply load_perm_refl].
Qed.

Definition meq {A} (m m' : M A) : Prop := forall s, m s = m' s.
Lemma meq_refl {A} (m : M A) : meq m m. Proof. intro s. reflexivity. Qed.
Lemma meq_bind {A B} (m m' : M A) (k k' : A -> M B) :
  meq m m' -> (forall a, meq (k a) (k' a)) -> meq (bind m k) (bind m' k').
Proof. intros H1 H2 s. unfold bind. rewrite H1. destruct (m' s) as [a s1]. apply H2. Qed.

Ltac m_step :=
  first
  [ match goal with |- meq ?a ?b => constr_eq a b; apply meq_refl end
  | apply meq_bind; [ | intro ]
  | match goal with H : forall _, _ |- meq _ _ => apply H; first [assumption | constructor] end
  | match goal with H : forall _, _ |- meq _ _ => apply H end
  | match goal with |- meq (match ?x with _ => _ end) (match ?x with _ => _ end) => destruct x end
  | progress cbv beta zeta ].
Ltac m_tac := repeat m_step.

Section PERM.
Variables W W' : world.
Hypothesis HW : world_perm W W'.

Lemma call_perm : call W' = call W.
Proof. unfold call. rewrite (wp_fault _ _ HW). reflexivity. Qed.

Lemma interp_go_meq (ea ea' : path -> M chain) :
  (forall p, meq (ea p) (ea' p)) ->
  forall ps acc unk sec, meq (interp_go ea ps acc unk sec) (interp_go ea' ps acc unk sec).
Proof.
  intros H. induction ps as [|[text [p|]] r IH]; intros acc unk sec.
  - rewrite !interp_go_nil. apply meq_refl.
  - rewrite !interp_go_ref. apply meq_bind; [apply H|]. intro pv.
    destruct (to_string (ts_need pv) pv) as [[s u] sc]. apply IH.
  - rewrite !interp_go_text. apply IH.
Qed.

Lemma arr_go_meq (ee ee' : expr -> bool -> chain -> eid -> M chain) id :
  (forall x x' b c i, expr_perm x x' -> meq (ee x b c i) (ee' x' b c i)) ->
  forall es es', Forall2 expr_perm es es' -> forall i acc, meq (arr_go ee id es i acc) (arr_go ee' id es' i acc).
Proof.
  intros H es es' Hes. induction Hes as [|e e' r r' He _ IH]; intros i acc.
  - rewrite !arr_go_nil. apply meq_refl.
  - rewrite !arr_go_cons. apply meq_bind; [apply H, He|]. intro v. apply IH.
Qed.

(* the object loop only looks at keys and values, never at source positions *)
Lemma obj_go_meq (ee ee' : expr -> bool -> chain -> eid -> M chain) xbase id :
  (forall x x' b c i, expr_perm x x' -> meq (ee x b c i) (ee' x' b c i)) ->
  forall ds ds', Forall2 (krel expr_perm) (strip ds) (strip ds') ->
  forall acc, meq (obj_go ee xbase id ds acc) (obj_go ee' xbase id ds' acc).
Proof.
  intros H. induction ds as [|[[i k] e] r IH]; intros [|[[i' k'] e'] r'] Hs acc;
    cbn [strip map] in Hs; inversion Hs as [|? ? ? ? [Hk Hv] Hr]; subst.
  - rewrite !obj_go_nil. apply meq_refl.
  - cbn [strip1 fst snd] in Hk, Hv. subst k'. rewrite !obj_go_cons.
    apply meq_bind; [apply H, Hv|]. intro v. apply IH. exact Hr.
Qed.

Lemma obj_entries_meq ee ee' xbase id l l' :
  (forall x x' b c i, expr_perm x x' -> meq (ee x b c i) (ee' x' b c i)) ->
  expr_perm (EObj l) (EObj l') ->
  meq (let '(decl, dups) := declared l 0%nat [] in add_err dups ;;; obj_go ee xbase id (sort_entries decl) [])
      (let '(decl, dups) := declared l' 0%nat [] in add_err dups ;;; obj_go ee' xbase id (sort_entries decl) []).
Proof.
  intros H Hp. inversion Hp as [| | | | | | |l0 m l0' Hre Hf| | | | | | | | | |]; subst.
  destruct (reorder_declared l m Hre) as [H1 H2].
  change (Forall2 (krel expr_perm) m l') in Hf.
  destruct (sorted_declared_rel expr_perm m l' Hf) as [H3 H4].
  destruct (declared l 0%nat []) as [decl dups]. destruct (declared l' 0%nat []) as [decl' dups'].
  destruct (declared m 0%nat []) as [declm dupsm]. cbn [fst snd] in *.
  assert (Hd : dups = dups') by congruence. rewrite Hd.
  apply meq_bind; [apply meq_refl|]. intros _. apply obj_go_meq; [exact H|]. rewrite H1. exact H3.
Qed.

Lemma expr_body_meq er er' x x' xsec xbase id :
  (forall x x' b i, expr_perm x x' -> meq (er x b i) (er' x' b i)) ->
  expr_perm x x' -> meq (expr_body er x xsec xbase id) (expr_body er' x' xsec xbase id).
Proof. intros H Hx. unfold expr_body. m_tac. Qed.

Lemma typed_body_meq ee ee' x x' a id :
  (forall x x' b c i, expr_perm x x' -> meq (ee x b c i) (ee' x' b c i)) ->
  expr_perm x x' -> meq (typed_body ee x a id) (typed_body ee' x' a id).
Proof. intros H Hx. unfold typed_body. m_tac. Qed.

Lemma access_body_meq wk wk' E E' p :
  (forall x x' b c i a, expr_perm x x' -> meq (wk x b c i a) (wk' x' b c i a)) ->
  ectx_perm E E' -> meq (access_body wk E p) (access_body wk' E' p).
Proof.
  intros H [Hn Hr Hv Hb Hi Hc]. unfold access_body. rewrite Hn, Hb, Hi, Hc. m_tac.
Qed.

Lemma find_entry_meq k l l' :
  expr_perm (EObj l) (EObj l') ->
  match find_entry k l 0%nat, find_entry k l' 0%nat with
  | Some (_, a), Some (_, b) => expr_perm a b
  | None, None => True
  | _, _ => False
  end.
Proof.
  intros Hp. inversion Hp as [| | | | | | |l0 m l0' Hre Hf| | | | | | | | | |]; subst.
  change (Forall2 (krel expr_perm) m l') in Hf.
  pose proof (alookup_rel expr_perm k m l' Hf) as Hl. rewrite <- (reorder_alookup k l m Hre) in Hl.
  rewrite <- (find_entry_alookup k l 0%nat), <- (find_entry_alookup k l' 0%nat) in Hl.
  destruct (find_entry k l 0%nat) as [[i a]|], (find_entry k l' 0%nat) as [[j b]|]; exact Hl.
Qed.

Lemma walk_body_meq ee ee' wk wk' rx rx' rsec rbase rid accs :
  (forall x x' b c i, expr_perm x x' -> meq (ee x b c i) (ee' x' b c i)) ->
  (forall x x' b c i a, expr_perm x x' -> meq (wk x b c i a) (wk' x' b c i a)) ->
  expr_perm rx rx' ->
  meq (walk_body ee wk rx rsec rbase rid accs) (walk_body ee' wk' rx' rsec rbase rid accs).
Proof.
  intros H1 H2 Hx. unfold walk_body. destruct accs as [|a rest]; [apply H1, Hx|].
  inversion Hx as [| | | | | |l l' Hl|l m l' Hre Hf| | | | | | | | | |]; subst; try solve [m_tac].
  - rewrite <- (Forall2_len _ _ _ Hl).
    destruct (array_index a (Z.of_nat (length l))) as [i|]; [|apply meq_refl].
    apply H2. apply Forall2_nth_rel; [exact Hl|constructor].
  - destruct (object_key a) as [k|]; [|apply meq_refl].
    pose proof (find_entry_meq k l l' Hx) as Hfe.
    destruct (find_entry k l 0%nat) as [[i px]|], (find_entry k l' 0%nat) as [[j px']|]; try contradiction.
    + apply H2, Hfe.
    + apply meq_refl.
Qed.

Lemma repr_body_meq ee ee' et et' ea ea' E E' x x' xbase id :
  (forall x x' b c i, expr_perm x x' -> meq (ee x b c i) (ee' x' b c i)) ->
  (forall x x' a i, expr_perm x x' -> meq (et x a i) (et' x' a i)) ->
  (forall p, meq (ea p) (ea' p)) ->
  ec_name E' = ec_name E -> ec_root E' = ec_root E ->
  expr_perm x x' ->
  meq (repr_body W ee et ea E x xbase id) (repr_body W' ee' et' ea' E' x' xbase id).
Proof.
  intros H1 H2 H3 Hn Hr Hx.
  inversion Hx as [| | | | | |l l' Hl|l m l' Hre Hf| | | | | | | |rp|pn e e' He|]; subst; unfold repr_body;
    rewrite ?call_perm, ?(wp_provs _ _ HW), ?(wp_check _ _ HW), ?(wp_show _ _ HW), ?Hn, ?Hr.
  all: try solve [m_tac].
  - apply interp_go_meq, H3.
  - apply arr_go_meq; assumption.
  - apply obj_entries_meq; assumption.
  - destruct (decode_ct _ rp); try apply meq_refl.
    destruct (w_check W && negb (w_show W)); [apply meq_refl|].
    apply meq_bind; [apply meq_refl|]. intro failed. apply meq_bind; [apply meq_refl|]. intros _.
    rewrite (wp_decrypt _ _ HW). apply meq_refl.
Qed.

Definition M5 (f : nat) : Prop :=
  (forall E E' x x' xsec xbase id, ectx_perm E E' -> expr_perm x x' ->
     meq (eval_expr W f E x xsec xbase id) (eval_expr W' f E' x' xsec xbase id)) /\
  (forall E E' x x' xbase id, ectx_perm E E' -> expr_perm x x' ->
     meq (eval_repr W f E x xbase id) (eval_repr W' f E' x' xbase id)) /\
  (forall E E' x x' a id, ectx_perm E E' -> expr_perm x x' ->
     meq (eval_typed W f E x a id) (eval_typed W' f E' x' a id)) /\
  (forall E E' p, ectx_perm E E' -> meq (eval_access W f E p) (eval_access W' f E' p)) /\
  (forall E E' rx rx' rsec rbase rid accs, ectx_perm E E' -> expr_perm rx rx' ->
     meq (walk W f E rx rsec rbase rid accs) (walk W' f E' rx' rsec rbase rid accs)).

Lemma M5_all : forall f, M5 f.
Proof.
  induction f as [|f IH].
  - unfold M5; split5; intros; apply meq_refl.
  - destruct IH as (He & Hr & Ht & Ha & Hw). unfold M5; split5; intros.
    + rewrite !eval_expr_S. apply expr_body_meq; [|assumption]. intros; apply Hr; assumption.
    + rewrite !eval_repr_S. apply repr_body_meq; intros; auto.
      * apply (xp_name _ _ H). * apply (xp_root _ _ H).
    + rewrite !eval_typed_S. apply typed_body_meq; [|assumption]. intros; apply He; assumption.
    + rewrite !eval_access_S. apply access_body_meq; [|assumption]. intros; apply Hw; assumption.
    + rewrite !walk_S. apply walk_body_meq; intros; auto.
Qed.


(* ---------------- environments ---------------- *)
Lemma load_result_perm b n : load_perm (load_result W b n) (load_result W' b n).
Proof.
  unfold load_result. destruct b; [constructor|].
  pose proof (alookup_rel load_perm n _ _ (wp_envs _ _ HW)) as H.
  destruct (alookup n (w_envs W)), (alookup n (w_envs W')); try contradiction; [exact H|constructor].
Qed.

Lemma env_go_meq ev ev' :
  (forall n d d', envdef_perm d d' -> meq (ev n d) (ev' n d')) ->
  forall is base my, meq (env_go W ev is base my) (env_go W' ev' is base my).
Proof.
  intros H. induction is as [|[n merge] rest IH]; intros base my.
  - rewrite !env_go_nil. apply meq_refl.
  - rewrite !env_go_cons, call_perm. apply meq_bind; [apply meq_refl|]. intros [i|].
    + destruct (is_evaluating i); [apply meq_bind; [apply meq_refl|intros _; apply IH]|destruct (is_value i); apply IH].
    + apply meq_bind; [apply meq_refl|]. intro failed. apply meq_bind; [apply meq_refl|]. intros _.
      pose proof (load_result_perm failed n) as Hl.
      destruct (load_result W failed n), (load_result W' failed n); inversion Hl; subst.
      * apply meq_bind; [apply meq_refl|intros _]. apply meq_bind; [apply meq_refl|intros _; apply IH].
      * apply meq_bind; [apply meq_refl|intros _]. apply meq_bind; [apply meq_refl|intros _; apply IH].
      * apply meq_bind; [apply H; assumption|]. intro v. apply meq_bind; [apply meq_refl|intros _; apply IH].
Qed.

Lemma filter_obj_perm (p : string -> bool) l l' :
  expr_perm (EObj l) (EObj l') ->
  expr_perm (EObj (filter (fun kv => p (fst kv)) l)) (EObj (filter (fun kv => p (fst kv)) l')).
Proof.
  intro Hp. inversion Hp as [| | | | | | |l0 m l0' Hre Hf| | | | | | | | | |]; subst.
  apply EP_obj with (m := filter (fun kv => p (fst kv)) m); [apply reorder_filter, Hre|].
  change (Forall2 (krel expr_perm) m l') in Hf. apply (filter_rel expr_perm p), Hf.
Qed.

Lemma filter_obj_length (p : string -> bool) l l' :
  expr_perm (EObj l) (EObj l') ->
  length (filter (fun kv => p (fst kv)) l) = length (filter (fun kv => p (fst kv)) l').
Proof.
  intro Hp. inversion Hp as [| | | | | | |l0 m l0' Hre Hf| | | | | | | | | |]; subst.
  rewrite (reorder_length _ _ (reorder_filter (fun kv => p (fst kv)) l m Hre)).
  change (Forall2 (krel expr_perm) m l') in Hf. apply (filter_length_rel expr_perm p), Hf.
Qed.

Lemma context_chain_perm root cur : context_chain W' root cur = context_chain W root cur.
Proof. unfold context_chain. rewrite (wp_ctx _ _ HW). reflexivity. Qed.

Lemma env_ectx_perm root' name d d' base my :
  envdef_perm d d' -> ectx_perm (env_ectx W root' name d base my) (env_ectx W' root' name d' base my).
Proof.
  intros [Hi Hv]. constructor; cbn [env_ectx ec_name ec_root ec_values ec_base ec_imports ec_context]; auto.
  - apply (filter_obj_perm (fun k => negb (reserved k))), Hv.
  - apply context_chain_perm.
Qed.

Lemma env_body_meq ev ev' ee ee' root name d d' :
  (forall r n d d', envdef_perm d d' -> meq (ev r n d) (ev' r n d')) ->
  (forall E E' x x' b c i, ectx_perm E E' -> expr_perm x x' -> meq (ee E x b c i) (ee' E' x' b c i)) ->
  envdef_perm d d' -> meq (env_body W ev ee root name d) (env_body W' ev' ee' root name d').
Proof.
  intros H1 H2 Hd. unfold env_body. cbv zeta. destruct Hd as [Hi Hv]. rewrite <- Hi.
  apply meq_bind; [apply meq_refl|]. intros _.
  apply meq_bind; [apply env_go_meq; intros; apply H1; assumption|]. intros [base my].
  apply meq_bind; [apply meq_refl|]. intros _.
  rewrite (filter_obj_length reserved _ _ Hv).
  apply meq_bind; [apply meq_refl|]. intros _.
  apply H2.
  - apply env_ectx_perm. split; assumption.
  - apply (xp_values _ _ (env_ectx_perm _ name d d' base my (conj Hi Hv))).
Qed.

Lemma eval_env_meq : forall f root name d d', envdef_perm d d' ->
  meq (eval_env W f root name d) (eval_env W' f root name d').
Proof.
  induction f as [|f IH]; intros root name d d' Hd.
  - apply meq_refl.
  - rewrite !eval_env_S. apply env_body_meq; [| |exact Hd].
    + intros; apply IH; assumption.
    + intros. destruct (M5_all f) as (He & _). apply He; assumption.
Qed.

End PERM.

(* ------------------------------------------------------------------------------------------------ *)
(* 3. the theorems                                                                                  *)
(* ------------------------------------------------------------------------------------------------ *)

(* evaluating an object literal does not depend on the order of its (unique) keys: same value, same state *)
Theorem eval_repr_obj_perm W f E l l' xbase id s :
  NoDup (map fst l) -> Permutation l l' ->
  eval_repr W f E (EObj l) xbase id s = eval_repr W f E (EObj l') xbase id s.
Proof.
  intros Hn Hp. destruct (M5_all W W (world_perm_refl W) f) as (_ & Hr & _).
  apply Hr; [|apply expr_perm_obj_reorder; assumption].
  constructor; auto. apply expr_perm_refl.
Qed.

(* the same for whole expressions, with objects reordered at every nesting level, and for the reference
   walk (first occurrence of a key), in contexts whose declared values are reordered too *)
Theorem eval_expr_perm W f E E' x x' xsec xbase id s :
  ectx_perm E E' -> expr_perm x x' ->
  eval_expr W f E x xsec xbase id s = eval_expr W f E' x' xsec xbase id s.
Proof. intros HE Hx. destruct (M5_all W W (world_perm_refl W) f) as (He & _). apply He; assumption. Qed.

Theorem walk_perm W f E E' rx rx' rsec rbase rid accs s :
  ectx_perm E E' -> expr_perm rx rx' ->
  walk W f E rx rsec rbase rid accs s = walk W f E' rx' rsec rbase rid accs s.
Proof. intros HE Hx. destruct (M5_all W W (world_perm_refl W) f) as (_ & _ & _ & _ & Hw). apply Hw; assumption. Qed.

Theorem eval_env_perm W W' f root name d d' s :
  world_perm W W' -> envdef_perm d d' ->
  eval_env W f root name d s = eval_env W' f root name d' s.
Proof. intros HW Hd. apply eval_env_meq; assumption. Qed.

(* C09 / C02: definitions that differ by the order of keys (root and imported environments, every nesting
   level) have the same observation: value, "has errors", collaborator-call log, fuel flag *)
Theorem key_order_irrelevant f W W' name d d' :
  world_perm W W' -> envdef_perm d d' -> run f W name d = run f W' name d'.
Proof. intros HW Hd. unfold run. rewrite (eval_env_perm W W' f "" name d d' st0 HW Hd). reflexivity. Qed.

(* top-level [values] order of the root environment alone *)
Corollary values_order_irrelevant f W name imports vals vals' :
  NoDup (map fst vals) -> Permutation vals vals' ->
  run f W name {| ed_imports := imports; ed_values := vals |}
  = run f W name {| ed_imports := imports; ed_values := vals' |}.
Proof.
  intros Hn Hp. apply key_order_irrelevant; [apply world_perm_refl|].
  split; [reflexivity|]. apply expr_perm_obj_reorder; assumption.
Qed.

(* Theorem 7: [run] is a function — stated for completeness.  Go's map-iteration nondeterminism is a
   property of the runtime; the model has no iteration order to vary, so "same input, same output" is the
   reflexivity of equality here.  The runtime side is exercised by the correspondence (Corr/C09.v: repeated
   and fresh-process runs).  What the model CAN say is [key_order_irrelevant] above. *)
Theorem run_deterministic f W name d o1 o2 : run f W name d = o1 -> run f W name d = o2 -> o1 = o2.
Proof. congruence. Qed.
