(* Proofs/TempFilesProofs.v — the theorems of property C16 about Model/TempFiles.v, for every number of file
   entries, every fault plan and every naming scheme of the file system that does not repeat names. *)
From Verif Require Import Base.Bytes Model.TempFiles Proofs.TempFilesMaps Proofs.TempFilesOps.
From Coq Require Import Lia.

Definition fresh (name_of : nat -> string) (st : fsys) : Prop :=
  forall n, (fs_next st <= n)%nat -> lookup (name_of n) (fs_files st) = None.

Section Inv.
  Variable plan : kind -> nat -> bool.
  Variable name_of : nat -> string.
  Variable P : tf_params.
  Hypothesis name_inj : forall a b, name_of a = name_of b -> a = b.
  Hypothesis Hrm : tp_remove_on_write_fail P = true.
  Hypothesis Hrb : tp_rollback P = true.
  Variable m0 : fmap.           (* the file system before the command *)

  Notation ctf := (create_temporary_file plan name_of P).
  Notation rtf := (remove_temporary_files plan).
  Notation cfs := (create_files plan name_of P).
  Notation fresh' := (fresh name_of).

  (* [L]: the temporary files the command currently owes a Remove *)
  Record inv (L : string -> Prop) (st : fsys) : Prop := mk_inv {
    inv_fresh : fresh' st;
    inv_frame : forall q, ~ L q -> ~ In (EvRemove q RmFault) (fs_trace st) ->
                          lookup q (fs_files st) = lookup q m0;
    inv_new : forall q, L q \/ In (EvRemove q RmFault) (fs_trace st) -> lookup q m0 = None;
    inv_sound : forall q, In (EvRemove q RmFault) (fs_trace st) -> exists i, plan KRemove i = true
  }.

  Lemma inv_equiv L L' st : (forall q, L q <-> L' q) -> inv L st -> inv L' st.
  Proof.
    intros E [F A B C]. constructor; auto.
    - intros q HL. apply A. intro H. apply HL. apply E. exact H.
    - intros q [H|H]; apply B; [left; apply E; exact H|right; exact H].
  Qed.

  Lemma next_not_initial L st : (forall q, L q \/ ~ L q) -> inv L st -> lookup (name_of (fs_next st)) m0 = None.
  Proof.
    intros Ldec [F A B C]. set (p := name_of (fs_next st)).
    destruct (Ldec p) as [Hl|Hl]; [apply B; left; exact Hl|].
    destruct (fault_dec p (fs_trace st)) as [Hf|Hf]; [apply B; right; exact Hf|].
    rewrite <- (A p Hl Hf). apply F. lia.
  Qed.

  Lemma ctf_fresh st v st' r : fresh' st -> ctf st v = (st', r) -> fresh' st'.
  Proof.
    intros F H. destruct (ctf_spec _ _ _ _ _ _ _ H) as (O & _ & R). cbn zeta in *.
    assert (Hstep : (fs_next st' = fs_next st /\ fs_files st' = fs_files st) \/ fs_next st' = S (fs_next st)).
    { destruct r as [p'|]; [right; tauto|]. destruct R as [R|[R _]]; [left; exact R|right; exact R]. }
    destruct Hstep as [[N E]|N]; intros n Hn.
    - rewrite E. apply F. lia.
    - rewrite O; [apply F; lia|]. intro C. apply name_inj in C. lia.
  Qed.

  Lemma ctf_inv L st v st' r :
    (forall q, L q \/ ~ L q) -> inv L st -> ctf st v = (st', r) ->
    match r with Some p => inv (fun q => L q \/ q = p) st' | None => inv L st' end.
  Proof.
    intros Ldec I H. pose proof (next_not_initial _ _ Ldec I) as Hp0.
    pose proof (ctf_fresh _ _ _ _ (inv_fresh _ _ I) H) as F'.
    destruct (ctf_spec _ _ _ _ _ _ _ H) as (O & (new & T & Ab & NR & SF) & R). cbn zeta in *.
    set (p := name_of (fs_next st)) in *.
    destruct I as [F A B C].
    assert (Hnew : forall q, In (EvRemove q RmFault) new -> q = p).
    { intros q Hin. rewrite Forall_forall in Ab. apply (Ab _ Hin). }
    destruct r as [p'|].
    - destruct R as (-> & N & c & Lc & _).
      assert (NR' : forall q, ~ In (EvRemove q RmFault) new).
      { intros q Hin. specialize (NR ltac:(discriminate)). rewrite Forall_forall in NR. apply (NR _ Hin). exact I. }
      constructor; [exact F'| | |].
      + intros q HL Hf. rewrite O; [|intro Cq; apply HL; right; exact Cq].
        apply A; [intro Hl; apply HL; left; exact Hl|].
        intro Hin. apply Hf. rewrite T. apply in_or_app. right. exact Hin.
      + intros q [[Hl | ->] | Hin]; [apply B; left; exact Hl|exact Hp0|].
        rewrite T in Hin. apply in_app_or in Hin. destruct Hin as [Hin|Hin]; [destruct (NR' _ Hin)|].
        apply B. right. exact Hin.
      + intros q Hin. rewrite T in Hin. apply in_app_or in Hin. destruct Hin as [Hin|Hin]; [destruct (NR' _ Hin)|].
        eapply C. exact Hin.
    - constructor; [exact F'| | |].
      + intros q HL Hf.
        assert (Hf0 : ~ In (EvRemove q RmFault) (fs_trace st)).
        { intro Hin. apply Hf. rewrite T. apply in_or_app. right. exact Hin. }
        destruct (string_dec q p) as [->|Hne].
        * destruct R as [[_ E]|[_ R]].
          -- rewrite E. apply A; assumption.
          -- destruct (R Hrm) as [Hn|Hin]; [|contradiction]. rewrite Hn, Hp0. reflexivity.
        * rewrite O by exact Hne. apply A; assumption.
      + intros q [Hl|Hin]; [apply B; left; exact Hl|].
        rewrite T in Hin. apply in_app_or in Hin. destruct Hin as [Hin|Hin].
        * rewrite (Hnew _ Hin). exact Hp0.
        * apply B. right. exact Hin.
      + intros q Hin. rewrite T in Hin. apply in_app_or in Hin. destruct Hin as [Hin|Hin]; [|eapply C; exact Hin].
        eapply SF. exact Hin.
  Qed.

  Lemma op_remove_inv L st p :
    lookup p m0 = None -> inv L st -> inv (fun q => L q /\ q <> p) (op_remove plan st p).
  Proof.
    intros Hp0 [F A B C]. destruct (op_remove_spec plan st p) as (O & N & rr & T & R).
    constructor.
    - intros n Hn. rewrite N in Hn. destruct (string_dec (name_of n) p) as [E|E].
      + destruct rr; [rewrite E; exact R| |rewrite E; exact R].
        destruct R as [R _]. rewrite R. apply F. exact Hn.
      + rewrite O by exact E. apply F. exact Hn.
    - intros q HL Hf. rewrite T in Hf.
      destruct (string_dec q p) as [->|Hne].
      + destruct rr; [rewrite R, Hp0; reflexivity| |rewrite R, Hp0; reflexivity].
        exfalso. apply Hf. left. reflexivity.
      + rewrite O by exact Hne. apply A.
        * intro Hl. apply HL. split; assumption.
        * intro Hin. apply Hf. right. exact Hin.
    - intros q [[Hl _]|Hin]; [apply B; left; exact Hl|].
      rewrite T in Hin. destruct Hin as [Heq|Hin]; [inversion Heq; subst; exact Hp0|apply B; right; exact Hin].
    - intros q Hin. rewrite T in Hin. destruct Hin as [Heq|Hin]; [|eapply C; exact Hin].
      inversion Heq; subst. destruct R as [_ R]. eexists. exact R.
  Qed.

  Lemma rtf_inv : forall ps L st,
    (forall p, In p ps -> lookup p m0 = None) -> inv L st -> inv (fun q => L q /\ ~ In q ps) (rtf st ps).
  Proof.
    induction ps as [|p r IH]; intros L st H0 I; cbn [remove_temporary_files].
    - eapply inv_equiv; [|exact I]. intro q. cbn. tauto.
    - eapply inv_equiv; [|apply IH; [|apply op_remove_inv; [|exact I]]].
      + intro q. cbn. split.
        * intros [[Hl Hne] Hn]. split; [exact Hl|]. intros [Heq|Hin]; [apply Hne; congruence|contradiction].
        * intros [Hl Hn]. split; [split; [exact Hl|]|]; intro C; apply Hn; [left; congruence|right; exact C].
      + intros p' Hp'. apply H0. right. exact Hp'.
      + apply H0. left. reflexivity.
  Qed.

  (* an operation that only logs something other than a failed Remove *)
  Lemma step_inv L st st' e :
    fs_files st' = fs_files st -> fs_next st' = fs_next st -> fs_trace st' = e :: fs_trace st ->
    (forall q, e <> EvRemove q RmFault) -> inv L st -> inv L st'.
  Proof.
    intros Ef En Et Hne [F A B C]. constructor.
    - intros n Hn. rewrite Ef. apply F. rewrite <- En. exact Hn.
    - intros q HL Hf. rewrite Ef. apply A; [exact HL|]. intro Hin. apply Hf. rewrite Et. right. exact Hin.
    - intros q [Hl|Hin]; [apply B; left; exact Hl|]. rewrite Et in Hin.
      destruct Hin as [Heq|Hin]; [destruct (Hne _ Heq)|apply B; right; exact Hin].
    - intros q Hin. rewrite Et in Hin. destruct Hin as [Heq|Hin]; [destruct (Hne _ Heq)|eapply C; exact Hin].
  Qed.

  Lemma in_dec_pred (l : list string) : forall q, In q l \/ ~ In q l.
  Proof. intro q. destruct (in_dec string_dec q l); tauto. Qed.

  (* the loop of createTemporaryFiles: on success it owes a Remove for exactly the paths it returns, on failure
     for nothing *)
  Lemma cfs_inv : forall es st paths vars st' res,
    inv (fun q => In q paths) st -> cfs st es paths vars = (st', res) ->
    match res with
    | Some (paths', _) => inv (fun q => In q paths') st'
    | None => inv (fun _ => False) st'
    end.
  Proof.
    induction es as [|e r IH]; intros st paths vars st' res I H; cbn [create_files] in H.
    - inversion H; subst. exact I.
    - destruct (ctf st (pe_val e)) as [st1 [p|]] eqn:Hc.
      + pose proof (ctf_inv _ _ _ _ _ (in_dec_pred paths) I Hc) as I1. cbn in I1.
        eapply IH; [|exact H]. eapply inv_equiv; [|exact I1].
        intro q. rewrite in_app_iff. cbn. intuition congruence.
      + pose proof (ctf_inv _ _ _ _ _ (in_dec_pred paths) I Hc) as I1. cbn in I1.
        rewrite Hrb in H. inversion H; subst.
        eapply inv_equiv; [|apply rtf_inv; [|exact I1]].
        * intro q. cbn. tauto.
        * intros p Hp. apply (inv_new _ _ I1). left. exact Hp.
  Qed.

  (* ---- what may be left behind ---- *)
  Definition leak (L : string -> Prop) (st : fsys) : Prop :=
    forall q c, lookup q (fs_files st) = Some c ->
                lookup q m0 = Some c \/ L q \/ In (EvRemove q RmFault) (fs_trace st).

  Lemma inv_leak L st : (forall q, L q \/ ~ L q) -> inv L st -> leak L st.
  Proof.
    intros Ldec [F A B C] q c Hq.
    destruct (Ldec q) as [Hl|Hl]; [right; left; exact Hl|].
    destruct (fault_dec q (fs_trace st)) as [Hf|Hf]; [right; right; exact Hf|].
    left. rewrite <- (A q Hl Hf). exact Hq.
  Qed.

  Lemma leak_mono L st st' :
    (forall q c, lookup q (fs_files st') = Some c -> lookup q (fs_files st) = Some c) ->
    (exists new, fs_trace st' = new ++ fs_trace st) -> leak L st -> leak L st'.
  Proof.
    intros Hs [new T] Hl q c Hq. destruct (Hl q c (Hs q c Hq)) as [H|[H|H]]; [tauto|tauto|].
    right. right. rewrite T. apply in_or_app. right. exact H.
  Qed.

  Lemma rtf_leak ps L st : leak L st -> leak (fun q => L q /\ ~ In q ps) (rtf st ps).
  Proof.
    intros Hl q c Hq. destruct (rtf_spec plan ps st) as (_ & _ & S & new & T & _ & _ & C & _).
    destruct (Hl q c (S q c Hq)) as [H|[H|H]]; [left; exact H| |].
    - destruct (in_dec string_dec q ps) as [Hin|Hnin].
      + destruct (C q Hin) as [Hn|Hf]; [congruence|].
        right. right. rewrite T. apply in_or_app. left. exact Hf.
      + right. left. split; assumption.
    - right. right. rewrite T. apply in_or_app. right. exact H.
  Qed.

  (* ---- what the files hold when createTemporaryFiles succeeds ---- *)
  Lemma cfs_holds : forall es st paths vars st' paths' vars',
    fresh' st -> cfs st es paths vars = (st', Some (paths', vars')) ->
    exists ps, paths' = paths ++ ps /\
      vars' = vars ++ map (fun ep => kv (pe_key (fst ep)) (snd ep)) (combine es ps) /\
      length ps = length es /\ NoDup ps /\
      Forall2 (fun e p => exists c, lookup p (fs_files st') = Some c /\ okc plan P (pe_val e) c) es ps /\
      (forall p, In p ps -> lookup p (fs_files st) = None) /\
      (forall q, ~ In q ps -> lookup q (fs_files st') = lookup q (fs_files st)) /\ fresh' st'.
  Proof.
    induction es as [|e r IH]; intros st paths vars st' paths' vars' F H; cbn [create_files] in H.
    - inversion H; subst. exists []. rewrite !app_nil_r. repeat split; auto; try constructor. intros ? [].
    - destruct (ctf st (pe_val e)) as [st1 [p|]] eqn:Hc; [|discriminate].
      pose proof (ctf_fresh _ _ _ _ F Hc) as F1.
      destruct (ctf_spec _ _ _ _ _ _ _ Hc) as (O & _ & (-> & N & c & Lc & Hok)). cbn zeta in *.
      set (p := name_of (fs_next st)) in *.
      destruct (IH _ _ _ _ _ _ F1 H) as (ps & -> & -> & Hlen & Hnd & Hall & Hnone & Hframe & F').
      assert (Hp : ~ In p ps). { intro Hin. rewrite (Hnone _ Hin) in Lc. discriminate. }
      exists (p :: ps). rewrite <- !app_assoc. cbn [app combine map fst snd length].
      split; [reflexivity|]. split; [reflexivity|]. split; [rewrite Hlen; reflexivity|].
      split; [constructor; assumption|]. split.
      { constructor; [|exact Hall]. exists c. rewrite (Hframe _ Hp). split; assumption. }
      split.
      { intros q [<-|Hin]; [apply F; lia|]. rewrite <- (O q); [apply Hnone; exact Hin|].
        intro C. subst q. contradiction. }
      split; [|exact F'].
      intros q Hq. rewrite Hframe by (intro C; apply Hq; right; exact C).
      apply O. intro C. apply Hq. left. congruence.
  Qed.

  (* ---- nothing is run while the files are prepared ---- *)
  Lemma cfs_no_run : forall es st paths vars st' res,
    cfs st es paths vars = (st', res) ->
    exists new, fs_trace st' = new ++ fs_trace st /\ Forall (fun e => ~ is_run e) new.
  Proof.
    induction es as [|e r IH]; intros st paths vars st' res H; cbn [create_files] in H.
    - inversion H; subst. exists []. split; [reflexivity|constructor].
    - destruct (ctf st (pe_val e)) as [st1 [p|]] eqn:Hc;
        destruct (ctf_spec _ _ _ _ _ _ _ Hc) as (_ & (new & T & Ab & _) & _); cbn zeta in *.
      + destruct (IH _ _ _ _ _ H) as (new' & T' & A'). exists (new' ++ new).
        split; [rewrite T', T, app_assoc; reflexivity|]. apply Forall_app. split; [exact A'|].
        eapply Forall_impl; [|exact Ab]. intros [[q|]| | | | |] Ha; cbn; auto.
      + rewrite Hrb in H. inversion H; subst.
        destruct (rtf_spec plan paths st1) as (_ & _ & _ & new' & T' & A' & _). exists (new' ++ new).
        split; [rewrite T', T, app_assoc; reflexivity|]. apply Forall_app. split.
        * eapply Forall_impl; [|exact A']. intros e' (q & x & -> & _). cbn. auto.
        * eapply Forall_impl; [|exact Ab]. intros [[q|]| | | | |] Ha; cbn; auto.
  Qed.

  Lemma count_no_run new : Forall (fun e => ~ is_run e) new -> count KRun new = 0%nat.
  Proof.
    induction 1 as [|e r He _ IH]; [reflexivity|]. cbn [count].
    destruct e; cbn in *; try exact IH. exfalso. apply He. exact I.
  Qed.

  (* ---- which operation of the plan hits which file ---- *)
  Definition file_ok (i : nat) : bool :=
    negb (plan KCreate i) && negb (plan KWrite i) && (negb (tp_close_checked P) || negb (plan KClose i)).

  Definition aligned (st : fsys) (a : nat) : Prop :=
    count KCreate (fs_trace st) = a /\ count KWrite (fs_trace st) = a /\ count KClose (fs_trace st) = a.

  Lemma ctf_ok st v a :
    aligned st a -> file_ok a = true ->
    exists st', ctf st v = (st', Some (name_of (fs_next st))) /\ aligned st' (S a) /\ fs_next st' = S (fs_next st).
  Proof.
    intros (A1 & A2 & A3) Hok. unfold file_ok in Hok.
    apply andb_prop in Hok. destruct Hok as [Hok H3]. apply andb_prop in Hok. destruct Hok as [H1 H2].
    apply negb_true_iff in H1. apply negb_true_iff in H2.
    unfold create_temporary_file, op_create, faulty. rewrite A1, H1.
    unfold op_write, faulty. cbn [fs_trace count is_kind kind_of kind_eqb]. rewrite A2, H2.
    destruct (tp_close_checked P) eqn:CC.
    - cbn [negb orb] in H3. apply negb_true_iff in H3.
      unfold op_close, faulty. cbn [log set_files fs_trace count is_kind kind_of kind_eqb]. rewrite A3, H3.
      cbn [andb]. eexists. split; [reflexivity|]. unfold aligned. cbn. rewrite A1, A2, A3. auto.
    - unfold op_close, faulty. cbn [log set_files fs_trace count is_kind kind_of kind_eqb]. rewrite A3.
      destruct (plan KClose a); cbn [fst]; eexists; (split; [reflexivity|]); unfold aligned; cbn;
        rewrite A1, A2, A3; auto.
  Qed.

  Lemma ctf_bad st v a :
    aligned st a -> file_ok a = false -> exists st', ctf st v = (st', None).
  Proof.
    intros (A1 & A2 & A3) Hbad. unfold file_ok in Hbad.
    unfold create_temporary_file, op_create, faulty. rewrite A1.
    destruct (plan KCreate a) eqn:H1; [eexists; reflexivity|].
    unfold op_write, faulty. cbn [fs_trace count is_kind kind_of kind_eqb]. rewrite A2.
    destruct (plan KWrite a) eqn:H2.
    - destruct (tp_close_checked P).
      + destruct (op_close _ _ _) as [st3 cok]. cbn [andb]. eexists. reflexivity.
      + eexists. reflexivity.
    - cbn [negb andb] in Hbad. destruct (tp_close_checked P) eqn:CC; [|discriminate].
      cbn [negb orb] in Hbad. apply negb_false_iff in Hbad.
      unfold op_close, faulty. cbn [log set_files fs_trace count is_kind kind_of kind_eqb]. rewrite A3, Hbad.
      cbn [andb]. eexists. reflexivity.
  Qed.

  Lemma cfs_fail_at : forall k es st paths vars a,
    aligned st a -> (k < length es)%nat ->
    (forall i, (i < k)%nat -> file_ok (a + i) = true) -> file_ok (a + k) = false ->
    exists st1, cfs st es paths vars = (rtf st1 (paths ++ map name_of (seq (fs_next st) k)), None).
  Proof.
    induction k as [|k IH]; intros es st paths vars a Al Hk Hpre Hbad;
      (destruct es as [|e r]; [cbn in Hk; lia|]); cbn [create_files].
    - rewrite Nat.add_0_r in Hbad. destruct (ctf_bad st (pe_val e) a Al Hbad) as [st1 ->].
      rewrite Hrb. exists st1. cbn [seq map]. rewrite app_nil_r. reflexivity.
    - assert (H0 : file_ok a = true) by (rewrite <- (Nat.add_0_r a); apply Hpre; lia).
      destruct (ctf_ok st (pe_val e) a Al H0) as (st1 & -> & Al1 & N1).
      destruct (IH r st1 (paths ++ [name_of (fs_next st)]) (vars ++ [kv (pe_key e) (name_of (fs_next st))]) (S a) Al1)
        as [st2 ->].
      + cbn in Hk. lia.
      + intros i Hi. replace (S a + i)%nat with (a + S i)%nat by lia. apply Hpre. lia.
      + replace (S a + k)%nat with (a + S k)%nat by lia. exact Hbad.
      + exists st2. rewrite N1. cbn [seq map]. rewrite <- app_assoc. reflexivity.
  Qed.

  Lemma cfs_all_ok : forall es st paths vars a,
    aligned st a -> (forall i, (i < length es)%nat -> file_ok (a + i) = true) ->
    exists st', cfs st es paths vars =
      (st', Some (paths ++ map name_of (seq (fs_next st) (length es)),
                  vars ++ map (fun ep => kv (pe_key (fst ep)) (snd ep))
                              (combine es (map name_of (seq (fs_next st) (length es)))))).
  Proof.
    induction es as [|e r IH]; intros st paths vars a Al Hall; cbn [create_files].
    - exists st. cbn. rewrite !app_nil_r. reflexivity.
    - assert (H0 : file_ok a = true) by (rewrite <- (Nat.add_0_r a); apply Hall; cbn; lia).
      destruct (ctf_ok st (pe_val e) a Al H0) as (st1 & -> & Al1 & N1).
      destruct (IH st1 (paths ++ [name_of (fs_next st)]) (vars ++ [kv (pe_key e) (name_of (fs_next st))]) (S a) Al1)
        as [st2 ->].
      + intros i Hi. replace (S a + i)%nat with (a + S i)%nat by lia. apply Hall. cbn. lia.
      + exists st2. rewrite N1. cbn [length seq map combine fst snd]. rewrite <- !app_assoc. reflexivity.
  Qed.

  (* ---- the command ---- *)
  Hypothesis Hdc : tp_defer_cleanup P = true.
  Notation run := (run_command plan name_of P).

  Definition start_ok (st0 : fsys) : Prop := fresh' st0 /\ fs_files st0 = m0 /\ fs_trace st0 = [].

  Lemma init_inv st0 : start_ok st0 -> inv (fun q => In q []) st0.
  Proof.
    intros (F & E & T). constructor; [exact F| | |]; rewrite T.
    - intros q _ _. rewrite E. reflexivity.
    - intros q [[]|[]].
    - intros q [].
  Qed.

  Lemma paths_not_initial paths st : inv (fun q => In q paths) st -> forall p, In p paths -> lookup p m0 = None.
  Proof. intros I p Hp. apply (inv_new _ _ I). left. exact Hp. Qed.

  (* unless the child deletes files itself, when the command returns the file system is what it was before,
     except for files whose own Remove was made to fail *)
  Theorem run_inv st0 cfg :
    start_ok st0 -> (rc_unlink cfg = false \/ o_child (run st0 cfg) = None) ->
    inv (fun _ => False) (o_fs (run st0 cfg)).
  Proof.
    intros S0. pose proof (init_inv _ S0) as I0.
    assert (IF : inv (fun _ => False) st0) by (eapply inv_equiv; [|exact I0]; cbn; tauto).
    unfold run_command.
    destruct (rc_found cfg); cbn [negb]; [|intros _; exact IF].
    destruct (rc_open cfg); [|intros _; exact IF|intros _; exact IF].
    unfold prepare_environment.
    destruct (cfs st0 (projection (rc_files cfg)) [] []) as [st1 [[paths fvars]|]] eqn:Hc;
      pose proof (cfs_inv _ _ _ _ _ _ I0 Hc) as I1; cbn in I1; [|intros _; exact I1].
    unfold op_run. rewrite Hdc. destruct (faulty plan st1 KRun); cbn [o_fs o_child].
    - intros _. eapply inv_equiv; [|apply (rtf_inv paths (fun q => In q paths)); [exact (paths_not_initial _ _ I1)|]].
      + intro q. cbn. tauto.
      + apply (step_inv _ st1 _ (EvRun false)); [reflexivity|reflexivity|reflexivity| |exact I1]. intros q C. discriminate.
    - intros [Hu|Hu]; [|discriminate]. rewrite Hu.
      eapply inv_equiv; [|apply (rtf_inv paths (fun q => In q paths)); [exact (paths_not_initial _ _ I1)|]].
      + intro q. cbn. tauto.
      + apply (step_inv _ st1 _ (EvRun true)); [reflexivity|reflexivity|reflexivity| |exact I1]. intros q C. discriminate.
  Qed.

  (* whatever the child does to the files it is given: anything left behind is an old file or a file whose own
     Remove was made to fail *)
  Theorem run_leak st0 cfg : start_ok st0 -> leak (fun _ => False) (o_fs (run st0 cfg)).
  Proof.
    intros S0. pose proof (init_inv _ S0) as I0.
    assert (LF : leak (fun _ => False) st0).
    { apply inv_leak; [tauto|]. eapply inv_equiv; [|exact I0]. cbn. tauto. }
    unfold run_command.
    destruct (rc_found cfg); cbn [negb]; [|exact LF].
    destruct (rc_open cfg); [|exact LF|exact LF].
    unfold prepare_environment.
    destruct (cfs st0 (projection (rc_files cfg)) [] []) as [st1 [[paths fvars]|]] eqn:Hc;
      pose proof (cfs_inv _ _ _ _ _ _ I0 Hc) as I1; cbn in I1; [|cbn [o_fs]; apply inv_leak; [tauto|exact I1]].
    pose proof (inv_leak _ _ (in_dec_pred paths) I1) as L1.
    unfold op_run. rewrite Hdc.
    assert (Hfin : forall st2, leak (fun q => In q paths) st2 -> leak (fun _ => False) (rtf st2 paths)).
    { intros st2 L2 q c Hq. destruct (rtf_leak paths _ _ L2 q c Hq) as [H|[[H1 H2]|H]]; tauto. }
    destruct (faulty plan st1 KRun); cbn [o_fs]; apply Hfin.
    - eapply leak_mono; [| |exact L1]; [cbn; auto|exists [EvRun false]; reflexivity].
    - eapply leak_mono; [| |exact L1]; [|exists [EvRun true]; reflexivity].
      cbn [log set_files fs_files]. destruct (rc_unlink cfg); [|auto]. apply lookup_unlink_all_sub.
  Qed.

  (* ---- what the child sees ---- *)
  Theorem run_child_view st0 cfg cv :
    start_ok st0 -> o_child (run st0 cfg) = Some cv ->
    let fes := projection (rc_files cfg) in
    exists ps, length ps = length fes /\ NoDup ps /\
      cv_env cv = rc_base cfg ++ map (fun e => kv (pe_key e) (pe_val e)) (projection (rc_vars cfg))
                  ++ map (fun ep => kv (pe_key (fst ep)) (snd ep)) (combine fes ps) /\
      Forall2 (fun e p => exists c, lookup p (cv_files cv) = Some c /\ okc plan P (pe_val e) c) fes ps /\
      (forall p, In p ps -> lookup p m0 = None) /\
      (forall q, ~ In q ps -> lookup q (cv_files cv) = lookup q m0).
  Proof.
    intros (F0 & E0 & T0). unfold run_command.
    destruct (rc_found cfg); cbn [negb o_child]; [|discriminate].
    destruct (rc_open cfg); cbn [o_child]; [|discriminate|discriminate].
    unfold prepare_environment.
    destruct (cfs st0 (projection (rc_files cfg)) [] []) as [st1 [[paths fvars]|]] eqn:Hc; [|discriminate].
    destruct (cfs_holds _ _ _ _ _ _ _ F0 Hc) as (ps & -> & -> & Hlen & Hnd & Hall & Hnone & Hframe & _).
    unfold op_run. destruct (faulty plan st1 KRun); cbn [o_child]; [discriminate|].
    intro H. inversion H; subst cv; clear H. cbn [cv_env cv_files app].
    exists ps. rewrite <- E0. repeat split; auto.
  Qed.

  (* ---- the k-th file cannot be created or written ---- *)
  Theorem run_kth_failure st0 cfg k :
    start_ok st0 -> rc_found cfg = true -> rc_open cfg = OpenOk ->
    (k < length (projection (rc_files cfg)))%nat ->
    (forall i, (i < k)%nat -> file_ok i = true) -> file_ok k = false ->
    let out := run st0 cfg in
    o_err out = EPrepare /\ o_child out = None /\
    (forall e, In e (fs_trace (o_fs out)) -> ~ is_run e) /\
    (forall i, (i < k)%nat -> exists r, In (EvRemove (name_of (fs_next st0 + i)) r) (fs_trace (o_fs out))).
  Proof.
    intros (F0 & E0 & T0) Hf Ho Hk Hpre Hbad.
    assert (Al : aligned st0 0) by (unfold aligned; rewrite T0; auto).
    destruct (cfs_fail_at k (projection (rc_files cfg)) st0 [] [] 0%nat Al Hk Hpre Hbad) as [st1 Hc].
    cbn zeta. unfold run_command, prepare_environment. rewrite Hf, Ho. cbn [negb]. rewrite Hc.
    cbn [o_err o_child o_fs app]. split; [reflexivity|]. split; [reflexivity|].
    destruct (cfs_no_run _ _ _ _ _ _ Hc) as (new & T & NR). rewrite T0, app_nil_r in T.
    split.
    - intros e Hin. cbn [app] in T. rewrite T in Hin. rewrite Forall_forall in NR. apply NR. exact Hin.
    - intros i Hi.
      destruct (rtf_spec plan (map name_of (seq (fs_next st0) k)) st1) as (_ & _ & _ & new' & T' & _ & B & _).
      destruct (B (name_of (fs_next st0 + i))) as [r Hr].
      + apply in_map. apply in_seq. lia.
      + exists r. cbn zeta in T'. rewrite T'. apply in_or_app. left. exact Hr.
  Qed.

  (* ---- every file can be created and written: the child is started unless Run itself fails ---- *)
  Theorem run_all_ok st0 cfg :
    start_ok st0 -> rc_found cfg = true -> rc_open cfg = OpenOk ->
    (forall i, (i < length (projection (rc_files cfg)))%nat -> file_ok i = true) ->
    let out := run st0 cfg in
    let ps := map name_of (seq (fs_next st0) (length (projection (rc_files cfg)))) in
    if plan KRun 0 then o_err out = EStart /\ o_child out = None
    else o_err out = (if rc_exit_ok cfg then EOk else EExit) /\
         exists cv, o_child out = Some cv /\
           cv_env cv = rc_base cfg ++ map (fun e => kv (pe_key e) (pe_val e)) (projection (rc_vars cfg))
                       ++ map (fun ep => kv (pe_key (fst ep)) (snd ep)) (combine (projection (rc_files cfg)) ps).
  Proof.
    intros (F0 & E0 & T0) Hf Ho Hall.
    assert (Al : aligned st0 0) by (unfold aligned; rewrite T0; auto).
    destruct (cfs_all_ok (projection (rc_files cfg)) st0 [] [] 0%nat Al Hall) as [st1 Hc].
    cbn zeta. unfold run_command, prepare_environment. rewrite Hf, Ho. cbn [negb]. rewrite Hc. cbn [app].
    destruct (cfs_no_run _ _ _ _ _ _ Hc) as (new & T & NR). rewrite T0, app_nil_r in T.
    unfold op_run, faulty. rewrite T, (count_no_run _ NR).
    destruct (plan KRun 0); cbn [o_err o_child]; [split; reflexivity|].
    split; [reflexivity|]. eexists. split; [reflexivity|]. reflexivity.
  Qed.
End Inv.
