(* Proofs/ClientRetry.v — the retry state machine: a request under a non-retrying policy is sent exactly once
   whatever the server does; a retried GET makes at most max tries (and at most 2*max-1 requests reach the server,
   counting net/http's transparent replays); a failing prefix shorter than max is retried until the first
   non-failing reply, which is the one returned.  Headers and the diagnostics rule. *)
From Verif Require Import Base.Bytes Model.Client Proofs.ClientPath Proofs.ClientAddr.
From Coq Require Import Lia.

(* ---- one client.Do ---- *)
Lemma do_once_cases : forall replay reused env srv r srv',
  do_once replay reused env srv = (r, srv') ->
  (r = env srv /\ srv' = S srv)
  \/ (reused = true /\ replay = true /\ env srv = RpReset /\ r = env (S srv) /\ srv' = S (S srv)).
Proof.
  intros replay reused env srv r srv' H. unfold do_once in H.
  destruct (env srv) eqn:E.
  - destruct reused, replay; simpl in H; injection H as <- <-; auto.
    right. auto.
  - injection H as <- <-. auto.
Qed.

Lemma do_once_fresh : forall replay env srv, do_once replay false env srv = (env srv, S srv).
Proof. intros. unfold do_once. destruct (env srv); reflexivity. Qed.

Lemma do_once_noreplay : forall reused env srv, do_once false reused env srv = (env srv, S srv).
Proof. intros. unfold do_once. destruct (env srv); [destruct reused|]; reflexivity. Qed.

(* ---- bounds of the loop ---- *)
Lemma retry_loop_bounds : forall fuel max try srv replay reused env r att srv',
  retry_loop fuel max try srv replay reused env = LDone r att srv' ->
  (try < att)%nat /\ (att <= Nat.max (S try) max)%nat
  /\ (srv' + (if reused then 0 else 1) <= srv + 2 * (att - try))%nat /\ (srv < srv')%nat.
Proof.
  induction fuel as [|fuel IH]; intros max try srv replay reused env r att srv' H; [discriminate|].
  cbn [retry_loop] in H. destruct (do_once replay reused env srv) as [r1 s1] eqn:D.
  assert (HS : (srv < s1 /\ s1 + (if reused then 0 else 1) <= srv + 2)%nat).
  { destruct (do_once_cases _ _ _ _ _ _ D) as [[_ ->]|(Hr & _ & _ & _ & ->)]; [destruct reused; simpl; lia|].
    rewrite Hr. simpl. lia. }
  destruct (negb (failing r1)).
  - injection H as <- <- <-. lia.
  - destruct (max - 1 <=? try)%nat eqn:M.
    + injection H as <- <- <-. lia.
    + apply Nat.leb_gt in M. apply IH in H. destruct (leaves_reusable r1); lia.
Qed.

Lemma retry_loop_fuel : forall fuel max try srv replay reused env,
  (max - try <= fuel)%nat -> (0 < fuel)%nat -> retry_loop fuel max try srv replay reused env <> LOutOfFuel.
Proof.
  induction fuel as [|fuel IH]; intros max try srv replay reused env HF H0; [lia|].
  cbn [retry_loop]. destruct (do_once replay reused env srv) as [r1 s1].
  destruct (negb (failing r1)); [discriminate|].
  destruct (max - 1 <=? try)%nat eqn:M; [discriminate|]. apply Nat.leb_gt in M. apply IH; lia.
Qed.

(* ---- retried until the first non-failing reply ---- *)
Lemma retry_loop_success : forall env k max replay, (k < max)%nat ->
  (forall i, (i < k)%nat -> failing (env i) = true) -> failing (env k) = false ->
  forall fuel try srv reused, (srv <= k)%nat -> (try <= srv)%nat -> (max - try <= fuel)%nat ->
  exists att, retry_loop fuel max try srv replay reused env = LDone (env k) att (S k) /\ (att <= S k)%nat.
Proof.
  intros env k max replay Hk Hfail Hok.
  induction fuel as [|fuel IH]; intros try srv reused H1 H2 H3; [lia|].
  cbn [retry_loop]. destruct (do_once replay reused env srv) as [r1 s1] eqn:D.
  destruct (do_once_cases _ _ _ _ _ _ D) as [[-> ->]|(_ & _ & ER & -> & ->)].
  - destruct (Nat.eq_dec srv k) as [->|Hne].
    + rewrite Hok. simpl. exists (S try). split; [reflexivity|lia].
    + rewrite (Hfail srv ltac:(lia)). simpl.
      assert (M : (max - 1 <=? try)%nat = false) by (apply Nat.leb_gt; lia). rewrite M.
      apply IH; lia.
  - assert (srv <> k) by (intro; subst; rewrite ER in Hok; discriminate).
    destruct (Nat.eq_dec (S srv) k) as [<-|Hne].
    + rewrite Hok. simpl. exists (S try). split; [reflexivity|lia].
    + rewrite (Hfail (S srv) ltac:(lia)). simpl.
      assert (M : (max - 1 <=? try)%nat = false) by (apply Nat.leb_gt; lia). rewrite M.
      apply IH; lia.
Qed.

(* ---- doWithRetry ---- *)
Lemma should_retry_of_ok : forall f, retry_ok f = true ->
  should_retry (policy_of f) (of_verb f) = Some (String.eqb (of_verb f) "GET").
Proof.
  unfold retry_ok; intros f H. destruct (should_retry (policy_of f) (of_verb f)) as [b|]; [|discriminate].
  apply Bool.eqb_prop in H. subst. reflexivity.
Qed.

(* what one call of the model does, in terms of the loop *)
Lemma run_call_unfold : forall f token a n env rq,
  local_revision f a = None -> build_request f token a n = Some rq ->
  run_call_env f token a n env =
  match do_with_retry (policy_of f) (of_verb f) env with
  | None => mk_obs [] 0 RPanic
  | Some LOutOfFuel => mk_obs [] 0 RUnmodelled
  | Some (LDone r att srv) => mk_obs (repeat rq srv) att (http_result f token r)
  end.
Proof. intros f token a n env rq HL HB. unfold run_call_env. rewrite HL, HB. reflexivity. Qed.

Lemma run_call_cases : forall f token a n env,
  (exists r, run_call_env f token a n env = mk_obs [] 0 r)
  \/ (exists rq, local_revision f a = None /\ build_request f token a n = Some rq).
Proof.
  intros f token a n env. unfold run_call_env.
  destruct (local_revision f a) as [r|]; [left; eauto|].
  destruct (build_request f token a n) as [rq|]; [right; eauto|left; eauto].
Qed.

(* a request that is not a GET is sent exactly once, whatever the server does *)
Lemma non_get_once : forall f token a n env rq, retry_ok f = true -> of_verb f <> "GET" ->
  local_revision f a = None -> build_request f token a n = Some rq ->
  run_call_env f token a n env = mk_obs [rq] 1 (http_result f token (env 0%nat)).
Proof.
  intros f token a n env rq HR HV HL HB. rewrite (run_call_unfold _ _ _ _ _ _ HL HB).
  unfold do_with_retry. rewrite (should_retry_of_ok f HR).
  destruct (String.eqb (of_verb f) "GET") eqn:E; [apply String.eqb_eq in E; contradiction|].
  rewrite do_once_fresh. reflexivity.
Qed.

Lemma non_get_at_most_once : forall f token a n env, retry_ok f = true -> of_verb f <> "GET" ->
  (length (co_requests (run_call_env f token a n env)) <= 1)%nat
  /\ (co_attempts (run_call_env f token a n env) <= 1)%nat.
Proof.
  intros f token a n env HR HV.
  destruct (run_call_cases f token a n env) as [[r ->]|[rq [HL HB]]]; [simpl; lia|].
  rewrite (non_get_once _ _ _ _ _ _ HR HV HL HB). simpl. lia.
Qed.

(* every call: tries and server-visible requests are bounded *)
Lemma attempts_bounded : forall f token a n env,
  (co_attempts (run_call_env f token a n env) <= Nat.max 1 max_tries)%nat
  /\ (length (co_requests (run_call_env f token a n env)) <= 2 * Nat.max 1 max_tries - 1)%nat.
Proof.
  intros f token a n env.
  destruct (run_call_cases f token a n env) as [[r ->]|[rq [HL HB]]]; [cbn [co_attempts co_requests length]; lia|].
  rewrite (run_call_unfold _ _ _ _ _ _ HL HB). unfold do_with_retry.
  destruct (should_retry (policy_of f) (of_verb f)) as [[|]|]; [| |cbn [co_attempts co_requests length]; lia].
  - destruct (retry_loop (S max_tries) max_tries 0 0 (replayable (of_verb f)) false env) as [r att srv|] eqn:L;
      [|cbn [co_attempts co_requests length]; lia].
    apply retry_loop_bounds in L. cbn [co_attempts co_requests]. rewrite repeat_length. lia.
  - rewrite do_once_fresh. cbn [co_attempts co_requests repeat length]. lia.
Qed.

(* a GET whose first k < max replies fail is retried until reply k, which decides the result *)
Lemma get_retries_until_success : forall f token a n env rq k, retry_ok f = true -> of_verb f = "GET" ->
  local_revision f a = None -> build_request f token a n = Some rq ->
  (k < max_tries)%nat -> (forall i, (i < k)%nat -> failing (env i) = true) -> failing (env k) = false ->
  exists att, run_call_env f token a n env = mk_obs (repeat rq (S k)) att (http_result f token (env k))
              /\ (att <= S k)%nat.
Proof.
  intros f token a n env rq k HR HV HL HB Hk Hf Hok. rewrite (run_call_unfold _ _ _ _ _ _ HL HB).
  unfold do_with_retry. rewrite (should_retry_of_ok f HR), HV. cbn [String.eqb Ascii.eqb Bool.eqb].
  change (String.eqb "GET" "GET") with true. cbv iota.
  destruct (retry_loop_success env k max_tries (replayable "GET") Hk Hf Hok (S max_tries) 0 0 false
              ltac:(lia) ltac:(lia) ltac:(lia)) as [att [-> Ha]].
  exists att. auto.
Qed.

(* ---- the model's escape values are unreachable ---- *)
(* the loop's fuel (max+1) always suffices: doWithRetry never answers out-of-fuel, for any policy, verb and server *)
Lemma do_with_retry_no_oof : forall policy verb env, do_with_retry policy verb env <> Some LOutOfFuel.
Proof.
  intros policy verb env. unfold do_with_retry. destruct (should_retry policy verb) as [[|]|]; [| |discriminate].
  - intro H. apply (retry_loop_fuel (S max_tries) max_tries 0 0 (replayable verb) false env); [lia|lia|].
    congruence.
  - destruct (do_once (replayable verb) false env 0) as [r s]. discriminate.
Qed.

(* the panic branch (a policy shouldRetry does not know) is unreachable for a table whose policies are known *)
Lemma do_with_retry_no_panic : forall f env, retry_ok f = true -> do_with_retry (policy_of f) (of_verb f) env <> None.
Proof.
  intros f env H. unfold do_with_retry. rewrite (should_retry_of_ok f H).
  destruct (String.eqb (of_verb f) "GET"); [discriminate|].
  destruct (do_once (replayable (of_verb f)) false env 0) as [r s]. discriminate.
Qed.

Lemma http_result_no_panic : forall f token r, http_result f token r <> RPanic.
Proof.
  intros f token r. unfold http_result. destruct r as [|s b etag rev]; [discriminate|].
  destruct ((s =? 401) && String.eqb token ""); [discriminate|]. destruct (s =? 429); [discriminate|].
  destruct ((400 <=? s) && (s <=? 599)).
  - unfold decode_error. destruct b; try discriminate. destruct (of_err_resp f); [|discriminate].
    destruct ((code_or_zero code =? 400) && negb (Nat.eqb ndiag 0)); discriminate.
  - unfold decode_ok. destruct (String.eqb (of_resp f) "none"); [discriminate|].
    destruct (String.eqb (of_resp f) "raw").
    + destruct (String.eqb (of_name f) "EnvironmentExists"); [discriminate|]. destruct rev; [|discriminate].
      destruct (String.eqb (of_name f) "GetEnvironment"); [discriminate|].
      destruct (String.eqb (of_name f) "UpdateEnvironmentWithRevision"); discriminate.
    + destruct b; discriminate.
Qed.

Lemma local_revision_no_panic : forall f a r, local_revision f a = Some r -> r <> RPanic.
Proof.
  intros f a r. unfold local_revision. destruct (String.eqb (of_name f) "GetRevisionNumber"); [|discriminate].
  destruct (nth_s 3 a) as [|c v]; [discriminate|]. destruct (is_digit c); [|discriminate].
  destruct (all_chars is_digit (String c v)); [|intro H; injection H as <-; discriminate].
  match goal with |- context [if ?b then _ else _] => destruct b end; intro H; injection H as <-; discriminate.
Qed.

(* every call of the model either sends nothing (answered locally / request cannot be built) or is the loop's result:
   the two zero-request escape branches (out of fuel, unknown policy) never occur *)
Lemma run_call_total : forall f token a n env, retry_ok f = true ->
  (exists r, (local_revision f a = Some r \/ (local_revision f a = None /\ build_request f token a n = None
                                                /\ r = RErr "badreq" 0))
             /\ run_call_env f token a n env = mk_obs [] 0 r)
  \/ (exists rq r att srv, local_revision f a = None /\ build_request f token a n = Some rq
        /\ do_with_retry (policy_of f) (of_verb f) env = Some (LDone r att srv)
        /\ run_call_env f token a n env = mk_obs (repeat rq srv) att (http_result f token r)).
Proof.
  intros f token a n env HR. unfold run_call_env.
  destruct (local_revision f a) as [r|] eqn:L; [left; exists r; auto|].
  destruct (build_request f token a n) as [rq|] eqn:B; [|left; exists (RErr "badreq" 0); auto].
  right. destruct (do_with_retry (policy_of f) (of_verb f) env) as [[r att srv|]|] eqn:D.
  - exists rq, r, att, srv. auto.
  - exfalso. exact (do_with_retry_no_oof _ _ _ D).
  - exfalso. exact (do_with_retry_no_panic f env HR D).
Qed.

Lemma run_call_no_panic : forall f token a n env, retry_ok f = true ->
  co_result (run_call_env f token a n env) <> RPanic.
Proof.
  intros f token a n env HR.
  destruct (run_call_total f token a n env HR) as [(r & [L|(_ & _ & ->)] & ->)|(rq & r & att & srv & _ & _ & _ & ->)];
    cbn [co_result].
  - exact (local_revision_no_panic _ _ _ L).
  - discriminate.
  - apply http_result_no_panic.
Qed.

(* whatever the state of the FIRST connection (fresh, or kept alive by an earlier operation of the same client): at
   most max tries; the server sees at most 2*max requests, and at most 2*max-1 when the first connection is fresh
   (the case [run_call_env] models: every call of the correspondence runs against its own new server) *)
Lemma retry_loop_any_connection : forall fuel max replay reused env r att srv,
  retry_loop fuel max 0 0 replay reused env = LDone r att srv ->
  (att <= Nat.max 1 max)%nat /\ (srv <= 2 * Nat.max 1 max - (if reused then 0 else 1))%nat.
Proof.
  intros fuel max replay reused env r att srv H. apply retry_loop_bounds in H. destruct reused; lia.
Qed.

(* ---- headers ---- *)
Lemma sprintf_token : forall t, sprintf "token %s" [t] = "token " +++ t.
Proof. intro t. cbn. rewrite append_nil_r. reflexivity. Qed.

Lemma headers_ok_parts : headers_ok = true ->
  auth_format = "token %s" /\ (header_is etag_header "ETag" || header_is etag_header "If-Match") = true.
Proof.
  unfold headers_ok; intro H. apply andb_true_iff in H as [H H2]. apply andb_true_iff in H as [H1 _].
  apply String.eqb_eq in H1. auto.
Qed.

Lemma request_headers : forall f token a n rq, headers_ok = true -> build_request f token a n = Some rq ->
  rq_method rq = of_verb f
  /\ (token <> "" -> rq_auth rq = "token " +++ token)
  /\ (forall i, of_tag_param f = Some i -> nth i a "" <> "" ->
        rq_etag rq = nth i a "" \/ rq_ifmatch rq = nth i a "").
Proof.
  intros f token a n rq HH HB. destruct (headers_ok_parts HH) as [HA HE].
  unfold build_request in HB.
  match type of HB with context [if ?c then None else _] => destruct c; [discriminate|] end.
  destruct (wire_target (request_target f a n)) as [t|]; [|discriminate].
  injection HB as <-. cbn [rq_method rq_auth rq_etag rq_ifmatch]. split; [reflexivity|]. split.
  - intro Hne. unfold auth_value. destruct (String.eqb token "") eqn:E; [apply String.eqb_eq in E; contradiction|].
    rewrite HA. apply sprintf_token.
  - intros i Hi _. unfold tag_value, nth_s. rewrite Hi.
    first [ left; reflexivity | right; reflexivity | apply orb_true_iff in HE as [->| ->]; auto ].
Qed.

Lemma requests_all_equal : forall f token a n env rq,
  local_revision f a = None -> build_request f token a n = Some rq ->
  forall r, In r (co_requests (run_call_env f token a n env)) -> r = rq.
Proof.
  intros f token a n env rq HL HB r Hin. rewrite (run_call_unfold _ _ _ _ _ _ HL HB) in Hin.
  destruct (do_with_retry (policy_of f) (of_verb f) env) as [[r0 att srv|]|]; simpl in Hin; try contradiction.
  apply repeat_spec in Hin. exact Hin.
Qed.

(* ---- diagnostics ---- *)
(* the class of the known finding C20-diag-code, exactly: the "code" field of the BODY is absent or differs from 400 *)
Definition kf_diag_code (code : option N) : bool := negb (code_or_zero code =? 400).

(* replies the per-method diagnostics rule never sees: httpCall turns a 429 into "rate limit exceeded" and a 401 of a
   client without a token into "this command requires logging in" before any body is decoded.  These are hypotheses
   of the diagnostics statements (and counted by the correspondence as `diag_outside`), not part of the known class. *)
Definition diag_applicable (status : N) (token : string) : bool :=
  negb (status =? 429) && negb ((status =? 401) && String.eqb token "").

Lemma diagnostics_result : forall f token s code n etag rev,
  of_err_resp f = true -> 400 <= s -> s <= 499 -> n <> 0%nat -> diag_applicable s token = true ->
  kf_diag_code code = false ->
  http_result f token (RpResp s (BJson code n) etag rev) = RDiags n.
Proof.
  intros f token s code n etag rev HE H1 H2 Hn HA HK. unfold kf_diag_code in HK. apply negb_false_iff in HK.
  unfold diag_applicable in HA. apply andb_true_iff in HA as [K2 K3]. apply negb_true_iff in K2, K3.
  unfold http_result. rewrite K3, K2.
  assert (R : ((400 <=? s) && (s <=? 599)) = true).
  { apply andb_true_iff; split; apply N.leb_le; lia. }
  rewrite R. unfold decode_error. rewrite HE, HK.
  destruct (Nat.eqb n 0) eqn:E; [apply Nat.eqb_eq in E; contradiction|]. reflexivity.
Qed.

(* what happens to the intercepted replies, whatever their body *)
Lemma intercepted_result : forall f token s b etag rev, diag_applicable s token = false ->
  http_result f token (RpResp s b etag rev) = RErr "login" 0
  \/ http_result f token (RpResp s b etag rev) = RErr "ratelimit" 0.
Proof.
  intros f token s b etag rev H. unfold diag_applicable in H. unfold http_result.
  destruct ((s =? 401) && String.eqb token ""); [left; reflexivity|].
  destruct (s =? 429); [right; reflexivity|discriminate H].
Qed.

(* ---------------------------------------------------------------------------------------------- *)
(* statements over the extracted table (side conditions are computed in Properties/C20.v) *)
Definition table_ok : bool :=
  forallb op_shape_ok client_ops && resolve_ok && forallb retry_ok client_ops && headers_ok
  && forallb (fun f => negb (of_err_resp f) || negb (String.eqb (of_verb f) "GET")) client_ops.

Lemma table_ok_parts : table_ok = true ->
  forallb op_shape_ok client_ops = true /\ resolve_ok = true /\ forallb retry_ok client_ops = true
  /\ headers_ok = true
  /\ forallb (fun f => negb (of_err_resp f) || negb (String.eqb (of_verb f) "GET")) client_ops = true.
Proof.
  unfold table_ok; intro H. apply andb_true_iff in H as [H H5]. apply andb_true_iff in H as [H H4].
  apply andb_true_iff in H as [H H3]. apply andb_true_iff in H as [H1 H2]. auto.
Qed.

Section Table.
Hypothesis HT : table_ok = true.
Variable f : op_fact.
Hypothesis Hin : In f client_ops.

Let HS : op_shape_ok f = true := in_table_ok _ f (proj1 (table_ok_parts HT)) Hin.
Let HRes : resolve_ok = true := proj1 (proj2 (table_ok_parts HT)).
Let HRetry : retry_ok f = true := in_table_ok _ f (proj1 (proj2 (proj2 (table_ok_parts HT)))) Hin.
Let HHdr : headers_ok = true := proj1 (proj2 (proj2 (proj2 (table_ok_parts HT)))).

Lemma t_target_identity : forall a n, names_ok f a = true ->
  request_target f a n = op_path f (effective_args f a) (flag_of f n) +++ query_string (of_query f) (query_values f a n)
  /\ wire_target (request_target f a n) = Some (request_target f a n).
Proof. exact (target_identity_op f HRes HS). Qed.

Lemma t_path_injective : forall a a' n n', names_ok f a = true -> names_ok f a' = true ->
  request_target f a n = request_target f a' n' ->
  (forall i, In (HParam i) (of_holes f) -> nth i (effective_args f a) "" = nth i (effective_args f a') "")
  /\ (of_flag_suffix f <> "" -> flag_of f n = flag_of f n')
  /\ query_string (of_query f) (query_values f a n) = query_string (of_query f) (query_values f a' n').
Proof.
  intros a a' n n' H1 H2 E. destruct (target_injective f HRes HS a a' n n' H1 H2 E) as (A & B & C0).
  split; [|auto]. intros i Hi. exact (hole_values_params _ _ _ A i Hi).
Qed.

Lemma t_builds : forall token a n, names_ok f a = true ->
  exists rq, build_request f token a n = Some rq /\ rq_target rq = request_target f a n.
Proof.
  intros token a n HN. destruct (t_target_identity a n HN) as [T W].
  assert (E : String.eqb (request_target f a n) (raw_target f a n) = true) by (apply String.eqb_eq; exact T).
  unfold build_request. rewrite E. cbn [negb]. rewrite andb_false_r, W.
  eexists. split; reflexivity.
Qed.

Lemma t_carries : forall token a n env r, In r (co_requests (run_call_env f token a n env)) ->
  rq_method r = of_verb f
  /\ wire_target (request_target f a n) = Some (rq_target r)
  /\ (token <> "" -> rq_auth r = "token " +++ token)
  /\ (forall i, of_tag_param f = Some i -> nth i a "" <> "" -> rq_etag r = nth i a "" \/ rq_ifmatch r = nth i a "").
Proof.
  intros token a n env r Hr.
  destruct (run_call_cases f token a n env) as [[x Hx]|[rq [HL HB]]]; [rewrite Hx in Hr; destruct Hr|].
  rewrite (requests_all_equal _ _ _ _ _ _ HL HB r Hr).
  destruct (request_headers _ _ _ _ _ HHdr HB) as (A & B & C0).
  split; [exact A|]. split; [|auto].
  unfold build_request in HB.
  match type of HB with context [if ?c then None else _] => destruct c; [discriminate|] end.
  destruct (wire_target (request_target f a n)); [|discriminate].
  injection HB as <-. reflexivity.
Qed.

Lemma t_non_get_once : of_verb f <> "GET" -> forall token a n env,
  (length (co_requests (run_call_env f token a n env)) <= 1)%nat
  /\ (co_attempts (run_call_env f token a n env) <= 1)%nat
  /\ (names_ok f a = true -> local_revision f a = None ->
      exists rq, run_call_env f token a n env = mk_obs [rq] 1 (http_result f token (env 0%nat))).
Proof.
  intros HV token a n env. destruct (non_get_at_most_once f token a n env HRetry HV) as [A B].
  split; [exact A|]. split; [exact B|]. intros HN HL.
  destruct (t_builds token a n HN) as [rq [HB _]]. exists rq. exact (non_get_once _ _ _ _ _ _ HRetry HV HL HB).
Qed.

Lemma t_get_retries : of_verb f = "GET" -> forall token a n env k,
  names_ok f a = true -> local_revision f a = None -> (k < max_tries)%nat ->
  (forall i, (i < k)%nat -> failing (env i) = true) -> failing (env k) = false ->
  exists att rq, run_call_env f token a n env = mk_obs (repeat rq (S k)) att (http_result f token (env k))
                 /\ (att <= S k)%nat /\ rq_target rq = request_target f a n.
Proof.
  intros HV token a n env k HN HL Hk Hf Hok. destruct (t_builds token a n HN) as [rq [HB HTg]].
  destruct (get_retries_until_success _ _ _ _ _ _ k HRetry HV HL HB Hk Hf Hok) as [att [E Ha]].
  exists att, rq. auto.
Qed.

Lemma t_diagnostics : of_err_resp f = true -> forall token a n env s code nd etag rev,
  names_ok f a = true -> local_revision f a = None ->
  env 0%nat = RpResp s (BJson code nd) etag rev -> 400 <= s -> s <= 499 -> nd <> 0%nat ->
  diag_applicable s token = true -> kf_diag_code code = false ->
  co_result (run_call_env f token a n env) = RDiags nd
  /\ length (co_requests (run_call_env f token a n env)) = 1%nat.
Proof.
  intros HE token a n env s code nd etag rev HN HL E0 H1 H2 Hn HA HK.
  assert (HV : of_verb f <> "GET").
  { pose proof (in_table_ok _ f (proj2 (proj2 (proj2 (proj2 (table_ok_parts HT))))) Hin) as H.
    cbv beta in H. rewrite HE in H. simpl in H. apply negb_true_iff in H. intro E. rewrite E in H. discriminate. }
  destruct (t_non_get_once HV token a n env) as (_ & _ & H). destruct (H HN HL) as [rq ->].
  cbn [co_result co_requests length]. rewrite E0. split; [|reflexivity].
  apply diagnostics_result; assumption.
Qed.
End Table.

Definition dummy_op : op_fact := mk_op "" "" false "" [] [] "" "" [] "" false None "" "".
Definition op_named (name : string) : op_fact :=
  match find_op name client_ops with Some f => f | None => dummy_op end.

Lemma find_op_in : forall name l f, find_op name l = Some f -> In f l.
Proof.
  induction l as [|x l IH]; simpl; intros f H; [discriminate|].
  destruct (String.eqb (of_name x) name); [injection H as <-; auto|auto].
Qed.

(* the unqualified statement "a 4xx reply whose body carries diagnostics is returned as diagnostics" *)
Definition diagnostics_full_statement : Prop :=
  forall f, In f client_ops -> of_err_resp f = true -> forall token a n env s code nd etag rev,
    names_ok f a = true -> local_revision f a = None ->
    env 0%nat = RpResp s (BJson code nd) etag rev -> 400 <= s -> s <= 499 -> nd <> 0%nat ->
    diag_applicable s token = true ->
    co_result (run_call_env f token a n env) = RDiags nd.

Lemma diagnostics_full_refuted : ~ diagnostics_full_statement.
Proof.
  intro H.
  assert (Hin : In (op_named "UpdateEnvironmentWithRevision") client_ops).
  { apply (find_op_in "UpdateEnvironmentWithRevision"). vm_compute. reflexivity. }
  specialize (H _ Hin eq_refl "tok" ["org"; "proj"; "env"; ""] [] (fun _ => RpResp 400 (BJson None 1) "" None)
                400 None 1%nat "" None eq_refl eq_refl eq_refl).
  assert (A : 400 <= 400) by lia. specialize (H A). assert (B : 400 <= 499) by lia. specialize (H B).
  specialize (H ltac:(discriminate) eq_refl). vm_compute in H. discriminate H.
Qed.

(* ---------------------------------------------------------------------------------------------- *)
(* sequences on one client instance: the observation of an operation is that of the operation alone, whatever ran
   before or after it; in particular its requests carry exactly its own tag *)
Lemma run_sequence_nth : forall token pre c post,
  nth_error (run_sequence token (pre ++ c :: post)) (length pre) = Some (run_op token c).
Proof.
  intros token pre c post. unfold run_sequence. rewrite map_app. cbn [map].
  rewrite nth_error_app2; rewrite map_length; [|apply Nat.le_refl]. rewrite Nat.sub_diag. reflexivity.
Qed.

Lemma request_tag_exact : forall f token a n rq, headers_ok = true -> build_request f token a n = Some rq ->
  (rq_etag rq = tag_value f a /\ rq_ifmatch rq = "") \/ (rq_etag rq = "" /\ rq_ifmatch rq = tag_value f a).
Proof.
  intros f token a n rq HH HB. destruct (headers_ok_parts HH) as [_ HE].
  unfold build_request in HB.
  match type of HB with context [if ?c then None else _] => destruct c; [discriminate|] end.
  destruct (wire_target (request_target f a n)) as [t|]; [|discriminate].
  injection HB as <-. cbn [rq_etag rq_ifmatch].
  first [ left; split; reflexivity | right; split; reflexivity
        | destruct (header_is etag_header "ETag") eqn:E1, (header_is etag_header "If-Match") eqn:E2;
          try discriminate HE; auto; destruct (tag_value f a); auto ].
Qed.

Lemma sequence_requests_independent : headers_ok = true -> forall token pre c post,
  nth_error (run_sequence token (pre ++ c :: post)) (length pre)
    = Some (run_call_env (oc_fact c) token (oc_args c) (oc_nums c) (oc_env c))
  /\ forall r, In r (co_requests (run_call_env (oc_fact c) token (oc_args c) (oc_nums c) (oc_env c))) ->
       (rq_etag r = tag_value (oc_fact c) (oc_args c) /\ rq_ifmatch r = "")
       \/ (rq_etag r = "" /\ rq_ifmatch r = tag_value (oc_fact c) (oc_args c)).
Proof.
  intros HH token pre c post. split; [exact (run_sequence_nth token pre c post)|].
  intros r Hr.
  destruct (run_call_cases (oc_fact c) token (oc_args c) (oc_nums c) (oc_env c)) as [[x Hx]|[rq [HL HB]]];
    [rewrite Hx in Hr; destruct Hr|].
  rewrite (requests_all_equal _ _ _ _ _ _ HL HB r Hr). exact (request_tag_exact _ _ _ _ _ HH HB).
Qed.
