(* Proofs/BuiltinsLaws.v — C02, second half: the COMPOSED laws and the string form, at the level of eval_env.
   fn::fromJSON(fn::toJSON e) exports what e denotes; fn::open of an echo / constant provider; fn::toString in terms
   of the model's [to_string] (own keys of the top layer: known finding C02-tostring, with an evaluator-level
   witness). *)
From Verif Require Import Base.Bytes Model.Chain Model.GoText Model.Envelope Model.Eval
  Proofs.EvalTotalBase Proofs.EvalTotalInv Proofs.EvalTotalOrder Proofs.EvalTotalSyntax Proofs.EvalTotalFail
  Proofs.EvalTotalRecover Proofs.EvalTotalBound
  Proofs.ChainAlgebraSorted Proofs.ChainAlgebraExport Proofs.RefSemAccess Proofs.RefSemWf Proofs.RefSemMemo
  Proofs.RefSem Proofs.RefSemSorted Proofs.RefSemMain
  Proofs.BuiltinsKit Proofs.BuiltinsMemo Proofs.BuiltinsValidate Proofs.BuiltinsSpec Proofs.BuiltinsDen
  Proofs.BuiltinsMain Proofs.BuiltinsJson.
From Verif Require Proofs.GoTextProofs Corr.C02.
From Coq Require Import Lia.

Section LAWS.
Variable W : world.
Variables (fuel : nat) (root name : string) (d : envdef).
Notation r := (eval_env W fuel root name d st0).
Hypothesis Hn : nerr (snd r) = 0.
Hypothesis Ho : oof (snd r) = false.

Section KNOWN.
Hypothesis Hkn : cknown (fst r) = true.
Variable xv : xval.
Hypothesis Hx : export big_fuel (fst r) = Some xv.
Notation dn := (den W name xv).

(* COMPOSED LAW: k: {fn::fromJSON: {fn::toJSON: e}} exports the value e denotes — on the class of the text-level
   round trip (7-bit text, JSON number literals, sorted keys) and for values without secrets (a secret anywhere
   makes the whole result secret: see spec_fromjson / x_reflag) *)
Theorem fromjson_tojson_denotes k e v :
  alookup k (ed_values d) = Some (EFromJSON (EToJSON e)) -> reserved k = false -> property k (tl (fst r)) = [] ->
  dn e = Some v ->
  x_has_unknown v = false -> x_has_secret v = false -> (x_depth v <= big_fuel)%nat ->
  let j := x_to_json (S (x_depth v)) v in
  json_all_ascii (S (json_depth j)) j = true -> GoTextProofs.json_numbers_ok (S (json_depth j)) j = true ->
  GoTextProofs.json_sorted (S (json_depth j)) j = true ->
  export big_fuel (property k (fst r)) = Some v.
Proof.
  intros Hk Hres Hb Hd Hu Hs Hdp j Ha Hnum Hso.
  destruct (spec_fromjson_tojson v Hu Hs Hdp Ha Hnum Hso) as (t & Ht & Hf).
  apply (builtin_denotes W fuel root name d k (EFromJSON (EToJSON e)) Hn Ho Hk Hres Hkn xv Hx v).
  - cbn [den]. rewrite Hd. cbn [bindo]. rewrite Ht. cbn [bindo]. exact Hf.
  - left. exact Hb.
Qed.

(* fn::open of an echo provider gives back its inputs, of a constant provider its constant (as single-layer values:
   secrecy of a composite pushed down to its members) *)
Theorem open_echo_denotes k pname p e xin :
  alookup k (ed_values d) = Some (EOpen pname e) -> reserved k = false -> property k (tl (fst r)) = [] ->
  alookup pname (w_provs W) = Some p -> pv_in p = InAlways -> pv_beh p = PEcho -> w_check W = false ->
  dn e = Some xin -> (exists s u m, xin = XObj s u m) ->
  x_has_unknown xin = false -> xsorted xin = true -> (x_depth xin <= big_fuel)%nat ->
  export big_fuel (property k (fst r)) = Some (x_inherit false xin).
Proof.
  intros Hk Hres Hb Hp Hin Hbeh Hchk Hd (s & u & m & ->) Hu Hs Hdp.
  apply (open_denotes W fuel root name d Hn Ho Hkn xv Hx k pname e (XObj s u m)); try assumption.
  unfold spec_open. rewrite Hp, Hin, Hchk, Hu. apply Nat.leb_le in Hdp. rewrite Hdp. cbn [orb negb].
  unfold prov_out. rewrite Hbeh. apply Nat.leb_le in Hdp. apply export_unexport; [assumption|lia|assumption].
Qed.

Theorem open_const_denotes k pname p e xin cv :
  alookup k (ed_values d) = Some (EOpen pname e) -> reserved k = false -> property k (tl (fst r)) = [] ->
  alookup pname (w_provs W) = Some p -> pv_in p = InAlways -> pv_beh p = PConst cv -> w_check W = false ->
  dn e = Some xin -> (exists s u m, xin = XObj s u m) ->
  x_has_unknown xin = false -> (x_depth xin <= big_fuel)%nat ->
  xsorted cv = true -> (x_depth cv <= big_fuel)%nat ->
  export big_fuel (property k (fst r)) = Some (x_inherit false cv).
Proof.
  intros Hk Hres Hb Hp Hin Hbeh Hchk Hd (s & u & m & ->) Hu Hdp Hs Hdc.
  apply (open_denotes W fuel root name d Hn Ho Hkn xv Hx k pname e (XObj s u m)); try assumption.
  unfold spec_open. rewrite Hp, Hin, Hchk, Hu. apply Nat.leb_le in Hdp. rewrite Hdp. cbn [orb negb].
  unfold prov_out. rewrite Hbeh. apply export_unexport; [assumption|lia|assumption].
Qed.

End KNOWN.

(* ---------------- fn::toString, on the chain ---------------- *)
Lemma to_string_head f l c b : to_string f ((l :: c) ++ b) = to_string f (l :: c).
Proof. destruct f; reflexivity. Qed.

(* the string form shown at k is the model's to_string of the memoised value of the argument — no knownness needed *)
Theorem tostring_chain_denotes k e :
  alookup k (ed_values d) = Some (EToString e) -> reserved k = false ->
  exists va, done (memo (snd r)) (name, [IKey k; IIdx 0]) = Some va /\
    forall s sec, to_string (ts_need va) va = (s, false, sec) ->
      export big_fuel (property k (fst r)) = Some (XScalar sec false (SStr s)).
Proof.
  intros Hk Hres. destruct fuel as [|f]; [discriminate Ho|].
  assert (Hc : clean (snd (eval_env W (S f) root name d st0))) by (split; assumption).
  destruct (final_state W f root name d st0 (untouched_st0 name) Hc) as (HQ & Hd & props & Hv & Hkeys & Hprops).
  pose proof (final_builtins W f root name d st0 (untouched_st0 name) Hc) as HQB.
  set (E := env_E W f root name d st0) in *.
  assert (Hal : alookup k (ec_values E) = Some (EToString e)).
  { change (ec_values E) with (filter (fun kv => negb (reserved (fst kv))) (ed_values d)).
    rewrite (alookup_filter_key (fun k => negb (reserved k))); [exact Hk|rewrite Hres; reflexivity]. }
  assert (Hin : In k (map fst props)).
  { rewrite Hkeys. apply (proj2 (proj2 (declared_keys_of_spec (ec_values E)))).
    apply alookup_in in Hal. apply (in_map fst) in Hal. exact Hal. }
  apply alookup_Some_In in Hin. destruct Hin as [Vk HVk]. pose proof (Hprops _ _ HVk) as Hdk.
  assert (Hat0 : at_id E (name, []) (root_of E)) by (split; reflexivity).
  assert (Hatk : at_id E (name, [IKey k]) (EToString e)) by (apply (at_id_child E (name, []) (root_of E) (IKey k) _ Hat0 Hal)).
  destruct (HQB _ _ _ Hatk Hdk) as (X & HX & HB).
  assert (Hps : psec E [IKey k] = false) by (apply (psec_child E (name, []) (root_of E) (IKey k) Hat0)).
  cbn [snd] in HB. rewrite Hps in HB. cbn [BPost] in HB.
  destruct HB as (va & Hda & ->). exists va. split; [exact Hda|].
  intros s sec Hts. rewrite Hv. unfold obj_layer. cbn [property]. rewrite HVk, HX.
  unfold tostring_post. rewrite Hts. apply export_scalar_top. destruct big_fuel_S as [g ->]. discriminate.
Qed.

(* for fn::toString: ${k1} with k1 a key of the environment: the argument's value is the value stored for k1 — the
   chain whose top layers, over what k1 inherits, make up the value shown at k1 *)
Theorem tostring_of_key_denotes k a k1 e1 :
  alookup k (ed_values d) = Some (EToString (ESym [a])) -> reserved k = false ->
  object_key a = Some k1 -> reserved k1 = false -> alookup k1 (ed_values d) = Some e1 ->
  exists va, property k1 (fst r) = va ++ property k1 (tl (fst r)) /\
    forall s sec, to_string (ts_need va) va = (s, false, sec) ->
      export big_fuel (property k (fst r)) = Some (XScalar sec false (SStr s)).
Proof.
  intros Hk Hres Ha Hres1 Hk1.
  destruct (tostring_chain_denotes k (ESym [a]) Hk Hres) as (va & Hda & Hconc).
  exists va. split; [|exact Hconc]. clear Hconc.
  destruct fuel as [|f]; [discriminate Ho|].
  assert (Hc : clean (snd (eval_env W (S f) root name d st0))) by (split; assumption).
  destruct (final_state W f root name d st0 (untouched_st0 name) Hc) as (HQ & Hd & props & Hv & Hkeys & Hprops).
  set (E := env_E W f root name d st0) in *.
  assert (Hal : alookup k (ec_values E) = Some (EToString (ESym [a]))).
  { change (ec_values E) with (filter (fun kv => negb (reserved (fst kv))) (ed_values d)).
    rewrite (alookup_filter_key (fun k => negb (reserved k))); [exact Hk|rewrite Hres; reflexivity]. }
  assert (Hal1 : alookup k1 (ec_values E) = Some e1).
  { change (ec_values E) with (filter (fun kv => negb (reserved (fst kv))) (ed_values d)).
    rewrite (alookup_filter_key (fun k => negb (reserved k))); [exact Hk1|rewrite Hres1; reflexivity]. }
  assert (Hat0 : at_id E (name, []) (root_of E)) by (split; reflexivity).
  assert (Hatk : at_id E (name, [IKey k]) (EToString (ESym [a]))) by (apply (at_id_child E (name, []) (root_of E) (IKey k) _ Hat0 Hal)).
  assert (Hata : at_id E (name, [IKey k; IIdx 0]) (ESym [a])) by (apply (at_id_child E (name, [IKey k]) _ (IIdx 0) _ Hatk eq_refl)).
  destruct (HQ _ _ _ Hata Hda) as [_ (w & Hw & Hvw)].
  change (xbof E (name, [IKey k; IIdx 0])) with (@nil layer) in Hvw. rewrite app_nil_r in Hvw. subst w.
  unfold aresolve in Hw. rewrite Ha in Hw. unfold reserved in Hres1. apply orb_false_iff in Hres1. destruct Hres1 as [H1 H2].
  rewrite H1, H2 in Hw. cbn [resolve root_of] in Hw. rewrite Ha in Hw.
  pose proof (find_entry_alookup k1 (ec_values E) 0%nat) as Hfe. rewrite Hal1 in Hfe.
  destruct (find_entry k1 (ec_values E) 0%nat) as [[j px]|]; [|discriminate Hfe]. cbn [option_map snd] in Hfe.
  injection Hfe as ->. cbn [resolve] in Hw.
  assert (Hin1 : In k1 (map fst props)).
  { rewrite Hkeys. apply (proj2 (proj2 (declared_keys_of_spec (ec_values E)))).
    apply alookup_in in Hal1. apply (in_map fst) in Hal1. exact Hal1. }
  apply alookup_Some_In in Hin1. destruct Hin1 as [V1 HV1]. pose proof (Hprops _ _ HV1) as Hd1.
  change (fst (ec_name E, @nil idstep), snd (ec_name E, @nil idstep) ++ [IKey k1]) with (name, [IKey k1]) in Hw.
  rewrite Hd1 in Hw. injection Hw as <-.
  rewrite Hv. unfold obj_layer. cbn [property tl]. rewrite HV1. reflexivity.
Qed.

End LAWS.

(* ---------------- the known finding C02-tostring, at the level of the evaluator ---------------- *)
(* "the string form describes the same value (inherited properties included) that fn::toJSON and the result show":
   as a statement about every diagnostic-free program it is FALSE of the model (and of the implementation) *)
Definition tostring_shows_merged_statement : Prop :=
  forall W fuel root name d k a k1 e1,
  let r := eval_env W fuel root name d st0 in
  nerr (snd r) = 0 -> oof (snd r) = false -> cknown (fst r) = true ->
  alookup k (ed_values d) = Some (EToString (ESym [a])) -> reserved k = false ->
  object_key a = Some k1 -> reserved k1 = false -> alookup k1 (ed_values d) = Some e1 ->
  forall x1, export big_fuel (property k1 (fst r)) = Some x1 ->
  exists sec, export big_fuel (property k (fst r))
              = Some (XScalar sec false (SStr (Corr.C02.jstring (S (x_depth x1)) (x_to_json (S (x_depth x1)) x1)))).

(* base:  o: {b: "2"}        e (imports base):  o: {a: "1"}   t: {fn::toString: ${o}}   j: {fn::toJSON: ${o}} *)
Definition ts_world : world :=
  {| w_envs := [("base", LoadOk {| ed_imports := []; ed_values := [("o", EObj [("b", EStr "2")])] |})];
     w_provs := []; w_ctx := []; w_check := false; w_show := false; w_fault := None; w_decrypt := fun _ _ => None |}.
Definition ts_def : envdef :=
  {| ed_imports := [("base", true)];
     ed_values := [("o", EObj [("a", EStr "1")]);
                   ("t", EToString (ESym [AName "o"]));
                   ("j", EToJSON (ESym [AName "o"]))] |}.
Notation ts_run := (eval_env ts_world 40 "" "e" ts_def st0).

Lemma ts_run_facts :
  nerr (snd ts_run) = 0 /\ oof (snd ts_run) = false /\ cknown (fst ts_run) = true /\
  export big_fuel (property "o" (fst ts_run))
    = Some (XObj false false [("a", XScalar false false (SStr "1")); ("b", XScalar false false (SStr "2"))]) /\
  export big_fuel (property "t" (fst ts_run)) = Some (XScalar false false (SStr """a""=""1""")) /\
  export big_fuel (property "j" (fst ts_run)) = Some (XScalar false false (SStr "{""a"":""1"",""b"":""2""}")).
Proof. vm_compute. repeat split; reflexivity. Qed.

Theorem tostring_shows_merged_refuted : ~ tostring_shows_merged_statement.
Proof.
  intro H. destruct ts_run_facts as (H1 & H2 & H3 & H4 & H5 & _).
  pose proof (H ts_world 40%nat ""%string "e"%string ts_def "t"%string (AName "o") "o"%string (EObj [("a", EStr "1")])) as H'.
  cbv zeta in H'. specialize (H' H1 H2 H3 eq_refl eq_refl eq_refl eq_refl eq_refl _ H4). destruct H' as [sec Hs].
  rewrite H5 in Hs. clear -Hs.
  assert (E : Corr.C02.jstring 3 (x_to_json 3 (XObj false false [("a", XScalar false false (SStr "1")); ("b", XScalar false false (SStr "2"))]))
              = """a""=""1"",""b""=""2"""%string) by (vm_compute; reflexivity).
  change (S (x_depth (XObj false false [("a", XScalar false false (SStr "1")); ("b", XScalar false false (SStr "2"))]))) with 3%nat in Hs.
  rewrite E in Hs. discriminate Hs.
Qed.
