(* Proofs/EvalSrcDeclare.v -- decides [eval_src_declare_ok] (defined in Proofs/EvalSrc.v) on today's coq/Src/SrcEval.v.
   The [same_*] lemmas come first so that a failing build names the table and prints the entries that differ. *)
From Verif Require Import Base.Bytes Model.Chain Model.GoText Model.Eval Src.SrcEval Proofs.EvalSrc.

Lemma same_evaluate : table_diff ev_evaluate exp_evaluate = [].
Proof. vm_compute. reflexivity. Qed.
Lemma same_declare : table_diff ev_declare exp_declare = [].
Proof. vm_compute. reflexivity. Qed.

Lemma eval_src_declare_ok_true : eval_src_declare_ok = true.
Proof. vm_compute. reflexivity. Qed.
