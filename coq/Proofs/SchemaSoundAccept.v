(* Proofs/SchemaSoundAccept.v — C06, schema clause: basic facts about the acceptance relation [sch_accepts]
   (Proofs/CheckApproxExamples.v): unfolding lemmas, pointwise characterisation of the tuple loop, monotonicity
   in the fuel, the fuel that suffices for schemas without oneOf, and the two classes of provider output schemas
   used by the partial theorem ([sch_ok]: no open record / open array; [of_free]: no oneOf). *)
From Verif Require Import Base.Bytes Base.Wire Model.Chain Model.GoText Model.Envelope Model.Eval Corr.EvalWire.
From Verif Require Corr.C06.
From Verif Require Import Proofs.NonInterferenceRel Proofs.NonInterferenceOps Proofs.CheckApproxExamples.
From Coq Require Import Lia ZifyN ZifyNat ZifyBool.

(* ---------------- twins of the two inner loops of [sch_accepts] ---------------- *)
Definition acc_items (f : nat) (items : option sch) : list sch -> list xval -> bool :=
  fix go (ps : list sch) (l : list xval) : bool :=
    match l with
    | [] => true
    | x :: r => match ps with
                | p :: ps' => sch_accepts f p x && go ps' r
                | [] => match items with Some i => forallb (sch_accepts f i) l | None => true end
                end
    end.

Definition acc_props (f : nat) (props : list (string * sch)) (addl : option sch) (kv : string * xval) : bool :=
  match alookup (fst kv) props with
  | Some p => sch_accepts f p (snd kv)
  | None => match addl with Some a => sch_accepts f a (snd kv) | None => true end
  end.

Lemma sch_accepts_S f s v :
  sch_accepts (S f) s v =
  if C06.x_unk v then true else
  match s with
  | ScAlways => true
  | ScNever => false
  | ScType t => match v with XScalar _ _ x => String.eqb (scalar_type x) t | _ => false end
  | ScArray prefix items => match v with XArr _ _ l => acc_items f items prefix l | _ => false end
  | ScObject props addl => match v with XObj _ _ m => forallb (acc_props f props addl) m | _ => false end
  | ScOneOf alts => existsb (fun a => sch_accepts f a v) alts
  end.
Proof. reflexivity. Qed.

Lemma sch_accepts_O s v : sch_accepts O s v = false.
Proof. reflexivity. Qed.

(* the schema an array element at index i has to satisfy; None = unconstrained *)
Definition item_sch (prefix : list sch) (items : option sch) (i : nat) : option sch :=
  match nth_error prefix i with Some p => Some p | None => items end.

(* the schema the value of key k has to satisfy; None = unconstrained *)
Definition prop_sch (props : list (string * sch)) (addl : option sch) (k : string) : option sch :=
  match alookup k props with Some p => Some p | None => addl end.

Definition opt_acc (f : nat) (o : option sch) (v : xval) : bool :=
  match o with Some p => sch_accepts f p v | None => true end.

Lemma acc_props_eq f props addl kv : acc_props f props addl kv = opt_acc f (prop_sch props addl (fst kv)) (snd kv).
Proof. unfold acc_props, prop_sch, opt_acc. destruct (alookup (fst kv) props); [reflexivity|]. destruct addl; reflexivity. Qed.

Lemma acc_items_spec f items : forall prefix l,
  acc_items f items prefix l = true <->
  (forall i x, nth_error l i = Some x -> opt_acc f (item_sch prefix items i) x = true).
Proof.
  intros prefix l; revert prefix. induction l as [|x r IH]; intros prefix.
  - split; [intros _ [|i] y E; discriminate|destruct prefix; reflexivity].
  - destruct prefix as [|p ps].
    + cbn [acc_items]. unfold item_sch. destruct items as [it|].
      * split.
        -- intros H i y E. rewrite forallb_forall in H. destruct i; simpl; apply H; eapply nth_error_In; exact E.
        -- intros H. apply forallb_forall. intros y Hy. apply In_nth_error in Hy. destruct Hy as [i E].
           specialize (H i y E). destruct i; simpl in H; exact H.
      * split; [|reflexivity]. intros _ i y E. destruct i; reflexivity.
    + cbn [acc_items]. rewrite Bool.andb_true_iff, IH. split.
      * intros [H1 H2] [|i] y E; simpl in E.
        -- injection E as <-. exact H1.
        -- apply (H2 i y E).
      * intros H. split; [apply (H O x eq_refl)|]. intros i y E. apply (H (S i) y E).
Qed.

(* ---------------- monotone in the fuel ---------------- *)
Lemma opt_acc_mono f o v : (forall s v, sch_accepts f s v = true -> sch_accepts (S f) s v = true) ->
  opt_acc f o v = true -> opt_acc (S f) o v = true.
Proof. intros IH. destruct o; cbn [opt_acc]; auto. Qed.

Theorem sch_accepts_mono n : forall s v, sch_accepts n s v = true -> sch_accepts (S n) s v = true.
Proof.
  induction n as [|n IH]; intros s v H; [discriminate|].
  rewrite (sch_accepts_S (S n)). rewrite (sch_accepts_S n) in H.
  destruct (C06.x_unk v); [reflexivity|]. destruct s; try exact H.
  - destruct v; try exact H. rewrite acc_items_spec in *. intros i x E. apply opt_acc_mono; auto.
  - destruct v; try exact H. rewrite forallb_forall in *. intros kv Hkv. specialize (H kv Hkv).
    rewrite acc_props_eq in *. apply opt_acc_mono; auto.
  - rewrite existsb_exists in *. destruct H as (a & Ha & Hv). exists a. split; auto.
Qed.

Theorem sch_accepts_le n m s v : (n <= m)%nat -> sch_accepts n s v = true -> sch_accepts m s v = true.
Proof. induction 1; auto using sch_accepts_mono. Qed.

(* accepted with enough fuel *)
Definition accepts (s : sch) (v : xval) : Prop := exists n, sch_accepts n s v = true.

Lemma accepts_unk s v : C06.x_unk v = true -> accepts s v.
Proof. intros H. exists 1%nat. rewrite sch_accepts_S, H. reflexivity. Qed.

Lemma accepts_always v : accepts ScAlways v.
Proof. exists 1%nat. rewrite sch_accepts_S. destruct (C06.x_unk v); reflexivity. Qed.

Lemma sch_accepts_unk n s v : C06.x_unk v = true -> sch_accepts (S n) s v = true.
Proof. intros H. now rewrite sch_accepts_S, H. Qed.

(* finitely many acceptances share one fuel *)
Lemma accepts_all {A} (P : A -> sch) (Q : A -> xval) (l : list A) :
  (forall a, In a l -> accepts (P a) (Q a)) -> exists n, forall a, In a l -> sch_accepts n (P a) (Q a) = true.
Proof.
  induction l as [|a l IH]; intros H; [exists O; intros ? []|].
  destruct IH as [n Hn]; [intros; apply H; now right|]. destruct (H a (or_introl eq_refl)) as [m Hm].
  exists (Nat.max n m). intros b [<-|Hb].
  - eapply sch_accepts_le; [|exact Hm]. lia.
  - eapply sch_accepts_le; [|apply Hn, Hb]. lia.
Qed.

(* ---------------- classes of (provider output) schemas ---------------- *)
(* no open record (additionalProperties absent) and no open array (items absent), hereditarily: for such schemas
   Property / Item never answer "never" for a position the schema leaves unconstrained *)
Fixpoint sch_ok (s : sch) : bool :=
  match s with
  | ScArray p (Some i) => forallb sch_ok p && sch_ok i
  | ScArray _ None => false
  | ScObject ps (Some a) => forallb (fun kv => sch_ok (snd kv)) ps && sch_ok a
  | ScObject _ None => false
  | ScOneOf alts => forallb sch_ok alts
  | _ => true
  end.

(* no oneOf, hereditarily *)
Fixpoint of_free (s : sch) : bool :=
  match s with
  | ScArray p i => forallb of_free p && match i with Some i => of_free i | None => true end
  | ScObject ps a => forallb (fun kv => of_free (snd kv)) ps && match a with Some a => of_free a | None => true end
  | ScOneOf _ => false
  | _ => true
  end.

(* [good false]: sch_ok;  [good true]: sch_ok and without oneOf *)
Definition good (strict : bool) (s : sch) : bool := sch_ok s && (negb strict || of_free s).

Lemma good_always b : good b ScAlways = true.
Proof. destruct b; reflexivity. Qed.
Lemma good_never b : good b ScNever = true.
Proof. destruct b; reflexivity. Qed.
Lemma good_type b t : good b (ScType t) = true.
Proof. destruct b; reflexivity. Qed.

Lemma alookup_In' {A} k (m : list (string * A)) v : alookup k m = Some v -> In (k, v) m.
Proof.
  induction m as [|[k' v'] m IH]; simpl; [discriminate|]. destruct (String.eqb k k') eqn:E.
  - apply String.eqb_eq in E. subst. intros H; injection H as ->. now left.
  - intros H. right. auto.
Qed.

Lemma good_item b prefix items i p : good b (ScArray prefix items) = true -> item_sch prefix items i = Some p -> good b p = true.
Proof.
  unfold good, item_sch. intros H E. apply andb_prop in H. destruct H as [H1 H2]. cbn [sch_ok of_free] in *.
  destruct items as [it|]; [|discriminate]. apply andb_prop in H1. destruct H1 as [P1 P2].
  assert (H2' : negb b = true \/ (forallb of_free prefix = true /\ of_free it = true)).
  { destruct b; simpl in *; [right; now apply andb_prop in H2|now left]. }
  destruct (nth_error prefix i) as [q|] eqn:N.
  - injection E as <-. apply nth_error_In in N. rewrite forallb_forall in P1. rewrite (P1 _ N). simpl.
    destruct H2' as [->|[Q _]]; [reflexivity|]. rewrite forallb_forall in Q. rewrite (Q _ N). apply Bool.orb_true_r.
  - injection E as <-. rewrite P2. simpl. destruct H2' as [->|[_ ->]]; [reflexivity|apply Bool.orb_true_r].
Qed.

Lemma good_prop b props addl k p : good b (ScObject props addl) = true -> prop_sch props addl k = Some p -> good b p = true.
Proof.
  unfold good, prop_sch. intros H E. apply andb_prop in H. destruct H as [H1 H2]. cbn [sch_ok of_free] in *.
  destruct addl as [ad|]; [|discriminate]. apply andb_prop in H1. destruct H1 as [P1 P2].
  assert (H2' : negb b = true \/ (forallb (fun kv => of_free (snd kv)) props = true /\ of_free ad = true)).
  { destruct b; simpl in *; [right; now apply andb_prop in H2|now left]. }
  destruct (alookup k props) as [q|] eqn:N.
  - injection E as <-. apply alookup_In' in N. rewrite forallb_forall in P1. pose proof (P1 _ N) as P1'. cbn [snd] in P1'.
    rewrite P1'. simpl.
    destruct H2' as [->|[Q _]]; [reflexivity|]. rewrite forallb_forall in Q. pose proof (Q _ N) as Q'. cbn [snd] in Q'.
    rewrite Q'. apply Bool.orb_true_r.
  - injection E as <-. rewrite P2. simpl. destruct H2' as [->|[_ ->]]; [reflexivity|apply Bool.orb_true_r].
Qed.

(* ---------------- fuel: a schema without oneOf needs no more fuel than the value is deep ---------------- *)
Lemma x_depth_pos v : (1 <= x_depth v)%nat.
Proof. destruct v; simpl; lia. Qed.

Lemma of_free_item prefix items i p : of_free (ScArray prefix items) = true -> item_sch prefix items i = Some p -> of_free p = true.
Proof.
  cbn [of_free]. unfold item_sch. intros H E. apply andb_prop in H. destruct H as [H1 H2].
  destruct (nth_error prefix i) as [q|] eqn:N.
  - injection E as <-. apply nth_error_In in N. rewrite forallb_forall in H1. auto.
  - subst items. exact H2.
Qed.

Lemma of_free_prop props addl k p : of_free (ScObject props addl) = true -> prop_sch props addl k = Some p -> of_free p = true.
Proof.
  cbn [of_free]. unfold prop_sch. intros H E. apply andb_prop in H. destruct H as [H1 H2].
  destruct (alookup k props) as [q|] eqn:N.
  - injection E as <-. apply alookup_In' in N. rewrite forallb_forall in H1. apply (H1 _ N).
  - subst addl. exact H2.
Qed.

Theorem of_free_fuel n : forall s v m,
  of_free s = true -> sch_accepts n s v = true -> (x_depth v <= m)%nat -> sch_accepts m s v = true.
Proof.
  induction n as [|n IH]; intros s v m HF H Hm; [discriminate|].
  destruct m as [|m]; [pose proof (x_depth_pos v); lia|].
  rewrite sch_accepts_S in *. destruct (C06.x_unk v); [reflexivity|]. destruct s; try exact H.
  - destruct v as [| s0 u0 l|]; try exact H. rewrite acc_items_spec in *. intros i x E. specialize (H i x E).
    destruct (item_sch prefix items i) as [p|] eqn:EI; [|reflexivity]. simpl in *.
    apply IH; [eapply of_free_item; eauto|exact H|].
    simpl in Hm. pose proof (foldmax_in x_depth l O x (nth_error_In _ _ E)). lia.
  - destruct v as [| |s0 u0 mm]; try exact H. rewrite forallb_forall in *. intros kv Hkv. specialize (H kv Hkv).
    rewrite acc_props_eq in *. destruct (prop_sch props addl (fst kv)) as [p|] eqn:EP; [|reflexivity]. simpl in *.
    apply IH; [eapply of_free_prop; eauto|exact H|].
    simpl in Hm. pose proof (foldmax_in (fun kv => x_depth (snd kv)) mm O kv Hkv). simpl in H0. lia.
  - discriminate.
Qed.

Corollary of_free_tight s v : of_free s = true -> accepts s v -> sch_accepts (S (S (x_depth v))) s v = true.
Proof. intros HF [n H]. eapply of_free_fuel; eauto. Qed.
