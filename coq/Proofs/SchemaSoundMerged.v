(* Proofs/SchemaSoundMerged.v — C06, schema clause: value.go [mergedSchema] (Model/Chain.v [merged_schema]).
   For ALL base schemas, fuels, base values and top values: if the base schema accepts the base value and the top schema
   [T] accepts the top value [t] and [T] describes [t] TIGHTLY (the shape of the canonical schema of a known value: at
   every object level that merging reaches, T is a record without additionalProperties whose keys are exactly the keys
   of t; or T = true; or t is unknown / not an object), then the merged schema accepts the JSON-merge-patch of the two
   values.  The hypothesis is necessary: SchemaSoundRefute.v, witnesses A (top record with additionalProperties) and
   E (closed top record over a base whose schema is not of type object). *)
From Verif Require Import Base.Bytes Base.Wire Model.Chain Model.GoText Model.Envelope Model.Eval Corr.EvalWire.
From Verif Require Corr.C06.
From Verif Require Import Proofs.NonInterferenceRel Proofs.NonInterferenceOps Proofs.CheckApproxExamples
     Proofs.SchemaSoundAccept.
From Coq Require Import Lia ZifyN ZifyNat ZifyBool.

(* JSON merge patch on exported values, as export computes it for a chain top ++ base: known objects merge key by
   key, anything else on top hides the base *)
Fixpoint x_merge (bv tv : xval) {struct tv} : xval :=
  match tv with
  | XObj s false m =>
      match bv with
      | XObj _ false mb =>
          XObj s false
            (map (fun kv => (fst kv, match alookup (fst kv) mb with Some b => x_merge b (snd kv) | None => snd kv end)) m
             ++ filter (fun kb => negb (existsb (String.eqb (fst kb)) (map fst m))) mb)
      | _ => tv
      end
  | _ => tv
  end.

Inductive tight : sch -> xval -> Prop :=
| tg_unk T t : C06.x_unk t = true -> tight T t
| tg_always t : tight ScAlways t
| tg_scalar T s x : tight T (XScalar s false x)
| tg_arr T s l : tight T (XArr s false l)
| tg_obj props s m :
    (forall k v, In (k, v) m -> exists p, alookup k props = Some p /\ tight p v) ->
    (forall k p, alookup k props = Some p -> In k (map fst m)) ->
    tight (ScObject props None) (XObj s false m).

(* record schemas with duplicate-free keys, as far as merging descends *)
Inductive swf : sch -> Prop :=
| swf_obj props addl : NoDup (map fst props) -> (forall k p, In (k, p) props -> swf p) -> swf (ScObject props addl)
| swf_other s : match s with ScObject _ _ => False | _ => True end -> swf s.

(* ---------------- the merged property map ---------------- *)
Definition base_map (bp : list (string * sch)) : list (string * sch) :=
  fold_left (fun acc kb => ainsert (fst kb) (snd kb) acc) bp [].

Definition merge_step (f : nat) (acc : list (string * sch)) (kt : string * sch) : list (string * sch) :=
  let '(k, t) := kt in
  match alookup k acc with
  | Some b => ainsert k (merged_schema f (Some b) t) acc
  | None => ainsert k t acc
  end.

Definition merged_addl (ba ta : option sch) : option sch :=
  match ba with Some b => match ta with None => Some b | Some _ => Some ScAlways end | None => ta end.

Lemma merged_schema_S_obj f bp ba tp ta :
  merged_schema (S f) (Some (ScObject bp ba)) (ScObject tp ta) =
  ScObject (fold_left (merge_step f) tp (base_map bp)) (merged_addl ba ta).
Proof. reflexivity. Qed.

Lemma merged_schema_top g bo t : (match t with ScObject _ _ => False | _ => True end) -> merged_schema g bo t = t.
Proof. intros H. destruct g; [reflexivity|]. destruct bo as [[]|], t; try reflexivity; contradiction. Qed.

Lemma merged_schema_base g bo t :
  (match bo with Some (ScObject _ _) => False | _ => True end) -> merged_schema g bo t = t.
Proof. intros H. destruct g; [reflexivity|]. destruct bo as [[]|]; try reflexivity. contradiction. Qed.

Lemma merged_schema_O bo t : merged_schema O bo t = t.
Proof. reflexivity. Qed.

Lemma alookup_ainsert' {A} (k k' : string) (v : A) m :
  alookup k (ainsert k' v m) = if String.eqb k k' then Some v else alookup k m.
Proof.
  induction m as [|[k0 v0] m IH]; simpl.
  - destruct (String.eqb k k'); reflexivity.
  - destruct (String.eqb k' k0) eqn:E0.
    + apply String.eqb_eq in E0. subst k0. simpl. destruct (String.eqb k k'); reflexivity.
    + destruct (String.ltb k' k0); simpl.
      * destruct (String.eqb k k'); reflexivity.
      * rewrite IH. destruct (String.eqb k k0) eqn:E1; [|reflexivity].
        apply String.eqb_eq in E1. subst k0. destruct (String.eqb k k') eqn:E2; [|reflexivity].
        apply String.eqb_eq in E2. subst k'. rewrite String.eqb_refl in E0. discriminate.
Qed.

Lemma alookup_notin {A} k (m : list (string * A)) : ~ In k (map fst m) -> alookup k m = None.
Proof.
  induction m as [|[k0 v0] m IH]; simpl; [reflexivity|]. intros H. destruct (String.eqb k k0) eqn:E.
  - apply String.eqb_eq in E. subst. exfalso. apply H. now left.
  - apply IH. intros H'. apply H. now right.
Qed.

Lemma alookup_fold_base k (bp : list (string * sch)) : forall acc : list (string * sch), NoDup (map fst bp) ->
  alookup k (fold_left (fun acc kb => ainsert (fst kb) (snd kb) acc) bp acc) =
  match alookup k bp with Some v => Some v | None => alookup k acc end.
Proof.
  induction bp as [|[k0 v0] bp IH]; intros acc ND; simpl; [reflexivity|].
  inversion ND as [|? ? Hnin ND']; subst. rewrite IH by exact ND'. cbn [fst snd]. rewrite alookup_ainsert'.
  destruct (String.eqb k k0) eqn:E.
  - apply String.eqb_eq in E. subst k0. now rewrite (alookup_notin _ _ Hnin).
  - reflexivity.
Qed.

Lemma alookup_base_map k (bp : list (string * sch)) : NoDup (map fst bp) -> alookup k (base_map bp) = alookup k bp.
Proof. intros ND. unfold base_map. rewrite alookup_fold_base by exact ND. destruct (alookup k bp); reflexivity. Qed.

Lemma alookup_merge_fold f k (tp : list (string * sch)) : forall acc : list (string * sch), NoDup (map fst tp) ->
  alookup k (fold_left (merge_step f) tp acc) =
  match alookup k tp with
  | Some t => Some (match alookup k acc with Some b => merged_schema f (Some b) t | None => t end)
  | None => alookup k acc
  end.
Proof.
  induction tp as [|[k0 t0] tp IH]; intros acc ND; simpl; [reflexivity|].
  inversion ND as [|? ? Hnin ND']; subst. rewrite IH by exact ND'.
  destruct (String.eqb k k0) eqn:E.
  - apply String.eqb_eq in E. subst k0. rewrite (alookup_notin _ _ Hnin).
    destruct (alookup k acc); rewrite alookup_ainsert', String.eqb_refl; reflexivity.
  - destruct (alookup k tp); destruct (alookup k0 acc); rewrite alookup_ainsert', E; reflexivity.
Qed.

(* ---------------- values ---------------- *)
Lemma x_merge_unk b t : C06.x_unk t = true -> x_merge b t = t.
Proof. destruct t as [| |s u m]; simpl; try reflexivity. now intros ->. Qed.

Lemma x_merge_base b t : (match b with XObj _ false _ => False | _ => True end) -> x_merge b t = t.
Proof. intros H. destruct t as [| |s [|] m]; try reflexivity. destruct b as [| |sb [|] mb]; try reflexivity. contradiction. Qed.

Lemma x_merge_obj sb mb s m :
  x_merge (XObj sb false mb) (XObj s false m) =
  XObj s false
    (map (fun kv => (fst kv, match alookup (fst kv) mb with Some b => x_merge b (snd kv) | None => snd kv end)) m
     ++ filter (fun kb => negb (existsb (String.eqb (fst kb)) (map fst m))) mb).
Proof. reflexivity. Qed.

Lemma existsb_eqb_In k l : existsb (String.eqb k) l = true <-> In k l.
Proof.
  rewrite existsb_exists. split.
  - intros (x & Hx & E). apply String.eqb_eq in E. now subst.
  - intros H. exists k. split; [exact H|apply String.eqb_refl].
Qed.

Definition obase_ok (n : nat) (bo : option sch) (b : xval) : Prop :=
  match bo with Some B => sch_accepts n B b = true | None => True end.

Definition oswf (bo : option sch) : Prop := match bo with Some B => swf B | None => True end.

Lemma swf_prop props addl k p : swf (ScObject props addl) -> alookup k props = Some p -> swf p.
Proof. intros H L. inversion H as [? ? ND HP|? HF]; subst; [|contradiction]. eapply HP. apply alookup_In'. exact L. Qed.

Lemma swf_nodup props addl : swf (ScObject props addl) -> NoDup (map fst props).
Proof. intros H. inversion H as [? ? ND HP|? HF]; subst; [exact ND|contradiction]. Qed.

Lemma acc_entry n props addl m k v :
  forallb (acc_props n props addl) m = true -> In (k, v) m -> opt_acc n (prop_sch props addl k) v = true.
Proof. intros H Hin. rewrite forallb_forall in H. specialize (H _ Hin). now rewrite acc_props_eq in H. Qed.

Theorem merged_schema_sound : forall n g bo T b t,
  obase_ok n bo b -> oswf bo -> swf T -> sch_accepts n T t = true -> tight T t ->
  sch_accepts n (merged_schema g bo T) (x_merge b t) = true.
Proof.
  induction n as [|n IH]; intros g bo T b t Hb Wb WT Ht Htg; [discriminate|].
  destruct Htg as [T t Hu|t|T s x|T s l|props s m HK1 HK2].
  - rewrite x_merge_unk by exact Hu. now apply sch_accepts_unk.
  - rewrite merged_schema_top by exact I. rewrite sch_accepts_S. destruct (C06.x_unk _); reflexivity.
  - cbn [x_merge]. destruct T; try (rewrite merged_schema_top by exact I; exact Ht). discriminate.
  - cbn [x_merge]. destruct T; try (rewrite merged_schema_top by exact I; exact Ht). discriminate.
  - (* a record over ... *)
    rewrite sch_accepts_S in Ht. cbn [C06.x_unk] in Ht.
    (* every top entry, merged with whatever base value, is accepted by its own property schema *)
    assert (TopSelf : forall k v bv, In (k, v) m -> exists p, alookup k props = Some p /\ sch_accepts n p (x_merge bv v) = true).
    { intros k v bv Hin. destruct (HK1 _ _ Hin) as (p & L & Hp). exists p. split; [exact L|].
      pose proof (acc_entry _ _ _ _ _ _ Ht Hin) as Hv. unfold prop_sch in Hv. rewrite L in Hv. cbn [opt_acc] in Hv.
      specialize (IH O None p bv v I I (swf_prop _ _ _ _ WT L) Hv Hp). now rewrite merged_schema_O in IH. }
    assert (NoKey : forall k, ~ In k (map fst m) -> alookup k props = None).
    { intros k Hn. destruct (alookup k props) as [p|] eqn:L; [|reflexivity]. exfalso. apply Hn. eapply HK2; eauto. }
    assert (Plain : sch_accepts (S n) (ScObject props None) (x_merge b (XObj s false m)) = true).
    { destruct b as [sb ub xb|sb ub lb|sb [|] mb]; try (rewrite x_merge_base by exact I; rewrite sch_accepts_S; exact Ht).
      rewrite x_merge_obj, sch_accepts_S. cbn [C06.x_unk]. rewrite forallb_app. apply andb_true_intro. split.
      - apply forallb_forall. intros kv Hkv. apply in_map_iff in Hkv. destruct Hkv as ([k v] & <- & Hin). cbn [fst snd].
        rewrite acc_props_eq. cbn [fst snd]. unfold prop_sch.
        destruct (alookup k mb) as [bk|].
        + destruct (TopSelf k v bk Hin) as (p & -> & Hp). exact Hp.
        + destruct (HK1 _ _ Hin) as (p & L & _). rewrite L. cbn [opt_acc].
          pose proof (acc_entry _ _ _ _ _ _ Ht Hin) as Hv. unfold prop_sch in Hv. now rewrite L in Hv.
      - apply forallb_forall. intros [k bk] Hkb. apply filter_In in Hkb. destruct Hkb as [_ Hk]. cbn [fst] in Hk.
        rewrite acc_props_eq. cbn [fst snd]. unfold prop_sch. rewrite NoKey; [reflexivity|].
        intros Hin. apply existsb_eqb_In in Hin. rewrite Hin in Hk. discriminate. }
    destruct g as [|g]; [rewrite merged_schema_O; exact Plain|].
    destruct bo as [[| | | |bp ba|]|]; try (rewrite merged_schema_base by exact I; exact Plain).
    (* ... a record *)
    rewrite merged_schema_S_obj. cbn [merged_addl]. cbn [obase_ok oswf] in Hb, Wb.
    pose proof (swf_nodup _ _ Wb) as NDb. pose proof (swf_nodup _ _ WT) as NDt.
    set (mp := fold_left (merge_step g) props (base_map bp)).
    assert (ML : forall k, alookup k mp =
                 match alookup k props with
                 | Some t0 => Some (match alookup k bp with Some b0 => merged_schema g (Some b0) t0 | None => t0 end)
                 | None => alookup k bp
                 end).
    { intros k. unfold mp. rewrite alookup_merge_fold by exact NDt. rewrite alookup_base_map by exact NDb. reflexivity. }
    assert (TopM : forall k v bv, In (k, v) m ->
              (forall bk, alookup k bp = Some bk -> sch_accepts n bk bv = true) ->
              opt_acc n (prop_sch mp (match ba with Some b0 => Some b0 | None => None end) k) (x_merge bv v) = true).
    { intros k v bv Hin Hbv. destruct (HK1 _ _ Hin) as (p & L & Hp). unfold prop_sch. rewrite ML, L. cbn [opt_acc].
      pose proof (acc_entry _ _ _ _ _ _ Ht Hin) as Hv. unfold prop_sch in Hv. rewrite L in Hv. cbn [opt_acc] in Hv.
      destruct (alookup k bp) as [bk|] eqn:LB.
      - apply IH; [exact (Hbv _ eq_refl)|exact (swf_prop _ _ _ _ Wb LB)|exact (swf_prop _ _ _ _ WT L)|exact Hv|exact Hp].
      - specialize (IH O None p bv v I I (swf_prop _ _ _ _ WT L) Hv Hp). now rewrite merged_schema_O in IH. }
    rewrite sch_accepts_S in Hb.
    destruct b as [sb ub xb|sb ub lb|sb ub mb].
    + (* base value: scalar *)
      rewrite x_merge_base by exact I. rewrite sch_accepts_S. cbn [C06.x_unk]. apply forallb_forall. intros [k v] Hin.
      rewrite acc_props_eq. cbn [fst snd].
      destruct n as [|n']; [pose proof (acc_entry _ _ _ _ _ _ Ht Hin) as Hv; destruct (HK1 _ _ Hin) as (p & L & _);
                            unfold prop_sch in Hv; rewrite L in Hv; discriminate|].
      pose proof (TopM k v (XScalar false true SNull) Hin) as G. rewrite x_merge_base in G by exact I.
      destruct ba; apply G; intros; now apply sch_accepts_unk.
    + rewrite x_merge_base by exact I. rewrite sch_accepts_S. cbn [C06.x_unk]. apply forallb_forall. intros [k v] Hin.
      rewrite acc_props_eq. cbn [fst snd].
      destruct n as [|n']; [pose proof (acc_entry _ _ _ _ _ _ Ht Hin) as Hv; destruct (HK1 _ _ Hin) as (p & L & _);
                            unfold prop_sch in Hv; rewrite L in Hv; discriminate|].
      pose proof (TopM k v (XScalar false true SNull) Hin) as G. rewrite x_merge_base in G by exact I.
      destruct ba; apply G; intros; now apply sch_accepts_unk.
    + destruct ub.
      * rewrite x_merge_base by exact I. rewrite sch_accepts_S. cbn [C06.x_unk]. apply forallb_forall. intros [k v] Hin.
        rewrite acc_props_eq. cbn [fst snd].
        destruct n as [|n']; [pose proof (acc_entry _ _ _ _ _ _ Ht Hin) as Hv; destruct (HK1 _ _ Hin) as (p & L & _);
                              unfold prop_sch in Hv; rewrite L in Hv; discriminate|].
        pose proof (TopM k v (XScalar false true SNull) Hin) as G. rewrite x_merge_base in G by exact I.
        destruct ba; apply G; intros; now apply sch_accepts_unk.
      * (* base value: a known object accepted by the base record *)
        cbn [C06.x_unk] in Hb.
        rewrite x_merge_obj, sch_accepts_S. cbn [C06.x_unk]. rewrite forallb_app. apply andb_true_intro. split.
        -- apply forallb_forall. intros kv Hkv. apply in_map_iff in Hkv. destruct Hkv as ([k v] & <- & Hin). cbn [fst snd].
           rewrite acc_props_eq. cbn [fst snd].
           destruct (alookup k mb) as [bk|] eqn:LM.
           ++ assert (G := TopM k v bk Hin). destruct ba; apply G; intros b0 LB;
                pose proof (acc_entry _ _ _ _ _ _ Hb (alookup_In' _ _ _ LM)) as Hbk; unfold prop_sch in Hbk; rewrite LB in Hbk; exact Hbk.
           ++ destruct n as [|n']; [pose proof (acc_entry _ _ _ _ _ _ Ht Hin) as Hv; destruct (HK1 _ _ Hin) as (p & L & _);
                                    unfold prop_sch in Hv; rewrite L in Hv; discriminate|].
              pose proof (TopM k v (XScalar false true SNull) Hin) as G. rewrite x_merge_base in G by exact I.
              destruct ba; apply G; intros; now apply sch_accepts_unk.
        -- apply forallb_forall. intros [k bk] Hkb. apply filter_In in Hkb. destruct Hkb as [Hin Hk]. cbn [fst] in Hk.
           rewrite acc_props_eq. cbn [fst snd]. unfold prop_sch. rewrite ML, NoKey.
           ++ pose proof (acc_entry _ _ _ _ _ _ Hb Hin) as Hbk. unfold prop_sch in Hbk.
              destruct (alookup k bp); [exact Hbk|]. destruct ba; exact Hbk.
           ++ intros Hin'. apply existsb_eqb_In in Hin'. rewrite Hin' in Hk. discriminate.
Qed.

(* the canonical schema of a known value describes it tightly: what the evaluator puts on known layers *)
Corollary merged_schema_accepts g B T b t :
  swf B -> swf T -> accepts B b -> accepts T t -> tight T t -> accepts (merged_schema g (Some B) T) (x_merge b t).
Proof.
  intros WB WT [n1 H1] [n2 H2] Htg. exists (Nat.max n1 n2).
  apply merged_schema_sound; auto.
  - cbn [obase_ok]. eapply sch_accepts_le; [|exact H1]. lia.
  - eapply sch_accepts_le; [|exact H2]. lia.
Qed.
