(* Proofs/PositionsSrc.v — the general theorems instantiated with the parameters read from today's Go source, the
   side conditions on those parameters, and the refutations (conditional on the parameter still having the
   defective value; witnesses are checked by computation). *)
From Coq Require Import Lia ZifyNat ZifyBool.
From Verif Require Import Base.Bytes Model.Positions Src.SrcPositions Proofs.PositionsBase Proofs.PositionsProofs.
Local Open Scope Z_scope.

Definition src_params : pos_params :=
  {| pp_lo := pos_line_lo; pp_hi_incl := pos_line_hi_inclusive; pp_clamp := pos_ascii_clamp;
     pp_runes := pos_column_runes; pp_end_chars := end_len_chars; pp_tag_chars := end_tag_len_chars;
     pp_sr_runes := scalar_range_runes |}.

(* side condition: every line of the text, the last one included, passes the guard of pos *)
Definition line_table_fixed (p : pos_params) : bool := (pp_lo p <=? 1) && pp_hi_incl p.

Lemma line_table_fixed_ok : forall p, line_table_fixed p = true -> forall nl line, line_ok p nl line.
Proof.
  intros p H nl line. unfold line_table_fixed in H. apply andb_prop in H. destruct H as [H1 H2].
  split; [lia | now left].
Qed.

Lemma src_line_table_fixed : line_table_fixed src_params = true.
Proof. reflexivity. Qed.

Lemma src_line_ok : forall nl line, line_ok src_params nl line.
Proof. exact (line_table_fixed_ok src_params src_line_table_fixed). Qed.

(* ---- instances ---- *)
Lemma src_pos_consistent : forall text line col b,
  true_byte text line col = Some b ->
  zero_width_before src_params text line col = false ->
  pos src_params (new_position_index text) line col = Some {| p_line := line; p_col := col; p_byte := b |}.
Proof. intros. apply pos_true_byte; auto using src_line_ok. Qed.

Lemma src_pos_decomp : forall text pre l post cs1 cs2,
  lines_of text = pre ++ l :: post -> chars_of l = cs1 ++ cs2 ->
  (pp_runes src_params = true \/ is_ascii_str l = true \/ forallb w1 cs1 = true) ->
  pos src_params (new_position_index text) (Z.of_nat (length pre) + 1) (Z.of_nat (length cs1) + 1)
  = Some {| p_line := Z.of_nat (length pre) + 1; p_col := Z.of_nat (length cs1) + 1;
            p_byte := lines_len pre + slenZ (concat_str cs1) |}.
Proof. intros. eapply pos_decomp; eauto using src_line_ok. Qed.

Lemma src_range_in_text : forall text n tb te,
  true_byte text (yn_line n) (yn_col n) = Some tb ->
  true_byte text (fst (end_lc src_params n)) (snd (end_lc src_params n)) = Some te ->
  zero_width_before src_params text (yn_line n) (yn_col n) = false ->
  zero_width_before src_params text (fst (end_lc src_params n)) (snd (end_lc src_params n)) = false ->
  lex_le (yn_line n) (yn_col n) (fst (end_lc src_params n)) (snd (end_lc src_params n)) ->
  node_range src_params (new_position_index text) n
  = Some ({| p_line := yn_line n; p_col := yn_col n; p_byte := tb |},
          {| p_line := fst (end_lc src_params n); p_col := snd (end_lc src_params n); p_byte := te |})
  /\ 0 <= tb /\ tb <= te /\ te <= slenZ text.
Proof.
  intros text n tb te Hb He Hzb Hze Hle.
  pose proof (range_in_text src_params text n tb te) as R. cbv zeta in R.
  destruct (end_lc src_params n) as [el ec]. cbn [fst snd] in *.
  apply R; auto using src_line_ok.
Qed.

Lemma src_node_order : forall n, ordered n ->
  lex_le (yn_line n) (yn_col n) (fst (end_lc src_params n)) (snd (end_lc src_params n)).
Proof.
  intros n H. pose proof (node_lex src_params n H) as L. now destruct (end_lc src_params n).
Qed.

Lemma src_plain_scalar_slice : forall text pre a value z post tag anch,
  lines_of text = pre ++ (a +++ value +++ z) :: post ->
  complete a = true -> complete value = true ->
  (pp_end_chars src_params = true \/ is_ascii_str value = true) ->
  (pp_runes src_params = true \/ is_ascii_str (a +++ value +++ z) = true
   \/ forallb w1 (chars_of (a +++ value)) = true) ->
  let line := Z.of_nat (length pre) + 1 in
  let col := nchars a + 1 in
  let b := lines_len pre + slenZ a in
  let e := b + slenZ value in
  node_range src_params (new_position_index text) (YNode 8 0 tag value line col anch [])
  = Some ({| p_line := line; p_col := col; p_byte := b |},
          {| p_line := line; p_col := col + nchars value; p_byte := e |})
  /\ substr b e text = value
  /\ 0 <= b /\ b <= e /\ e <= slenZ text
  /\ true_byte text line col = Some b /\ true_byte text line (col + nchars value) = Some e.
Proof.
  intros text pre a value z post tag anch Hl Ha Hv Hu Hw.
  apply (plain_scalar_slice src_params text pre a value z post tag anch Hl Ha Hv Hu); [apply src_line_ok | exact Hw].
Qed.

Lemma src_scalar_subrange : forall text pre a v1 v2 v3 z post tag anch style,
  let value := v1 +++ v2 +++ v3 in
  lines_of text = pre ++ (a +++ value +++ z) :: post ->
  complete a = true -> complete v1 = true -> complete v2 = true -> complete v3 = true ->
  (pp_end_chars src_params = true \/ is_ascii_str value = true) ->
  (style = 0 \/ style = 32)%N ->
  let line := Z.of_nat (length pre) + 1 in
  let col := nchars a + 1 in
  (pp_runes src_params = true \/ is_ascii_str (a +++ value +++ z) = true
   \/ forallb w1 (chars_of (a +++ value)) = true) ->
  (pp_sr_runes src_params = true \/ forallb w1 (chars_of (v1 +++ v2)) = true) ->
  forall rng, node_range src_params (new_position_index text) (YNode 8 0 tag value line col anch []) = Some rng ->
  exists b' e',
    scalar_range src_params (YNode 8 style tag value line col anch []) rng
                 (String.length v1) (String.length v1 + String.length v2) = Some (b', e')
    /\ p_line b' = line /\ p_line e' = line
    /\ true_byte text line (p_col b') = Some (p_byte b')
    /\ true_byte text line (p_col e') = Some (p_byte e')
    /\ substr (p_byte b') (p_byte e') text = v2
    /\ p_byte b' <= p_byte e' <= slenZ text.
Proof.
  intros text pre a v1 v2 v3 z post tag anch style value Hl Ha H1 H2 H3 Hu Hst line col Hw Hsr rng Hr.
  apply (scalar_subrange src_params text pre a v1 v2 v3 z post tag anch style Hl Ha H1 H2 H3 Hu Hst
                         (src_line_ok _ _) Hw Hsr rng Hr).
Qed.

(* ---- refutations: the full statements fail while the source has the defective value ---- *)
(* yaml.v3 on "values:\n  é: {a: \"x\ty\", b: c}\n" puts the plain scalar c at line 2, column 20 *)
Definition tab_text : string := hx "76616c7565733a0a2020c3a93a207b613a202278097922" +++ hx "2c20623a20637d0a".
Definition bad_pos (p : pos_params) (text : string) (line col : Z) : bool :=
  match true_byte text line col, pos p (new_position_index text) line col with
  | Some b, Some h => negb (p_byte h =? b)
  | Some _, None => true
  | None, _ => false
  end.

Lemma src_pos_consistent_refuted : pp_runes src_params = false ->
  exists text line col, bad_pos src_params text line col = true.
Proof.
  intro H. exists tab_text, 2, 20. revert H. vm_compute. intro H; first [discriminate H | reflexivity].
Qed.

(* yaml.v3 on "values:\n  some_long_key_name: |\n    a\n": literal scalar "a\n" at line 2, column 23 *)
Definition literal_text : string := hx "76616c7565733a0a2020736f6d655f6c6f6e675f6b65795f6e616d653a207c0a20202020610a".
Definition literal_node : ynode := YNode 8 8 "!!str" (hx "610a") 2 23 false [].
Definition end_outside (p : pos_params) (text : string) (n : ynode) : bool :=
  match node_range p (new_position_index text) n with
  | Some (_, e) => slenZ text <? p_byte e
  | None => false
  end.

Lemma src_range_in_text_refuted : pp_clamp src_params = false ->
  exists text n, end_outside src_params text n = true.
Proof.
  intro H. exists literal_text, literal_node. revert H. vm_compute. intro H; first [discriminate H | reflexivity].
Qed.

(* the end of that node is reported in a column that its line does not have, whatever the parameters *)
Lemma strict_column_refuted : forall p,
  past_eol literal_text (fst (end_lc p literal_node)) (snd (end_lc p literal_node)) = true.
Proof. intros p. destruct p as [lo hi cl ru [|] tg sr]; reflexivity. Qed.

(* yaml.v3 on "values:\n  é: {ü: héllo, z: 1}\n": plain scalar héllo at line 2, column 10 *)
Definition nonascii_text : string := hx "76616c7565733a0a2020c3a93a207bc3bc3a2068c3a96c6c6f2c207a3a20317d0a".
Definition nonascii_value : string := hx "68c3a96c6c6f".
Definition bad_slice (p : pos_params) (text : string) (line col : Z) (value : string) : bool :=
  located text line col value
  && match node_range p (new_position_index text) (YNode 8 0 "!!str" value line col false []) with
     | Some (b, e) => negb (String.eqb (substr (p_byte b) (p_byte e) text) value)
     | None => true
     end.

Lemma src_plain_scalar_slice_refuted : pp_end_chars src_params = false ->
  exists text line col value, bad_slice src_params text line col value = true.
Proof.
  intro H. exists nonascii_text, 2, 10, nonascii_value. revert H. vm_compute.
  intro H; first [discriminate H | reflexivity].
Qed.

(* ---- the full statements, their refutation while the defect is in the source, and their proof once it is not ---- *)
Definition pos_consistent_full (p : pos_params) : Prop := forall text line col b,
  true_byte text line col = Some b ->
  pos p (new_position_index text) line col = Some {| p_line := line; p_col := col; p_byte := b |}.

Lemma src_pos_consistent_not_full : pp_runes src_params = false -> ~ pos_consistent_full src_params.
Proof.
  intros H F. destruct (src_pos_consistent_refuted H) as (text & line & col & Hb). unfold bad_pos in Hb.
  destruct (true_byte text line col) as [b|] eqn:E; [|discriminate Hb].
  rewrite (F text line col b E) in Hb. cbn [p_byte] in Hb. rewrite Z.eqb_refl in Hb. discriminate Hb.
Qed.

Lemma src_pos_consistent_full_if : pp_runes src_params = true -> pos_consistent_full src_params.
Proof.
  intros H text line col b Hb. apply src_pos_consistent; [exact Hb|].
  unfold zero_width_before. destruct (line_at text line); [|reflexivity]. now rewrite H.
Qed.

Definition plain_scalar_slice_full (p : pos_params) : Prop := forall text pre a value z post tag anch,
  lines_of text = pre ++ (a +++ value +++ z) :: post ->
  complete a = true -> complete value = true ->
  let line := Z.of_nat (length pre) + 1 in
  let col := nchars a + 1 in
  exists b e, node_range p (new_position_index text) (YNode 8 0 tag value line col anch []) = Some (b, e)
              /\ substr (p_byte b) (p_byte e) text = value
              /\ 0 <= p_byte b /\ p_byte b <= p_byte e /\ p_byte e <= slenZ text.

Lemma src_plain_scalar_slice_full_if :
  pp_runes src_params = true -> pp_end_chars src_params = true -> plain_scalar_slice_full src_params.
Proof.
  intros Hr He text pre a value z post tag anch Hl Ha Hv line col.
  destruct (src_plain_scalar_slice text pre a value z post tag anch Hl Ha Hv (or_introl He) (or_introl Hr))
    as (Hn & Hs & H0 & H1 & H2 & _).
  eexists; eexists. split; [exact Hn|]. cbn [p_byte]. repeat split; assumption.
Qed.

Lemma src_plain_scalar_slice_not_full : pp_end_chars src_params = false -> ~ plain_scalar_slice_full src_params.
Proof.
  intros H F.
  assert (B : bad_slice src_params nonascii_text 2 10 nonascii_value = true)
    by (revert H; vm_compute; intro H; first [discriminate H | reflexivity]).
  destruct (F nonascii_text ["values:"] (hx "2020c3a93a207bc3bc3a20") nonascii_value ", z: 1}" [""] "!!str" false
              eq_refl eq_refl eq_refl) as (b & e & Hn & Hs & _).
  assert (E : node_range src_params (new_position_index nonascii_text)
                (YNode 8 0 "!!str" nonascii_value 2 10 false []) = Some (b, e)) by exact Hn.
  unfold bad_slice in B. rewrite E, Hs, String.eqb_refl in B. cbn [negb] in B.
  now rewrite andb_false_r in B.
Qed.

(* ---- non-vacuity on concrete documents ---- *)
Definition last_line_text : string := hx "76616c7565733a0a20206b3a206c617374".   (* "values:\n  k: last", no final newline *)

Lemma example_last_line :
  node_range src_params (new_position_index last_line_text) (YNode 8 0 "!!str" "last" 2 6 false [])
  = Some ({| p_line := 2; p_col := 6; p_byte := 13 |}, {| p_line := 2; p_col := 10; p_byte := 17 |})
  /\ substr 13 17 last_line_text = "last"
  /\ lines_of last_line_text = ["values:"] ++ ("  k: " +++ "last" +++ "") :: [].
Proof. repeat split; reflexivity. Qed.

(* non-ASCII text before the node on its line: the key z of "values:\n  é: {ü: héllo, z: 1}\n" *)
Lemma example_nonascii_before :
  node_range src_params (new_position_index nonascii_text) (YNode 8 0 "!!str" "z" 2 17 false [])
  = Some ({| p_line := 2; p_col := 17; p_byte := 27 |}, {| p_line := 2; p_col := 18; p_byte := 28 |})
  /\ substr 27 28 nonascii_text = "z"
  /\ located nonascii_text 2 17 "z" = true
  /\ zero_width_before src_params nonascii_text 2 18 = false.
Proof. repeat split; reflexivity. Qed.

(* a mapping: its range runs from its first key to the end of its last value *)
Lemma example_collection :
  let n := YNode 4 32 "!!map" "" 2 6 false [YNode 8 0 "!!int" "1" 2 20 false []] in
  node_range src_params (new_position_index nonascii_text) n
  = Some ({| p_line := 2; p_col := 6; p_byte := 14 |}, {| p_line := 2; p_col := 21; p_byte := 31 |})
  /\ ordered n.
Proof. split; [reflexivity | cbn; unfold lex_le; intros _; split; [lia | discriminate]]. Qed.
