(* Proofs/PositionsSrc.v — the general theorems instantiated with the parameters read from today's Go source, the
   side conditions on those parameters, the full statements (as predicates of a parameter record and of the uniseg
   collaborator), their proofs for EVERY repaired parameter record, and their refutations for today's record
   (conditional on the parameter still having the defective value; witnesses are checked by computation). *)
From Coq Require Import Lia ZifyNat ZifyBool.
From Verif Require Import Base.Bytes Model.Positions Src.SrcPositions Proofs.PositionsBase Proofs.PositionsProofs.
Local Open Scope Z_scope.

Definition src_params : pos_params :=
  {| pp_lo := pos_line_lo; pp_hi_incl := pos_line_hi_inclusive; pp_clamp := pos_ascii_clamp;
     pp_runes := pos_column_runes; pp_end_chars := end_len_chars; pp_tag_chars := end_tag_len_chars;
     pp_sr_runes := scalar_range_runes |}.

(* side condition: every line of the text, the last one included, passes the guard of pos *)
Definition line_table_fixed (p : pos_params) : bool := (pp_lo p <=? 1) && pp_hi_incl p.

Lemma line_table_fixed_ok : forall p, line_table_fixed p = true -> forall nl line, line_ok p nl line.
Proof.
  intros p H nl line. unfold line_table_fixed in H. apply andb_prop in H. destruct H as [H1 H2].
  split; [lia | now left].
Qed.

Lemma src_line_table_fixed : line_table_fixed src_params = true.
Proof. reflexivity. Qed.

Lemma src_line_ok : forall nl line, line_ok src_params nl line.
Proof. exact (line_table_fixed_ok src_params src_line_table_fixed). Qed.

(* ---- instances ---- *)
Lemma src_pos_consistent : forall u text line col b,
  true_byte text line col = Some b ->
  irregular_before src_params u text line col = false ->
  pos src_params u (new_position_index text) line col = Some {| p_line := line; p_col := col; p_byte := b |}.
Proof. intros. apply pos_true_byte; auto using src_line_ok. Qed.

Lemma src_pos_decomp : forall u text pre l post cs1 cs2,
  lines_of text = pre ++ l :: post -> chars_of l = cs1 ++ cs2 ->
  (pp_runes src_params = true \/ is_ascii_str l = true \/ w1_prefix (u_seg u l) cs1 = true) ->
  pos src_params u (new_position_index text) (Z.of_nat (length pre) + 1) (Z.of_nat (length cs1) + 1)
  = Some {| p_line := Z.of_nat (length pre) + 1; p_col := Z.of_nat (length cs1) + 1;
            p_byte := lines_len pre + slenZ (concat_str cs1) |}.
Proof. intros. eapply pos_decomp; eauto using src_line_ok. Qed.

Lemma src_range_in_text : forall u text n tb te,
  true_byte text (yn_line n) (yn_col n) = Some tb ->
  true_byte text (fst (end_lc src_params n)) (snd (end_lc src_params n)) = Some te ->
  irregular_before src_params u text (yn_line n) (yn_col n) = false ->
  irregular_before src_params u text (fst (end_lc src_params n)) (snd (end_lc src_params n)) = false ->
  lex_le (yn_line n) (yn_col n) (fst (end_lc src_params n)) (snd (end_lc src_params n)) ->
  node_range src_params u (new_position_index text) n
  = Some ({| p_line := yn_line n; p_col := yn_col n; p_byte := tb |},
          {| p_line := fst (end_lc src_params n); p_col := snd (end_lc src_params n); p_byte := te |})
  /\ 0 <= tb /\ tb <= te /\ te <= slenZ text.
Proof.
  intros u text n tb te Hb He Hzb Hze Hle.
  pose proof (range_in_text src_params u text n tb te) as R. cbv zeta in R.
  destruct (end_lc src_params n) as [el ec]. cbn [fst snd] in *.
  apply R; auto using src_line_ok.
Qed.

(* [end_missing] is exactly the hypothesis of src_range_in_text on the end *)
Lemma end_missing_false : forall p text n, end_missing p text n = false ->
  exists te, true_byte text (fst (end_lc p n)) (snd (end_lc p n)) = Some te.
Proof.
  intros p text n H. unfold end_missing in H.
  destruct (true_byte text (fst (end_lc p n)) (snd (end_lc p n))) as [te|]; [now exists te | discriminate H].
Qed.

Lemma src_range_in_text_class : forall u text n tb,
  true_byte text (yn_line n) (yn_col n) = Some tb ->
  end_missing src_params text n = false ->
  irregular_before src_params u text (yn_line n) (yn_col n) = false ->
  irregular_before src_params u text (fst (end_lc src_params n)) (snd (end_lc src_params n)) = false ->
  lex_le (yn_line n) (yn_col n) (fst (end_lc src_params n)) (snd (end_lc src_params n)) ->
  exists te,
    true_byte text (fst (end_lc src_params n)) (snd (end_lc src_params n)) = Some te
    /\ node_range src_params u (new_position_index text) n
       = Some ({| p_line := yn_line n; p_col := yn_col n; p_byte := tb |},
               {| p_line := fst (end_lc src_params n); p_col := snd (end_lc src_params n); p_byte := te |})
    /\ 0 <= tb /\ tb <= te /\ te <= slenZ text.
Proof.
  intros u text n tb Hb Hm Hzb Hze Hle. destruct (end_missing_false _ _ _ Hm) as [te He].
  exists te. split; [exact He|]. now apply src_range_in_text.
Qed.

(* every node, whether or not its end exists *)
Lemma src_range_bytes_ordered : forall u text n tb,
  true_byte text (yn_line n) (yn_col n) = Some tb ->
  irregular_before src_params u text (yn_line n) (yn_col n) = false ->
  lex_le (yn_line n) (yn_col n) (fst (end_lc src_params n)) (snd (end_lc src_params n)) ->
  1 <= snd (end_lc src_params n) ->
  fst (end_lc src_params n) <= Z.of_nat (length (lines_of text)) ->
  exists e, node_range src_params u (new_position_index text) n
            = Some ({| p_line := yn_line n; p_col := yn_col n; p_byte := tb |}, e)
    /\ p_line e = fst (end_lc src_params n) /\ p_col e = snd (end_lc src_params n)
    /\ 0 <= tb /\ tb <= p_byte e.
Proof.
  intros u text n tb Hb Hz Hle Hec Hel.
  destruct (range_bytes_ordered src_params u text n tb Hb (src_line_ok _) Hz Hle Hec Hel)
    as (e & Hn & H1 & H2 & H3 & H4 & _).
  exists e. repeat split; assumption.
Qed.

Lemma src_node_order : forall n, ordered n ->
  lex_le (yn_line n) (yn_col n) (fst (end_lc src_params n)) (snd (end_lc src_params n)).
Proof.
  intros n H. pose proof (node_lex src_params n H) as L. now destruct (end_lc src_params n).
Qed.

Lemma src_plain_scalar_slice : forall u text pre a value z post tag,
  lines_of text = pre ++ (a +++ value +++ z) :: post ->
  complete a = true -> complete value = true ->
  (pp_end_chars src_params = true \/ is_ascii_str value = true) ->
  (pp_runes src_params = true \/ is_ascii_str (a +++ value +++ z) = true
   \/ w1_prefix (u_seg u (a +++ value +++ z)) (chars_of (a +++ value)) = true) ->
  let line := Z.of_nat (length pre) + 1 in
  let col := nchars a + 1 in
  let b := lines_len pre + slenZ a in
  let e := b + slenZ value in
  node_range src_params u (new_position_index text) (YNode 8 0 tag value line col false [])
  = Some ({| p_line := line; p_col := col; p_byte := b |},
          {| p_line := line; p_col := col + nchars value; p_byte := e |})
  /\ substr b e text = value
  /\ 0 <= b /\ b <= e /\ e <= slenZ text
  /\ true_byte text line col = Some b /\ true_byte text line (col + nchars value) = Some e.
Proof.
  intros u text pre a value z post tag Hl Ha Hv Hu Hw.
  apply (plain_scalar_slice src_params u text pre a value z post tag Hl Ha Hv Hu); [apply src_line_ok | exact Hw].
Qed.

Lemma src_scalar_subrange : forall u text pre a v1 v2 v3 z post tag style,
  let value := v1 +++ v2 +++ v3 in
  lines_of text = pre ++ (a +++ value +++ z) :: post ->
  complete a = true -> complete v1 = true -> complete v2 = true -> complete v3 = true ->
  (pp_end_chars src_params = true \/ is_ascii_str value = true) ->
  (style = 0 \/ style = 32)%N ->
  let line := Z.of_nat (length pre) + 1 in
  let col := nchars a + 1 in
  (pp_runes src_params = true \/ is_ascii_str (a +++ value +++ z) = true
   \/ w1_prefix (u_seg u (a +++ value +++ z)) (chars_of (a +++ value)) = true) ->
  (pp_sr_runes src_params = true
   \/ (u_width u v1 = nchars v1 /\ u_width u (v1 +++ v2) = nchars (v1 +++ v2))) ->
  forall rng, node_range src_params u (new_position_index text) (YNode 8 0 tag value line col false []) = Some rng ->
  exists b' e',
    scalar_range src_params u (YNode 8 style tag value line col false []) rng
                 (String.length v1) (String.length v1 + String.length v2) = Some (b', e')
    /\ p_line b' = line /\ p_line e' = line
    /\ true_byte text line (p_col b') = Some (p_byte b')
    /\ true_byte text line (p_col e') = Some (p_byte e')
    /\ substr (p_byte b') (p_byte e') text = v2
    /\ p_byte b' <= p_byte e' <= slenZ text.
Proof.
  intros u text pre a v1 v2 v3 z post tag style value Hl Ha H1 H2 H3 Hu Hst line col Hw Hsr rng Hr.
  apply (scalar_subrange src_params u text pre a v1 v2 v3 z post tag style Hl Ha H1 H2 H3 Hu Hst
                         (src_line_ok _ _) Hw Hsr rng Hr).
Qed.

(* ====================================================================================================
   The full statements, as predicates of the parameter record and of the library. *)

Definition pos_consistent_full (p : pos_params) (u : uniseg) : Prop := forall text line col b,
  true_byte text line col = Some b ->
  pos p u (new_position_index text) line col = Some {| p_line := line; p_col := col; p_byte := b |}.

(* the range of every node whose begin exists, whose end line is a line of the text and whose end is not before its
   begin in (line, column) order: reported, begin at the right byte, begin <= end, end inside the text.  (That the
   end COLUMN exists is not part of it: no value of the parameters gives that, see strict_column_refuted.) *)
Definition range_in_text_full (p : pos_params) (u : uniseg) : Prop := forall text n tb,
  true_byte text (yn_line n) (yn_col n) = Some tb ->
  lex_le (yn_line n) (yn_col n) (fst (end_lc p n)) (snd (end_lc p n)) ->
  1 <= snd (end_lc p n) ->
  fst (end_lc p n) <= Z.of_nat (length (lines_of text)) ->
  exists e, node_range p u (new_position_index text) n
            = Some ({| p_line := yn_line n; p_col := yn_col n; p_byte := tb |}, e)
    /\ 0 <= tb /\ tb <= p_byte e /\ p_byte e <= slenZ text.

Definition plain_scalar_slice_full (p : pos_params) (u : uniseg) : Prop := forall text pre a value z post tag,
  lines_of text = pre ++ (a +++ value +++ z) :: post ->
  complete a = true -> complete value = true ->
  let line := Z.of_nat (length pre) + 1 in
  let col := nchars a + 1 in
  exists b e, node_range p u (new_position_index text) (YNode 8 0 tag value line col false []) = Some (b, e)
              /\ substr (p_byte b) (p_byte e) text = value
              /\ 0 <= p_byte b /\ p_byte b <= p_byte e /\ p_byte e <= slenZ text.

Definition scalar_subrange_full (p : pos_params) (u : uniseg) : Prop := forall text pre a v1 v2 v3 z post tag style,
  let value := v1 +++ v2 +++ v3 in
  lines_of text = pre ++ (a +++ value +++ z) :: post ->
  complete a = true -> complete v1 = true -> complete v2 = true -> complete v3 = true ->
  (style = 0 \/ style = 32)%N ->
  let line := Z.of_nat (length pre) + 1 in
  let col := nchars a + 1 in
  forall rng, node_range p u (new_position_index text) (YNode 8 0 tag value line col false []) = Some rng ->
  exists b' e',
    scalar_range p u (YNode 8 style tag value line col false []) rng
                 (String.length v1) (String.length v1 + String.length v2) = Some (b', e')
    /\ p_line b' = line /\ p_line e' = line
    /\ true_byte text line (p_col b') = Some (p_byte b')
    /\ true_byte text line (p_col e') = Some (p_byte e')
    /\ substr (p_byte b') (p_byte e') text = v2
    /\ p_byte b' <= p_byte e' <= slenZ text.

(* ---- proved for EVERY parameter record that has the repairs, and every behaviour of the library ---- *)
Lemma irregular_before_runes : forall p u text line col, pp_runes p = true -> irregular_before p u text line col = false.
Proof. intros p u text line col H. unfold irregular_before. destruct (line_at text line); [|reflexivity]. now rewrite H. Qed.

Lemma pos_consistent_full_if : forall p u,
  line_table_fixed p = true -> pp_runes p = true -> pos_consistent_full p u.
Proof.
  intros p u Hl Hr text line col b Hb.
  apply pos_true_byte; [exact Hb | now apply line_table_fixed_ok | now apply irregular_before_runes].
Qed.

Lemma range_in_text_full_if : forall p u,
  line_table_fixed p = true -> pp_runes p = true -> pp_clamp p = true -> range_in_text_full p u.
Proof.
  intros p u Hl Hr Hc text n tb Hb Hle Hec Hel.
  destruct (range_bytes_ordered p u text n tb Hb (line_table_fixed_ok p Hl _)
              (irregular_before_runes p u _ _ _ Hr) Hle Hec Hel) as (e & Hn & _ & _ & H0 & H1 & H2).
  exists e. repeat split; auto.
Qed.

Lemma plain_scalar_slice_full_if : forall p u,
  line_table_fixed p = true -> pp_runes p = true -> pp_end_chars p = true -> plain_scalar_slice_full p u.
Proof.
  intros p u Hlt Hr He text pre a value z post tag Hl Ha Hv line col.
  destruct (plain_scalar_slice p u text pre a value z post tag Hl Ha Hv (or_introl He)
              (line_table_fixed_ok p Hlt _ _) (or_introl Hr)) as (Hn & Hs & H0 & H1 & H2 & _).
  eexists; eexists. split; [exact Hn|]. cbn [p_byte]. repeat split; assumption.
Qed.

Lemma scalar_subrange_full_if : forall p u,
  line_table_fixed p = true -> pp_runes p = true -> pp_end_chars p = true -> pp_sr_runes p = true ->
  scalar_subrange_full p u.
Proof.
  intros p u Hlt Hr He Hs text pre a v1 v2 v3 z post tag style value Hl Ha H1 H2 H3 Hst line col rng Hn.
  exact (scalar_subrange p u text pre a v1 v2 v3 z post tag style Hl Ha H1 H2 H3 (or_introl He) Hst
           (line_table_fixed_ok p Hlt _ _) (or_introl Hr) (or_introl Hs) rng Hn).
Qed.

(* ====================================================================================================
   Refutations: the full statements fail while the source has the defective value.  The library is
   [uniseg_simple wide]: what rivo/uniseg answers on ASCII plus single-code-point clusters (TAB: width 0;
   世: width 2); the correspondence replays the same documents against the real library
   (selftest/witness/C19-zero-width.json, C19-accessor-tab.json). *)

Definition u0 : uniseg := uniseg_simple [].
Definition wide_char : string := hx "e4b896".                       (* 世 *)
Definition u_wide : uniseg := uniseg_simple [wide_char].

(* yaml.v3 on "values:\n  é: {a: \"x\ty\", b: c}\n" puts the plain scalar c at line 2, column 20 *)
Definition tab_text : string := hx "76616c7565733a0a2020c3a93a207b613a202278097922" +++ hx "2c20623a20637d0a".
(* yaml.v3 on "values:\n  世: {a: b}\n" puts the key a at line 2, column 7 *)
Definition wide_text : string := hx "76616c7565733a0a2020e4b8963a207b613a20627d0a".

Definition bad_pos (p : pos_params) (u : uniseg) (text : string) (line col : Z) : bool :=
  match true_byte text line col, pos p u (new_position_index text) line col with
  | Some b, Some h => negb (p_byte h =? b)
  | Some _, None => true
  | None, _ => false
  end.

Lemma src_pos_consistent_refuted : pp_runes src_params = false ->
  bad_pos src_params u0 tab_text 2 20 = true /\ bad_pos src_params u_wide wide_text 2 7 = true.
Proof. intro H. revert H. vm_compute. intro H; first [discriminate H | split; reflexivity]. Qed.

Lemma bad_pos_not_full : forall p u text line col, bad_pos p u text line col = true -> ~ pos_consistent_full p u.
Proof.
  intros p u text line col Hb F. unfold bad_pos in Hb.
  destruct (true_byte text line col) as [b|] eqn:E; [|discriminate Hb].
  rewrite (F text line col b E) in Hb. cbn [p_byte] in Hb. rewrite Z.eqb_refl in Hb. discriminate Hb.
Qed.

Lemma src_pos_consistent_not_full : pp_runes src_params = false ->
  ~ pos_consistent_full src_params u0 /\ ~ pos_consistent_full src_params u_wide.
Proof.
  intros H. destruct (src_pos_consistent_refuted H) as [A B].
  split; eapply bad_pos_not_full; eassumption.
Qed.

(* both witnesses are outside the domain of the partial theorem, and only because of the one irregular cluster *)
Lemma refuted_witnesses_are_irregular : pp_runes src_params = false ->
  irregular_before src_params u0 tab_text 2 20 = true
  /\ irregular_before src_params u_wide wide_text 2 7 = true
  /\ irregular_before src_params u0 wide_text 2 7 = false.
Proof. intro H. revert H. vm_compute. intro H; first [discriminate H | repeat split; reflexivity]. Qed.

(* yaml.v3 on "values:\n  some_long_key_name: |\n    a\n": literal scalar "a\n" at line 2, column 23 *)
Definition literal_text : string := hx "76616c7565733a0a2020736f6d655f6c6f6e675f6b65795f6e616d653a207c0a20202020610a".
Definition literal_node : ynode := YNode 8 8 "!!str" (hx "610a") 2 23 false [].
Definition end_outside (p : pos_params) (u : uniseg) (text : string) (n : ynode) : bool :=
  match node_range p u (new_position_index text) n with
  | Some (_, e) => slenZ text <? p_byte e
  | None => false
  end.

Lemma src_range_in_text_refuted : pp_clamp src_params = false ->
  forall u, end_outside src_params u literal_text literal_node = true.
Proof. intros H u. revert H. vm_compute. intro H; first [discriminate H | reflexivity]. Qed.

Lemma src_range_in_text_not_full : pp_clamp src_params = false -> forall u, ~ range_in_text_full src_params u.
Proof.
  intros H u F. pose proof (src_range_in_text_refuted H u) as B.
  assert (Hp : lex_le 2 23 (fst (end_lc src_params literal_node)) (snd (end_lc src_params literal_node))
               /\ 1 <= snd (end_lc src_params literal_node)
               /\ fst (end_lc src_params literal_node) <= Z.of_nat (length (lines_of literal_text))).
  { revert H. vm_compute. intro H. first [discriminate H | (split; [left; reflexivity | split; discriminate])]. }
  destruct Hp as (H1 & H2 & H3).
  destruct (F literal_text literal_node 30 eq_refl H1 H2 H3) as (e & Hn & _ & _ & Hin).
  unfold end_outside in B. rewrite Hn in B. lia.
Qed.

(* the end of that node is reported in a column that its line does not have, whatever the parameters: the node is
   in the class [end_missing] the partial theorem excludes *)
Lemma strict_column_refuted : forall p,
  past_eol literal_text (fst (end_lc p literal_node)) (snd (end_lc p literal_node)) = true
  /\ end_missing p literal_text literal_node = true.
Proof. intros p. destruct p as [lo hi cl ru [|] tg sr]; split; reflexivity. Qed.

(* yaml.v3 on "values:\n  é: {ü: héllo, z: 1}\n": plain scalar héllo at line 2, column 10 *)
Definition nonascii_text : string := hx "76616c7565733a0a2020c3a93a207bc3bc3a2068c3a96c6c6f2c207a3a20317d0a".
Definition nonascii_value : string := hx "68c3a96c6c6f".
Definition bad_slice (p : pos_params) (u : uniseg) (text : string) (line col : Z) (value : string) : bool :=
  located text line col value
  && match node_range p u (new_position_index text) (YNode 8 0 "!!str" value line col false []) with
     | Some (b, e) => negb (String.eqb (substr (p_byte b) (p_byte e) text) value)
     | None => true
     end.

Lemma src_plain_scalar_slice_refuted : pp_end_chars src_params = false ->
  bad_slice src_params u0 nonascii_text 2 10 nonascii_value = true.
Proof. intro H. revert H. vm_compute. intro H; first [discriminate H | reflexivity]. Qed.

Lemma src_plain_scalar_slice_not_full : pp_end_chars src_params = false -> ~ plain_scalar_slice_full src_params u0.
Proof.
  intros H F. pose proof (src_plain_scalar_slice_refuted H) as B.
  destruct (F nonascii_text ["values:"] (hx "2020c3a93a207bc3bc3a20") nonascii_value ", z: 1}" [""] "!!str"
              eq_refl eq_refl eq_refl) as (b & e & Hn & Hs & _).
  assert (E : node_range src_params u0 (new_position_index nonascii_text)
                (YNode 8 0 "!!str" nonascii_value 2 10 false []) = Some (b, e)) by exact Hn.
  unfold bad_slice in B. rewrite E, Hs, String.eqb_refl in B. cbn [negb] in B.
  now rewrite andb_false_r in B.
Qed.

(* yaml.v3 on "values:\n  a: 1\n  b: x\t${a}\n": plain scalar "x\t${a}" at line 3, column 6; the accessor a is
   bytes [4, 5) of it *)
Definition sr_text : string := hx "76616c7565733a0a2020613a20310a2020623a207809247b617d0a".
Definition sr_value : string := hx "7809247b617d".
Definition bad_sub (p : pos_params) (u : uniseg) (text : string) (n : ynode) (st en : nat) : bool :=
  match node_range p u (new_position_index text) n with
  | Some rng =>
      match scalar_range p u n rng st en with
      | Some (b', _) => match true_byte text (p_line b') (p_col b') with
                        | Some x => negb (x =? p_byte b')
                        | None => true
                        end
      | None => true
      end
  | None => true
  end.

Lemma src_scalar_subrange_refuted : pp_sr_runes src_params = false ->
  bad_sub src_params u0 sr_text (YNode 8 0 "!!str" sr_value 3 6 false []) 4 5 = true.
Proof. intro H. revert H. vm_compute. intro H; first [discriminate H | reflexivity]. Qed.

Lemma src_scalar_subrange_not_full : pp_sr_runes src_params = false -> ~ scalar_subrange_full src_params u0.
Proof.
  intros H F. pose proof (src_scalar_subrange_refuted H) as B. unfold bad_sub in B.
  destruct (node_range src_params u0 (new_position_index sr_text) (YNode 8 0 "!!str" sr_value 3 6 false []))
    as [rng|] eqn:En.
  - destruct (F sr_text ["values:"; "  a: 1"] "  b: " (hx "7809247b") "a" "}" "" [""] "!!str" 0%N
                eq_refl eq_refl eq_refl eq_refl eq_refl (or_introl eq_refl) rng En)
      as (b' & e' & Hs & Hlb & _ & Htb & _).
    change (hx "7809247b" +++ "a" +++ "}") with sr_value in Hs.
    change (String.length (hx "7809247b")) with 4%nat in Hs.
    change (4 + String.length "a")%nat with 5%nat in Hs.
    change (Z.of_nat (length ["values:"; "  a: 1"]) + 1) with 3 in Hs, Hlb, Htb.
    change (nchars "  b: " + 1) with 6 in Hs.
    rewrite Hs, Hlb, Htb, Z.eqb_refl in B. discriminate B.
  - revert En. vm_compute. discriminate.
Qed.

(* ---- anchored scalars: yaml.v3 reports `&x 1` at the `&` (line 2, column 6) with value "1"; the code gives the
        range the length of the value from there ---- *)
Definition anchored_text : string := hx "76616c7565733a0a2020663a20267820310a".    (* "values:\n  f: &x 1\n" *)
Definition anchored_node : ynode := YNode 8 0 "!!int" "1" 2 6 true [].

Lemma anchored_slice_refuted : forall p u, line_table_fixed p = true ->
  exists b e, node_range p u (new_position_index anchored_text) anchored_node = Some (b, e)
              /\ substr (p_byte b) (p_byte e) anchored_text = "&"
              /\ true_byte anchored_text 2 6 = Some (p_byte b)
              /\ true_byte anchored_text 2 7 = Some (p_byte e).
Proof.
  intros p u H. unfold line_table_fixed in H. apply andb_prop in H. destruct H as [H1 H2].
  destruct p as [lo hi cl ru ec tg sr]. cbn [pp_lo pp_hi_incl] in *. subst hi.
  unfold node_range, yaml_end_pos, anchored_node. cbn [yn_line yn_col end_lc]. change (is_collection 8) with false.
  cbv iota. unfold scalar_end_lc. change (0 =? 8)%N with false. change (0 =? 1)%N with false. cbv iota.
  cbn [pp_end_chars]. assert (Hlen : str_len ec "1" = 1) by (destruct ec; reflexivity). rewrite Hlen.
  unfold pos. cbn [pp_lo pp_hi_incl pp_clamp].
  change (Z.of_nat (length (new_position_index anchored_text))) with 3.
  replace (2 <? lo) with false by lia. cbn [orb]. change (3 <? 2) with false. change (2 <? 1) with false. cbv iota.
  change (nth_error (new_position_index anchored_text) (Z.to_nat (2 - 1)))
    with (Some {| l_off := 8; l_ascii := true; l_line := "  f: &x 1" |}).
  cbn [l_ascii l_off l_line].
  destruct cl; do 2 eexists; (split; [reflexivity|]); repeat split; reflexivity.
Qed.

(* ---- non-vacuity on concrete documents ---- *)
Definition last_line_text : string := hx "76616c7565733a0a20206b3a206c617374".   (* "values:\n  k: last", no final newline *)

Lemma example_last_line : forall u,
  node_range src_params u (new_position_index last_line_text) (YNode 8 0 "!!str" "last" 2 6 false [])
  = Some ({| p_line := 2; p_col := 6; p_byte := 13 |}, {| p_line := 2; p_col := 10; p_byte := 17 |})
  /\ substr 13 17 last_line_text = "last"
  /\ lines_of last_line_text = ["values:"] ++ ("  k: " +++ "last" +++ "") :: [].
Proof. intros u. repeat split; reflexivity. Qed.

(* non-ASCII text before the node on its line: the key z of "values:\n  é: {ü: héllo, z: 1}\n" *)
Lemma example_nonascii_before :
  node_range src_params u0 (new_position_index nonascii_text) (YNode 8 0 "!!str" "z" 2 17 false [])
  = Some ({| p_line := 2; p_col := 17; p_byte := 27 |}, {| p_line := 2; p_col := 18; p_byte := 28 |})
  /\ substr 27 28 nonascii_text = "z"
  /\ located nonascii_text 2 17 "z" = true
  /\ irregular_before src_params u0 nonascii_text 2 18 = false.
Proof. repeat split; reflexivity. Qed.

(* a mapping: its range runs from its first key to the end of its last value *)
Lemma example_collection :
  let n := YNode 4 32 "!!map" "" 2 6 false [YNode 8 0 "!!int" "1" 2 20 false []] in
  node_range src_params u0 (new_position_index nonascii_text) n
  = Some ({| p_line := 2; p_col := 6; p_byte := 14 |}, {| p_line := 2; p_col := 21; p_byte := 31 |})
  /\ ordered n.
Proof. split; [reflexivity | cbn; unfold lex_le; intros _; split; [lia | discriminate]]. Qed.

(* the all-nodes theorem is not vacuous on the node the partial theorem excludes: the block scalar *)
Lemma example_block_scalar_ordered : forall u,
  end_missing src_params literal_text literal_node = true
  /\ exists e, node_range src_params u (new_position_index literal_text) literal_node
               = Some ({| p_line := 2; p_col := 23; p_byte := 30 |}, e) /\ 30 <= p_byte e.
Proof.
  intros u. split; [apply strict_column_refuted|].
  assert (Hp : lex_le 2 23 (fst (end_lc src_params literal_node)) (snd (end_lc src_params literal_node))
               /\ 1 <= snd (end_lc src_params literal_node)
               /\ fst (end_lc src_params literal_node) <= Z.of_nat (length (lines_of literal_text))).
  { vm_compute. split; [left; reflexivity | split; discriminate]. }
  destruct Hp as (H1 & H2 & H3).
  destruct (src_range_bytes_ordered u literal_text literal_node 30 eq_refl eq_refl H1 H2 H3)
    as (e & Hn & _ & _ & _ & Hle).
  exists e. split; [exact Hn | exact Hle].
Qed.

(* a record with every repair exists and satisfies the premises of the `_full_if` lemmas *)
Definition repaired_params : pos_params :=
  {| pp_lo := 1; pp_hi_incl := true; pp_clamp := true; pp_runes := true; pp_end_chars := true; pp_tag_chars := true;
     pp_sr_runes := true |}.

Lemma example_repaired_record :
  line_table_fixed repaired_params = true /\ pp_runes repaired_params = true /\ pp_clamp repaired_params = true
  /\ pp_end_chars repaired_params = true /\ pp_sr_runes repaired_params = true
  /\ forall u, pos_consistent_full repaired_params u /\ range_in_text_full repaired_params u
               /\ plain_scalar_slice_full repaired_params u /\ scalar_subrange_full repaired_params u.
Proof.
  repeat split; try reflexivity.
  - now apply pos_consistent_full_if.
  - now apply range_in_text_full_if.
  - now apply plain_scalar_slice_full_if.
  - now apply scalar_subrange_full_if.
Qed.
